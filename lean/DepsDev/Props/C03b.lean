import DepsDev.Props.C03
import DepsDev.Proofs.C03L2GoodNpmA
import DepsDev.Proofs.C03L2GoodNpmB
import DepsDev.Proofs.C03L2GoodCargoA
import DepsDev.Proofs.C03L2GoodCargoB
import DepsDev.Proofs.C03L2Ref
import DepsDev.Proofs.C03L2Ast
import DepsDev.Proofs.C03L2Check

/-!
# C03, layers L2 and L3 — AND lists, OR lists, multi-comparator requirements

Continues `Props/C03.lean` (imported nowhere else).

**L2, set level** (all well-formed spans — `SpanOK`, the invariant `newSpan` establishes, C09):
`L2_and_wf`, `L2_or_wf` are the statements `L2_and`, `L2_or` of `Props/C03.lean` restricted to
well-formed spans (and, for OR, to a non-empty list with tidy release bounds); both are proved for
npm, Cargo (and Default, Go). The literal `L2_or` is false on the empty span list (`L2_or_literal_refuted`:
a `Set` without spans matches every release).

**L1+L2, AST level** (`npm_release_partial`, `cargo_release_partial`): for every requirement
that is a list of alternatives of lists of L1-domain comparators and every release candidate,
matching against the set the parser builds from the comparators (`astSet`: `opVersionToSpan`
per comparator, `Intersect` fold per alternative, `canon` of the concatenation) is
`Ref.NpmRange.satisfies` / `Ref.CargoReq.matches`. No finding-class hypothesis is needed: every
finding class of C03 other than the hyphen and `<1.x.2` shapes (outside the L1 domain) needs a
prerelease candidate (`npm_release_classes_nil`).
-/
namespace DepsDev.Props.C03

open DepsDev DepsDev.Semver DepsDev.Ref DepsDev.Proofs.C03 DepsDev.Proofs.C09

/-! ## L2 on the set level -/

/-- `L2_and` on well-formed spans. -/
def L2_and_wf (sys : System) : Prop :=
  ∀ (s1 s2 : Span) (i : VSet) (x : SemVerAst) (b1 b2 b : Bool), RelCand x → SpanOK sys s1 → SpanOK sys s2 →
    VSet.intersect ⟨.default, [s1]⟩ ⟨.default, [s2]⟩ = .ok i →
    s1.contains (embedVer sys x) false = .ok b1 → s2.contains (embedVer sys x) false = .ok b2 →
    i.matchVersion (embedVer sys x) false = .ok b → b = (b1 && b2)

theorem relCand_release {sys : System} {x : SemVerAst} (hx : RelCand x) : (embedVer sys x).isPrerelease = false := by
  simp [embedVer, hx.rel]

/-- **L2, AND** (proved): for every pair of well-formed spans and every release candidate,
matching against `Intersect({s1}, {s2})` is the conjunction of the two memberships. -/
theorem L2_and_proved (sys : System) (hs : Sys4 sys) : L2_and_wf sys := by
  intro s1 s2 i x b1 b2 b hx h1 h2 hi hb1 hb2 hb
  have triv : ∀ sp : Span, AllB (fun _ => True) sp := fun _ => ⟨fun _ _ => trivial, fun _ _ => trivial⟩
  obtain ⟨r, e, ⟨hr, -⟩, hv⟩ := intersect_one (s := sys) (fun _ => True) ⟨h1, triv s1⟩ ⟨h2, triv s2⟩
  rw [e] at hi
  injection hi with hi
  subst hi
  have hvg : VG sys (embedVer sys x) := ⟨rfl, rfl⟩
  have hrel := relCand_release (sys := sys) hx
  rw [contains_rel h1 hvg hrel] at hb1
  rw [contains_rel h2 hvg hrel] at hb2
  rw [matchVersion_rel hs .default (by simp) (by simpa using hr) hvg hrel] at hb
  injection hb1 with hb1
  injection hb2 with hb2
  injection hb with hb
  rw [← hb, ← hb1, ← hb2]
  simp [hv]

theorem L2_and_npm : L2_and_wf .npm := L2_and_proved .npm sys4_npm
theorem L2_and_cargo : L2_and_wf .cargo := L2_and_proved .cargo sys4_cargo

/-- `L2_or` on a non-empty list of well-formed spans whose release bounds are tidy. -/
def L2_or_wf (sys : System) : Prop :=
  ∀ (spans out : List Span) (x : SemVerAst) (b : Bool), RelCand x → spans ≠ [] →
    (∀ sp ∈ spans, SpanOK sys sp ∧ AllB TidyR sp) →
    canonSpans spans = .ok out → (VSet.mk sys out).matchVersion (embedVer sys x) false = .ok b →
    b = spans.any (fun s => s.contains (embedVer sys x) false == .ok true)

theorem relCand_bounded {sys : System} {x : SemVerAst} (hx : RelCand x) : Bounded (embedVer sys x) := by
  refine ⟨by simp [embedVer], ?_⟩
  intro y hy
  simp only [embedVer, List.mem_cons, List.not_mem_nil, or_false] at hy
  rw [inf_val]
  have k : ∀ n : Nat, n < B∞ → (0 : Int) ≤ (n : Int) ∧ (n : Int) ≤ (9223372036854775807 : Int) := by
    intro n hn; constructor <;> omega
  rcases hy with rfl | rfl | rfl
  · exact k _ hx.major
  · exact k _ hx.minor
  · exact k _ hx.patch

/-- **L2, OR** (proved): for every non-empty list of well-formed spans with tidy release bounds
and every release candidate, matching against `canon` of the list is "some span contains it". -/
theorem L2_or_proved (sys : System) (hs : Sys4 sys) : L2_or_wf sys := by
  intro spans out x b hx hne hok hc hb
  obtain ⟨r, e, h1, h2, h3⟩ := orCanon_spec (s := sys) hs.ne.1 spans hok
  rw [e] at hc
  injection hc with hc
  subst hc
  have hvg : VG sys (embedVer sys x) := ⟨rfl, rfl⟩
  have hrel := relCand_release (sys := sys) hx
  rw [matchVersion_rel hs sys (h2 hne) h1 hvg hrel] at hb
  injection hb with hb
  rw [← hb, h3 _ (relCand_bounded hx) (by simp [embedVer, embedPre, hx.rel])]
  unfold anyHas
  rw [Bool.eq_iff_iff, List.any_eq_true, List.any_eq_true]
  constructor
  · rintro ⟨sp, hsp, h⟩
    exact ⟨sp, hsp, by rw [contains_rel (hok sp hsp).1 hvg hrel, h]; rfl⟩
  · rintro ⟨sp, hsp, h⟩
    refine ⟨sp, hsp, ?_⟩
    rw [contains_rel (hok sp hsp).1 hvg hrel] at h
    cases hh : has sys sp (embedVer sys x)
    · rw [hh] at h; cases h
    · rfl

theorem L2_or_npm : L2_or_wf .npm := L2_or_proved .npm sys4_npm
theorem L2_or_cargo : L2_or_wf .cargo := L2_or_proved .cargo sys4_cargo

/-- The literal `L2_or` fails on the empty list: `canon [] = []` and a `Set` without spans matches
every release (a slip of the statement, not of the code: the parser never builds such a set from
a non-empty list, `SetOK`). -/
theorem L2_or_literal_refuted : ¬ L2_or .npm := by
  intro h
  have := h [] [] ⟨1, 0, 0, []⟩ true ⟨rfl, by decide, by decide, by decide⟩ (by decide) (by decide +kernel)
  simp at this

/-! ## One comparator: layer L1 plus well-formedness of its span -/

theorem goodNpm_all (op : Op) : GoodNpm op := by
  cases op
  · exact good_npm_none
  · exact good_npm_eq
  · exact good_npm_gt
  · exact good_npm_ge
  · exact good_npm_lt
  · exact good_npm_le
  · exact good_npm_caret
  · exact good_npm_tilde

theorem goodCargo_all (op : Op) : GoodCargo op := by
  cases op
  · exact good_cargo_none
  · exact good_cargo_eq
  · exact good_cargo_gt
  · exact good_cargo_ge
  · exact good_cargo_lt
  · exact good_cargo_le
  · exact good_cargo_caret
  · exact good_cargo_tilde

/-- From "membership of the span the operator builds = `b`" (layer L1) and `GoodOut` to the
comparator's specification. -/
theorem compSpec_of {sys : System} (_hs : Sys4 sys) {tok : Nat} {p : Partial} {x : SemVerAst} {b : Bool}
    (hx : RelCand x) (hgood : GoodOut sys (opVersionToSpan tok (embedPartial sys p)))
    (h : spanSat sys tok p x = .ok b) :
    ∃ sp, opVersionToSpan tok (embedPartial sys p) = .ok sp ∧ Good sys sp ∧ has sys sp (embedVer sys x) = b := by
  unfold spanSat at h
  cases ho : opVersionToSpan tok (embedPartial sys p) with
  | err => rw [ho] at h; cases h
  | panic => rw [ho] at h; cases h
  | ok sp =>
    rw [ho] at h
    have hg := hgood sp ho
    have hc : sp.contains (embedVer sys x) false = .ok b := h
    rw [contains_rel hg.1 ⟨rfl, rfl⟩ (relCand_release hx)] at hc
    injection hc with hc
    exact ⟨sp, rfl, hg, hc⟩

/-- npm: the span of an L1-domain comparator is `Good` and contains a release candidate iff
node's desugared comparators accept it. -/
theorem npm_compSpec (c : Comparator) (hc : L1Dom c) (x : SemVerAst) (hx : RelCand x) :
    CompSpec .npm (embedVer .npm x) (fun c => (desugarComparator c).all (·.test x)) c :=
  compSpec_of sys4_npm hx (goodNpm_all c.op c.p.nums hc.shape c.p.pre hc.pre) (npm_L1 c hc x hx)

/-- Cargo: the same against the crate's `matches_impl`. -/
theorem cargo_compSpec (c : Comparator) (hc : L1Dom c)
    (hstar : c.p.nums ≠ [.x] ∧ c.p.nums ≠ [.x, .x] ∧ c.p.nums ≠ [.x, .x, .x]) (x : SemVerAst) (hx : RelCand x) :
    CompSpec .cargo (embedVer .cargo x) (fun c => matchesImpl (cargoComparator c) x) c :=
  compSpec_of sys4_cargo hx (goodCargo_all c.op c.p.nums hc.shape c.p.pre hc.pre) (cargo_L1 c hc hstar x hx)

/-! ## Multi-comparator requirements, release candidates -/

/-- **npm, release candidates** (partial theorem: AST level). For every requirement made of
alternatives (`||`) of comparator lists in the L1 domain and every release candidate, the set the
constraint parser computes from the comparators (`astSet`) exists, is well-formed, and matching the
candidate against it gives `semver.satisfies`. Missing for `C03_npm_partial`: the string layer
(`parseConstraint (renderNpm r) = astSet r`, see `C03L2Parse` for the token-level statement), hyphen
alternatives, and prerelease candidates (layer L3). -/
theorem npm_release_partial (r : List (List Comparator)) (hne : r ≠ []) (hnil : ∀ cs ∈ r, cs ≠ [])
    (hdom : ∀ cs ∈ r, ∀ c ∈ cs, L1Dom c) (x : SemVerAst) (hx : RelCand x) :
    ∃ S, astSet .npm r = .ok S ∧ S.sys = .npm ∧ SetOK .npm S ∧
      S.matchVersion (embedVer .npm x) false = .ok (NpmRange.satisfies (r.map Alt.comps) x) := by
  obtain ⟨S, e, hsys, hok, hm⟩ := astMatch_spec .npm sys4_npm r hne hnil x hx.rel hx.major hx.minor hx.patch
    (fun c => (desugarComparator c).all (·.test x)) (fun cs hcs c hc => npm_compSpec c (hdom cs hcs c hc) x hx)
  exact ⟨S, e, hsys, hok, by rw [hm, satisfies_release_comps r hne x hx.rel]⟩

/-- The same as one equation. -/
theorem npm_release_match (r : List (List Comparator)) (hne : r ≠ []) (hnil : ∀ cs ∈ r, cs ≠ [])
    (hdom : ∀ cs ∈ r, ∀ c ∈ cs, L1Dom c) (x : SemVerAst) (hx : RelCand x) :
    astMatch .npm r x = .ok (NpmRange.satisfies (r.map Alt.comps) x) := by
  obtain ⟨S, e, -, -, hm⟩ := npm_release_partial r hne hnil hdom x hx
  simp only [astMatch, e, bind, Outcome.bind]
  exact hm

/-- **Cargo, release candidates** (partial theorem: AST level): one comma-separated comparator
list in the L1 domain (no bare `*` among several comparators). -/
theorem cargo_release_partial (cs : List Comparator) (hne : cs ≠ []) (hdom : ∀ c ∈ cs, L1Dom c)
    (hstar : ∀ c ∈ cs, c.p.nums ≠ [.x] ∧ c.p.nums ≠ [.x, .x] ∧ c.p.nums ≠ [.x, .x, .x])
    (x : SemVerAst) (hx : RelCand x) :
    ∃ S, astSet .cargo [cs] = .ok S ∧ S.sys = .cargo ∧ SetOK .cargo S ∧
      S.matchVersion (embedVer .cargo x) false = .ok (CargoReq.matches [.comps cs] x) := by
  obtain ⟨S, e, hsys, hok, hm⟩ := astMatch_spec .cargo sys4_cargo [cs] (by simp) (by simpa using hne) x hx.rel
    hx.major hx.minor hx.patch (fun c => matchesImpl (cargoComparator c) x)
    (fun cs' hcs c hc => by
      rw [List.mem_singleton] at hcs
      subst hcs
      exact cargo_compSpec c (hdom c hc) (hstar c hc) x hx)
  refine ⟨S, e, hsys, hok, ?_⟩
  rw [hm, matches_release cs x hx.rel]
  · simp
  · intro c hc
    have hs := (hdom c hc).shape
    obtain ⟨h1, h2, h3⟩ := hstar c hc
    obtain ⟨op, nums, pre⟩ := c
    simp only at hs h1 h2 h3
    cases hs <;> simp_all [Partial.isX]

theorem cargo_release_match (cs : List Comparator) (hne : cs ≠ []) (hdom : ∀ c ∈ cs, L1Dom c)
    (hstar : ∀ c ∈ cs, c.p.nums ≠ [.x] ∧ c.p.nums ≠ [.x, .x] ∧ c.p.nums ≠ [.x, .x, .x])
    (x : SemVerAst) (hx : RelCand x) :
    astMatch .cargo [cs] x = .ok (CargoReq.matches [.comps cs] x) := by
  obtain ⟨S, e, -, -, hm⟩ := cargo_release_partial cs hne hdom hstar x hx
  simp only [astMatch, e, bind, Outcome.bind]
  exact hm

/-! ## Token level: through `ParseConstraint` and `Constraint.Match` -/

theorem renderVer_eq (v : SemVerAst) : renderVer v = verText v := by
  unfold renderVer verText renderPre
  congr 2

/-- `Constraint.Match` of an accepted npm/Cargo constraint on a text that parses to `v`. -/
theorem matchStr_of_parse {sys : System} (hsys : sys = .npm ∨ sys = .cargo) {c : Constraint} (hc : c.sys = sys)
    {cand : Bytes} {v : Version} (hp : parse sys cand = .ok v) :
    c.matchStr cand = c.set.matchVersion v false := by
  unfold Constraint.matchStr Constraint.matchV
  rw [hc, hp]
  rcases hsys with rfl | rfl <;> rfl

/-- **npm, release candidates, token level** (partial theorem). If the tokeniser splits the
requirement text `req` into the tokens of the AST `r` (`LexOr`; decided by `lexOrB` for any concrete
text) and `Parse` maps the candidate text to the candidate's embedding (`parse_verText` proves this
for every canonical candidate text), then `ParseConstraint` accepts `req` and `Match` answers
`semver.satisfies`. Missing for `C03_npm_partial`: `LexOr .npm r (renderNpm r)` for ALL `r` (the
tokeniser and `Parse` on rendered partial operands), hyphen alternatives, prerelease candidates. -/
theorem npm_release_tokens_partial (r : List (List Comparator)) (hne : r ≠ []) (hnil : ∀ cs ∈ r, cs ≠ [])
    (hdom : ∀ cs ∈ r, ∀ c ∈ cs, L1Dom c) (x : SemVerAst) (hx : RelCand x) (req cand : Bytes)
    (hreq : Bytes.trimSpace req ≠ []) (hlex : LexOr .npm r (Bytes.trimSpace req))
    (hcand : parse .npm cand = .ok (embedVer .npm x)) :
    Agree .npm req cand (NpmRange.satisfies (r.map Alt.comps) x) ∧ NotRejected .npm req := by
  obtain ⟨S, hS, -, -, hm⟩ := npm_release_partial r hne hnil hdom x hx
  obtain ⟨c, hc, hset, hsys, -⟩ := parseConstraint_tokens .npm (Or.inl rfl) r req hreq hlex S hS
  refine ⟨?_, by unfold NotRejected; rw [hc]; rfl⟩
  intro c' hc'
  rw [hc] at hc'
  injection hc' with hc'
  subst hc'
  rw [matchStr_of_parse (Or.inl rfl) hsys hcand, hset, hm]

/-- **Cargo, release candidates, token level** (partial theorem). -/
theorem cargo_release_tokens_partial (cs : List Comparator) (hne : cs ≠ []) (hdom : ∀ c ∈ cs, L1Dom c)
    (hstar : ∀ c ∈ cs, c.p.nums ≠ [.x] ∧ c.p.nums ≠ [.x, .x] ∧ c.p.nums ≠ [.x, .x, .x])
    (x : SemVerAst) (hx : RelCand x) (req cand : Bytes)
    (hreq : Bytes.trimSpace req ≠ []) (hlex : LexOr .cargo [cs] (Bytes.trimSpace req))
    (hcand : parse .cargo cand = .ok (embedVer .cargo x)) :
    Agree .cargo req cand (CargoReq.matches [.comps cs] x) ∧ NotRejected .cargo req := by
  obtain ⟨S, hS, -, -, hm⟩ := cargo_release_partial cs hne hdom hstar x hx
  obtain ⟨c, hc, hset, hsys, -⟩ := parseConstraint_tokens .cargo (Or.inr rfl) [cs] req hreq hlex S hS
  refine ⟨?_, by unfold NotRejected; rw [hc]; rfl⟩
  intro c' hc'
  rw [hc] at hc'
  injection hc' with hc'
  subst hc'
  rw [matchStr_of_parse (Or.inr rfl) hsys hcand, hset, hm]

/-- The candidate's text: for every release candidate, `Parse (renderVer x)` is the embedding. -/
theorem parse_renderVer_release (sys : System) (hsys : sys = .npm ∨ sys = .cargo) (x : SemVerAst) (hx : RelCand x) :
    parse sys (renderVer x) = .ok (embedVer sys x) := by
  rw [renderVer_eq]
  refine parse_verText sys ?_ ?_ x hx.major hx.minor hx.patch ?_
  · rcases hsys with rfl | rfl <;> decide
  · rcases hsys with rfl | rfl <;> decide
  · intro i hi; rw [hx.rel] at hi; cases hi

/-! ## Non-vacuity: the hypotheses hold for concrete requirements, on the string level -/

/-- `>=1.2.3 <2 || ^0.3` -/
def ex_npm : List (List Comparator) :=
  [[⟨.ge, ⟨[.n 1, .n 2, .n 3], []⟩⟩, ⟨.lt, ⟨[.n 2], []⟩⟩], [⟨.caret, ⟨[.n 0, .n 3], []⟩⟩]]

/-- `>=1.2.3-rc.1, <1.4, 1.x` -/
def ex_cargo : List Comparator :=
  [⟨.ge, ⟨[.n 1, .n 2, .n 3], [.alnum "rc", .num 1]⟩⟩, ⟨.lt, ⟨[.n 1, .n 4], []⟩⟩, ⟨.none, ⟨[.n 1, .x], []⟩⟩]

theorem ex_npm_dom : ∀ cs ∈ ex_npm, ∀ c ∈ cs, L1Dom c := by
  intro cs hcs c hc
  simp only [ex_npm, List.mem_cons, List.not_mem_nil, or_false] at hcs
  rcases hcs with rfl | rfl
  · simp only [List.mem_cons, List.not_mem_nil, or_false] at hc
    rcases hc with rfl | rfl
    · exact ⟨TShape.n3 1 2 3 (by decide) (by decide) (by decide), by simp, by simp⟩
    · exact ⟨TShape.n1 2 (by decide), by simp, by simp⟩
  · simp only [List.mem_cons, List.not_mem_nil, or_false] at hc
    subst hc
    exact ⟨TShape.n2 0 3 (by decide) (by decide), by simp, by simp⟩

theorem ex_cargo_dom : ∀ c ∈ ex_cargo, L1Dom c := by
  intro c hc
  simp only [ex_cargo, List.mem_cons, List.not_mem_nil, or_false] at hc
  rcases hc with rfl | rfl | rfl
  · exact ⟨TShape.n3 1 2 3 (by decide) (by decide) (by decide), by simp, by simp⟩
  · exact ⟨TShape.n2 1 4 (by decide) (by decide), by simp, by simp⟩
  · exact ⟨TShape.nx 1 (by decide), by simp, by simp⟩

/-- The rendered texts, and the token-level hypothesis on them (by evaluation of the tokeniser and `Parse`). -/
example : renderNpm (ex_npm.map Alt.comps) = bs ">=1.2.3 <2 || ^0.3" ∧
    renderCargo [.comps ex_cargo] = bs ">=1.2.3-rc.1,<1.4,1.x" := by
  constructor <;> decide +kernel

theorem ex_npm_lex : LexOr .npm ex_npm (Bytes.trimSpace (renderNpm (ex_npm.map Alt.comps))) ∧
    Bytes.trimSpace (renderNpm (ex_npm.map Alt.comps)) ≠ [] :=
  ⟨lexOr_of_b (by decide +kernel), by decide +kernel⟩

theorem ex_cargo_lex : LexOr .cargo [ex_cargo] (Bytes.trimSpace (renderCargo [.comps ex_cargo])) ∧
    Bytes.trimSpace (renderCargo [.comps ex_cargo]) ≠ [] :=
  ⟨lexOr_of_b (by decide +kernel), by decide +kernel⟩

/-- **String level, one concrete npm requirement, every release candidate**: on the rendered text
`>=1.2.3 <2 || ^0.3` and the rendered text of any release candidate, `ParseConstraint`/`Match`
give `semver.satisfies`. -/
theorem ex_npm_string (x : SemVerAst) (hx : RelCand x) :
    Agree .npm (renderNpm (ex_npm.map Alt.comps)) (renderVer x) (NpmRange.satisfies (ex_npm.map Alt.comps) x) ∧
      NotRejected .npm (renderNpm (ex_npm.map Alt.comps)) :=
  npm_release_tokens_partial ex_npm (by decide) (by decide) ex_npm_dom x hx _ _ ex_npm_lex.2 ex_npm_lex.1
    (parse_renderVer_release .npm (Or.inl rfl) x hx)

/-- **String level, one concrete Cargo requirement, every release candidate.** -/
theorem ex_cargo_string (x : SemVerAst) (hx : RelCand x) :
    Agree .cargo (renderCargo [.comps ex_cargo]) (renderVer x) (CargoReq.matches [.comps ex_cargo] x) ∧
      NotRejected .cargo (renderCargo [.comps ex_cargo]) :=
  cargo_release_tokens_partial ex_cargo (by decide) ex_cargo_dom (by decide) x hx _ _ ex_cargo_lex.2 ex_cargo_lex.1
    (parse_renderVer_release .cargo (Or.inr rfl) x hx)

/-- Hypotheses of the set-level theorems: two well-formed spans with tidy bounds (`>=1.2.3`, `<2`). -/
example : ∃ s1 s2, compSpan .npm ⟨.ge, ⟨[.n 1, .n 2, .n 3], []⟩⟩ = .ok s1 ∧ compSpan .npm ⟨.lt, ⟨[.n 2], []⟩⟩ = .ok s2 ∧
    Good .npm s1 ∧ Good .npm s2 := by
  obtain ⟨s1, e1, g1, -⟩ := npm_compSpec ⟨.ge, ⟨[.n 1, .n 2, .n 3], []⟩⟩
    ⟨TShape.n3 1 2 3 (by decide) (by decide) (by decide), by simp, by simp⟩
    ⟨1, 5, 0, []⟩ ⟨rfl, by decide, by decide, by decide⟩
  obtain ⟨s2, e2, g2, -⟩ := npm_compSpec ⟨.lt, ⟨[.n 2], []⟩⟩ ⟨TShape.n1 2 (by decide), by simp, by simp⟩
    ⟨1, 5, 0, []⟩ ⟨rfl, by decide, by decide, by decide⟩
  exact ⟨s1, s2, e1, e2, g1, g2⟩

end DepsDev.Props.C03
