import DepsDev.Props.C01
import DepsDev.Proofs.C01MavenNum

/-!
# C01 for Maven — the comparator is a total preorder on the Maven-Central shape
# without `ZeroDotQual`

Statement at full strength, then what is proved (model: `mavenCompare` / `vcompare` of
`Model/Semver/Compare.lean`, mirroring `maven.go` after repair F6).

* `MavenFull` — "`vcompare` is a lawful total preorder on all Maven versions whose elements
  have the shape of DESIGN 6.4 (`MavenShape`)" — is **false**: `maven_full_false`, from the
  witness `4.1 < 4.1-jre < 4.1.0.Beta1 < 4.1` (finding F-C01-mvn-zeroq; `4.1.0.Beta1` is
  `ZeroDotQual`).
* `maven_shape` (the `_partial` theorem; stage M4, which contains M1–M3): on
  `MavenShape ∧ ¬ZeroDotQual` the comparison never fails and is the `Int` rendering of a
  `Std.TransCmp` comparator; `maven_laws` spells out the four clauses of the property.
* `maven_good`: the same on the larger, shape-free domain `MavenGood` (any number of
  qualifiers and numbers in any order; the only conditions are separator/trim hygiene and
  "a literal `.0` is followed by something greater than nothing").
* `maven_numeric` (stage M1, explicit): on number-only lists the order is the
  lexicographic order of the values with a proper prefix smaller.
* `maven_no_panic`: the `panic(bCategory)` site of `mavenUnknownQualifierCompare` is
  unreachable when no element text starts with `.` or `-`.
* `vcompare_maven`: the explicit comparator, `mavenLex` on the key lists.
-/
namespace DepsDev.Props.C01Maven

open Std DepsDev DepsDev.Semver DepsDev.Proofs DepsDev.Props.C01

/-- The elements of a Maven version. -/
def mavenElems (v : Version) : List MavenElem :=
  match v.ext with
  | .maven e => e
  | _ => []

/-- Maven versions with elements of the Maven-Central shape (DESIGN 6.4). -/
def InShape (v : Version) : Prop := WF .maven v ∧ MavenShape (mavenElems v) = true

/-- … and no zero-valued number directly followed by a `.`-separated qualifier. -/
def InDomain (v : Version) : Prop :=
  WF .maven v ∧ MavenShape (mavenElems v) = true ∧ ZeroDotQual (mavenElems v) = false

/-- The larger domain of `Proofs/C01MavenLex.lean`. -/
def InGood (v : Version) : Prop := WF .maven v ∧ MavenGood (mavenElems v) = true

/-- Stage M1: numbers only. -/
def InNumeric (v : Version) : Prop := WF .maven v ∧ MavenNumeric (mavenElems v) = true

instance (v : Version) : Decidable (MavenShape (mavenElems v) = true) := inferInstance
instance (l : List MavenElem) : Decidable (MavenShape l = true ∧ ZeroDotQual l = false) := inferInstance

/-- C01 for Maven at full strength (false: `maven_full_false`). -/
def MavenFull : Prop := TotalPreorderOn InShape

/-- The comparator rendered by `vcompare` on Maven versions. -/
def mavenOrd (a b : Version) : Ordering := mavenLex (mavenElems a) (mavenElems b)

instance : TransCmp mavenOrd := TransCmp.comap mavenLex mavenElems

theorem vcompare_maven_elems (a b : Version) (ha : WF .maven a) (hb : WF .maven b) :
    vcompare a b = mavenCompare (mavenElems a) (mavenElems b) := by
  obtain ⟨sa, ea, ha'⟩ := ha
  obtain ⟨sb, eb, hb'⟩ := hb
  unfold vcompare mavenElems
  simp [sa, sb, ha', hb']

/-- **Lift to versions**, explicit form. -/
theorem vcompare_maven (a b : Version) (ha : InGood a) (hb : InGood b) :
    vcompare a b = .ok (ordToInt (mavenOrd a b)) := by
  rw [vcompare_maven_elems a b ha.1 hb.1]
  exact mavenCompare_eq ha.2 hb.2

/-- **Maven, general domain** (`MavenGood`). -/
theorem maven_good : TotalPreorderOn InGood :=
  ⟨mavenOrd, inferInstance, fun a b ha hb => vcompare_maven a b ha hb⟩

/-- A total preorder on a class is one on every subclass. -/
theorem TotalPreorderOn.mono {P Q : Version → Prop} (h : ∀ v, Q v → P v) (hp : TotalPreorderOn P) :
    TotalPreorderOn Q := by
  obtain ⟨c, hT, hc⟩ := hp
  exact ⟨c, hT, fun a b ha hb => hc a b (h a ha) (h b hb)⟩

theorem inGood_of_inDomain (v : Version) (h : InDomain v) : InGood v :=
  ⟨h.1, mavenGood_of_shape h.2.1 h.2.2⟩

/-- **Maven on the Maven-Central shape without `ZeroDotQual`** (stage M4 ⊇ M3 ⊇ M2 ⊇ M1). -/
theorem maven_shape : TotalPreorderOn InDomain :=
  TotalPreorderOn.mono inGood_of_inDomain maven_good

/-- The four clauses of the property on that domain: total (sign-valued, never failing),
reflexive, antisymmetric in sign, transitive with strictness, congruent. -/
theorem maven_laws : Laws InDomain := laws maven_shape

theorem maven_good_laws : Laws InGood := laws maven_good

/-- Element-list form of `maven_shape`. -/
theorem mavenCompare_shape (a b : List MavenElem)
    (ha : MavenShape a = true) (za : ZeroDotQual a = false)
    (hb : MavenShape b = true) (zb : ZeroDotQual b = false) :
    mavenCompare a b = .ok (ordToInt (mavenLex a b)) :=
  mavenCompare_eq (mavenGood_of_shape ha za) (mavenGood_of_shape hb zb)

/-- **Stage M1, explicit**: number-only versions compare as the lists of their values,
lexicographically, a proper prefix being smaller. -/
theorem maven_numeric (a b : Version) (ha : InNumeric a) (hb : InNumeric b) :
    vcompare a b = .ok (ordToInt (List.compareLex compare (mavenInts (mavenElems a)) (mavenInts (mavenElems b)))) := by
  rw [vcompare_maven_elems a b ha.1 hb.1]
  exact mavenCompare_numeric ha.2 hb.2

theorem inDomain_of_inNumeric (v : Version) (h : InNumeric v) : InDomain v :=
  ⟨h.1, shape_of_numeric h.2⟩

/-- Stage M1 as a total preorder. -/
theorem maven_numeric_preorder : TotalPreorderOn InNumeric :=
  TotalPreorderOn.mono inDomain_of_inNumeric maven_shape

/-- **No panic** on element lists none of whose texts starts with `.` or `-` (in
particular on everything `mavenInit` produces from non-empty components). -/
theorem maven_no_panic (a b : List MavenElem) (ha : noSepStart a = true) (hb : noSepStart b = true) :
    ∃ r, mavenCompare a b = .ok r :=
  mavenCompare_ok ha hb

theorem maven_no_panic_shape (a b : Version) (ha : InShape a) (hb : InShape b) :
    ∃ r, vcompare a b = .ok r := by
  rw [vcompare_maven_elems a b ha.1 hb.1]
  exact mavenCompare_ok (noSepStart_of_shape ha.2) (noSepStart_of_shape hb.2)

/-- `System.Compare` on two strings that parse into the domain is `vcompare`, hence lawful. -/
theorem compareStr_maven (s1 s2 : Bytes) (a b : Version)
    (h1 : parse .maven s1 = .ok a) (h2 : parse .maven s2 = .ok b) (ha : InGood a) (hb : InGood b) :
    compareStr .maven s1 s2 = .ok (ordToInt (mavenOrd a b)) := by
  unfold compareStr
  simp only [h1, h2]
  exact vcompare_maven a b ha hb

/-! ### The clause `¬ZeroDotQual` is necessary -/

theorem mvX_shape : MavenShape mvX = true ∧ ZeroDotQual mvX = false := by decide
theorem mvY_shape : MavenShape mvY = true ∧ ZeroDotQual mvY = false := by decide
theorem mvZ_shape : MavenShape mvZ = true ∧ ZeroDotQual mvZ = true := by decide

/-- The full statement fails: `4.1 < 4.1-jre < 4.1.0.Beta1 < 4.1`, all three of the shape. -/
theorem maven_full_false : ¬ MavenFull := by
  intro h
  have L := laws h
  have hx : InShape (mv mvX) := ⟨⟨rfl, _, rfl⟩, mvX_shape.1⟩
  have hy : InShape (mv mvY) := ⟨⟨rfl, _, rfl⟩, mvY_shape.1⟩
  have hz : InShape (mv mvZ) := ⟨⟨rfl, _, rfl⟩, mvZ_shape.1⟩
  have := (L.trans_le (mv mvX) (mv mvY) (mv mvZ) (-1) (-1) 1 hx hy hz
    (by decide +kernel) (by decide +kernel) (by decide +kernel) (by decide) (by decide)).1
  exact absurd this (by decide)

/-! ### Examples: the predicates on what `mavenInit` produces -/

/-- Elements of a Maven version string (`[]` if `init` fails). -/
def elemsOf (s : String) : List MavenElem :=
  match mavenInit s.toUTF8.toList with
  | .ok (e, _) => e
  | _ => []

/-- In the shape, no `ZeroDotQual`. -/
example : MavenShape (elemsOf "1.2.3") = true ∧ ZeroDotQual (elemsOf "1.2.3") = false := by decide +kernel
example : MavenShape (elemsOf "1.0-alpha-1") = true ∧ ZeroDotQual (elemsOf "1.0-alpha-1") = false := by decide +kernel
example : MavenShape (elemsOf "2.0.RELEASE") = true ∧ ZeroDotQual (elemsOf "2.0.RELEASE") = false := by decide +kernel
example : MavenShape (elemsOf "1.0rc1-SNAPSHOT") = true ∧ ZeroDotQual (elemsOf "1.0rc1-SNAPSHOT") = false := by decide +kernel
example : MavenShape (elemsOf "1.00.5.Final") = true ∧ ZeroDotQual (elemsOf "1.00.5.Final") = false := by decide +kernel
example : elemsOf "2.0.RELEASE" = [⟨0, [50], 2⟩] := by decide +kernel
example : elemsOf "1.0rc1-SNAPSHOT" =
    [⟨0, [49], 1⟩, ⟨45, [114, 99], 0⟩, ⟨45, [49], 1⟩, snapshotElem] := by decide +kernel
/-- In the shape, but `ZeroDotQual` (JBoss/Spring style). -/
example : MavenShape (elemsOf "4.1.0.Beta1") = true ∧ ZeroDotQual (elemsOf "4.1.0.Beta1") = true := by decide +kernel
example : MavenShape (elemsOf "2.0.alpha") = true ∧ ZeroDotQual (elemsOf "2.0.alpha") = true := by decide +kernel
/-- `ZeroDotQual` but still in the larger lawful domain: the `.0` is followed by something
greater than nothing (`sp`, unknown qualifiers). -/
example : ZeroDotQual (elemsOf "1.0.foo") = true ∧ MavenGood (elemsOf "1.0.foo") = true := by decide +kernel
/-- Outside the shape: two qualifiers, a number after `-` twice, a qualifier first. -/
example : MavenShape (elemsOf "1-alpha-beta") = false ∧ MavenGood (elemsOf "1-alpha-beta") = true := by decide +kernel
example : MavenShape (elemsOf "1-1-1") = false ∧ MavenGood (elemsOf "1-1-1") = true := by decide +kernel
example : MavenShape (elemsOf "alpha") = false ∧ MavenGood (elemsOf "alpha") = true := by decide +kernel
/-- Not even in the larger domain: the anomaly itself. -/
example : MavenGood (elemsOf "4.1.0.Beta1") = false := by decide +kernel
/-- Number-only stage. -/
example : MavenNumeric (elemsOf "1.00.2") = true ∧ MavenNumeric (elemsOf "1.0-rc") = false := by decide +kernel

/-! ### Examples: concrete non-trivial instances of every theorem with hypotheses -/

/-- `1.0-alpha-1` and `1.0rc1-SNAPSHOT` as versions. -/
def vA : Version := mv (elemsOf "1.0-alpha-1")
def vB : Version := mv (elemsOf "1.0rc1-SNAPSHOT")
def vN1 : Version := mv (elemsOf "1.1")
def vN2 : Version := mv (elemsOf "1.1.0.1")
def vN3 : Version := mv (elemsOf "1.00")
def vN4 : Version := mv (elemsOf "1")

theorem vA_dom : InDomain vA := ⟨⟨rfl, _, rfl⟩, by decide +kernel, by decide +kernel⟩
theorem vB_dom : InDomain vB := ⟨⟨rfl, _, rfl⟩, by decide +kernel, by decide +kernel⟩

/-- `maven_shape` / `maven_laws` / `vcompare_maven`: `1.0-alpha-1 < 1.0rc1-SNAPSHOT`, and back. -/
example : vcompare vA vB = .ok (-1) ∧ vcompare vB vA = .ok 1 := by
  have h := maven_laws.antisymm vA vB (-1) vA_dom vB_dom (by decide +kernel)
  exact ⟨by decide +kernel, h⟩

example : vcompare vA vB = .ok (ordToInt (mavenOrd vA vB)) :=
  vcompare_maven vA vB (inGood_of_inDomain _ vA_dom) (inGood_of_inDomain _ vB_dom)

/-- `mavenCompare_shape`. -/
example : mavenCompare (elemsOf "1.0-alpha-1") (elemsOf "1.0rc1-SNAPSHOT") =
    .ok (ordToInt (mavenLex (elemsOf "1.0-alpha-1") (elemsOf "1.0rc1-SNAPSHOT"))) :=
  mavenCompare_shape _ _ (by decide +kernel) (by decide +kernel) (by decide +kernel) (by decide +kernel)

/-- `maven_numeric`: `1.1 < 1.1.0.1` (prefix), and `1 < 1.00` (an untrimmed zero spelling is
greater than nothing) although `1.0` and `1` are the same element list. -/
example : vcompare vN1 vN2 = .ok (-1) ∧ vcompare vN4 vN3 = .ok (-1) ∧ elemsOf "1.0" = elemsOf "1" := by
  have h1 := maven_numeric vN1 vN2 ⟨⟨rfl, _, rfl⟩, by decide +kernel⟩ ⟨⟨rfl, _, rfl⟩, by decide +kernel⟩
  have h2 := maven_numeric vN4 vN3 ⟨⟨rfl, _, rfl⟩, by decide +kernel⟩ ⟨⟨rfl, _, rfl⟩, by decide +kernel⟩
  refine ⟨h1.trans (by decide +kernel), h2.trans (by decide +kernel), by decide +kernel⟩

/-- `maven_no_panic` beyond the shape (`1-alpha-beta` vs `foo-1`), and `maven_no_panic_shape`
on a `ZeroDotQual` member. -/
example : ∃ r, mavenCompare (elemsOf "1-alpha-beta") (elemsOf "foo-1") = .ok r :=
  maven_no_panic _ _ (by decide +kernel) (by decide +kernel)

example : ∃ r, vcompare (mv mvZ) vA = .ok r :=
  maven_no_panic_shape _ _ ⟨⟨rfl, _, rfl⟩, mvZ_shape.1⟩ ⟨vA_dom.1, vA_dom.2.1⟩

/-- `maven_good` beyond the shape: `1-alpha-beta < 1-alpha-1`, so the lawful comparator says `.lt`. -/
example : mavenOrd (mv (elemsOf "1-alpha-beta")) (mv (elemsOf "1-alpha-1")) = .lt := by
  have h := vcompare_maven (mv (elemsOf "1-alpha-beta")) (mv (elemsOf "1-alpha-1"))
    ⟨⟨rfl, _, rfl⟩, by decide +kernel⟩ ⟨⟨rfl, _, rfl⟩, by decide +kernel⟩
  have h' : vcompare (mv (elemsOf "1-alpha-beta")) (mv (elemsOf "1-alpha-1")) = .ok (-1) := by decide +kernel
  rw [h'] at h
  injection h with h
  cases hc : mavenOrd (mv (elemsOf "1-alpha-beta")) (mv (elemsOf "1-alpha-1")) <;> simp [hc] at h ⊢

/-- `compareStr_maven` on the strings themselves. -/
example : compareStr .maven "1.0-alpha-1".toUTF8.toList "1.0rc1-SNAPSHOT".toUTF8.toList =
    .ok (ordToInt (mavenOrd vA vB)) :=
  compareStr_maven "1.0-alpha-1".toUTF8.toList "1.0rc1-SNAPSHOT".toUTF8.toList vA vB
    (by decide +kernel) (by decide +kernel) (inGood_of_inDomain _ vA_dom) (inGood_of_inDomain _ vB_dom)

end DepsDev.Props.C01Maven
