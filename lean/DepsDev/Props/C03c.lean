import DepsDev.Props.C03b
import DepsDev.Proofs.C03L3Span
import DepsDev.Proofs.C03L3NpmGeP
import DepsDev.Proofs.C03L3NpmGtP
import DepsDev.Proofs.C03L3NpmLtP
import DepsDev.Proofs.C03L3NpmLeP
import DepsDev.Proofs.C03L3NpmEqP
import DepsDev.Proofs.C03L3NpmNoneP
import DepsDev.Proofs.C03L3NpmCaretP
import DepsDev.Proofs.C03L3NpmTildeP
import DepsDev.Proofs.C03L3InclGeP
import DepsDev.Proofs.C03L3InclGtP
import DepsDev.Proofs.C03L3InclLtP
import DepsDev.Proofs.C03L3InclLeP
import DepsDev.Proofs.C03L3InclEqP
import DepsDev.Proofs.C03L3InclNoneP
import DepsDev.Proofs.C03L3InclCaretP
import DepsDev.Proofs.C03L3InclTildeP
import DepsDev.Proofs.C03L3InvNpm
import DepsDev.Proofs.C03L3And

/-!
# C03, layer L3 — npm prerelease candidates

Continues `Props/C03b.lean` (imported nowhere else).

**Proved, one comparator** (`L3_npm_partial`): the statement `L3_npm` of `Props/C03.lean` — for every
operator, every operand shape of layer L1 and every candidate, prerelease or not, outside the
finding classes, membership in the comparator's span in release mode (bounds tests and the library's
admission rule) is `semver.satisfies` — under two further hypotheses that `L3_npm` omits: the
candidate's numbers are below `infinity`, and `PreAgree`: the library orders the candidate's
identifier list against the operand's as SemVer does (this is where F-C03-signed-ident lives; it also
excludes numeric identifiers beyond int64). The classes that remain hypotheses are exactly the
recorded findings `pre000`/`lt0pre`, `gt-succ-pre`, `lt-partial-pre` (and `signed-ident` through
`PreAgree`). `npm_single_tokens_partial` carries it through `ParseConstraint`/`Match` on the token level.

**Proved, AND lists** (`npm_and_pre_partial`, `npm_alt_partial`, `npm_alt_tokens_partial`): for every
AND list (one `||` alternative) of L1-domain comparators and every candidate outside the same classes,
with `PreAgree` for every comparator that has a prerelease tag, matching against the set the parser
computes is `semver.satisfies` — node's tests of all comparators AND its rule "some comparator of the
list with the candidate's `[major, minor, patch]` has a prerelease". The library applies its rule to
the two *effective* bounds of the intersection only; the proof shows the two rules agree:
the AND fold keeps a single span whose interval meaning is the intersection for every candidate
(`npm_and_list_model`, no seam condition), whose lower bound is the greatest lower bound among the
comparators' and whose upper bound the least upper bound (`andFold_struct`); a bound squeezed between a
flagged bound with the candidate's numbers and the candidate has the candidate's numbers and a tag,
hence (`invNpm_all`) is itself flagged with three numbers.

**Not proved**: OR lists (two or more `||` alternatives) with prerelease candidates — `canon` may merge
spans of different alternatives and thereby change the bounds the admission rule looks at (C09's
successor-seam finding is about the same merge); Cargo prerelease candidates (the crate's rule is not
interval membership: F-C03-cargo-pre-partial).
-/
namespace DepsDev.Props.C03

open DepsDev DepsDev.Semver DepsDev.Ref DepsDev.Proofs.C03 DepsDev.Proofs.C09

theorem l3Npm_all (op : Op) : L3Npm op := by
  cases op
  · exact l3_npm_none
  · exact l3_npm_eq
  · exact l3_npm_gt
  · exact l3_npm_ge
  · exact l3_npm_lt
  · exact l3_npm_le
  · exact l3_npm_caret
  · exact l3_npm_tilde

/-- A candidate with numbers below `infinity` (prerelease or not). -/
structure CandB (x : SemVerAst) : Prop where
  major : x.major < B∞
  minor : x.minor < B∞
  patch : x.patch < B∞

theorem classes_nil {r : RangeAst} {v : SemVerAst} (h : NpmRange.classes r v = []) :
    NpmRange.pre000 v = false ∧ NpmRange.gtSuccPre r v = false ∧ NpmRange.ltPartialPre r v = false := by
  unfold NpmRange.classes at h
  simp only [List.append_eq_nil_iff] at h
  obtain ⟨⟨⟨⟨⟨⟨⟨⟨h1, h2⟩, -⟩, -⟩, -⟩, -⟩, h7⟩, -⟩, -⟩ := h
  refine ⟨?_, ?_, ?_⟩
  · cases hp : NpmRange.pre000 v
    · rfl
    · rw [hp] at h1
      simp only [↓reduceIte] at h1
      split at h1 <;> cases h1
  · cases hp : NpmRange.gtSuccPre r v
    · rfl
    · rw [hp] at h2; cases h2
  · cases hp : NpmRange.ltPartialPre r v
    · rfl
    · rw [hp] at h7; cases h7

/-- **L3, npm, one comparator** (partial theorem = `L3_npm` plus `CandB` and `PreAgree`): for every
candidate, prerelease or not, outside the finding classes, release-mode membership in the span the
library builds for the comparator is `semver.satisfies`. -/
theorem L3_npm_partial (c : Comparator) (x : SemVerAst) (hc : L1Dom c) (hb : CandB x)
    (hcls : NpmRange.classes [.comps [c]] x = [])
    (hpa : c.p.pre ≠ [] → x.pre ≠ [] → PreAgree .npm x.pre c.p.pre) :
    spanSat .npm (tokOf c.op) c.p x = .ok (NpmRange.satisfies [.comps [c]] x) := by
  obtain ⟨M, m, p, xpre⟩ := x
  cases xpre with
  | nil => exact npm_single_release_partial c hc ⟨M, m, p, []⟩ ⟨rfl, hb.major, hb.minor, hb.patch⟩
  | cons i l =>
    obtain ⟨h1, h2, h3⟩ := classes_nil hcls
    obtain ⟨op, nums, pre⟩ := c
    exact l3Npm_all op nums hc.shape pre hc.pre hc.le0 M m p i l hb.major hb.minor hb.patch
      (fun hp => hpa hp (by simp)) h1 h2 h3

/-- `L3_npm` itself follows for candidates with bounded numbers whenever the identifier orders agree. -/
theorem L3_npm_of_preAgree (hall : ∀ p q : List Ident, PreAgree .npm p q) (c : Comparator) (x : SemVerAst)
    (hb : CandB x) (hc : L1Dom c) (hcls : NpmRange.classes [.comps [c]] x = []) :
    spanSat .npm (tokOf c.op) c.p x = .ok (NpmRange.satisfies [.comps [c]] x) :=
  L3_npm_partial c x hc hb hcls (fun _ _ => hall _ _)

/-! ## Through the parser: a single-comparator requirement, any candidate -/

/-- The parser's set for a single comparator is the comparator's span, and matching is `contains`. -/
theorem single_match (c : Comparator) (sp : Span) (hsp : compSpan .npm c = .ok sp) (v : Version) (hv : v.sys = .npm) :
    astSet .npm [[c]] = .ok { sys := .npm, span := [sp] } ∧
      (VSet.mk .npm [sp]).matchVersion v false = sp.contains v false := by
  constructor
  · simp [astSet, rangeGo, altSpans, altGo, hsp, bind, Outcome.bind, canonSpans]
  · unfold VSet.matchVersion
    simp only [List.isEmpty_cons, Bool.false_eq_true, ↓reduceIte, hv]
    rw [VSet.matchVersion.go]
    simp only [hv, show (System.npm == System.pypi) = false from rfl, show (System.npm == System.nuget) = false from rfl,
      show (System.npm == System.rubygems) = false from rfl, Bool.false_and, Bool.false_eq_true, ↓reduceIte]
    cases sp.contains v false with
    | ok b => cases b <;> rfl
    | err => rfl
    | panic => rfl

/-- **L3, npm, one comparator, token level** (partial theorem): `ParseConstraint`/`Match` on a
single-comparator requirement text and any candidate text give `semver.satisfies`, under the
hypotheses of `L3_npm_partial` and the string-layer hypotheses of `npm_release_tokens_partial`. -/
theorem npm_single_tokens_partial (c : Comparator) (x : SemVerAst) (hc : L1Dom c) (hb : CandB x)
    (hcls : NpmRange.classes [.comps [c]] x = [])
    (hpa : c.p.pre ≠ [] → x.pre ≠ [] → PreAgree .npm x.pre c.p.pre) (req cand : Bytes)
    (hreq : Bytes.trimSpace req ≠ []) (hlex : LexOr .npm [[c]] (Bytes.trimSpace req))
    (hcand : parse .npm cand = .ok (embedVer .npm x)) :
    Agree .npm req cand (NpmRange.satisfies [.comps [c]] x) ∧ NotRejected .npm req := by
  have h := L3_npm_partial c x hc hb hcls hpa
  unfold spanSat at h
  cases hsp : opVersionToSpan (tokOf c.op) (embedPartial .npm c.p) with
  | err => rw [hsp] at h; cases h
  | panic => rw [hsp] at h; cases h
  | ok sp =>
    rw [hsp] at h
    have hcs : compSpan .npm c = .ok sp := hsp
    obtain ⟨hS, hm⟩ := single_match c sp hcs (embedVer .npm x) rfl
    obtain ⟨cc, hcc, hset, hsys, -⟩ := parseConstraint_tokens .npm (Or.inl rfl) [[c]] req hreq hlex _ hS
    refine ⟨?_, by unfold NotRejected; rw [hcc]; rfl⟩
    intro c' hc'
    rw [hcc] at hc'
    injection hc' with hc'
    subst hc'
    rw [matchStr_of_parse (Or.inl rfl) hsys hcand, hset, hm]
    exact h

/-! ## AND lists, model side -/

/-- **L3, npm, AND lists, model side** (all candidates). -/
theorem npm_and_list_model (cs : List Comparator) (hne : cs ≠ []) (hdom : ∀ c ∈ cs, L1Dom c) (v : Version)
    (hv : VG .npm v) :
    ∃ r, astSet .npm [cs] = .ok { sys := .npm, span := [r] } ∧ SpanOK .npm r ∧
      (∀ sps : List Span, SpansOf .npm cs sps → has .npm r v = sps.all (fun sp => has .npm sp v)) ∧
      (∀ x, (r.min = some x ∨ r.max = some x) →
        ∃ c ∈ cs, ∃ sp, compSpan .npm c = .ok sp ∧ (sp.min = some x ∨ sp.max = some x)) ∧
      (VSet.mk .npm [r]).matchVersion v false = .ok (modeHas .npm r v) := by
  refine altMatch_spec .npm sys4_npm cs hne ?_ v hv
  intro c hc
  obtain ⟨sp, e, g, -⟩ := npm_compSpec c (hdom c hc) ⟨0, 0, 0, []⟩ ⟨rfl, by decide, by decide, by decide⟩
  exact ⟨sp, e, g⟩

/-! ## Non-vacuity -/

instance (sys : System) (p q : List Ident) : Decidable (PreAgree sys p q) :=
  inferInstanceAs (Decidable (comparePre sys (embedPre p) (embedPre q) = DepsDev.Proofs.ordToInt (cmpIdents p q)))

/-- `PreAgree` on concrete identifier lists (`rc.1` against `rc.2`, `alpha` against `7`). -/
example : PreAgree .npm [.alnum "rc", .num 1] [.alnum "rc", .num 2] ∧ PreAgree .npm [.alnum "alpha"] [.num 7] := by
  constructor <;> decide +kernel

/-- … and it fails on the witness of F-C03-signed-ident (`-5` against `0`). -/
example : ¬ PreAgree .npm [.alnum "-5"] [.num 0] := by decide +kernel

/-- `>=1.2.3-rc.1` against the prerelease candidate `1.2.3-rc.2`: all hypotheses of `L3_npm_partial`
hold; both sides answer `true`. -/
def ex_pre_c : Comparator := ⟨.ge, ⟨[.n 1, .n 2, .n 3], [.alnum "rc", .num 1]⟩⟩
def ex_pre_x : SemVerAst := ⟨1, 2, 3, [.alnum "rc", .num 2]⟩

theorem ex_pre_dom : L1Dom ex_pre_c := ⟨TShape.n3 1 2 3 (by decide) (by decide) (by decide), by simp [ex_pre_c], by simp [ex_pre_c]⟩

example : CandB ex_pre_x ∧ NpmRange.classes [.comps [ex_pre_c]] ex_pre_x = [] ∧
    PreAgree .npm ex_pre_x.pre ex_pre_c.p.pre ∧ NpmRange.satisfies [.comps [ex_pre_c]] ex_pre_x = true := by
  refine ⟨⟨by decide, by decide, by decide⟩, by decide, by decide +kernel, by decide⟩

/-- The same on the string level: `>=1.2.3-rc.1` / `1.2.3-rc.2`. -/
theorem ex_pre_string :
    Agree .npm (bs ">=1.2.3-rc.1") (bs "1.2.3-rc.2") true ∧ NotRejected .npm (bs ">=1.2.3-rc.1") := by
  have h := npm_single_tokens_partial ex_pre_c ex_pre_x ex_pre_dom ⟨by decide, by decide, by decide⟩ (by decide)
    (fun _ _ => by decide +kernel) (bs ">=1.2.3-rc.1") (bs "1.2.3-rc.2") (by decide +kernel)
    (lexOr_of_b (by decide +kernel)) (by decide +kernel)
  have e : NpmRange.satisfies [.comps [ex_pre_c]] ex_pre_x = true := by decide
  rw [e] at h
  exact h

/-! ## AND lists, prerelease candidates, against the reference -/

theorem l1pNpm_all (op : Op) : L1PNpm op := by
  cases op
  · exact l1p_npm_none
  · exact l1p_npm_eq
  · exact l1p_npm_gt
  · exact l1p_npm_ge
  · exact l1p_npm_lt
  · exact l1p_npm_le
  · exact l1p_npm_caret
  · exact l1p_npm_tilde

/-- The per-comparator facts `and_pre_spec` needs, for an L1-domain comparator and a prerelease
candidate outside the classes. -/
theorem compL3_of (c : Comparator) (hc : L1Dom c) (M m p : Nat) (i : Ident) (l : List Ident)
    (hM : M < B∞) (hm : m < B∞) (hp : p < B∞)
    (h000 : NpmRange.pre000 ⟨M, m, p, i :: l⟩ = false)
    (hgs : NpmRange.gtSuccPre [.comps [c]] ⟨M, m, p, i :: l⟩ = false)
    (hlp : NpmRange.ltPartialPre [.comps [c]] ⟨M, m, p, i :: l⟩ = false)
    (hpa : c.p.pre ≠ [] → PreAgree .npm (i :: l) c.p.pre) :
    ∃ sp, CompL3 ⟨M, m, p, i :: l⟩ c sp := by
  obtain ⟨sp, e, g, -⟩ := npm_compSpec c hc ⟨0, 0, 0, []⟩ ⟨rfl, by decide, by decide, by decide⟩
  obtain ⟨op, nums, pre⟩ := c
  have e' : opVersionToSpan (tokOf op) (embedPartial .npm ⟨nums, pre⟩) = .ok sp := e
  have hvg : VG .npm (embedVer .npm ⟨M, m, p, i :: l⟩) := ⟨rfl, rfl⟩
  refine ⟨sp, e, g, invNpm_all op nums hc.shape pre hc.pre sp e', ?_, ?_⟩
  · have h := l1pNpm_all op nums hc.shape pre hc.pre hc.le0 M m p i l hM hm hp hpa h000 hgs hlp
    rw [e'] at h
    have h' : sp.contains (embedVer .npm ⟨M, m, p, i :: l⟩) true =
        .ok ((desugarComparator ⟨op, ⟨nums, pre⟩⟩).all (·.test ⟨M, m, p, i :: l⟩)) := h
    rw [contains_incl g.1 hvg] at h'
    injection h' with h'
  · have h := l3Npm_all op nums hc.shape pre hc.pre hc.le0 M m p i l hM hm hp hpa h000 hgs hlp
    rw [e'] at h
    have h' : sp.contains (embedVer .npm ⟨M, m, p, i :: l⟩) false =
        .ok (NpmRange.satisfies [.comps [⟨op, ⟨nums, pre⟩⟩]] ⟨M, m, p, i :: l⟩) := h
    rw [contains_mode g.1 hvg (by decide)] at h'
    injection h' with h'
    rw [h', satisfies_alt_pre [⟨op, ⟨nums, pre⟩⟩] ⟨M, m, p, i :: l⟩ (by simp) h000]
    simp

theorem any_false_of {α} {l : List α} {f : α → Bool} (h : l.any f = false) : ∀ a ∈ l, f a = false := by
  intro a ha
  cases hf : f a
  · rfl
  · have : l.any f = true := List.any_eq_true.mpr ⟨a, ha, hf⟩
    rw [h] at this; cases this

/-- **L3, npm, AND lists** (partial theorem). For every AND list of L1-domain comparators and every
prerelease candidate with numbers below `infinity`, outside the finding classes `pre000`/`lt0pre`,
`gt-succ-pre`, `lt-partial-pre` and with the identifier orders agreeing (`PreAgree`, for every
comparator with a prerelease tag): matching against the set the parser computes is
`semver.satisfies` — node's tests of all comparators and its admission rule "some comparator with
the candidate's `[major, minor, patch]` has a prerelease". -/
theorem npm_and_pre_partial (cs : List Comparator) (hne : cs ≠ []) (hdom : ∀ c ∈ cs, L1Dom c) (x : SemVerAst)
    (hb : CandB x) (hxp : x.pre ≠ []) (hcls : NpmRange.classes [.comps cs] x = [])
    (hpa : ∀ c ∈ cs, c.p.pre ≠ [] → PreAgree .npm x.pre c.p.pre) :
    ∃ S, astSet .npm [cs] = .ok S ∧
      S.matchVersion (embedVer .npm x) false = .ok (NpmRange.satisfies [.comps cs] x) := by
  obtain ⟨h1, h2, h3⟩ := classes_nil hcls
  obtain ⟨M, m, p, xpre⟩ := x
  cases xpre with
  | nil => exact absurd rfl hxp
  | cons i l =>
    have hgs : ∀ c ∈ cs, NpmRange.gtSuccPre [.comps [c]] ⟨M, m, p, i :: l⟩ = false := by
      intro c hc
      simp only [NpmRange.gtSuccPre, NpmRange.allComps, List.flatMap_cons, List.flatMap_nil, List.append_nil,
        List.isEmpty_cons, Bool.not_false, Bool.true_and] at h2 ⊢
      have := any_false_of h2 c hc
      simpa using this
    have hlp : ∀ c ∈ cs, NpmRange.ltPartialPre [.comps [c]] ⟨M, m, p, i :: l⟩ = false := by
      intro c hc
      simp only [NpmRange.ltPartialPre, NpmRange.allComps, List.flatMap_cons, List.flatMap_nil, List.append_nil,
        List.isEmpty_cons, Bool.not_false, Bool.true_and] at h3 ⊢
      have := any_false_of h3 c hc
      simpa using this
    obtain ⟨r, e, hm⟩ := and_pre_spec cs hne ⟨M, m, p, i :: l⟩ hb.major hb.minor hb.patch (by simp) h1
      (fun c hc => compL3_of c (hdom c hc) M m p i l hb.major hb.minor hb.patch h1 (hgs c hc) (hlp c hc) (hpa c hc))
    exact ⟨_, e, by rw [hm, satisfies_alt_pre cs ⟨M, m, p, i :: l⟩ (by simp) h1]⟩

/-- **npm, one alternative, any candidate** (partial theorem): release candidates by layer L2,
prerelease candidates by layer L3. -/
theorem npm_alt_partial (cs : List Comparator) (hne : cs ≠ []) (hdom : ∀ c ∈ cs, L1Dom c) (x : SemVerAst)
    (hb : CandB x) (hcls : NpmRange.classes [.comps cs] x = [])
    (hpa : ∀ c ∈ cs, c.p.pre ≠ [] → x.pre ≠ [] → PreAgree .npm x.pre c.p.pre) :
    ∃ S, astSet .npm [cs] = .ok S ∧
      S.matchVersion (embedVer .npm x) false = .ok (NpmRange.satisfies [.comps cs] x) := by
  by_cases hxp : x.pre = []
  · obtain ⟨S, e, -, -, hm⟩ := npm_release_partial [cs] (by simp) (by simpa using hne)
      (by intro cs' h c hc; rw [List.mem_singleton] at h; subst h; exact hdom c hc) x
      ⟨hxp, hb.major, hb.minor, hb.patch⟩
    exact ⟨S, e, hm⟩
  · exact npm_and_pre_partial cs hne hdom x hb hxp hcls (fun c hc hp => hpa c hc hp hxp)

/-- **npm, one alternative, any candidate, token level** (partial theorem): through `ParseConstraint`
and `Match`. -/
theorem npm_alt_tokens_partial (cs : List Comparator) (hne : cs ≠ []) (hdom : ∀ c ∈ cs, L1Dom c) (x : SemVerAst)
    (hb : CandB x) (hcls : NpmRange.classes [.comps cs] x = [])
    (hpa : ∀ c ∈ cs, c.p.pre ≠ [] → x.pre ≠ [] → PreAgree .npm x.pre c.p.pre) (req cand : Bytes)
    (hreq : Bytes.trimSpace req ≠ []) (hlex : LexOr .npm [cs] (Bytes.trimSpace req))
    (hcand : parse .npm cand = .ok (embedVer .npm x)) :
    Agree .npm req cand (NpmRange.satisfies [.comps cs] x) ∧ NotRejected .npm req := by
  obtain ⟨S, hS, hm⟩ := npm_alt_partial cs hne hdom x hb hcls hpa
  obtain ⟨c, hc, hset, hsys, -⟩ := parseConstraint_tokens .npm (Or.inl rfl) [cs] req hreq hlex S hS
  refine ⟨?_, by unfold NotRejected; rw [hc]; rfl⟩
  intro c' hc'
  rw [hc] at hc'
  injection hc' with hc'
  subst hc'
  rw [matchStr_of_parse (Or.inl rfl) hsys hcand, hset, hm]

/-- `>=1.2.3-rc.1 <1.3.0` against `1.2.3-rc.2` (admitted through the first comparator) and against
`1.2.9-rc.2` (inside the interval, not admitted): string level. -/
def ex_and : List Comparator :=
  [⟨.ge, ⟨[.n 1, .n 2, .n 3], [.alnum "rc", .num 1]⟩⟩, ⟨.lt, ⟨[.n 1, .n 3, .n 0], []⟩⟩]

theorem ex_and_dom : ∀ c ∈ ex_and, L1Dom c := by
  intro c hc
  simp only [ex_and, List.mem_cons, List.not_mem_nil, or_false] at hc
  rcases hc with rfl | rfl
  · exact ⟨TShape.n3 1 2 3 (by decide) (by decide) (by decide), by simp, by simp⟩
  · exact ⟨TShape.n3 1 3 0 (by decide) (by decide) (by decide), by simp, by simp⟩

theorem ex_and_string :
    Agree .npm (bs ">=1.2.3-rc.1 <1.3.0") (bs "1.2.3-rc.2") true ∧
    Agree .npm (bs ">=1.2.3-rc.1 <1.3.0") (bs "1.2.9-rc.2") false := by
  have pa : ∀ x : SemVerAst, x.pre = [.alnum "rc", .num 2] →
      ∀ c ∈ ex_and, c.p.pre ≠ [] → x.pre ≠ [] → PreAgree .npm x.pre c.p.pre := by
    intro x hx c hc hp _
    simp only [ex_and, List.mem_cons, List.not_mem_nil, or_false] at hc
    rcases hc with rfl | rfl
    · rw [hx]; decide +kernel
    · exact absurd rfl hp
  have h1 := (npm_alt_tokens_partial ex_and (by decide) ex_and_dom ⟨1, 2, 3, [.alnum "rc", .num 2]⟩
    ⟨by decide, by decide, by decide⟩ (by decide) (pa _ rfl) (bs ">=1.2.3-rc.1 <1.3.0") (bs "1.2.3-rc.2")
    (by decide +kernel) (lexOr_of_b (by decide +kernel)) (by decide +kernel)).1
  have h2 := (npm_alt_tokens_partial ex_and (by decide) ex_and_dom ⟨1, 2, 9, [.alnum "rc", .num 2]⟩
    ⟨by decide, by decide, by decide⟩ (by decide) (pa _ rfl) (bs ">=1.2.3-rc.1 <1.3.0") (bs "1.2.9-rc.2")
    (by decide +kernel) (lexOr_of_b (by decide +kernel)) (by decide +kernel)).1
  have e1 : NpmRange.satisfies [.comps ex_and] ⟨1, 2, 3, [.alnum "rc", .num 2]⟩ = true := by decide
  have e2 : NpmRange.satisfies [.comps ex_and] ⟨1, 2, 9, [.alnum "rc", .num 2]⟩ = false := by decide
  rw [e1] at h1
  rw [e2] at h2
  exact ⟨h1, h2⟩

/-! ## OR lists with prerelease candidates: finding F-C03-or-merge-pre -/

/-- The hypothesis that excludes F-C03-or-merge-pre (decidable; its negation is the harness's
classifier `npmOrMergePre`): the candidate is a release, or no two `||` alternatives meet at a tagged
full operand with the candidate's numbers (`NpmRange.meetAt`). -/
def NoOrMergePre (r : RangeAst) (x : SemVerAst) : Prop := NpmRange.orMergePre r x = false

instance (r : RangeAst) (x : SemVerAst) : Decidable (NoOrMergePre r x) :=
  inferInstanceAs (Decidable (_ = false))

/-- A range with a single alternative is outside the class. -/
theorem noOrMergePre_single (a : Alt) (x : SemVerAst) : NoOrMergePre [a] x := by
  simp [NoOrMergePre, NpmRange.orMergePre, NpmRange.pairsAny]

/-- A release candidate is outside the class. -/
theorem noOrMergePre_release (r : RangeAst) (x : SemVerAst) (hx : x.pre = []) : NoOrMergePre r x := by
  simp [NoOrMergePre, NpmRange.orMergePre, hx]

/-- `classes = []` includes the hypothesis. -/
theorem classes_nil_noOrMerge {r : RangeAst} {v : SemVerAst} (h : NpmRange.classes r v = []) : NoOrMergePre r v := by
  unfold NpmRange.classes at h
  simp only [List.append_eq_nil_iff] at h
  obtain ⟨-, h9⟩ := h
  unfold NoOrMergePre
  cases hp : NpmRange.orMergePre r v
  · rfl
  · rw [hp] at h9; cases h9

/-- The witness of the finding is inside the class, and the two boundary shapes of the corpus
(both ends excluded; different tags on the outer ends), on which the library agrees with node, are outside. -/
example : ¬ NoOrMergePre w_ormerge ⟨2, 0, 0, [.alnum "b"]⟩ ∧
    NoOrMergePre [.comps [⟨.lt, ⟨[.n 2, .n 0, .n 0], [.alnum "a"]⟩⟩], .comps [⟨.gt, ⟨[.n 2, .n 0, .n 0], [.alnum "a"]⟩⟩]]
      ⟨2, 0, 0, [.alnum "b"]⟩ ∧
    NoOrMergePre [.comps [⟨.ge, ⟨[.n 1, .n 0, .n 0], []⟩⟩, ⟨.le, ⟨[.n 2, .n 0, .n 0], [.alnum "a"]⟩⟩],
        .comps [⟨.ge, ⟨[.n 2, .n 0, .n 0], [.alnum "a"]⟩⟩, ⟨.lt, ⟨[.n 3, .n 0, .n 0], []⟩⟩]]
      ⟨2, 0, 0, [.alnum "b"]⟩ := by
  refine ⟨by decide, by decide, by decide⟩

/-- **Stated, not proved**: the extension of `npm_alt_partial` to OR lists (two or more `||`
alternatives) and prerelease candidates, outside all finding classes (`classes = []` now contains
`NoOrMergePre`). Release candidates are `npm_release_partial`; a single alternative is
`npm_alt_partial`. What is missing is an analysis of which stored bounds `canon` keeps when it merges
spans of different alternatives (C09 gives the interval meaning only); until then this rests on the
correspondence harness (generator family `genAbutting`, every failure of `agree` classified). -/
def C03_npm_or_pre_partial : Prop :=
  ∀ (r : List (List Comparator)) (x : SemVerAst), r ≠ [] → (∀ cs ∈ r, cs ≠ []) → (∀ cs ∈ r, ∀ c ∈ cs, L1Dom c) →
    CandB x → NpmRange.classes (r.map Alt.comps) x = [] →
    (∀ cs ∈ r, ∀ c ∈ cs, c.p.pre ≠ [] → x.pre ≠ [] → PreAgree .npm x.pre c.p.pre) →
    ∃ S, astSet .npm r = .ok S ∧
      S.matchVersion (embedVer .npm x) false = .ok (NpmRange.satisfies (r.map Alt.comps) x)

/-- Without `NoOrMergePre` the statement fails on the model (the witness satisfies every other
hypothesis): the class is necessary. -/
theorem or_pre_needs_noOrMerge :
    ¬ (∀ (r : List (List Comparator)) (x : SemVerAst), r ≠ [] → (∀ cs ∈ r, cs ≠ []) → (∀ cs ∈ r, ∀ c ∈ cs, L1Dom c) →
      CandB x → NpmRange.pre000 x = false → NpmRange.gtSuccPre (r.map Alt.comps) x = false →
      NpmRange.ltPartialPre (r.map Alt.comps) x = false → NpmRange.signedIdent (r.map Alt.comps) x = false →
      NpmRange.starCollapse (r.map Alt.comps) = false →
      ∃ S, astSet .npm r = .ok S ∧
        S.matchVersion (embedVer .npm x) false = .ok (NpmRange.satisfies (r.map Alt.comps) x)) := by
  intro h
  have d3 : ∀ (a b c : Nat) (pre : List Ident) (op : Op), a < B∞' → b < B∞' → c < B∞' → op ≠ .le →
      L1Dom ⟨op, ⟨[.n a, .n b, .n c], pre⟩⟩ := fun a b c pre op ha hb hc hop =>
    ⟨TShape.n3 a b c ha hb hc, fun _ => ⟨rfl, by simp⟩, fun h => absurd h hop⟩
  obtain ⟨S, e, hm⟩ := h
    [[⟨.ge, ⟨[.n 1, .n 0, .n 0], [.alnum "a"]⟩⟩, ⟨.le, ⟨[.n 2, .n 0, .n 0], [.alnum "a"]⟩⟩],
     [⟨.ge, ⟨[.n 2, .n 0, .n 0], [.alnum "a"]⟩⟩, ⟨.lt, ⟨[.n 3, .n 0, .n 0], [.alnum "a"]⟩⟩]]
    ⟨2, 0, 0, [.alnum "b"]⟩ (by decide) (by decide)
    (by
      intro cs hcs c hc
      simp only [List.mem_cons, List.not_mem_nil, or_false] at hcs
      rcases hcs with rfl | rfl <;> simp only [List.mem_cons, List.not_mem_nil, or_false] at hc <;> rcases hc with rfl | rfl
      · exact d3 1 0 0 _ _ (by decide) (by decide) (by decide) (by decide)
      · exact ⟨TShape.n3 2 0 0 (by decide) (by decide) (by decide), fun _ => ⟨rfl, by simp⟩, fun _ _ => by decide⟩
      · exact d3 2 0 0 _ _ (by decide) (by decide) (by decide) (by decide)
      · exact d3 3 0 0 _ _ (by decide) (by decide) (by decide) (by decide))
    ⟨by decide, by decide, by decide⟩ (by decide) (by decide) (by decide) (by decide) (by decide)
  have e' : astSet .npm
      [[⟨.ge, ⟨[.n 1, .n 0, .n 0], [.alnum "a"]⟩⟩, ⟨.le, ⟨[.n 2, .n 0, .n 0], [.alnum "a"]⟩⟩],
       [⟨.ge, ⟨[.n 2, .n 0, .n 0], [.alnum "a"]⟩⟩, ⟨.lt, ⟨[.n 3, .n 0, .n 0], [.alnum "a"]⟩⟩]] =
      .ok { sys := .npm, span := [
        { rank := .vector, minOpen := false, maxOpen := true,
          min := some { sys := .npm, userNumCount := 3, isPrerelease := true, num := [1, 0, 0], pre := [[97]] },
          max := some { sys := .npm, userNumCount := 3, isPrerelease := true, num := [3, 0, 0], pre := [[97]] } }] } := by
    decide +kernel
  rw [e'] at e
  injection e with e
  subst e
  revert hm
  decide +kernel

end DepsDev.Props.C03
