import DepsDev.Props.C03b
import DepsDev.Proofs.C03L3Span
import DepsDev.Proofs.C03L3NpmGe
import DepsDev.Proofs.C03L3NpmGt
import DepsDev.Proofs.C03L3NpmLt
import DepsDev.Proofs.C03L3NpmLe
import DepsDev.Proofs.C03L3NpmEq
import DepsDev.Proofs.C03L3NpmNone
import DepsDev.Proofs.C03L3NpmCaret
import DepsDev.Proofs.C03L3NpmTilde

/-!
# C03, layer L3 — npm prerelease candidates

Continues `Props/C03b.lean` (imported nowhere else).

**Proved, one comparator** (`L3_npm_partial`): the statement `L3_npm` of `Props/C03.lean` — for every
operator, every operand shape of layer L1 and every candidate, prerelease or not, outside the
finding classes, membership in the comparator's span in release mode (bounds tests and the library's
admission rule) is `semver.satisfies` — under two further hypotheses that `L3_npm` omits: the
candidate's numbers are below `infinity`, and `PreAgree`: the library orders the candidate's
identifier list against the operand's as SemVer does (this is where F-C03-signed-ident lives; it also
excludes numeric identifiers beyond int64). The classes that remain hypotheses are exactly the
recorded findings `pre000`/`lt0pre`, `gt-succ-pre`, `lt-partial-pre` (and `signed-ident` through
`PreAgree`). `npm_single_tokens_partial` carries it through `ParseConstraint`/`Match` on the token level.

**Proved, AND lists, model side** (`npm_and_list_model`): for any AND list of L1-domain comparators
and ANY candidate the parser's set is one span `r` with `r ∋ v ⟺ every comparator's span ∋ v`
(interval sense, no seam condition), whose bounds are bounds of the comparators' spans, and
`matchVersion` in release mode is `r ∋ v` and, for a prerelease candidate, "a bound of `r` is flagged
prerelease and has the candidate's numbers" (`modeHas`).

**Not proved**: that this admission rule on the *effective* bounds of an AND list of two or more
comparators agrees with node's rule on *all* comparators (outside the classes); OR lists with
prerelease candidates (C09's successor-seam finding applies); Cargo prerelease candidates.
-/
namespace DepsDev.Props.C03

open DepsDev DepsDev.Semver DepsDev.Ref DepsDev.Proofs.C03 DepsDev.Proofs.C09

theorem l3Npm_all (op : Op) : L3Npm op := by
  cases op
  · exact l3_npm_none
  · exact l3_npm_eq
  · exact l3_npm_gt
  · exact l3_npm_ge
  · exact l3_npm_lt
  · exact l3_npm_le
  · exact l3_npm_caret
  · exact l3_npm_tilde

/-- A candidate with numbers below `infinity` (prerelease or not). -/
structure CandB (x : SemVerAst) : Prop where
  major : x.major < B∞
  minor : x.minor < B∞
  patch : x.patch < B∞

theorem classes_nil {r : RangeAst} {v : SemVerAst} (h : NpmRange.classes r v = []) :
    NpmRange.pre000 v = false ∧ NpmRange.gtSuccPre r v = false ∧ NpmRange.ltPartialPre r v = false := by
  unfold NpmRange.classes at h
  simp only [List.append_eq_nil_iff] at h
  obtain ⟨⟨⟨⟨⟨⟨⟨h1, h2⟩, -⟩, -⟩, -⟩, -⟩, h7⟩, -⟩ := h
  refine ⟨?_, ?_, ?_⟩
  · cases hp : NpmRange.pre000 v
    · rfl
    · rw [hp] at h1
      simp only [↓reduceIte] at h1
      split at h1 <;> cases h1
  · cases hp : NpmRange.gtSuccPre r v
    · rfl
    · rw [hp] at h2; cases h2
  · cases hp : NpmRange.ltPartialPre r v
    · rfl
    · rw [hp] at h7; cases h7

/-- **L3, npm, one comparator** (partial theorem = `L3_npm` plus `CandB` and `PreAgree`): for every
candidate, prerelease or not, outside the finding classes, release-mode membership in the span the
library builds for the comparator is `semver.satisfies`. -/
theorem L3_npm_partial (c : Comparator) (x : SemVerAst) (hc : L1Dom c) (hb : CandB x)
    (hcls : NpmRange.classes [.comps [c]] x = [])
    (hpa : c.p.pre ≠ [] → x.pre ≠ [] → PreAgree .npm x.pre c.p.pre) :
    spanSat .npm (tokOf c.op) c.p x = .ok (NpmRange.satisfies [.comps [c]] x) := by
  obtain ⟨M, m, p, xpre⟩ := x
  cases xpre with
  | nil => exact npm_single_release_partial c hc ⟨M, m, p, []⟩ ⟨rfl, hb.major, hb.minor, hb.patch⟩
  | cons i l =>
    obtain ⟨h1, h2, h3⟩ := classes_nil hcls
    obtain ⟨op, nums, pre⟩ := c
    exact l3Npm_all op nums hc.shape pre hc.pre hc.le0 M m p i l hb.major hb.minor hb.patch
      (fun hp => hpa hp (by simp)) h1 h2 h3

/-- `L3_npm` itself follows for candidates with bounded numbers whenever the identifier orders agree. -/
theorem L3_npm_of_preAgree (hall : ∀ p q : List Ident, PreAgree .npm p q) (c : Comparator) (x : SemVerAst)
    (hb : CandB x) (hc : L1Dom c) (hcls : NpmRange.classes [.comps [c]] x = []) :
    spanSat .npm (tokOf c.op) c.p x = .ok (NpmRange.satisfies [.comps [c]] x) :=
  L3_npm_partial c x hc hb hcls (fun _ _ => hall _ _)

/-! ## Through the parser: a single-comparator requirement, any candidate -/

/-- The parser's set for a single comparator is the comparator's span, and matching is `contains`. -/
theorem single_match (c : Comparator) (sp : Span) (hsp : compSpan .npm c = .ok sp) (v : Version) (hv : v.sys = .npm) :
    astSet .npm [[c]] = .ok { sys := .npm, span := [sp] } ∧
      (VSet.mk .npm [sp]).matchVersion v false = sp.contains v false := by
  constructor
  · simp [astSet, rangeGo, altSpans, altGo, hsp, bind, Outcome.bind, canonSpans]
  · unfold VSet.matchVersion
    simp only [List.isEmpty_cons, Bool.false_eq_true, ↓reduceIte, hv]
    rw [VSet.matchVersion.go]
    simp only [hv, show (System.npm == System.pypi) = false from rfl, show (System.npm == System.nuget) = false from rfl,
      show (System.npm == System.rubygems) = false from rfl, Bool.false_and, Bool.false_eq_true, ↓reduceIte]
    cases sp.contains v false with
    | ok b => cases b <;> rfl
    | err => rfl
    | panic => rfl

/-- **L3, npm, one comparator, token level** (partial theorem): `ParseConstraint`/`Match` on a
single-comparator requirement text and any candidate text give `semver.satisfies`, under the
hypotheses of `L3_npm_partial` and the string-layer hypotheses of `npm_release_tokens_partial`. -/
theorem npm_single_tokens_partial (c : Comparator) (x : SemVerAst) (hc : L1Dom c) (hb : CandB x)
    (hcls : NpmRange.classes [.comps [c]] x = [])
    (hpa : c.p.pre ≠ [] → x.pre ≠ [] → PreAgree .npm x.pre c.p.pre) (req cand : Bytes)
    (hreq : Bytes.trimSpace req ≠ []) (hlex : LexOr .npm [[c]] (Bytes.trimSpace req))
    (hcand : parse .npm cand = .ok (embedVer .npm x)) :
    Agree .npm req cand (NpmRange.satisfies [.comps [c]] x) ∧ NotRejected .npm req := by
  have h := L3_npm_partial c x hc hb hcls hpa
  unfold spanSat at h
  cases hsp : opVersionToSpan (tokOf c.op) (embedPartial .npm c.p) with
  | err => rw [hsp] at h; cases h
  | panic => rw [hsp] at h; cases h
  | ok sp =>
    rw [hsp] at h
    have hcs : compSpan .npm c = .ok sp := hsp
    obtain ⟨hS, hm⟩ := single_match c sp hcs (embedVer .npm x) rfl
    obtain ⟨cc, hcc, hset, hsys, -⟩ := parseConstraint_tokens .npm (Or.inl rfl) [[c]] req hreq hlex _ hS
    refine ⟨?_, by unfold NotRejected; rw [hcc]; rfl⟩
    intro c' hc'
    rw [hcc] at hc'
    injection hc' with hc'
    subst hc'
    rw [matchStr_of_parse (Or.inl rfl) hsys hcand, hset, hm]
    exact h

/-! ## AND lists, model side -/

/-- **L3, npm, AND lists, model side** (all candidates). -/
theorem npm_and_list_model (cs : List Comparator) (hne : cs ≠ []) (hdom : ∀ c ∈ cs, L1Dom c) (v : Version)
    (hv : VG .npm v) :
    ∃ r, astSet .npm [cs] = .ok { sys := .npm, span := [r] } ∧ SpanOK .npm r ∧
      (∀ sps : List Span, SpansOf .npm cs sps → has .npm r v = sps.all (fun sp => has .npm sp v)) ∧
      (∀ x, (r.min = some x ∨ r.max = some x) →
        ∃ c ∈ cs, ∃ sp, compSpan .npm c = .ok sp ∧ (sp.min = some x ∨ sp.max = some x)) ∧
      (VSet.mk .npm [r]).matchVersion v false = .ok (modeHas .npm r v) := by
  refine altMatch_spec .npm sys4_npm cs hne ?_ v hv
  intro c hc
  obtain ⟨sp, e, g, -⟩ := npm_compSpec c (hdom c hc) ⟨0, 0, 0, []⟩ ⟨rfl, by decide, by decide, by decide⟩
  exact ⟨sp, e, g⟩

/-! ## Non-vacuity -/

instance (sys : System) (p q : List Ident) : Decidable (PreAgree sys p q) :=
  inferInstanceAs (Decidable (comparePre sys (embedPre p) (embedPre q) = DepsDev.Proofs.ordToInt (cmpIdents p q)))

/-- `PreAgree` on concrete identifier lists (`rc.1` against `rc.2`, `alpha` against `7`). -/
example : PreAgree .npm [.alnum "rc", .num 1] [.alnum "rc", .num 2] ∧ PreAgree .npm [.alnum "alpha"] [.num 7] := by
  constructor <;> decide +kernel

/-- … and it fails on the witness of F-C03-signed-ident (`-5` against `0`). -/
example : ¬ PreAgree .npm [.alnum "-5"] [.num 0] := by decide +kernel

/-- `>=1.2.3-rc.1` against the prerelease candidate `1.2.3-rc.2`: all hypotheses of `L3_npm_partial`
hold; both sides answer `true`. -/
def ex_pre_c : Comparator := ⟨.ge, ⟨[.n 1, .n 2, .n 3], [.alnum "rc", .num 1]⟩⟩
def ex_pre_x : SemVerAst := ⟨1, 2, 3, [.alnum "rc", .num 2]⟩

theorem ex_pre_dom : L1Dom ex_pre_c := ⟨TShape.n3 1 2 3 (by decide) (by decide) (by decide), by simp [ex_pre_c], by simp [ex_pre_c]⟩

example : CandB ex_pre_x ∧ NpmRange.classes [.comps [ex_pre_c]] ex_pre_x = [] ∧
    PreAgree .npm ex_pre_x.pre ex_pre_c.p.pre ∧ NpmRange.satisfies [.comps [ex_pre_c]] ex_pre_x = true := by
  refine ⟨⟨by decide, by decide, by decide⟩, by decide, by decide +kernel, by decide⟩

/-- The same on the string level: `>=1.2.3-rc.1` / `1.2.3-rc.2`. -/
theorem ex_pre_string :
    Agree .npm (bs ">=1.2.3-rc.1") (bs "1.2.3-rc.2") true ∧ NotRejected .npm (bs ">=1.2.3-rc.1") := by
  have h := npm_single_tokens_partial ex_pre_c ex_pre_x ex_pre_dom ⟨by decide, by decide, by decide⟩ (by decide)
    (fun _ _ => by decide +kernel) (bs ">=1.2.3-rc.1") (bs "1.2.3-rc.2") (by decide +kernel)
    (lexOr_of_b (by decide +kernel)) (by decide +kernel)
  have e : NpmRange.satisfies [.comps [ex_pre_c]] ex_pre_x = true := by decide
  rw [e] at h
  exact h

end DepsDev.Props.C03
