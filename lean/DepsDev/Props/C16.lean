import DepsDev.Model.Pypi.Dep508
import DepsDev.Model.Pypi.Marker
import DepsDev.Ref.Pep508
import DepsDev.Proofs.C16Name
import DepsDev.Proofs.C16Dep
import DepsDev.Proofs.C16Marker
import DepsDev.Proofs.C16Req
import DepsDev.Proofs.C16MarkerRender
import DepsDev.Proofs.C16Fuel
import DepsDev.Proofs.C16NoPanic

/-!
# Property C16 — Python requirement strings and environment markers follow PEP 508

Statements first, each at full strength; what is proved is said next to it.

* Names: `canonName_eq_ref`, `canonName_idempotent` (full, over the PEP 508 name alphabet —
  the domain of the property; outside it idempotence is false, `canonName_not_idempotent_outside`).
* Requirement strings: `parseDependency_no_panic` (all inputs), `parseDependency_segments`
  / `parseDependency_bare` (byte-string level, all inputs satisfying the stated shape).
* Markers: the semver boundary is explicit (`Pypi.Semver`, `Ref.Pep508.Packaging`): version
  comparison of one leaf is an input here and the business of C03. Proved: Boolean structure
  (`eval_and`, `eval_or`, short circuit), tree-level agreement given leaf agreement
  (`marker_tree_agrees`), and the seven finding classes are refuted on their witnesses.
-/

namespace DepsDev.Props.C16
open DepsDev DepsDev.Pypi DepsDev.Ref DepsDev.Proofs

/-- Byte-string literal: `b! "ab"` is the list `[97, 98]` (expanded at elaboration time). -/
scoped macro "b!" s:str : term => do
  let elems ← s.getString.toUTF8.toList.mapM fun b => `(($(Lean.quote b.toNat) : UInt8))
  `([$elems.toArray,*])

/-! ## 0. Generated data the model iterates over (translator `C16PypiEnv`) -/

/-- The `markerOp` constants have the values the model's named operators assume. -/
theorem gen_opNames : Gen.C16PypiEnv.opNames =
    ["markerOpUnknown", "markerOpLessEqual", "markerOpLess", "markerOpNotEqual", "markerOpEqualEqual",
     "markerOpGreaterEqual", "markerOpGreater", "markerOpTildeEqual", "markerOpEqualEqualEqual",
     "markerOpIn", "markerOpNotIn"] := by decide

/-- Every operator has the text PEP 508 gives it. -/
theorem gen_opStrings : Gen.C16PypiEnv.opStrings.drop 1 =
    [b! "<=", b! "<", b! "!=", b! "==", b! ">=", b! ">", b! "~=", b! "===", b! "in", b! "not in"] := by decide

/-- `markerOpsByLength` lists every fixed-text operator once, longer texts first. -/
theorem gen_opsByLength :
    (Gen.C16PypiEnv.markerOpsByLength.map fun o => (Gen.C16PypiEnv.opStrings[o]?.map List.length)) =
      [some 3, some 2, some 2, some 2, some 2, some 2, some 2, some 1, some 1] ∧
    Gen.C16PypiEnv.markerOpsByLength.Nodup ∧
    Gen.C16PypiEnv.markerOpsByLength.all (fun o => 1 ≤ o && o ≤ 9) = true := by decide

/-- No variable name is a prefix of another: the (unordered) loop in `parseMarkerVar` can
accept at most one, so the model's fixed order is immaterial. -/
theorem envVars_prefix_free :
    Gen.C16PypiEnv.envVars.all (fun a => Gen.C16PypiEnv.envVars.all fun b =>
      a.1 == b.1 || !(a.1.isPrefixOf b.1)) = true := by decide

/-- The `switch c := p.peek()` pre-filter lets every variable through. -/
theorem envVars_first_byte :
    Gen.C16PypiEnv.envVars.all (fun a => match a.1 with
      | c :: _ => c == 101 || c == 105 || c == 111 || c == 112 || c == 115
      | [] => false) = true := by decide

/-- Every variable other than `extra` carries the value of the fixed target environment
`internal.Markers` under its own name (so the library and the reference read the same
environment). -/
theorem envVars_values :
    Gen.C16PypiEnv.envVars.all (fun a =>
      a.1 == a.2.1 &&
      (if a.1 == Pep508.extraName then a.2.2 == []
       else (Gen.C16PypiEnv.markers.find? (·.1 == a.1)).map (·.2) == some a.2.2)) = true := by decide

/-! ## 1. Names -/

/-- Full statement: `CanonPackageName` is packaging's `canonicalize_name`. -/
def CanonName_eq_ref : Prop :=
  ∀ n : Bytes, n.all Pep508.isNameByte = true → canonPackageName n = Pep508.normalize n

theorem canonName_eq_ref : CanonName_eq_ref :=
  fun n h => (C16Name.canonLoop_eq_normalize n h).1

/-- Full statement: normalisation is idempotent (on names over `[A-Za-z0-9._-]`). -/
def CanonName_idempotent : Prop :=
  ∀ n : Bytes, n.all Pep508.isNameByte = true → canonPackageName (canonPackageName n) = canonPackageName n

theorem canonName_idempotent : CanonName_idempotent := C16Name.canon_idempotent_of_name

/-- The alphabet hypothesis is needed: a dropped byte can leave two dashes. -/
theorem canonName_not_idempotent_outside :
    canonPackageName (canonPackageName (b! "a-%-b")) ≠ canonPackageName (b! "a-%-b") := by decide

/-- Idempotence of the reference normalisation itself follows. -/
theorem normalize_idempotent (n : Bytes) (h : n.all Pep508.isNameByte = true)
    (h2 : (Pep508.normalize n).all Pep508.isNameByte = true) :
    Pep508.normalize (Pep508.normalize n) = Pep508.normalize n := by
  rw [← canonName_eq_ref n h] at h2 ⊢
  rw [← canonName_eq_ref _ h2]
  exact canonName_idempotent n h

example : canonPackageName (b! "Foo_Bar") = b! "foo-bar" := by decide
example : canonPackageName (b! "A--b__c..d") = b! "a-b-c-d" := by decide

/-! ## 2. Requirement strings -/

/-- No index or slice expression in `ParseDependency` can panic, on any input. -/
theorem parseDependency_no_panic (v : Bytes) : (parseDependency v).isPanic = false :=
  C16Dep.parseDependency_no_panic v

/-- Byte-string level statement of "the fields are extracted correctly": for every string
of the shape `ws name ws [ "[" inner "]" ] P [ ";" m ] ws` — `name` non-empty without any
of the bytes that end a name, `inner` without `]`, `P` without `;`, the part after the name
starting with one of those bytes and starting/ending with a non-blank — the result is the
normalised name, `inner` trimmed, `P` trimmed and stripped of one pair of parentheses, and
`m` trimmed. -/
theorem parseDependency_segments (wL wT wA : Pep508.Ws) (name : Bytes) (ex : Option Bytes) (P : Bytes)
    (R : Option Bytes)
    (hname : name ≠ []) (hns : ∀ x ∈ name, isNameStop x = false)
    (hex : ∀ i, ex = some i → ∀ c ∈ i, c ≠ 93)
    (hP : ∀ c ∈ P, c ≠ 59)
    (hstart : C16Bytes.StartsNonWs (C16Dep.exSeg ex ++ P ++ C16Dep.rSeg R))
    (hend : C16Bytes.EndsNonWs (C16Dep.exSeg ex ++ P ++ C16Dep.rSeg R))
    (hstop : wA = [] → ∀ c cs, C16Dep.exSeg ex ++ P ++ C16Dep.rSeg R = c :: cs → isNameStop c = true)
    (hnob : ex = none → ∀ c cs, P ++ C16Dep.rSeg R = c :: cs → c.toNat ≠ 91) :
    parseDependency (wL.bytes ++ (name ++ (wA.bytes ++ (C16Dep.exSeg ex ++ P ++ C16Dep.rSeg R))) ++ wT.bytes) =
      .ok { name := canonPackageName name,
            extras := C16Dep.optTrim ex,
            constraint := C16Dep.stripParensVal (trim P),
            environment := C16Dep.optTrim R } :=
  C16Dep.parseDependency_segments wL wT wA name ex P R hname hns hex hP hstart hend hstop hnob

/-- A bare name with arbitrary surrounding blanks. -/
theorem parseDependency_bare (wL wT : Pep508.Ws) (name : Bytes)
    (hname : name ≠ []) (hns : ∀ x ∈ name, isNameStop x = false) :
    parseDependency (wL.bytes ++ name ++ wT.bytes) = .ok { name := canonPackageName name } :=
  C16Dep.parseDependency_bare wL wT name hname hns

/-- **Full statement and theorem for requirement strings.** For every well-formed
requirement tree `r` (PEP 508 `name_req`: identifier, optional extras list, optional bare or
parenthesised specifier list, optional marker) and every choice of optional blanks (the
`Ws` fields of the tree: all of them, all lists of spaces and tabs), `ParseDependency` of
the rendering returns: packaging's normalised name; the text of the extras list (identifiers
with their separators, no surrounding blanks); the text of the specifier list (parentheses
removed); the marker's text without surrounding blanks. -/
def ParseDependency_render : Prop :=
  ∀ r : Pep508.Requirement, r.wf = true →
    parseDependency r.render =
      .ok { name := Pep508.normalize r.name, extras := r.extrasText, constraint := r.specText,
            environment := r.markerText trim }

theorem parseDependency_render : ParseDependency_render := C16Req.parseDependency_render

/-- Non-vacuity: a concrete requirement with every part present. -/
example : parseDependency (b! " Foo_Bar [e1, E2] (>=1.0, <2) ; python_version >= '3.8' ") =
    .ok { name := b! "foo-bar", extras := b! "e1, E2", constraint := b! ">=1.0, <2",
          environment := b! "python_version >= '3.8'" } := by decide

/-! ## 3. Markers -/

/-- The library agrees with packaging on marker `m` with the requested `extras`, relative to
`sv` (what `util/semver` answers) and `P` (packaging's PEP 440). -/
def MarkerAgrees (sv : Semver) (P : Pep508.Packaging) (m : Pep508.Marker) (extras : List Bytes) : Prop :=
  evalMarker sv m.render extras = C16Marker.refOutcome (Pep508.evalMarker P m extras)

/-- Full statement of the marker half of C16 (false for the real `sv`, `P`: section 4). -/
def C16_marker_agrees (sv : Semver) (P : Pep508.Packaging) : Prop :=
  ∀ m extras, m.wf = true → MarkerAgrees sv P m extras

theorem eval_and (a b : Marker) (extras : List Bytes) (x y : Bool)
    (ha : a.eval extras = .ok x) (hb : b.eval extras = .ok y) :
    (Marker.and a b).eval extras = .ok (x && y) := C16Marker.eval_and a b extras x y ha hb

theorem eval_or (a b : Marker) (extras : List Bytes) (x y : Bool)
    (ha : a.eval extras = .ok x) (hb : b.eval extras = .ok y) :
    (Marker.or a b).eval extras = .ok (x || y) := C16Marker.eval_or a b extras x y ha hb

/-- **Parser theorem.** For every well-formed marker tree (grammar-stratified `and`/`or`/
parentheses over comparisons of known variables and string literals, any operator), every
layout and any trailing blanks, and whatever `util/semver` answers, `parseMarker` of the
rendering is exactly the tree `toModel` describes: same shape (`and` binds tighter than `or`,
both associate to the right, parentheses vanish), each comparison built by `mkExpr` from the
two operands, errors and panics of the comparison checks surfacing in source order. -/
theorem parseMarker_render (sv : Semver) (m : Pep508.Marker) (h : m.wf = true) (wT : Pep508.Ws) :
    parseMarker sv (m.render ++ wT.bytes) = C16Marker.toModel sv m :=
  C16MarkerRender.parseMarker_render sv m h wT

/-- The model's parser is fuelled; for **every** input (well formed or not) and whatever
`util/semver` answers, the fuel `parseMarker` supplies (`3 * len + 3`) does not run out, so
the fuel is not an assumption of any statement here. -/
theorem parseMarker_fuel_sufficient (sv : Semver) (raw : Bytes) :
    parseMarkerOr sv (3 * raw.length + 3) raw ≠ .outOfFuel :=
  C16Fuel.parseMarkerOr_fuel sv raw

/-- `Eval`'s `default: panic("unknown or invalid op")` is unreachable: on any marker that
`parseMarker` accepted (any input, any semver answers), `Eval` returns a Boolean. -/
theorem eval_parsed_no_panic (sv : Semver) (raw : Bytes) (M : Marker) (extras : List Bytes)
    (h : parseMarker sv raw = .ok M) : (M.eval extras).isPanic = false :=
  C16NoPanic.eval_parsed_no_panic sv raw M extras h

/-- Tree level: when every comparison of `m` has the same outcome in the library and in
packaging (`LeavesAgree`: the C03 boundary plus the seven finding classes below), the
parse-time checks followed by `Eval` equal packaging's evaluation, for at most one
requested extra. -/
theorem marker_tree_agrees (sv : Semver) (P : Pep508.Packaging) (m : Pep508.Marker) (extras : List Bytes)
    (hx : extras.length ≤ 1)
    (hl : C16Marker.LeavesAgree sv P extras (extras.headD []) m) :
    (C16Marker.toModel sv m).bind (·.eval extras) = C16Marker.refOutcome (Pep508.evalMarker P m extras) := by
  rw [C16Marker.evalMarker_single P m extras hx]
  exact C16Marker.tree_eval_eq_ref sv P extras _ m hl

/-- **Partial theorem for markers** (string level). Hypotheses: the marker is well formed;
at most one extra is requested (negation: finding F-C16-extra-multi's class, and a gap: with
several extras and a single extra literal the agreement rests on the harness oracle only);
every comparison has the same outcome in the library and in packaging (`LeavesAgree`:
negation = the leaf classes of findings F-C16-in, -pre-lhs, -eqeqeq-case, -legacy-rhs,
-wild-ordered, -extra-op, or a disagreement of `util/semver` with PEP 440, which is C03's
subject). Conclusion: a dependency guarded by the marker is kept by `getDependencies`'
filter exactly when packaging evaluates the marker to true; errors coincide. -/
theorem marker_agrees_partial (sv : Semver) (P : Pep508.Packaging) (m : Pep508.Marker) (extras : List Bytes)
    (hwf : m.wf = true) (hx : extras.length ≤ 1)
    (hl : C16Marker.LeavesAgree sv P extras (extras.headD []) m) :
    MarkerAgrees sv P m extras := by
  unfold MarkerAgrees evalMarker keepDependency
  have hp := parseMarker_render sv m hwf []
  simp only [Pep508.Ws.bytes, List.map_nil, List.append_nil] at hp
  simp only []
  rw [hp, ← marker_tree_agrees sv P m extras hx hl]
  cases C16Marker.toModel sv m <;> rfl

/-- The same at the property's observation point: the filter of `getDependencies`. -/
theorem keepDependency_agrees_partial (sv : Semver) (P : Pep508.Packaging) (m : Pep508.Marker)
    (extras : List Bytes) (hwf : m.wf = true) (hx : extras.length ≤ 1)
    (hl : C16Marker.LeavesAgree sv P extras (extras.headD []) m) :
    keepDependency sv (some m.render) extras = C16Marker.refOutcome (Pep508.evalMarker P m extras) :=
  marker_agrees_partial sv P m extras hwf hx hl

/-- A requirement without a marker is always kept. -/
theorem keepDependency_no_marker (sv : Semver) (extras : List Bytes) :
    keepDependency sv none extras = .ok true := rfl

/-! ## 4. Refutations of the full marker statement (one witness per finding class)

Each witness fixes the two parameters to the answers the real systems give on that marker's
operands: `sv` as recorded in the finding's witness op line (`ver=`/`leaf=` fields, recomputed
from the real `util/semver` on every run and checked by the correspondence), `P` as
packaging 20.9/21.3 answers (`harness/cmd/c16/pep440ref.go`, validated against the installed
packaging on every run). -/

section refutations
open Pep508

private def cmp1 (l : Operand) (op : Op) (r : Operand) : Pep508.Marker :=
  .cmp [] l [false] op [false] [false] r

/-- packaging: `in` / `not in` and non-PEP 440 right operands are never a `Specifier`. -/
def pNoSpecifier : Packaging := ⟨fun _ _ => none⟩

/-- F-C16-in: `python_version in '3.9'`. semver: "3.9" is a version and
`ParseConstraint("in3.9")` fails. Library: error (the resolution aborts); packaging: True. -/
def svIn : Semver := { isVersion := fun v => v == b! "3.9", cmpLeaf := fun _ _ _ => .err }
def mIn : Pep508.Marker := cmp1 (.var (b! "python_version")) .in_ (.lit false (b! "3.9"))
theorem marker_in_refuted : ¬ MarkerAgrees svIn pNoSpecifier mIn [] := by
  show ¬ (_ = _); decide
example : evalMarker svIn mIn.render [] = .err := by decide
example : Pep508.evalMarker pNoSpecifier mIn [] = some true := by decide

/-- F-C16-pre-lhs: `'3.9.6rc1' < implementation_version` (value 3.9.6). semver: both are versions and
`<3.9.6` matches `3.9.6rc1`; packaging: `Specifier("<3.9.6").contains("3.9.6rc1")` is False
(a pre-release candidate is excluded unless the specifier names a pre-release). -/
def svPre : Semver := { isVersion := fun _ => true, cmpLeaf := fun _ _ _ => .ok true }
def pPre : Packaging := ⟨fun op rhs => if op == .lt && rhs == b! "3.9.6" then some (fun _ => false) else none⟩
def mPre : Pep508.Marker := cmp1 (.lit false (b! "3.9.6rc1")) .lt (.var (b! "implementation_version"))
theorem marker_pre_lhs_refuted : ¬ MarkerAgrees svPre pPre mPre [] := by
  show ¬ (_ = _); decide

/-- F-C16-post-lhs-ne: `'3.9.6.post1' != implementation_version` (value 3.9.6). semver: both
are versions and the constraint `!=3.9.6` does **not** match `3.9.6.post1` (it is built as
`<3.9.6 or >3.9.6`, and PEP 440's `>V` excludes `V.postN`); packaging: True. -/
def svPost : Semver := { isVersion := fun _ => true, cmpLeaf := fun _ _ _ => .ok false }
def pPost : Packaging := ⟨fun op rhs => if op == .ne && rhs == b! "3.9.6" then some (fun _ => true) else none⟩
def mPost : Pep508.Marker := cmp1 (.lit false (b! "3.9.6.post1")) .ne (.var (b! "implementation_version"))
theorem marker_post_lhs_ne_refuted : ¬ MarkerAgrees svPost pPost mPost [] := by
  show ¬ (_ = _); decide

/-- F-C16-blank-literal: `python_version == ' 3.9'`. semver: `Parse(" 3.9")` fails, so the
library compares the strings "3.9" and " 3.9" (false); packaging strips the blanks: True. -/
def svBlank : Semver := { isVersion := fun v => v == b! "3.9", cmpLeaf := fun _ _ _ => .panic "not consulted" }
def pBlank : Packaging := ⟨fun op rhs => if op == .eq && rhs == b! " 3.9" then some (fun lhs => lhs == b! "3.9") else none⟩
def mBlank : Pep508.Marker := cmp1 (.var (b! "python_version")) .eq (.lit false (b! " 3.9"))
theorem marker_blank_literal_refuted : ¬ MarkerAgrees svBlank pBlank mBlank [] := by
  show ¬ (_ = _); decide

/-- F-C16-local-version: `'3.9.6+local' == implementation_version` (value 3.9.6). semver: the
constraint `==3.9.6` does not match `3.9.6+local`; packaging ignores the candidate's local
segment when the specifier has none: True. -/
def pLocal : Packaging := ⟨fun op rhs => if op == .eq && rhs == b! "3.9.6" then some (fun _ => true) else none⟩
def mLocal : Pep508.Marker := cmp1 (.lit false (b! "3.9.6+local")) .eq (.var (b! "implementation_version"))
theorem marker_local_version_refuted : ¬ MarkerAgrees svPost pLocal mLocal [] := by
  show ¬ (_ = _); decide

/-- F-C16-epoch-lhs: `'1!3.9' > python_version` (value 3.9). semver: `>3.9` does not match
`1!3.9`; packaging: epoch 1 is greater, True. -/
def pEpoch : Packaging := ⟨fun op rhs => if op == .gt && rhs == b! "3.9" then some (fun _ => true) else none⟩
def mEpoch : Pep508.Marker := cmp1 (.lit false (b! "1!3.9")) .gt (.var (b! "python_version"))
theorem marker_epoch_lhs_refuted : ¬ MarkerAgrees svPost pEpoch mEpoch [] := by
  show ¬ (_ = _); decide

/-- F-C16-underscore-sep: `implementation_version >= '3.9.6_rc1'`. semver: `Parse` accepts
"3.9.6_rc1" but `ParseConstraint(">=3.9.6_rc1")` fails, so the marker does not parse and the
resolution aborts; packaging: True. -/
def svUnderscore : Semver := { isVersion := fun _ => true, cmpLeaf := fun _ _ _ => .err }
def pUnderscore : Packaging := ⟨fun op rhs => if op == .ge && rhs == b! "3.9.6_rc1" then some (fun _ => true) else none⟩
def mUnderscore : Pep508.Marker := cmp1 (.var (b! "implementation_version")) .ge (.lit false (b! "3.9.6_rc1"))
theorem marker_underscore_sep_refuted : ¬ MarkerAgrees svUnderscore pUnderscore mUnderscore [] := by
  show ¬ (_ = _); decide

/-- F-C16-eqeqeq-case: `platform_system === 'linux'` (the value is "Linux"). Library: raw
string equality, false; packaging: `Specifier("===linux")` compares case-insensitively, True. -/
def svNoVersion : Semver := { isVersion := fun _ => false, cmpLeaf := fun _ _ _ => .panic "not consulted" }
def pArbitrary : Packaging :=
  ⟨fun op rhs => if op == .arbitrary && rhs == b! "linux" then some (fun lhs => lhs == b! "Linux" || lhs == b! "linux") else none⟩
def mEqeqeq : Pep508.Marker := cmp1 (.var (b! "platform_system")) .arbitrary (.lit false (b! "linux"))
theorem marker_eqeqeq_refuted : ¬ MarkerAgrees svNoVersion pArbitrary mEqeqeq [] := by
  show ¬ (_ = _); decide

/-- F-C16-legacy-rhs: `platform_system != '6.9.10'`. semver: "Linux" is not a version, so the
library compares strings (true); packaging: `Specifier("!=6.9.10")` is valid and the
`LegacyVersion("Linux")` never matches it (False). -/
def svLegacy : Semver := { isVersion := fun v => v == b! "6.9.10", cmpLeaf := fun _ _ _ => .panic "not consulted" }
def pLegacy : Packaging := ⟨fun op rhs => if op == .ne && rhs == b! "6.9.10" then some (fun _ => false) else none⟩
def mLegacy : Pep508.Marker := cmp1 (.var (b! "platform_system")) .ne (.lit false (b! "6.9.10"))
theorem marker_legacy_rhs_refuted : ¬ MarkerAgrees svLegacy pLegacy mLegacy [] := by
  show ¬ (_ = _); decide

/-- F-C16-wild-ordered: `python_version < '3.9.*'`. semver: accepts "3.9.*" as a version and
`<3.9.*` does not match 3.9 (false); packaging: `<3.9.*` is not a `Specifier`, the strings are
compared and "3.9" < "3.9.*" (True). -/
def svWild : Semver := { isVersion := fun _ => true, cmpLeaf := fun _ _ _ => .ok false }
def mWild : Pep508.Marker := cmp1 (.var (b! "python_version")) .lt (.lit false (b! "3.9.*"))
theorem marker_wild_refuted : ¬ MarkerAgrees svWild pNoSpecifier mWild [] := by
  show ¬ (_ = _); decide

/-- F-C16-extra-op: `extra != 'x'` with the extra `y` requested. Library: parse error,
whatever semver answers; packaging: True. -/
def mExtraOp : Pep508.Marker := cmp1 (.var (b! "extra")) .ne (.lit false (b! "x"))
theorem marker_extra_op_refuted : ¬ MarkerAgrees svNoVersion pNoSpecifier mExtraOp [b! "y"] := by
  show ¬ (_ = _); decide

/-- F-C16-extra-multi: `extra == 'x' and extra == 'test'` with both extras requested.
Library: each comparison looks its literal up in the requested set, true; pip: one evaluation
per requested extra, `any()` of them, False. -/
def mExtraMulti : Pep508.Marker :=
  .and (cmp1 (.var (b! "extra")) .eq (.lit false (b! "x"))) [false]
       (.cmp [false] (.var (b! "extra")) [false] .eq [] [false] (.lit false (b! "test")))
theorem marker_extra_multi_refuted :
    ¬ MarkerAgrees svNoVersion pNoSpecifier mExtraMulti [b! "x", b! "test"] := by
  show ¬ (_ = _); decide

/-- Hence the full statement fails for any `sv`, `P` that answer like the real systems on one
of these witnesses; e.g. for the `in` class: -/
theorem c16_marker_agrees_false : ¬ C16_marker_agrees svIn pNoSpecifier :=
  fun h => marker_in_refuted (h mIn [] (by decide))

/-- Non-vacuity of the agreement statement: a marker on which library and packaging agree. -/
example : MarkerAgrees svNoVersion pNoSpecifier
    (.and (cmp1 (.var (b! "os_name")) .eq (.lit false (b! "posix"))) [false]
          (.cmp [false] (.var (b! "extra")) [false] .eq [] [false] (.lit false (b! "x")))) [b! "x"] := by
  show _ = _; decide

/-- Non-vacuity of `marker_agrees_partial`: its hypotheses are satisfiable. -/
example : MarkerAgrees svNoVersion pNoSpecifier
    (.or (cmp1 (.var (b! "os_name")) .eq (.lit false (b! "nt"))) [false]
         (.cmp [false] (.var (b! "sys_platform")) [] .in_ [] [false] (.lit true (b! "linux2")))) [] :=
  marker_agrees_partial _ _ _ _ (by decide) (by decide)
    (by refine ⟨?_, ?_⟩ <;> (show _ = _; decide))

end refutations

end DepsDev.Props.C16

/- TIES (DESIGN 3.3): per theorem, the model definitions it is about and the Gen constants it uses.
canonName_eq_ref, canonName_idempotent      : Pypi.canonPackageName/canonLoop              | op pname
parseDependency_render/_segments/_bare/_no_panic : Pypi.parseDependency, parseAfterName, parseExtras,
                                              parseConstraint, stripParens, parseEnvironment, trim,
                                              indexWhere, slice                             | op dep508
parseMarker_render, parseMarker_fuel_sufficient, eval_parsed_no_panic :
                                              Pypi.parseMarker, parseMarkerOr/And/Expr, parseLeaf,
                                              parseMarkerVar, parsePythonStr, parseMarkerOp, mkExpr,
                                              Marker.eval; Gen.C16PypiEnv.envVars, opStrings,
                                              markerOpsByLength                             | op marker
marker_agrees_partial, keepDependency_agrees_partial : Pypi.evalMarker, keepDependency; parameters
                                              Pypi.Semver (ver=/leaf= fields of the op line) and
                                              Ref.Pep508.Packaging; Gen.C16PypiEnv.markers  | ops marker, resolve
gen_*, envVars_*                            : Gen.C16PypiEnv.{opNames, opStrings, markerOpsByLength,
                                              envVars, markers} (translator C16PypiEnv)
marker_*_refuted                            : Pypi.evalMarker vs Ref.Pep508.evalMarker on the witnesses of
                                              props/C16.known.json
-/
