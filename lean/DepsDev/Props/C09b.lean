import DepsDev.Props.C09
import DepsDev.Proofs.C09bParse
import DepsDev.Proofs.C09bPrint

/-!
# C09b — extensions of C09 (set union / intersection = union / intersection of the versions matched)

(a) **Release mode (`MatchVersion`, `includePrerelease = false`), prerelease candidates.**
    `contains_release_mode`, `matchVersion_release_mode`: what a well-formed span / set matches.
    The full union law `UnionLawRel` is REFUTED (`unionLawRel_refuted`: finding F-C09-pre-merge, a
    merged span forgets the inner prerelease bound that admitted the candidate; `union_rel_gain`: the
    merged span may also accept a candidate neither operand admits). `union_law_pre_partial` proves it
    under `NoPreMerge` (no two tagged spans that overlap or touch have a bound touching the
    candidate); the witnesses violate exactly this hypothesis. The intersection law is not claimed by
    the property for prerelease candidates and is false (`intersectLawRel_refuted`);
    `intersect_law_pre_partial` covers candidates touching no bound.
(b) **Parser output is in the domain of the laws** (`parseConstraint_domain`), hence
    `union_law_parsed`, `intersect_law_parsed`, `union_law_release_parsed`, `intersect_law_release_parsed`,
    `union_law_pre_parsed`: statements about constraint TEXTS and candidate TEXTS.
    `parseSetConstraint_not_sorted`: `ParseSetConstraint` does not establish the sortedness `Intersect` needs.
(c) **NuGet and Composer** (`Sys6`): the inclusive laws and the release-candidate laws.
(d) **Printed result under operand order**: `UnionPrintComm` is REFUTED (`unionPrintComm_refuted`,
    NPM `1.0.0-01 ∪ 1.0.0-1`); `union_print_comm_partial`, `union_print_perm_partial` prove it when spans
    that tie in `canon`'s sort are identical (`TieFree`).
-/
namespace DepsDev.Props.C09b

open Std DepsDev DepsDev.Semver DepsDev.Proofs DepsDev.Proofs.C09 DepsDev.Proofs.C09b DepsDev.Props.C09

variable {s : System}

/-! ## (c) NuGet and Composer: the laws for the six systems without extension -/

/-- `newSpan` establishes `SpanOK` for NuGet and Composer too. -/
theorem newSpan_establishes_sys6 (hs : Sys6 s) {a b : Version} (ha : VG s a) (hb : VG s b) (ao bo : Bool)
    {sp : Span} (h : newSpan a ao b bo = .ok sp) : SpanOK s sp :=
  newSpan_spanOK ⟨hs.ne.1, hs.ne.2.2.2.1, hs.ne.2.2.2.2⟩ ha hb ao bo h

/-- `Set.matchVersion` on a well-formed set of one of the six systems, under inclusive matching or
for a candidate with `isPrerelease = false`: some span contains the candidate as an interval. -/
theorem matchVersion_interval_sys6 (hs : Sys6 s) {S : VSet} (hS : SetOK s S) {v : Version} (hv : VG s v)
    (incl : Bool) (hi : incl = true ∨ v.isPrerelease = false) :
    S.matchVersion v incl = .ok (anyHas s S.span v) :=
  matchVersion_eq6 hs hS.nonempty hS.spans hv incl hi

theorem union_law_partial_sys6 (hs : Sys6 s) {A B : VSet} (hA : SetOK s A) (hB : SetOK s B) {v : Version}
    (hv : VG s v) (hseam : NoSeam s A B v) :
    ∃ U a b, A.union B = .ok U ∧ A.matchVersion v true = .ok a ∧ B.matchVersion v true = .ok b ∧
      U.matchVersion v true = .ok (a || b) := by
  obtain ⟨U, e, hU, -, -, hlaw⟩ := union_core hs.ne.1 hA hB
  refine ⟨U, _, _, e, matchVersion_eq6 hs hA.nonempty hA.spans hv true (Or.inl rfl),
    matchVersion_eq6 hs hB.nonempty hB.spans hv true (Or.inl rfl), ?_⟩
  rw [matchVersion_eq6 hs hU.nonempty hU.spans hv true (Or.inl rfl), hlaw v hseam]

theorem intersect_law_partial_sys6 (hs : Sys6 s) {A B : VSet} (hA : SetOK s A) (hB : SetOK s B)
    (hsorted : MinSorted s B.span) {v : Version} (hv : VG s v) (hseam : NoSeam s A B v) :
    ∃ R a b, A.intersect B = .ok R ∧ A.matchVersion v true = .ok a ∧ B.matchVersion v true = .ok b ∧
      R.matchVersion v true = .ok (a && b) := by
  obtain ⟨R, e, hR, -, -, hlaw⟩ := intersect_core hs.ne.1 hA hB hsorted
  refine ⟨R, _, _, e, matchVersion_eq6 hs hA.nonempty hA.spans hv true (Or.inl rfl),
    matchVersion_eq6 hs hB.nonempty hB.spans hv true (Or.inl rfl), ?_⟩
  rw [matchVersion_eq6 hs hR.nonempty hR.spans hv true (Or.inl rfl), hlaw v (Or.inr hseam)]

theorem union_law_release_sys6 (hs : Sys6 s) {A B : VSet} (hA : SetOK s A) (hB : SetOK s B)
    (htidy : ∀ x ∈ bounds (A.span ++ B.span), x.pre = [] → Tidy x) {v : Version} (hv : VG s v)
    (hrel : v.isPrerelease = false) (hpre : v.pre = []) (hb : Bounded v) (incl : Bool) :
    ∃ U a b, A.union B = .ok U ∧ A.matchVersion v incl = .ok a ∧ B.matchVersion v incl = .ok b ∧
      U.matchVersion v incl = .ok (a || b) := by
  obtain ⟨U, e, hU, -, -, hlaw⟩ := union_core hs.ne.1 hA hB
  have hi : incl = true ∨ v.isPrerelease = false := Or.inr hrel
  refine ⟨U, _, _, e, matchVersion_eq6 hs hA.nonempty hA.spans hv incl hi,
    matchVersion_eq6 hs hB.nonempty hB.spans hv incl hi, ?_⟩
  rw [matchVersion_eq6 hs hU.nonempty hU.spans hv incl hi, hlaw v (noSeam_of_release htidy hb hpre)]

theorem intersect_law_release_sys6 (hs : Sys6 s) {A B : VSet} (hA : SetOK s A) (hB : SetOK s B)
    (hsorted : MinSorted s B.span)
    (htidy : ∀ x ∈ bounds (A.span ++ B.span), x.pre = [] → Tidy x) {v : Version} (hv : VG s v)
    (hrel : v.isPrerelease = false) (hpre : v.pre = []) (hb : Bounded v) (incl : Bool) :
    ∃ R a b, A.intersect B = .ok R ∧ A.matchVersion v incl = .ok a ∧ B.matchVersion v incl = .ok b ∧
      R.matchVersion v incl = .ok (a && b) := by
  obtain ⟨R, e, hR, -, -, hlaw⟩ := intersect_core hs.ne.1 hA hB hsorted
  have hi : incl = true ∨ v.isPrerelease = false := Or.inr hrel
  refine ⟨R, _, _, e, matchVersion_eq6 hs hA.nonempty hA.spans hv incl hi,
    matchVersion_eq6 hs hB.nonempty hB.spans hv incl hi, ?_⟩
  rw [matchVersion_eq6 hs hR.nonempty hR.spans hv incl hi,
    hlaw v (Or.inr (noSeam_of_release htidy hb hpre))]

/-! ## (b) what the parsers return is in the domain of the laws -/

/-- Every set `ParseConstraint` returns (Default, NPM, Cargo, Go, Composer) is well-formed and
sorted by `min`. -/
theorem parseConstraint_domain (hs : SysR s) {c : Bytes} {C : Constraint} (h : parseConstraint s c = .ok C) :
    SetOK s C.set ∧ MinSorted s C.set.span :=
  let r := parseConstraint_setOK (generic_of_sys6 hs.sys6) (by simpa using hs.ne.2.2.1) c C h
  ⟨r.1, r.2.1⟩

/-- Every version `Parse` returns is a version of the system without extension. -/
theorem parse_domain (hs : Sys6 s) {t : Bytes} {v : Version} (h : parse s t = .ok v) : VG s v :=
  bvw_VG (C11.parse_bvw s (generic_of_sys6 hs) t v h)

/-- **Union law on constraint texts** (inclusive matching): for all constraint texts `c1`, `c2` that
parse and every candidate text `t` that parses, `Union` never fails and matches the candidate iff
one of the operands does — outside successor seams (F-C09-succ). -/
theorem union_law_parsed (hs : SysR s) {c1 c2 t : Bytes} {C1 C2 : Constraint} {v : Version}
    (h1 : parseConstraint s c1 = .ok C1) (h2 : parseConstraint s c2 = .ok C2) (hv : parse s t = .ok v)
    (hseam : NoSeam s C1.set C2.set v) :
    ∃ U a b, C1.set.union C2.set = .ok U ∧ C1.set.matchVersion v true = .ok a ∧
      C2.set.matchVersion v true = .ok b ∧ U.matchVersion v true = .ok (a || b) :=
  union_law_partial_sys6 hs.sys6 (parseConstraint_domain hs h1).1 (parseConstraint_domain hs h2).1
    (parse_domain hs.sys6 hv) hseam

/-- **Intersection law on constraint texts** (inclusive matching). The sortedness `Intersect` relies on
is a theorem about the parser, not a hypothesis. -/
theorem intersect_law_parsed (hs : SysR s) {c1 c2 t : Bytes} {C1 C2 : Constraint} {v : Version}
    (h1 : parseConstraint s c1 = .ok C1) (h2 : parseConstraint s c2 = .ok C2) (hv : parse s t = .ok v)
    (hseam : NoSeam s C1.set C2.set v) :
    ∃ R a b, C1.set.intersect C2.set = .ok R ∧ C1.set.matchVersion v true = .ok a ∧
      C2.set.matchVersion v true = .ok b ∧ R.matchVersion v true = .ok (a && b) :=
  intersect_law_partial_sys6 hs.sys6 (parseConstraint_domain hs h1).1 (parseConstraint_domain hs h2).1
    (parseConstraint_domain hs h2).2 (parse_domain hs.sys6 hv) hseam

/-- Release candidates, both matching modes, on constraint texts: the union law in full. -/
theorem union_law_release_parsed (hs : SysR s) {c1 c2 t : Bytes} {C1 C2 : Constraint} {v : Version}
    (h1 : parseConstraint s c1 = .ok C1) (h2 : parseConstraint s c2 = .ok C2) (hv : parse s t = .ok v)
    (htidy : ∀ x ∈ bounds (C1.set.span ++ C2.set.span), x.pre = [] → Tidy x)
    (hrel : v.isPrerelease = false) (hpre : v.pre = []) (hb : Bounded v) (incl : Bool) :
    ∃ U a b, C1.set.union C2.set = .ok U ∧ C1.set.matchVersion v incl = .ok a ∧
      C2.set.matchVersion v incl = .ok b ∧ U.matchVersion v incl = .ok (a || b) :=
  union_law_release_sys6 hs.sys6 (parseConstraint_domain hs h1).1 (parseConstraint_domain hs h2).1 htidy
    (parse_domain hs.sys6 hv) hrel hpre hb incl

/-- Release candidates, both matching modes, on constraint texts: the intersection law in full. -/
theorem intersect_law_release_parsed (hs : SysR s) {c1 c2 t : Bytes} {C1 C2 : Constraint} {v : Version}
    (h1 : parseConstraint s c1 = .ok C1) (h2 : parseConstraint s c2 = .ok C2) (hv : parse s t = .ok v)
    (htidy : ∀ x ∈ bounds (C1.set.span ++ C2.set.span), x.pre = [] → Tidy x)
    (hrel : v.isPrerelease = false) (hpre : v.pre = []) (hb : Bounded v) (incl : Bool) :
    ∃ R a b, C1.set.intersect C2.set = .ok R ∧ C1.set.matchVersion v incl = .ok a ∧
      C2.set.matchVersion v incl = .ok b ∧ R.matchVersion v incl = .ok (a && b) :=
  intersect_law_release_sys6 hs.sys6 (parseConstraint_domain hs h1).1 (parseConstraint_domain hs h2).1
    (parseConstraint_domain hs h2).2 htidy (parse_domain hs.sys6 hv) hrel hpre hb incl

/-- The results of `Union` / `Intersect` on parsed sets are again well-formed and sorted, so the
laws apply to every set built from constraint texts by the two operations. -/
theorem ops_closed_parsed (hs : SysR s) {c1 c2 : Bytes} {C1 C2 : Constraint}
    (h1 : parseConstraint s c1 = .ok C1) (h2 : parseConstraint s c2 = .ok C2) :
    (∃ U, C1.set.union C2.set = .ok U ∧ SetOK s U ∧ MinSorted s U.span) ∧
    (∃ R, C1.set.intersect C2.set = .ok R ∧ SetOK s R ∧ MinSorted s R.span) := by
  obtain ⟨d1, -⟩ := parseConstraint_domain hs h1
  obtain ⟨d2, s2⟩ := parseConstraint_domain hs h2
  obtain ⟨U, e, u1, u2, -⟩ := union_core hs.sys6.ne.1 d1 d2
  obtain ⟨R, e', r1, r2, -⟩ := intersect_core hs.sys6.ne.1 d1 d2 s2
  exact ⟨⟨U, e, u1, u2⟩, ⟨R, e', r1, r2⟩⟩

/-! ### `ParseSetConstraint` does not establish sortedness -/

/-- `{[2.0.0:3.0.0],1.0.0}` as `ParseSetConstraint` returns it (NPM). -/
def wS2 : VSet := { sys := .npm, span := [
  { rank := .vector, min := some (rel [2, 0, 0]), max := some (rel [3, 0, 0]) },
  { rank := .unit, min := some (rel [1, 0, 0]), max := some (rel [1, 0, 0]) }] }
/-- `{1.0.0}` -/
def wS1 : VSet := { sys := .npm, span := [{ rank := .unit, min := some (rel [1, 0, 0]), max := some (rel [1, 0, 0]) }] }

/-- `ParseSetConstraint` (the inverse of `Set.String`) accepts a set whose spans are not sorted by
`min`; on it `Intersect`'s early `break` loses `1.0.0` (`{1.0.0} ∩ {[2.0.0:3.0.0],1.0.0} = {<empty>}`):
the hypothesis `MinSorted` of the intersection laws is needed, and is a theorem only for
`ParseConstraint` (`parseConstraint_domain`) and for results of the operations. -/
theorem parseSetConstraint_not_sorted :
    (parseSetConstraint .npm "{[2.0.0:3.0.0],1.0.0}".toUTF8.toList >>= fun c => Outcome.ok c.set) = .ok wS2 ∧
    (parseSetConstraint .npm "{1.0.0}".toUTF8.toList >>= fun c => Outcome.ok c.set) = .ok wS1 ∧
    SetOK .npm wS1 ∧ SetOK .npm wS2 ∧ ¬ MinSorted .npm wS2.span ∧
    wS1.intersect wS2 = .ok { sys := .npm, span := [Span.emptySpan] } ∧
    wS1.matchVersion (rel [1, 0, 0]) true = .ok true ∧ wS2.matchVersion (rel [1, 0, 0]) true = .ok true := by
  refine ⟨by decide +kernel, by decide +kernel, setOK_of_b (by decide +kernel), setOK_of_b (by decide +kernel), ?_,
    by decide +kernel, by decide +kernel, by decide +kernel⟩
  intro h
  unfold MinSorted at h
  have := (List.pairwise_cons.mp h).1 _ (List.mem_singleton.mpr rfl) (rel [2, 0, 0]) (rel [1, 0, 0])
    (by decide) (by decide) rfl rfl
  have g : ∀ v : Version, v.sys = .npm → v.ext = .none → VG .npm v := fun _ h1 h2 => ⟨h1, h2⟩
  exact absurd ((leB_iff (g _ rfl rfl) (g _ rfl rfl)).mpr this) (by decide +kernel)

/-! ## (a) release mode, prerelease candidates -/

/-- T1 in release mode: what `span.contains(v, false)` answers on a well-formed span. -/
theorem contains_release_mode (hs : SysR s) {sp : Span} {v : Version} (hsp : SpanOK s sp) (hv : VG s v) :
    sp.contains v false = .ok (relHas s sp v) := contains_rel hs.ne.2.2.2.2 hsp hv

/-- `relHas` spelled out for a prerelease candidate and a vector span: inside the interval, and one of
the bounds is a prerelease with the number list of the candidate. -/
theorem relHas_vector {sp : Span} {a b v : Version} (hr : sp.rank = .vector) (h1 : sp.min = some a)
    (h2 : sp.max = some b) (hp : v.isPrerelease = true) :
    relHas s sp v = (has s sp v && ((a.isPrerelease && v.num == a.num) || (b.isPrerelease && v.num == b.num))) := by
  have : (Rank.vector == Rank.unit) = false := by decide
  simp [relHas, hr, h1, h2, hp, admits, equalValues, this]

/-- `Set.MatchVersion` (release mode) on a well-formed set. -/
theorem matchVersion_release_mode (hs : SysR s) {S : VSet} (hS : SetOK s S) {v : Version} (hv : VG s v) :
    S.matchVersion v false = .ok (anyRel s S.span v) := matchVersion_rel hs hS.nonempty hS.spans hv

/-- The union law in release mode at full strength (all candidates). -/
def UnionLawRel (s : System) : Prop :=
  ∀ A B v, SetOK s A → SetOK s B → VG s v →
    ∃ U a b, A.union B = .ok U ∧ A.matchVersion v false = .ok a ∧ B.matchVersion v false = .ok b ∧
      U.matchVersion v false = .ok (a || b)

/-- The intersection law in release mode for all candidates (the property claims it for release
versions only). -/
def IntersectLawRel (s : System) : Prop :=
  ∀ A B v, SetOK s A → SetOK s B → MinSorted s B.span → VG s v →
    ∃ R a b, A.intersect B = .ok R ∧ A.matchVersion v false = .ok a ∧ B.matchVersion v false = .ok b ∧
      R.matchVersion v false = .ok (a && b)

/-- No two spans of the operands (at different positions of `A.span ++ B.span`) that carry
prerelease tags on all four bounds and overlap or touch have a bound touching the candidate. -/
def NoPreMerge (s : System) (A B : VSet) (v : Version) : Prop := NoPreMergeL s v (A.span ++ B.span)

instance (s : System) (A B : VSet) (v : Version) : Decidable (NoPreMerge s A B v) :=
  inferInstanceAs (Decidable (NoPreMergeL _ _ _))

/-- No bound of the operands is flagged as a prerelease, carries no tag and has the number list of the
candidate. (`clearPre` drops the tag and keeps the flag: the upper bound `1.∞.∞` of `^1.2.3-a` is flagged
but untagged; a parsed candidate has no `∞` number, so the hypothesis holds for it.) -/
def FlagsOK (A B : VSet) (v : Version) : Prop := ∀ x ∈ bounds (A.span ++ B.span), FlagOK v x

instance (A B : VSet) (v : Version) : Decidable (FlagsOK A B v) := by unfold FlagsOK; infer_instance

/-- **Union law, release mode, prerelease candidates** — `_partial`: under `NoPreMerge`, `Union` never
fails and `MatchVersion` of the result is the disjunction of `MatchVersion` of the operands. (No seam
hypothesis: a release-bounded merged span admits no prerelease in release mode.) -/
theorem union_law_pre_partial (hs : SysR s) {A B : VSet} (hA : SetOK s A) (hB : SetOK s B) {v : Version}
    (hv : VG s v) (hp : v.isPrerelease = true) (hvt : v.pre ≠ []) (hflag : FlagsOK A B v)
    (hpm : NoPreMerge s A B v) :
    ∃ U a b, A.union B = .ok U ∧ A.matchVersion v false = .ok a ∧ B.matchVersion v false = .ok b ∧
      U.matchVersion v false = .ok (a || b) := by
  have hok : ∀ x ∈ A.span ++ B.span, SpanOK s x ∧ AllB (FlagOK v) x := by
    intro x hx
    refine ⟨?_, allB_of_bounds hflag hx⟩
    rcases List.mem_append.mp hx with h | h
    · exact hA.spans x h
    · exact hB.spans x h
  obtain ⟨r, e, h1, h2, -, -⟩ := canonSpans_spec (FlagOK v) hs.ne.1 (A.span ++ B.span) hok
  have hrel := canonSpans_rel hs.ne.1 hp hvt (A.span ++ B.span) hok hpm e
  have hU : SetOK s { A with span := r } :=
    ⟨h2 (fun h => hA.nonempty (List.append_eq_nil_iff.mp h).1), fun x hx => (h1 x hx).1⟩
  refine ⟨{ A with span := r }, _, _, by unfold VSet.union; rw [e]; rfl, matchVersion_rel hs hA.nonempty hA.spans hv,
    matchVersion_rel hs hB.nonempty hB.spans hv, ?_⟩
  rw [matchVersion_rel hs hU.nonempty hU.spans hv]
  show Outcome.ok (anyRel s r v) = _
  rw [hrel, anyRel_append]

/-- The same on constraint texts. -/
theorem union_law_pre_parsed (hs : SysR s) {c1 c2 t : Bytes} {C1 C2 : Constraint} {v : Version}
    (h1 : parseConstraint s c1 = .ok C1) (h2 : parseConstraint s c2 = .ok C2) (hv : parse s t = .ok v)
    (hp : v.isPrerelease = true) (hvt : v.pre ≠ []) (hflag : FlagsOK C1.set C2.set v)
    (hpm : NoPreMerge s C1.set C2.set v) :
    ∃ U a b, C1.set.union C2.set = .ok U ∧ C1.set.matchVersion v false = .ok a ∧
      C2.set.matchVersion v false = .ok b ∧ U.matchVersion v false = .ok (a || b) :=
  union_law_pre_partial hs (parseConstraint_domain hs h1).1 (parseConstraint_domain hs h2).1
    (parse_domain hs.sys6 hv) hp hvt hflag hpm

/-- No bound of the operands touches the candidate. -/
def TouchFree (s : System) (A B : VSet) (v : Version) : Prop :=
  ∀ x ∈ bounds (A.span ++ B.span), ¬ Touches s v x

instance (s : System) (A B : VSet) (v : Version) : Decidable (TouchFree s A B v) := by
  unfold TouchFree; infer_instance

theorem anyRel_false_of_touchFree {l : List Span} {v : Version} (hok : ∀ x ∈ l, SpanOK s x)
    (hp : v.isPrerelease = true) (h : ∀ x ∈ bounds l, ¬ Touches s v x) : anyRel s l v = false := by
  rw [← Bool.not_eq_true, anyRel_iff]
  rintro ⟨sp, hsp, hv⟩
  rw [relHas_false_of_noTouch (hok sp hsp) hp (allB_of_bounds h hsp)] at hv
  cases hv

/-- **Intersection, release mode, prerelease candidates** — `_partial`: a prerelease candidate that
touches no bound of the operands is matched by neither operand nor by the intersection (whose bounds
are bounds of the operands). For candidates touching a bound the law is false (`intersectLawRel_refuted`)
and is not claimed by the property. -/
theorem intersect_law_pre_partial (hs : SysR s) {A B : VSet} (hA : SetOK s A) (hB : SetOK s B)
    (hsorted : MinSorted s B.span) {v : Version} (hv : VG s v) (hp : v.isPrerelease = true)
    (htf : TouchFree s A B v) :
    ∃ R a b, A.intersect B = .ok R ∧ A.matchVersion v false = .ok a ∧ B.matchVersion v false = .ok b ∧
      R.matchVersion v false = .ok (a && b) := by
  obtain ⟨R, e, hR, -, hb, -⟩ := intersect_core hs.ne.1 hA hB hsorted
  refine ⟨R, _, _, e, matchVersion_rel hs hA.nonempty hA.spans hv, matchVersion_rel hs hB.nonempty hB.spans hv, ?_⟩
  rw [matchVersion_rel hs hR.nonempty hR.spans hv,
    anyRel_false_of_touchFree hR.spans hp (fun x hx => htf x (hb x hx)),
    anyRel_false_of_touchFree hA.spans hp (fun x hx => htf x (by
      unfold bounds at hx ⊢; rw [List.flatMap_append]; exact List.mem_append_left _ hx))]
  rfl

/-! ### refutations: finding F-C09-pre-merge and its variants -/

def preV (n : List Int) (t : Bytes) : Version :=
  { sys := .npm, userNumCount := 3, isPrerelease := true, num := n, pre := [t] }
/-- The least version `0.0.0-0` as `MinVersion` builds it: tagged, but flagged as a release. -/
def minV : Version := { sys := .npm, userNumCount := 3, num := [0, 0, 0], pre := [[48]] }

/-- `<2.1.3-0` = `{[0.0.0-0:2.1.3-0)}` -/
def spE : Span := { rank := .vector, maxOpen := true, min := some minV, max := some (preV [2, 1, 3] [48]) }
def wE : VSet := { sys := .npm, span := [spE] }
/-- `~2.1.3-0` = `{[2.1.3-0:2.1.∞-0]}` -/
def spF : Span := { rank := .vector, min := some (preV [2, 1, 3] [48]), max := some (preV [2, 1, infinity] [48]) }
def wF : VSet := { sys := .npm, span := [spF] }
/-- their union as `canon` computes it: `{[0.0.0-0:2.1.∞-0]}` -/
def wEF : VSet := { sys := .npm, span := [{ rank := .vector, min := some minV, max := some (preV [2, 1, infinity] [48]) }] }
/-- `2.1.3-0` -/
def wQ : Version := preV [2, 1, 3] [48]
/-- `2.1.5-0` -/
def wQ' : Version := preV [2, 1, 5] [48]

/-- `=0.0.0-0` = `{0.0.0-0}` -/
def spG : Span := { rank := .unit, min := some (preV [0, 0, 0] [48]), max := some (preV [0, 0, 0] [48]) }
def wG : VSet := { sys := .npm, span := [spG] }
/-- `<1.0.0-0` = `{[0.0.0-0:1.0.0-0)}` -/
def spH : Span := { rank := .vector, maxOpen := true, min := some minV, max := some (preV [1, 0, 0] [48]) }
def wH : VSet := { sys := .npm, span := [spH] }
/-- their union: `{[0.0.0-0:1.0.0-0)}` with the parsed (prerelease-flagged) `0.0.0-0` as lower bound -/
def wGH : VSet := { sys := .npm, span := [
  { rank := .vector, maxOpen := true, min := some (preV [0, 0, 0] [48]), max := some (preV [1, 0, 0] [48]) }] }
/-- `0.0.0-5` -/
def wQ5 : Version := preV [0, 0, 0] [53]

/-- `>=1.0.0-a <=2.0.0` = `{[1.0.0-a:2.0.0]}` -/
def wI : VSet := { sys := .npm, span := [{ rank := .vector, min := some (preV [1, 0, 0] [97]), max := some (rel [2, 0, 0]) }] }
/-- `>=1.0.0-b <=2.0.0-c` = `{[1.0.0-b:2.0.0-c]}` -/
def wJ : VSet := { sys := .npm, span := [{ rank := .vector, min := some (preV [1, 0, 0] [98]), max := some (preV [2, 0, 0] [99]) }] }
/-- `2.0.0-a` -/
def wQa : Version := preV [2, 0, 0] [97]

/-- The witnesses are what the model's `ParseConstraint` / `Parse` return on the texts of the findings. -/
example : (parseConstraint .npm "<2.1.3-0".toUTF8.toList >>= fun c => Outcome.ok c.set) = .ok wE ∧
    (parseConstraint .npm "~2.1.3-0".toUTF8.toList >>= fun c => Outcome.ok c.set) = .ok wF ∧
    (parseConstraint .npm "=0.0.0-0".toUTF8.toList >>= fun c => Outcome.ok c.set) = .ok wG ∧
    (parseConstraint .npm "<1.0.0-0".toUTF8.toList >>= fun c => Outcome.ok c.set) = .ok wH ∧
    (parseConstraint .npm ">=1.0.0-a <=2.0.0".toUTF8.toList >>= fun c => Outcome.ok c.set) = .ok wI ∧
    (parseConstraint .npm ">=1.0.0-b <=2.0.0-c".toUTF8.toList >>= fun c => Outcome.ok c.set) = .ok wJ ∧
    parse .npm "2.1.3-0".toUTF8.toList = .ok wQ ∧ parse .npm "0.0.0-5".toUTF8.toList = .ok wQ5 ∧
    parse .npm "2.0.0-a".toUTF8.toList = .ok wQa ∧ parse .npm "2.1.5-0".toUTF8.toList = .ok wQ' := by
  refine ⟨?_, ?_, ?_, ?_, ?_, ?_, ?_, ?_, ?_, ?_⟩ <;> decide +kernel

theorem wE_ok : SetOK .npm wE := setOK_of_b (by decide +kernel)
theorem wF_ok : SetOK .npm wF := setOK_of_b (by decide +kernel)
theorem wG_ok : SetOK .npm wG := setOK_of_b (by decide +kernel)
theorem wH_ok : SetOK .npm wH := setOK_of_b (by decide +kernel)
theorem wI_ok : SetOK .npm wI := setOK_of_b (by decide +kernel)
theorem wJ_ok : SetOK .npm wJ := setOK_of_b (by decide +kernel)

/-- **F-C09-pre-merge (loss).** `<2.1.3-0 ∪ ~2.1.3-0` is computed as `[0.0.0-0, 2.1.∞-0]`; in release
mode it does not match `2.1.3-0`, which `~2.1.3-0` matches through its lower bound. -/
theorem unionLawRel_refuted : ¬ UnionLawRel .npm := by
  intro h
  obtain ⟨U, a, b, e, ea, eb, eu⟩ := h wE wF wQ wE_ok wF_ok ⟨rfl, rfl⟩
  have e' : wE.union wF = .ok wEF := by decide +kernel
  have ea' : wE.matchVersion wQ false = .ok false := by decide +kernel
  have eb' : wF.matchVersion wQ false = .ok true := by decide +kernel
  have eu' : wEF.matchVersion wQ false = .ok false := by decide +kernel
  rw [e'] at e; cases e
  rw [ea'] at ea; cases ea
  rw [eb'] at eb; cases eb
  rw [eu'] at eu; cases eu

/-- **F-C09-pre-merge (gain).** `=0.0.0-0 ∪ <1.0.0-0` is computed as `[0.0.0-0, 1.0.0-0)` with the
prerelease-flagged `0.0.0-0` of the first operand as lower bound; in release mode it matches
`0.0.0-5`, which neither operand matches. -/
theorem union_rel_gain : wG.union wH = .ok wGH ∧ wG.matchVersion wQ5 false = .ok false ∧
    wH.matchVersion wQ5 false = .ok false ∧ wGH.matchVersion wQ5 false = .ok true := by
  refine ⟨?_, ?_, ?_, ?_⟩ <;> decide +kernel

/-- Kernel-evaluable form of `Touches` (through the structural `vcompare`). -/
def touchesB (v x : Version) : Bool :=
  (x.isPrerelease && decide (v.num = x.num)) || (leB x v && leB v x)

theorem touches_of_b {v x : Version} (hv : VG s v) (hx : VG s x) (h : touchesB v x = true) : Touches s v x := by
  unfold touchesB at h
  simp only [Bool.or_eq_true, Bool.and_eq_true, decide_eq_true_eq] at h
  rcases h with h | h
  · exact Or.inl h
  · exact Or.inr ⟨(leB_iff hx hv).mp h.1, (leB_iff hv hx).mp h.2⟩

theorem noTouch_of_b {v x : Version} (hv : VG s v) (hx : VG s x) (h : touchesB v x = false) : ¬ Touches s v x := by
  intro ht
  rw [← Bool.not_eq_true] at h
  apply h
  unfold touchesB
  simp only [Bool.or_eq_true, Bool.and_eq_true, decide_eq_true_eq]
  rcases ht with ht | ht
  · exact Or.inl ht
  · exact Or.inr ⟨(leB_iff hx hv).mpr ht.1, (leB_iff hv hx).mpr ht.2⟩

/-- The loss witness violates exactly `NoPreMerge`: the spans of `<2.1.3-0` and `~2.1.3-0` are tagged on
all four bounds and touch at `2.1.3-0`, which is the candidate. -/
theorem witness_violates_noPreMerge : ¬ NoPreMerge .npm wE wF wQ := by
  have g : ∀ v : Version, v.sys = .npm → v.ext = .none → VG .npm v := fun _ h1 h2 => ⟨h1, h2⟩
  intro h
  have h2 : List.Pairwise (RS .npm wQ) [spE, spF] := h
  have h' := (List.pairwise_cons.mp h2).1 _ (List.mem_singleton.mpr rfl)
  have hel : Elig .npm spE spF := by
    rw [elig_iff (a := minV) (b := preV [2, 1, 3] [48]) (c := preV [2, 1, 3] [48]) (d := preV [2, 1, infinity] [48])
      rfl rfl rfl rfl]
    refine ⟨by decide, by decide, by decide, by decide, ?_, ?_⟩
    · intro hlt
      exact absurd ((ltB_iff (g _ rfl rfl) (g _ rfl rfl)).mpr hlt) (by decide +kernel)
    · intro hlt
      exact absurd ((ltB_iff (g _ rfl rfl) (g _ rfl rfl)).mpr hlt) (by decide +kernel)
  have := (h' hel).2.1 (preV [2, 1, 3] [48]) rfl
  exact this (touches_of_b (g _ rfl rfl) (g _ rfl rfl) (by decide +kernel))

/-- The gain witness violates `NoPreMerge` as well. -/
theorem gain_witness_violates_noPreMerge : ¬ NoPreMerge .npm wG wH wQ5 := by
  have g : ∀ v : Version, v.sys = .npm → v.ext = .none → VG .npm v := fun _ h1 h2 => ⟨h1, h2⟩
  intro h
  have h2 : List.Pairwise (RS .npm wQ5) [spG, spH] := h
  have h' := (List.pairwise_cons.mp h2).1 _ (List.mem_singleton.mpr rfl)
  have hel : Elig .npm spG spH := by
    rw [elig_iff (a := preV [0, 0, 0] [48]) (b := preV [0, 0, 0] [48]) (c := minV) (d := preV [1, 0, 0] [48])
      rfl rfl rfl rfl]
    refine ⟨by decide, by decide, by decide, by decide, ?_, ?_⟩
    · intro hlt
      exact absurd ((ltB_iff (g _ rfl rfl) (g _ rfl rfl)).mpr hlt) (by decide +kernel)
    · intro hlt
      exact absurd ((ltB_iff (g _ rfl rfl) (g _ rfl rfl)).mpr hlt) (by decide +kernel)
  have := (h' hel).1.1 (preV [0, 0, 0] [48]) rfl
  exact this (touches_of_b (g _ rfl rfl) (g _ rfl rfl) (by decide +kernel))

/-- The intersection law fails in release mode for a prerelease candidate (not claimed by the property,
which restricts it to release versions): `[1.0.0-a, 2.0.0] ∩ [1.0.0-b, 2.0.0-c] = [1.0.0-b, 2.0.0-c]`
matches `2.0.0-a` through the bound `2.0.0-c`, the first operand does not. -/
theorem intersectLawRel_refuted : ¬ IntersectLawRel .npm := by
  intro h
  obtain ⟨R, a, b, e, ea, eb, er⟩ := h wI wJ wQa wI_ok wJ_ok (minSorted_of_length_le_one _ (by decide)) ⟨rfl, rfl⟩
  have e' : wI.intersect wJ = .ok wJ := by decide +kernel
  have ea' : wI.matchVersion wQa false = .ok false := by decide +kernel
  have eb' : wJ.matchVersion wQa false = .ok true := by decide +kernel
  rw [e'] at e; cases e
  rw [ea'] at ea; cases ea
  rw [eb'] at eb er; cases eb
  cases er

/-! ## (d) the printed result under operand order -/

/-- `Union` prints the same whichever operand comes first. -/
def UnionPrintComm (s : System) : Prop :=
  ∀ A B U U', SetOK s A → SetOK s B → A.union B = .ok U → B.union A = .ok U' → U'.toBytes = U.toBytes

/-- **`_partial`**: if spans of the operands that tie under `canon`'s sort comparator (same bounds in
the order, same flags) are identical, then any rearrangement of the spans of the two operands
(swapping the operands, permuting inside an operand) gives the same span list, hence the same print. -/
theorem union_print_perm_partial (hs : s ≠ .maven) {A B A' B' : VSet} (hA : SetOK s A) (hB : SetOK s B)
    (hperm : (A'.span ++ B'.span).Perm (A.span ++ B.span)) (htie : TieFree s (A.span ++ B.span)) :
    ∃ U U', A.union B = .ok U ∧ A'.union B' = .ok U' ∧ U'.span = U.span ∧ U'.toBytes = U.toBytes := by
  have hok : ∀ x ∈ A.span ++ B.span, SpanOK s x := by
    intro x hx
    rcases List.mem_append.mp hx with h | h
    · exact hA.spans x h
    · exact hB.spans x h
  obtain ⟨U, e, -⟩ := union_core hs hA hB
  have hc := canonSpans_perm hs hperm hok htie
  unfold VSet.union at e ⊢
  cases hr : canonSpans (A.span ++ B.span) with
  | err => rw [hr] at e; cases e
  | panic => rw [hr] at e; cases e
  | ok r =>
    rw [hr] at e hc
    injection e with e
    subst e
    rw [hc]
    exact ⟨_, _, rfl, rfl, rfl, rfl⟩

theorem union_print_comm_partial (hs : s ≠ .maven) {A B : VSet} (hA : SetOK s A) (hB : SetOK s B)
    (htie : TieFree s (A.span ++ B.span)) :
    ∃ U U', A.union B = .ok U ∧ B.union A = .ok U' ∧ U'.span = U.span ∧ U'.toBytes = U.toBytes :=
  union_print_perm_partial hs hA hB List.perm_append_comm htie

/-- `1.0.0-01` = `{1.0.0-01}` (NPM accepts numeric prerelease identifiers with leading zeros and compares
them as numbers) -/
def spK : Span := { rank := .unit, min := some (preV [1, 0, 0] [48, 49]), max := some (preV [1, 0, 0] [48, 49]) }
def wK : VSet := { sys := .npm, span := [spK] }
/-- `1.0.0-1` = `{1.0.0-1}` -/
def spL : Span := { rank := .unit, min := some (preV [1, 0, 0] [49]), max := some (preV [1, 0, 0] [49]) }
def wL : VSet := { sys := .npm, span := [spL] }

example : (parseConstraint .npm "1.0.0-01".toUTF8.toList >>= fun c => Outcome.ok c.set) = .ok wK ∧
    (parseConstraint .npm "1.0.0-1".toUTF8.toList >>= fun c => Outcome.ok c.set) = .ok wL := by
  refine ⟨?_, ?_⟩ <;> decide +kernel

theorem wK_ok : SetOK .npm wK := setOK_of_b (by decide +kernel)
theorem wL_ok : SetOK .npm wL := setOK_of_b (by decide +kernel)

/-- **The printed union depends on the operand order** (finding F-C09-print-order):
`1.0.0-01 ∪ 1.0.0-1` prints `{1.0.0-01}`, `1.0.0-1 ∪ 1.0.0-01` prints `{1.0.0-1}` (NPM; the two
versions compare equal, the stable sort keeps the first operand's span first and the merge keeps it). -/
theorem unionPrintComm_refuted : ¬ UnionPrintComm .npm := by
  intro h
  have e1 : wK.union wL = .ok wK := by decide +kernel
  have e2 : wL.union wK = .ok wL := by decide +kernel
  have := h wK wL wK wL wK_ok wL_ok e1 e2
  exact absurd this (by decide +kernel)

/-- What the two results print. -/
theorem print_order_witness : wK.toBytes = "{1.0.0-01}".toUTF8.toList ∧ wL.toBytes = "{1.0.0-1}".toUTF8.toList := by
  refine ⟨?_, ?_⟩ <;> decide +kernel

/-- The witness violates exactly `TieFree`: the two unit spans tie in the sort and differ. -/
theorem witness_tie : ¬ TieFree .npm (wK.span ++ wL.span) := by
  intro h
  have hx : SpanOK .npm spK := wK_ok.spans _ (List.mem_singleton.mpr rfl)
  have hy : SpanOK .npm spL := wL_ok.spans _ (List.mem_singleton.mpr rfl)
  have l1 := spanLess_eq hx hy
  have l2 := spanLess_eq hy hx
  have e1 : spanLess spK spL = .ok false := by decide +kernel
  have e2 : spanLess spL spK = .ok false := by decide +kernel
  rw [e1] at l1
  rw [e2, OrientedCmp.eq_swap (cmp := spanOrd .npm)] at l2
  injection l1 with l1
  injection l2 with l2
  have heq : spanOrd .npm spK spL = .eq := by
    cases hc : spanOrd .npm spK spL with
    | lt => rw [hc] at l1; exact absurd l1 (by decide)
    | eq => rfl
    | gt => rw [hc] at l2; exact absurd l2 (by decide)
  have hm1 : spK ∈ wK.span ++ wL.span := by decide
  have hm2 : spL ∈ wK.span ++ wL.span := by decide
  exact absurd (h spK hm1 spL hm2 heq) (by decide)

/-! ## The hypotheses are satisfiable by non-trivial instances -/

/-- NuGet `[1.0.0, 2.0.0]` -/
def nugV (n : List Int) : Version := { sys := .nuget, userNumCount := 3, num := n }
def wN : VSet := { sys := .nuget, span := [
  { rank := .vector, min := some (nugV [1, 0, 0]), max := some (nugV [2, 0, 0]) }] }
/-- NuGet `[1.5.0, 3.0.0)` -/
def wN' : VSet := { sys := .nuget, span := [
  { rank := .vector, maxOpen := true, min := some (nugV [1, 5, 0]), max := some (nugV [3, 0, 0]) }] }
/-- NuGet `1.7.0-beta` -/
def wNv : Version := { sys := .nuget, userNumCount := 3, isPrerelease := true, num := [1, 7, 0], pre := [[98, 101, 116, 97]] }

/-- `*_sys6`: NuGet operands that overlap, a prerelease candidate inside both (inclusive matching). -/
example : Sys6 .nuget ∧ SetOK .nuget wN ∧ SetOK .nuget wN' ∧ MinSorted .nuget wN'.span ∧ VG .nuget wNv ∧
    NoSeam .nuget wN wN' wNv ∧ wN.matchVersion wNv true = .ok true ∧ wN'.matchVersion wNv true = .ok true :=
  ⟨Or.inr (Or.inl rfl), setOK_of_b (by decide +kernel), setOK_of_b (by decide +kernel),
    minSorted_of_length_le_one _ (by decide), ⟨rfl, rfl⟩, seamFree_of_noSeamB (by decide +kernel),
    by decide +kernel, by decide +kernel⟩

/-- `*_parsed`: constraint texts with several spans, a wildcard, a caret and a prerelease bound; the
candidate text `3.0.0-a` (hypothesis `NoSeam` holds). -/
example : SysR .npm ∧
    (∃ C, parseConstraint .npm "<=2.1.0 || >=2.1.1".toUTF8.toList = .ok C ∧ C.set = wB) ∧
    (∃ C, parseConstraint .npm ">=1.0.0 <=2.1.0".toUTF8.toList = .ok C ∧ C.set = wC) ∧
    parse .npm "3.0.0-a".toUTF8.toList = .ok wP ∧ NoSeam .npm wB wC wP := by
  refine ⟨Or.inl (Or.inr (Or.inl rfl)), ?_, ?_, by decide +kernel, seamFree_of_noSeamB (by decide +kernel)⟩
  · have : (parseConstraint .npm "<=2.1.0 || >=2.1.1".toUTF8.toList >>= fun c => Outcome.ok c.set) = .ok wB := by
      decide +kernel
    cases h : parseConstraint .npm "<=2.1.0 || >=2.1.1".toUTF8.toList with
    | ok C => rw [h] at this; injection this with this; exact ⟨C, rfl, this⟩
    | err => rw [h] at this; cases this
    | panic => rw [h] at this; cases this
  · have : (parseConstraint .npm ">=1.0.0 <=2.1.0".toUTF8.toList >>= fun c => Outcome.ok c.set) = .ok wC := by
      decide +kernel
    cases h : parseConstraint .npm ">=1.0.0 <=2.1.0".toUTF8.toList with
    | ok C => rw [h] at this; injection this with this; exact ⟨C, rfl, this⟩
    | err => rw [h] at this; cases this
    | panic => rw [h] at this; cases this

/-- `union_law_pre_partial`: the operands of the finding (`<2.1.3-0`, `~2.1.3-0`: two tagged spans that
touch, merged by `canon`), with the prerelease candidate `2.1.5-0`, which touches none of their bounds. -/
example : SysR .npm ∧ SetOK .npm wE ∧ SetOK .npm wF ∧ VG .npm wQ' ∧ wQ'.isPrerelease = true ∧ wQ'.pre ≠ [] ∧
    FlagsOK wE wF wQ' ∧ NoPreMerge .npm wE wF wQ' := by
  have g : ∀ v : Version, v.sys = .npm → v.ext = .none → VG .npm v := fun _ h1 h2 => ⟨h1, h2⟩
  refine ⟨Or.inl (Or.inr (Or.inl rfl)), wE_ok, wF_ok, ⟨rfl, rfl⟩, rfl, by decide, by decide, ?_⟩
  show List.Pairwise (RS .npm wQ') [spE, spF]
  refine List.pairwise_cons.mpr ⟨?_, List.pairwise_singleton _ _⟩
  intro y hy _
  rw [List.mem_singleton] at hy
  subst hy
  refine ⟨⟨?_, ?_⟩, ⟨?_, ?_⟩⟩ <;> intro x hx <;> cases hx <;>
    exact noTouch_of_b (g _ rfl rfl) (g _ rfl rfl) (by decide +kernel)

/-- `union_law_pre_partial` with a candidate that IS matched: the prerelease pin `1.0.0-01` (a unit span)
next to the release range `>=1.0.0 <=2.1.0`; candidate `1.0.0-1` (equal to the pin in the order). No two
tagged spans, so `NoPreMerge` holds although the candidate touches a bound. -/
example : SetOK .npm wK ∧ SetOK .npm wC ∧ VG .npm (preV [1, 0, 0] [49]) ∧ FlagsOK wK wC (preV [1, 0, 0] [49]) ∧
    NoPreMerge .npm wK wC (preV [1, 0, 0] [49]) ∧ wK.matchVersion (preV [1, 0, 0] [49]) false = .ok true := by
  refine ⟨wK_ok, wC_ok, ⟨rfl, rfl⟩, by decide, ?_, by decide +kernel⟩
  show List.Pairwise (RS .npm (preV [1, 0, 0] [49])) (spK :: wC.span)
  refine List.pairwise_cons.mpr ⟨?_, List.pairwise_singleton _ _⟩
  intro y hy he
  have hy' : y = { rank := .vector, min := some (rel [1, 0, 0]), max := some (rel [2, 1, 0]) } := by
    simpa [wC] using hy
  subst hy'
  rw [elig_iff (a := preV [1, 0, 0] [48, 49]) (b := preV [1, 0, 0] [48, 49]) (c := rel [1, 0, 0]) (d := rel [2, 1, 0])
    rfl rfl rfl rfl] at he
  exact absurd rfl he.2.2.1

/-- `intersect_law_pre_partial`: `[1.0.0-a, 2.0.0] ∩ [1.0.0-b, 2.0.0-c]` and the candidate `2.1.5-0`... -/
example : SetOK .npm wI ∧ SetOK .npm wJ ∧ MinSorted .npm wJ.span ∧ VG .npm (preV [1, 5, 0] [97]) ∧
    TouchFree .npm wI wJ (preV [1, 5, 0] [97]) := by
  have g : ∀ v : Version, v.sys = .npm → v.ext = .none → VG .npm v := fun _ h1 h2 => ⟨h1, h2⟩
  refine ⟨wI_ok, wJ_ok, minSorted_of_length_le_one _ (by decide), ⟨rfl, rfl⟩, ?_⟩
  intro x hx
  have hx' : x = preV [1, 0, 0] [97] ∨ x = rel [2, 0, 0] ∨ x = preV [1, 0, 0] [98] ∨ x = preV [2, 0, 0] [99] := by
    simpa [bounds, wI, wJ] using hx
  rcases hx' with rfl | rfl | rfl | rfl <;> exact noTouch_of_b (g _ rfl rfl) (g _ rfl rfl) (by decide +kernel)

/-- `union_print_comm_partial`: operands of the F-C09-succ witness (`>=1.0.0 <=2.1.0`, `>=2.1.1`), which
`canon` merges; no two spans tie. -/
example : SetOK .npm wC ∧ SetOK .npm wD ∧ TieFree .npm (wC.span ++ wD.span) := by
  refine ⟨wC_ok, wD_ok, ?_⟩
  intro x hx y hy he
  have hx' : x = wC.span.head (by decide) ∨ x = wD.span.head (by decide) := by simpa [wC, wD] using hx
  have hy' : y = wC.span.head (by decide) ∨ y = wD.span.head (by decide) := by simpa [wC, wD] using hy
  have hxo : SpanOK .npm (wC.span.head (by decide)) := wC_ok.spans _ (List.mem_singleton.mpr rfl)
  have hyo : SpanOK .npm (wD.span.head (by decide)) := wD_ok.spans _ (List.mem_singleton.mpr rfl)
  rcases hx' with rfl | rfl <;> rcases hy' with rfl | rfl
  · rfl
  · exfalso
    have l1 := spanLess_eq hxo hyo
    have e1 : spanLess (wC.span.head (by decide)) (wD.span.head (by decide)) = .ok true := by decide +kernel
    rw [e1, he] at l1
    injection l1 with l1
    cases l1
  · exfalso
    have l1 := spanLess_eq hxo hyo
    have e1 : spanLess (wC.span.head (by decide)) (wD.span.head (by decide)) = .ok true := by decide +kernel
    rw [OrientedCmp.eq_swap (cmp := spanOrd .npm), he] at l1
    rw [e1] at l1
    injection l1 with l1
    cases l1
  · rfl

end DepsDev.Props.C09b
