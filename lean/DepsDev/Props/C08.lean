import DepsDev.Proofs.C08Final
import DepsDev.Proofs.C08Witness

/-!
# C08 — a PyPI resolution graph is a consistent pip solution

Statements are about `resolveWith U root n`: the model of `resolver.Resolve`
(`DepsDev/Model/Resolve/Pypi.lean`) for an arbitrary universe `U` (the client's and
provider's answers as data), root and round bound `n` (`Resolve` is the instance
`n = Gen.C08Consts.maxRounds`), whenever it returns a graph, i.e. no error and no
graph-level error. `S` is the final resolver state, `ids` the package → node table.
-/
namespace DepsDev.Props.C08

open DepsDev.Resolve.Pypi DepsDev.Gen

theorem resolveWith_graph {U : Universe} {root : Ver} {n : Nat} {g : Graph} {S : State} {ids : List (Nat × Ver)}
    (h : resolveWith U root n = .graph g S ids) :
    ∃ direct, getDependencies U root [] = .ok direct ∧ resolve U root direct n = .done S ∧
      buildGraph S root = .ok g ids := by
  simp only [resolveWith] at h
  split at h <;> try (simp at h)
  rename_i direct hd
  split at h <;> try (simp at h)
  rename_i S' hr
  split at h <;> try (simp at h)
  rename_i g' ids' hb
  obtain ⟨rfl, rfl, rfl⟩ := h
  exact ⟨direct, hd, hr, hb⟩

/-- the state invariants hold in the final state -/
theorem final_inv {U : Universe} {root : Ver} {n : Nat} {g : Graph} {S : State} {ids : List (Nat × Ver)}
    (h : resolveWith U root n = .graph g S ids) : Inv U root S := by
  obtain ⟨direct, hd, hr, _⟩ := resolveWith_graph h
  exact resolve_inv (inv_step direct hd) hr

/-! ## P1: exactly one version per package -/

def C08_P1 : Prop :=
  ∀ (U : Universe) (root : Ver) (n : Nat) (g : Graph) (S : State) (ids : List (Nat × Ver)),
    resolveWith U root n = .graph g S ids → (g.nodes.map (·.pkg)).Nodup

theorem c08_P1 : C08_P1 := by
  intro U root n g S ids h
  obtain ⟨_, _, _, hb⟩ := resolveWith_graph h
  obtain ⟨wf, _, hn, _, _⟩ := buildGraph_spec hb
  rw [hn, List.map_map]
  have : ids.map ((fun v : Ver => v.pkg) ∘ fun e => e.2) = ids.map (·.1) :=
    List.map_congr_left (fun e he => wf.2 e he)
  rw [this]; exact wf.1

/-! ## P5: the root version is never replaced -/

/-- node 0 is the root, no other node belongs to the root's package, and the resolver
never pins the root's package to another version -/
def C08_P5 : Prop :=
  ∀ (U : Universe) (root : Ver) (n : Nat) (g : Graph) (S : State) (ids : List (Nat × Ver)),
    resolveWith U root n = .graph g S ids →
      g.nodes.head? = some root ∧ (∀ v ∈ g.nodes, v.pkg = root.pkg → v = root) ∧
      (∀ q ∈ S.mapping, q.pkg = root.pkg → q.id = root.id)

theorem c08_P5 : C08_P5 := by
  intro U root n g S ids h
  obtain ⟨_, _, _, hb⟩ := resolveWith_graph h
  obtain ⟨wf, hd, hn, _, _⟩ := buildGraph_spec hb
  refine ⟨?_, ?_, (final_inv h).rootPin⟩
  · rw [hn]; cases ids with
    | nil => simp at hd
    | cons a t => simp at hd ⊢; rw [hd]
  · intro v hv hp
    rw [hn] at hv
    obtain ⟨e, he, rfl⟩ := List.mem_map.mp hv
    have hroot : (root.pkg, root) ∈ ids := by
      cases ids with
      | nil => simp at hd
      | cons a t => simp at hd; rw [hd]; exact List.mem_cons_self
    have h1 := idsGet_of_mem wf (p := e.1) (v := e.2) (by cases e; exact he)
    have h2 := idsGet_of_mem wf hroot
    rw [wf.2 e he] at hp
    rw [hp, h2] at h1
    cases h1; rfl

/-! ## P4: every node is reachable from the root -/

def C08_P4 : Prop :=
  ∀ (U : Universe) (root : Ver) (n : Nat) (g : Graph) (S : State) (ids : List (Nat × Ver)),
    resolveWith U root n = .graph g S ids → ∀ v ∈ g.nodes, Reach g root v

theorem c08_P4 : C08_P4 := by
  intro U root n g S ids h
  obtain ⟨_, _, _, hb⟩ := resolveWith_graph h
  exact (buildGraph_spec hb).2.2.2.2

/-! ## P3: requirements whose marker is false contribute nothing -/

/-- every edge joins two nodes, leads to a node of the requirement's package, and is
witnessed by a version `par` of the SOURCE's package that really has this requirement
with a marker that evaluates to true for some set of extras. In particular a requirement
whose marker is false (for every extras set) labels no edge. -/
def C08_P3 : Prop :=
  ∀ (U : Universe) (root : Ver) (n : Nat) (g : Graph) (S : State) (ids : List (Nat × Ver)),
    resolveWith U root n = .graph g S ids → ∀ e ∈ g.edges,
      e.src ∈ g.nodes ∧ e.dst ∈ g.nodes ∧ e.req.pkg = e.dst.pkg ∧
      ∃ par ex reqs, par.pkg = e.src.pkg ∧ U.reqsOf par = some reqs ∧ e.req ∈ reqs ∧
        evalMarker U par ex e.req = .ok true

theorem c08_P3 : C08_P3 := by
  intro U root n g S ids h e he
  obtain ⟨_, _, _, hb⟩ := resolveWith_graph h
  obtain ⟨wf, _, hn, hes, _⟩ := buildGraph_spec hb
  obtain ⟨p, c, r, par, h1, h2, h3, h4, h5⟩ := (addEdges_mem S root ids ids g.edges hes e).mp he
  have hsrc := idsGet_some_mem h4
  obtain ⟨hpk, ex, deps, hdeps, hr⟩ := (final_inv h).info _ (getCrit_some_mem h2) _ h3
  obtain ⟨reqs, hreqs, hiff, _⟩ := getDependencies_spec hdeps
  refine ⟨?_, ?_, ?_, par, ex, reqs, ?_, hreqs, ?_, ?_⟩
  · rw [hn]; exact List.mem_map.mpr ⟨_, hsrc, rfl⟩
  · rw [hn]; exact List.mem_map.mpr ⟨_, h1, rfl⟩
  · rw [h5]; simp only at hpk; rw [hpk]; exact (wf.2 _ h1).symm
  · exact (wf.2 _ hsrc).symm
  · rw [h5]; exact ((hiff r).mp hr).1
  · rw [h5]; exact ((hiff r).mp hr).2

/-- corollary in the property's words: a requirement whose marker is false for every
set of extras labels no edge out of any version of its package -/
theorem c08_P3_false_marker (U : Universe) (root : Ver) (n : Nat) (g : Graph) (S : State) (ids : List (Nat × Ver))
    (h : resolveWith U root n = .graph g S ids) (e : Edge) (he : e ∈ g.edges) :
    ¬ ∀ (par : Ver) (ex : List Nat), par.pkg = e.src.pkg → evalMarker U par ex e.req ≠ .ok true := by
  intro hall
  obtain ⟨_, _, _, par, ex, _, hp, _, _, hm⟩ := c08_P3 U root n g S ids h e he
  exact hall par ex hp hm

/-! ## P2: every requirement with a true marker is represented by an edge to a
selected version that satisfies it -/

/-- P2 for one run. The extras "requested of v" are the extras of v's criterion
(`extrasOfPkg`), the target must be the pinned version of d's package, a node, and
`Satisfies` d (pip's prerelease rule as the resolver implements it). -/
def P2Holds (U : Universe) (root : Ver) (g : Graph) (S : State) : Prop :=
  ∀ v ∈ g.nodes, ∀ reqs, U.reqsOf v = some reqs → ∀ d ∈ reqs,
    evalMarker U v (extrasOfPkg S v.pkg) d = .ok true →
    ∃ e ∈ g.edges, e.src = v ∧ e.req = d ∧ e.dst ∈ g.nodes ∧ e.dst.pkg = d.pkg ∧
      getPin S.mapping d.pkg = some e.dst.id ∧ Satisfies U root S d e.dst

/-- P2 at full strength (on the property's own domain U4): FALSE, see the refutations -/
def C08_P2 : Prop :=
  ∀ (U : Universe) (root : Ver) (n : Nat) (g : Graph) (S : State) (ids : List (Nat × Ver)),
    u4 U = true → resolveWith U root n = .graph g S ids → P2Holds U root g S

/-- P2 without the route hypothesis: also FALSE -/
def C08_P2_noLate : Prop :=
  ∀ (U : Universe) (root : Ver) (n : Nat) (g : Graph) (S : State) (ids : List (Nat × Ver)),
    u4 U = true → resolveWith U root n = .graph g S ids → noLateExtras U S = true → P2Holds U root g S

/-- P2 under the two named hypotheses: no package's requested extras grow (so as to show
a new dependency) after it is pinned — negation = finding F-C08-extras —, and the node
set is closed under "pinned dependency of a node" — negation = finding F-C08-route. -/
theorem c08_P2_partial (U : Universe) (root : Ver) (n : Nat) (g : Graph) (S : State) (ids : List (Nat × Ver))
    (hu4 : u4 U = true) (h : resolveWith U root n = .graph g S ids)
    (hlate : noLateExtras U S = true) (hroute : routeClosed S ids = true) : P2Holds U root g S := by
  obtain ⟨direct, hd, hr, hb⟩ := resolveWith_graph h
  obtain ⟨inv, ci, di⟩ := resolve_inv3 hu4 hd hr
  have hsat := resolve_done_sat hr
  obtain ⟨wf, _, hn, _, _⟩ := buildGraph_spec hb
  intro v hv reqs hreqs d hdr hmark
  rw [hn] at hv
  obtain ⟨e, he, rfl⟩ := List.mem_map.mp hv
  have hidv : idsGet ids e.2.pkg = some e.2 := by
    rw [wf.2 e he]; exact idsGet_of_mem wf (by cases e; exact he)
  -- (d, v) is recorded in d's criterion
  have viaPin : ∀ q ∈ S.mapping, pinVer q = e.2 → HasInfo S d e.2 := by
    intro q hq hqe
    simp only [noLateExtras, List.all_eq_true] at hlate
    have hst := hlate q hq
    simp only [pinStable] at hst
    have hqv : (⟨q.pkg, q.id⟩ : Ver) = e.2 := hqe
    rw [hqv] at hst
    have hqp : q.pkg = e.2.pkg := by rw [← hqe]; rfl
    rw [hqp] at hst
    split at hst
    · rename_i now thenDeps hnow hthen
      obtain ⟨reqs', hreqs', hiff, _⟩ := getDependencies_spec hnow
      rw [hreqs] at hreqs'; cases hreqs'
      have hdnow : d ∈ now := (hiff d).mpr ⟨hdr, hmark⟩
      have hdthen : d ∈ thenDeps := by
        have := List.all_eq_true.mp hst d hdnow
        simpa using this
      have := ci q hq thenDeps (by rw [hqv]; exact hthen) d hdthen
      rw [hqv] at this; exact this
    · simp at hst
  have hinfo : HasInfo S d e.2 := by
    rcases buildGraph_nodes_pins hb e he with h1 | ⟨q, hq, h1⟩
    · have e2 : e.2 = root := by rw [h1]
      cases hc : getCrit S.criteria root.pkg with
      | none =>
        have hex : extrasOfPkg S e.2.pkg = [] := by
          simp [extrasOfPkg, e2, hc, Criterion.empty]
        rw [hex, e2] at hmark
        obtain ⟨reqs', hreqs', hiff, _⟩ := getDependencies_spec hd
        rw [e2] at hreqs
        rw [hreqs] at hreqs'; cases hreqs'
        have := di d ((hiff d).mpr ⟨hdr, hmark⟩)
        rw [e2]; exact this
      | some c =>
        obtain ⟨w, hpin, hw⟩ := isSatisfied_spec (hsat _ (getCrit_some_mem hc))
        have hi := inv.info _ (getCrit_some_mem hc)
        have hcand := inv.cand _ (getCrit_some_mem hc)
        have hwr := root_cand_eq hi hcand hw
        obtain ⟨ex, hq⟩ := getPin_some_pinned hpin
        exact viaPin _ hq (by rw [e2, hwr]; rfl)
    · exact viaPin q hq (by rw [h1])
  exact edge_of_info inv hsat hb hroute hidv hinfo

/-! ### refutations of the full statements on the findings' witnesses -/

/-- decidable: P2 fails at node `v` for its requirement `d` (no edge out of `v` carries
`d`), optionally also checking the hypothesis `noLateExtras` -/
def failsAt (U : Universe) (root : Ver) (n : Nat) (v : Ver) (d : Req) (needLate : Bool) : Bool :=
  match resolveWith U root n with
  | .graph g S _ =>
    u4 U && (!needLate || noLateExtras U S) && g.nodes.contains v &&
    (match U.reqsOf v with | some reqs => reqs.contains d | none => false) &&
    (match evalMarker U v (extrasOfPkg S v.pkg) d with | .ok true => true | _ => false) &&
    g.edges.all (fun e => !(e.src == v && e.req == d))
  | _ => false

theorem failsAt_refutes {U : Universe} {root : Ver} {n : Nat} {v : Ver} {d : Req} {needLate : Bool}
    (h : failsAt U root n v d needLate = true) :
    ∃ g S ids, u4 U = true ∧ resolveWith U root n = .graph g S ids ∧ (needLate = true → noLateExtras U S = true) ∧
      ¬ P2Holds U root g S := by
  simp only [failsAt] at h
  split at h
  · rename_i g S ids hres
    simp only [Bool.and_eq_true, Bool.or_eq_true, Bool.not_eq_eq_eq_not, Bool.not_true] at h
    obtain ⟨⟨⟨⟨⟨h1, h2⟩, h3⟩, h4⟩, h5⟩, h6⟩ := h
    refine ⟨g, S, ids, h1, hres, ?_, ?_⟩
    · intro hn; rcases h2 with h2 | h2
      · rw [hn] at h2; simp at h2
      · exact h2
    · intro hp
      split at h4
      · rename_i reqs hreqs
        have hv : v ∈ g.nodes := by simpa using h3
        have hd : d ∈ reqs := by simpa using h4
        have hm : evalMarker U v (extrasOfPkg S v.pkg) d = .ok true := by
          split at h5
          · assumption
          · simp at h5
        obtain ⟨e, he, hs, hr, _⟩ := hp v hv reqs hreqs d hd hm
        have := List.all_eq_true.mp h6 e he
        simp [hs, hr] at this
      · simp at h4
  · simp at h

theorem c08_P2_false_extras : ¬ C08_P2 := by
  intro hall
  have hw : failsAt Witness.extrasU Witness.extrasRoot 20 ⟨0, 0⟩ Witness.extrasReqC false = true := by decide
  obtain ⟨g, S, ids, h1, h2, _, h4⟩ := failsAt_refutes hw
  exact h4 (hall _ _ _ g S ids h1 h2)

theorem c08_P2_false_route : ¬ C08_P2_noLate := by
  intro hall
  have hw : failsAt Witness.routeU Witness.routeRoot 20 ⟨1, 0⟩ Witness.routeReqY true = true := by decide
  obtain ⟨g, S, ids, h1, h2, h3, h4⟩ := failsAt_refutes hw
  exact h4 (hall _ _ _ g S ids h1 h2 (h3 rfl))

/-! ### P2 as the graph alone shows it (what the harness' oracle evaluates) -/

/-- the requirements on the edges into node `w` -/
def reqsInto (g : Graph) (w : Ver) : List Req := (g.edges.filter (fun e => e.dst == w)).map (·.req)

/-- every edge's target matches the edge's requirement; the matching mode (normal or
prerelease-inclusive) is selected by the requirements on the edges INTO the target -/
def EdgesSatisfied (U : Universe) (root : Ver) (g : Graph) : Prop :=
  ∀ e ∈ g.edges, ∃ mvs, getMatches U root (anyPreOf U (reqsInto g e.dst)) e.req = .ok mvs ∧ e.dst.id ∈ mvs

/-- FALSE: requirements of versions that are no longer selected stay in the criterion
(finding F-C08-stale) -/
def C08_P2_graph : Prop :=
  ∀ (U : Universe) (root : Ver) (n : Nat) (g : Graph) (S : State) (ids : List (Nat × Ver)),
    u4 U = true → resolveWith U root n = .graph g S ids → EdgesSatisfied U root g

/-- under `noStale` (negation = finding F-C08-stale) the requirements of a node's
criterion are exactly those on the edges into the node, and every edge is satisfied -/
theorem c08_P2_graph_partial (U : Universe) (root : Ver) (n : Nat) (g : Graph) (S : State) (ids : List (Nat × Ver))
    (h : resolveWith U root n = .graph g S ids) (hns : noStale S ids = true) : EdgesSatisfied U root g := by
  obtain ⟨direct, hd, hr, hb⟩ := resolveWith_graph h
  have inv := final_inv h
  have hsat := resolve_done_sat hr
  obtain ⟨wf, _, _, hes, _⟩ := buildGraph_spec hb
  intro e he
  obtain ⟨p, c, r, par, h1, h2, h3, _, h5⟩ := (addEdges_mem S root ids ids g.edges hes e).mp he
  obtain ⟨w, _, hw, hto⟩ := node_is_pin inv hsat hb h1 h2
  have hstale : ∀ x ∈ c.info, idsGet ids x.2.pkg = some x.2 := by
    simp only [noStale, List.all_eq_true] at hns
    have := hns _ h1
    simp only [h2] at this
    intro x hx
    have := List.all_eq_true.mp this x hx
    simpa using this
  have hbridge : reqsInto g e.dst = c.info.map (·.1) := by
    have := reqsInto_aux S root ids h2 hstale ids g.edges wf.2 wf.1 (wf.2 _ h1) hes
    simp only [reqsInto]
    rw [this]; simp [h1]
  obtain ⟨mvs, hm, hx⟩ := (inv.cand _ (getCrit_some_mem h2)).2 w hw r (List.mem_map.mpr ⟨(r, par), h3, rfl⟩)
  refine ⟨mvs, ?_, ?_⟩
  · rw [hbridge, h5]; exact hm
  · rw [hto]; exact hx

/-- decidable failure of `EdgesSatisfied` -/
def edgeFails (U : Universe) (root : Ver) (n : Nat) : Bool :=
  match resolveWith U root n with
  | .graph g _ _ =>
    u4 U && g.edges.any fun e =>
      match getMatches U root (anyPreOf U (reqsInto g e.dst)) e.req with
      | .ok mvs => !mvs.contains e.dst.id
      | _ => true
  | _ => false

theorem c08_P2_graph_false_stale : ¬ C08_P2_graph := by
  intro hall
  have hw : edgeFails Witness.staleU Witness.staleRoot 20 = true := by decide
  simp only [edgeFails] at hw
  split at hw
  · rename_i g S ids hres
    simp only [Bool.and_eq_true, List.any_eq_true] at hw
    obtain ⟨hu, e, he, hf⟩ := hw
    obtain ⟨mvs, hm, hx⟩ := hall _ _ _ g S ids hu hres e he
    rw [hm] at hf
    simp [hx] at hf
  · simp at hw

/-! ### ties to the translated constants -/

/-- `Resolve` is the instance of the theorems' round bound at the code's `maxRounds` -/
theorem tie_maxRounds : C08Consts.maxRounds = 200000 ∧ ∀ U root, Resolve U root = resolveWith U root 200000 :=
  ⟨rfl, fun _ _ => rfl⟩

theorem tie_preference : C08Consts.ratingNone = 3 ∧ C08Consts.ratingPinned = 1 ∧ C08Consts.ratingSpecified = 2 ∧
    C08Consts.defaultOrder = 2147483647 ∧
    C08Consts.delayedName = [115, 101, 116, 117, 112, 116, 111, 111, 108, 115] /- "setuptools" -/ := by
  decide

theorem tie_backtrack : C08Consts.backtrackMinStates = 3 := rfl

/-! ### non-vacuity: the hypotheses are satisfiable by runs that return graphs -/

/-- a run that returns a graph with three nodes and satisfies every hypothesis -/
example : ∃ g S ids, resolveWith Witness.staleU ⟨0, 0⟩ 20 = .graph g S ids ∧ u4 Witness.staleU = true ∧
    noLateExtras Witness.staleU S = true ∧ routeClosed S ids = true ∧ noStale S ids = true ∧ g.nodes.length = 2 := by
  refine ⟨_, _, _, rfl, ?_⟩
  decide

/-- the three witnesses return graphs (so the refutations are not vacuous), and each
falsifies exactly the hypothesis it is named after -/
example : (match resolveWith Witness.extrasU Witness.extrasRoot 20 with
    | .graph _ S ids => !noLateExtras Witness.extrasU S && routeClosed S ids && noStale S ids | _ => false) = true := by decide
example : (match resolveWith Witness.routeU Witness.routeRoot 20 with
    | .graph _ S ids => noLateExtras Witness.routeU S && !routeClosed S ids | _ => false) = true := by decide
example : (match resolveWith Witness.staleU Witness.staleRoot 20 with
    | .graph _ S ids => noLateExtras Witness.staleU S && routeClosed S ids && !noStale S ids | _ => false) = true := by decide

end DepsDev.Props.C08

/- TIES (machine-readable; DESIGN 3.3)
theorem: c08_P1            unfolds: resolveWith buildGraph addNodes idsGet                          gen: -
theorem: c08_P5            unfolds: resolveWith buildGraph addNodes resolve rounds attemptToPinCriterion tryCandidates backtrack patchCriteria mergeIntoCriterion findMatches matchingVersions matchingVersionsWithPrereleases intersect  gen: C08Consts.backtrackMinStates
theorem: c08_P4            unfolds: resolveWith buildGraph addNodes hasRouteToRoot parentsLoop addEdges edgesOf  gen: -
theorem: c08_P3            unfolds: resolveWith buildGraph addEdges resolve rounds initCriteria mergeIntoCriterion getCriteriaToUpdate mergeDeps getDependencies filterSlice evalMarker putCrit putAll patchCriteria  gen: C08Consts.backtrackMinStates
theorem: c08_P2_partial    unfolds: (all of the above) isSatisfied unsatisfied setPin getPin noLateExtras routeClosed u4  gen: C08Consts.backtrackMinStates
theorem: c08_P2_graph_partial unfolds: (all of the above) noStale                                  gen: C08Consts.backtrackMinStates
theorem: c08_P2_false_extras / c08_P2_false_route / c08_P2_graph_false_stale  unfolds: whole model on the witnesses (kernel evaluation)  gen: all of C08Consts
theorem: tie_maxRounds tie_preference tie_backtrack  gen: C08Consts.*
correspondence ops: `C08 resolve` (every model definition), `C08 classify` (noLateExtras, routeClosed, noStale)
-/
