import DepsDev.Model.Resolve.PypiHyp
namespace DepsDev.Props.C08
end DepsDev.Props.C08
