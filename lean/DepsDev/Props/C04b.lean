import DepsDev.Props.C04
import DepsDev.Proofs.C04bConstraint

/-!
# C04 (extension) — the remaining entry points of util/semver are total: errors, never panics

`Props/C04.lean` proves `System.Parse`, the tokenizer and `System.Compare` (eight systems) total.
This file closes the rest of the package, for **all byte strings and all nine systems**
(Default, Cargo, Go, Maven, NPM, NuGet, PyPI, RubyGems, Composer); as in C04, "total" is
`≠ .panic` on the model, in which every Go panic site is an explicit `Outcome.panic` and every
function is accepted by Lean's termination checker.

* `compare_total_maven`, `compare_total_all` — `System.Compare`, Maven included: every element
  list `mavenExtension.init` returns has no text starting with `.`/`-` (`mavenInit_noSepStart`,
  through `nextMavenElem`/`mavenSplit`/`mavenTrim`/`fillInts`), which makes the
  `panic(bCategory)` site of `mavenUnknownQualifierCompare` unreachable (`maven_no_panic`);
* `difference_total` — `System.Difference` (the Maven type assertion: `parse_wf`);
* `parseSetConstraint_total` — `System.ParseSetConstraint` (the slice `s[1:len(s)-1]` of
  `parseSpan`: a one-byte text that starts with a bracket does not end with a closing one);
* `parseConstraint_total` — `System.ParseConstraint`: an invariant of the whole constraint parser
  (`value`, `setRange`, `andList`, `orList`, `opVersionToSpan`, `newSpan`, `excludeToSpans`,
  `canon`, `Set.Intersect`): every version it handles is of the system and carries no extension
  or an extension of the system's kind (`VK`), every span is the empty span or has both bounds
  (`SpOK`); under it the failed type assertion of `compare`, the nil dereferences of
  `canon`/`Intersect`/`excludeToSpans`, and the index sites of `incN`/`setNum` are unreachable
  (`(*Version).inc` never indexes out of range at all: `inc_total`);
* `match_total`, `matchSet_total`, `matchVersion_total`, `matchVersionPrerelease_total` —
  `Constraint.Match`, `MatchVersion`, `MatchVersionPrerelease` on whatever the two constraint
  parsers return (the PyPI `c.str == ""` type assertion included);
* `parseConstraint_inv`, `parseSetConstraint_inv` — the invariant itself on the result.

Nothing of util/semver's modelled entry points is left to the correspondence run for this
property; entry points outside util/semver remain Go-only probes (see `Props/C04.lean`).
-/
namespace DepsDev.Props.C04b

open DepsDev DepsDev.Semver DepsDev.Proofs DepsDev.Proofs.C04b

/-! ## 1. `System.Compare`, Maven included -/

/-- `System.Compare` for every system: a sign for every pair of byte strings. -/
theorem compare_total_all (s : System) (a b : Bytes) : compareStr s a b ≠ .panic := by
  unfold compareStr
  have ha := parse_vk s a
  have hb := parse_vk s b
  cases hpa : parse s a with
  | panic => exact (okp_not_panic ha hpa).elim
  | err =>
    cases hpb : parse s b with
    | panic => exact (okp_not_panic hb hpb).elim
    | err => simp
    | ok y => simp
  | ok x =>
    cases hpb : parse s b with
    | panic => exact (okp_not_panic hb hpb).elim
    | err => simp
    | ok y => exact vk_np (okp_val ha hpa) (okp_val hb hpb)

/-- Maven `Compare` (the case `Props/C04.compare_total` leaves out). Domain: all byte strings. -/
theorem compare_total_maven (a b : Bytes) : compareStr .maven a b ≠ .panic := compare_total_all .maven a b

/-- The fact behind it: whatever `mavenExtension.init` returns, no element text starts with a
separator. -/
theorem mavenInit_noSepStart (b : Bytes) (els : List MavenElem) (q : Bool) (h : mavenInit b = .ok (els, q)) :
    noSepStart els = true := Proofs.C04b.mavenInit_noSepStart b els q h

/-! ## 2. `System.Difference` -/

/-- `System.Difference` for every system and every pair of byte strings. -/
theorem difference_total (s : System) (a b : Bytes) : differenceStr s a b ≠ .panic := by
  unfold differenceStr
  apply okp_np (Q := fun _ => True)
  refine okp_bind (okp_and (parse_vk s a) (okp_intro (C04.parse_total s a) (C01.parse_wf s a))) ?_
  intro av ⟨va, wa⟩
  refine okp_bind (okp_and (parse_vk s b) (okp_intro (C04.parse_total s b) (C01.parse_wf s b))) ?_
  intro bv ⟨vb, wb⟩
  unfold difference
  refine okp_bind (vcmp_okp va vb) ?_
  intro c _
  split
  · trivial
  · split
    · rename_i hm
      have hs : s = .maven := by
        rw [← va.sys]; simpa using hm
      subst hs
      obtain ⟨ea, ha⟩ := wa.2
      obtain ⟨eb, hb⟩ := wb.2
      rw [ha, hb]
      simp only
      repeat' split
      all_goals trivial
    · repeat' split
      all_goals trivial

/-! ## 3. `System.ParseSetConstraint` -/

/-- `System.ParseSetConstraint` for every system and every byte string. -/
theorem parseSetConstraint_total (s : System) (b : Bytes) : parseSetConstraint s b ≠ .panic :=
  okp_np (parseSetConstraint_okp s b)

/-! ## 4. `System.ParseConstraint` -/

/-- `System.ParseConstraint` for every system (Default, Cargo, Go, Maven, NPM, NuGet, PyPI,
RubyGems, Composer) and every byte string. -/
theorem parseConstraint_total (s : System) (b : Bytes) : parseConstraint s b ≠ .panic :=
  okp_np (parseConstraint_okp s b)

/-- The invariant the parser maintains, on its result: the constraint is of the system, and every
span of its set is the empty span or has both bounds, each a version of the system whose
extension is absent or of the system's kind. -/
theorem parseConstraint_inv (s : System) (b : Bytes) (c : Constraint) (h : parseConstraint s b = .ok c) :
    c.sys = s ∧ ∀ sp ∈ c.set.span, SpOK s sp :=
  okp_val (Q := CRes s) (parseConstraint_okp s b) h

theorem parseSetConstraint_inv (s : System) (b : Bytes) (c : Constraint) (h : parseSetConstraint s b = .ok c) :
    c.sys = s ∧ ∀ sp ∈ c.set.span, SpOK s sp :=
  okp_val (Q := CRes s) (parseSetConstraint_okp s b) h

theorem incN_ok (v : Version) (n : Nat) (hn : n < v.num.length) :
    ∃ w, v.incN n = .ok w ∧ w.num.length = v.num.length := by
  unfold Version.incN
  rw [List.getElem?_eq_getElem hn]
  refine ⟨_, rfl, ?_⟩
  unfold Version.setNum
  simp only [List.length_set]
  split
  · omega
  · rfl

/-- `(*Version).inc` never indexes `v.num` out of range, for any version whatsoever: each
`incN(n)` is guarded by the `len(v.num)` switch or by the position of the first wildcard. -/
theorem inc_total (v : Version) : v.inc ≠ .panic := by
  unfold Version.inc
  split
  · exact noPanic_err
  · split
    · exact noPanic_err
    · rename_i hl
      split
      · exact noPanic_ok _
      · obtain ⟨w, hw, _⟩ := incN_ok v 0 (by omega)
        rw [hw]; exact noPanic_ok _
    · rename_i hl
      split
      · obtain ⟨w, hw, _⟩ := incN_ok v 0 (by omega)
        rw [hw]; exact noPanic_ok _
      · obtain ⟨w, hw, _⟩ := incN_ok v 1 (by omega)
        rw [hw]; exact noPanic_ok _
    · rename_i n h0 h1 h2
      have hge : 3 ≤ v.num.length := by
        have a0 : v.num.length ≠ 0 := h0
        have a1 : v.num.length ≠ 1 := h1
        have a2 : v.num.length ≠ 2 := h2
        omega
      split
      · obtain ⟨w, hw, _⟩ := incN_ok v (v.num.length - 1) (by omega)
        rw [hw]; exact noPanic_ok _
      · exact noPanic_ok _
      · rename_i w hw hfind
        have hlt : w < v.num.length := (List.findIdx?_eq_some_iff_getElem.mp hfind).1
        obtain ⟨u, hu, _⟩ := incN_ok v (w - 1) (by omega)
        rw [hu]; exact noPanic_ok _

/-! ## 5. `Constraint.Match*` -/

/-- `ParseConstraint` followed by `Constraint.Match(version string)`: all systems, all texts. -/
theorem match_total (s : System) (c v : Bytes) : (parseConstraint s c).bind (fun k => k.matchStr v) ≠ .panic :=
  okp_np (okp_bind' (parseConstraint_okp s c) (fun _ hk => matchStr_okp hk v))

/-- The same for `ParseSetConstraint`. -/
theorem matchSet_total (s : System) (c v : Bytes) :
    (parseSetConstraint s c).bind (fun k => k.matchStr v) ≠ .panic :=
  okp_np (okp_bind' (parseSetConstraint_okp s c) (fun _ hk => matchStr_okp hk v))

/-- `Constraint.MatchVersion` on a version `System.Parse` returned. -/
theorem matchVersion_total (s : System) (c v : Bytes) :
    (parseConstraint s c).bind (fun k => (parse s v).bind (fun w => k.matchVersion w)) ≠ .panic := by
  apply okp_np (Q := fun _ => True)
  refine okp_bind' (parseConstraint_okp s c) ?_
  intro k hk
  refine okp_bind' (okp_and (parse_vk s v) (okp_intro (C04.parse_total s v) (C01.parse_wf s v))) ?_
  intro w ⟨vw, ww⟩
  unfold Constraint.matchVersion
  split
  · trivial
  · refine matchV_okp hk vw ?_
    intro hs; subst hs; exact ww.2

/-- `Constraint.MatchVersionPrerelease` on a version `System.Parse` returned. -/
theorem matchVersionPrerelease_total (s : System) (c v : Bytes) :
    (parseConstraint s c).bind (fun k => (parse s v).bind (fun w => k.matchVersionPrerelease w)) ≠ .panic := by
  apply okp_np (Q := fun _ => True)
  refine okp_bind' (parseConstraint_okp s c) ?_
  intro k hk
  refine okp_bind' (parse_vk s v) ?_
  intro w vw
  unfold Constraint.matchVersionPrerelease
  split
  · trivial
  · exact matchVersion_okp hk.2 vw true

/-! ## Non-vacuity: the entry points do return values on ordinary inputs of the hard systems -/

/-- Maven: a qualifier against a number (the branch that reaches `mavenUnknownQualifierCompare`),
a range, and a match. -/
example : compareStr .maven "1.0-foo".toUTF8.toList "1.0-1".toUTF8.toList = .ok (-1) ∧
    ((parseConstraint .maven "[1.0,2.0)".toUTF8.toList).bind (fun k => k.matchStr "1.5".toUTF8.toList)) = .ok true := by
  constructor <;> decide +kernel

/-- PyPI: compatible release and exclusion (`opVersionToSpan` with `rebuildExtension`, `excludeToSpans`). -/
example : ((parseConstraint .pypi "~=1.4.2, !=1.4.5".toUTF8.toList).bind (fun k => k.matchStr "1.4.7".toUTF8.toList)) = .ok true ∧
    ((parseConstraint .pypi "~=1.4.2, !=1.4.5".toUTF8.toList).bind (fun k => k.matchStr "1.4.5".toUTF8.toList)) = .ok false := by
  constructor <;> decide +kernel

/-- RubyGems `~>` and NPM `||` of ranges (`canon` with more than one span, `Intersect`). -/
example : ((parseConstraint .rubygems "~> 2.1".toUTF8.toList).bind (fun k => k.matchStr "2.3".toUTF8.toList)) = .ok true ∧
    ((parseConstraint .npm ">=1.0.0 <1.5.0 || >=2.0.0".toUTF8.toList).bind (fun k => k.matchStr "2.1.0".toUTF8.toList)) = .ok true := by
  constructor <;> decide +kernel

/-- `ParseSetConstraint` and `Difference`. -/
example : ((parseSetConstraint .npm "{[1.0.0:2.0.0)}".toUTF8.toList).bind (fun k => k.matchStr "1.5.0".toUTF8.toList)) = .ok true ∧
    differenceStr .maven "1.2.3".toUTF8.toList "1.3.0".toUTF8.toList = .ok (-1, diffMinor) := by
  constructor <;> decide +kernel

/-! ## The hypotheses of the theorems above are satisfiable, the invariants inhabited -/

/-- `mavenInit_noSepStart`: `1.0-foo.RELEASE` is accepted, with a qualifier after a separator. -/
example : mavenInit "1.0-foo.RELEASE".toUTF8.toList =
    .ok ([⟨0, [49], 1⟩, ⟨45, [102, 111, 111], 0⟩], true) := by decide +kernel

/-- `parseConstraint_inv`, `parseSetConstraint_inv`: accepted constraints (PyPI with extension-carrying
bounds, a set text with two spans). -/
example : (parseConstraint .pypi ">=1.0.post1, <2".toUTF8.toList).isOk = true ∧
    (parseSetConstraint .maven "{[1.0:2.0),3.0}".toUTF8.toList).isOk = true := by
  constructor <;> decide +kernel

/-- `incN_ok`: an index in range. -/
example : 2 < ({ sys := .npm, num := [1, 2, 3] } : Version).num.length := by decide

/-- `VK`: a Maven version with its extension, and the extension-free helper version `∞.∞.∞` of the
same system, both occur inside Maven constraints. -/
example : VK .maven { sys := .maven, ext := .maven [⟨0, [49], 1⟩, ⟨45, [102, 111, 111], 0⟩] } ∧
    VK .maven { sys := .maven, num := [infinity, infinity, infinity] } :=
  ⟨⟨rfl, rfl, by decide +kernel⟩, ⟨rfl, trivial⟩⟩

/-- `SpOK`: the empty span, and a vector span `[1.2.3, ∞.∞.∞]` of NPM. -/
example : SpOK .npm Span.emptySpan ∧
    SpOK .npm { rank := .vector, min := some { sys := .npm, num := [1, 2, 3] },
                max := some { sys := .npm, num := [infinity, infinity, infinity] } } :=
  ⟨spOK_empty _, spOK_mk .vector (fun h => nomatch h) false false ⟨rfl, trivial⟩ ⟨rfl, trivial⟩⟩

/-- What `VK` excludes (and what makes `compare` panic in the model): two extensions of different
kinds under one system. -/
example : vcompare { sys := .pypi, ext := .pep none } { sys := .pypi, ext := .gem [] } = .panic := by
  decide +kernel

end DepsDev.Props.C04b
