import DepsDev.Proofs.C11ParseConstraint
import DepsDev.Props.C10

/-!
# C11 — the textual form of a constraint set parses back to the same set

Property text: *printing the set of any parsed constraint and parsing that text with the
system-independent set syntax yields a set that prints identically and, under
prerelease-inclusive matching, matches exactly the same versions as the original constraint*
(Default, NPM, Cargo, Go, NuGet).

What is here:

* the full statement `SetRoundTripFull s` (over everything `ParseConstraint` accepts) and its
  two refutations, both found while proving and confirmed on the Go code:
  `saturated_lower_bound_not_roundtrip` (a `>` operand ending in 2^63-2 saturates the lower
  bound to '∞', which `parseSet` rejects; finding F-C11-satmin, hypothesis `FiniteLowerBounds`)
  and `nuget_zero_fourth_not_roundtrip` (NuGet `a.b.c.*` leaves a zero fourth number that the
  parser drops, so the text is not reproduced; finding F-C11-nuget4zero, hypothesis `NoZeroFourth`);
* **`set_roundtrip`**: for the SemVer-family systems (the five of the property, and Composer),
  for every constraint `ParseConstraint` accepts outside these two classes, the three clauses
  of the property — all constraints, all versions `v`, no size bound;
* how it is obtained: `set_roundtrip_partial` (the printer/parser inverse on every non-empty
  list of well-formed spans: empty spans, unit spans, vector spans with any brackets, bounds =
  AST images, '∞' on the upper side, `0.0.0-0`, short bounds re-read zero-padded, NuGet
  lower-casing and floating labels) and `constraint_set_tie` (an invariant of the whole
  constraint parser — `value`, `setRange`, `andList`, `orList`, `opVersionToSpan`, `newSpan`,
  `canon`, `Intersect`, `excludeToSpans` — : it only ever builds such lists, and never the
  zero `Set{}` on success);
* `zero_set_not_roundtrip`: the zero `Set{}` prints `{}` which reads back as `{<empty>}`;
  by `constraint_set_tie` it is never the set of an accepted constraint.
-/
namespace DepsDev.Props.C11

open DepsDev DepsDev.Semver DepsDev.Proofs.C10 DepsDev.Proofs.C11 DepsDev.Proofs.Digits

/-! ## Statements -/

/-- `infinity` (printed '∞'). -/
def inf : Int := infinity

/-- The three clauses for one set. -/
def SetRoundTrips (s : System) (S : VSet) : Prop :=
  ∃ S' simple, parseSet s S.toBytes = .ok (S', simple) ∧ S'.toBytes = S.toBytes ∧
    ∀ v : Version, S'.matchVersion v true = S.matchVersion v true

/-- The property for system `s`, over everything `ParseConstraint` accepts. -/
def SetRoundTripFull (s : System) : Prop :=
  ∀ (b : Bytes) (c : Constraint), parseConstraint s b = .ok c → SetRoundTrips s c.set

/-- Equality of `matchVersion · true` is equality of `MatchVersionPrerelease`. -/
theorem matchVersionPrerelease_eq (c c' : Constraint) (h : ∀ v, c'.set.matchVersion v true = c.set.matchVersion v true)
    (v : Version) : c'.matchVersionPrerelease v = c.matchVersionPrerelease v := by
  unfold Constraint.matchVersionPrerelease; rw [h v]

/-! ## The domain of the theorem -/

/-- Finding F-C11-nuget4zero: no bound has a zero fourth number (NuGet's parser drops it). -/
def NoZeroFourth (S : VSet) : Bool :=
  S.sys != .nuget || S.span.all (fun sp => sp.rank == .empty ||
    ((match sp.min with | some m => !(m.num.length == 4 && m.num[3]? == some 0) | none => true) &&
     (sp.rank != .vector ||
      match sp.max with | some m => !(m.num.length == 4 && m.num[3]? == some 0) | none => true)))


/-- Finding F-C11-satmin: no lower bound (and no unit span) has an '∞' component. -/
def FiniteLowerBounds (S : VSet) : Bool :=
  S.span.all (fun sp => sp.rank == .empty ||
    match sp.min with
    | some m => !m.num.any (· == infinity)
    | none => true)


/-- A bound of a span of system `s` (`ai`: '∞' components allowed): image of an AST. -/
abbrev IsBound (s : System) (ai : Bool) (v : Version) : Prop := BoundShape s ai v

/-- Empty spans; unit spans on a bound without '∞'; vector spans whose lower bound has no '∞'. -/
abbrev WellFormedSpan (s : System) (sp : Span) : Prop := SpanOk s sp

/-- A non-empty list of well-formed spans. -/
def WellFormedSet (s : System) (S : VSet) : Prop := S.span ≠ [] ∧ ∀ sp ∈ S.span, WellFormedSpan s sp

/-- What `ParseConstraint` builds is a well-formed set (proved below: `constraint_set_tie`), unless a lower
bound was saturated to '∞' (`FiniteLowerBounds`, finding F-C11-satmin below) or a NuGet bound has
a zero fourth number (`NoZeroFourth`, finding F-C11-nuget4zero below). -/
def ConstraintSetTie (s : System) : Prop :=
  ∀ (b : Bytes) (c : Constraint), parseConstraint s b = .ok c → FiniteLowerBounds c.set = true →
    NoZeroFourth c.set = true → WellFormedSet s c.set

/-- The property with the two recorded exclusions as hypotheses. -/
def SetRoundTripStated (s : System) : Prop :=
  ∀ (b : Bytes) (c : Constraint), parseConstraint s b = .ok c → FiniteLowerBounds c.set = true →
    NoZeroFourth c.set = true → SetRoundTrips s c.set

/-! ## Theorems -/

/-- **C11 (partial: on well-formed sets).** -/
theorem set_roundtrip_partial (s : System) (hs : C10.IsGeneric s) (S : VSet) (h : WellFormedSet s S) :
    SetRoundTrips s S :=
  set_roundtrip_spans s ((C10.generic_iff s).mp hs) S h.1 h.2

/-- Milestones, as corollaries: a single unit span, … -/
theorem unit_span_roundtrip (s : System) (hs : C10.IsGeneric s) (m : Version) (hm : IsBound s false m) :
    SetRoundTrips s { sys := s, span := [{ rank := .unit, min := some m, max := some m }] } :=
  set_roundtrip_partial s hs _ ⟨by simp, by
    intro sp hsp
    simp at hsp
    subst hsp
    exact ⟨m, rfl, hm⟩⟩

/-- … a single vector span (with or without '∞' in the upper bound, any bracket kinds). -/
theorem vector_span_roundtrip (s : System) (hs : C10.IsGeneric s) (a b : Version) (o c : Bool)
    (ha : IsBound s false a) (hb : IsBound s true b) :
    SetRoundTrips s { sys := s, span := [{ rank := .vector, minOpen := o, maxOpen := c, min := some a, max := some b }] } :=
  set_roundtrip_partial s hs _ ⟨by simp, by
    intro sp hsp
    simp at hsp
    subst hsp
    exact ⟨a, b, rfl, rfl, ha, hb⟩⟩

/-- How the tie combines with the theorem: the property on everything `ParseConstraint` accepts. -/
theorem set_roundtrip_of_tie (s : System) (hs : C10.IsGeneric s) (tie : ConstraintSetTie s) :
    SetRoundTripStated s :=
  fun b c hp hf hz => set_roundtrip_partial s hs c.set (tie b c hp hf hz)

/-- A bound satisfying the parser's invariant, without '∞' where that matters and without a
NuGet zero fourth number, is a bound of the theorem. -/
theorem bv_isBound (s : System) (ai : Bool) (v : Version) (h : BV s v)
    (hfin : ai = false → (!v.num.any (· == infinity)) = true)
    (hz : s = .nuget → (!(v.num.length == 4 && v.num[3]? == some 0)) = true) : IsBound s ai v := by
  refine ⟨h.sys, h.ext, h.len, ?_, ?_, h.pre⟩
  · intro (x : Int) hx
    refine ⟨h.nowild x hx, ?_⟩
    have hle : (x : Int) ≤ 9223372036854775807 := (h.num x hx).2
    cases ai with
    | true =>
      by_cases hlt : x < 9223372036854775807
      · exact Or.inl hlt
      · exact Or.inr ⟨rfl, by omega⟩
    | false =>
      left
      have := hfin rfl
      simp only [Bool.not_eq_true', List.any_eq_false, beq_iff_eq] at this
      have hne : ¬ (x : Int) = 9223372036854775807 := this x hx
      omega
  · intro hn hl hz0
    have := hz hn
    rw [hz0] at this
    simp [hl] at this

/-- **The tie for C11 (proved).** For a SemVer-family system, the set of every constraint
`ParseConstraint` accepts is a well-formed set, unless it falls into one of the two finding
classes. -/
theorem constraint_set_tie (s : System) (hs : C10.IsGeneric s) : ConstraintSetTie s := by
  intro b c hp hf hz
  obtain ⟨h1, h2, h3⟩ := parseConstraint_spec s ((C10.generic_iff s).mp hs) b c hp
  refine ⟨h2, fun sp hsp => ?_⟩
  have hinv := h1 sp hsp
  have hf' := List.all_eq_true.mp hf sp hsp
  have hz' : s = .nuget → (sp.rank == .empty ||
      ((match sp.min with | some m => !(m.num.length == 4 && m.num[3]? == some 0) | none => true) &&
       (sp.rank != .vector ||
        match sp.max with | some m => !(m.num.length == 4 && m.num[3]? == some 0) | none => true))) = true := by
    intro hn
    unfold NoZeroFourth at hz
    rw [h3, hn] at hz
    simp only [bne_self_eq_false, Bool.false_or] at hz
    exact List.all_eq_true.mp hz sp hsp
  unfold WellFormedSpan SpanOk
  unfold SpanInv at hinv
  cases hr : sp.rank with
  | empty => trivial
  | unit =>
    rw [hr] at hinv
    obtain ⟨m, hm, _, hb⟩ := hinv
    simp only [hr, hm] at hf' hz'
    refine ⟨m, hm, bv_isBound s false m hb (fun _ => by simpa using hf') (fun hn => ?_)⟩
    have := hz' hn
    simp only [Bool.and_eq_true, Bool.or_eq_true] at this
    rcases this with h | h
    · cases h
    · exact h.1
  | vector =>
    rw [hr] at hinv
    obtain ⟨a, b', ha, hb, ba, bb⟩ := hinv
    simp only [hr, ha, hb] at hf' hz'
    refine ⟨a, b', ha, hb, bv_isBound s false a ba (fun _ => by simpa using hf') (fun hn => ?_),
      bv_isBound s true b' bb (fun h => by cases h) (fun hn => ?_)⟩
    · have := hz' hn
      simp only [Bool.and_eq_true, Bool.or_eq_true] at this
      rcases this with h | h
      · cases h
      · exact h.1
    · have := hz' hn
      simp only [Bool.and_eq_true, Bool.or_eq_true] at this
      rcases this with h | h
      · cases h
      · rcases h.2 with h2 | h2
        · simp at h2
        · exact h2

/-- **C11 for the SemVer-family systems (Default, NPM, Cargo, Go, NuGet, and Composer).** The set
of every constraint `ParseConstraint` accepts — outside the two recorded finding classes —
prints to a text that `parseSet` reads back to a set that prints identically and matches the
same versions under prerelease-inclusive matching. -/
theorem set_roundtrip (s : System) (hs : C10.IsGeneric s) : SetRoundTripStated s :=
  set_roundtrip_of_tie s hs (constraint_set_tie s hs)

/-- The hypothesis "non-empty span list" is necessary: the zero `Set{}` prints `{}`, which
reads back as the one-element list `{<empty>}`. -/
theorem zero_set_not_roundtrip (s : System) : ¬ SetRoundTrips s { sys := s, span := [] } := by
  rintro ⟨S', simple, hp, ht, _⟩
  have h1 : VSet.toBytes { sys := s, span := [] } = [123, 125] := rfl
  rw [h1] at hp ht
  have h2 : parseSet s [123, 125] = .ok ({ sys := s, span := [Span.emptySpan] }, false) := rfl
  rw [h2] at hp
  injection hp with hp
  injection hp with hp _
  subst hp
  have h3 : VSet.toBytes { sys := s, span := [Span.emptySpan] } = 123 :: (emptyText ++ [125]) := by
    unfold VSet.toBytes
    simp only [List.map_cons, List.map_nil, joinWith, Span.toBytes, Span.emptySpan, emptyText_eq]
    rfl
  rw [h3] at ht
  exact absurd ht (by decide)

/-! ## A genuine counterexample found while proving: a saturated lower bound (finding F-C11-satmin) -/

/-- `>0.0.9223372036854775806` -/
def satText : Bytes := [62, 48, 46, 48, 46, 57, 50, 50, 51, 51, 55, 50, 48, 51, 54, 56, 53, 52, 55, 55, 53, 56, 48, 54]

/-- The set `ParseConstraint` builds for it: `[0.0.∞ : ∞.∞.∞]` — `inc` saturated the lower bound. -/
def satSet : VSet :=
  { sys := .default,
    span := [ { rank := .vector, min := some { sys := .default, userNumCount := 3, num := [0, 0, inf] },
                max := some { sys := .default, userNumCount := 3, num := [inf, inf, inf] } } ] }

theorem sat_parse : (parseConstraint .default satText).toOption.map (·.set) = some satSet := by decide +kernel

/-- `{[0.0.∞:∞.∞.∞]}` -/
def satSetText : Bytes := [123, 91, 48, 46, 48, 46, 0xE2, 0x88, 0x9E, 58, 0xE2, 0x88, 0x9E, 46, 0xE2, 0x88, 0x9E, 46, 0xE2, 0x88, 0x9E, 93, 125]

theorem sat_text : satSet.toBytes = satSetText := by
  have e0 : valueBytes 0 = [48] := by rw [valueBytes_num 0 (by decide) (by decide)]; exact natToBytes_lt10 0 (by decide)
  have ei : valueBytes inf = infB := valueBytes_inf
  have ha : canon { sys := .default, userNumCount := 3, num := [0, 0, inf] } false = [48, 46, 48, 46, 0xE2, 0x88, 0x9E] := by
    rw [canon_generic _ false rfl (by decide)]
    simp [lead, pad3, renderNums, dotNums, renderPre, e0, ei, infB]
  have hb : canon { sys := .default, userNumCount := 3, num := [inf, inf, inf] } false =
      [0xE2, 0x88, 0x9E, 46, 0xE2, 0x88, 0x9E, 46, 0xE2, 0x88, 0x9E] := by
    rw [canon_generic _ false rfl (by decide)]
    simp [lead, pad3, renderNums, dotNums, renderPre, ei, infB]
  simp [VSet.toBytes, satSet, Span.toBytes, joinWith, ha, hb, satSetText]

theorem sat_reparse : parseSet .default satSetText = .err := by decide +kernel

theorem saturated_lower_bound_not_roundtrip : ¬ SetRoundTripFull .default := by
  intro h
  have hp := sat_parse
  cases hc : parseConstraint .default satText with
  | err => rw [hc] at hp; cases hp
  | panic => rw [hc] at hp; cases hp
  | ok c =>
    rw [hc] at hp
    have hset : c.set = satSet := by simpa [Outcome.toOption] using hp
    obtain ⟨S', simple, hps, _, _⟩ := h _ c hc
    rw [hset, sat_text, sat_reparse] at hps
    cases hps

theorem sat_excluded : FiniteLowerBounds satSet = false := by decide +kernel

/-! ## A second one: NuGet drops a zero fourth number (finding F-C11-nuget4zero) -/

/-- `1.2.3.*` -/
def n4Text : Bytes := [49, 46, 50, 46, 51, 46, 42]

def n4V (cnt : Int) (nums : List Int) : Version := { sys := .nuget, userNumCount := cnt, num := nums }

/-- The set `ParseConstraint` builds for it: `[1.2.3.0 : ∞.∞.∞.∞)`. -/
def n4Set : VSet :=
  { sys := .nuget, span := [ { rank := .vector, maxOpen := true, min := some (n4V 4 [1, 2, 3, 0]), max := some (n4V 4 [inf, inf, inf, inf]) } ] }

/-- What its text parses back to: `[1.2.3 : ∞.∞.∞.∞)`. -/
def n4Set' : VSet :=
  { sys := .nuget, span := [ { rank := .vector, maxOpen := true, min := some (n4V 3 [1, 2, 3]), max := some (n4V 4 [inf, inf, inf, inf]) } ] }

theorem n4_parse : (parseConstraint .nuget n4Text).toOption.map (·.set) = some n4Set := by decide +kernel

/-- `{[1.2.3.0:∞.∞.∞.∞)}` -/
def n4SetText : Bytes :=
  [123, 91, 49, 46, 50, 46, 51, 46, 48, 58, 226, 136, 158, 46, 226, 136, 158, 46, 226, 136, 158, 46, 226, 136, 158, 41, 125]

theorem valueBytes_digit (n : Nat) (h : n < 10) : valueBytes (n : Int) = [digitByte n] := by
  rw [valueBytes_num n (by omega) (by omega)]
  simpa using natToBytes_lt10 n h

theorem n4_texts : n4Set.toBytes = n4SetText ∧ n4Set'.toBytes ≠ n4SetText := by
  have e0 : valueBytes 0 = [48] := valueBytes_digit 0 (by decide)
  have e1 : valueBytes 1 = [49] := valueBytes_digit 1 (by decide)
  have e2 : valueBytes 2 = [50] := valueBytes_digit 2 (by decide)
  have e3 : valueBytes 3 = [51] := valueBytes_digit 3 (by decide)
  have ei : valueBytes inf = infB := valueBytes_inf
  have ha : canon (n4V 4 [1, 2, 3, 0]) false = [49, 46, 50, 46, 51, 46, 48] := by
    rw [canon_generic _ false rfl (by decide)]
    simp [n4V, lead, pad3, renderNums, dotNums, renderPre, e0, e1, e2, e3]
  have ha' : canon (n4V 3 [1, 2, 3]) false = [49, 46, 50, 46, 51] := by
    rw [canon_generic _ false rfl (by decide)]
    simp [n4V, lead, pad3, renderNums, dotNums, renderPre, e1, e2, e3]
  have hb : canon (n4V 4 [inf, inf, inf, inf]) false =
      [226, 136, 158, 46, 226, 136, 158, 46, 226, 136, 158, 46, 226, 136, 158] := by
    rw [canon_generic _ false rfl (by decide)]
    simp [n4V, lead, pad3, renderNums, dotNums, renderPre, ei, infB]
  constructor
  · simp [VSet.toBytes, n4Set, Span.toBytes, joinWith, ha, hb, n4SetText]
  · simp [VSet.toBytes, n4Set', Span.toBytes, joinWith, ha', hb, n4SetText]

theorem n4_reparse : parseSet .nuget n4SetText = .ok (n4Set', false) := by decide +kernel

/-- NuGet `1.2.3.*`: the set prints `{[1.2.3.0:∞.∞.∞.∞)}`, which reads back as
`{[1.2.3:∞.∞.∞.∞)}` — not the identical text. -/
theorem nuget_zero_fourth_not_roundtrip : ¬ SetRoundTripFull .nuget := by
  intro h
  have hp := n4_parse
  cases hc : parseConstraint .nuget n4Text with
  | err => rw [hc] at hp; cases hp
  | panic => rw [hc] at hp; cases hp
  | ok c =>
    rw [hc] at hp
    have hset : c.set = n4Set := by simpa [Outcome.toOption] using hp
    obtain ⟨S', simple, hps, ht, _⟩ := h _ c hc
    rw [hset, n4_texts.1, n4_reparse] at hps
    injection hps with hps
    injection hps with hps _
    subst hps
    rw [hset, n4_texts.1] at ht
    exact n4_texts.2 ht

theorem n4_excluded : NoZeroFourth n4Set = false := by decide +kernel

/-- The theorem's domain lies inside the hypothesis that excludes the finding. -/
theorem wellFormed_finite (s : System) (S : VSet) (h : WellFormedSet s S) : FiniteLowerBounds S = true := by
  unfold FiniteLowerBounds
  rw [List.all_eq_true]
  intro sp hsp
  have hok := h.2 sp hsp
  unfold WellFormedSpan SpanOk at hok
  have hfin : ∀ m : Version, BoundShape s false m → (!m.num.any (· == infinity)) = true := by
    intro m hm
    simp only [Bool.not_eq_true', List.any_eq_false, beq_iff_eq]
    intro x hx e
    have := (hm.num x hx).2
    rcases this with h1 | ⟨h1, _⟩
    · have e' : (x : Int) = 9223372036854775807 := e
      rw [e'] at h1
      exact absurd h1 (by decide)
    · cases h1
  cases hr : sp.rank with
  | empty => simp
  | unit =>
    rw [hr] at hok
    obtain ⟨m, hm, hb⟩ := hok
    simp only [hm, Bool.or_eq_true]
    exact Or.inr (hfin m hb)
  | vector =>
    rw [hr] at hok
    obtain ⟨a, b, ha, _, sa, _⟩ := hok
    simp only [ha, Bool.or_eq_true]
    exact Or.inr (hfin a sa)

theorem wellFormed_noZeroFourth (S : VSet) (h : WellFormedSet S.sys S) : NoZeroFourth S = true := by
  unfold NoZeroFourth
  by_cases hn : S.sys = .nuget
  · simp only [hn, bne_self_eq_false, Bool.false_or]
    rw [hn] at h
    rw [List.all_eq_true]
    intro sp hsp
    have hok := h.2 sp hsp
    unfold WellFormedSpan SpanOk at hok
    have hz : ∀ (ai : Bool) (m : Version), BoundShape .nuget ai m → (!(m.num.length == 4 && m.num[3]? == some 0)) = true := by
      intro ai m hm
      by_cases h4 : m.num.length = 4
      · have := hm.nuget4 rfl h4
        simp [this]
      · simp [h4]
    cases hr : sp.rank with
    | empty => simp
    | unit =>
      rw [hr] at hok
      obtain ⟨m, hm, hb⟩ := hok
      simp [hm, hz false m hb]
    | vector =>
      rw [hr] at hok
      obtain ⟨a, b, ha, hb, sa, sb⟩ := hok
      simp [ha, hb, hz false a sa, hz true b sb]
  · simp [hn]

/-! ## Non-vacuity: the set of the NPM constraint `^1.2.3 || 2.0.0-rc.1 || >=3` -/

def npmV (cnt : Int) (nums : List Int) (pre : List Bytes := []) : Version :=
  { sys := .npm, userNumCount := cnt, isPrerelease := !pre.isEmpty, num := nums, pre := pre }

/-- `{[1.2.3:1.∞.∞],2.0.0-rc.1,[3.0.0:∞.∞.∞]}` exactly as `ParseConstraint` builds it (note the
lower bound `3` with a single number). -/
def npmSet : VSet :=
  { sys := .npm,
    span := [ { rank := .vector, min := some (npmV 3 [1, 2, 3]), max := some (npmV 3 [1, inf, inf]) },
              { rank := .unit, min := some (npmV 3 [2, 0, 0] [[114, 99], [49]]), max := some (npmV 3 [2, 0, 0] [[114, 99], [49]]) },
              { rank := .vector, min := some (npmV 1 [3]), max := some (npmV 1 [inf, inf, inf]) } ] }

/-- `^1.2.3 || 2.0.0-rc.1 || >=3` -/
def npmConstraintText : Bytes :=
  [94, 49, 46, 50, 46, 51, 32, 124, 124, 32, 50, 46, 48, 46, 48, 45, 114, 99, 46, 49, 32, 124, 124, 32, 62, 61, 51]

/-- The example set is what the model's `ParseConstraint` returns for that text. -/
example : (parseConstraint .npm npmConstraintText).toOption.map (·.set) = some npmSet := by decide +kernel

theorem npmV_bound (ai : Bool) (cnt : Int) (nums : List Int) (pre : List Bytes) (hl : nums.length ≤ 3)
    (hn : ∀ x ∈ nums, NumOk ai x) (hp : ∀ i ∈ pre, IdentOk .npm i = true) : IsBound .npm ai (npmV cnt nums pre) :=
  ⟨rfl, rfl, Or.inl hl, hn, (fun h => by cases h), hp⟩

/-- Non-vacuity of `set_roundtrip_partial`'s hypothesis on a three-span set with '∞' bounds,
a prerelease unit span and a one-number lower bound. -/
example : WellFormedSet .npm npmSet := by
  refine ⟨by simp [npmSet], ?_⟩
  intro sp hsp
  simp only [npmSet, List.mem_cons, List.not_mem_nil, or_false] at hsp
  have small : ∀ ai (x : Int), 0 ≤ x → x < 10 → NumOk ai x := fun ai x h0 h1 => ⟨h0, Or.inl (by omega)⟩
  have big : NumOk true inf := ⟨by decide, Or.inr ⟨rfl, rfl⟩⟩
  rcases hsp with rfl | rfl | rfl
  · refine ⟨_, _, rfl, rfl, npmV_bound false _ _ _ (by decide) ?_ (by simp), npmV_bound true _ _ _ (by decide) ?_ (by simp)⟩
    · intro x hx; simp at hx; rcases hx with rfl | rfl | rfl <;> exact small _ _ (by decide) (by decide)
    · intro x hx; simp at hx; rcases hx with rfl | rfl
      · exact small _ _ (by decide) (by decide)
      · exact big
  · refine ⟨_, rfl, npmV_bound false _ _ _ (by decide) ?_ (by decide)⟩
    intro x hx; simp at hx; rcases hx with rfl | rfl <;> exact small _ _ (by decide) (by decide)
  · refine ⟨_, _, rfl, rfl, npmV_bound false _ _ _ (by decide) ?_ (by simp), npmV_bound true _ _ _ (by decide) ?_ (by simp)⟩
    · intro x hx; simp at hx; subst hx; exact small _ _ (by decide) (by decide)
    · intro x hx; simp at hx; subst hx; exact big

/-- The minimum version `0.0.0-0` (printed for `<`/`<=` constraints) is a bound. -/
example : IsBound .default false (minVersion .default { sys := .default }) :=
  ⟨rfl, rfl, Or.inl (by decide), by
    intro x hx
    have : x = 0 := by simpa [minVersion] using hx
    subst this
    exact ⟨by decide, Or.inl (by decide)⟩,
   (fun h => by cases h), by decide⟩

end DepsDev.Props.C11
