/-
Property C19 — attribute sets attached to dependencies and versions compare by a total
order in which two sets are equal exactly when they hold the same flags and the same
key/value pairs; a clone is equal to its original and stays so whatever is later done
to either; writing a set in the test schema syntax and parsing it back gives an equal
set.

Model: `Model.Resolve.Attr` (heap of maps + `attr.Set` values, `dep.Type` and
`version.AttrSet` wrappers), `Model.Resolve.AttrText` (printers, writer, parsers),
`Model.Resolve.AttrMachine` (the register machine of the correspondence harness),
vocabulary in `Model.Resolve.AttrSpec`. Helper lemmas: `Proofs/C19*.lean`.

Statements only; every theorem quantifies over ALL inputs (no bound on the length of
op sequences, on keys or on values).
-/
import DepsDev.Proofs.C19DepAll

namespace DepsDev.Props.C19
open DepsDev DepsDev.Gen DepsDev.Model.Resolve DepsDev.Model.Resolve.Attr DepsDev.Model.Resolve.AttrText
open DepsDev.Model.Resolve.AttrMachine DepsDev.Model.Resolve.AttrSpec DepsDev.Proofs.C19

/-! ## 0. What the model relies on in the generated constants -/

/-- `SetAttr` refuses every key that would not fit `attrBits`; the mask is 8 bits. -/
theorem gen_widths : C19AttrKeys.setAttrKeyLimit ≤ C19AttrKeys.attrBitsWidth ∧ C19AttrKeys.maskWidth = 8 := by
  decide

/-- the declared flag keys are negated distinct powers of two below the mask length of
their package, hence distinct mask bits `< 8`; all other declared keys are valued keys
`< setAttrKeyLimit`. -/
theorem gen_keys_shape :
    (C19AttrKeys.depConsts.all fun c =>
      if c.2 < 0 then (List.range C19AttrKeys.depMaskLen).any (fun b => c.2 == -((2 ^ b : Nat) : Int))
      else decide (c.2.toNat < C19AttrKeys.setAttrKeyLimit)) = true ∧
    (C19AttrKeys.versionConsts.all fun c =>
      if c.2 < 0 then (List.range C19AttrKeys.versionMaskLen).any (fun b => c.2 == -((2 ^ b : Nat) : Int))
      else decide (c.2.toNat < C19AttrKeys.setAttrKeyLimit)) = true ∧
    C19AttrKeys.depMaskLen ≤ C19AttrKeys.maskWidth ∧ C19AttrKeys.versionMaskLen ≤ C19AttrKeys.maskWidth ∧
    (C19AttrKeys.depConsts.map (·.2)).Nodup ∧ (C19AttrKeys.versionConsts.map (·.2)).Nodup := by
  decide

/-- `dep.Type.String` tests the mask bits of `Dev`, `Opt`, `Test`. -/
theorem gen_dep_flags : depConst "Dev" = -1 ∧ depConst "Opt" = -2 ∧ depConst "Test" = -4 := by decide

/-- the test helpers list every declared constant exactly once, and every constant has
a stringer name (as multisets: the order in which constants are declared, or listed by the
helpers, is immaterial). -/
theorem gen_allKeys :
    C19AttrKeys.depAllKeys.isPerm (C19AttrKeys.depConsts.map (·.2)) = true ∧
    C19AttrKeys.versionAllKeys.isPerm (C19AttrKeys.versionConsts.map (·.2)) = true ∧
    (C19AttrKeys.depNames.map (·.1)).isPerm C19AttrKeys.depAllKeys = true ∧
    (C19AttrKeys.versionNames.map (·.1)).isPerm C19AttrKeys.versionAllKeys = true ∧
    C19AttrKeys.depAllKeys.Nodup ∧ C19AttrKeys.versionAllKeys.Nodup := by decide

/-! ## 1. Invariant of all op sequences -/

/-- States reached from the initial state by ANY sequence of machine ops (new, set/add,
mask, clone, compare, get, print, parse, ...) that does not use the raw struct copy. -/
def Reachable (k : Kind) (st : State) : Prop :=
  ∃ ops : List Op, (∀ op ∈ ops, op.noCopy = true) ∧ runState k State.init ops = some st

/-- `NoAlias ∧ attrBits = keys(map)` holds initially … -/
theorem inv_init : Inv State.init := Proofs.C19.inv_init

/-- … is preserved by every op except the raw copy … -/
theorem inv_step (k : Kind) (st st' : State) (op : Op) (o : Obs) (hinv : Inv st)
    (hnc : op.noCopy = true) (he : exec k st op = .ok st' o) : Inv st' :=
  exec_inv k st st' op o hinv hnc he

/-- … hence holds in every reachable state. -/
theorem inv_reachable (k : Kind) (st : State) (hr : Reachable k st) : Inv st := by
  obtain ⟨ops, hnc, he⟩ := hr
  exact runState_inv k ops State.init st Proofs.C19.inv_init hnc he

/-- non-vacuity: a reachable state with two registers holding different non-empty maps. -/
example : ∃ st, Reachable .d st ∧ (st.regs 0).ref = some 0 ∧ (st.regs 1).ref = some 1 ∧
    getAttr st.heap (st.regs 1) 3 = some [0x62] :=
  ⟨_, ⟨[.set 0 3 [0x61], .clone 0 1, .set 1 3 [0x62], .set 1 (-1) []], by decide, rfl⟩, rfl, rfl, rfl⟩

/-! ## 2. Compare is a total preorder; it is `.eq` exactly on equal contents -/

/-- reflexive. -/
theorem compare_refl (h : Heap) (a : Set) : Attr.compare h a a = .eq :=
  Std.ReflCmp.compare_self

/-- antisymmetric in sign: swapping the arguments swaps the result. -/
theorem compare_swap (h : Heap) (a b : Set) : Attr.compare h b a = (Attr.compare h a b).swap :=
  Std.OrientedCmp.eq_swap

/-- transitive. -/
theorem compare_trans (h : Heap) (a b c : Set) (hab : (Attr.compare h a b).isLE = true)
    (hbc : (Attr.compare h b c).isLE = true) : (Attr.compare h a c).isLE = true :=
  Std.TransCmp.isLE_trans hab hbc

/-- all of the above as core's class of lawful total preorders. -/
theorem compare_transCmp (h : Heap) : Std.TransCmp (Attr.compare h) := inferInstance

/-- sets equal under `Compare` compare alike against any third set. -/
theorem compare_congr (h : Heap) (a b c : Set) (hab : Attr.compare h a b = .eq) :
    Attr.compare h a c = Attr.compare h b c :=
  Std.TransCmp.congr_left hab

/-- `Compare a b = 0` iff same mask and same key/value contents (well-formed sets). -/
theorem compare_eq_iff (h : Heap) (a b : Set) (ha : SetOK h a) (hb : SetOK h b) :
    Attr.compare h a b = .eq ↔ SameContents h a h b :=
  compare_eq_iff_same h a b ha hb

/-- … in particular for any two registers of any reachable state. -/
theorem reachable_compare_eq_iff (k : Kind) (st : State) (hr : Reachable k st) (i j : Nat) :
    Attr.compare st.heap (st.regs i) (st.regs j) = .eq ↔
      SameContents st.heap (st.regs i) st.heap (st.regs j) :=
  compare_eq_iff_same _ _ _ ((inv_reachable k st hr).ok i) ((inv_reachable k st hr).ok j)

/-- non-vacuity: distinct registers with equal contents, and an unequal pair. -/
example : ∃ st, Reachable .v st ∧ Attr.compare st.heap (st.regs 0) (st.regs 1) = .eq ∧
    (st.regs 0).ref ≠ (st.regs 1).ref ∧ Attr.compare st.heap (st.regs 0) (st.regs 2) = .lt :=
  ⟨_, ⟨[.set 0 3 [0x61], .set 0 (-2) [], .set 1 (-2) [], .set 1 3 [0x61], .set 2 3 [0x62], .set 2 (-2) []],
    by decide, rfl⟩, by decide, by decide, by decide⟩

/-! ## 3. Clone -/

/-- A clone compares equal to its original. -/
theorem clone_equal (k : Kind) (st st1 : State) (o : Obs) (r r2 : Nat) (hinv : Inv st)
    (he : exec k st (.clone r r2) = .ok st1 o) :
    Attr.compare st1.heap (st1.regs r) (st1.regs r2) = .eq ∧ view st1 r2 = view st r := by
  have hinv1 := exec_inv k st st1 _ o hinv rfl he
  have hv2 : view st1 r2 = view st r := by
    simp only [exec] at he
    injection he with e1 _
    subst e1
    obtain ⟨_, _, _, hm, hb, ha, _⟩ := clone_spec st.heap (st.regs r) (hinv.ok r)
    simp [view, State.setReg, hm, hb, ha]
  refine ⟨?_, hv2⟩
  by_cases hrr : r = r2
  · subst hrr; exact Std.ReflCmp.compare_self
  · have hv1 : view st1 r = view st r :=
      exec_frame k st st1 _ o hinv rfl he r (by simp [Op.target]; exact fun e => hrr e.symm)
    rw [compare_eq_iff_same _ _ _ (hinv1.ok r) (hinv1.ok r2)]
    have e := hv1.trans hv2.symm
    simp only [view, Prod.mk.injEq] at e
    exact ⟨e.1, fun k => by simp only [getAttr, e.2.2]⟩

/-- Clone independence (frame): after `r2 := clone r`, whatever sequence of ops follows
(no raw copy), as long as it does not write the clone's register the clone still has
the ORIGINAL contents (mask, bitmask, map) of `r` at the time of the clone — in
particular every op on the original leaves it alone — and symmetrically for the
original when the ops do not write its register. -/
theorem clone_independent (k : Kind) (st st1 st2 : State) (o : Obs) (r r2 : Nat) (ops : List Op)
    (hinv : Inv st) (hne : r ≠ r2)
    (he : exec k st (.clone r r2) = .ok st1 o)
    (hnc : ∀ op ∈ ops, op.noCopy = true)
    (hrun : runState k st1 ops = some st2) :
    ((∀ op ∈ ops, op.target ≠ some r2) → view st2 r2 = view st r) ∧
    ((∀ op ∈ ops, op.target ≠ some r) → view st2 r = view st r) := by
  have hinv1 := exec_inv k st st1 _ o hinv rfl he
  have h2 := (clone_equal k st st1 o r r2 hinv he).2
  have h1 : view st1 r = view st r :=
    exec_frame k st st1 _ o hinv rfl he r (by simp [Op.target]; exact fun e => hne e.symm)
  exact ⟨fun ht => (runState_frame k ops r2 st1 st2 hinv1 hnc ht hrun).trans h2,
         fun ht => (runState_frame k ops r st1 st2 hinv1 hnc ht hrun).trans h1⟩

/-- The general frame property behind it: an op sequence changes only the registers it
targets. -/
theorem frame (k : Kind) (st st' : State) (ops : List Op) (i : Nat) (hinv : Inv st)
    (hnc : ∀ op ∈ ops, op.noCopy = true) (ht : ∀ op ∈ ops, op.target ≠ some i)
    (hrun : runState k st ops = some st') : view st' i = view st i :=
  runState_frame k ops i st st' hinv hnc ht hrun

/-- non-vacuity of `clone_independent`: both registers are written after the clone. -/
example : ∃ st, runState .d State.init
      [.set 0 3 [0x61], .clone 0 1, .set 0 3 [0x62], .set 1 8 [0x63], .set 0 (-1) []] = some st ∧
    getAttr st.heap (st.regs 0) 3 = some [0x62] ∧ getAttr st.heap (st.regs 1) 3 = some [0x61] ∧
    getAttr st.heap (st.regs 0) 8 = none ∧ (st.regs 1).mask = 0 :=
  ⟨_, rfl, rfl, rfl, rfl, rfl⟩

/-! ## 4. The hazard with a raw struct copy (what a shallow `Clone` would do) -/

/-- `b := a; b.SetAttr(2, "b")`: register 0 was not written after the copy, yet
`GetAttr` on it now finds key 2, while its bitmask — hence `ForEachAttr`, `Compare`,
`String` — does not know the key; the invariant is broken. (Contrast `frame`.) -/
theorem rawcopy_hazard :
    ∃ st, runState .a State.init [.set 0 1 [0x61], .copy 0 1, .set 1 2 [0x62]] = some st ∧
      getAttr st.heap (st.regs 0) 2 = some [0x62] ∧
      (st.regs 0).bits.testBit 2 = false ∧
      forEachAttr st.heap (st.regs 0) = [(1, [0x61])] ∧
      ¬ Inv st := by
  refine ⟨_, rfl, rfl, by decide, by decide, ?_⟩
  intro hinv
  have := hinv.noAlias 0 1 0 rfl rfl
  cases this

/-! ## 5. Text form: versiontest -/

def Res.isOk {α} : Res α → Bool
  | .ok _ => true
  | _ => false

/-- a well-formed set built from a list of `SetAttr` calls (for witnesses). -/
def mk (calls : List (Int × Bytes)) : Heap × Set :=
  match applyAttrs Heap.empty Set.zero calls with
  | .ok p => p
  | _ => (Heap.empty, Set.zero)

theorem mk_ok (calls : List (Int × Bytes))
    (hb : ∀ c ∈ calls, 0 ≤ c.1 → c.1.toNat < C19AttrKeys.setAttrKeyLimit) : SetOK (mk calls).1 (mk calls).2 := by
  obtain ⟨h2, s2, he, hok, _⟩ := applyAttrs_abs calls Heap.empty Set.zero (setOK_zero _) hb
  simp only [mk, he]
  exact hok

/-- FULL statement (as the property words it): for every well-formed version set with
declared keys, `versiontest.ParseString(versiontest.String(s))` succeeds and equals `s`. -/
def C19_ver_text_roundtrip : Prop :=
  ∀ (h : Heap) (s : Set), SetOK h s →
    knownKeys C19AttrKeys.versionAllKeys C19AttrKeys.versionFlagKeys h s = true →
    ∃ h' s', versionParseString h (versiontestString h s) = .ok (h', s') ∧ Attr.compare h' s s' = .eq

/-- REFUTED on the unchanged code (finding F-C19-text): `Redirect=""` is written as
`redirect`, and the parser then misses the value. -/
theorem c19_ver_text_roundtrip_false : ¬ C19_ver_text_roundtrip := by
  intro H
  obtain ⟨h', s', he, _⟩ := H (mk [(1, [])]).1 (mk [(1, [])]).2 (mk_ok _ (by decide)) (by decide)
  have : Res.isOk (versionParseString (mk [(1, [])]).1 (versiontestString (mk [(1, [])]).1 (mk [(1, [])]).2)) = false := by
    decide
  rw [he] at this
  cases this

/-- second class of F-C19-text: a value with white space (`Redirect="a b"`) is written
unquoted (`redirect a b`) and does not parse back. -/
theorem c19_ver_text_space_witness :
    let w := mk [(1, [0x61, 0x20, 0x62])]
    knownKeys C19AttrKeys.versionAllKeys C19AttrKeys.versionFlagKeys w.1 w.2 = true ∧
    verTextOK C19AttrKeys.versionFlagKeys w.1 w.2 = false ∧
    versiontestString w.1 w.2 = [0x72, 0x65, 0x64, 0x69, 0x72, 0x65, 0x63, 0x74, 0x20, 0x61, 0x20, 0x62] ∧
    Res.isOk (versionParseString w.1 (versiontestString w.1 w.2)) = false := by
  decide

/-- PARTIAL (hypothesis `verTextOK`: every valued attribute is non-empty and free of
white space; its negation is the classifier of F-C19-text): the round trip holds. -/
theorem c19_ver_text_roundtrip_partial (h : Heap) (s : Set) (hs : SetOK h s)
    (hk : knownKeys C19AttrKeys.versionAllKeys C19AttrKeys.versionFlagKeys h s = true)
    (ht : verTextOK C19AttrKeys.versionFlagKeys h s = true) :
    ∃ h' s', versionParseString h (versiontestString h s) = .ok (h', s') ∧ Attr.compare h' s s' = .eq := by
  obtain ⟨h', s', he, _, _, _, hc⟩ := ver_roundtrip h s hs hk ht
  exact ⟨h', s', he, hc⟩

/-- the same for every register of every reachable state of the machine. -/
theorem c19_ver_text_roundtrip_reachable (st : State) (hr : Reachable .v st) (i : Nat)
    (hk : knownKeys C19AttrKeys.versionAllKeys C19AttrKeys.versionFlagKeys st.heap (st.regs i) = true)
    (ht : verTextOK C19AttrKeys.versionFlagKeys st.heap (st.regs i) = true) :
    ∃ h' s', versionParseString st.heap (versiontestString st.heap (st.regs i)) = .ok (h', s') ∧
      Attr.compare h' (st.regs i) s' = .eq :=
  c19_ver_text_roundtrip_partial _ _ ((inv_reachable .v st hr).ok i) hk ht

/-- non-vacuity: the hypotheses hold for a set with flags and several valued keys
(non-ASCII and backslash values included). -/
example :
    let w := mk [(-1, []), (1, [0x61, 0x5C]), (10, [0xC3, 0xA9]), (-4, [])]
    knownKeys C19AttrKeys.versionAllKeys C19AttrKeys.versionFlagKeys w.1 w.2 = true ∧
    verTextOK C19AttrKeys.versionFlagKeys w.1 w.2 = true := by decide

/-! ## 6. Text form: deptest (written by the model's `depWrite`, see AttrText) -/

/-- FULL statement: for every well-formed type with declared keys (flag keys without
value), `deptest.ParseString(write(t))` succeeds and equals `t`. -/
def C19_dep_text_roundtrip : Prop :=
  ∀ (h : Heap) (s : Set), SetOK h s →
    knownKeys C19AttrKeys.depAllKeys C19AttrKeys.depFlagKeys h s = true →
    ∃ h' s', depParseString h (depWrite h s) = .ok (h', s') ∧ Attr.compare h' s s' = .eq

/-- REFUTED on the unchanged code (finding F-C19-deptest-quoted): after the quoted
value of `Scope` the parser skips the next item (`KnownAs`) and then reads `k` as a key. -/
theorem c19_dep_text_roundtrip_false : ¬ C19_dep_text_roundtrip := by
  intro H
  obtain ⟨h', s', he, _⟩ := H (mk [(3, [0x61, 0x20, 0x62]), (8, [0x6B])]).1 (mk [(3, [0x61, 0x20, 0x62]), (8, [0x6B])]).2
    (mk_ok _ (by decide)) (by decide)
  have : Res.isOk (depParseString (mk [(3, [0x61, 0x20, 0x62]), (8, [0x6B])]).1
      (depWrite (mk [(3, [0x61, 0x20, 0x62]), (8, [0x6B])]).1 (mk [(3, [0x61, 0x20, 0x62]), (8, [0x6B])]).2)) = false := by
    decide
  rw [he] at this
  cases this

/-- the other classes of F-C19-deptest-quoted, each on a witness that violates exactly
one clause of `depTextOK`: a quoted value ending in a backslash, one starting with a
space, one with two adjacent spaces (the last is read back, but as a different value). -/
theorem c19_dep_text_quoted_witnesses :
    (let w := mk [(3, [0x61, 0x20, 0x5C])]
     knownKeys C19AttrKeys.depAllKeys C19AttrKeys.depFlagKeys w.1 w.2 = true ∧ depTextOK w.1 w.2 = false ∧
     Res.isOk (depParseString w.1 (depWrite w.1 w.2)) = false) ∧
    (let w := mk [(3, [0x20, 0x61])]
     knownKeys C19AttrKeys.depAllKeys C19AttrKeys.depFlagKeys w.1 w.2 = true ∧ depTextOK w.1 w.2 = false ∧
     Res.isOk (depParseString w.1 (depWrite w.1 w.2)) = false) ∧
    (let w := mk [(3, [0x61, 0x20, 0x20, 0x62])]
     knownKeys C19AttrKeys.depAllKeys C19AttrKeys.depFlagKeys w.1 w.2 = true ∧ depTextOK w.1 w.2 = false ∧
     (match depParseString w.1 (depWrite w.1 w.2) with
      | .ok (h', s') => Attr.compare h' w.2 s' != .eq
      | _ => false) = true) := by
  decide

/-- PARTIAL (hypothesis `depTextOK`: every value that must be written quoted — empty,
starting with `"`, or containing white space — is the LAST item written, does not end in
a backslash, does not start with a space and has no two adjacent spaces; its negation is
exactly the classifier of F-C19-deptest-quoted): the round trip holds, for arbitrary
byte values (valid UTF-8 or not), quoted or not. -/
theorem c19_dep_text_roundtrip_partial (h : Heap) (s : Set) (hs : SetOK h s)
    (hk : knownKeys C19AttrKeys.depAllKeys C19AttrKeys.depFlagKeys h s = true)
    (ht : depTextOK h s = true) :
    ∃ h' s', depParseString h (depWrite h s) = .ok (h', s') ∧ Attr.compare h' s s' = .eq := by
  obtain ⟨h', s', he, _, _, _, hc⟩ := dep_roundtrip_all h s hs hk ht
  exact ⟨h', s', he, hc⟩

/-- special case without any quoted value (`depPlain`), for arbitrary byte values. -/
theorem c19_dep_text_roundtrip_plain (h : Heap) (s : Set) (hs : SetOK h s)
    (hk : knownKeys C19AttrKeys.depAllKeys C19AttrKeys.depFlagKeys h s = true)
    (hp : depPlain h s = true) :
    ∃ h' s', depParseString h (depWrite h s) = .ok (h', s') ∧ Attr.compare h' s s' = .eq := by
  obtain ⟨h', s', he, _, _, _, hc⟩ := dep_roundtrip_plain h s hs hk hp
  exact ⟨h', s', he, hc⟩

theorem c19_dep_text_roundtrip_reachable (st : State) (hr : Reachable .d st) (i : Nat)
    (hk : knownKeys C19AttrKeys.depAllKeys C19AttrKeys.depFlagKeys st.heap (st.regs i) = true)
    (ht : depTextOK st.heap (st.regs i) = true) :
    ∃ h' s', depParseString st.heap (depWrite st.heap (st.regs i)) = .ok (h', s') ∧
      Attr.compare h' (st.regs i) s' = .eq :=
  c19_dep_text_roundtrip_partial _ _ ((inv_reachable .d st hr).ok i) hk ht

/-- `depPlain` is inside the classifier's complement. -/
theorem depPlain_imp_depTextOK (h : Heap) (s : Set) (hp : depPlain h s = true) : depTextOK h s = true := by
  unfold depPlain at hp
  unfold depTextOK
  generalize depItems h s = items at hp ⊢
  induction items with
  | nil => rfl
  | cons it rest ih =>
    obtain ⟨t, q⟩ := it
    simp only [List.all_cons, Bool.and_eq_true] at hp
    cases q with
    | some v => simp at hp
    | none => simp only [quotedItemsOK]; exact ih hp.2

/-- non-vacuity: flags, valued keys with non-ASCII, backslash and inner-quote values
written bare, and a last value that is written quoted (spaces, a quote, a backslash, a
tab, a non-ASCII letter, an invalid byte and a no-break space U+00A0). -/
example :
    let w := mk [(-2, []), (3, [0x61, 0x22, 0x5C]), (7, [0xC3, 0xA9]), (-1, []),
                 (10, [0x61, 0x20, 0x22, 0x5C, 0x20, 0x09, 0xC3, 0xA9, 0xFF, 0xC2, 0xA0, 0x62])]
    knownKeys C19AttrKeys.depAllKeys C19AttrKeys.depFlagKeys w.1 w.2 = true ∧ depTextOK w.1 w.2 = true ∧
    depPlain w.1 w.2 = false := by decide

/-- non-vacuity of the plain case, with the map-resident flag `Selector`. -/
example :
    let w := mk [(-2, []), (11, []), (3, [0x61, 0x22, 0x5C]), (8, [0xC3, 0xA9]), (-1, [])]
    knownKeys C19AttrKeys.depAllKeys C19AttrKeys.depFlagKeys w.1 w.2 = true ∧ depPlain w.1 w.2 = true := by decide

/-- `Selector` is written after every valued key, so a type with `Selector` and any
quoted value is outside `depTextOK` (part of F-C19-deptest-quoted). -/
example :
    let w := mk [(11, []), (3, [0x61, 0x20, 0x62])]
    knownKeys C19AttrKeys.depAllKeys C19AttrKeys.depFlagKeys w.1 w.2 = true ∧ depTextOK w.1 w.2 = false ∧
    Res.isOk (depParseString w.1 (depWrite w.1 w.2)) = true ∧
    (match depParseString w.1 (depWrite w.1 w.2) with
     | .ok (h', s') => Attr.compare h' w.2 s' != .eq
     | _ => false) = true := by decide

/-! ## 7. strconv.Quote / Unquote and the single-attribute form (`ATTR:` lines) -/

/-- `strconv.Unquote(strconv.Quote(v)) = v` for EVERY byte string `v`: ASCII incl. control
characters, quotes and backslashes; valid multi-byte runes, printable (written raw) or
not (`\u`, `\U`); invalid UTF-8 bytes (`\xHH`). -/
theorem unquote_quote (v : Bytes) : unquote (quote v) = some v := unquote_quote_all v

/-- `versiontest.ParseSingle(lower(key) + " " + Quote(value))` yields the set holding
exactly that attribute, for every declared key and EVERY byte value (empty, spaced,
quoted, non-UTF-8 ... included): a flag key sets its mask bit, a valued key maps to the
value. -/
theorem c19_ver_single_roundtrip (h : Heap) (key : Int) (hkey : key ∈ C19AttrKeys.versionAllKeys)
    (v : Bytes) :
    ∃ h' s', versionParseSingle h (singleText key v) = .ok (h', s') ∧ SetOK h' s' ∧
      s'.mask = (if key < 0 then key.natAbs else 0) ∧
      ∀ k, getAttr h' s' k = if 0 ≤ key ∧ k = key.toNat then some v else none := by
  obtain ⟨h', s', he, hok, habs⟩ := ver_single_roundtrip_all h key hkey v
  refine ⟨h', s', he, hok, ?_, ?_⟩
  · have := congrArg Prod.fst habs
    simp only [absOf, stepAbs_fst] at this
    rw [this]; simp
  · intro k
    have := congrFun (congrArg Prod.snd habs) k
    simp only [absOf, stepAbs_snd] at this
    exact this

/-- the text is the one the machine op `qs` writes. -/
example : singleText 1 [0x61, 0x20, 0x22] =
    [0x72, 0x65, 0x64, 0x69, 0x72, 0x65, 0x63, 0x74, 0x20, 0x22, 0x61, 0x20, 0x5C, 0x22, 0x22] := by decide

end DepsDev.Props.C19

/- TIES (DESIGN 3.3): per theorem, the model definitions it unfolds (tied to the Go code
by the correspondence ops named in brackets) and the generated constants it uses.
{
 "gen_widths|gen_keys_shape|gen_dep_flags|gen_allKeys": {"gen": ["C19AttrKeys.*"], "model": []},
 "inv_init|inv_step|inv_reachable|frame|clone_equal|clone_independent": {
   "model": ["Attr.setAttr", "Attr.addAttr", "Attr.clone", "AttrMachine.exec", "AttrText.depParseString", "AttrText.versionParseString", "AttrText.versionParseSingle"],
   "ops": ["n", "s", "m", "c", "p", "q", "rt", "qs", "D", "g", "e"], "gen": ["C19AttrKeys.setAttrKeyLimit", "C19AttrKeys.attrBitsWidth"]},
 "compare_refl|compare_swap|compare_trans|compare_transCmp|compare_congr|compare_eq_iff|reachable_compare_eq_iff": {
   "model": ["Attr.compare", "Attr.compareVals", "Attr.keysOf", "Attr.stringsCompare"], "ops": ["k", "K"], "gen": ["C19AttrKeys.attrBitsWidth"]},
 "rawcopy_hazard": {"model": ["Attr.rawCopy", "Attr.setAttr", "Attr.getAttr", "Attr.forEachAttr"], "ops": ["y", "s", "g", "e", "D"], "gen": []},
 "c19_ver_text_roundtrip_false|c19_ver_text_space_witness|c19_ver_text_roundtrip_partial|c19_ver_text_roundtrip_reachable": {
   "model": ["AttrText.versiontestString", "AttrText.versionParseString", "AttrText.fields", "AttrText.parseItems", "AttrText.dictLookup", "AttrText.keyName", "AttrMachine.knownKeys", "AttrMachine.verTextOK"],
   "ops": ["x", "p", "rt", "cl"], "gen": ["C19AttrKeys.versionNames", "C19AttrKeys.versionAllKeys", "C19AttrKeys.versionFlagKeys", "C19Print.spacePatterns", "C19Print.lowerToAscii"]},
 "c19_dep_text_roundtrip_false|c19_dep_text_quoted_witnesses|c19_dep_text_roundtrip_partial|c19_dep_text_roundtrip_plain|c19_dep_text_roundtrip_reachable|depPlain_imp_depTextOK": {
   "model": ["AttrText.depWrite", "AttrText.depItems", "AttrText.depParseString", "AttrText.joinQuoted", "AttrText.fields", "AttrText.quote", "AttrText.unquote", "AttrText.parseItems", "AttrMachine.knownKeys", "AttrMachine.depTextOK", "AttrMachine.depPlain"],
   "ops": ["w", "p", "rt", "cl"], "gen": ["C19AttrKeys.depNames", "C19AttrKeys.depAllKeys", "C19AttrKeys.depFlagKeys", "C19Print.spacePatterns", "C19Print.printRanges", "C19Print.lowerToAscii"]},
 "unquote_quote|c19_ver_single_roundtrip": {
   "model": ["AttrText.quote", "AttrText.unquote", "AttrText.versionParseSingle", "AttrText.trimSpace", "AttrText.cutSpace"], "ops": ["qs", "q", "t"], "gen": ["C19AttrKeys.versionNames", "C19AttrKeys.versionAllKeys", "C19Print.spacePatterns"]}
}
-/
