import DepsDev.Ref.Npm

/-!
# Reference: RubyGems — `Gem::Version#<=>` (rubygems/version.rb)

```ruby
def segments            # "1.2.3b2" → [1, 2, 3, "b", 2];  a "-" was first rewritten to ".pre."
  @version.scan(/[0-9]+|[a-z]+/i).map {|s| /^\d+$/ =~ s ? s.to_i : s }
def _split_segments     # numeric prefix | from the first String on
  string_start = _segments.index {|s| s.is_a?(String) }
  numeric_segments = string_segments.slice!(0, string_start || string_segments.size)
def canonical_segments  # trailing zeros dropped from each of the two parts
  _split_segments.map! {|segments| segments.reverse_each.drop_while {|s| s == 0 }.reverse }.reduce(&:concat)
def <=>(other)
  lhsegments = canonical_segments;  rhsegments = other.canonical_segments
  while i <= limit                     # limit = longer size - 1
    lhs, rhs = lhsegments[i] || 0, rhsegments[i] || 0
    next      if lhs == rhs
    return -1 if String  === lhs && Numeric === rhs
    return  1 if Numeric === lhs && String  === rhs
    return lhs <=> rhs                 # Integer or String (byte order) comparison
  end
  return 0
```
A version string must match `[0-9]+(\.[0-9a-zA-Z]+)*(-[0-9A-Za-z-]+(\.[0-9A-Za-z-]+)*)?`.
Gem::Version does not fold case (`"A" <=> "a"` is -1). Core Lean only.
-/
namespace DepsDev.Ref.Gem

inductive Seg where
  | num (n : Nat)
  | str (s : Bytes)
  deriving Repr, DecidableEq

structure Ast where
  segs : List Seg
  deriving Repr, DecidableEq

def Seg.isNum : Seg → Bool
  | .num _ => true
  | .str _ => false

def Seg.isZero : Seg → Bool
  | .num 0 => true
  | _ => false

/-- `reverse_each.drop_while {|s| s == 0 }.reverse` -/
def dropTrailingZeros (l : List Seg) : List Seg := (l.reverse.dropWhile Seg.isZero).reverse

/-- `canonical_segments`. -/
def canonicalSegments (l : List Seg) : List Seg :=
  dropTrailingZeros (l.takeWhile Seg.isNum) ++ dropTrailingZeros (l.dropWhile Seg.isNum)

/-- One step of the loop of `<=>`. -/
def segCmp : Seg → Seg → Ordering
  | .num a, .num b => compare a b
  | .str _, .num _ => .lt
  | .num _, .str _ => .gt
  | .str a, .str b => List.compareLex compare a b

/-- The loop of `<=>` once the left side is exhausted (`lhsegments[i] || 0`). -/
def padCmpNil : List Seg → Ordering
  | [] => .eq
  | b :: bs => (segCmp (.num 0) b).then (padCmpNil bs)

/-- The loop of `<=>`: position by position, a missing segment is `0`. -/
def padCmp : List Seg → List Seg → Ordering
  | [], bs => padCmpNil bs
  | a :: as, [] => (segCmp a (.num 0)).then (padCmp as [])
  | a :: as, b :: bs => (segCmp a b).then (padCmp as bs)

def compare (a b : Ast) : Ordering := padCmp (canonicalSegments a.segs) (canonicalSegments b.segs)

def isLower (c : UInt8) : Bool := 97 ≤ c && c ≤ 122

/-- Segments as `scan` produces them from a correct version string: the first is a number,
string segments are non-empty words of letters. -/
def Seg.valid : Seg → Bool
  | .num _ => true
  | .str s => !s.isEmpty && s.all isLetter

def Ast.valid (a : Ast) : Bool :=
  (match a.segs with | .num _ :: _ => true | _ => false) && a.segs.all Seg.valid

/-- No upper-case letters (the spelling the library folds every version to). -/
def Ast.lower (a : Ast) : Bool :=
  a.segs.all (fun | .num _ => true | .str s => s.all isLower)

def Seg.render : Seg → Bytes
  | .num n => dec n
  | .str s => s

/-- Normal form: the segments joined by dots. -/
def render (a : Ast) : Bytes := joinSep 46 (a.segs.map Seg.render)

end DepsDev.Ref.Gem
