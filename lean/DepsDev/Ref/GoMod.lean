import DepsDev.Ref.Npm

/-!
# Reference: `golang.org/x/mod/semver.Compare`

```go
func Compare(v, w string) int {   // both valid
    if c := compareInt(pv.major, pw.major); c != 0 { return c }
    if c := compareInt(pv.minor, pw.minor); c != 0 { return c }
    if c := compareInt(pv.patch, pw.patch); c != 0 { return c }
    return comparePrerelease(pv.prerelease, pw.prerelease)
}
```
`compareInt` compares digit strings without leading zeros by length, then as text
(= numerically, unbounded); `comparePrerelease` is SemVer §11.3–§11.4 verbatim (empty is
greatest; identifier by identifier; numeric < non-numeric; numeric by value; text in
byte order; a proper prefix is lower). Build metadata is dropped. The accepted syntax
is `v` + the SemVer grammar (`Ast.valid`; shorthands `vM`, `vM.m` also parse, without
prerelease or build). Core Lean only.
-/
namespace DepsDev.Ref.GoMod
abbrev Ast := SemVer.Ast
def compare : Ast → Ast → Ordering := SemVer.precedence
/-- Canonical spelling: a leading `v`. -/
def render (a : Ast) : Bytes := 118 :: SemVer.render a
end DepsDev.Ref.GoMod
