/-!
# Ref: PEP 440 specifier sets (`packaging.specifiers.SpecifierSet.contains`) for
# final-release candidates

Transcribed from PEP 440 "Version specifiers" and packaging's `specifiers.py`
(`_compare_equal`, `_compare_not_equal`, `_compare_less_than_equal`,
`_compare_greater_than_equal`, `_compare_less_than`, `_compare_greater_than`,
`_compare_compatible`), specialised to the property's domain: the candidate is a
final release (release segment only); specifier versions have no epoch and no
local part but may carry a pre-, post- or dev-release suffix.
A specifier set is a comma-separated conjunction of clauses.
-/
namespace DepsDev.Ref

inductive PreKind where
  | a | b | rc
  deriving Repr, DecidableEq, Inhabited

/-- A PEP 440 version without epoch and local part. -/
structure PepVer where
  rel : List Nat
  pre : Option (PreKind × Nat) := none
  post : Option Nat := none
  dev : Option Nat := none
  deriving Repr, DecidableEq, Inhabited

inductive PepOp where
  | eq | ne | le | ge | lt | gt | compat
  deriving Repr, DecidableEq, Inhabited

/-- One clause `op version[.*]`. -/
structure PepClause where
  op : PepOp
  v : PepVer
  star : Bool := false
  deriving Repr, DecidableEq, Inhabited

abbrev PepSpec := List PepClause

/-- An exhausted (zero padded) release segment against the rest of the other one. -/
def cmpReleaseNil : List Nat → Ordering
  | [] => .eq
  | b :: bs => (compare 0 b).then (cmpReleaseNil bs)

/-- Release segments compare with zero padding. -/
def cmpRelease : List Nat → List Nat → Ordering
  | [], bs => cmpReleaseNil bs
  | a :: as, [] => (compare a 0).then (cmpRelease as [])
  | a :: as, b :: bs => (compare a b).then (cmpRelease as bs)

/-- A final release `cand` against a specifier version (`packaging.version._cmpkey`
without epoch/local): on equal release segments a pre-release or a bare dev
release is below the final release, a post release above it. -/
def cmpFinal (cand : List Nat) (v : PepVer) : Ordering :=
  (cmpRelease cand v.rel).then <|
    if v.pre.isSome then .gt
    else if v.post.isSome then .lt
    else if v.dev.isSome then .gt
    else .eq

/-- `== V.*`: the candidate's release cut to `len V` and zero padded to `len V` equals `V`. -/
def prefixMatch : List Nat → List Nat → Bool
  | _, [] => true
  | [], r :: rs => r == 0 && prefixMatch [] rs
  | c :: cs, r :: rs => c == r && prefixMatch cs rs

def PepClause.contains (c : PepClause) (cand : List Nat) : Bool :=
  match c.op with
  | .eq => if c.star then prefixMatch cand c.v.rel else cmpFinal cand c.v == .eq
  | .ne => if c.star then !prefixMatch cand c.v.rel else cmpFinal cand c.v != .eq
  | .le => cmpFinal cand c.v != .gt
  | .ge => cmpFinal cand c.v != .lt
  | .lt => cmpFinal cand c.v == .lt
  | .gt => cmpFinal cand c.v == .gt
  | .compat => cmpFinal cand c.v != .lt && prefixMatch cand c.v.rel.dropLast

/-- `SpecifierSet(s).contains(cand)` for a final release `cand`. -/
def Pep440Spec.contains (s : PepSpec) (cand : List Nat) : Bool :=
  s.all (·.contains cand)

/-- What packaging accepts: `.*` only with `==`/`!=` on a plain release; `~=` needs two release segments. -/
def Pep440Spec.valid (s : PepSpec) : Bool :=
  s.all fun c =>
    !c.v.rel.isEmpty &&
    (!c.star || ((c.op == .eq || c.op == .ne) && c.v.pre.isNone && c.v.post.isNone && c.v.dev.isNone)) &&
    (c.op != .compat || c.v.rel.length ≥ 2)

/-- The candidate domain of the property: a non-zero release segment. -/
def Pep440Spec.candOk (cand : List Nat) : Bool := !cand.isEmpty && cand.any (· != 0)

namespace Pep440Spec

/-- Finding class: a `!=V` clause whose `V` orders below `0` (zero release with a
pre-release or bare dev suffix). -/
def nePre0 (s : PepSpec) : Bool :=
  s.any fun c => c.op == .ne && !c.star && c.v.rel.all (· == 0) && (c.v.pre.isSome || (c.v.dev.isSome && c.v.post.isNone))

def classes (s : PepSpec) : List String := if nePre0 s then ["F-C03-ne-pre0"] else []

end Pep440Spec

end DepsDev.Ref
