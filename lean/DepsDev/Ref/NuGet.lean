import DepsDev.Ref.Npm

/-!
# Reference: NuGet — `NuGet.Versioning.VersionComparer` (mode `Default`) on `NuGetVersion`

```csharp
result = x.Major.CompareTo(y.Major);  … Minor …  Patch …           // each: return if non-zero
result = CompareLegacyVersion(legacyX, legacyY);                    // Version.Revision (0 when absent)
if (xLabels != null && yLabels == null) return -1;                  // a prerelease is lower
if (xLabels == null && yLabels != null) return 1;
if (xLabels != null && yLabels != null) result = CompareReleaseLabels(xLabels, yLabels);
                                                                    // metadata: not compared in mode Default
CompareReleaseLabels: position by position; a missing label is lower; CompareRelease(a, b):
    both int.TryParse ⇒ numeric;  one ⇒ the numeric one is lower;
    neither ⇒ StringComparer.OrdinalIgnoreCase.Compare(a, b)
```
`OrdinalIgnoreCase` compares code units after mapping to UPPER case. `int.TryParse`
accepts what fits in 32 bits. The normal form (`ToNormalizedString`) is
`Major.Minor.Patch[.Revision if non-zero][-labels]`, metadata dropped.

Domain (`Ast.valid`): SemVer identifiers; numeric ones below 2^31; alphanumeric ones
that `int.TryParse` does not read as a number — `int.TryParse("-5")` succeeds (leading
sign allowed), so `-5` is *numeric* for NuGet (and for the library, which follows it);
such labels are kept out of the domain rather than guessed at, no NuGet being
installed to check. Core Lean only.
-/
namespace DepsDev.Ref.NuGet

open SemVer (Ident)

structure Ast where
  major : Nat
  minor : Nat
  patch : Nat
  revision : Nat := 0
  pre : List Ident := []
  metadata : List Bytes := []
  deriving Repr, DecidableEq

/-- ASCII upper-casing (what `OrdinalIgnoreCase` does on this alphabet). -/
def upper (c : UInt8) : UInt8 := if 97 ≤ c && c ≤ 122 then c - 32 else c

/-- `CompareRelease`. -/
def labelCmp : Ident → Ident → Ordering
  | .num a, .num b => compare a b
  | .num _, .alnum _ => .lt
  | .alnum _, .num _ => .gt
  | .alnum a, .alnum b => List.compareLex compare (a.map upper) (b.map upper)

/-- Release labels: none is greatest; otherwise `CompareReleaseLabels`. -/
def labelsCmp : List Ident → List Ident → Ordering
  | [], [] => .eq
  | [], _ :: _ => .gt
  | _ :: _, [] => .lt
  | a :: as, b :: bs => List.compareLex labelCmp (a :: as) (b :: bs)

def compare (a b : Ast) : Ordering :=
  (Ord.compare a.major b.major).then <|
  (Ord.compare a.minor b.minor).then <|
  (Ord.compare a.patch b.patch).then <|
  (Ord.compare a.revision b.revision).then <|
  labelsCmp a.pre b.pre

def identValid : Ident → Bool
  | .num n => n < 2 ^ 31
  | .alnum s => Ident.valid (.alnum s) && !looksNegative s

/-- Version parts are `int` (32 bit) in `System.Version`. -/
def Ast.valid (a : Ast) : Bool :=
  a.major < 2 ^ 31 && a.minor < 2 ^ 31 && a.patch < 2 ^ 31 && a.revision < 2 ^ 31 &&
  a.pre.all identValid && a.metadata.all (fun s => !s.isEmpty && s.all isIdentChar)

/-- `ToNormalizedString()` (+ metadata, which `ToFullString` appends). -/
def render (a : Ast) : Bytes :=
  dec a.major ++ 46 :: dec a.minor ++ 46 :: dec a.patch ++
  (if a.revision = 0 then [] else 46 :: dec a.revision) ++
  (if a.pre.isEmpty then [] else 45 :: joinSep 46 (a.pre.map Ident.render)) ++
  (if a.metadata.isEmpty then [] else 43 :: joinSep 46 a.metadata)

end DepsDev.Ref.NuGet
