import DepsDev.Model.Bytes
import DepsDev.Gen.C16PypiEnv

/-!
# Reference semantics for property C16: PEP 508 as pip's `packaging` implements it

A short transcription of the *published* algorithms, at the level of syntax trees:

* `normalize` — `packaging.utils.canonicalize_name`: `re.sub(r"[-_.]+", "-", name).lower()`.
* `Requirement`, `Layout`, `render` — the PEP 508 grammar of a non-URL requirement
  (`name_req`), as a tree plus one choice for every optional-whitespace position
  (`wsp*` = spaces and tabs). `packaging.requirements.Requirement(render r l)` is, by the
  grammar, the tree `r`: name `r.name`, extras `r.extras`, specifiers `r.specs`, marker
  `r.marker`.
* `Marker`, `Marker.render`, `evalMarker` — PEP 508 markers with
  `packaging.markers.Marker.evaluate` (packaging 20.9 = what pip 21.1.3 vendors; 21.3
  is identical here) over the library's fixed environment `Gen.C16PypiEnv.markers`, and
  pip's combination over the requested extras
  (`any(marker.evaluate({"extra": e}) for e in extras or ("",))`).

PEP 440 (`Specifier(op+rhs)` validity and `Specifier.contains`) is a **parameter**
(`Packaging`): it is the subject of property C03's reference (`Ref.Pep440Spec`), not
of this file. The harness carries an executable transcription of it
(`harness/cmd/c16/pep440ref.go`) that is validated against the installed packaging.

Core Lean only (the driver does not need this file; the theorems do).
-/

namespace DepsDev.Ref.Pep508
open DepsDev

/-! ## Whitespace -/

/-- One PEP 508 `wsp*`: a list of spaces (`false`) and tabs (`true`). -/
abbrev Ws := List Bool

def wsByte (b : Bool) : UInt8 := if b then 9 else 32

def Ws.bytes (w : Ws) : Bytes := w.map wsByte

/-! ## Names -/

def isSepByte (c : UInt8) : Bool := c.toNat == 45 || c.toNat == 95 || c.toNat == 46  -- - _ .

def isAlnumByte (c : UInt8) : Bool :=
  (97 ≤ c.toNat && c.toNat ≤ 122) || (65 ≤ c.toNat && c.toNat ≤ 90) || (48 ≤ c.toNat && c.toNat ≤ 57)

/-- The alphabet of PEP 508 identifiers: `[A-Za-z0-9._-]`. -/
def isNameByte (c : UInt8) : Bool := isAlnumByte c || isSepByte c

theorem length_dropWhile_le {α} (p : α → Bool) : ∀ l : List α, (l.dropWhile p).length ≤ l.length
  | [] => Nat.le_refl _
  | a :: l => by
    simp only [List.dropWhile]
    split
    · exact Nat.le_succ_of_le (length_dropWhile_le p l)
    · exact Nat.le_refl _

/-- `re.sub(r"[-_.]+", "-", s)`: every maximal run of `- _ .` becomes one `-`. -/
def collapseRuns : Bytes → Bytes
  | [] => []
  | c :: cs =>
    if isSepByte c then 45 :: collapseRuns (cs.dropWhile isSepByte)
    else c :: collapseRuns cs
termination_by s => s.length
decreasing_by
  all_goals simp_wf
  · exact Nat.lt_succ_of_le (length_dropWhile_le _ _)

/-- `str.lower()` on ASCII. -/
def lowerByte (c : UInt8) : UInt8 := if 65 ≤ c.toNat && c.toNat ≤ 90 then c + 32 else c

/-- `packaging.utils.canonicalize_name`. -/
def normalize (name : Bytes) : Bytes := (collapseRuns name).map lowerByte

/-- A PEP 508 `identifier`: non-empty, over `[A-Za-z0-9._-]`, first and last alphanumeric. -/
def validIdentifier (n : Bytes) : Bool :=
  n.all isNameByte && (match n.head? with | some c => isAlnumByte c | none => false) &&
  (match n.getLast? with | some c => isAlnumByte c | none => false)

/-! ## Markers -/

/-- `marker_op`. -/
inductive Op where
  | le | lt | ne | eq | ge | gt | compat | arbitrary | in_ | notIn
deriving DecidableEq, Repr

def Op.text : Op → Bytes
  | .le => [60, 61] | .lt => [60] | .ne => [33, 61] | .eq => [61, 61] | .ge => [62, 61]
  | .gt => [62] | .compat => [126, 61] | .arbitrary => [61, 61, 61]
  | .in_ => [105, 110] | .notIn => [110, 111, 116, 32, 105, 110]

/-- `marker_var`: an environment variable or a quoted string (`dq`: double quotes). -/
inductive Operand where
  | var (name : Bytes)
  | lit (dq : Bool) (value : Bytes)
deriving DecidableEq, Repr

def quoteByte (dq : Bool) : UInt8 := if dq then 34 else 39

def Operand.render : Operand → Bytes
  | .var n => n
  | .lit dq v => quoteByte dq :: v ++ [quoteByte dq]

/-- A marker with the layout of one rendering. The grammar's stratification
(`marker_or` ⊃ `marker_and` ⊃ `marker_expr`) is the predicate `Marker.wf`. -/
inductive Marker where
  /-- `marker_var marker_op marker_var`: `w0 l w1 op w2 r`; `wNot` is the `wsp+` inside `not in`. -/
  | cmp (w0 : Ws) (l : Operand) (w1 : Ws) (op : Op) (wNot : Ws) (w2 : Ws) (r : Operand)
  /-- `wsp* '(' marker wsp* ')'`. -/
  | paren (w0 : Ws) (m : Marker) (w1 : Ws)
  /-- `marker_expr wsp* 'and' marker_and`. -/
  | and (l : Marker) (w : Ws) (r : Marker)
  /-- `marker_and wsp* 'or' marker_or`. -/
  | or (l : Marker) (w : Ws) (r : Marker)
deriving Repr

/-- 0 = `marker_expr`, 1 = `marker_and`, 2 = `marker_or`. -/
def Marker.level : Marker → Nat
  | .cmp .. => 0 | .paren .. => 0 | .and .. => 1 | .or .. => 2

def Op.render (op : Op) (wNot : Ws) : Bytes :=
  match op with
  | .notIn => [110, 111, 116] ++ wNot.bytes ++ [105, 110]
  | o => o.text

def Marker.render : Marker → Bytes
  | .cmp w0 l w1 op wNot w2 r => w0.bytes ++ l.render ++ w1.bytes ++ op.render wNot ++ w2.bytes ++ r.render
  | .paren w0 m w1 => w0.bytes ++ [40] ++ m.render ++ w1.bytes ++ [41]
  | .and l w r => l.render ++ w.bytes ++ [97, 110, 100] ++ r.render
  | .or l w r => l.render ++ w.bytes ++ [111, 114] ++ r.render

/-- The variables of the property ("supported variables"): the keys of the library's
`environmentVariables`. -/
def knownVariable (n : Bytes) : Bool := Gen.C16PypiEnv.envVars.any (·.1 == n)

def Operand.wf : Operand → Bool
  | .var n => knownVariable n
  | .lit dq v => !v.contains (quoteByte dq)

/-- Grammar well-formedness: stratification, `not in` has at least one blank inside, string
literals do not contain their own quote, variables are known. -/
def Marker.wf : Marker → Bool
  | .cmp _ l _ op wNot _ r => l.wf && r.wf && (op != .notIn || !wNot.isEmpty)
  | .paren _ m _ => m.wf
  | .and l _ r => l.level == 0 && r.level ≤ 1 && l.wf && r.wf
  | .or l _ r => l.level ≤ 1 && l.wf && r.wf

/-- PEP 440 as packaging implements it (parameter; see the file header). -/
structure Packaging where
  /-- `Specifier(op + rhs)`: `none` if `InvalidSpecifier`, else its `contains`. -/
  specifier : Op → Bytes → Option (Bytes → Bool)

def bytesLt : Bytes → Bytes → Bool
  | _, [] => false
  | [], _ :: _ => true
  | a :: as, b :: bs => a.toNat < b.toNat || (a == b && bytesLt as bs)

def isInfix : Bytes → Bytes → Bool      -- `sub in s`
  | sub, [] => sub.isEmpty
  | sub, c :: cs => sub.isPrefixOf (c :: cs) || isInfix sub cs

/-- `markers._eval_op(lhs, op, rhs)`; `none` = `UndefinedComparison`. -/
def evalOp (P : Packaging) (lhs : Bytes) (op : Op) (rhs : Bytes) : Option Bool :=
  match P.specifier op rhs with
  | some containsFn => some (containsFn lhs)
  | none =>
    match op with
    | .in_ => some (isInfix lhs rhs)
    | .notIn => some (!isInfix lhs rhs)
    | .lt => some (bytesLt lhs rhs)
    | .le => some (!bytesLt rhs lhs)
    | .eq => some (lhs == rhs)
    | .ne => some (lhs != rhs)
    | .ge => some (!bytesLt lhs rhs)
    | .gt => some (bytesLt rhs lhs)
    | .compat | .arbitrary => none

def extraName : Bytes := [101, 120, 116, 114, 97]

/-- The evaluation environment: the library's fixed target plus `extra`. -/
def envLookup (extra : Bytes) (name : Bytes) : Option Bytes :=
  if name == extraName then some extra
  else (Gen.C16PypiEnv.markers.find? (·.1 == name)).map (·.2)

/-- `markers._evaluate_markers` on one comparison: if the left operand is a variable it is
looked up and the right operand's text is used as is; otherwise the right operand is looked
up (`none` = `UndefinedEnvironmentName`/`UndefinedComparison`). -/
def evalCmp (P : Packaging) (extra : Bytes) (l : Operand) (op : Op) (r : Operand) : Option Bool :=
  let rtext := match r with | .var n => n | .lit _ v => v
  match l with
  | .var n => do
    let lv ← envLookup extra n
    evalOp P lv op rtext
  | .lit _ v => do
    let rv ← envLookup extra rtext
    evalOp P v op rv

/-- `Marker.evaluate({"extra": extra})`: all comparisons are evaluated (no short circuit; an
exception anywhere propagates), then `any(all(group))`. -/
def Marker.eval1 (P : Packaging) (extra : Bytes) : Marker → Option Bool
  | .cmp _ l _ op _ _ r => evalCmp P extra l op r
  | .paren _ m _ => m.eval1 P extra
  | .and l _ r => do
    let a ← l.eval1 P extra
    let b ← r.eval1 P extra
    pure (a && b)
  | .or l _ r => do
    let a ← l.eval1 P extra
    let b ← r.eval1 P extra
    pure (a || b)

/-- Python's `any(f(e) for e in es)`: stops at the first `True`; an exception before that
propagates. -/
def anyM (f : Bytes → Option Bool) : List Bytes → Option Bool
  | [] => some false
  | e :: es =>
    match f e with
    | none => none
    | some true => some true
    | some false => anyM f es

/-- pip follows a dependency guarded by `m` iff this is `some true`
(`req_install.match_markers`, `pkg_resources` `_dep_map`). -/
def evalMarker (P : Packaging) (m : Marker) (extras : List Bytes) : Option Bool :=
  anyM (m.eval1 P) (if extras.isEmpty then [[]] else extras)

/-! ## Requirements -/

/-- `version_cmp` of a requirement's specifier (no `in`). -/
def specOps : List Bytes :=
  [[60, 61], [60], [33, 61], [61, 61], [62, 61], [62], [126, 61], [61, 61, 61]]

/-- PEP 508 `version` characters: `letterOrDigit | - _ . * + !`. -/
def isVersionByte (c : UInt8) : Bool :=
  isAlnumByte c || isSepByte c || c.toNat == 42 || c.toNat == 43 || c.toNat == 33

/-- `version_one` without its surrounding blanks: operator, blanks, version. -/
structure Spec where
  op : Bytes
  w : Ws
  version : Bytes
deriving Repr

def Spec.render (s : Spec) : Bytes := s.op ++ s.w.bytes ++ s.version

def Spec.wf (s : Spec) : Bool := specOps.contains s.op && !s.version.isEmpty && s.version.all isVersionByte

/-- A non-URL requirement (`name_req`) with the layout of one rendering. Every `Ws`
field sits immediately before a token; `wTrail` is the blank run at the very end, so
every PEP 508 rendering of the tree is obtained for exactly one layout. -/
structure Requirement where
  wLead : Ws
  name : Bytes
  /-- `'[' wsp* (identifier (wsp* ',' wsp* identifier)*)? wsp* ']'`; `none` = no brackets. -/
  extras : Option (Ws × Ws × Option (Bytes × List (Ws × Ws × Bytes)) × Ws)
  /-- first spec and `(wsp* ',' wsp* spec)*`, optionally in parentheses with inner blanks. -/
  specs : Option (Ws × Option (Ws × Ws) × Spec × List (Ws × Ws × Spec))
  /-- `wsp* ';' wsp* marker` (the marker's own rendering starts with its leading blanks). -/
  marker : Option (Ws × Marker)
  wTrail : Ws
deriving Repr

def renderExtraList : Option (Bytes × List (Ws × Ws × Bytes)) → Bytes
  | none => []
  | some (e, rest) => e ++ (rest.map fun (a, b, x) => a.bytes ++ [44] ++ b.bytes ++ x).flatten

def renderSpecList (s : Spec) (rest : List (Ws × Ws × Spec)) : Bytes :=
  s.render ++ (rest.map fun (a, b, x) => a.bytes ++ [44] ++ b.bytes ++ x.render).flatten

/-- The specifier part as written: bare, or `'(' wsp* … wsp* ')'`. -/
def renderSpecBody (p : Option (Ws × Ws)) (s : Spec) (rest : List (Ws × Ws × Spec)) : Bytes :=
  match p with
  | none => renderSpecList s rest
  | some (a, b) => [40] ++ a.bytes ++ renderSpecList s rest ++ b.bytes ++ [41]

/-- The specifier list without the parentheses. -/
def specInner (p : Option (Ws × Ws)) (s : Spec) (rest : List (Ws × Ws × Spec)) : Bytes :=
  match p with
  | none => renderSpecList s rest
  | some (a, b) => a.bytes ++ renderSpecList s rest ++ b.bytes

/-- The text between the brackets without its surrounding blanks. -/
def Requirement.extrasText (r : Requirement) : Bytes :=
  match r.extras with
  | none => []
  | some (_, _, xs, _) => renderExtraList xs

/-- The specifier list as text (without enclosing parentheses). -/
def Requirement.specText (r : Requirement) : Bytes :=
  match r.specs with
  | none => []
  | some (_, p, s, rest) => specInner p s rest

/-- The marker as written, without the blanks around it (`[]` when there is none). -/
def Requirement.markerText (r : Requirement) (trim : Bytes → Bytes) : Bytes :=
  match r.marker with
  | none => []
  | some (_, m) => trim m.render

def Requirement.render (r : Requirement) : Bytes :=
  r.wLead.bytes ++ r.name ++
  (match r.extras with
   | none => []
   | some (w, a, xs, b) => w.bytes ++ [91] ++ a.bytes ++ renderExtraList xs ++ b.bytes ++ [93]) ++
  (match r.specs with
   | none => []
   | some (w, p, s, rest) => w.bytes ++ renderSpecBody p s rest) ++
  (match r.marker with
   | none => []
   | some (w, m) => w.bytes ++ [59] ++ m.render) ++
  r.wTrail.bytes

/-- The lists of the tree (what packaging's `Requirement` object holds). -/
def Requirement.extrasList (r : Requirement) : List Bytes :=
  match r.extras with
  | some (_, _, some (e, rest), _) => e :: rest.map (·.2.2)
  | _ => []

def Requirement.specList (r : Requirement) : List (Bytes × Bytes) :=
  match r.specs with
  | some (_, _, s, rest) => (s.op, s.version) :: rest.map fun x => (x.2.2.op, x.2.2.version)
  | none => []

def Requirement.wf (r : Requirement) : Bool :=
  validIdentifier r.name &&
  r.extrasList.all validIdentifier &&
  (match r.specs with
   | some (_, _, s, rest) => s.wf && rest.all (·.2.2.wf)
   | none => true) &&
  (match r.marker with
   | some (_, m) => m.wf
   | none => true)

end DepsDev.Ref.Pep508
