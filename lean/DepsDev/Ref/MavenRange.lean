import DepsDev.Ref.Pep440Spec

/-!
# Ref: Maven version ranges (`VersionRange.createFromVersionSpec(..).containsVersion`)

Transcribed from maven-artifact 3.8 (`VersionRange`, `Restriction`,
`ComparableVersion`): a spec is a bare version (a *soft* requirement whose only
restriction is `Restriction.EVERYTHING`) or a comma-separated list of bracketed
restrictions; a version is contained if some restriction contains it.
Versions are restricted to the shape `N(.N)*[-qualifier[-N]]` with the well-known
qualifiers, on which `ComparableVersion` is: numbers with zero padding, then the
qualifier's rank (`alpha < beta < milestone < rc < snapshot < "" < sp`), then the
qualifier's number.
-/
namespace DepsDev.Ref

inductive MvnQual where
  | alpha | beta | milestone | rc | snapshot | release | sp
  deriving Repr, DecidableEq, Inhabited

def MvnQual.rank : MvnQual → Nat
  | .alpha => 0 | .beta => 1 | .milestone => 2 | .rc => 3 | .snapshot => 4 | .release => 5 | .sp => 6

structure MvnVer where
  nums : List Nat
  qual : MvnQual := .release
  qn : Nat := 0
  deriving Repr, DecidableEq, Inhabited

def MvnVer.cmp (a b : MvnVer) : Ordering :=
  (cmpRelease a.nums b.nums).then <| (compare a.qual.rank b.qual.rank).then (compare a.qn b.qn)

/-- An item of a spec. -/
inductive MvnItem where
  | soft (v : MvnVer)                                             -- bare version
  | exact (v : MvnVer)                                            -- `[v]`
  | range (loInc hiInc : Bool) (lo hi : Option MvnVer)            -- `[lo,hi)` etc.
  deriving Repr, DecidableEq, Inhabited

abbrev MvnRange := List MvnItem

def MvnItem.lower : MvnItem → Option MvnVer
  | .soft _ => none | .exact v => some v | .range _ _ lo _ => lo
def MvnItem.upper : MvnItem → Option MvnVer
  | .soft _ => none | .exact v => some v | .range _ _ _ hi => hi

/-- `Restriction.containsVersion`. -/
def MvnItem.contains : MvnItem → MvnVer → Bool
  | .soft _, _ => true
  | .exact b, v => b.cmp v == .eq
  | .range loInc hiInc lo hi, v =>
    (match lo with
     | some l => let c := l.cmp v; !(c == .gt || (c == .eq && !loInc))
     | none => true) &&
    (match hi with
     | some h => let c := h.cmp v; !(c == .lt || (c == .eq && !hiInc))
     | none => true)

/-- `VersionRange.containsVersion`. -/
def MavenRange.contains (r : MvnRange) (v : MvnVer) : Bool := r.any (·.contains v)

/-- The checks of `parseRestriction` on one item. -/
def MvnItem.wellFormed : MvnItem → Bool
  | .range loInc hiInc (some lo) (some hi) =>
    let c := hi.cmp lo
    !(c == .lt || (c == .eq && (!loInc || !hiInc)))
  | .soft _ => false
  | _ => true

/-- The "Ranges overlap" check of `createFromVersionSpec`: every later item needs a
lower bound not below the previous item's upper bound (when that one has one). -/
def mvnOrdered : Option MvnVer → List MvnItem → Bool
  | _, [] => true
  | upper, it :: rest =>
    (match upper with
     | some u => (match it.lower with | some l => l.cmp u != .lt | none => false)
     | none => true) && mvnOrdered it.upper rest

/-- What `createFromVersionSpec` accepts: a bare version alone, or well-formed
restrictions in ascending order. -/
def MavenRange.valid (r : MvnRange) : Bool :=
  match r with
  | [] => false
  | [.soft _] => true
  | .soft _ :: _ => false
  | items => items.all (·.wellFormed) && mvnOrdered none items

/-- The candidate orders below `0`. -/
def MvnVer.belowZero (v : MvnVer) : Bool := v.cmp { nums := [0] } == .lt

namespace MavenRange

/-- An item without lower bound whose upper bound orders below `0`. -/
def upperBelowZero (r : MvnRange) : Bool :=
  r.any fun it => match it with
    | .range _ _ none (some h) => h.belowZero
    | _ => false

def classes (r : MvnRange) (v : MvnVer) : List String :=
  if v.belowZero || upperBelowZero r then ["F-C03-mvn-neg"] else []

end MavenRange

end DepsDev.Ref
