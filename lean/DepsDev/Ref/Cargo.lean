import DepsDev.Ref.Npm

/-!
# Reference: the Rust `semver` crate — `Version::cmp_precedence`

The crate's `Ord for Version` additionally orders build metadata (so that `Ord` is
consistent with `Eq`); the SemVer precedence — what Cargo's resolver uses to pick
"the greatest matching version", and what property C01 demands (build metadata never
changes the result) — is `Version::cmp_precedence`:

```rust
pub fn cmp_precedence(&self, other: &Self) -> Ordering {
    Ord::cmp(&(self.major, self.minor, self.patch, &self.pre),
             &(other.major, other.minor, other.patch, &other.pre))
}
```
with `Ord for Prerelease`: empty is greatest; otherwise identifier by identifier, both
numeric ⇒ by length of the digit string then by the digits (= numerically, since there
are no leading zeros), numeric < alphanumeric, both alphanumeric ⇒ byte order, and a
proper prefix is lower. That is `SemVer.precedence`. The parser accepts exactly the
SemVer grammar (`Ast.valid`), numbers up to `u64::MAX`. Core Lean only.
-/
namespace DepsDev.Ref.Cargo
abbrev Ast := SemVer.Ast
def cmpPrecedence : Ast → Ast → Ordering := SemVer.precedence
def render : Ast → Bytes := SemVer.render
end DepsDev.Ref.Cargo
