import DepsDev.Model.Maven.Types
import DepsDev.Model.Maven.Interp
import DepsDev.Gen.C15Consts

/-!
# Reference semantics: Maven's model building algorithm on the POM subset of C15

A transcription, at the level of the abstract syntax tree, of what
`maven-model-builder` (3.8.x, `DefaultModelBuilder.build`, minimal validation
level as used for dependency POMs) does to obtain the dependencies and managed
dependencies of the effective model:

1. per raw model: `mergeDuplicates`, profile activation, profile injection (profile wins);
2. inheritance assembly from the root ancestor down (child wins, keyed merge);
3. interpolation (`project.*`/`pom.*` model values, then properties, then bare model
   values; recursive, a cycle is an error; an unknown expression stays verbatim);
4. dependency management import (own entries win, an earlier import wins,
   imported models are built by the same algorithm: depth first);
5. management injection (version, scope, exclusions when absent);
6. effective model validation (ids, versions) — `none` = Maven reports an error.

This is the specification the Go pipeline is compared with. It shares only the
AST types and two generic string scanners with the model of the Go code. Its
fidelity to Maven is validated (not proved) by running Maven's own
`DefaultModelBuilder` on rendered lineages (harness/cmd/c15/maven.go), through
the Go twin of this file (harness/cmd/c15/ref.go, compared with it by the `ref` op).
-/
namespace DepsDev.Ref.MavenModel
open DepsDev DepsDev.Model.Maven

/-- The JDK and OS the profiles are activated for. -/
structure Env where
  jdk : List Nat
  osName : Bytes
  osArch : Bytes
  osVersion : Bytes

/-- The environment the library hard-codes (`JDKProfileActivation`, `OSProfileActivation`). -/
def libEnv : Env :=
  ⟨Gen.C15Consts.jdkProfileActivation, Gen.C15Consts.osName, Gen.C15Consts.osArch, Gen.C15Consts.osVersion⟩

/-! ## Keyed merging (`ModelMerger.merge` with a `LinkedHashMap`) -/

/-- `Dependency.getManagementKey`: groupId:artifactId:type[:classifier], type defaults to jar -/
def mkey (d : Dep) : DepKey := ⟨d.g, d.a, if d.typ.isEmpty then bJar else d.typ, d.cls⟩

/-- `map.put` (replace = true) / `map.putIfAbsent` (replace = false) keeping the first position -/
def put (replace : Bool) : List Dep → Dep → List Dep
  | [], d => [d]
  | x :: xs, d => if mkey x = mkey d then (if replace then d :: xs else x :: xs) else x :: put replace xs d

/-- `DefaultModelNormalizer.mergeDuplicates`: the last declaration wins, at the first position -/
def mergeDuplicates (ds : List Dep) : List Dep := ds.foldl (put true) []

/-- `ModelMerger.merge(target, source, sourceDominant)` -/
def mergeKeyed (tgt src : List Dep) (srcDominant : Bool) : List Dep :=
  if src.isEmpty then tgt else src.foldl (put srcDominant) (mergeDuplicates tgt)

/-- `Properties.putAll` -/
def putProps (base over : List (Bytes × Bytes)) : List (Bytes × Bytes) :=
  over.foldl (fun m kv => Dict.insert m kv.1 kv.2) base

/-! ## Profile activation (`JdkVersionProfileActivator`, `OperatingSystemProfileActivator`) -/

/-- decimal digits, most significant first (`fuel` = an upper bound on their number) -/
def digits : Nat → Nat → Bytes → Bytes
  | 0, _, acc => acc
  | fuel + 1, n, acc =>
    let acc := (48 + n % 10).toUInt8 :: acc
    if n < 10 then acc else digits fuel (n / 10) acc

def natText (n : Nat) : Bytes := digits (n + 1) n []

/-- `11.0.8` -/
def numsText : List Nat → Bytes
  | [] => []
  | [x] => natText x
  | x :: xs => natText x ++ 46 :: numsText xs

def numAt : List Nat → Nat → Nat
  | [], _ => 0
  | x :: _, 0 => x
  | _ :: xs, i + 1 => numAt xs i

/-- `getRelationOrder`: only the first three numbers count -/
def cmp3 (a b : List Nat) : Ordering :=
  if numAt a 0 ≠ numAt b 0 then compare (numAt a 0) (numAt b 0)
  else if numAt a 1 ≠ numAt b 1 then compare (numAt a 1) (numAt b 1)
  else compare (numAt a 2) (numAt b 2)

def jdkActive (env : Env) : Jdk → Bool
  | .absent => false
  | .simple neg v =>
    -- `version.startsWith(jdk)`, negated by a leading `!`
    let pre := (numsText v).isPrefixOf (numsText env.jdk)
    if neg then !pre else pre
  | .range loIncl lo hi hiIncl =>
    -- `isInRange`: equal to a closed lower bound: inside; below it: outside; else the upper bound decides
    let left : Ordering := match lo with
      | none => .gt
      | some l => match cmp3 env.jdk l with
        | .eq => if loIncl then .eq else .lt
        | o => o
    match left with
    | .eq => true
    | .lt => false
    | .gt =>
      match hi with
      | none => true
      | some h => match cmp3 env.jdk h with
        | .lt => true
        | .eq => hiIncl
        | .gt => false

def toLower (b : Bytes) : Bytes := b.map fun c => if 65 ≤ c ∧ c ≤ 90 then c + 32 else c

/-- `strings.Contains` -/
def containsSub : Bytes → Bytes → Bool
  | [], sub => sub.isEmpty
  | c :: rest, sub => sub.isPrefixOf (c :: rest) || containsSub rest sub

def bWindows : Bytes := [119, 105, 110, 100, 111, 119, 115]
def bMac : Bytes := [109, 97, 99]
def bDarwin : Bytes := [100, 97, 114, 119, 105, 110]
def bUnix : Bytes := [117, 110, 105, 120]
def bOpenvms : Bytes := [111, 112, 101, 110, 118, 109, 115]

/-- plexus `Os.isFamily` for the families that can hold of a given `os.name` -/
def familyIs (fam osName : Bytes) : Bool :=
  let f := toLower fam
  let mac := containsSub osName bMac || containsSub osName bDarwin
  if f = bWindows then containsSub osName bWindows
  else if f = bMac then mac
  else if f = bUnix then !containsSub osName bOpenvms && (!mac || [120].isSuffixOf osName)
  else containsSub osName f

/-- a leading `!` negates the test -/
def negated (spec : Bytes) (test : Bytes → Bool) : Bool :=
  match spec with
  | 33 :: rest => !test rest
  | _ => test spec

def osActive (env : Env) (o : OS) : Bool :=
  (o.family.isEmpty || negated o.family (familyIs · env.osName)) &&
  (o.name.isEmpty || negated o.name (toLower · == env.osName)) &&
  (o.arch.isEmpty || negated o.arch (toLower · == env.osArch)) &&
  (o.version.isEmpty || negated o.version (toLower · == env.osVersion))

def osBlank (o : OS) : Bool := o.name.isEmpty && o.family.isEmpty && o.arch.isEmpty && o.version.isEmpty

/-- `DefaultProfileSelector.isActive`: every activator present in the profile must agree -/
def activated (env : Env) (f : Profile) : Bool :=
  let jdkPresent := f.jdk != .absent
  let osPresent := !osBlank f.os
  (jdkPresent || osPresent) && (!jdkPresent || jdkActive env f.jdk) && (!osPresent || osActive env f.os)

/-- `getActiveProfiles`: the activated profiles, or else the ones active by default -/
def activeProfiles (env : Env) (p : Project) : List Profile :=
  let active := p.profiles.filter (activated env)
  if active.isEmpty then p.profiles.filter fun f => !activated env f && f.abd == bTrue else active

/-! ## The model under construction -/

structure RModel where
  g : Bytes
  a : Bytes
  v : Bytes
  parent : Key
  packaging : Bytes
  props : List (Bytes × Bytes)
  deps : List Dep
  mgmt : List Dep

/-- step 1: normalisation and profile injection for one raw model -/
def injectProfiles (env : Env) (p : Project) : RModel :=
  (activeProfiles env p).foldl
    (fun m f => { m with props := putProps m.props f.props,
                         deps := mergeKeyed m.deps f.deps true,
                         mgmt := mergeKeyed m.mgmt f.mgmt true })
    ⟨p.g, p.a, p.v, p.parent, p.packaging, putProps [] p.props, mergeDuplicates p.deps, p.mgmt⟩

/-- step 2: inheritance assembly, the child wins -/
def inherit (child parent : RModel) : RModel :=
  { child with
    g := if child.g.isEmpty then parent.g else child.g
    v := if child.v.isEmpty then parent.v else child.v
    props := putProps parent.props child.props
    deps := mergeKeyed child.deps parent.deps false
    mgmt := mergeKeyed child.mgmt parent.mgmt false }

/-! ## Step 3: interpolation -/

inductive Seg where
  | lit (b : Bytes)
  | ph (expr : Bytes)

/-- Split a string into literal text and `${expr}` placeholders (the first `}` closes;
an unclosed `${` is literal text). `lit` is the literal text read so far, `ex` the
expression being read. -/
def scan : Bytes → Bytes → Option Bytes → List Seg
  | [], lit, none => [.lit lit]
  | [], lit, some e => [.lit (lit ++ cDollar :: cOpen :: e)]
  | [c], lit, none => [.lit (lit ++ [c])]
  | c :: c2 :: rest, lit, none =>
    if c = cDollar ∧ c2 = cOpen then scan rest lit (some []) else scan (c2 :: rest) (lit ++ [c]) none
  | c :: rest, lit, some e =>
    if c = cClose then .lit lit :: .ph e :: scan rest [] none else scan rest lit (some (e ++ [c]))

def segments (s : Bytes) : List Seg := scan s [] none

def bPomDot : Bytes := [112, 111, 109, 46]
def bProjectDot : Bytes := [112, 114, 111, 106, 101, 99, 116, 46]

/-- the expression without its `pom.` / `project.` prefix -/
def trimPrefix (e : Bytes) : Bytes :=
  if bPomDot.isPrefixOf e then e.drop 4 else if bProjectDot.isPrefixOf e then e.drop 8 else e

def bGroupId : Bytes := [103, 114, 111, 117, 112, 73, 100]
def bArtifactId : Bytes := [97, 114, 116, 105, 102, 97, 99, 116, 73, 100]
def bVersion : Bytes := [118, 101, 114, 115, 105, 111, 110]
def bPackaging : Bytes := [112, 97, 99, 107, 97, 103, 105, 110, 103]
def bParentGroupId : Bytes := [112, 97, 114, 101, 110, 116, 46, 103, 114, 111, 117, 112, 73, 100]
def bParentArtifactId : Bytes := [112, 97, 114, 101, 110, 116, 46, 97, 114, 116, 105, 102, 97, 99, 116, 73, 100]
def bParentVersion : Bytes := [112, 97, 114, 101, 110, 116, 46, 118, 101, 114, 115, 105, 111, 110]

/-- the model object as a value source (`null` for an absent value) -/
def objPath (m : RModel) (p : Bytes) : Option Bytes :=
  let v :=
    if p = bGroupId then m.g
    else if p = bArtifactId then m.a
    else if p = bVersion then m.v
    else if p = bPackaging then (if m.packaging.isEmpty then bJar else m.packaging)
    else if p = bParentGroupId then m.parent.g
    else if p = bParentArtifactId then m.parent.a
    else if p = bParentVersion then m.parent.v
    else []
  if v.isEmpty then none else some v

/-- value sources in Maven's order: the model under `project.`/`pom.`, the properties, the bare model -/
def lookup (m : RModel) (e : Bytes) : Option Bytes :=
  let t := trimPrefix e
  match (if t ≠ e then objPath m t else none) with
  | some v => some v
  | none =>
    match List.lookup e m.props with
    | some v => some v
    | none => objPath m e

/-- `StringSearchInterpolator`: `none` = expression cycle (an error for Maven). `fuel`
bounds the nesting depth; `props.length + 24` is never exhausted
(the expressions under expansion are pairwise distinct and each one resolved: property names, or one of 7 model paths bare or prefixed). Maven
interpolates the property values themselves first (in place), so the prefix awareness of its
recursion interceptor never turns `${version}` → `${project.version}` into a cycle: a stack
of the raw expressions gives the same outcome. -/
def interp (m : RModel) : Nat → List Bytes → Bytes → Option Bytes
  | 0, _, _ => none
  | fuel + 1, stack, s =>
    (segments s).foldl (fun acc seg =>
      match acc with
      | none => none
      | some out =>
        match seg with
        | .lit l => some (out ++ l)
        | .ph e =>
          if stack.contains e then none
          else match lookup m e with
            | some v => (interp m fuel (e :: stack) v).map (out ++ ·)
            | none => some (out ++ cDollar :: cOpen :: e ++ [cClose])) (some [])

def interpTop (m : RModel) (s : Bytes) : Option Bytes := interp m (m.props.length + 24) [] s

def interpDep (m : RModel) (d : Dep) : Option Dep := do
  let g ← interpTop m d.g
  let a ← interpTop m d.a
  let v ← interpTop m d.v
  let typ ← interpTop m d.typ
  let cls ← interpTop m d.cls
  let scope ← interpTop m d.scope
  let opt ← interpTop m d.opt
  let excl ← d.excl.mapM fun e => do
    let eg ← interpTop m e.g
    let ea ← interpTop m e.a
    pure (⟨eg, ea⟩ : Exclusion)
  pure ⟨g, a, v, typ, cls, scope, opt, excl⟩

/-! ## Steps 4-6 -/

/-- `[A-Za-z0-9_.-]+` -/
def validId (s : Bytes) : Bool :=
  !s.isEmpty && s.all fun c =>
    (97 ≤ c && c ≤ 122) || (65 ≤ c && c ≤ 90) || (48 ≤ c && c ≤ 57) || c == 95 || c == 46 || c == 45

def isImport (d : Dep) : Bool := d.typ == bPom && d.scope == bImport

/-- management injection into one dependency -/
def fill (d md : Dep) : Dep :=
  { d with
    v := if d.v.isEmpty then md.v else d.v
    scope := if d.scope.isEmpty then md.scope else d.scope
    excl := if d.excl.isEmpty then md.excl else d.excl }

/-- a managed entry applies to the dependency its key maps to (the last one with that key) -/
def fillLast (md : Dep) : List Dep → List Dep × Bool
  | [] => ([], false)
  | d :: rest =>
    let r := fillLast md rest
    if r.2 then (d :: r.1, true)
    else if mkey d = mkey md then (fill d md :: r.1, true)
    else (d :: r.1, false)

/-- the project and its ancestors, child first (`none`: unresolvable, cyclic or non-pom parent) -/
def chain (repo : List Project) : Nat → List Key → Project → Option (List Project)
  | fuel, seen, p =>
    if p.parent = ⟨[], [], []⟩ then some [p]
    else match fuel with
      | 0 => none
      | fuel + 1 =>
        let k := p.parent
        if k.g.isEmpty || k.a.isEmpty || k.v.isEmpty then none
        else if seen.contains k then none
        else match fetch repo k with
          | none => none
          | some par => if par.packaging ≠ bPom then none else (chain repo fuel (k :: seen) par).map (p :: ·)

/-- steps 1 and 2 for a chain (child first) -/
def assemble (env : Env) : List Project → Option RModel
  | [] => none
  | [p] => some (injectProfiles env p)
  | p :: rest => (assemble env rest).map (inherit (injectProfiles env p))

/-- The effective model of `p`. `importing` = the models an import chain is coming from. -/
def effectiveModel (L : Lineage) (env : Env) : Nat → List Key → Project → Option RModel
  | 0, _, _ => none
  | fuel + 1, importing, p => do
    let ch ← chain L.repo (L.repo.length + 1) [] p
    let m ← assemble env ch
    -- interpolation
    let deps ← m.deps.mapM (interpDep m)
    let mgmt ← m.mgmt.mapM (interpDep m)
    let g ← interpTop m m.g
    let v ← interpTop m m.v
    let m := { m with deps := deps, mgmt := mgmt, g := g, v := v }
    -- import: own entries first, then every import in order; first wins
    let self : Key := ⟨m.g, m.a, m.v⟩
    let own := m.mgmt.filter (!isImport ·)
    let imported ← (m.mgmt.filter isImport).mapM fun d =>
      let k : Key := ⟨d.g, d.a, d.v⟩
      if k.g.isEmpty || k.a.isEmpty || k.v.isEmpty || k = self || importing.contains k then none
      else match fetch L.repo k with
        | none => none
        | some bom => (effectiveModel L env fuel (self :: importing) bom).map (·.mgmt)
    let mgmt := if imported.isEmpty then own
                else imported.foldl (fun acc im => mergeKeyed acc im false) (mergeDuplicates own)
    -- management injection
    let deps := mgmt.foldl (fun ds md => (fillLast md ds).1) m.deps
    let m := { m with deps := deps, mgmt := mgmt }
    -- validation of the effective model
    if !validId m.g || !validId m.a || m.v.isEmpty then none
    else if m.deps.any (fun d => !validId d.g || !validId d.a || d.v.isEmpty) then none
    else if m.mgmt.any (fun d => !validId d.g || !validId d.a) then none
    else pure m

/-- Dependencies and managed dependencies of the effective model of the lineage's project. -/
def effectiveIn (env : Env) (L : Lineage) : Option (List Dep × List Dep) :=
  (effectiveModel L env (L.repo.length + 2) [] L.root).map fun m => (m.deps, m.mgmt)

/-- … in the environment the library assumes. -/
def effective (L : Lineage) : Option (List Dep × List Dep) := effectiveIn libEnv L

/-- Representation: Maven writes the default scope into dependencies and reads an absent
`optional` as false; two results are the same model when they agree after this. -/
def canonDep (isDep : Bool) (d : Dep) : Dep :=
  { d with
    typ := if d.typ.isEmpty then bJar else d.typ
    scope := if isDep && d.scope.isEmpty then bCompile else d.scope
    opt := if d.opt.isEmpty then bFalse else d.opt }

def canon (r : List Dep × List Dep) : List Dep × List Dep :=
  (r.1.map (canonDep true), r.2.map (canonDep false))

end DepsDev.Ref.MavenModel
