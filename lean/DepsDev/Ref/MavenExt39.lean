import DepsDev.Ref.MavenCV

/-!
# Reference extension: `ComparableVersion` of Maven 3.8.7 / 3.9.x

`Ref/MavenCV.lean` specifies the release line the library names (3.6.x – 3.8.6). Maven 3.8.7
and 3.9.0 changed `parseVersion` in one place (MNG-7559, "`1.0.0.X1 < 1.0.0-X2`: treat `.X`
as `-X` for any string qualifier `X`"): when a word is directly followed by a digit, or is the
last token, and the current list already holds an item, a new sub-list is opened *before* the
word is added:

```java
} else if (Character.isDigit(c)) {
    if (!isDigit && i > startIndex) {
        if (!list.isEmpty()) { list.add(list = new ListItem()); stack.push(list); }   // new in 3.8.7
        list.add(new StringItem(version.substring(startIndex, i), true));
        startIndex = i;
        list.add(list = new ListItem()); stack.push(list);
    }
    isDigit = true;
}
…
if (version.length() > startIndex) {
    if (!isDigit && !list.isEmpty()) { list.add(list = new ListItem()); stack.push(list); }   // new in 3.8.7
    list.add(parseItem(isDigit, version.substring(startIndex)));
}
```

Items, `normalize` and `compareTo` are those of `Ref/MavenCV.lean`. Transcribed from my reading
of the source; there is no Maven in this sandbox to validate it against. Core Lean only.
-/
namespace DepsDev.Ref.MavenCV39

open DepsDev.Ref.MavenCV

/-- `parseVersion` of 3.8.7+ on tokens; `nonEmpty`: the current list already holds an item. -/
def parseFrom39 (nonEmpty : Bool) (t : Tok) : List (Sep × Tok) → List Item
  | [] =>
    match t with
    | .num n => [.int n]
    | .word w => if nonEmpty then [.list [stringItem w false]] else [stringItem w false]
  | (s, t') :: rest =>
    let digitNext := match t' with | .num _ => true | .word _ => false
    match t with
    | .num n =>
      (match s with
       | .dot => .int n :: parseFrom39 true t' rest
       | _ => [.int n, .list (parseFrom39 false t' rest)])
    | .word w =>
      if s == .trans && digitNext then
        (if nonEmpty then [.list [stringItem w true, .list (parseFrom39 false t' rest)]]
         else [stringItem w true, .list (parseFrom39 false t' rest)])
      else
        (match s with
         | .dot => stringItem w false :: parseFrom39 true t' rest
         | _ => [stringItem w false, .list (parseFrom39 false t' rest)])

/-- `new ComparableVersion(v).items` (3.8.7+). -/
def items (a : Ast) : Item :=
  let (t, rest) := tokens a
  normItem (.list (parseFrom39 false t rest))

def compare (a b : Ast) : Ordering := cmp (items a) (items b)

end DepsDev.Ref.MavenCV39
