import DepsDev.Ref.Npm

/-!
# Reference: PEP 440 ordering — `packaging.version._cmpkey`

```python
def _cmpkey(epoch, release, pre, post, dev, local):
    _release = tuple(reversed(list(itertools.dropwhile(lambda x: x == 0, reversed(release)))))
    if pre is None and post is None and dev is not None: _pre = NegativeInfinity
    elif pre is None:                                      _pre = Infinity
    else:                                                  _pre = pre        # ("a"|"b"|"rc", N)
    _post  = NegativeInfinity if post is None else post                      # ("post", N)
    _dev   = Infinity         if dev  is None else dev                       # ("dev", N)
    if local is None: _local = NegativeInfinity
    else: _local = tuple((i, "") if isinstance(i, int) else (NegativeInfinity, i) for i in local)
    return epoch, _release, _pre, _post, _dev, _local
```
Versions compare as these tuples (Python tuple order: first difference decides, a proper
prefix is lower). The parser normalises spellings (`alpha`→`a`, `c|pre|preview`→`rc`,
`rev|r|-N`→`post`, separators, a leading `v`, case) and lower-cases the alphanumeric
segments of the local version (`part.lower() if not part.isdigit() else int(part)`).
The tree below is the parsed `_Version` except that local string segments are kept as
spelled, so that the lower-casing is part of the specification. Core Lean only.
-/
namespace DepsDev.Ref.Pep440

inductive PreKind where
  | a | b | rc
  deriving Repr, DecidableEq

/-- `"a" < "b" < "rc"` (string order of the normalised letters). -/
def PreKind.idx : PreKind → Nat
  | .a => 0 | .b => 1 | .rc => 2

inductive LocalSeg where
  | num (n : Nat)
  | str (s : Bytes)
  deriving Repr, DecidableEq

structure Ast where
  epoch : Nat := 0
  release : List Nat
  pre : Option (PreKind × Nat) := none
  post : Option Nat := none
  dev : Option Nat := none
  loc : List LocalSeg := []
  deriving Repr, DecidableEq

/-- A value or one of packaging's `NegativeInfinity` / `Infinity` sentinels. -/
inductive Inf (α : Type) where
  | neg
  | fin (a : α)
  | pos
  deriving Repr

def Inf.cmp {α} (c : α → α → Ordering) : Inf α → Inf α → Ordering
  | .neg, .neg => .eq
  | .neg, .fin _ => .lt
  | .neg, .pos => .lt
  | .fin _, .neg => .gt
  | .fin a, .fin b => c a b
  | .fin _, .pos => .lt
  | .pos, .neg => .gt
  | .pos, .fin _ => .gt
  | .pos, .pos => .eq

def lower (c : UInt8) : UInt8 := if 65 ≤ c && c ≤ 90 then c + 32 else c

def dropTrailingZeros (l : List Nat) : List Nat := (l.reverse.dropWhile (· == 0)).reverse

structure Key where
  epoch : Nat
  release : List Nat
  pre : Inf (Nat × Nat)
  post : Inf Nat
  dev : Inf Nat
  loc : Inf (List (Inf Nat × Bytes))

def localKey : LocalSeg → Inf Nat × Bytes
  | .num n => (.fin n, [])
  | .str s => (.neg, s.map lower)

/-- `_cmpkey`. -/
def key (v : Ast) : Key where
  epoch := v.epoch
  release := dropTrailingZeros v.release
  pre := match v.pre, v.post, v.dev with
    | none, none, some _ => .neg
    | none, _, _ => .pos
    | some (k, n), _, _ => .fin (k.idx, n)
  post := match v.post with | none => .neg | some n => .fin n
  dev := match v.dev with | none => .pos | some n => .fin n
  loc := match v.loc with | [] => .neg | l => .fin (l.map localKey)

def pairCmp {α β} (c₁ : α → α → Ordering) (c₂ : β → β → Ordering) (x y : α × β) : Ordering :=
  (c₁ x.1 y.1).then (c₂ x.2 y.2)

def bytesCmp : Bytes → Bytes → Ordering := List.compareLex Ord.compare

def natCmp : Nat → Nat → Ordering := Ord.compare

/-- Tuple order on keys. -/
def Key.cmp (x y : Key) : Ordering :=
  (natCmp x.epoch y.epoch).then <|
  (List.compareLex natCmp x.release y.release).then <|
  (Inf.cmp (pairCmp natCmp natCmp) x.pre y.pre).then <|
  (Inf.cmp natCmp x.post y.post).then <|
  (Inf.cmp natCmp x.dev y.dev).then <|
  Inf.cmp (List.compareLex (pairCmp (Inf.cmp natCmp) bytesCmp)) x.loc y.loc

def compare (a b : Ast) : Ordering := Key.cmp (key a) (key b)

def isAlnum (c : UInt8) : Bool := isDigit c || isLetter c

/-- A local string segment: alphanumeric with at least one letter. -/
def LocalSeg.valid : LocalSeg → Bool
  | .num _ => true
  | .str s => !s.isEmpty && s.all isAlnum && s.any isLetter

def Ast.valid (v : Ast) : Bool := !v.release.isEmpty && v.loc.all LocalSeg.valid

def PreKind.render : PreKind → Bytes
  | .a => [97] | .b => [98] | .rc => [114, 99]

def LocalSeg.render : LocalSeg → Bytes
  | .num n => dec n
  | .str s => s

/-- `str(Version)`: the normal form (when the local strings are lower-case). -/
def render (v : Ast) : Bytes :=
  (if v.epoch = 0 then [] else dec v.epoch ++ [33]) ++
  joinSep 46 (v.release.map dec) ++
  (match v.pre with | none => [] | some (k, n) => k.render ++ dec n) ++
  (match v.post with | none => [] | some n => [46, 112, 111, 115, 116] ++ dec n) ++
  (match v.dev with | none => [] | some n => [46, 100, 101, 118] ++ dec n) ++
  (if v.loc.isEmpty then [] else 43 :: joinSep 46 (v.loc.map LocalSeg.render))

end DepsDev.Ref.Pep440
