/-!
# Ref: npm ranges (node-semver 7 `satisfies`, options `{}`) on ASTs

A transcription of node-semver's documented range semantics
(https://github.com/npm/node-semver#ranges, `classes/range.js`): every `||`
alternative is desugared into a set of primitive comparators (`hyphenReplace`,
`replaceCarets`, `replaceTildes`, `replaceXRanges`, `replaceStars`,
`replaceGTE0`), a version satisfies the range if it satisfies every comparator
of some set, and a prerelease version additionally needs a comparator of that
set with the same `[major, minor, patch]` that itself has a prerelease. Also
transcribed: the `Range` constructor's null-set filtering and its collapse of a
range that contains a `*` alternative to `*`.

No string parsing: ranges and versions are ASTs. Core Lean only.
The AST types are shared with `Ref.CargoReq`.
-/
namespace DepsDev.Ref

/-- A prerelease identifier: numeric or alphanumeric (`[0-9A-Za-z-]+`, not all digits). -/
inductive Ident where
  | num (n : Nat)
  | alnum (s : String)
  deriving Repr, DecidableEq, Inhabited

/-- A SemVer 2.0 version without build metadata (which no comparison reads). -/
structure SemVerAst where
  major : Nat
  minor : Nat
  patch : Nat
  pre : List Ident := []
  deriving Repr, DecidableEq, Inhabited

/-- One component of a partial version: a number or a wildcard (`x`, `X`, `*`). -/
inductive XR where
  | x
  | n (k : Nat)
  deriving Repr, DecidableEq, Inhabited

/-- A partial version `xr(.xr(.xr)?)?` with an optional prerelease (1 to 3 components). -/
structure Partial where
  nums : List XR
  pre : List Ident := []
  deriving Repr, DecidableEq, Inhabited

/-- Comparator operators (`none` = no operator; `~>` is a spelling of `~`). -/
inductive Op where
  | none | eq | gt | ge | lt | le | caret | tilde
  deriving Repr, DecidableEq, Inhabited

structure Comparator where
  op : Op
  p : Partial
  deriving Repr, DecidableEq, Inhabited

/-- One `||` alternative: a hyphen range or a blank-separated comparator list. -/
inductive Alt where
  | hyphen (lo hi : Partial)
  | comps (cs : List Comparator)
  deriving Repr, DecidableEq, Inhabited

/-- A range: `||`-separated alternatives (the empty list is the empty string, `*`). -/
abbrev RangeAst := List Alt

/-! ## Order of versions (SemVer 2.0 §11) -/

def Ident.cmp : Ident → Ident → Ordering
  | .num a, .num b => compare a b
  | .num _, .alnum _ => .lt
  | .alnum _, .num _ => .gt
  | .alnum a, .alnum b => compare a b

/-- Identifier lists of two prereleases: first difference decides, a prefix is smaller. -/
def cmpIdents : List Ident → List Ident → Ordering
  | [], [] => .eq
  | [], _ :: _ => .lt
  | _ :: _, [] => .gt
  | a :: as, b :: bs => (a.cmp b).then (cmpIdents as bs)

/-- Prerelease parts: no prerelease (a release) is greatest. -/
def cmpPre (a b : List Ident) : Ordering :=
  match a.isEmpty, b.isEmpty with
  | true, true => .eq
  | true, false => .gt
  | false, true => .lt
  | false, false => cmpIdents a b

def SemVerAst.cmp (a b : SemVerAst) : Ordering :=
  (compare a.major b.major).then <| (compare a.minor b.minor).then <|
    (compare a.patch b.patch).then (cmpPre a.pre b.pre)

/-! ## Primitive comparators -/

inductive PrimOp where
  | lt | le | gt | ge | eq
  deriving Repr, DecidableEq, Inhabited

/-- A desugared comparator: `any` (node's empty comparator) or operator + full version. -/
inductive Prim where
  | any
  | cmp (op : PrimOp) (v : SemVerAst)
  deriving Repr, DecidableEq, Inhabited

def Prim.test : Prim → SemVerAst → Bool
  | .any, _ => true
  | .cmp .lt b, v => v.cmp b == .lt
  | .cmp .le b, v => v.cmp b != .gt
  | .cmp .gt b, v => v.cmp b == .gt
  | .cmp .ge b, v => v.cmp b != .lt
  | .cmp .eq b, v => v.cmp b == .eq

def zeroPre : List Ident := [.num 0]

def ge (M m p : Nat) (pre : List Ident := []) : Prim := .cmp .ge ⟨M, m, p, pre⟩
/-- `<M.m.p-0`: below every version with these numbers. -/
def lt0 (M m p : Nat) : Prim := .cmp .lt ⟨M, m, p, zeroPre⟩
/-- node's null set `<0.0.0-0`. -/
def nullSet : Prim := lt0 0 0 0

def Prim.isNull (c : Prim) : Bool := c == nullSet
def Prim.isAny (c : Prim) : Bool := c == .any

/-- `replaceGTE0`: `>=0.0.0` is `*`. -/
def gte0 (c : Prim) : Prim := if c == ge 0 0 0 then .any else c

/-! ## Desugaring -/

namespace Partial
/-- Component `i` is missing or a wildcard. -/
def isX (p : Partial) (i : Nat) : Bool :=
  match p.nums[i]? with
  | some (.n _) => false
  | _ => true
def num (p : Partial) (i : Nat) : Nat :=
  match p.nums[i]? with
  | some (.n k) => k
  | _ => 0
end Partial

/-- `replaceCarets`, `replaceTildes`, `replaceXRanges`, `replaceStars` for one comparator. -/
def desugarComparator (c : Comparator) : List Prim :=
  let p := c.p
  let M := p.num 0
  let m := p.num 1
  let pt := p.num 2
  let xM := p.isX 0
  let xm := xM || p.isX 1
  let xp := xm || p.isX 2
  let pre := if xp then [] else p.pre
  match c.op with
  | .caret =>
    if xM then [.any]
    else if xm then [ge M 0 0, lt0 (M + 1) 0 0]
    else if xp then
      if M == 0 then [ge M m 0, lt0 M (m + 1) 0] else [ge M m 0, lt0 (M + 1) 0 0]
    else if M == 0 then
      if m == 0 then [ge M m pt pre, lt0 M m (pt + 1)] else [ge M m pt pre, lt0 M (m + 1) 0]
    else [ge M m pt pre, lt0 (M + 1) 0 0]
  | .tilde =>
    if xM then [.any]
    else if xm then [ge M 0 0, lt0 (M + 1) 0 0]
    else if xp then [ge M m 0, lt0 M (m + 1) 0]
    else [ge M m pt pre, lt0 M (m + 1) 0]
  | op =>
    -- `=` with a wildcard is no operator
    let op := if op == .eq && xp then Op.none else op
    if xM then
      if op == .gt || op == .lt then [nullSet] else [.any]
    else if op != .none && xp then
      match op with
      | .gt => if xm then [ge (M + 1) 0 0] else [ge M (m + 1) 0]
      | .le => if xm then [lt0 (M + 1) 0 0] else [lt0 M (m + 1) 0]
      | .lt => if xm then [lt0 M 0 0] else [lt0 M m 0]
      | _ => if xm then [ge M 0 0] else [ge M m 0]          -- `>=`
    else if xm then [ge M 0 0, lt0 (M + 1) 0 0]
    else if xp then [ge M m 0, lt0 M (m + 1) 0]
    else
      let v : SemVerAst := ⟨M, m, pt, pre⟩
      match op with
      | .gt => [.cmp .gt v]
      | .ge => [.cmp .ge v]
      | .lt => [.cmp .lt v]
      | .le => [.cmp .le v]
      | _ => [.cmp .eq v]

/-- `hyphenReplace`. -/
def desugarHyphen (lo hi : Partial) : List Prim :=
  let from_ : Prim :=
    if lo.isX 0 then .any
    else if lo.isX 1 then ge (lo.num 0) 0 0
    else if lo.isX 2 then ge (lo.num 0) (lo.num 1) 0
    else ge (lo.num 0) (lo.num 1) (lo.num 2) lo.pre
  let to_ : Prim :=
    if hi.isX 0 then .any
    else if hi.isX 1 then lt0 (hi.num 0 + 1) 0 0
    else if hi.isX 2 then lt0 (hi.num 0) (hi.num 1 + 1) 0
    else .cmp .le ⟨hi.num 0, hi.num 1, hi.num 2, hi.pre⟩
  [from_, to_]

/-- `parseRange` for one alternative: desugar; `>=0.0.0` ⇒ `*`; a null-set
comparator makes the set the null set; `*` is dropped next to other comparators. -/
def comparatorSet (a : Alt) : List Prim :=
  let cs := match a with
    | .hyphen lo hi => desugarHyphen lo hi
    | .comps cs => cs.flatMap desugarComparator
  let cs := cs.map gte0
  match cs.find? Prim.isNull with
  | some c => [c]
  | none =>
    let out := cs.filter (fun c => !c.isAny)
    if out.isEmpty then [.any] else out

def isNullAlt (s : List Prim) : Bool := match s with | c :: _ => c.isNull | [] => false
def isStarSet (s : List Prim) : Bool := s == [.any]

/-- The `Range` constructor: null sets are dropped when something else remains; if
one of several remaining alternatives is `*`, the range is just `*`. -/
def rangeSets (r : RangeAst) : List (List Prim) :=
  match r with
  | [] => [[.any]]
  | first :: _ =>
    let sets := r.map comparatorSet
    if sets.length > 1 then
      let keep := sets.filter (fun s => !isNullAlt s)
      if keep.isEmpty then [comparatorSet first]
      else if keep.length > 1 && keep.any isStarSet then [[.any]]
      else keep
    else sets

/-- `testSet`. -/
def testSet (set : List Prim) (v : SemVerAst) : Bool :=
  set.all (·.test v) &&
    (v.pre.isEmpty ||
      set.any fun c => match c with
        | .any => false
        | .cmp _ b => !b.pre.isEmpty && b.major == v.major && b.minor == v.minor && b.patch == v.patch)

/-- `semver.satisfies(v, r)`. -/
def NpmRange.satisfies (r : RangeAst) (v : SemVerAst) : Bool :=
  (rangeSets r).any (testSet · v)

/-- Domain of npm range ASTs: 1 to 3 components, a prerelease only on a full
three-number operand. -/
def Partial.isPartial (p : Partial) : Bool := p.nums.length < 3 || p.nums.any (· == .x)
def Partial.wf (p : Partial) : Bool :=
  1 ≤ p.nums.length && p.nums.length ≤ 3 && (p.pre.isEmpty || !p.isPartial)
def NpmRange.valid (r : RangeAst) : Bool :=
  r.all fun a => match a with
    | .hyphen lo hi => lo.wf && hi.wf
    | .comps cs => !cs.isEmpty && cs.all (·.p.wf)

/-! ## Finding classes (negated hypotheses of the `_partial` theorems of Props/C03) -/

namespace NpmRange

def allComps (r : RangeAst) : List Comparator :=
  r.flatMap fun a => match a with | .comps cs => cs | .hyphen _ _ => []

/-- The candidate is a prerelease of 0.0.0. -/
def pre000 (v : SemVerAst) : Bool := v.major == 0 && v.minor == 0 && v.patch == 0 && !v.pre.isEmpty

/-- Some comparator is `<0.0.0-pre`. -/
def lt0pre (r : RangeAst) : Bool :=
  (allComps r).any fun c => c.op == .lt && c.p.nums == [.n 0, .n 0, .n 0] && !c.p.pre.isEmpty

/-- The candidate is a prerelease of the successor of the full release operand of a `>`. -/
def gtSuccPre (r : RangeAst) (v : SemVerAst) : Bool :=
  !v.pre.isEmpty && (allComps r).any fun c =>
    c.op == .gt && c.p.pre.isEmpty && c.p.nums == [.n v.major, .n v.minor, .n (v.patch - 1)] && v.patch ≥ 1

/-- An alphanumeric identifier of the form `-[0-9]+`. -/
def identSigned : Ident → Bool
  | .num _ => false
  | .alnum s =>
    match s.toList with
    | '-' :: d :: ds => (d :: ds).all Char.isDigit
    | _ => false

/-- The candidate or an operand has a prerelease identifier of the form `-[0-9]+`
(the library reads it as a negative number). -/
def signedIdent (r : RangeAst) (v : SemVerAst) : Bool :=
  v.pre.any identSigned ||
  r.any fun a => match a with
    | .hyphen lo hi => lo.pre.any identSigned || hi.pre.any identSigned
    | .comps cs => cs.any fun c => c.p.pre.any identSigned

/-- A `<` comparator whose operand has a number after a wildcard. -/
def ltMidWild (r : RangeAst) : Bool :=
  (allComps r).any fun c => c.op == .lt &&
    (match c.p.nums with
     | [.x, .n _] | [.x, .n _, _] | [.x, .x, .n _] | [_, .x, .n _] => true
     | _ => false)

/-- The candidate is a prerelease of the zero completion of the partial operand of a `<`. -/
def ltPartialPre (r : RangeAst) (v : SemVerAst) : Bool :=
  !v.pre.isEmpty && (allComps r).any fun c =>
    c.op == .lt && c.p.isPartial && !c.p.isX 0 &&
      v.major == c.p.num 0 && v.minor == (if c.p.isX 1 then 0 else c.p.num 1) && v.patch == 0

/-- Component `i` as the library reads a hyphen operand: wildcard = -1, missing = 0. -/
def rawNum (p : Partial) (i : Nat) : Int :=
  match p.nums[i]? with
  | some (.n k) => k
  | some .x => -1
  | none => 0

def lexLt3 (a b : Nat → Int) : Option Bool :=
  if a 0 != b 0 then some (a 0 < b 0)
  else if a 1 != b 1 then some (a 1 < b 1)
  else if a 2 != b 2 then some (a 2 < b 2)
  else none

/-- `hi` orders below `lo` as the library compares the operands of a hyphen range. -/
def libLess (hi lo : Partial) : Bool :=
  match lexLt3 (rawNum hi) (rawNum lo) with
  | some b => b
  | none => cmpPre hi.pre lo.pre == .lt

/-- Completion of a hyphen operand: from the first wildcard or missing component on, `fill`. -/
def complete (p : Partial) (fill : Int) (i : Nat) : Int :=
  if (List.range (i + 1)).any (fun j => j < p.nums.length && p.isX j) || p.nums.length ≤ i then fill else p.num i

/-- Stands for the library's `infinity` in completed upper bounds (above every component of the domain). -/
def bigInf : Int := 2 ^ 62

/-- The library's hyphen rule rejects `lo - hi`. -/
def hyphenRejected (lo hi : Partial) : Bool :=
  libLess hi lo ||
    (!lo.isX 0 &&
      match lexLt3 (complete hi bigInf) (complete lo 0) with
      | some b => b
      | none => cmpPre hi.pre lo.pre == .lt)

/-- node's reading of the hyphen alternative (`>=from <to` or `>=from <=to`) has a member. -/
def hyphenSatisfiable (lo hi : Partial) : Bool :=
  match desugarHyphen lo hi with
  | [.cmp _ v, .cmp .lt w] => v.cmp w == .lt
  | [.cmp _ v, .cmp _ w] => v.cmp w != .gt
  | _ => true

/-- Some hyphen alternative is rejected by the library; `sat` selects the finding:
the alternative has members in node, or it is empty there. -/
def hyphenBelow (r : RangeAst) (sat : Bool) : Bool :=
  r.any fun a => match a with
    | .hyphen lo hi => hyphenRejected lo hi && hyphenSatisfiable lo hi == sat
    | .comps _ => false

/-- node collapses the range to `*`: at least two non-null alternatives, one of them `*`. -/
def starCollapse (r : RangeAst) : Bool :=
  let keep := (r.map comparatorSet).filter (fun s => !isNullAlt s)
  r.length > 1 && keep.length > 1 && keep.any isStarSet

/-- A full three-number operand with a prerelease tag. -/
def fullTagged (p : Partial) : Bool := !p.isPartial && !p.pre.isEmpty

/-- The tagged operands that can be the upper bound of the alternative's span (`true` = excluded). -/
def altUppers : Alt → List (Partial × Bool)
  | .hyphen _ hi => if fullTagged hi then [(hi, false)] else []
  | .comps cs => cs.filterMap fun c =>
      if fullTagged c.p then
        match c.op with
        | .lt => some (c.p, true)
        | .le | .eq | .none => some (c.p, false)
        | _ => none
      else none

/-- The tagged operands that can be the lower bound of the alternative's span (`true` = excluded). -/
def altLowers : Alt → List (Partial × Bool)
  | .hyphen lo _ => if fullTagged lo then [(lo, false)] else []
  | .comps cs => cs.filterMap fun c =>
      if fullTagged c.p then
        match c.op with
        | .gt => some (c.p, true)
        | .ge | .caret | .tilde | .eq | .none => some (c.p, false)
        | _ => none
      else none

/-- The prerelease tags the lower bound of the alternative's span may carry: those of its tagged
lower-bound operands, and `0` (the library's minimum version `0.0.0-0`) when no comparator sets a
lower bound (only `<`, `<=` and `*` operands). -/
def altLowerTags : Alt → List (List Ident)
  | .hyphen lo _ => if lo.isX 0 then [zeroPre] else [lo.pre]
  | .comps cs =>
    (if cs.all (fun c => c.op == .lt || c.op == .le || c.p.isX 0) then [zeroPre] else []) ++
      (altLowers (.comps cs)).map (·.1.pre)

/-- The prerelease tags the upper bound of the alternative's span may carry: those of its tagged
upper-bound operands, and of `~` operands (the upper bound of `~M.m.p-pre` keeps the tag). -/
def altUpperTags : Alt → List (List Ident)
  | .hyphen _ hi => [hi.pre]
  | .comps cs => ((altUppers (.comps cs)).map (·.1.pre)) ++
      cs.filterMap fun c => if c.op == .tilde && fullTagged c.p then some c.p.pre else none

/-- The spans of alternatives `a` and `b` meet at a tagged operand `T` with the candidate's numbers:
`T` is an upper-bound operand of `a` and (same numbers, same tag) a lower-bound operand of `b`, not
excluded on both sides, and the tags of `a`'s lower and of `b`'s upper bound can equal `T`'s — the
situation in which `canon` merges the two spans into one that no longer has `T` as a bound. -/
def meetAt (v : SemVerAst) (a b : Alt) : Bool :=
  (altUppers a).any fun (t, oa) => (altLowers b).any fun (t', ob) =>
    t.nums == t'.nums && t.pre == t'.pre && !(oa && ob) &&
    t.nums == [.n v.major, .n v.minor, .n v.patch] &&
    (altLowerTags a).contains t.pre && (altUpperTags b).contains t.pre

def pairsAny (f : Alt → Alt → Bool) : List Alt → Bool
  | [] => false
  | a :: rest => rest.any (fun b => f a b || f b a) || pairsAny f rest

/-- The candidate is a prerelease and two `||` alternatives meet at a tagged operand with its numbers. -/
def orMergePre (r : RangeAst) (v : SemVerAst) : Bool := !v.pre.isEmpty && pairsAny (meetAt v) r

/-- The finding classes an (npm range, candidate) pair falls in, by id. -/
def classes (r : RangeAst) (v : SemVerAst) : List String :=
  (if pre000 v then (if lt0pre r then ["F-C03-lt0pre"] else ["F-C03-pre000"]) else []) ++
  (if gtSuccPre r v then ["F-C03-gt-succ-pre"] else []) ++
  (if signedIdent r v then ["F-C03-signed-ident"] else []) ++
  (if hyphenBelow r true then ["F-C03-hyphen-wild"] else []) ++
  (if hyphenBelow r false then ["F-C03-hyphen-inverted"] else []) ++
  (if ltMidWild r then ["F-C03-lt-midwild"] else []) ++
  (if ltPartialPre r v then ["F-C03-lt-partial-pre"] else []) ++
  (if starCollapse r && !v.pre.isEmpty then ["F-C03-star-collapse"] else []) ++
  (if orMergePre r v then ["F-C03-or-merge-pre"] else [])

end NpmRange

end DepsDev.Ref
