import DepsDev.Ref.Npm

/-!
# Reference: Maven `org.apache.maven.artifact.versioning.ComparableVersion` (3.6.x – 3.8.6)

The release line the library says it follows (3.8.7 changed how a qualifier after a dot
is read). Transcribed at the level of tokens — numbers and words separated by `.`, `-`
or a digit/letter transition — so no string scanning is involved:

* `parseVersion`: a token is appended to the current list; after `-` or a transition a
  new sub-list is opened (and never closed); a word directly followed by a digit gets
  the shortcuts `a`→`alpha`, `b`→`beta`, `m`→`milestone`; `StringItem` applies the aliases
  `ga`, `final`, `release` → `""` and `cr` → `rc`.
* `ListItem.normalize` (innermost list first): from the end, remove null items
  (`0`, `""`, empty list), pass over non-null sub-lists, stop at the first non-null
  number or word.
* `compareTo`:
  ```
  IntItem    vs null: 0 if zero else 1 | Int: numeric | String: 1  | List: 1
  StringItem vs null: cq(value) vs "5" | Int: -1      | String: cq vs cq (String.compareTo) | List: -1
  ListItem   vs null: first non-zero of item.compareTo(null) | Int: -1 | String: 1
             vs List: position by position, a missing item is null
                      (l == null ? -1 * r.compareTo(null) : l.compareTo(r))
  cq(q) = index of q in [alpha, beta, milestone, rc, snapshot, "", sp] as a decimal string,
          or "7-" + q when q is not in the list
  ```
The property's domain is the Maven-Central shape of DESIGN 6.4 (`Ast`, `Ast.valid`):
numbers, at most one qualifier word, at most one number after it, an optional
`-SNAPSHOT`; `tokens` turns it into the token sequence. Core Lean only.
-/
namespace DepsDev.Ref.MavenCV

inductive Tok where
  | num (n : Nat)
  | word (s : Bytes)        -- lower-case
  deriving Repr, DecidableEq

/-- What stands before a token: `.`, `-`, or nothing (a digit/letter transition). -/
inductive Sep where
  | dot | dash | trans
  deriving Repr, DecidableEq

inductive Item where
  | int (n : Nat)
  | str (s : Bytes)
  | list (l : List Item)
  deriving Repr

def str (s : String) : Bytes := s.toUTF8.toList

def wAlpha : Bytes := [97, 108, 112, 104, 97]
def wBeta : Bytes := [98, 101, 116, 97]
def wMilestone : Bytes := [109, 105, 108, 101, 115, 116, 111, 110, 101]
def wRc : Bytes := [114, 99]
def wCr : Bytes := [99, 114]
def wSnapshot : Bytes := [115, 110, 97, 112, 115, 104, 111, 116]
def wSp : Bytes := [115, 112]
def wGa : Bytes := [103, 97]
def wFinal : Bytes := [102, 105, 110, 97, 108]
def wRelease : Bytes := [114, 101, 108, 101, 97, 115, 101]

/-- `new StringItem(value, followedByDigit)`. -/
def stringItem (w : Bytes) (followedByDigit : Bool) : Item :=
  let w := if followedByDigit then
      (if w == [97] then wAlpha else if w == [98] then wBeta else if w == [109] then wMilestone else w)
    else w
  let w := if w == wGa || w == wFinal || w == wRelease then [] else if w == wCr then wRc else w
  .str w

/-- `parseVersion` on tokens: `t` is the current token, `rest` what follows with its separators. -/
def parseFrom (t : Tok) : List (Sep × Tok) → List Item
  | [] =>
    [match t with | .num n => .int n | .word w => stringItem w false]
  | (s, t') :: rest =>
    let digitNext := match t' with | .num _ => true | .word _ => false
    let item := match t with
      | .num n => Item.int n
      | .word w => stringItem w (s == .trans && digitNext)
    match s with
    | .dot => item :: parseFrom t' rest
    | _ => [item, .list (parseFrom t' rest)]

def qualifiers : List Bytes := [wAlpha, wBeta, wMilestone, wRc, wSnapshot, [], wSp]

/-- `comparableQualifier`. -/
def cq (q : Bytes) : Bytes :=
  match qualifiers.findIdx? (· == q) with
  | some i => [digit i]
  | none => [55, 45] ++ q

/-- `RELEASE_VERSION_INDEX` = `"5"`. -/
def releaseIndex : Bytes := [53]

def strCmp : Bytes → Bytes → Ordering := List.compareLex Ord.compare

/-- `isNull()` (sub-lists already normalised). -/
def Item.isNull : Item → Bool
  | .int n => n == 0
  | .str s => strCmp (cq s) releaseIndex == .eq
  | .list l => l.isEmpty

/-- The loop of `normalize` on the reversed list. -/
def trimRev : List Item → List Item
  | [] => []
  | x :: xs =>
    if x.isNull then trimRev xs
    else match x with
      | .list _ => x :: trimRev xs
      | _ => x :: xs

mutual
  def normItem : Item → Item
    | .list l => .list (trimRev (normList l).reverse).reverse
    | x => x
  def normList : List Item → List Item
    | [] => []
    | x :: xs => normItem x :: normList xs
end

mutual
  /-- `item.compareTo(null)`. -/
  def cmpNull : Item → Ordering
    | .int n => if n = 0 then .eq else .gt
    | .str s => strCmp (cq s) releaseIndex
    | .list l => cmpNullList l
  def cmpNullList : List Item → Ordering
    | [] => .eq
    | x :: xs => (cmpNull x).then (cmpNullList xs)
end

mutual
  /-- `l.compareTo(r)`. -/
  def cmp : Item → Item → Ordering
    | .int a, .int b => Ord.compare a b
    | .int _, .str _ => .gt
    | .int _, .list _ => .gt
    | .str _, .int _ => .lt
    | .str a, .str b => strCmp (cq a) (cq b)
    | .str _, .list _ => .lt
    | .list _, .int _ => .lt
    | .list _, .str _ => .gt
    | .list a, .list b => cmpList a b
  def cmpList : List Item → List Item → Ordering
    | [], rs => (cmpNullList rs).swap
    | l :: ls, [] => (cmpNull l).then (cmpList ls [])
    | l :: ls, r :: rs => (cmp l r).then (cmpList ls rs)
end

/-- A version in the shape of DESIGN 6.4. -/
structure Ast where
  nums : List Nat
  qual : Option (Sep × Bytes) := none
  qnum : Option (Sep × Nat) := none
  snapshot : Bool := false
  deriving Repr, DecidableEq

/-- The token sequence of a version (first token, then separator-token pairs). -/
def tokens (a : Ast) : Tok × List (Sep × Tok) :=
  let tail : List (Sep × Tok) :=
    (match a.qual with
     | none => []
     | some (s, q) => (s, Tok.word q) :: (match a.qnum with | none => [] | some (s', n) => [(s', Tok.num n)])) ++
    (if a.snapshot then [(Sep.dash, Tok.word wSnapshot)] else [])
  match a.nums with
  | [] => (.num 0, tail)
  | n :: ns => (.num n, ns.map (fun m => (Sep.dot, Tok.num m)) ++ tail)

/-- `new ComparableVersion(v).items`. -/
def items (a : Ast) : Item :=
  let (t, rest) := tokens a
  normItem (.list (parseFrom t rest))

def compare (a b : Ast) : Ordering := cmp (items a) (items b)

def isLower (c : UInt8) : Bool := 97 ≤ c && c ≤ 122

/-- DESIGN 6.4 (+ the exclusion the property states: no number after `ga`/`final`/`release`). -/
def Ast.valid (a : Ast) : Bool :=
  !a.nums.isEmpty &&
  (match a.qual with
   | none => a.qnum.isNone
   | some (_, q) => !q.isEmpty && q.all isLower &&
      (a.qnum.isNone || !(q == wGa || q == wFinal || q == wRelease)))

def Sep.render : Sep → Bytes
  | .dot => [46] | .dash => [45] | .trans => []

def render (a : Ast) : Bytes :=
  joinSep 46 (a.nums.map dec) ++
  (match a.qual with
   | none => []
   | some (s, q) => s.render ++ q ++ (match a.qnum with | none => [] | some (s', n) => s'.render ++ dec n)) ++
  (if a.snapshot then 45 :: [83, 78, 65, 80, 83, 72, 79, 84] else [])

end DepsDev.Ref.MavenCV
