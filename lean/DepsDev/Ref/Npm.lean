import DepsDev.Model.Bytes

/-!
# Reference: Semantic Versioning 2.0.0 precedence (semver.org §9–§11) — npm

The order that node-semver's `compare`, the Rust `semver` crate's `cmp_precedence`
and `golang.org/x/mod/semver.Compare` all implement (each file `Ref/Cargo.lean`,
`Ref/GoMod.lean` says what is specific to its tool). Stated on a syntax tree:

* a version is three numbers, a list of prerelease identifiers and build metadata;
* §11.2 major, minor, patch are compared numerically;
* §11.3 a version without prerelease identifiers is higher than one with;
* §11.4 prerelease lists are compared identifier by identifier: numeric identifiers
  numerically, alphanumeric ones in ASCII order, numeric lower than alphanumeric, and a
  longer list is higher when all preceding identifiers are equal;
* §10 build metadata is ignored.

`render` is the normal form (`1.2.3-alpha.1+build`); `Ast.valid` is the grammar of §9/§10.
Core Lean only.
-/
namespace DepsDev.Ref

/-- Decimal digit `d < 10` as a byte. -/
def digit : Nat → UInt8
  | 0 => 48 | 1 => 49 | 2 => 50 | 3 => 51 | 4 => 52
  | 5 => 53 | 6 => 54 | 7 => 55 | 8 => 56 | _ => 57

/-- Decimal rendering with `fuel` digits at most. -/
def decF : Nat → Nat → Bytes
  | 0, _ => []
  | f + 1, n => if n < 10 then [digit n] else decF f (n / 10) ++ [digit (n % 10)]

/-- Decimal rendering of a natural number, without leading zeros. -/
def dec (n : Nat) : Bytes := decF (n + 1) n

def isDigit (c : UInt8) : Bool := 48 ≤ c && c ≤ 57
def isLetter (c : UInt8) : Bool := (65 ≤ c && c ≤ 90) || (97 ≤ c && c ≤ 122)
/-- `[0-9A-Za-z-]`, the alphabet of SemVer identifiers. -/
def isIdentChar (c : UInt8) : Bool := isDigit c || isLetter c || c == 45

/-- `-` followed by digits only. SemVer reads such an identifier as alphanumeric (it
contains a hyphen); integer parsers that allow a sign read it as a negative number. -/
def looksNegative : Bytes → Bool
  | 45 :: ds => !ds.isEmpty && ds.all isDigit
  | _ => false

/-- `a.b.c` from `[a, b, c]`. -/
def joinSep (sep : UInt8) : List Bytes → Bytes
  | [] => []
  | [a] => a
  | a :: rest => a ++ sep :: joinSep sep rest

namespace SemVer

/-- A prerelease identifier: numeric (digits only, no leading zero) or alphanumeric. -/
inductive Ident where
  | num (n : Nat)
  | alnum (s : Bytes)
  deriving Repr, DecidableEq

structure Ast where
  major : Nat
  minor : Nat
  patch : Nat
  pre : List Ident := []
  build : List Bytes := []
  deriving Repr, DecidableEq

/-- §11.4.1–§11.4.3. -/
def identCmp : Ident → Ident → Ordering
  | .num a, .num b => compare a b
  | .num _, .alnum _ => .lt
  | .alnum _, .num _ => .gt
  | .alnum a, .alnum b => List.compareLex compare a b

/-- §11.3 and §11.4 (`List.compareLex`: first difference decides, a proper prefix is lower). -/
def preCmp : List Ident → List Ident → Ordering
  | [], [] => .eq
  | [], _ :: _ => .gt
  | _ :: _, [] => .lt
  | a :: as, b :: bs => List.compareLex identCmp (a :: as) (b :: bs)

/-- §11: precedence. Build metadata does not take part. -/
def precedence (a b : Ast) : Ordering :=
  (compare a.major b.major).then <|
  (compare a.minor b.minor).then <|
  (compare a.patch b.patch).then <|
  preCmp a.pre b.pre

/-- §9: an alphanumeric identifier is a non-empty word over `[0-9A-Za-z-]` with at
least one non-digit (an all-digit word is a numeric identifier). -/
def Ident.valid : Ident → Bool
  | .num _ => true
  | .alnum s => !s.isEmpty && s.all isIdentChar && s.any (fun c => !isDigit c)

/-- §9, §10. -/
def Ast.valid (a : Ast) : Bool :=
  a.pre.all Ident.valid && a.build.all (fun s => !s.isEmpty && s.all isIdentChar)

def Ident.render : Ident → Bytes
  | .num n => dec n
  | .alnum s => s

/-- The normal form `MAJOR.MINOR.PATCH[-pre][+build]`. -/
def render (a : Ast) : Bytes :=
  dec a.major ++ 46 :: dec a.minor ++ 46 :: dec a.patch ++
  (if a.pre.isEmpty then [] else 45 :: joinSep 46 (a.pre.map Ident.render)) ++
  (if a.build.isEmpty then [] else 43 :: joinSep 46 a.build)

end SemVer

/-! ## npm

node-semver (`classes/semver.js`: `compareMain`, `comparePre`; `internal/identifiers.js`:
`compareIdentifiers`) is exactly §11. In strict mode (the default) it accepts exactly
`Ast.valid` renderings with numbers up to `Number.MAX_SAFE_INTEGER`; in `loose` mode it
also accepts numeric identifiers with leading zeros (`1.0.0-01`) and compares them
numerically — which is what the library does for NPM too. JavaScript compares numeric
identifiers as doubles, so node itself is exact only below 2^53. -/
namespace Npm
abbrev Ast := SemVer.Ast
def compare : Ast → Ast → Ordering := SemVer.precedence
def render : Ast → Bytes := SemVer.render
end Npm

end DepsDev.Ref
