import DepsDev.Ref.NpmRange

/-!
# Ref: Cargo version requirements (`semver` crate 1.0, `VersionReq::matches`) on ASTs

A transcription of the crate's `eval.rs` (`matches_req`, `matches_exact`,
`matches_greater`, `matches_less`, `matches_tilde`, `matches_caret`,
`pre_is_compatible`): a requirement is a comma-separated list of comparators, a
comparator without operator is a caret comparator (or a wildcard one when its
operand ends in `*`), all comparators must match, and a prerelease version also
needs a comparator with the same `major.minor.patch` that has a prerelease.

A requirement is a `RangeAst` with exactly one `Alt.comps` alternative.
-/
namespace DepsDev.Ref

/-- The crate's `Comparator`: operator, major, optional minor/patch, prerelease. -/
structure CargoCmp where
  op : Op            -- `eq` also stands for `Op::Wildcard`; never `none`
  major : Nat
  minor : Option Nat
  patch : Option Nat
  pre : List Ident
  deriving Repr, DecidableEq

/-- The parsed comparator of an AST comparator (default operator: caret; `1.*` is a wildcard = exact match). -/
def cargoComparator (c : Comparator) : CargoCmp :=
  let p := c.p
  let minor := if p.isX 1 then none else some (p.num 1)
  let patch := if p.isX 1 || p.isX 2 then none else some (p.num 2)
  let pre := if patch.isSome then p.pre else []
  let op := match c.op with
    | .none => if p.nums.any (· == .x) then Op.eq else Op.caret
    | op => op
  { op := op, major := p.num 0, minor := minor, patch := patch, pre := pre }

def preLt (a b : List Ident) : Bool := cmpPre a b == .lt
def preGt (a b : List Ident) : Bool := cmpPre a b == .gt
def preGe (a b : List Ident) : Bool := cmpPre a b != .lt

def matchesExact (c : CargoCmp) (v : SemVerAst) : Bool :=
  if v.major != c.major then false
  else if c.minor.any (· != v.minor) then false
  else if c.patch.any (· != v.patch) then false
  else cmpPre v.pre c.pre == .eq

def matchesGreater (c : CargoCmp) (v : SemVerAst) : Bool :=
  if v.major != c.major then v.major > c.major else
  match c.minor with
  | none => false
  | some minor =>
    if v.minor != minor then v.minor > minor else
    match c.patch with
    | none => false
    | some patch => if v.patch != patch then v.patch > patch else preGt v.pre c.pre

def matchesLess (c : CargoCmp) (v : SemVerAst) : Bool :=
  if v.major != c.major then v.major < c.major else
  match c.minor with
  | none => false
  | some minor =>
    if v.minor != minor then v.minor < minor else
    match c.patch with
    | none => false
    | some patch => if v.patch != patch then v.patch < patch else preLt v.pre c.pre

def matchesTilde (c : CargoCmp) (v : SemVerAst) : Bool :=
  if v.major != c.major then false
  else if c.minor.any (· != v.minor) then false
  else match c.patch with
    | some patch => if v.patch != patch then v.patch > patch else preGe v.pre c.pre
    | none => preGe v.pre c.pre

def matchesCaret (c : CargoCmp) (v : SemVerAst) : Bool :=
  if v.major != c.major then false else
  match c.minor with
  | none => true
  | some minor =>
    match c.patch with
    | none => if c.major > 0 then v.minor ≥ minor else v.minor == minor
    | some patch =>
      if c.major > 0 then
        if v.minor != minor then v.minor > minor
        else if v.patch != patch then v.patch > patch
        else preGe v.pre c.pre
      else if minor > 0 then
        if v.minor != minor then false
        else if v.patch != patch then v.patch > patch
        else preGe v.pre c.pre
      else if v.minor != minor || v.patch != patch then false
      else preGe v.pre c.pre

def matchesImpl (c : CargoCmp) (v : SemVerAst) : Bool :=
  match c.op with
  | .eq => matchesExact c v
  | .gt => matchesGreater c v
  | .ge => matchesExact c v || matchesGreater c v
  | .lt => matchesLess c v
  | .le => matchesExact c v || matchesLess c v
  | .tilde => matchesTilde c v
  | _ => matchesCaret c v

def preIsCompatible (c : CargoCmp) (v : SemVerAst) : Bool :=
  c.major == v.major && c.minor == some v.minor && c.patch == some v.patch && !c.pre.isEmpty

/-- The comparators of a requirement (`*` alone is the empty list, `VersionReq::STAR`). -/
def CargoReq.comparators (r : RangeAst) : List CargoCmp :=
  match r with
  | [.comps [c]] => if c.p.isX 0 then [] else [cargoComparator c]
  | [.comps cs] => cs.map cargoComparator
  | _ => []

/-- `VersionReq::matches`. -/
def CargoReq.matches (r : RangeAst) (v : SemVerAst) : Bool :=
  let cs := CargoReq.comparators r
  cs.all (matchesImpl · v) && (v.pre.isEmpty || cs.any (preIsCompatible · v))

/-- What `VersionReq::parse` accepts among the ASTs: one comparator list; a wildcard
only followed by wildcards; a bare `*` only as the whole requirement and without
operator; a prerelease only on three numbers. -/
def CargoReq.valid (r : RangeAst) : Bool :=
  match r with
  | [.comps cs] =>
    !cs.isEmpty && cs.all fun c =>
      let p := c.p
      1 ≤ p.nums.length && p.nums.length ≤ 3 &&
      (!p.isX 0 || (cs.length == 1 && c.op == .none && p.nums.length == 1)) &&
      (match p.nums with
       | [_, .x, .n _] | [.x, .n _] | [.x, .n _, _] => false
       | _ => true) &&
      (p.pre.isEmpty || !p.isPartial)
  | _ => false

namespace CargoReq

/-- A prerelease candidate against at least two comparators one of which has a partial operand. -/
def prePartial (r : RangeAst) (v : SemVerAst) : Bool :=
  match r with
  | [.comps cs] => !v.pre.isEmpty && cs.length ≥ 2 && cs.any (·.p.isPartial)
  | _ => false

def classes (r : RangeAst) (v : SemVerAst) : List String :=
  (if NpmRange.pre000 v then (if NpmRange.lt0pre r then ["F-C03-lt0pre"] else ["F-C03-pre000"]) else []) ++
  (if NpmRange.gtSuccPre r v then ["F-C03-gt-succ-pre"] else []) ++
  (if NpmRange.signedIdent r v then ["F-C03-signed-ident"] else []) ++
  (if prePartial r v then ["F-C03-cargo-pre-partial"] else [])

end CargoReq

end DepsDev.Ref
