import DepsDev.Model.Bytes
import DepsDev.Drive.Loop
