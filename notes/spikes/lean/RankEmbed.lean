namespace Spike.Rank
open Std

variable {V : Type} (cmp : V → V → Ordering) [TransCmp cmp]

def rk (pts : List V) (a : V) : Nat := (pts.filter (fun p => cmp p a == .lt)).length

theorem filter_len_le {α} (p q : α → Bool) (l : List α) (h : ∀ x ∈ l, p x = true → q x = true) :
    (l.filter p).length ≤ (l.filter q).length := by
  induction l with
  | nil => simp
  | cons x xs ih =>
    have ih' := ih (fun y hy => h y (List.mem_cons_of_mem _ hy))
    have hx := h x (List.mem_cons_self)
    simp only [List.filter_cons]
    cases hp : p x <;> cases hq : q x <;> simp_all <;> omega

theorem filter_len_lt {α} (p q : α → Bool) (l : List α) (h : ∀ x ∈ l, p x = true → q x = true)
    (w : α) (hw : w ∈ l) (hwp : p w = false) (hwq : q w = true) :
    (l.filter p).length < (l.filter q).length := by
  induction l with
  | nil => cases hw
  | cons x xs ih =>
    have hle := filter_len_le p q xs (fun y hy => h y (List.mem_cons_of_mem _ hy))
    have hx := h x (List.mem_cons_self)
    simp only [List.filter_cons]
    rcases List.mem_cons.1 hw with rfl | hmem
    · simp [hwp, hwq]; omega
    · have := ih (fun y hy => h y (List.mem_cons_of_mem _ hy)) hmem
      cases hp : p x <;> cases hq : q x <;> simp_all <;> omega

theorem rk_eq_of_eq (pts : List V) {a b : V} (h : cmp a b = .eq) : rk cmp pts a = rk cmp pts b := by
  unfold rk
  congr 1
  apply List.filter_congr
  intro p _
  have := TransCmp.congr_right (cmp := cmp) (a := p) h
  simp [this]

theorem rk_lt_of_lt (pts : List V) {a b : V} (ha : a ∈ pts) (h : cmp a b = .lt) :
    rk cmp pts a < rk cmp pts b := by
  unfold rk
  apply filter_len_lt _ _ pts _ a ha
  · simp [ReflCmp.compare_self (cmp := cmp)]
  · simp [h]
  · intro x _ hx
    simp at hx ⊢
    exact TransCmp.lt_trans hx h

theorem cmp_eq_compare_rk (pts : List V) {a b : V} (ha : a ∈ pts) (hb : b ∈ pts) :
    cmp a b = compare (rk cmp pts a) (rk cmp pts b) := by
  cases h : cmp a b with
  | lt => have := rk_lt_of_lt cmp pts ha h; simp [Nat.compare_eq_lt.2 this]
  | eq => have := rk_eq_of_eq cmp pts h; simp [this]
  | gt =>
    have h' : cmp b a = .lt := OrientedCmp.lt_of_gt h
    have := rk_lt_of_lt cmp pts hb h'
    simp [Nat.compare_eq_gt.2 this]

end Spike.Rank
