import Spike.Rank
import Spike.IntervalNat
namespace Spike.IntervalB
open Std Spike.Rank

variable {V : Type}

def ofCmp (cmp : V → V → Ordering) : Ord3 V := ⟨fun a b => cmp a b == .lt, fun a b => cmp a b == .eq⟩
def pull (f : V → Nat) : Ord3 V := ⟨fun a b => decide (f a < f b), fun a b => decide (f a = f b)⟩

/-- the law as a Bool-free Prop about one order interface -/
def InterLaw (o : Ord3 V) (s t : Span V) (v : V) : Prop :=
  match interPairFixed o s t with
  | .span r => contains o r v = (contains o s v && contains o t v)
  | .skip => (contains o s v && contains o t v) = false
  | .stop => (contains o s v && contains o t v) = false
  | .err => False

/-- Lemma A: the law for any order pulled back from ℕ. -/
theorem interLaw_pull (f : V → Nat) (s t : Span V) (v : V)
    (hs : s.unit = false) (ht : t.unit = false)
    (wfs : f s.min < f s.max) (wft : f t.min < f t.max) : InterLaw (pull f) s t v := by
  obtain ⟨sr, smo, sxo, a, b⟩ := s
  obtain ⟨tr, tmo, txo, c, d⟩ := t
  simp only at hs ht wfs wft
  subst hs ht
  simp only [InterLaw, interPairFixed, contains, newSpan, pull, apply_ite Prod.fst, apply_ite Prod.snd, apply_ite f]
  cases smo <;> cases sxo <;> cases tmo <;> cases txo <;> simp <;> grind

/-- two interfaces agree on a list of points -/
def Agree (o o' : Ord3 V) (pts : List V) : Prop :=
  ∀ a ∈ pts, ∀ b ∈ pts, o.lt a b = o'.lt a b ∧ o.eq a b = o'.eq a b

/-- Lemma B: the law only looks at the order on the five points. -/
theorem interLaw_congr {o o' : Ord3 V} (s t : Span V) (v : V)
    (h : Agree o o' [s.min, s.max, t.min, t.max, v]) : InterLaw o s t v ↔ InterLaw o' s t v := by
  obtain ⟨sr, smo, sxo, a, b⟩ := s
  obtain ⟨tr, tmo, txo, c, d⟩ := t
  have e : ∀ x ∈ [a, b, c, d, v], ∀ y ∈ [a, b, c, d, v], o.lt x y = o'.lt x y ∧ o.eq x y = o'.eq x y := h
  have l : ∀ x ∈ [a, b, c, d, v], ∀ y ∈ [a, b, c, d, v], o.lt x y = o'.lt x y := fun x hx y hy => (e x hx y hy).1
  have q : ∀ x ∈ [a, b, c, d, v], ∀ y ∈ [a, b, c, d, v], o.eq x y = o'.eq x y := fun x hx y hy => (e x hx y hy).2
  simp only [List.mem_cons, List.mem_nil_iff, or_false, forall_eq_or_imp, forall_eq] at l q
  simp only [InterLaw, interPairFixed, contains, newSpan]
  -- every comparison is between two of the five points: rewrite them all
  simp only [l, q]
  -- remaining comparisons hide behind the `if`-selected bounds; split those
  split <;> split <;> simp_all

theorem natcmp_lt (a b : Nat) : (compare a b == Ordering.lt) = decide (a < b) := by
  rcases Nat.lt_trichotomy a b with h | h | h
  · simp [Nat.compare_eq_lt.2 h, h]
  · subst h; simp
  · simp [Nat.compare_eq_gt.2 h]; omega

theorem natcmp_eq (a b : Nat) : (compare a b == Ordering.eq) = decide (a = b) := by
  rcases Nat.lt_trichotomy a b with h | h | h
  · simp [Nat.compare_eq_lt.2 h]; omega
  · subst h; simp
  · simp [Nat.compare_eq_gt.2 h]; omega

/-- Lemma C: every lawful comparator agrees with a pulled-back ℕ order on any finite set of points. -/
theorem agree_rank (cmp : V → V → Ordering) [TransCmp cmp] (pts : List V) :
    Agree (ofCmp cmp) (pull (rk cmp pts)) pts := by
  intro a ha b hb
  have := cmp_eq_compare_rk cmp pts ha hb
  simp only [ofCmp, pull, this, natcmp_lt, natcmp_eq, and_self]

/-- The law for an arbitrary lawful comparator. -/
theorem interLaw_cmp (cmp : V → V → Ordering) [TransCmp cmp] (s t : Span V) (v : V)
    (hs : s.unit = false) (ht : t.unit = false)
    (wfs : cmp s.min s.max = .lt) (wft : cmp t.min t.max = .lt) :
    InterLaw (ofCmp cmp) s t v := by
  let pts := [s.min, s.max, t.min, t.max, v]
  have ag := agree_rank cmp pts
  rw [interLaw_congr s t v ag]
  have m1 : s.min ∈ pts := by simp [pts]
  have m2 : s.max ∈ pts := by simp [pts]
  have m3 : t.min ∈ pts := by simp [pts]
  have m4 : t.max ∈ pts := by simp [pts]
  apply interLaw_pull _ s t v hs ht
  · have := cmp_eq_compare_rk cmp pts m1 m2
    rw [wfs] at this
    exact Nat.compare_eq_lt.1 this.symm
  · have := cmp_eq_compare_rk cmp pts m3 m4
    rw [wft] at this
    exact Nat.compare_eq_lt.1 this.symm

end Spike.IntervalB
