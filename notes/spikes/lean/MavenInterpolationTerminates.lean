namespace Spike.Interp

/-- find the first "${" … "}" : returns (text before, key, text after the closing brace) -/
def findOpen : List Char → Option (List Char × List Char)
  | '$' :: '{' :: rest => some ([], rest)
  | c :: rest => (findOpen rest).map fun (p, r) => (c :: p, r)
  | [] => none

def findClose : List Char → Option (List Char × List Char)
  | '}' :: rest => some ([], rest)
  | c :: rest => (findClose rest).map fun (k, r) => (c :: k, r)
  | [] => none

theorem findOpen_len {s p r} (h : findOpen s = some (p, r)) : r.length < s.length := by
  fun_induction findOpen s generalizing p r with
  | case1 rest => simp at h; obtain ⟨_, rfl⟩ := h; simp; omega
  | case2 c rest _ ih =>
    simp only [Option.map_eq_some_iff] at h
    obtain ⟨⟨p', r'⟩, h', he⟩ := h
    simp at he; obtain ⟨_, rfl⟩ := he
    have := ih h'
    simp; omega
  | case3 => simp at h

theorem findClose_len {s k r} (h : findClose s = some (k, r)) : r.length < s.length := by
  fun_induction findClose s generalizing k r with
  | case1 rest => simp at h; obtain ⟨_, rfl⟩ := h; simp
  | case2 c rest _ ih =>
    simp only [Option.map_eq_some_iff] at h
    obtain ⟨⟨k', r'⟩, h', he⟩ := h
    simp at he; obtain ⟨_, rfl⟩ := he
    have := ih h'
    simp; omega
  | case3 => simp at h

abbrev Dict := List (List Char × List Char)

def free (d : Dict) (resolving : List (List Char)) : Nat :=
  (d.filter fun kv => !resolving.contains kv.1).length

theorem filter_mono_len {α} (p q : α → Bool) (l : List α) (h : ∀ x, p x = true → q x = true) :
    (l.filter p).length ≤ (l.filter q).length := by
  induction l with
  | nil => simp
  | cons x xs ih =>
    simp only [List.filter_cons]
    have := h x
    cases hp : p x <;> cases hq : q x <;> simp_all <;> omega

theorem free_lt (d : Dict) (resolving : List (List Char)) (key v : List Char)
    (hk : d.lookup key = some v) (hr : resolving.contains key = false) :
    free d (key :: resolving) < free d resolving := by
  unfold free
  induction d with
  | nil => simp [List.lookup] at hk
  | cons kv rest ih =>
    obtain ⟨k, w⟩ := kv
    have hle := filter_mono_len (fun kv : List Char × List Char => !(key :: resolving).contains kv.1)
      (fun kv => !resolving.contains kv.1) rest (by intro x; simp)
    by_cases hkk : key = k
    · subst hkk
      have hr' : (key ∈ resolving) = False := by simpa using hr
      simp [List.filter_cons, hr'] at hle ⊢
      omega
    · have hk' : rest.lookup key = some v := by
        simp only [List.lookup] at hk
        have : (key == k) = false := by simpa using hkk
        simpa [this] using hk
      have := ih hk'
      have hne : ¬ k = key := fun e => hkk e.symm
      simp only [List.filter_cons]
      by_cases c1 : k ∈ resolving <;> simp_all <;> omega

/-- maven.interpolating: returns (text, resolved?) -/
def interp (d : Dict) (resolving : List (List Char)) (s : List Char) : List Char × Bool :=
  match h1 : findOpen s with
  | none => (s, true)
  | some (pre, afterOpen) =>
    match h2 : findClose afterOpen with
    | none => (s, true)
    | some (key, rest) =>
      if hr : resolving.contains key then
        -- cycle: stop, leave the remainder as it is
        (pre ++ ('$' :: '{' :: afterOpen), false)
      else
        match hv : d.lookup key with
        | some v =>
          let (v', ok1) := interp d (key :: resolving) v
          let (r', ok2) := interp d resolving rest
          (pre ++ v' ++ r', ok1 && ok2)
        | none =>
          let (r', _) := interp d resolving rest
          (pre ++ ('$' :: '{' :: key) ++ ['}'] ++ r', false)
termination_by (free d resolving, s.length)
decreasing_by
  · apply Prod.Lex.left
    exact free_lt d resolving key v hv (by simpa using hr)
  · apply Prod.Lex.right
    have a := findOpen_len h1
    have b := findClose_len h2
    omega
  · apply Prod.Lex.right
    have a := findOpen_len h1
    have b := findClose_len h2
    omega

#eval (interp [("a".toList, "${b}x".toList), ("b".toList, "${a}".toList), ("c".toList, "1".toList)] [] "v=${a}-${c}-${zz}".toList)
  |>.map String.ofList id

end Spike.Interp
