namespace Spike
open Std

def padCmp : List Int → List Int → Ordering
  | [], [] => .eq
  | [], b :: bs => (compare 0 b).then (padCmp [] bs)
  | a :: as, [] => (compare a 0).then (padCmp as [])
  | a :: as, b :: bs => (compare a b).then (padCmp as bs)

theorem intcmp_swap (a b : Int) : compare a b = (compare b a).swap :=
  OrientedCmp.eq_swap

theorem padCmp_swap (a b : List Int) : padCmp a b = (padCmp b a).swap := by
  fun_induction padCmp a b with
  | case1 => simp [padCmp]
  | case2 b bs ih => simp only [padCmp, Ordering.swap_then, ← ih, ← intcmp_swap]
  | case3 a as ih => simp only [padCmp, Ordering.swap_then, ← ih, ← intcmp_swap]
  | case4 a as b bs ih => simp only [padCmp, Ordering.swap_then, ← ih, ← intcmp_swap]

instance : OrientedCmp padCmp := ⟨padCmp_swap _ _⟩

theorem then_isLE_trans {a b c a' b' c' : Ordering}
    (h1 : a = .lt ∨ (a = .eq ∧ a'.isLE)) : True := trivial

/-- transitivity via pointwise characterisation -/
def getNum (l : List Int) (i : Nat) : Int := l.getD i 0

theorem padCmp_eq_iff (a b : List Int) : padCmp a b = .eq ↔ ∀ i, getNum a i = getNum b i := by
  fun_induction padCmp a b with
  | case1 => simp
  | case2 b bs ih =>
    simp only [Ordering.then_eq_eq, ih, compare_eq_iff_eq]
    constructor
    · rintro ⟨h0, h⟩ i
      cases i with
      | zero => simpa [getNum] using h0
      | succ i => simpa [getNum] using h i
    · intro h
      refine ⟨by simpa [getNum] using h 0, fun i => ?_⟩
      simpa [getNum] using h (i+1)
  | case3 a as ih =>
    simp only [Ordering.then_eq_eq, ih, compare_eq_iff_eq]
    constructor
    · rintro ⟨h0, h⟩ i
      cases i with
      | zero => simpa [getNum] using h0
      | succ i => simpa [getNum] using h i
    · intro h
      refine ⟨by simpa [getNum] using h 0, fun i => ?_⟩
      simpa [getNum] using h (i+1)
  | case4 a as b bs ih =>
    simp only [Ordering.then_eq_eq, ih, compare_eq_iff_eq]
    constructor
    · rintro ⟨h0, h⟩ i
      cases i with
      | zero => simpa [getNum] using h0
      | succ i => simpa [getNum] using h i
    · intro h
      refine ⟨by simpa [getNum] using h 0, fun i => ?_⟩
      simpa [getNum] using h (i+1)

end Spike
