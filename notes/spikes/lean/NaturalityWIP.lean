import Spike.IntervalNat
namespace Spike.IntervalB

variable {P V : Type}

def Span.mapG (g : P → V) (s : Span P) : Span V := ⟨s.unit, s.minOpen, s.maxOpen, g s.min, g s.max⟩
def PairResult.mapG (g : P → V) : PairResult P → PairResult V
  | .skip => .skip | .stop => .stop | .err => .err | .span s => .span (s.mapG g)

/-- g is an order embedding from (P,oP) into (V,oV) -/
structure Emb (oP : Ord3 P) (oV : Ord3 V) (g : P → V) : Prop where
  lt : ∀ a b, oV.lt (g a) (g b) = oP.lt a b
  eq : ∀ a b, oV.eq (g a) (g b) = oP.eq a b

theorem contains_nat {oP : Ord3 P} {oV : Ord3 V} {g : P → V} (e : Emb oP oV g) (s : Span P) (v : P) :
    contains oV (s.mapG g) (g v) = contains oP s v := by
  simp [contains, Span.mapG, e.lt, e.eq]

theorem newSpan_nat {oP : Ord3 P} {oV : Ord3 V} {g : P → V} (e : Emb oP oV g) (a : P) (ao : Bool) (b : P) (bo : Bool) :
    newSpan oV (g a) ao (g b) bo = (newSpan oP a ao b bo).map (Span.mapG g) := by
  simp only [newSpan, e.lt, e.eq]
  split
  · rfl
  · split <;> rfl

theorem interPair_nat {oP : Ord3 P} {oV : Ord3 V} {g : P → V} (e : Emb oP oV g) (s t : Span P) :
    interPairFixed oV (s.mapG g) (t.mapG g) = (interPairFixed oP s t).mapG g := by
  unfold interPairFixed
  simp only [Span.mapG, e.lt, e.eq]
  by_cases h1 : (oP.lt t.max s.min || oP.eq t.max s.min && (t.maxOpen || s.minOpen)) = true
  · simp only [h1, if_true]; rfl
  simp only [h1, if_false]
  by_cases h2 : (oP.lt s.max t.min || oP.eq t.min s.max && (t.minOpen || s.maxOpen)) = true
  · simp only [h2, if_true]; rfl
  simp only [h2, if_false]
  by_cases h3 : (oP.lt s.min t.min || oP.eq t.min s.min && t.minOpen) = true <;>
  by_cases h4 : (oP.lt t.max s.max || oP.eq t.max s.max && t.maxOpen) = true <;>
  simp only [h3, h4, if_true, if_false, newSpan_nat e] <;>
  (cases newSpan oP _ _ _ _ <;> rfl)

end Spike.IntervalB
