namespace Spike.IntervalB

/-- order interface the Go code uses -/
structure Ord3 (V : Type) where
  lt : V → V → Bool
  eq : V → V → Bool

structure Span (V : Type) where
  unit : Bool       -- rank unit vs vector (empty handled separately)
  minOpen : Bool
  maxOpen : Bool
  min : V
  max : V

variable {V : Type} (o : Ord3 V)

def contains (s : Span V) (v : V) : Bool :=
  if s.unit then o.eq s.min v else
  if (o.eq v s.min && s.minOpen) || o.lt v s.min then false else
  if (o.eq s.max v && s.maxOpen) || o.lt s.max v then false else true

inductive PairResult (V : Type) | skip | stop | err | span (s : Span V)

def newSpan (mn : V) (mo : Bool) (mx : V) (xo : Bool) : Option (Span V) :=
  if o.eq mn mx then some ⟨true, mo, xo, mn, mn⟩
  else if o.lt mn mx then some ⟨false, mo, xo, mn, mx⟩
  else none

def interPairFixed (s t : Span V) : PairResult V :=
  if o.lt t.max s.min || (o.eq t.max s.min && (t.maxOpen || s.minOpen)) then .skip else
  if o.lt s.max t.min || (o.eq t.min s.max && (t.minOpen || s.maxOpen)) then .stop else
  let mn := if o.lt s.min t.min || (o.eq t.min s.min && t.minOpen) then (t.min, t.minOpen) else (s.min, s.minOpen)
  let mx := if o.lt t.max s.max || (o.eq t.max s.max && t.maxOpen) then (t.max, t.maxOpen) else (s.max, s.maxOpen)
  match newSpan o mn.1 mn.2 mx.1 mx.2 with
  | none => .err
  | some sp => .span sp

def natOrd : Ord3 Nat := ⟨fun a b => decide (a < b), fun a b => decide (a = b)⟩

theorem inter_vec_vec_nat (s t : Span Nat) (v : Nat)
    (hs : s.unit = false) (ht : t.unit = false)
    (wfs : s.min < s.max) (wft : t.min < t.max) :
    match interPairFixed natOrd s t with
    | .span r => contains natOrd r v = (contains natOrd s v && contains natOrd t v)
    | .skip => (contains natOrd s v && contains natOrd t v) = false
    | .stop => (contains natOrd s v && contains natOrd t v) = false
    | .err => False := by
  obtain ⟨sr, smo, sxo, a, b⟩ := s
  obtain ⟨tr, tmo, txo, c, d⟩ := t
  simp only at hs ht wfs wft
  subst hs ht
  simp only [interPairFixed, contains, newSpan, natOrd]
  cases smo <;> cases sxo <;> cases tmo <;> cases txo <;> simp <;> grind

end Spike.IntervalB
