namespace Spike.Interval
open Std

variable {V : Type} (cmp : V → V → Ordering)

inductive Rank | empty | unit | vector deriving DecidableEq, Repr

structure Span (V : Type) where
  rank : Rank
  minOpen : Bool
  maxOpen : Bool
  min : V
  max : V

/-- span.contains with includePrerelease = true -/
def contains (s : Span V) (v : V) : Bool :=
  match s.rank with
  | .empty => false
  | .unit => cmp s.min v == .eq
  | .vector =>
    let c := cmp v s.min
    if (c == .eq && s.minOpen) || c == .lt then false else
    let d := cmp s.max v
    if (d == .eq && s.maxOpen) || d == .lt then false else true

/-- newSpan (no wildcard handling) : none = error -/
def newSpan (mn : V) (mo : Bool) (mx : V) (xo : Bool) : Option (Span V) :=
  match cmp mn mx with
  | .eq => some ⟨.unit, mo, xo, mn, mn⟩
  | .lt => some ⟨.vector, mo, xo, mn, mx⟩
  | .gt => none

inductive PairResult (V : Type) | skip | stop | err | span (s : Span V)

/-- body of Intersect's inner loop for one (selem, telem) pair, current code -/
def interPair (s t : Span V) : PairResult V :=
  if cmp t.max s.min == .lt || (cmp t.max s.min == .eq && t.maxOpen) then .skip else
  if cmp t.min s.max == .gt then .stop else
  let (mn, mo) := if cmp t.min s.min == .gt || (cmp t.min s.min == .eq && t.minOpen) then (t.min, t.minOpen) else (s.min, s.minOpen)
  let (mx, xo) := if cmp t.max s.max == .lt || (cmp t.max s.max == .eq && t.maxOpen) then (t.max, t.maxOpen) else (s.max, s.maxOpen)
  match newSpan cmp mn mo mx xo with
  | none => .err
  | some sp => .span sp

/-- well-formed non-empty span: unit has min = max; vector has min < max -/
def WF (s : Span V) : Prop :=
  match s.rank with
  | .empty => False
  | .unit => cmp s.min s.max = .eq
  | .vector => cmp s.min s.max = .lt

/-- what the law should be -/
def lawHolds (s t : Span V) (v : V) : Bool :=
  match interPair cmp s t with
  | .span r => contains cmp r v == (contains cmp s v && contains cmp t v)
  | .skip => (contains cmp s v && contains cmp t v) == false
  | .stop => (contains cmp s v && contains cmp t v) == false
  | .err => false

/-- fixed pair body: symmetric open-end checks -/
def interPairFixed (s t : Span V) : PairResult V :=
  if cmp t.max s.min == .lt || (cmp t.max s.min == .eq && (t.maxOpen || s.minOpen)) then .skip else
  if cmp t.min s.max == .gt || (cmp t.min s.max == .eq && (t.minOpen || s.maxOpen)) then .stop else
  let (mn, mo) := if cmp t.min s.min == .gt || (cmp t.min s.min == .eq && t.minOpen) then (t.min, t.minOpen) else (s.min, s.minOpen)
  let (mx, xo) := if cmp t.max s.max == .lt || (cmp t.max s.max == .eq && t.maxOpen) then (t.max, t.maxOpen) else (s.max, s.maxOpen)
  match newSpan cmp mn mo mx xo with
  | none => .err
  | some sp => .span sp

end Spike.Interval

namespace Spike.IntervalNat
open Spike.Interval
-- concrete counterexample on Nat
def c : Nat → Nat → Ordering := compare
def s : Span Nat := ⟨.vector, false, true, 1, 2⟩   -- [1,2)
def t : Span Nat := ⟨.vector, false, false, 2, 3⟩  -- [2,3]
example : lawHolds c s t 2 = false := by decide
end Spike.IntervalNat
