namespace Spike.Model

structure Ver where
  num : List Int
  pre : List String
  deriving Repr, DecidableEq

def isDigit (c : Char) : Bool := '0' ≤ c && c ≤ '9'

def parseNat? (s : String) : Option Nat :=
  if s.isEmpty || !s.all isDigit then none else some (s.foldl (fun n c => n*10 + (c.toNat - '0'.toNat)) 0)

def parse (s : String) : Option Ver :=
  let (core, pre) := match s.splitOn "-" with
    | [c] => (c, [])
    | c :: rest => (c, ("-".intercalate rest).splitOn ".")
    | [] => ("", [])
  let nums := core.splitOn "." |>.map parseNat?
  if nums.any Option.isNone then none else
  some { num := nums.filterMap id |>.map Int.ofNat, pre := pre }

def elemCmp (a b : String) : Ordering :=
  match parseNat? a, parseNat? b with
  | some x, some y => compare x y
  | some _, none => .lt
  | none, some _ => .gt
  | none, none => compare a b

def padCmp : List Int → List Int → Ordering
  | [], [] => .eq
  | [], b :: bs => (compare 0 b).then (padCmp [] bs)
  | a :: as, [] => (compare a 0).then (padCmp as [])
  | a :: as, b :: bs => (compare a b).then (padCmp as bs)

def cmp (a b : Ver) : Ordering :=
  (padCmp a.num b.num).then <|
    match a.pre, b.pre with
    | [], [] => .eq
    | [], _ => .gt
    | _, [] => .lt
    | p, q => List.compareLex elemCmp p q

end Spike.Model
