import Spike.Model
open Spike.Model

def ordStr : Ordering → String
  | .lt => "-1" | .eq => "0" | .gt => "1"

def step (line : String) : String :=
  match line.trimAscii.toString.splitOn " " with
  | ["cmp", a, b] =>
    match parse a, parse b with
    | some x, some y => ordStr (cmp x y)
    | _, _ => "err"
  | _ => "bad-op"

partial def loop (h : IO.FS.Stream) (out : IO.FS.Stream) : IO Unit := do
  let line ← h.getLine
  if line.isEmpty then return ()
  out.putStrLn (step line)
  loop h out

def main : IO Unit := do
  loop (← IO.getStdin) (← IO.getStdout)
