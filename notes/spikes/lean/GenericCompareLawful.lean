import Spike.Basic
namespace Spike.Generic
open Std Spike

/-- prerelease element key: numbers sort before non-numbers -/
inductive EK where
  | num (n : Int)
  | str (s : List UInt8)

def EK.cmp : EK → EK → Ordering
  | .num a, .num b => compare a b
  | .num _, .str _ => .lt
  | .str _, .num _ => .gt
  | .str a, .str b => compare a b

instance : OrientedCmp EK.cmp where
  eq_swap := by
    intro a b
    cases a <;> cases b <;> simp [EK.cmp]
    · exact OrientedCmp.eq_swap
    · exact OrientedCmp.eq_swap

instance : TransCmp EK.cmp where
  isLE_trans := by
    intro a b c h1 h2
    cases a <;> cases b <;> cases c <;> simp_all [EK.cmp]
    · exact TransCmp.isLE_trans h1 h2
    · exact TransCmp.isLE_trans h1 h2

/-- the generic comparator: zero-padded numbers, then prerelease lists with "no prerelease is greatest" -/
structure Ver where
  num : List Int
  pre : List EK

def preCmp : List EK → List EK → Ordering
  | [], [] => .eq
  | [], _ :: _ => .gt
  | _ :: _, [] => .lt
  | a, b => List.compareLex EK.cmp a b

def cmp (a b : Ver) : Ordering := (padCmp a.num b.num).then (preCmp a.pre b.pre)

instance : OrientedCmp preCmp where
  eq_swap := by
    intro a b
    cases a <;> cases b <;> simp [preCmp]
    exact OrientedCmp.eq_swap (cmp := List.compareLex EK.cmp)

instance : TransCmp preCmp where
  isLE_trans := by
    intro a b c h1 h2
    cases a <;> cases b <;> cases c <;> simp_all [preCmp]
    exact TransCmp.isLE_trans (cmp := List.compareLex EK.cmp) h1 h2

end Spike.Generic
