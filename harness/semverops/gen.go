package semverops

import (
	"math/rand"
	"regexp"
	"strings"

	"deps.dev/util/semver"
)

func Pick(r *rand.Rand, xs ...string) string { return xs[r.Intn(len(xs))] }

var numPool = []string{"0", "1", "2", "3", "10", "9", "01", "00", "007", "2147483647", "2147483648", "9223372036854775806", "9223372036854775807", "9223372036854775808", "18446744073709551616", "99"}

func num(r *rand.Rand) string {
	if r.Intn(5) == 0 {
		return numPool[r.Intn(len(numPool))]
	}
	return Pick(r, "0", "1", "2", "3", "10")
}

func smallNum(r *rand.Rand) string { return Pick(r, "0", "1", "2", "3", "10") }

var identPool = []string{"0", "1", "2", "10", "01", "00", "a", "A", "b", "alpha", "beta", "rc", "RC", "a-b", "x-1", "1a", "a1", "-", "--", "2147483647", "2147483648", "9223372036854775807", "9223372036854775808", "0a", "x", "X", "pre", "dev", "Beta", "beta", "Alpha", "ALPHA", "rC", "b-A", "B-a", "Zeta", "zeta", "Z", "z", "aZ", "az", "99999999999999999999", "100000000000000000000", "5a", "9000000000", "10000000000", "5a3f", "18446744073709551616"}

// IdentPool returns the prerelease identifier pool.
func IdentPool() []string { return identPool }

func ident(r *rand.Rand) string { return identPool[r.Intn(len(identPool))] }

// GenSemverLike generates versions of the SemVer family with permissive spellings.
func GenSemverLike(r *rand.Rand, sys semver.System) string {
	s := ""
	switch sys {
	case semver.Go:
		if r.Intn(20) != 0 {
			s = "v"
		}
	case semver.NPM:
		if r.Intn(6) == 0 {
			s = Pick(r, "v", "vv", "vvv")
		}
	case semver.Composer:
		if r.Intn(6) == 0 {
			s = Pick(r, "v", "V")
		}
	}
	k := 3
	switch r.Intn(8) {
	case 0:
		k = 1
	case 1:
		k = 2
	case 2:
		if sys == semver.NuGet || sys == semver.RubyGems || sys == semver.Composer {
			k = 4 + r.Intn(2)
		}
	}
	var p []string
	for i := 0; i < k; i++ {
		if r.Intn(25) == 0 {
			p = append(p, Pick(r, "x", "X", "*"))
		} else {
			p = append(p, num(r))
		}
	}
	s += strings.Join(p, ".")
	if r.Intn(2) == 0 {
		n := 1 + r.Intn(3)
		var q []string
		for i := 0; i < n; i++ {
			q = append(q, ident(r))
		}
		sep := "-"
		if sys == semver.RubyGems {
			sep = Pick(r, "-", ".", "")
		}
		s += sep + strings.Join(q, ".")
		if sys == semver.NuGet && r.Intn(10) == 0 {
			s += "*"
		}
	}
	if r.Intn(5) == 0 {
		s += "+" + Pick(r, "x", "y.1", "001", "a-b.c", "B")
	}
	return s
}

// GenPyPI generates PEP 440 versions with alternative spellings.
func GenPyPI(r *rand.Rand) string {
	s := ""
	if r.Intn(6) == 0 {
		s = Pick(r, "0!", "1!", "2!", "255!", "256!", "01!")
	}
	if r.Intn(8) == 0 {
		s += Pick(r, "v", "V")
	}
	k := 1 + r.Intn(4)
	var p []string
	for i := 0; i < k; i++ {
		p = append(p, num(r))
	}
	s += strings.Join(p, ".")
	if r.Intn(30) == 0 {
		s += ".*"
	}
	if r.Intn(3) == 0 {
		s += Pick(r, "", ".", "-", "_") + Pick(r, "a", "b", "rc", "alpha", "beta", "c", "pre", "preview", "A", "RC", "Beta") + Pick(r, "", ".", "-", "_") + Pick(r, "", "0", "1", "2", "01", "18446744073709551615", "9223372036854775808", "99999999999999999999∞", "1∞", "9223372036854775807")
	}
	if r.Intn(4) == 0 {
		s += Pick(r, ".post", "-post", "post", ".rev", "-r", "-", "_post.", ".POST") + Pick(r, "0", "1", "2", "")
	}
	if r.Intn(4) == 0 {
		s += Pick(r, ".dev", "dev", "-dev", "_dev", ".DEV") + Pick(r, "", "0", "1", "2")
	}
	if r.Intn(5) == 0 {
		s += "+" + Pick(r, "a", "A", "1", "01", "a.1", "1.a", "a-b", "ab", "2", "a_1", "1.2", "abc.1.x", "ABC", "abc", "18446744073709551616", "a-b_c", "ubuntu-20_04", "Ubuntu.1", "x_y-z.1", "CPU", "3e5f1a2", "1a2b", "git.3e5f1a2", "git.abc1234", "0a", "1A.2")
	}
	if r.Intn(40) == 0 {
		s = Pick(r, " ", "\t", " ") + s + Pick(r, " ", "\n", " ", "")
	}
	return s
}

var mavenQuals = []string{"alpha", "a", "beta", "b", "m", "milestone", "rc", "cr", "sp", "foo", "xyz", "RC", "Alpha", "ga", "final", "release", "snapshot", "jre", "Beta", "Final", "SP", "x"}

// GenMaven generates versions in the Maven Central shape of DESIGN 6.4
// (numeric prefix, optional qualifier, optional number, optional -SNAPSHOT).
func GenMaven(r *rand.Rand) string {
	k := 1 + r.Intn(4)
	var p []string
	for i := 0; i < k; i++ {
		p = append(p, Pick(r, "0", "1", "2", "10", "3", "01", "00", "4"))
	}
	s := strings.Join(p, ".")
	if r.Intn(2) == 0 {
		q := mavenQuals[r.Intn(len(mavenQuals))]
		s += Pick(r, "-", ".", "") + q
		if r.Intn(2) == 0 {
			s += Pick(r, "-", ".", "") + Pick(r, "0", "1", "2", "10", "01")
		}
	}
	if r.Intn(4) == 0 {
		s += "-SNAPSHOT"
	}
	return s
}

// GenMavenExotic generates strings outside the 6.4 shape (any string is a Maven version).
func GenMavenExotic(r *rand.Rand) string {
	n := 1 + r.Intn(6)
	var b strings.Builder
	for i := 0; i < n; i++ {
		b.WriteString(Pick(r, "1", "0", "2", "10", "a", "alpha", "beta", "rc", "sp", "ga", "final", "foo", "-", ".", "--", "..", "_", "+", "snapshot", "SNAPSHOT", "1a", "b2", "x", "∞", "01", "m", "M1"))
	}
	return b.String()
}

// GenGem generates RubyGems versions.
func GenGem(r *rand.Rand) string {
	k := 1 + r.Intn(4)
	var p []string
	for i := 0; i < k; i++ {
		p = append(p, Pick(r, "0", "1", "2", "10", "01", "00", "3"))
	}
	s := strings.Join(p, ".")
	if r.Intn(2) == 0 {
		n := 1 + r.Intn(4)
		for i := 0; i < n; i++ {
			s += Pick(r, ".", "-", "", ".") + Pick(r, "a", "b", "pre", "rc", "0", "1", "00", "2", "alpha", "A", "x1", "1x", "beta2")
		}
	}
	return s
}

// GenVersion draws a version string for the system: mostly valid.
func GenVersion(r *rand.Rand, sys semver.System) string {
	switch sys {
	case semver.PyPI:
		return GenPyPI(r)
	case semver.Maven:
		if r.Intn(6) == 0 {
			return GenMavenExotic(r)
		}
		return GenMaven(r)
	case semver.RubyGems:
		if r.Intn(3) == 0 {
			return GenSemverLike(r, sys)
		}
		return GenGem(r)
	}
	return GenSemverLike(r, sys)
}

var soupTokens = []string{"0", "1", "2", "10", "01", ".", "-", "+", "*", "x", "X", "v", "V", "a", "b", "rc", "alpha", "!", "_", " ", "∞", "~", "^", ">", "<", "=", ",", "|", "[", "]", "(", ")", "post", "dev", "pre", "\xff", "é", "\x00", "\t", "9223372036854775807", "9223372036854775808", "/", ":", "@", "{", "}", " "}

// TokenSoup concatenates random tokens: the malformed stream.
func TokenSoup(r *rand.Rand, maxTokens int) string {
	n := 1 + r.Intn(maxTokens)
	var b strings.Builder
	for i := 0; i < n; i++ {
		b.WriteString(soupTokens[r.Intn(len(soupTokens))])
	}
	return b.String()
}

// Mutate applies a byte-level mutation to a valid input.
func Mutate(r *rand.Rand, s string) string {
	if len(s) == 0 {
		return TokenSoup(r, 3)
	}
	b := []byte(s)
	switch r.Intn(6) {
	case 0: // delete
		i := r.Intn(len(b))
		b = append(b[:i], b[i+1:]...)
	case 1: // duplicate
		i := r.Intn(len(b))
		b = append(b[:i+1], b[i:]...)
	case 2: // replace with token
		i := r.Intn(len(b))
		t := soupTokens[r.Intn(len(soupTokens))]
		b = append(b[:i], append([]byte(t), b[i+1:]...)...)
	case 3: // insert token
		i := r.Intn(len(b) + 1)
		t := soupTokens[r.Intn(len(soupTokens))]
		b = append(b[:i], append([]byte(t), b[i:]...)...)
	case 4: // truncate
		b = b[:r.Intn(len(b))]
	case 5: // swap
		i, j := r.Intn(len(b)), r.Intn(len(b))
		b[i], b[j] = b[j], b[i]
	}
	return string(b)
}

// Exhaustive returns every concatenation of up to k tokens of the alphabet.
func Exhaustive(alphabet []string, k int) []string {
	out := []string{}
	var rec func(prefix string, depth int)
	rec = func(prefix string, depth int) {
		if depth > 0 {
			out = append(out, prefix)
		}
		if depth == k {
			return
		}
		for _, t := range alphabet {
			rec(prefix+t, depth+1)
		}
	}
	rec("", 0)
	return out
}

// SmallAlphabet is the per-grammar token alphabet for the small-scope exhaustive stream.
func SmallAlphabet(sys semver.System) []string {
	switch sys {
	case semver.RubyGems:
		return []string{"1", "0", "00", "a", "b", ".", "-"}
	case semver.Maven:
		return []string{"1", "0", "01", "a", "rc", "sp", "ga", ".", "-"}
	case semver.PyPI:
		return []string{"1", "0", ".", "a", "rc", "post", "dev", "+", "-", "!"}
	case semver.Go:
		return []string{"v", "1", "0", ".", "-", "a", "+"}
	case semver.NuGet:
		return []string{"1", "0", ".", "-", "a", "A", "*", "+"}
	}
	return []string{"1", "0", "01", ".", "-", "a", "x", "+"}
}

// ---- constraint generators ----

func cverNums(r *rand.Rand, k int) string {
	var p []string
	for i := 0; i < k; i++ {
		p = append(p, Pick(r, "0", "1", "2", "3"))
	}
	return strings.Join(p, ".")
}

// OperandPool, when non-empty, makes GenCVersion reuse these operand versions most of the
// time, so that two constraints share end points (equal bounds with different open/closed
// flags, abutting and nested spans). Set by the harness around a generation call.
var OperandPool []string

var operandRE = regexp.MustCompile(`v?[0-9xX*]+(\.[0-9xX*]+)*(-[0-9A-Za-z.-]+)?`)

// Operands extracts the version-like operands of a constraint string.
func Operands(c string) []string { return operandRE.FindAllString(c, -1) }

// GenCVersion generates an operand version for a constraint: partial, wildcard, prerelease.
func GenCVersion(r *rand.Rand, sys semver.System) string {
	if len(OperandPool) > 0 && r.Intn(10) < 6 {
		return OperandPool[r.Intn(len(OperandPool))]
	}
	k := 3
	if r.Intn(3) == 0 {
		k = 1 + r.Intn(2)
	}
	if (sys == semver.PyPI || sys == semver.RubyGems || sys == semver.NuGet) && r.Intn(8) == 0 {
		k = 4
	}
	s := cverNums(r, k)
	if sys == semver.NuGet && r.Intn(7) == 0 {
		// NuGet floating versions, incl. a floating fourth component
		return cverNums(r, 1+r.Intn(3)) + Pick(r, ".*", ".*", ".*-*", "-*", ".0.*", ".*", "."+cverNums(r, 1)+".*", "*-Ab*", "*-rc*", "-Beta*", "*-*", "*")
	}
	switch sys {
	case semver.PyPI:
		if r.Intn(8) == 0 {
			s += ".*"
		} else if r.Intn(5) == 0 {
			s += Pick(r, "a1", "b2", "rc1", ".post1", ".dev1", "a0")
		}
		return s
	case semver.Maven:
		if r.Intn(4) == 0 {
			s += Pick(r, "-alpha", "-beta-1", "-rc1", "-SNAPSHOT", ".sp", "-foo", ".ga")
		}
		return s
	case semver.RubyGems:
		if r.Intn(5) == 0 {
			s += Pick(r, ".a", ".pre", ".rc1", "-b")
		}
		return s
	case semver.Go:
		s = "v" + cverNums(r, 3)
		if r.Intn(4) == 0 {
			s += Pick(r, "-a", "-b.1", "-0", "+inc")
		}
		return s
	}
	if k < 3 && r.Intn(3) == 0 {
		s += "." + Pick(r, "x", "X", "*")
	} else if r.Intn(12) == 0 {
		s = Pick(r, "*", "x", "1.x", "1.*.2", "x.1", "x.1.2", "*.0.0", "X.2.3", "x.x.1", "1.x.x", "*.*.*", "0.x.0")
	}
	if k == 3 && r.Intn(3) == 0 {
		s += "-" + Pick(r, "a", "b", "1", "a.1", "0", "rc.2", "A", "Zeta", "zeta", "Beta", "rc", "RC.1", "rc.011", "01", "rc.11", "0.01", "alpha.007", "11")
		if sys == semver.NuGet && r.Intn(6) == 0 {
			s += "*"
		}
	}
	if r.Intn(12) == 0 {
		s += "+b1"
	}
	return s
}

var opsBySys = map[semver.System][]string{
	semver.DefaultSystem: {"", "=", ">", ">=", "<", "<=", "^", "~", "~>"},
	semver.NPM:           {"", "=", ">", ">=", "<", "<=", "^", "~", "~>"},
	semver.Cargo:         {"", "=", ">", ">=", "<", "<=", "^", "~"},
	semver.Composer:      {"", "=", ">", ">=", "<", "<=", "^", "~"},
	semver.PyPI:          {"==", ">", ">=", "<", "<=", "!=", "~=", "=="},
	semver.RubyGems:      {"=", ">", ">=", "<", "<=", "!=", "~>", ""},
}

// GenConstraint generates a constraint in the system's grammar, mostly valid.
func GenConstraint(r *rand.Rand, sys semver.System) string {
	sp := func() string { return Pick(r, "", "", " ", "  ") }
	switch sys {
	case semver.Go:
		return GenCVersion(r, sys)
	case semver.Maven, semver.NuGet:
		n := 1
		if sys == semver.Maven && r.Intn(3) == 0 {
			n = 2 + r.Intn(2)
		}
		var parts []string
		for i := 0; i < n; i++ {
			switch r.Intn(6) {
			case 0:
				parts = append(parts, GenCVersion(r, sys))
			case 1:
				parts = append(parts, "["+GenCVersion(r, sys)+"]")
			default:
				lo, hi := GenCVersion(r, sys), GenCVersion(r, sys)
				if r.Intn(6) == 0 {
					lo = ""
				}
				if r.Intn(6) == 0 {
					hi = ""
				}
				parts = append(parts, Pick(r, "[", "(")+sp()+lo+sp()+","+sp()+hi+sp()+Pick(r, "]", ")"))
			}
		}
		return strings.Join(parts, ",")
	}
	ops := opsBySys[sys]
	andSep := " "
	switch sys {
	case semver.Cargo, semver.RubyGems:
		andSep = ","
	case semver.PyPI:
		andSep = Pick(r, ",", ", ", " , ")
	case semver.Composer:
		andSep = ","
	case semver.DefaultSystem:
		andSep = Pick(r, " ", ",", ", ")
	}
	alt := func() string {
		if (sys == semver.NPM || sys == semver.DefaultSystem || sys == semver.Composer) && r.Intn(7) == 0 {
			return GenCVersion(r, sys) + " - " + GenCVersion(r, sys)
		}
		n := 1 + r.Intn(3)
		if r.Intn(2) == 0 {
			n = 1
		}
		var ps []string
		for i := 0; i < n; i++ {
			ps = append(ps, ops[r.Intn(len(ops))]+sp()+GenCVersion(r, sys))
		}
		return strings.Join(ps, andSep)
	}
	s := alt()
	if sys == semver.NPM || sys == semver.DefaultSystem || sys == semver.Composer {
		for r.Intn(3) == 0 {
			s += Pick(r, " || ", "||", " ||") + alt()
		}
	}
	return s
}

// ProbeVersions returns candidate versions around the numbers used by GenCVersion.
func ProbeVersions(sys semver.System) []string {
	var out []string
	pre := []string{"", "-a", "-b", "-0", "-a.1", "-1", "-rc.2"}
	switch sys {
	case semver.PyPI:
		pre = []string{"", "a1", "rc1", ".post1", ".dev1", "a0", "+loc"}
	case semver.Maven:
		pre = []string{"", "-alpha", "-rc1", "-SNAPSHOT", ".sp", "-foo"}
	case semver.RubyGems:
		pre = []string{"", ".a", ".pre", ".rc1"}
	}
	head := ""
	if sys == semver.Go {
		head = "v"
	}
	for a := 0; a < 4; a++ {
		for b := 0; b < 4; b++ {
			for c := 0; c < 4; c++ {
				for _, p := range pre {
					out = append(out, head+strings.Join([]string{itoa(a), itoa(b), itoa(c)}, ".")+p)
				}
			}
		}
	}
	out = append(out, head+"4.0.0", head+"99.0.0", head+"0.0.0")
	if sys != semver.PyPI && sys != semver.Maven && sys != semver.RubyGems {
		out = append(out, head+"0.0.0-0")
	}
	return out
}

func itoa(i int) string { return string(rune('0' + i)) }

// Variants returns up to n distinct strings obtained from base by ONE or TWO small
// spelling-level edits each (case of a letter, leading zero, separator change, a
// neighbouring letter/digit, trailing .0, an added or dropped component). Families of
// such near-equal versions are what comparison defects need: two members that the
// comparator identifies (or not) through one code path and a third that tells them apart.
func Variants(r *rand.Rand, base string, n int) []string {
	seen := map[string]bool{base: true}
	var out []string
	edit := func(s string) string {
		if s == "" {
			return s
		}
		b := []byte(s)
		letters, digits, seps := []int{}, []int{}, []int{}
		for i, ch := range b {
			switch {
			case ch >= 'a' && ch <= 'z' || ch >= 'A' && ch <= 'Z':
				letters = append(letters, i)
			case ch >= '0' && ch <= '9':
				digits = append(digits, i)
			case ch == '.' || ch == '-' || ch == '_' || ch == '+':
				seps = append(seps, i)
			}
		}
		switch r.Intn(12) {
		case 0: // toggle the case of one letter
			if len(letters) > 0 {
				i := letters[r.Intn(len(letters))]
				b[i] ^= 0x20
			}
		case 1: // upper-case or lower-case one whole alphabetic run
			if len(letters) > 0 {
				i := letters[r.Intn(len(letters))]
				up := r.Intn(2) == 0
				for j := i; j < len(b) && (b[j]|0x20) >= 'a' && (b[j]|0x20) <= 'z'; j++ {
					if up {
						b[j] &^= 0x20
					} else {
						b[j] |= 0x20
					}
				}
			}
		case 2: // leading zero on a number
			if len(digits) > 0 {
				i := digits[r.Intn(len(digits))]
				for i > 0 && b[i-1] >= '0' && b[i-1] <= '9' {
					i--
				}
				return s[:i] + "0" + s[i:]
			}
		case 3: // change one separator
			if len(seps) > 0 {
				i := seps[r.Intn(len(seps))]
				return s[:i] + Pick(r, ".", "-", "_", "", ".", "-") + s[i+1:]
			}
		case 4: // neighbouring letter
			if len(letters) > 0 {
				i := letters[r.Intn(len(letters))]
				switch b[i] | 0x20 {
				case 'z':
					b[i]--
				case 'a':
					b[i]++
				default:
					b[i] += byte(2*r.Intn(2)) - 1
				}
			}
		case 5: // neighbouring digit
			if len(digits) > 0 {
				i := digits[r.Intn(len(digits))]
				if b[i] == '9' {
					b[i] = '8'
				} else if b[i] == '0' || r.Intn(2) == 0 {
					b[i]++
				} else {
					b[i]--
				}
			}
		case 6: // a zero component before the first non-numeric part, or at the end
			if i := strings.IndexAny(s, "-+_"); i > 0 && r.Intn(2) == 0 {
				return s[:i] + ".0" + s[i:]
			}
			return s + ".0"
		case 7:
			return strings.TrimSuffix(s, ".0")
		case 8: // add a component
			return s + Pick(r, ".1", "-1", ".a", "-a", "-rc1", ".rc.1", "+b", ".post1", ".dev0", "-SNAPSHOT", ".0.1", "a", "1", ".Z", "-z")
		case 9: // drop the last component
			if len(seps) > 0 {
				return s[:seps[len(seps)-1]]
			}
		case 10: // duplicate a component in place
			if len(seps) > 0 {
				i := seps[r.Intn(len(seps))]
				j := i + 1
				for j < len(s) && !strings.ContainsRune(".-_+", rune(s[j])) {
					j++
				}
				return s[:j] + s[i:j] + s[j:]
			}
		default: // swap two adjacent components
			if len(seps) > 1 {
				k := r.Intn(len(seps) - 1)
				i, j := seps[k], seps[k+1]
				e := j + 1
				for e < len(s) && !strings.ContainsRune(".-_+", rune(s[e])) {
					e++
				}
				return s[:i+1] + s[j+1:e] + s[j:j+1] + s[i+1:j] + s[e:]
			}
		}
		return string(b)
	}
	for tries := 0; len(out) < n && tries < n*12; tries++ {
		v := edit(base)
		if r.Intn(3) == 0 {
			v = edit(v)
		}
		if len(out) > 0 && r.Intn(4) == 0 { // chains: a variant of a variant
			v = edit(out[r.Intn(len(out))])
		}
		if !seen[v] && v != "" {
			seen[v] = true
			out = append(out, v)
		}
	}
	return out
}
