// Package semverops executes semver op lines against the real util/semver
// and renders canonical results. Shared by the semver-based properties.
package semverops

import (
	"fmt"
	"sort"
	"strings"

	"deps.dev/util/pypi"
	"deps.dev/util/semver"

	"verifharness/fw"
)

var Systems = []semver.System{semver.DefaultSystem, semver.Cargo, semver.Go, semver.Maven, semver.NPM, semver.NuGet, semver.PyPI, semver.RubyGems, semver.Composer}

var SysNames = map[string]semver.System{}

func init() {
	for _, s := range Systems {
		SysNames[s.String()] = s
	}
}

func b2i(b bool) int {
	if b {
		return 1
	}
	return 0
}

// InModelDomain reports whether the version/constraint text is inside the
// byte domain the Lean model covers for the system: Maven and RubyGems
// lower-case their input with strings.ToLower, which the model has for ASCII
// (and '∞') only.
func InModelDomain(sys semver.System, s string) bool {
	if sys != semver.Maven && sys != semver.RubyGems {
		return true
	}
	t := strings.ReplaceAll(s, "∞", "")
	for i := 0; i < len(t); i++ {
		if t[i] >= 0x80 {
			return false
		}
	}
	return true
}

// DumpVersion renders everything the public API shows of a parsed version.
func DumpVersion(v *semver.Version) string {
	return fmt.Sprintf("c=%s s=%s p=%d w=%d pre=%s", fw.Hx(v.Canon(true)), fw.Hx(v.Canon(false)), b2i(v.IsPrerelease()), b2i(v.IsWildcard()), fw.Hx(v.Prerelease()))
}

// DumpConstraint renders what the public API shows of a constraint.
func DumpConstraint(c *semver.Constraint) string {
	return fmt.Sprintf("set=%s simple=%d pre=%d e=%d", fw.Hx(c.Set().String()), b2i(c.IsSimple()), b2i(c.HasPrerelease()), b2i(c.Set().Empty()))
}

// Exec handles the semver ops. f[0] is the op.
func Exec(f []string) (string, bool) {
	switch f[0] {
	case "parse":
		sys, ok := SysNames[f[1]]
		if !ok || len(f) != 3 {
			return "bad-op", true
		}
		v, err := sys.Parse(fw.Unhx(f[2]))
		if err != nil {
			return "err", true
		}
		return "ok " + DumpVersion(v), true
	case "cparse": // cparse <Sys> <hex constraint>
		sys, ok := SysNames[f[1]]
		if !ok || len(f) != 3 {
			return "bad-op", true
		}
		c, err := sys.ParseConstraint(fw.Unhx(f[2]))
		if err != nil {
			return "err", true
		}
		return "ok " + DumpConstraint(c), true
	case "setparse": // setparse <Sys> <hex set text>
		sys, ok := SysNames[f[1]]
		if !ok || len(f) != 3 {
			return "bad-op", true
		}
		c, err := sys.ParseSetConstraint(fw.Unhx(f[2]))
		if err != nil {
			return "err", true
		}
		return "ok " + DumpConstraint(c), true
	case "match", "setmatch": // match <Sys> <hex constraint> <hex version>
		sys, ok := SysNames[f[1]]
		if !ok || len(f) != 4 {
			return "bad-op", true
		}
		var c *semver.Constraint
		var err error
		if f[0] == "match" {
			c, err = sys.ParseConstraint(fw.Unhx(f[2]))
		} else {
			c, err = sys.ParseSetConstraint(fw.Unhx(f[2]))
		}
		if err != nil {
			return "err", true
		}
		v, err := sys.Parse(fw.Unhx(f[3]))
		if err != nil {
			return fmt.Sprintf("ok verr s=%d", b2i(c.Match(fw.Unhx(f[3])))), true
		}
		return fmt.Sprintf("ok m=%d mp=%d s=%d", b2i(c.MatchVersion(v)), b2i(c.MatchVersionPrerelease(v)), b2i(c.Match(fw.Unhx(f[3])))), true
	case "setop": // setop union|inter <Sys> <hexA> <hexB> <hexV>...
		sys, ok := SysNames[f[2]]
		if !ok || len(f) < 5 || (f[1] != "union" && f[1] != "inter") {
			return "bad-op", true
		}
		// an operand written in set notation ({...}) is parsed with ParseSetConstraint
		pc := func(t string) (*semver.Constraint, error) {
			if strings.HasPrefix(t, "{") {
				return sys.ParseSetConstraint(t)
			}
			return sys.ParseConstraint(t)
		}
		ca, e1 := pc(fw.Unhx(f[3]))
		cb, e2 := pc(fw.Unhx(f[4]))
		if e1 != nil || e2 != nil {
			return "err", true
		}
		s := ca.Set()
		t := cb.Set()
		var err error
		if f[1] == "union" {
			err = s.Union(t)
		} else {
			err = s.Intersect(t)
		}
		if err != nil {
			return "operr", true
		}
		var b strings.Builder
		fmt.Fprintf(&b, "ok r=%s e=%d bafter=%s", fw.Hx(s.String()), b2i(s.Empty()), fw.Hx(t.String()))
		// membership of each probe version: release-mode via Set.MatchVersion, inclusive mode via
		// ParseSetConstraint(Set.String()).MatchVersionPrerelease, as the property's observation points say.
		rp, rperr := sys.ParseSetConstraint(s.String())
		if rperr != nil {
			b.WriteString(" reparse=err")
		}
		for _, hv := range f[5:] {
			v, err := sys.Parse(fw.Unhx(hv))
			if err != nil {
				b.WriteString(" x")
				continue
			}
			fresh, _ := sys.Parse(fw.Unhx(hv))
			// A and B are re-parsed so that the probes see unmodified operands
			a2, _ := pc(fw.Unhx(f[3]))
			b2, _ := pc(fw.Unhx(f[4]))
			rpm := 2
			if rperr == nil {
				rpm = b2i(rp.MatchVersionPrerelease(v))
			}
			fmt.Fprintf(&b, " %d%d%d%d%d%d", b2i(a2.Set().MatchVersion(v)), b2i(b2.Set().MatchVersion(v)), b2i(s.MatchVersion(v)),
				b2i(a2.MatchVersionPrerelease(fresh)), b2i(b2.MatchVersionPrerelease(fresh)), rpm)
		}
		return b.String(), true
	case "sortcls": // sortcls <Sys> <hex>... : sort with System.Compare; print the sequence of equivalence classes
		sys, ok := SysNames[f[1]]
		if !ok {
			return "bad-op", true
		}
		var vs []string
		for _, h := range f[2:] {
			vs = append(vs, fw.Unhx(h))
		}
		sort.Slice(vs, func(i, j int) bool { return sys.Compare(vs[i], vs[j]) < 0 })
		var classes [][]string
		for i, v := range vs {
			if i > 0 && sys.Compare(vs[i-1], v) == 0 {
				classes[len(classes)-1] = append(classes[len(classes)-1], v)
			} else {
				classes = append(classes, []string{v})
			}
		}
		var b strings.Builder
		b.WriteString("ok")
		for _, c := range classes {
			sort.Strings(c)
			b.WriteString(" [")
			for i, v := range c {
				if i > 0 {
					b.WriteString(",")
				}
				b.WriteString(fw.Hx(v))
			}
			b.WriteString("]")
		}
		return b.String(), true
	case "pcanon": // pypi.CanonVersion
		if len(f) != 2 {
			return "bad-op", true
		}
		return "ok " + fw.Hx(pypi.CanonVersion(fw.Unhx(f[1]))), true
	case "diff":
		sys, ok := SysNames[f[1]]
		if !ok || len(f) != 4 {
			return "bad-op", true
		}
		c, d, err := sys.Difference(fw.Unhx(f[2]), fw.Unhx(f[3]))
		if err != nil {
			return "err", true
		}
		return fmt.Sprintf("ok %d %d", fw.Sgn(c), int(d)), true
	case "cmp":
		sys, ok := SysNames[f[1]]
		if !ok || len(f) != 4 {
			return "bad-op", true
		}
		return fmt.Sprintf("ok %d", fw.Sgn(sys.Compare(fw.Unhx(f[2]), fw.Unhx(f[3])))), true
	}
	return "", false
}
