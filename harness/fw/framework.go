// Package main is the correspondence/oracle harness. It is rebuilt on every
// check from /repo's current working tree (see go.mod replace directives).
//
// Protocol (DESIGN.md Appendix A): every operation is one ASCII line
// "<PROP> <op> <args...>"; byte strings are hex encoded ("-" for empty). The
// harness executes each line against the real Go code (Prop.Exec), writes the
// line to ops.txt and the canonical result to go.txt. The runner pipes ops.txt
// through the Lean driver and diffs. Oracles are functions of op lines and
// their Go results only (Prop.Recheck), so a failure can be replayed from the
// op lines alone.
package fw

import (
	"bufio"
	"encoding/hex"
	"encoding/json"
	"flag"
	"fmt"
	"math/rand"
	"os"
	"path/filepath"
	"runtime/debug"
	"sort"
	"strings"
	"sync"
	"sync/atomic"
	"time"
)

// Prop is one property's harness.
type Prop struct {
	ID string
	// Exec runs one op line against the real code and returns the canonical
	// result ("ok ...", "err", ...). It may panic; the framework recovers.
	Exec func(fields []string) string
	// Run generates inputs for the tier, calling c.Op and c.Check.
	Run func(c *Ctx)
	// Recheck evaluates the named oracle on op lines and their results.
	Recheck func(oracle string, ops, res []string) (violated bool, detail string)
	// Classify names the known-finding class (the negated hypothesis of the
	// partial theorem) that the failing case falls in, or "".
	Classify func(oracle string, ops, res []string) string
	// Rule describes generation and what counts as non-trivial.
	Rule string
	// Gens are the translator's generators this property's theorems rest on
	// (run by "<bin> gen -repo /repo -out <dir>").
	Gens []Generator
}

type Failure struct {
	Oracle string   `json:"oracle"`
	Detail string   `json:"detail"`
	Ops    []int    `json:"ops"`
	Lines  []string `json:"lines"`
	Res    []string `json:"res"`
	Class  string   `json:"class"`
}

type Witness struct {
	ID         string   `json:"id"`
	Oracle     string   `json:"oracle"`
	Ops        []int    `json:"ops"`
	Lines      []string `json:"lines"`
	Res        []string `json:"res"`
	StillFails bool     `json:"still_fails"`
	Detail     string   `json:"detail"`
}

type Report struct {
	Property     string         `json:"property"`
	Tier         string         `json:"tier"`
	Seed         int64          `json:"seed"`
	Ops          int            `json:"ops"`
	OracleChecks int64          `json:"oracle_checks"`
	Nontrivial   int            `json:"distinct_nontrivial"`
	Rule         string         `json:"rule"`
	Samples      []string       `json:"samples"`
	Distribution map[string]int `json:"distribution"`
	Failures     []Failure      `json:"failures"`
	FailureCount int            `json:"failure_count"`
	ClassTally   map[string]int `json:"class_tally"`
	Witnesses    []Witness      `json:"witnesses"`
	Notes        []string       `json:"notes"`
	WallS        float64        `json:"wall_s"`
}

type Ctx struct {
	P      *Prop
	Tier   string
	Seed   int64
	Rng    *rand.Rand
	Thor   bool
	mu     sync.Mutex
	ops    *bufio.Writer
	res    *bufio.Writer
	lines  []string
	result []string
	rep    *Report
	nontr  map[string]struct{}
	cache  map[string]int
}

// watchdog state
var curFile *os.File
var curOp atomic.Value // string
var curStart atomic.Int64

// execSafe runs one op on the real code. An op that reports `timeout` (its own deadline
// expired) is executed a second time and the second answer counts: a stalled machine cannot
// turn a finishing call into a hang, while genuine non-termination times out again.
func execSafe(p *Prop, line string) string {
	res := execOnce(p, line)
	if res == "timeout" {
		res = execOnce(p, line)
	}
	return res
}

func execOnce(p *Prop, line string) (res string) {
	defer func() {
		if r := recover(); r != nil {
			res = "panic"
			if os.Getenv("VERIF_DEBUG") != "" {
				fmt.Fprintf(os.Stderr, "panic on %q: %v\n%s\n", line, r, debug.Stack())
			}
		}
	}()
	curOp.Store(line)
	curStart.Store(time.Now().UnixNano())
	if curFile != nil {
		// a fatal runtime error (stack overflow, out of memory) kills the process without
		// unwinding: leave the op being executed where the runner can find it
		curFile.Truncate(0)
		curFile.WriteAt([]byte(line+"\n"), 0)
	}
	defer curStart.Store(0)
	f := strings.Fields(line)
	if len(f) < 2 || f[0] != p.ID {
		return "bad-op"
	}
	return p.Exec(f[1:])
}

// Op executes one op line (deduplicated: the same line is executed and
// written once) and returns its index and Go result.
func (c *Ctx) Op(line string) (int, string) {
	c.mu.Lock()
	if i, ok := c.cache[line]; ok {
		r := c.result[i]
		c.mu.Unlock()
		return i, r
	}
	c.mu.Unlock()
	r := execSafe(c.P, line)
	r = strings.ReplaceAll(r, "\n", "\\n")
	c.mu.Lock()
	defer c.mu.Unlock()
	if i, ok := c.cache[line]; ok {
		return i, c.result[i]
	}
	i := len(c.lines)
	c.lines = append(c.lines, line)
	c.result = append(c.result, r)
	c.cache[line] = i
	fmt.Fprintln(c.ops, line)
	fmt.Fprintln(c.res, r)
	return i, r
}

func (c *Ctx) Opf(format string, a ...any) (int, string) { return c.Op(fmt.Sprintf(format, a...)) }

// Check evaluates the oracle on the given ops; records a failure if violated.
func (c *Ctx) Check(oracle string, idx ...int) bool {
	atomic.AddInt64(&c.rep.OracleChecks, 1)
	ls := make([]string, len(idx))
	rs := make([]string, len(idx))
	c.mu.Lock()
	for k, i := range idx {
		ls[k], rs[k] = c.lines[i], c.result[i]
	}
	c.mu.Unlock()
	bad, detail := c.P.Recheck(oracle, ls, rs)
	if !bad {
		return true
	}
	class := ""
	if c.P.Classify != nil {
		class = c.P.Classify(oracle, ls, rs)
	}
	c.mu.Lock()
	defer c.mu.Unlock()
	c.rep.FailureCount++
	c.rep.ClassTally[class]++
	// keep all unclassified failures up to a cap, and a few per class
	if (class == "" && c.rep.ClassTally[""] <= 200) || (class != "" && c.rep.ClassTally[class] <= 3000) {
		c.rep.Failures = append(c.rep.Failures, Failure{oracle, detail, idx, ls, rs, class})
	}
	return false
}

// Tally adds n evaluations of an in-memory oracle that found nothing.
func (c *Ctx) Tally(n int64) { atomic.AddInt64(&c.rep.OracleChecks, n) }

func (c *Ctx) Count(key string) {
	c.mu.Lock()
	c.rep.Distribution[key]++
	c.mu.Unlock()
}

func (c *Ctx) Nontrivial(key string) {
	c.mu.Lock()
	c.nontr[key] = struct{}{}
	c.mu.Unlock()
}

func (c *Ctx) Sample(s string) {
	c.mu.Lock()
	if len(c.rep.Samples) < 12 {
		c.rep.Samples = append(c.rep.Samples, s)
	}
	c.mu.Unlock()
}

func (c *Ctx) Note(s string) {
	c.mu.Lock()
	c.rep.Notes = append(c.rep.Notes, s)
	c.mu.Unlock()
}

// N picks a size by tier.
func (c *Ctx) N(quick, thorough int) int {
	if c.Thor {
		return thorough
	}
	return quick
}

// Hx hex-encodes a byte string for the wire ("-" for empty).
func Hx(s string) string {
	if s == "" {
		return "-"
	}
	return hex.EncodeToString([]byte(s))
}

// Unhx decodes Hx.
func Unhx(s string) string {
	if s == "-" {
		return ""
	}
	b, err := hex.DecodeString(s)
	if err != nil {
		panic("bad hex " + s)
	}
	return string(b)
}

// Sgn returns the sign of i.
func Sgn(i int) int {
	if i < 0 {
		return -1
	}
	if i > 0 {
		return 1
	}
	return 0
}

type knownFinding struct {
	ID       string   `json:"id"`
	Property string   `json:"property"`
	Status   string   `json:"status"`
	Oracle   string   `json:"oracle"`
	Witness  []string `json:"witness"`
	What     string   `json:"what"`
}

// Main is the entry point of a per-property harness binary:
//
//	<bin> gen   -repo /repo -out <dir>
//	<bin> drive -tier T -seed N -out <dir> [-known f] [-corpus d] [-replay f]
func Main(p *Prop) {
	if len(os.Args) < 2 {
		fmt.Fprintln(os.Stderr, "usage: <bin> gen|drive [flags]")
		os.Exit(2)
	}
	mode := os.Args[1]
	os.Args = append(os.Args[:1], os.Args[2:]...)
	if mode == "gen" {
		genMain(p.Gens)
		return
	}
	if mode != "drive" {
		fmt.Fprintln(os.Stderr, "unknown mode", mode)
		os.Exit(2)
	}
	tier := flag.String("tier", "quick", "quick|thorough")
	seed := flag.Int64("seed", 1, "PRNG seed")
	out := flag.String("out", "", "output directory")
	replay := flag.String("replay", "", "replay file (json with ops/oracle)")
	kf := flag.String("known", "", "known_findings.json")
	corpus := flag.String("corpus", "", "corpus directory for this property")
	flag.Parse()
	if err := os.MkdirAll(*out, 0o755); err != nil {
		panic(err)
	}
	fo, _ := os.Create(filepath.Join(*out, "ops.txt"))
	fr, _ := os.Create(filepath.Join(*out, "go.txt"))
	c := &Ctx{P: p, Tier: *tier, Seed: *seed, Rng: rand.New(rand.NewSource(*seed)), Thor: *tier == "thorough",
		ops: bufio.NewWriterSize(fo, 1<<20), res: bufio.NewWriterSize(fr, 1<<20),
		rep:   &Report{Property: p.ID, Tier: *tier, Seed: *seed, Distribution: map[string]int{}, ClassTally: map[string]int{}, Rule: p.Rule},
		nontr: map[string]struct{}{}, cache: map[string]int{}}
	curFile, _ = os.Create(filepath.Join(*out, "current.txt"))
	start := time.Now()
	// watchdog: an op running longer than the limit is a hang (C04). The limit is counted in
	// observed ticks of this goroutine, not in wall-clock time: if the whole process (or the
	// machine: a paused VM, a snapshot being taken) stands still, no ticks are observed, and a
	// gap between two ticks that is much longer than the sleep resets the count.
	go func() {
		const tick = 500 * time.Millisecond
		const need = 40 // 20 s of observed running time on the same op
		var seenStart int64
		n := 0
		last := time.Now()
		for {
			time.Sleep(tick)
			now := time.Now()
			gap := now.Sub(last)
			last = now
			s := curStart.Load()
			if s == 0 || s != seenStart || gap > 4*tick {
				seenStart, n = s, 0
				continue
			}
			n++
			if n >= need {
				op, _ := curOp.Load().(string)
				os.WriteFile(filepath.Join(*out, "hang.txt"), []byte(op+"\n"), 0o644)
				c.mu.Lock()
				c.ops.Flush()
				c.res.Flush()
				os.Exit(3)
			}
		}
	}()

	if *replay != "" {
		var rp struct {
			Ops    []string `json:"ops"`
			Oracle struct {
				Name string `json:"name"`
			} `json:"oracle"`
		}
		b, err := os.ReadFile(*replay)
		if err != nil {
			panic(err)
		}
		if err := json.Unmarshal(b, &rp); err != nil {
			panic(err)
		}
		var idx []int
		for _, l := range rp.Ops {
			i, _ := c.Op(l)
			idx = append(idx, i)
		}
		if rp.Oracle.Name != "" {
			c.Check(rp.Oracle.Name, idx...)
		}
	} else {
		// 1. known-finding witnesses
		if *kf != "" {
			var kfs []knownFinding
			if b, err := os.ReadFile(*kf); err == nil {
				if err := json.Unmarshal(b, &kfs); err != nil {
					panic(err)
				}
			}
			for _, k := range kfs {
				if k.Property != p.ID || len(k.Witness) == 0 {
					continue
				}
				var idx []int
				var ls, rs []string
				for _, l := range k.Witness {
					i, r := c.Op(l)
					idx = append(idx, i)
					ls = append(ls, l)
					rs = append(rs, r)
				}
				bad, detail := p.Recheck(k.Oracle, ls, rs)
				c.rep.Witnesses = append(c.rep.Witnesses, Witness{k.ID, k.Oracle, idx, ls, rs, bad, detail})
			}
		}
		// 2. corpus: files of "oracle\tline\tline..." records
		if *corpus != "" {
			files, _ := filepath.Glob(filepath.Join(*corpus, "*.ops"))
			sort.Strings(files)
			for _, f := range files {
				b, _ := os.ReadFile(f)
				for _, rec := range strings.Split(string(b), "\n") {
					rec = strings.TrimSpace(rec)
					if rec == "" || strings.HasPrefix(rec, "#") {
						continue
					}
					parts := strings.Split(rec, "\t")
					var idx []int
					for _, l := range parts[1:] {
						i, _ := c.Op(l)
						idx = append(idx, i)
					}
					if parts[0] != "-" {
						c.Check(parts[0], idx...)
					}
					c.Count("corpus")
				}
			}
		}
		// 3. generated
		p.Run(c)
	}
	c.ops.Flush()
	c.res.Flush()
	fo.Close()
	fr.Close()
	if curFile != nil {
		curFile.Close()
		os.Remove(filepath.Join(*out, "current.txt"))
	}
	c.rep.Ops = len(c.lines)
	c.rep.Nontrivial = len(c.nontr)
	c.rep.WallS = time.Since(start).Seconds()
	b, _ := json.MarshalIndent(c.rep, "", " ")
	os.WriteFile(filepath.Join(*out, "report.json"), b, 0o644)
}
