package fw

import (
	"fmt"
	"go/ast"
	"go/constant"
	"go/types"
	"os"
	"sync"

	"golang.org/x/tools/go/packages"
)

var (
	loadMu    sync.Mutex
	loadCache = map[string]*packages.Package{}
)

// LoadPkg type-checks the package in dir (a directory of /repo) from source.
func LoadPkg(dir string, patterns ...string) (*packages.Package, error) {
	key := dir + "|" + fmt.Sprint(patterns)
	loadMu.Lock()
	defer loadMu.Unlock()
	if p, ok := loadCache[key]; ok {
		return p, nil
	}
	if len(patterns) == 0 {
		patterns = []string{"."}
	}
	cfg := &packages.Config{
		Mode: packages.NeedName | packages.NeedFiles | packages.NeedSyntax | packages.NeedTypes | packages.NeedTypesInfo | packages.NeedImports | packages.NeedDeps,
		Dir:  dir,
		Env:  append(os.Environ(), "GOFLAGS=-mod=mod", "GOPROXY=off", "GOSUMDB=off", "GOTOOLCHAIN=local"),
	}
	ps, err := packages.Load(cfg, patterns...)
	if err != nil {
		return nil, err
	}
	if len(ps) != 1 {
		return nil, fmt.Errorf("%s: %d packages", dir, len(ps))
	}
	if len(ps[0].Errors) > 0 {
		return nil, fmt.Errorf("%s: %v", dir, ps[0].Errors[0])
	}
	loadCache[key] = ps[0]
	return ps[0], nil
}

// ConstInt returns the value of a package-level integer constant.
func ConstInt(p *packages.Package, name string) (int64, error) {
	o := p.Types.Scope().Lookup(name)
	c, ok := o.(*types.Const)
	if !ok {
		return 0, fmt.Errorf("%s: no constant %s", p.PkgPath, name)
	}
	v, ok := constant.Int64Val(constant.ToInt(c.Val()))
	if !ok {
		return 0, fmt.Errorf("%s.%s: not an int64", p.PkgPath, name)
	}
	return v, nil
}

// ConstsOfType lists package-level constants whose type is the named type, in
// source order.
func ConstsOfType(p *packages.Package, typeName string) (names []string, vals []int64) {
	for _, f := range p.Syntax {
		for _, d := range f.Decls {
			gd, ok := d.(*ast.GenDecl)
			if !ok {
				continue
			}
			for _, s := range gd.Specs {
				vs, ok := s.(*ast.ValueSpec)
				if !ok {
					continue
				}
				for _, n := range vs.Names {
					c, ok := p.TypesInfo.Defs[n].(*types.Const)
					if !ok {
						continue
					}
					nt, ok := c.Type().(*types.Named)
					if !ok || nt.Obj().Name() != typeName || nt.Obj().Pkg() != p.Types {
						continue
					}
					v, ok := constant.Int64Val(constant.ToInt(c.Val()))
					if !ok {
						continue
					}
					names = append(names, n.Name)
					vals = append(vals, v)
				}
			}
		}
	}
	return
}

// FindVar returns the initialiser expression of a package-level var.
func FindVar(p *packages.Package, name string) ast.Expr {
	for _, f := range p.Syntax {
		for _, d := range f.Decls {
			gd, ok := d.(*ast.GenDecl)
			if !ok {
				continue
			}
			for _, s := range gd.Specs {
				vs, ok := s.(*ast.ValueSpec)
				if !ok {
					continue
				}
				for i, n := range vs.Names {
					if n.Name == name && i < len(vs.Values) {
						return vs.Values[i]
					}
				}
			}
		}
	}
	return nil
}

// EvalInt evaluates a constant integer expression using the type checker's
// recorded values.
func EvalInt(p *packages.Package, e ast.Expr) (int64, bool) {
	tv, ok := p.TypesInfo.Types[e]
	if !ok || tv.Value == nil {
		return 0, false
	}
	return constant.Int64Val(constant.ToInt(tv.Value))
}

// EvalStr evaluates a constant string expression.
func EvalStr(p *packages.Package, e ast.Expr) (string, bool) {
	tv, ok := p.TypesInfo.Types[e]
	if !ok || tv.Value == nil || tv.Value.Kind() != constant.String {
		return "", false
	}
	return constant.StringVal(tv.Value), true
}
