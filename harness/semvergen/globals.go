package semvergen

import (
	"fmt"
	"go/ast"
	"go/token"
	"go/types"
	"sort"
	"strings"

	"verifharness/fw"
)

// Globals emits SemverGlobals.lean: every package-level variable of
// util/semver and every write to one outside init (assignment, inc/dec,
// index/field write, append target, address taken and passed). C01's "no
// dependence on the history of calls" rests on `writes = []`.
func Globals(repo string) (string, error) {
	p, err := fw.LoadPkg(repo + "/util/semver")
	if err != nil {
		return "", err
	}
	globals := map[types.Object]bool{}
	var names []string
	for _, n := range p.Types.Scope().Names() {
		if v, ok := p.Types.Scope().Lookup(n).(*types.Var); ok {
			globals[v] = true
			names = append(names, n)
		}
	}
	sort.Strings(names)
	var writes []string
	rootObj := func(e ast.Expr) types.Object {
		for {
			switch x := e.(type) {
			case *ast.Ident:
				return p.TypesInfo.Uses[x]
			case *ast.IndexExpr:
				e = x.X
			case *ast.SelectorExpr:
				e = x.X
			case *ast.StarExpr:
				e = x.X
			case *ast.ParenExpr:
				e = x.X
			case *ast.SliceExpr:
				e = x.X
			default:
				return nil
			}
		}
	}
	for _, f := range p.Syntax {
		if strings.HasSuffix(p.Fset.Position(f.Pos()).Filename, "_test.go") {
			continue
		}
		for _, d := range f.Decls {
			fd, ok := d.(*ast.FuncDecl)
			if !ok || fd.Body == nil || (fd.Name.Name == "init" && fd.Recv == nil) {
				continue
			}
			rec := func(kind string, e ast.Expr) {
				if o := rootObj(e); o != nil && globals[o] {
					pos := p.Fset.Position(e.Pos())
					writes = append(writes, fmt.Sprintf("%s:%s:%s:%s", shortFile(pos.Filename), fd.Name.Name, o.Name(), kind))
				}
			}
			ast.Inspect(fd.Body, func(n ast.Node) bool {
				switch s := n.(type) {
				case *ast.AssignStmt:
					if s.Tok != token.DEFINE {
						for _, l := range s.Lhs {
							rec("assign", l)
						}
					}
				case *ast.IncDecStmt:
					rec("incdec", s.X)
				case *ast.UnaryExpr:
					if s.Op == token.AND {
						rec("addr", s.X)
					}
				case *ast.RangeStmt:
					if s.Tok == token.ASSIGN {
						if s.Key != nil {
							rec("assign", s.Key)
						}
						if s.Value != nil {
							rec("assign", s.Value)
						}
					}
				}
				return true
			})
		}
	}
	sort.Strings(writes)
	var b strings.Builder
	b.WriteString("namespace DepsDev.Gen.SemverGlobals\n\n")
	b.WriteString("/-- Package-level variables of util/semver. -/\ndef globals : List String := [")
	for i, n := range names {
		if i > 0 {
			b.WriteString(", ")
		}
		b.WriteString(fw.LeanStr(n))
	}
	b.WriteString("]\n\n/-- Writes to (or addresses taken of) package-level variables outside `init`: file:func:var:kind. -/\ndef writes : List String := [")
	for i, n := range writes {
		if i > 0 {
			b.WriteString(", ")
		}
		b.WriteString(fw.LeanStr(n))
	}
	b.WriteString("]\n\nend DepsDev.Gen.SemverGlobals\n")
	return b.String(), nil
}

func shortFile(s string) string {
	if i := strings.LastIndex(s, "/"); i >= 0 {
		return s[i+1:]
	}
	return s
}
