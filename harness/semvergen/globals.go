package semvergen

import (
	"fmt"
	"go/ast"
	"go/token"
	"go/types"
	"sort"
	"strings"

	"golang.org/x/tools/go/packages"
	"verifharness/fw"
)

// Globals emits SemverGlobals.lean: every package-level variable of util/semver and
// every write to one outside init (assignment, inc/dec, index/field write, range
// target), and every address taken of one unless the pointer provably stays read-only.
// C01's "no dependence on the history of calls" rests on `writes = []`.
//
// The analysis is on the type-checked package and knows no identifier, file or function
// name (names appear only inside the entries, to locate a finding; the list is expected
// to be empty). An address `&G…` is followed to what is done with the pointer:
//
//   - harmless: comparing it, reading through it (operands, conditions, range, len/cap),
//     copying out a value that shares no storage (numbers, strings, bools, and
//     structs/arrays of these), re-binding the local variable that holds it;
//   - followed: the pointer (or a slice/map/pointer/interface read through it) assigned to
//     a local variable, passed to a function or method of the package (the parameter /
//     receiver is followed in the callee, all implementations for an interface method);
//   - reported: assignment or ++/-- through it, append/copy/delete/clear onto it, and
//     any alias that leaves what can be followed (stored in a field or a package-level
//     variable, returned, put in a literal, passed to code outside the package or to a
//     function value).
//
// The following is conservative: a followed local is examined at ALL its uses, whatever
// it points to at the time. NOT covered, as before: aliases that do not start from an
// address (a package-level slice, map or pointer copied or passed by value and written
// through later); init and package-level initialisers are the initialisation phase.
func Globals(repo string) (string, error) {
	p, err := fw.LoadPkg(repo + "/util/semver")
	if err != nil {
		return "", err
	}
	globals := map[types.Object]bool{}
	var names []string
	for _, n := range p.Types.Scope().Names() {
		if v, ok := p.Types.Scope().Lookup(n).(*types.Var); ok {
			globals[v] = true
			names = append(names, n)
		}
	}
	sort.Strings(names)
	var writes []string
	rootObj := func(e ast.Expr) types.Object {
		for {
			switch x := e.(type) {
			case *ast.Ident:
				return p.TypesInfo.Uses[x]
			case *ast.IndexExpr:
				e = x.X
			case *ast.SelectorExpr:
				e = x.X
			case *ast.StarExpr:
				e = x.X
			case *ast.ParenExpr:
				e = x.X
			case *ast.SliceExpr:
				e = x.X
			default:
				return nil
			}
		}
	}
	a := newAliasAnalysis(p)
	for _, f := range p.Syntax {
		if strings.HasSuffix(p.Fset.Position(f.Pos()).Filename, "_test.go") {
			continue
		}
		for _, d := range f.Decls {
			fd, ok := d.(*ast.FuncDecl)
			if !ok || fd.Body == nil || (fd.Name.Name == "init" && fd.Recv == nil) {
				continue
			}
			rec := func(kind string, e ast.Expr) {
				if o := rootObj(e); o != nil && globals[o] {
					pos := p.Fset.Position(e.Pos())
					writes = append(writes, fmt.Sprintf("%s:%s:%s:%s", shortFile(pos.Filename), fd.Name.Name, o.Name(), kind))
				}
			}
			ast.Inspect(fd.Body, func(n ast.Node) bool {
				switch s := n.(type) {
				case *ast.AssignStmt:
					if s.Tok != token.DEFINE {
						for _, l := range s.Lhs {
							rec("assign", l)
						}
					}
				case *ast.IncDecStmt:
					rec("incdec", s.X)
				case *ast.UnaryExpr:
					if s.Op == token.AND {
						if o := rootObj(s.X); o != nil && globals[o] {
							if why := a.fateOf(s, false); why != "" {
								rec("addr:"+why, s.X)
							}
						}
					}
				case *ast.RangeStmt:
					if s.Tok == token.ASSIGN {
						if s.Key != nil {
							rec("assign", s.Key)
						}
						if s.Value != nil {
							rec("assign", s.Value)
						}
					}
				}
				return true
			})
		}
	}
	sort.Strings(writes)
	var b strings.Builder
	b.WriteString("namespace DepsDev.Gen.SemverGlobals\n\n")
	b.WriteString("/-- Package-level variables of util/semver. -/\ndef globals : List String := [")
	for i, n := range names {
		if i > 0 {
			b.WriteString(", ")
		}
		b.WriteString(fw.LeanStr(n))
	}
	b.WriteString("]\n\n/-- Writes to package-level variables outside `init`, and addresses taken of one whose pointer is not provably read-only (followed through locals, parameters and receivers of the package): file:func:var:kind. -/\ndef writes : List String := [")
	for i, n := range writes {
		if i > 0 {
			b.WriteString(", ")
		}
		b.WriteString(fw.LeanStr(n))
	}
	b.WriteString("]\n\nend DepsDev.Gen.SemverGlobals\n")
	return b.String(), nil
}

func shortFile(s string) string {
	if i := strings.LastIndex(s, "/"); i >= 0 {
		return s[i+1:]
	}
	return s
}

// aliasAnalysis answers: may the storage denoted by this expression be written?
type aliasAnalysis struct {
	p       *packages.Package
	parent  map[ast.Node]ast.Node
	uses    map[types.Object][]*ast.Ident
	bodies  map[*types.Func]*ast.FuncDecl
	memo    map[types.Object]string // followed locals / parameters / receivers
	pending map[types.Object]bool
}

func newAliasAnalysis(p *packages.Package) *aliasAnalysis {
	a := &aliasAnalysis{p: p, parent: map[ast.Node]ast.Node{}, uses: map[types.Object][]*ast.Ident{},
		bodies: map[*types.Func]*ast.FuncDecl{}, memo: map[types.Object]string{}, pending: map[types.Object]bool{}}
	for _, f := range p.Syntax {
		var stack []ast.Node
		ast.Inspect(f, func(n ast.Node) bool {
			if n == nil {
				stack = stack[:len(stack)-1]
				return true
			}
			if len(stack) > 0 {
				a.parent[n] = stack[len(stack)-1]
			}
			stack = append(stack, n)
			if id, ok := n.(*ast.Ident); ok {
				if o := p.TypesInfo.Uses[id]; o != nil {
					a.uses[o] = append(a.uses[o], id)
				}
			}
			if fd, ok := n.(*ast.FuncDecl); ok && fd.Body != nil {
				if fn, ok := p.TypesInfo.Defs[fd.Name].(*types.Func); ok {
					a.bodies[fn] = fd
				}
			}
			return true
		})
	}
	return a
}

// sharesNothing: copying a value of this type cannot alias mutable storage.
func sharesNothing(t types.Type) bool {
	switch u := t.Underlying().(type) {
	case *types.Basic:
		return u.Kind() != types.UnsafePointer
	case *types.Signature:
		return true
	case *types.Struct:
		for i := 0; i < u.NumFields(); i++ {
			if !sharesNothing(u.Field(i).Type()) {
				return false
			}
		}
		return true
	case *types.Array:
		return sharesNothing(u.Elem())
	}
	return false
}

func (a *aliasAnalysis) typeOf(e ast.Expr) types.Type {
	if tv, ok := a.p.TypesInfo.Types[e]; ok && tv.Type != nil {
		return tv.Type
	}
	if id, ok := e.(*ast.Ident); ok {
		if o := a.p.TypesInfo.Uses[id]; o != nil {
			return o.Type()
		}
		if o := a.p.TypesInfo.Defs[id]; o != nil {
			return o.Type()
		}
	}
	return types.Typ[types.Invalid]
}

// copyIsFree: the VALUE of e can go anywhere without carrying an alias.
func (a *aliasAnalysis) copyIsFree(e ast.Expr) bool {
	t := a.typeOf(e)
	return t != types.Typ[types.Invalid] && sharesNothing(t)
}

// follow examines every use of a local variable, parameter or receiver that may hold an
// alias; "" = none of them can write the storage.
func (a *aliasAnalysis) follow(o types.Object) string {
	if o == nil {
		return "escape:unknown"
	}
	if r, ok := a.memo[o]; ok {
		return r
	}
	if a.pending[o] {
		return "" // recursion: decided by the outer examination
	}
	if v, ok := o.(*types.Var); !ok || v.Parent() == a.p.Types.Scope() || v.IsField() {
		return "escape:store"
	}
	a.pending[o] = true
	res := ""
	for _, id := range a.uses[o] {
		if k := a.fateOf(id, true); k != "" {
			res = k
			break
		}
	}
	delete(a.pending, o)
	a.memo[o] = res
	return res
}

// target: what receives the value when it is assigned/declared to lhs.
func (a *aliasAnalysis) storeInto(lhs ast.Expr) string {
	id, ok := ast.Unparen(lhs).(*ast.Ident)
	if !ok {
		return "escape:store"
	}
	if id.Name == "_" {
		return ""
	}
	o := a.p.TypesInfo.Defs[id]
	if o == nil {
		o = a.p.TypesInfo.Uses[id]
	}
	return a.follow(o)
}

// fateOf walks up from expression e, which denotes (a path into, or an alias of) the
// storage. local: e is the bare name of a followed local (re-binding it is harmless).
func (a *aliasAnalysis) fateOf(e ast.Expr, local bool) string {
	bare := local
	for {
		par := a.parent[e]
		switch x := par.(type) {
		case *ast.ParenExpr:
			e = x
			continue
		case *ast.SelectorExpr:
			if x.X != e {
				return ""
			}
			if sel := a.p.TypesInfo.Selections[x]; sel != nil && sel.Kind() != types.FieldVal {
				call, ok := a.parent[x].(*ast.CallExpr)
				if !ok || call.Fun != ast.Expr(x) || sel.Kind() != types.MethodVal {
					return "escape:methodvalue"
				}
				fn, _ := sel.Obj().(*types.Func)
				return a.receiver(fn, e)
			}
			e, bare = x, false
			continue
		case *ast.IndexExpr:
			if x.X != e {
				return "" // used as an index: a read
			}
			e, bare = x, false
			continue
		case *ast.SliceExpr:
			if x.X != e {
				return ""
			}
			e, bare = x, false
			continue
		case *ast.StarExpr:
			e, bare = x, false
			continue
		case *ast.TypeAssertExpr:
			if x.Type == nil {
				return "escape:typeswitch"
			}
			e, bare = x, false
			continue
		case *ast.UnaryExpr:
			switch x.Op {
			case token.AND:
				e, bare = x, false // a pointer to the storage: an alias
				continue
			case token.ARROW:
				return "receive"
			}
			return ""
		case *ast.BinaryExpr:
			return ""
		case *ast.KeyValueExpr, *ast.CompositeLit:
			if a.copyIsFree(e) {
				return ""
			}
			return "escape:store"
		case *ast.IncDecStmt:
			return "incdec"
		case *ast.AssignStmt:
			for _, l := range x.Lhs {
				if l == e {
					if bare && x.Tok == token.ASSIGN {
						return "" // the local itself gets another value
					}
					return "assign"
				}
			}
			if a.copyIsFree(e) {
				return ""
			}
			if len(x.Lhs) != len(x.Rhs) {
				return "escape:store"
			}
			for i, r := range x.Rhs {
				if r == e {
					return a.storeInto(x.Lhs[i])
				}
			}
			return "escape:store"
		case *ast.ValueSpec:
			if a.copyIsFree(e) {
				return ""
			}
			if len(x.Names) != len(x.Values) {
				return "escape:store"
			}
			for i, r := range x.Values {
				if r == e {
					return a.storeInto(x.Names[i])
				}
			}
			return "escape:store"
		case *ast.RangeStmt:
			if x.X != e {
				if x.Tok == token.ASSIGN && !bare {
					return "assign"
				}
				return ""
			}
			// the value variable gets a copy of each element
			if x.Value == nil {
				return ""
			}
			var elem types.Type
			switch u := a.typeOf(e).Underlying().(type) {
			case *types.Slice:
				elem = u.Elem()
			case *types.Array:
				elem = u.Elem()
			case *types.Map:
				elem = u.Elem()
			case *types.Pointer:
				if arr, ok := u.Elem().Underlying().(*types.Array); ok {
					elem = arr.Elem()
				}
			case *types.Basic:
				return "" // string
			}
			if elem != nil && sharesNothing(elem) {
				return ""
			}
			return a.storeInto(x.Value)
		case *ast.ReturnStmt:
			if a.copyIsFree(e) {
				return ""
			}
			return a.returned(x)
		case *ast.SendStmt:
			if x.Chan == e {
				return "send"
			}
			if a.copyIsFree(e) {
				return ""
			}
			return "escape:send"
		case *ast.CallExpr:
			return a.call(x, e)
		case *ast.IfStmt, *ast.ForStmt, *ast.SwitchStmt, *ast.CaseClause, *ast.ExprStmt:
			return ""
		}
		return fmt.Sprintf("other:%T", par)
	}
}

func (a *aliasAnalysis) call(call *ast.CallExpr, e ast.Expr) string {
	if call.Fun == e {
		return "" // calling a function value read from the variable
	}
	idx := -1
	for i, arg := range call.Args {
		if arg == e {
			idx = i
		}
	}
	if idx < 0 {
		return "other:call"
	}
	fun := ast.Unparen(call.Fun)
	if tv, ok := a.p.TypesInfo.Types[fun]; ok && tv.IsType() {
		// conversion: the result may alias e
		if a.copyIsFree(call) {
			return ""
		}
		return a.fateOf(call, false)
	}
	var callee types.Object
	switch f := fun.(type) {
	case *ast.Ident:
		callee = a.p.TypesInfo.Uses[f]
	case *ast.SelectorExpr:
		callee = a.p.TypesInfo.Uses[f.Sel]
	case *ast.IndexExpr: // explicit instantiation f[T](…)
		if id, ok := ast.Unparen(f.X).(*ast.Ident); ok {
			callee = a.p.TypesInfo.Uses[id]
		}
	}
	if bi, ok := callee.(*types.Builtin); ok {
		switch bi.Name() {
		case "len", "cap", "panic", "print", "println", "min", "max", "real", "imag", "complex":
			return ""
		case "append":
			if idx == 0 {
				return "append" // may write the spare capacity, and the result aliases it
			}
			if call.Ellipsis.IsValid() {
				if s, ok := a.typeOf(e).Underlying().(*types.Slice); ok && sharesNothing(s.Elem()) {
					return ""
				}
				if b, ok := a.typeOf(e).Underlying().(*types.Basic); ok && b.Info()&types.IsString != 0 {
					return ""
				}
			}
			if a.copyIsFree(e) {
				return ""
			}
			return "escape:append"
		case "copy":
			if idx == 0 {
				return "copy"
			}
			if s, ok := a.typeOf(e).Underlying().(*types.Slice); ok && sharesNothing(s.Elem()) {
				return ""
			}
			if a.copyIsFree(e) {
				return ""
			}
			return "escape:copy"
		case "delete", "clear":
			if idx == 0 {
				return bi.Name()
			}
			return ""
		}
		return "escape:builtin:" + bi.Name()
	}
	if a.copyIsFree(e) {
		return ""
	}
	fn, ok := callee.(*types.Func)
	if !ok {
		return "escape:call"
	}
	fn = fn.Origin()
	if _, ok := a.bodies[fn]; !ok {
		return "escape:call"
	}
	sig := fn.Type().(*types.Signature)
	n := sig.Params().Len()
	if n == 0 {
		return "escape:call"
	}
	if idx >= n || (sig.Variadic() && idx >= n-1) {
		idx = n - 1
	}
	return a.follow(sig.Params().At(idx))
}

// returned: an alias is returned by the function enclosing ret. If that is a declared
// function or method of the package with one result that is only ever called (never used
// as a value, never called through an interface), the alias is followed at every call.
func (a *aliasAnalysis) returned(ret *ast.ReturnStmt) string {
	var n ast.Node = ret
	for n != nil {
		if _, ok := n.(*ast.FuncLit); ok {
			return "escape:return"
		}
		if fd, ok := n.(*ast.FuncDecl); ok {
			fn, _ := a.p.TypesInfo.Defs[fd.Name].(*types.Func)
			if fn == nil || fn.Exported() || fn.Type().(*types.Signature).Results().Len() != 1 {
				return "escape:return"
			}
			if fn.Type().(*types.Signature).Recv() != nil && a.ifaceMethod(fn.Name()) {
				return "escape:return" // may be called through an interface: call sites unknown
			}
			if a.pending[fn] {
				return ""
			}
			if r, ok := a.memo[fn]; ok {
				return r
			}
			a.pending[fn] = true
			res := ""
			for _, id := range a.uses[fn] {
				var callee ast.Expr = id
				if sel, ok := a.parent[id].(*ast.SelectorExpr); ok && sel.Sel == id {
					if s := a.p.TypesInfo.Selections[sel]; s != nil {
						if _, isIface := s.Recv().Underlying().(*types.Interface); isIface {
							res = "escape:return"
							break
						}
					}
					callee = sel
				}
				call, ok := a.parent[callee].(*ast.CallExpr)
				if !ok || call.Fun != callee {
					res = "escape:return"
					break
				}
				if k := a.fateOf(call, false); k != "" {
					res = k
					break
				}
			}
			delete(a.pending, fn)
			a.memo[fn] = res
			return res
		}
		n = a.parent[n]
	}
	return "escape:return"
}

// ifaceMethod: some interface type mentioned in the package has a method of this name.
func (a *aliasAnalysis) ifaceMethod(name string) bool {
	for _, tv := range a.p.TypesInfo.Types {
		if tv.Type == nil {
			continue
		}
		if it, ok := tv.Type.Underlying().(*types.Interface); ok {
			for i := 0; i < it.NumMethods(); i++ {
				if it.Method(i).Name() == name {
					return true
				}
			}
		}
	}
	return false
}

// receiver: e is the receiver expression of a call of method fn.
func (a *aliasAnalysis) receiver(fn *types.Func, e ast.Expr) string {
	if fn == nil {
		return "escape:call"
	}
	fn = fn.Origin()
	sig := fn.Type().(*types.Signature)
	if sig.Recv() == nil {
		return "escape:call"
	}
	if _, isPtr := sig.Recv().Type().Underlying().(*types.Pointer); !isPtr && sharesNothing(sig.Recv().Type()) {
		return "" // the method works on a copy that shares nothing
	}
	fd, ok := a.bodies[fn]
	if !ok {
		return "escape:call" // interface method or a method of another package
	}
	if fd.Recv == nil || len(fd.Recv.List) != 1 || len(fd.Recv.List[0].Names) != 1 {
		return "" // receiver not named: not used in the body
	}
	return a.follow(a.p.TypesInfo.Defs[fd.Recv.List[0].Names[0]])
}
