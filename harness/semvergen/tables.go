// Package semvergen is the translator for util/semver's tables: it reads the Go
// source of /repo/util/semver (typed syntax) and emits lean/DepsDev/Gen/SemverTables.lean.
// Only data is translated: constants, tables, and per-system switch facts.
package semvergen

import (
	"deps.dev/util/semver"
	"fmt"
	"go/ast"
	"go/token"
	"sort"
	"strconv"
	"strings"

	"golang.org/x/tools/go/packages"

	"verifharness/fw"
)

// Generators used by every semver-based property.
func Generators() []fw.Generator {
	return []fw.Generator{{Name: "SemverTables", Fn: Tables}, {Name: "SemverGlobals", Fn: Globals}}
}

func natList(xs []int64) string {
	p := make([]string, len(xs))
	for i, x := range xs {
		p[i] = strconv.FormatInt(x, 10)
	}
	return "[" + strings.Join(p, ", ") + "]"
}

// switchSystems finds, in method `name` of type System, the switch on sys and
// returns for every case clause the list of System constant values it names
// and the clause's body statements.
func funcDecl(p *packages.Package, recv, name string) *ast.FuncDecl {
	for _, f := range p.Syntax {
		for _, d := range f.Decls {
			fd, ok := d.(*ast.FuncDecl)
			if !ok || fd.Name.Name != name {
				continue
			}
			if recv == "" && fd.Recv == nil {
				return fd
			}
			if recv != "" && fd.Recv != nil && len(fd.Recv.List) == 1 {
				t := fd.Recv.List[0].Type
				if s, ok := t.(*ast.StarExpr); ok {
					t = s.X
				}
				if id, ok := t.(*ast.Ident); ok && id.Name == recv {
					return fd
				}
			}
		}
	}
	return nil
}

// Tables emits SemverTables.lean.
func Tables(repo string) (string, error) {
	p, err := fw.LoadPkg(repo + "/util/semver")
	if err != nil {
		return "", err
	}
	var b strings.Builder
	b.WriteString("namespace DepsDev.Gen.SemverTables\n\n")

	// System constants in order.
	names, vals := fw.ConstsOfType(p, "System")
	b.WriteString("/-- `System` constants of util/semver/version.go: (name, value). -/\n")
	b.WriteString("def systems : List (String × Nat) := [")
	for i := range names {
		if i > 0 {
			b.WriteString(", ")
		}
		fmt.Fprintf(&b, "(%s, %d)", fw.LeanStr(names[i]), vals[i])
	}
	b.WriteString("]\n\n")
	sysVal := map[string]int64{}
	for i := range names {
		sysVal[names[i]] = vals[i]
	}

	// Tables held in package-level variables are read from the linked code at run time (hook
	// semver.VerifGetTables), so that it does not matter how they are declared or built.
	rt := semver.VerifGetTables(len(names))

	// byteType table.
	var btv []int64
	for _, v := range rt.ByteType {
		btv = append(btv, int64(v))
	}
	fmt.Fprintf(&b, "/-- `byteType` of token.go (%d entries). -/\ndef byteType : List Nat := %s\n\n", len(btv), natList(btv))
	for _, n := range []string{"tXX", "tWS", "tVS", "tOP", "tBR"} {
		v, err := fw.ConstInt(p, n)
		if err != nil {
			return "", err
		}
		fmt.Fprintf(&b, "def %s : Nat := %d\n", n, v)
	}
	b.WriteString("\n")

	// tokType constants.
	tn, tv := fw.ConstsOfType(p, "tokType")
	b.WriteString("/-- `tokType` constants: (name, value). -/\ndef tokTypes : List (String × Nat) := [")
	for i := range tn {
		if i > 0 {
			b.WriteString(", ")
		}
		fmt.Fprintf(&b, "(%s, %d)", fw.LeanStr(tn[i]), tv[i])
	}
	b.WriteString("]\n\n")

	// Diff constants.
	dn, dv := fw.ConstsOfType(p, "Diff")
	b.WriteString("/-- `Diff` constants: (name, value). -/\ndef diffs : List (String × Nat) := [")
	for i := range dn {
		if i > 0 {
			b.WriteString(", ")
		}
		fmt.Fprintf(&b, "(%s, %d)", fw.LeanStr(dn[i]), dv[i])
	}
	b.WriteString("]\n\n")

	// operators: slice of maps keyed by System index.
	type ent struct {
		k string
		v int64
	}
	table := map[int64][]ent{}
	maxIdx := int64(rt.OperatorsLen) - 1
	for i, ops := range rt.Operators {
		for _, o := range ops {
			table[int64(i)] = append(table[int64(i)], ent{o.Text, int64(o.Tok)})
		}
	}
	b.WriteString("/-- `operators` of token.go: entry i is the operator map of System i (sorted by key;\n    the LENGTH of this list is the length of the Go slice: indexing past it panics). -/\n")
	b.WriteString("def operators : List (List (List UInt8 × Nat)) := [\n")
	for i := int64(0); i <= maxIdx; i++ {
		b.WriteString("  [")
		for j, e := range table[i] {
			if j > 0 {
				b.WriteString(", ")
			}
			fmt.Fprintf(&b, "(%s, %d)", fw.LeanBytes(e.k), e.v)
		}
		b.WriteString("]")
		if i < maxIdx {
			b.WriteString(",")
		}
		b.WriteString("\n")
	}
	b.WriteString("]\n\n")

	// validWildcard: per system, the list of runes accepted.
	wc, err := switchRunes(p, "validWildcard", sysVal)
	if err != nil {
		// not written as the expected switch: probe the method (runes below U+3000, ascending)
		wc = map[int64][]int64{}
		for i, rs := range rt.ValidWildcard {
			for _, r := range rs {
				wc[int64(i)] = append(wc[int64(i)], int64(r))
			}
		}
	}
	b.WriteString("/-- `System.validWildcard`: (system value, accepted runes). Systems not listed accept none. -/\n")
	b.WriteString("def validWildcard : List (Nat × List Nat) := [")
	keys := make([]int64, 0, len(wc))
	for k := range wc {
		keys = append(keys, k)
	}
	sort.Slice(keys, func(i, j int) bool { return keys[i] < keys[j] })
	for i, k := range keys {
		if i > 0 {
			b.WriteString(", ")
		}
		fmt.Fprintf(&b, "(%d, %s)", k, natList(wc[k]))
	}
	b.WriteString("]\n\n")

	// supportsAnd: systems returning true.
	sa, err := switchTrue(p, "supportsAnd", sysVal)
	if err != nil {
		sa = nil
		for i, t := range rt.SupportsAnd {
			if t {
				sa = append(sa, int64(i))
			}
		}
	}
	fmt.Fprintf(&b, "/-- Systems for which `supportsAnd` returns true. -/\ndef supportsAnd : List Nat := %s\n\n", natList(sa))

	// infinity, wildcard, mavenEmptyQualifier
	for _, n := range []string{"infinity", "wildcard", "mavenEmptyQualifier"} {
		v, err := fw.ConstInt(p, n)
		if err != nil {
			return "", err
		}
		fmt.Fprintf(&b, "def %s : Int := %d\n", n, v)
	}
	b.WriteString("\n")
	for _, n := range []string{"versionSeparator", "versionUnknown", "versionStar", "versionQualifier", "versionNumeric", "versionEOF",
		"pep440Dev", "pep440Alpha", "pep440Beta", "pep440Prerelease", "pep440Empty", "pep440Local", "pep440Post"} {
		v, err := fw.ConstInt(p, n)
		if err != nil {
			return "", err
		}
		fmt.Fprintf(&b, "def %s : Int := %d\n", n, v)
	}
	b.WriteString("\n")

	// mavenVersionQualifierOrder
	var mes []ent
	for k, v := range rt.MavenQualifierOrder {
		mes = append(mes, ent{k, int64(v)})
	}
	sort.Slice(mes, func(i, j int) bool { return mes[i].k < mes[j].k })
	b.WriteString("/-- `mavenVersionQualifierOrder` (sorted by key); a missing key reads as 0 in Go. -/\n")
	b.WriteString("def mavenQualifierOrder : List (List UInt8 × Int) := [")
	for j, e := range mes {
		if j > 0 {
			b.WriteString(", ")
		}
		fmt.Fprintf(&b, "(%s, %d)", fw.LeanBytes(e.k), e.v)
	}
	b.WriteString("]\n\n")

	// pep440PreStrings (ordered), pep440PostStrings (ordered), lettersInPyPI
	b.WriteString("/-- `pep440PreStrings` in source order: (text, canon). -/\ndef pep440PreStrings : List (List UInt8 × List UInt8) := [")
	for j, e := range rt.Pep440PreStrings {
		if j > 0 {
			b.WriteString(", ")
		}
		fmt.Fprintf(&b, "(%s, %s)", fw.LeanBytes(e[0]), fw.LeanBytes(e[1]))
	}
	b.WriteString("]\n\n")
	b.WriteString("/-- `pep440PostStrings` in source order. -/\ndef pep440PostStrings : List (List UInt8) := [")
	for j, t := range rt.Pep440PostStrings {
		if j > 0 {
			b.WriteString(", ")
		}
		b.WriteString(fw.LeanBytes(t))
	}
	b.WriteString("]\n\n")
	o := p.Types.Scope().Lookup("lettersInPyPI")
	if o == nil {
		return "", fmt.Errorf("lettersInPyPI missing")
	}
	lp, ok := fw.EvalStr(p, identOf(p, "lettersInPyPI"))
	if !ok {
		return "", fmt.Errorf("lettersInPyPI: not a constant string")
	}
	fmt.Fprintf(&b, "def lettersInPyPI : List UInt8 := %s\n\n", fw.LeanBytes(lp))

	// minPre
	b.WriteString("def minPre : List (List UInt8) := [")
	for j, t := range rt.MinPre {
		if j > 0 {
			b.WriteString(", ")
		}
		b.WriteString(fw.LeanBytes(t))
	}
	b.WriteString("]\n\n")

	// Systems that tolerate leading zeros in numbers (versionParser.number) and >3 numbers (addNum).
	lz, err := caseListInFunc(p, "versionParser", "number", sysVal)
	if err != nil {
		// not written as the expected case list: ask the parser (systems that go through the
		// generic number parser, i.e. not Maven and not PyPI)
		lz = nil
		for i := range names {
			sys := semver.System(vals[i])
			if sys == semver.Maven || sys == semver.PyPI {
				continue
			}
			if _, err := sys.Parse("01.2.3"); err == nil {
				lz = append(lz, vals[i])
			}
		}
		sort.Slice(lz, func(i, j int) bool { return lz[i] < lz[j] })
	}
	fmt.Fprintf(&b, "/-- Systems listed in the `case` of `versionParser.number` that allows leading zeros. -/\ndef leadingZeroSystems : List Nat := %s\n", natList(lz))
	mn, err := caseListInFunc(p, "versionParser", "addNum", sysVal)
	if err != nil {
		mn = nil
		for i := range names {
			sys := semver.System(vals[i])
			if sys == semver.Maven {
				continue
			}
			if _, err := sys.Parse("1.2.3.4"); err == nil {
				mn = append(mn, vals[i])
			}
		}
		sort.Slice(mn, func(i, j int) bool { return mn[i] < mn[j] })
	}
	fmt.Fprintf(&b, "/-- Systems listed in the `case` of `versionParser.addNum` that allows more than 3 numbers. -/\ndef manyNumberSystems : List Nat := %s\n", natList(mn))

	b.WriteString("\nend DepsDev.Gen.SemverTables\n")
	return b.String(), nil
}

func identOf(p *packages.Package, name string) ast.Expr {
	for id, obj := range p.TypesInfo.Defs {
		if obj != nil && id.Name == name && obj.Parent() == p.Types.Scope() {
			// find its value expr via Uses is awkward; constants carry values on the object.
			_ = obj
		}
	}
	// constants: look up the ValueSpec
	for _, f := range p.Syntax {
		for _, d := range f.Decls {
			gd, ok := d.(*ast.GenDecl)
			if !ok || gd.Tok != token.CONST {
				continue
			}
			for _, s := range gd.Specs {
				vs := s.(*ast.ValueSpec)
				for i, n := range vs.Names {
					if n.Name == name && i < len(vs.Values) {
						return vs.Values[i]
					}
				}
			}
		}
	}
	return nil
}

// sysCases returns the System values named by a case clause.
func sysCases(p *packages.Package, cc *ast.CaseClause, sysVal map[string]int64) ([]int64, bool) {
	var out []int64
	for _, e := range cc.List {
		id, ok := e.(*ast.Ident)
		if !ok {
			return nil, false
		}
		v, ok := sysVal[id.Name]
		if !ok {
			return nil, false
		}
		out = append(out, v)
	}
	return out, len(out) > 0
}

// switchRunes handles `func (sys System) validWildcard(r rune) bool { switch sys { case A, B: return r == 'x' || ... } return false }`.
func switchRunes(p *packages.Package, name string, sysVal map[string]int64) (map[int64][]int64, error) {
	fd := funcDecl(p, "System", name)
	if fd == nil {
		return nil, fmt.Errorf("%s: not found", name)
	}
	out := map[int64][]int64{}
	var sw *ast.SwitchStmt
	for _, st := range fd.Body.List {
		if s, ok := st.(*ast.SwitchStmt); ok {
			sw = s
		}
	}
	if sw == nil {
		return nil, fmt.Errorf("%s: no switch", name)
	}
	for _, c := range sw.Body.List {
		cc := c.(*ast.CaseClause)
		syss, ok := sysCases(p, cc, sysVal)
		if !ok {
			return nil, fmt.Errorf("%s: unexpected case", name)
		}
		if len(cc.Body) != 1 {
			return nil, fmt.Errorf("%s: unexpected case body", name)
		}
		ret, ok := cc.Body[0].(*ast.ReturnStmt)
		if !ok || len(ret.Results) != 1 {
			return nil, fmt.Errorf("%s: unexpected case body", name)
		}
		var runes []int64
		var walk func(e ast.Expr) error
		walk = func(e ast.Expr) error {
			be, ok := e.(*ast.BinaryExpr)
			if !ok {
				return fmt.Errorf("%s: unexpected expression", name)
			}
			switch be.Op {
			case token.LOR:
				if err := walk(be.X); err != nil {
					return err
				}
				return walk(be.Y)
			case token.EQL:
				v, ok := fw.EvalInt(p, be.Y)
				if !ok {
					return fmt.Errorf("%s: non-constant rune", name)
				}
				runes = append(runes, v)
				return nil
			}
			return fmt.Errorf("%s: unexpected operator", name)
		}
		if err := walk(ret.Results[0]); err != nil {
			return nil, err
		}
		for _, s := range syss {
			out[s] = runes
		}
	}
	return out, nil
}

// switchTrue handles `switch sys { case A, B: return true; default: return false }`.
func switchTrue(p *packages.Package, name string, sysVal map[string]int64) ([]int64, error) {
	fd := funcDecl(p, "System", name)
	if fd == nil {
		return nil, fmt.Errorf("%s: not found", name)
	}
	var out []int64
	for _, st := range fd.Body.List {
		sw, ok := st.(*ast.SwitchStmt)
		if !ok {
			continue
		}
		for _, c := range sw.Body.List {
			cc := c.(*ast.CaseClause)
			if cc.List == nil {
				continue
			}
			syss, ok := sysCases(p, cc, sysVal)
			if !ok || len(cc.Body) != 1 {
				return nil, fmt.Errorf("%s: unexpected case", name)
			}
			ret, ok := cc.Body[0].(*ast.ReturnStmt)
			if !ok || len(ret.Results) != 1 {
				return nil, fmt.Errorf("%s: unexpected body", name)
			}
			if id, ok := ret.Results[0].(*ast.Ident); ok && id.Name == "true" {
				out = append(out, syss...)
			}
		}
	}
	sort.Slice(out, func(i, j int) bool { return out[i] < out[j] })
	return out, nil
}

// caseListInFunc finds, inside the method, the first switch whose first case
// clause lists System constants and has an empty body or a comment-only body
// ("these systems are fine"), and returns those systems.
func caseListInFunc(p *packages.Package, recv, name string, sysVal map[string]int64) ([]int64, error) {
	fd := funcDecl(p, recv, name)
	if fd == nil {
		return nil, fmt.Errorf("%s.%s: not found", recv, name)
	}
	var out []int64
	found := false
	ast.Inspect(fd.Body, func(n ast.Node) bool {
		if found {
			return false
		}
		sw, ok := n.(*ast.SwitchStmt)
		if !ok {
			return true
		}
		for _, c := range sw.Body.List {
			cc := c.(*ast.CaseClause)
			if cc.List == nil {
				continue
			}
			syss, ok := sysCases(p, cc, sysVal)
			if ok && len(cc.Body) == 0 {
				out = syss
				found = true
				return false
			}
		}
		return true
	})
	if !found {
		return nil, fmt.Errorf("%s.%s: no system case list with empty body", recv, name)
	}
	sort.Slice(out, func(i, j int) bool { return out[i] < out[j] })
	return out, nil
}
