package universe

import (
	"fmt"
	"math/rand"
	"sort"
)

// NpmGenOpts selects the features of a generated npm universe.
type NpmGenOpts struct {
	Aliases bool // KnownAs requirements
	Small   bool // 2–4 packages (small-scope stream)
	Bundles bool // bundled (derived) packages: `P>v>q` versions with a DerivedFrom attribute
}

var npmVersionPool = []string{
	"0.0.1", "0.1.0", "0.2.0", "0.2.1", "1.0.0-0", "1.0.0", "1.0.1", "1.1.0", "1.2.0", "1.2.3",
	"2.0.0-alpha.1", "2.0.0-beta.1", "2.0.0-rc.1", "2.0.0", "2.1.0", "2.1.1",
	"3.0.0-rc.1", "3.0.0", "10.0.0",
}

var npmNamePool = []string{"a", "b", "c", "d", "e", "f", "g", "h", "@s/a", "@s/b", "@t/c", "B", "k", "m"}

func pickS(r *rand.Rand, xs ...string) string { return xs[r.Intn(len(xs))] }

// npmReq draws a requirement string aimed at the given versions of the target.
func npmReq(r *rand.Rand, vers []string, tags []string) string {
	v := "1.0.0"
	w := "2.0.0"
	if len(vers) > 0 {
		v = vers[r.Intn(len(vers))]
		w = vers[r.Intn(len(vers))]
	}
	maj := v[:1]
	switch r.Intn(26) {
	case 0:
		return v
	case 1, 2, 3:
		return "^" + v
	case 4, 5:
		return "~" + v
	case 6, 7:
		return ">=" + v
	case 8:
		return ">" + v
	case 9:
		return "<" + v
	case 10:
		return "<=" + v
	case 11:
		return "=" + v
	case 12:
		return v + " - " + w
	case 13, 14:
		return maj + ".x"
	case 15:
		return maj
	case 16, 17, 18:
		return "*"
	case 19:
		return "latest"
	case 20:
		if len(tags) > 0 {
			return tags[r.Intn(len(tags))]
		}
		return "next"
	case 21:
		return ">=" + v + " <" + w
	case 22:
		return "<" + v + " || >=" + w
	case 23:
		return pickS(r, "^9.0.0", ">=99", "0.0.0-none", "not-a-range", "")
	case 24:
		return maj + ".*"
	default:
		return ">=" + v + "-0"
	}
}

// GenNpm draws a universe per the quantifier of C06: 5–12 packages, 1–5
// versions each (prereleases, deprecated, `latest`/other dist-tags), regular,
// optional, dev, peer- and bundle-scoped requirements, every operator kind,
// cycles and version conflicts (targets are drawn uniformly, so both are
// frequent), scoped names, optionally aliases. Well-formedness guaranteed:
// U1 distinct version strings per package, U2 at most one `latest` per
// package, U3 distinct effective names among the requirements that survive
// regularImports (the only duplicates generated are the ones package.json
// allows: the same name in dependencies and optionalDependencies /
// peerDependencies / bundleDependencies / devDependencies).
func GenNpm(r *rand.Rand, o NpmGenOpts) *NpmUniverse {
	n := 5 + r.Intn(8)
	if o.Small {
		n = 2 + r.Intn(3)
	}
	perm := r.Perm(len(npmNamePool))
	names := make([]string, n)
	for i := range names {
		names[i] = npmNamePool[perm[i]]
	}
	sort.Strings(names)
	vers := map[string][]string{}
	tags := map[string][]string{}
	attrs := map[string]map[string]AttrSet{}
	for _, p := range names {
		k := 1 + r.Intn(5)
		if o.Small {
			k = 1 + r.Intn(3)
		}
		idx := r.Perm(len(npmVersionPool))[:k]
		sort.Ints(idx)
		attrs[p] = map[string]AttrSet{}
		latest := -1
		switch r.Intn(10) {
		case 0, 1, 2: // none
		case 3, 4, 5, 6: // highest
			latest = idx[k-1]
		default:
			latest = idx[r.Intn(k)]
		}
		other := -1
		if r.Intn(4) == 0 {
			other = idx[r.Intn(k)]
		}
		for _, vi := range idx {
			v := npmVersionPool[vi]
			vers[p] = append(vers[p], v)
			var a AttrSet
			if r.Intn(6) == 0 {
				a.Mask |= VerBlocked
			}
			var tg []string
			if vi == latest {
				tg = append(tg, "latest")
			}
			if vi == other {
				t := pickS(r, "next", "beta")
				tg = append(tg, t)
				tags[p] = append(tags[p], t)
			}
			if len(tg) == 2 {
				a.Set(VerTags, tg[0]+","+tg[1])
			} else if len(tg) == 1 {
				a.Set(VerTags, tg[0])
			}
			attrs[p][v] = a
		}
	}
	aliasNames := []string{"al1", "al2"}
	// optional requirements that are also peer-/bundle-scoped (outside hypothesis OptPlain
	// of the E2 theorem) only in one universe out of eight
	optScoped := r.Intn(8) == 0
	u := &NpmUniverse{}
	for _, p := range names {
		for _, v := range vers[p] {
			nv := NpmVersion{Name: p, Version: v, Attr: attrs[p][v]}
			nd := []int{0, 1, 1, 2, 2, 3, 3, 4, 5}[r.Intn(9)]
			used := map[string]bool{}
			for j := 0; j < nd; j++ {
				q := names[r.Intn(n)]
				d := NpmImport{Name: q, Req: npmReq(r, vers[q], tags[q])}
				switch r.Intn(20) {
				case 0, 1:
					d.Type.Mask |= DepOpt
				case 2, 3:
					d.Type.Mask |= DepDev
				case 4:
					d.Type.Set(DepScope, "peer")
				case 5:
					d.Type.Set(DepScope, "bundle")
				case 6:
					if optScoped && r.Intn(3) == 0 {
						d.Type.Mask |= DepOpt
						d.Type.Set(DepScope, pickS(r, "peer", "peer", "bundle"))
					} else {
						d.Type.Set(DepScope, pickS(r, "bundled", "other"))
					}
				}
				if o.Aliases && r.Intn(4) == 0 {
					a := aliasNames[r.Intn(2)]
					if r.Intn(3) == 0 {
						a = names[r.Intn(n)]
					}
					if a != q {
						d.Type.Set(DepKnownAs, a)
					}
				}
				eff := d.EffName()
				if used[eff] {
					continue
				}
				used[eff] = true
				nv.Imports = append(nv.Imports, d)
				// the duplicates package.json allows: the same name again in another section
				if !d.Type.Has(DepKnownAs) && d.Type.IsRegular() && r.Intn(12) == 0 {
					e := NpmImport{Name: q, Req: npmReq(r, vers[q], tags[q])}
					switch r.Intn(9) {
					case 0, 1:
						e.Type.Mask |= DepOpt
					case 2, 3:
						e.Type.Mask |= DepDev
					case 4, 5:
						e.Type.Set(DepScope, "peer")
					case 6, 7:
						e.Type.Set(DepScope, "bundle")
					default: // an optional peer dependency (peerDependenciesMeta)
						if optScoped {
							e.Type.Mask |= DepOpt
						}
						e.Type.Set(DepScope, "peer")
					}
					nv.Imports = append(nv.Imports, e)
				}
			}
			u.Versions = append(u.Versions, nv)
		}
	}
	if o.Bundles {
		addBundles(r, u, names, vers)
	}
	return u.Normalize()
}

// addBundles gives some versions a bundle: for P@v a derived package `P>v>q`
// (or `P>v>alias` when the bundle installs q under another name) with one
// version w carrying `DerivedFrom q`, a regular requirement `P>v>q@w` on P@v
// that represents the bundle content, and a requirement of P@v on q that the
// bundled copy may or may not satisfy. w may be a version of q that the
// registry does not have. Derived versions have requirements of their own and
// (to depth 2) bundles of their own. Bundle content forms a tree (no cycles:
// the recursion of injectDerivedFrom has no guard).
func addBundles(r *rand.Rand, u *NpmUniverse, names []string, vers map[string][]string) {
	var extra []NpmVersion
	var bundle func(owner *NpmVersion, ownerName, ownerVer string, depth int)
	bundle = func(owner *NpmVersion, ownerName, ownerVer string, depth int) {
		q := names[r.Intn(len(names))]
		w := npmVersionPool[r.Intn(len(npmVersionPool))]
		if len(vers[q]) > 0 && r.Intn(5) < 3 {
			w = vers[q][r.Intn(len(vers[q]))]
		}
		last := q
		if r.Intn(7) == 0 {
			last = "bal"
		}
		for _, d := range owner.Imports {
			if d.EffName() == last || d.EffName() == q {
				return
			}
		}
		m := ownerName + ">" + ownerVer + ">" + last
		dv := NpmVersion{Name: m, Version: w}
		dv.Attr.Set(VerDerived, q)
		used := map[string]bool{}
		for j := r.Intn(3); j > 0; j-- {
			t := names[r.Intn(len(names))]
			if used[t] {
				continue
			}
			used[t] = true
			dv.Imports = append(dv.Imports, NpmImport{Name: t, Req: npmReq(r, vers[t], nil)})
		}
		if depth < 2 && r.Intn(4) == 0 {
			bundle(&dv, m, w, depth+1)
		}
		extra = append(extra, dv)
		owner.Imports = append(owner.Imports, NpmImport{Name: m, Req: w})
		req := NpmImport{Name: q}
		switch r.Intn(10) {
		case 0, 1, 2:
			req.Req = w
		case 3, 4:
			req.Req = "^" + w
		case 5:
			req.Req = "*"
		case 6:
			req.Req = ">=" + w
		default:
			req.Req = npmReq(r, vers[q], nil)
		}
		if last != q {
			req.Type.Set(DepKnownAs, last)
		} else if r.Intn(2) == 0 {
			req.Type.Set(DepScope, "bundled")
		}
		owner.Imports = append(owner.Imports, req)
	}
	for i := range u.Versions {
		if r.Intn(6) == 0 {
			v := &u.Versions[i]
			bundle(v, v.Name, v.Version, 0)
			if r.Intn(3) == 0 {
				bundle(v, v.Name, v.Version, 0)
			}
		}
	}
	u.Versions = append(u.Versions, extra...)
}

// NpmRegularImports mirrors what survives regularImports on bundle-free
// universes (used for U3 and by the E2 oracle): not Dev, not shadowed by an
// optional of the same name, not peer-scoped, bundle-scoped only without a
// plain regular of the same name.
func NpmRegularImports(imps []NpmImport) []NpmImport {
	opt, reg := map[string]bool{}, map[string]bool{}
	for _, d := range imps {
		if d.Dev() {
			continue
		}
		if d.Opt() {
			opt[d.Name] = true
		}
		if d.Type.IsRegular() {
			reg[d.Name] = true
		}
	}
	var out []NpmImport
	for _, d := range imps {
		if d.Dev() || (!d.Opt() && opt[d.Name]) {
			continue
		}
		if s := d.Scope(); (s == "bundle" && reg[d.Name]) || s == "peer" {
			continue
		}
		out = append(out, d)
	}
	return out
}

// NpmU3 reports whether the effective names of every version's surviving
// requirements are pairwise distinct.
func NpmU3(u *NpmUniverse) bool {
	for _, v := range u.Versions {
		seen := map[string]bool{}
		for _, d := range NpmRegularImports(v.Imports) {
			if seen[d.EffName()] {
				return false
			}
			seen[d.EffName()] = true
		}
	}
	return true
}

// NpmU1U2 reports distinct version strings per package and at most one version
// per package whose Tags attribute contains "latest".
func NpmU1U2(u *NpmUniverse) bool {
	seen := map[string]bool{}
	latest := map[string]int{}
	for _, v := range u.Versions {
		k := fmt.Sprintf("%q %q", v.Name, v.Version)
		if seen[k] {
			return false
		}
		seen[k] = true
		if t, ok := v.Attr.Get(VerTags); ok && containsTag(t, "latest") {
			latest[v.Name]++
			if latest[v.Name] > 1 {
				return false
			}
		}
	}
	return true
}

func containsTag(tags, tag string) bool {
	start := 0
	for i := 0; i <= len(tags); i++ {
		if i == len(tags) || tags[i] == ',' {
			if tags[start:i] == tag {
				return true
			}
			start = i + 1
		}
	}
	return false
}

// GenNpmConflict draws small alias-free, bundle-free universes rich in conflict cycles
// (finding F-C06-conflict-cycle: the resolver does not terminate on some of them). Two shapes:
// (1) the template cycle p0@v -> p1@v -> … -> p(n-1)@v -> p0@other-v over n = 2..4 packages with
// two versions each, every version also requiring itself (this one never finishes), with
// random damage: a self-requirement or a cycle edge dropped or loosened to a range, extra
// versions, extra leaf requirements; (2) dense random pins: 3-4 packages x 2-3 versions, each
// version requiring each package (itself included) at a random exact version with
// probability 1/2 (about one resolution in a hundred does not finish).
func GenNpmConflict(r *rand.Rand) *NpmUniverse {
	perm := r.Perm(len(npmNamePool))
	pool := func(k int) []string { // k distinct version strings, ascending pool order
		idx := r.Perm(len(npmVersionPool))[:k]
		sort.Ints(idx)
		out := make([]string, k)
		for i, x := range idx {
			out[i] = npmVersionPool[x]
		}
		return out
	}
	pin := func(v string) string {
		switch r.Intn(6) {
		case 0:
			return "=" + v
		case 1:
			return v + " - " + v
		}
		return v
	}
	u := &NpmUniverse{}
	if r.Intn(2) == 0 {
		n := 2 + r.Intn(3)
		names := make([]string, n)
		vers := make([][]string, n)
		for i := range names {
			names[i] = npmNamePool[perm[i]]
			vers[i] = pool(2)
		}
		damage := r.Intn(3) // 0: none
		for i := 0; i < n; i++ {
			for vi := 0; vi < 2; vi++ {
				x := NpmVersion{Name: names[i], Version: vers[i][vi]}
				if !(damage == 1 && r.Intn(2*n) == 0) {
					x.Imports = append(x.Imports, NpmImport{Name: names[i], Req: pin(vers[i][vi])})
				}
				j, vj := (i+1)%n, vi
				if i == n-1 {
					vj = 1 - vi
				}
				req := pin(vers[j][vj])
				if damage == 2 && r.Intn(2*n) == 0 {
					req = pickS(r, "*", ">="+vers[j][0], "^"+vers[j][vj])
				}
				x.Imports = append(x.Imports, NpmImport{Name: names[j], Req: req})
				u.Versions = append(u.Versions, x)
			}
		}
		if r.Intn(3) == 0 { // a leaf package some versions also require
			leaf := npmNamePool[perm[n]]
			lv := pool(2)
			u.Versions = append(u.Versions, NpmVersion{Name: leaf, Version: lv[0]}, NpmVersion{Name: leaf, Version: lv[1]})
			for i := range u.Versions[:2*n] {
				if r.Intn(3) == 0 {
					u.Versions[i].Imports = append(u.Versions[i].Imports, NpmImport{Name: leaf, Req: pin(lv[r.Intn(2)])})
				}
			}
		}
		return u.Normalize()
	}
	n := 3 + r.Intn(2)
	names := make([]string, n)
	vers := make([][]string, n)
	for i := range names {
		names[i] = npmNamePool[perm[i]]
		vers[i] = pool(2 + r.Intn(2))
	}
	for i := range names {
		for _, v := range vers[i] {
			x := NpmVersion{Name: names[i], Version: v}
			for j := range names {
				if r.Intn(2) == 0 {
					x.Imports = append(x.Imports, NpmImport{Name: names[j], Req: pin(vers[j][r.Intn(len(vers[j]))])})
				}
			}
			u.Versions = append(u.Versions, x)
		}
	}
	return u.Normalize()
}
