// Package universe holds generators and wire encodings of package universes
// shared by the resolver properties. Files prefixed npm_ belong to the npm
// resolver (property C06).
//
// # Wire format of an npm universe (op line `C06 resolve t=<T> <U> root=<n>@<v>`)
//
// Every string (package name, version string, requirement string, attribute
// value) is interned: `t=<hex>,<hex>,…` is the table, index 0..4 are the
// reserved strings "", "*", "bundle", "peer", "latest"; entries are pairwise
// distinct. Everything else is written with indices into the table, so the Lean
// model never sees a string (it only needs equality and those five literals).
//
// <U> is a `;`-separated list of records that carries the ANSWERS of the
// resolve.Client built from the universe, as the resolver will get them:
//
//	v:<name>:<ver>:<mask>:<attrs>   a concrete version in the client's order; attrs = `k=v,k=v…` | `_`
//	i:<name>:<req>:<mask>:<attrs>   an import of the preceding v, in client.Requirements order
//	m:<pkg>:<req>:<vers>            client.MatchingVersions(pkg, req): `!` error, `_` none, `ver,ver,…` in the client's order
//	s:<req>:<vers>                  semver.NPM.ParseConstraint(req): `!` error, else the universe's version strings it matches
//	x:<name>:<suffix>               for a dependency name containing `>`: the part after the last `>` (bundles)
//
// mask/attrs are the two parts of internal/attr.Set (dep.Type and
// version.AttrSet): the bit mask of the negative keys and the keyed values
// sorted by key.
package universe

import (
	"context"
	"encoding/hex"
	"fmt"
	"sort"
	"strconv"
	"strings"

	"deps.dev/util/resolve"
	"deps.dev/util/resolve/dep"
	"deps.dev/util/resolve/version"
	"deps.dev/util/semver"
)

// Attr is one keyed attribute.
type Attr struct {
	Key int
	Val string
}

// AttrSet mirrors internal/attr.Set.
type AttrSet struct {
	Mask  int
	Attrs []Attr // sorted by key
}

func (a AttrSet) Get(key int) (string, bool) {
	for _, x := range a.Attrs {
		if x.Key == key {
			return x.Val, true
		}
	}
	return "", false
}

func (a AttrSet) Has(key int) bool { _, ok := a.Get(key); return ok }

func (a *AttrSet) Set(key int, val string) {
	for i, x := range a.Attrs {
		if x.Key == key {
			a.Attrs[i].Val = val
			return
		}
	}
	a.Attrs = append(a.Attrs, Attr{key, val})
	sort.Slice(a.Attrs, func(i, j int) bool { return a.Attrs[i].Key < a.Attrs[j].Key })
}

func (a AttrSet) Clone() AttrSet {
	return AttrSet{a.Mask, append([]Attr(nil), a.Attrs...)}
}

func (a AttrSet) Equal(b AttrSet) bool {
	if a.Mask != b.Mask || len(a.Attrs) != len(b.Attrs) {
		return false
	}
	for i := range a.Attrs {
		if a.Attrs[i] != b.Attrs[i] {
			return false
		}
	}
	return true
}

func (a AttrSet) IsRegular() bool { return a.Mask == 0 && len(a.Attrs) == 0 }

// Keys of dep.Type and version.AttrSet used here (checked against the real
// constants in init).
const (
	DepDev      = 1 // mask bits
	DepOpt      = 2
	DepScope    = 3 // keys
	DepKnownAs  = 8
	DepSelector = 11
	VerBlocked  = 1 // mask bit
	VerDerived  = 3 // keys
	VerTags     = 10
)

func init() {
	if -int(dep.Dev) != DepDev || -int(dep.Opt) != DepOpt || int(dep.Scope) != DepScope ||
		int(dep.KnownAs) != DepKnownAs || int(dep.Selector) != DepSelector ||
		-int(version.Blocked) != VerBlocked || int(version.DerivedFrom) != VerDerived || int(version.Tags) != VerTags {
		panic("universe: attribute key constants differ from /repo")
	}
}

// DepTypeOf converts a real dep.Type.
func DepTypeOf(t dep.Type) AttrSet {
	var a AttrSet
	for b := 0; b < 7; b++ {
		if t.HasAttr(dep.AttrKey(-(1 << b))) {
			a.Mask |= 1 << b
		}
	}
	for k := 1; k < 64; k++ {
		if v, ok := t.GetAttr(dep.AttrKey(k)); ok {
			a.Attrs = append(a.Attrs, Attr{k, v})
		}
	}
	return a
}

// DepType builds the real dep.Type.
func (a AttrSet) DepType() dep.Type {
	var t dep.Type
	for b := 0; b < 7; b++ {
		if a.Mask&(1<<b) != 0 {
			t.AddAttr(dep.AttrKey(-(1 << b)), "")
		}
	}
	for _, x := range a.Attrs {
		t.AddAttr(dep.AttrKey(x.Key), x.Val)
	}
	return t
}

// VerAttrOf converts a real version.AttrSet.
func VerAttrOf(s version.AttrSet) AttrSet {
	var a AttrSet
	s.ForEachAttr(func(key version.AttrKey, value string) {
		if key < 0 {
			a.Mask |= -int(key)
		} else {
			a.Attrs = append(a.Attrs, Attr{int(key), value})
		}
	})
	sort.Slice(a.Attrs, func(i, j int) bool { return a.Attrs[i].Key < a.Attrs[j].Key })
	return a
}

// VerAttr builds the real version.AttrSet.
func (a AttrSet) VerAttr() version.AttrSet {
	var s version.AttrSet
	for b := 0; b < 7; b++ {
		if a.Mask&(1<<b) != 0 {
			s.SetAttr(version.AttrKey(-(1 << b)), "")
		}
	}
	for _, x := range a.Attrs {
		s.SetAttr(version.AttrKey(x.Key), x.Val)
	}
	return s
}

// NpmImport is one requirement of a version.
type NpmImport struct {
	Name string
	Req  string
	Type AttrSet
}

func (i NpmImport) Alias() string { v, _ := i.Type.Get(DepKnownAs); return v }
func (i NpmImport) Scope() string { v, _ := i.Type.Get(DepScope); return v }
func (i NpmImport) Dev() bool     { return i.Type.Mask&DepDev != 0 }
func (i NpmImport) Opt() bool     { return i.Type.Mask&DepOpt != 0 }

// EffName is the name the dependency is installed under.
func (i NpmImport) EffName() string {
	if a := i.Alias(); a != "" {
		return a
	}
	return i.Name
}

// NpmVersion is one concrete version with its imports.
type NpmVersion struct {
	Name    string
	Version string
	Attr    AttrSet
	Imports []NpmImport
}

// NpmUniverse is a list of versions in insertion order.
type NpmUniverse struct {
	Versions []NpmVersion
}

func npmPK(name string) resolve.PackageKey {
	return resolve.PackageKey{System: resolve.NPM, Name: name}
}

// NpmVK is the concrete version key.
func NpmVK(name, ver string) resolve.VersionKey {
	return resolve.VersionKey{PackageKey: npmPK(name), VersionType: resolve.Concrete, Version: ver}
}

func npmReqVK(name, req string) resolve.VersionKey {
	return resolve.VersionKey{PackageKey: npmPK(name), VersionType: resolve.Requirement, Version: req}
}

// Client builds the real in-memory client.
func (u *NpmUniverse) Client() *resolve.LocalClient {
	lc := resolve.NewLocalClient()
	for _, v := range u.Versions {
		deps := make([]resolve.RequirementVersion, len(v.Imports))
		for i, d := range v.Imports {
			deps[i] = resolve.RequirementVersion{VersionKey: npmReqVK(d.Name, d.Req), Type: d.Type.DepType()}
		}
		lc.AddVersion(resolve.Version{VersionKey: NpmVK(v.Name, v.Version), AttrSet: v.Attr.VerAttr()}, deps)
	}
	return lc
}

// NpmFromClient reads a universe back from a client: packages by name, versions
// and imports in the client's order.
func NpmFromClient(lc *resolve.LocalClient) *NpmUniverse {
	ctx := context.Background()
	var names []string
	for pk := range lc.PackageVersions {
		if pk.System == resolve.NPM {
			names = append(names, pk.Name)
		}
	}
	sort.Strings(names)
	u := &NpmUniverse{}
	for _, n := range names {
		for _, v := range lc.PackageVersions[npmPK(n)] {
			nv := NpmVersion{Name: n, Version: v.Version, Attr: VerAttrOf(v.AttrSet)}
			reqs, err := lc.Requirements(ctx, v.VersionKey)
			if err == nil {
				for _, d := range reqs {
					nv.Imports = append(nv.Imports, NpmImport{Name: d.Name, Req: d.Version, Type: DepTypeOf(d.Type)})
				}
			}
			u.Versions = append(u.Versions, nv)
		}
	}
	return u
}

// Normalize returns the universe as its client presents it (sorted).
func (u *NpmUniverse) Normalize() *NpmUniverse { return NpmFromClient(u.Client()) }

// HasAlias reports a KnownAs requirement.
func (u *NpmUniverse) HasAlias() bool {
	for _, v := range u.Versions {
		for _, d := range v.Imports {
			if d.Type.Has(DepKnownAs) {
				return true
			}
		}
	}
	return false
}

// HasBundle reports a derived (bundled) package version.
func (u *NpmUniverse) HasBundle() bool {
	for _, v := range u.Versions {
		if v.Attr.Has(VerDerived) {
			return true
		}
	}
	return false
}

// Reserved are the strings with fixed indices.
var Reserved = []string{"", "*", "bundle", "peer", "latest"}

// Table is the string table of an op line.
type Table struct {
	Strs []string
	idx  map[string]int
}

func NewTable(strs []string) (*Table, error) {
	t := &Table{Strs: strs, idx: map[string]int{}}
	if len(strs) < len(Reserved) {
		return nil, fmt.Errorf("table too short")
	}
	for i, s := range strs {
		if i < len(Reserved) && s != Reserved[i] {
			return nil, fmt.Errorf("reserved entry %d", i)
		}
		if _, dup := t.idx[s]; dup {
			return nil, fmt.Errorf("duplicate table entry")
		}
		t.idx[s] = i
	}
	return t, nil
}

// Ix returns the index of s ("?" if absent).
func (t *Table) Ix(s string) string {
	if i, ok := t.idx[s]; ok {
		return strconv.Itoa(i)
	}
	return "?"
}

func (t *Table) Str(i int) (string, bool) {
	if i < 0 || i >= len(t.Strs) {
		return "", false
	}
	return t.Strs[i], true
}

func (t *Table) Encode() string {
	hs := make([]string, len(t.Strs))
	for i, s := range t.Strs {
		if s == "" {
			hs[i] = "-"
		} else {
			hs[i] = hex.EncodeToString([]byte(s))
		}
	}
	return "t=" + strings.Join(hs, ",")
}

func DecodeTable(f string) (*Table, error) {
	if !strings.HasPrefix(f, "t=") {
		return nil, fmt.Errorf("no table")
	}
	var strs []string
	for _, h := range strings.Split(f[2:], ",") {
		if h == "-" {
			strs = append(strs, "")
			continue
		}
		b, err := hex.DecodeString(h)
		if err != nil {
			return nil, err
		}
		strs = append(strs, string(b))
	}
	return NewTable(strs)
}

func (t *Table) attrs(a AttrSet) string {
	if len(a.Attrs) == 0 {
		return "_"
	}
	ps := make([]string, len(a.Attrs))
	for i, x := range a.Attrs {
		ps[i] = fmt.Sprintf("%d=%s", x.Key, t.Ix(x.Val))
	}
	return strings.Join(ps, ",")
}

// NpmEncode renders the universe as the two op-line fields `t=…` and `<U>`,
// asking the real client for the answers. The universe must be normalized
// (see Normalize); it returns false if rebuilding the client from the encoded
// order would present the data differently (unstable sort of duplicates).
func NpmEncode(u *NpmUniverse) (table, body string, ok bool) {
	ctx := context.Background()
	lc := u.Client()
	n := NpmFromClient(lc)
	if !sameUniverse(u, n) {
		return "", "", false
	}
	// string table
	set := map[string]bool{}
	for _, v := range n.Versions {
		set[v.Name], set[v.Version] = true, true
		for _, a := range v.Attr.Attrs {
			set[a.Val] = true
		}
		for _, d := range v.Imports {
			set[d.Name], set[d.Req] = true, true
			for _, a := range d.Type.Attrs {
				set[a.Val] = true
			}
		}
	}
	for _, r := range Reserved {
		delete(set, r)
	}
	var rest []string
	var sfxs []string
	for _, v := range n.Versions {
		for _, d := range v.Imports {
			if i := strings.LastIndex(d.Name, ">"); i >= 0 {
				sfxs = append(sfxs, d.Name[i+1:])
			}
		}
	}
	for _, sfx := range sfxs {
		if !isReserved(sfx) {
			set[sfx] = true
		}
	}
	for s := range set {
		rest = append(rest, s)
	}
	sort.Strings(rest)
	t, err := NewTable(append(append([]string(nil), Reserved...), rest...))
	if err != nil {
		return "", "", false
	}
	var recs []string
	type pr struct{ pkg, req string }
	var pairs []pr
	seenPair := map[pr]bool{}
	addPair := func(p, r string) {
		if !seenPair[pr{p, r}] {
			seenPair[pr{p, r}] = true
			pairs = append(pairs, pr{p, r})
		}
	}
	var reqs []string
	seenReq := map[string]bool{}
	var verStrs []string
	seenVer := map[string]bool{}
	for _, v := range n.Versions {
		recs = append(recs, fmt.Sprintf("v:%s:%s:%d:%s", t.Ix(v.Name), t.Ix(v.Version), v.Attr.Mask, t.attrs(v.Attr)))
		addPair(v.Name, "latest")
		if !seenVer[v.Version] {
			seenVer[v.Version] = true
			verStrs = append(verStrs, v.Version)
		}
		for _, d := range v.Imports {
			recs = append(recs, fmt.Sprintf("i:%s:%s:%d:%s", t.Ix(d.Name), t.Ix(d.Req), d.Type.Mask, t.attrs(d.Type)))
			addPair(d.Name, d.Req)
			if !seenReq[d.Req] {
				seenReq[d.Req] = true
				reqs = append(reqs, d.Req)
			}
		}
	}
	for _, p := range pairs {
		ms, err := lc.MatchingVersions(ctx, npmReqVK(p.pkg, p.req))
		val := "_"
		if err != nil {
			val = "!"
		} else if len(ms) > 0 {
			xs := make([]string, len(ms))
			for i, m := range ms {
				xs[i] = t.Ix(m.Version)
			}
			val = strings.Join(xs, ",")
		}
		recs = append(recs, fmt.Sprintf("m:%s:%s:%s", t.Ix(p.pkg), t.Ix(p.req), val))
	}
	for _, r := range reqs {
		c, err := semver.NPM.ParseConstraint(r)
		val := "_"
		if err != nil {
			val = "!"
		} else {
			var xs []string
			for _, vs := range verStrs {
				if c.Match(vs) {
					xs = append(xs, t.Ix(vs))
				}
			}
			if len(xs) > 0 {
				val = strings.Join(xs, ",")
			}
		}
		recs = append(recs, fmt.Sprintf("s:%s:%s", t.Ix(r), val))
	}
	seenX := map[string]bool{}
	for _, v := range n.Versions {
		for _, d := range v.Imports {
			if i := strings.LastIndex(d.Name, ">"); i >= 0 && !seenX[d.Name] {
				seenX[d.Name] = true
				recs = append(recs, fmt.Sprintf("x:%s:%s", t.Ix(d.Name), t.Ix(d.Name[i+1:])))
			}
		}
	}
	return t.Encode(), strings.Join(recs, ";"), true
}

func isReserved(s string) bool {
	for _, r := range Reserved {
		if r == s {
			return true
		}
	}
	return false
}

func sameUniverse(a, b *NpmUniverse) bool {
	if len(a.Versions) != len(b.Versions) {
		return false
	}
	for i := range a.Versions {
		x, y := a.Versions[i], b.Versions[i]
		if x.Name != y.Name || x.Version != y.Version || !x.Attr.Equal(y.Attr) || len(x.Imports) != len(y.Imports) {
			return false
		}
		for j := range x.Imports {
			p, q := x.Imports[j], y.Imports[j]
			if p.Name != q.Name || p.Req != q.Req || !p.Type.Equal(q.Type) {
				return false
			}
		}
	}
	return true
}

func (t *Table) parseAttrs(s string) ([]Attr, error) {
	if s == "_" {
		return nil, nil
	}
	var out []Attr
	for _, it := range strings.Split(s, ",") {
		kv := strings.Split(it, "=")
		if len(kv) != 2 {
			return nil, fmt.Errorf("attr %q", it)
		}
		k, err1 := strconv.Atoi(kv[0])
		vi, err2 := strconv.Atoi(kv[1])
		v, ok := t.Str(vi)
		if err1 != nil || err2 != nil || !ok {
			return nil, fmt.Errorf("attr %q", it)
		}
		out = append(out, Attr{k, v})
	}
	return out, nil
}

func (t *Table) str(s string) (string, error) {
	i, err := strconv.Atoi(s)
	if err != nil {
		return "", err
	}
	v, ok := t.Str(i)
	if !ok {
		return "", fmt.Errorf("index %d out of table", i)
	}
	return v, nil
}

// NpmDecode parses the two op-line fields back into a universe (the `m:` and
// `s:` records are the model's input only and are skipped here).
func NpmDecode(table, body string) (*Table, *NpmUniverse, error) {
	t, err := DecodeTable(table)
	if err != nil {
		return nil, nil, err
	}
	u := &NpmUniverse{}
	for _, rec := range strings.Split(body, ";") {
		f := strings.Split(rec, ":")
		switch {
		case f[0] == "v" && len(f) == 5:
			name, e1 := t.str(f[1])
			ver, e2 := t.str(f[2])
			mask, e3 := strconv.Atoi(f[3])
			attrs, e4 := t.parseAttrs(f[4])
			if e1 != nil || e2 != nil || e3 != nil || e4 != nil {
				return nil, nil, fmt.Errorf("bad record %q", rec)
			}
			u.Versions = append(u.Versions, NpmVersion{Name: name, Version: ver, Attr: AttrSet{mask, attrs}})
		case f[0] == "i" && len(f) == 5:
			name, e1 := t.str(f[1])
			req, e2 := t.str(f[2])
			mask, e3 := strconv.Atoi(f[3])
			attrs, e4 := t.parseAttrs(f[4])
			if e1 != nil || e2 != nil || e3 != nil || e4 != nil || len(u.Versions) == 0 {
				return nil, nil, fmt.Errorf("bad record %q", rec)
			}
			v := &u.Versions[len(u.Versions)-1]
			v.Imports = append(v.Imports, NpmImport{Name: name, Req: req, Type: AttrSet{mask, attrs}})
		case f[0] == "m" && len(f) == 4, f[0] == "s" && len(f) == 3, f[0] == "x" && len(f) == 3:
		default:
			return nil, nil, fmt.Errorf("bad record %q", rec)
		}
	}
	return t, u, nil
}

// Text renders the universe in the repository's schema notation (for humans:
// oracle details and replays).
func (u *NpmUniverse) Text() string {
	var b strings.Builder
	last := "\x00"
	for _, v := range u.Versions {
		if v.Name != last {
			fmt.Fprintf(&b, "%s\n", v.Name)
			last = v.Name
		}
		fmt.Fprintf(&b, "\t%s%s\n", attrText(v.Attr, true), v.Version)
		for _, d := range v.Imports {
			fmt.Fprintf(&b, "\t\t%s%s@%s\n", attrText(d.Type, false), d.Name, d.Req)
		}
	}
	return b.String()
}

func attrText(a AttrSet, ver bool) string {
	var ps []string
	names := map[int]string{1: "Dev", 2: "Opt", 4: "Test"}
	keys := map[int]string{DepScope: "Scope", DepKnownAs: "KnownAs", DepSelector: "Selector"}
	if ver {
		names = map[int]string{1: "Blocked", 2: "Deleted", 4: "Error"}
		keys = map[int]string{VerDerived: "DerivedFrom", VerTags: "Tags"}
	}
	for b := 1; b < 128; b <<= 1 {
		if a.Mask&b != 0 {
			if n, ok := names[b]; ok {
				ps = append(ps, n)
			} else {
				ps = append(ps, fmt.Sprintf("Mask%d", b))
			}
		}
	}
	for _, x := range a.Attrs {
		k, ok := keys[x.Key]
		if !ok {
			k = fmt.Sprintf("Key%d", x.Key)
		}
		ps = append(ps, k+" "+x.Val)
	}
	if len(ps) == 0 {
		return ""
	}
	return strings.Join(ps, " ") + "|"
}
