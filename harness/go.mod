module verifharness

go 1.23.4

replace (
	deps.dev/api/v3 => /repo/api/v3
	deps.dev/util/maven => /repo/util/maven
	deps.dev/util/pypi => /repo/util/pypi
	deps.dev/util/resolve => /repo/util/resolve
	deps.dev/util/semver => /repo/util/semver
)

require (
	deps.dev/api/v3 v3.0.0-20240311054650-e1e6a3d70fb7
	deps.dev/util/maven v0.0.0-20240322043601-ff53416fec6a
	deps.dev/util/pypi v0.0.0-20250307021655-d811e36f9cad
	deps.dev/util/resolve v0.0.0-00010101000000-000000000000
	deps.dev/util/semver v0.0.0-20241230231135-52b7655a522f
	golang.org/x/mod v0.22.0
	golang.org/x/tools v0.29.0
	google.golang.org/genproto v0.0.0-20230410155749-daa745c078e1
	google.golang.org/grpc v1.71.1
	google.golang.org/protobuf v1.36.6
)

require (
	golang.org/x/net v0.38.0 // indirect
	golang.org/x/sync v0.12.0 // indirect
	golang.org/x/sys v0.31.0 // indirect
	golang.org/x/text v0.23.0 // indirect
)

replace golang.org/x/sync => golang.org/x/sync v0.10.0
