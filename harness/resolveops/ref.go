package resolveops

import (
	"fmt"
	"sort"
	"strings"

	"deps.dev/util/resolve"
	"deps.dev/util/semver"
)

// Reference notions used by the C12/C14 oracles. They are written from the
// property statements, use util/semver directly (Parse, Compare,
// ParseConstraint, Match) and nothing of util/resolve's matching code.

// Semver maps a resolve system to its semver system (as the statement's
// "ecosystem order").
func Semver(sys resolve.System) semver.System {
	switch sys {
	case resolve.NPM:
		return semver.NPM
	case resolve.Maven:
		return semver.Maven
	case resolve.PyPI:
		return semver.PyPI
	}
	return semver.DefaultSystem
}

// RefCmp is the ecosystem order on version strings: parsable before
// unparsable, then semver order, then (ties, and among unparsable) the string.
func RefCmp(sys semver.System, a, b string) int {
	va, ea := sys.Parse(a)
	vb, eb := sys.Parse(b)
	switch {
	case ea == nil && eb != nil:
		return -1
	case ea != nil && eb == nil:
		return 1
	case ea == nil && eb == nil:
		if c := va.Compare(vb); c != 0 {
			if c < 0 {
				return -1
			}
			return 1
		}
	}
	return strings.Compare(a, b)
}

// Lawful reports whether RefCmp restricted to the given strings is a total
// order up to identical strings (antisymmetric, transitive). It is the
// hypothesis CmpLawful of the C12 theorems, evaluated on a concrete list.
func Lawful(sys semver.System, vs []string) bool {
	n := len(vs)
	c := make([][]int, n)
	for i := range c {
		c[i] = make([]int, n)
		for j := range c[i] {
			c[i][j] = RefCmp(sys, vs[i], vs[j])
		}
	}
	for i := 0; i < n; i++ {
		if c[i][i] != 0 {
			return false
		}
		for j := 0; j < n; j++ {
			if c[i][j] != -c[j][i] {
				return false
			}
			for k := 0; k < n; k++ {
				if c[i][j] <= 0 && c[j][k] <= 0 && (c[i][k] > 0 || ((c[i][j] < 0 || c[j][k] < 0) && c[i][k] == 0)) {
					return false
				}
			}
		}
	}
	return true
}

func Strings(vs []V) []string {
	out := make([]string, len(vs))
	for i, v := range vs {
		out[i] = v.Version
	}
	return out
}

func Distinct(ss []string) bool {
	seen := map[string]bool{}
	for _, s := range ss {
		if seen[s] {
			return false
		}
		seen[s] = true
	}
	return true
}

// ExactLatest: the version carries the dist-tag "latest" (tags are comma separated).
func ExactLatest(tags string) bool {
	for _, t := range strings.Split(tags, ",") {
		if t == "latest" {
			return true
		}
	}
	return false
}

// LatestLookalike reports whether some tag string contains "latest" other than as a
// whole tag (notlatest, latest-2, latestx, ...). Such versions are NOT tagged latest.
// They were the class of the finding F-C12-latest-substr (sortNPMVersions tested
// strings.Contains(tags, "latest")); since its repair they are ordinary regression
// inputs: nothing is classified or tolerated on them, the helper only feeds the
// distribution histograms.
func LatestLookalike(vs []V) bool {
	for _, v := range vs {
		if strings.Contains(v.Tags, "latest") && !ExactLatest(v.Tags) {
			return true
		}
	}
	return false
}

func isPre(sys semver.System, s string) bool {
	v, err := sys.Parse(s)
	return err == nil && v.IsPrerelease()
}

// LatestToMove returns the index in vs of the version the statement moves last
// for npm ("the version tagged latest ... unless it is a prerelease while
// releases exist"); with several tagged versions, the greatest. -1 if none.
func LatestToMove(vs []V) int {
	best := -1
	allPre := true
	for i, v := range vs {
		if !isPre(semver.NPM, v.Version) {
			allPre = false
		}
		if ExactLatest(v.Tags) && (best < 0 || RefCmp(semver.NPM, vs[best].Version, v.Version) < 0) {
			best = i
		}
	}
	if best >= 0 && isPre(semver.NPM, vs[best].Version) && !allPre {
		return -1
	}
	return best
}

func multiset(dsys resolve.System, dname string, vs []V) string {
	ss := make([]string, len(vs))
	for i, v := range vs {
		ss[i] = EncV(dsys, dname, v)
	}
	sort.Strings(ss)
	return strings.Join(ss, ",")
}

// CheckOrder checks that out (a selection of in, or all of it) is in the
// ecosystem order of the statement: ascending, for npm with the latest-tagged
// version of the WHOLE list last if it was selected.
func CheckOrder(sys resolve.System, in, out []V) (bool, string) {
	ss := Semver(sys)
	rest := out
	if sys == resolve.NPM {
		if k := LatestToMove(in); k >= 0 {
			want := EncV(sys, PName, in[k])
			pos := -1
			for i, v := range out {
				if EncV(sys, PName, v) == want {
					pos = i
				}
			}
			if pos >= 0 {
				if pos != len(out)-1 {
					return true, fmt.Sprintf("version tagged latest (%s) is selected but not last", in[k].Version)
				}
				rest = out[:len(out)-1]
			}
		}
	}
	strict := Distinct(Strings(in))
	// every pair, not only neighbours: with an intransitive comparison a list can be
	// locally ascending and still have a later element below an earlier one
	for i := 0; i < len(rest); i++ {
		for j := i + 1; j < len(rest); j++ {
			c := RefCmp(ss, rest[i].Version, rest[j].Version)
			if c > 0 || (strict && c == 0) {
				return true, fmt.Sprintf("not ascending: %q before %q", rest[i].Version, rest[j].Version)
			}
		}
	}
	return false, ""
}

// RefArrange returns the unique arrangement of vs in the statement's order
// (valid when the strings are distinct and the comparator lawful on them).
func RefArrange(sys resolve.System, vs []V) []V {
	ss := Semver(sys)
	out := append([]V(nil), vs...)
	sort.SliceStable(out, func(i, j int) bool { return RefCmp(ss, out[i].Version, out[j].Version) < 0 })
	if sys == resolve.NPM {
		if k := LatestToMove(out); k >= 0 {
			l := out[k]
			out = append(append(out[:k:k], out[k+1:]...), l)
		}
	}
	return out
}

// SameMultiset reports whether a and b hold the same records.
func SameMultiset(sys resolve.System, name string, a, b []V) bool {
	return multiset(sys, name, a) == multiset(sys, name, b)
}
