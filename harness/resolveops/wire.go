// Package resolveops is the line-protocol codec and real-code executor for the
// util/resolve ops of C12 (MatchRequirement, SortVersions) and C14 (LocalClient).
// It mirrors lean/DepsDev/Model/Resolve/ClientWire.lean.
//
//	version:     hexver:flags:hextags[:Sys:hexname:type]   flags ⊆ "bdet" ("_" none; t = Tags present)
//	list:        versions joined by "," ("-" = empty)
//	requirement: Sys.hexname.hexreq.tflags.hexknown        tflags ⊆ "dok" ("_" none; k = KnownAs present)
//	reqs:        requirements joined by "|" ("-" = empty)
package resolveops

import (
	"context"
	"fmt"
	"strings"

	"deps.dev/util/resolve"
	"deps.dev/util/resolve/dep"
	"deps.dev/util/resolve/version"

	"verifharness/fw"
)

var SysByName = map[string]resolve.System{"UnknownSystem": resolve.UnknownSystem, "NPM": resolve.NPM, "Maven": resolve.Maven, "PyPI": resolve.PyPI}

func SysName(s resolve.System) string {
	switch s {
	case resolve.NPM:
		return "NPM"
	case resolve.Maven:
		return "Maven"
	case resolve.PyPI:
		return "PyPI"
	case resolve.UnknownSystem:
		return "UnknownSystem"
	}
	panic("system outside the wire format")
}

var typeByName = map[string]resolve.VersionType{"u": resolve.UnknownVersionType, "c": resolve.Concrete, "r": resolve.Requirement}

func typeName(t resolve.VersionType) string {
	switch t {
	case resolve.Concrete:
		return "c"
	case resolve.Requirement:
		return "r"
	}
	return "u"
}

// V is the wire-level description of a version record (what generators build).
type V struct {
	Sys                     resolve.System
	Name                    string
	Type                    resolve.VersionType
	Version                 string
	Blocked, Deleted, Error bool
	HasTags                 bool
	Tags                    string
}

func (v V) Real() resolve.Version {
	r := resolve.Version{VersionKey: resolve.VersionKey{PackageKey: resolve.PackageKey{System: v.Sys, Name: v.Name}, VersionType: v.Type, Version: v.Version}}
	if v.Blocked {
		r.SetAttr(version.Blocked, "")
	}
	if v.Deleted {
		r.SetAttr(version.Deleted, "")
	}
	if v.Error {
		r.SetAttr(version.Error, "")
	}
	if v.HasTags {
		r.SetAttr(version.Tags, v.Tags)
	}
	return r
}

func FromReal(r resolve.Version) V {
	v := V{Sys: r.System, Name: r.Name, Type: r.VersionType, Version: r.Version}
	v.Blocked = r.HasAttr(version.Blocked)
	v.Deleted = r.HasAttr(version.Deleted)
	v.Error = r.HasAttr(version.Error)
	v.Tags, v.HasTags = r.GetAttr(version.Tags)
	return v
}

func flags(v V) string {
	s := ""
	if v.Blocked {
		s += "b"
	}
	if v.Deleted {
		s += "d"
	}
	if v.Error {
		s += "e"
	}
	if v.HasTags {
		s += "t"
	}
	if s == "" {
		return "_"
	}
	return s
}

func EncAttrs(v V) string { return flags(v) + ":" + fw.Hx(v.Tags) }

func EncV(dsys resolve.System, dname string, v V) string {
	base := fw.Hx(v.Version) + ":" + EncAttrs(v)
	if v.Sys == dsys && v.Name == dname && v.Type == resolve.Concrete {
		return base
	}
	return base + ":" + SysName(v.Sys) + ":" + fw.Hx(v.Name) + ":" + typeName(v.Type)
}

func decAttrs(fl, tg string, v *V) {
	if fl != "_" {
		for _, c := range fl {
			switch c {
			case 'b':
				v.Blocked = true
			case 'd':
				v.Deleted = true
			case 'e':
				v.Error = true
			case 't':
				v.HasTags = true
			default:
				panic("bad flags " + fl)
			}
		}
	}
	v.Tags = fw.Unhx(tg)
	if !v.HasTags && v.Tags != "" {
		panic("tags without t flag")
	}
}

func DecV(dsys resolve.System, dname string, s string) V {
	f := strings.Split(s, ":")
	if len(f) != 3 && len(f) != 6 {
		panic("bad version " + s)
	}
	v := V{Sys: dsys, Name: dname, Type: resolve.Concrete, Version: fw.Unhx(f[0])}
	decAttrs(f[1], f[2], &v)
	if len(f) == 6 {
		sys, ok := SysByName[f[3]]
		ty, ok2 := typeByName[f[5]]
		if !ok || !ok2 {
			panic("bad version " + s)
		}
		v.Sys, v.Name, v.Type = sys, fw.Unhx(f[4]), ty
	}
	return v
}

func EncList(dsys resolve.System, dname string, vs []V) string {
	if len(vs) == 0 {
		return "-"
	}
	ss := make([]string, len(vs))
	for i, v := range vs {
		ss[i] = EncV(dsys, dname, v)
	}
	return strings.Join(ss, ",")
}

func DecList(dsys resolve.System, dname string, s string) []V {
	if s == "-" {
		return nil
	}
	var out []V
	for _, x := range strings.Split(s, ",") {
		out = append(out, DecV(dsys, dname, x))
	}
	return out
}

func EncRealList(dsys resolve.System, dname string, rs []resolve.Version) string {
	vs := make([]V, len(rs))
	for i, r := range rs {
		vs[i] = FromReal(r)
	}
	return EncList(dsys, dname, vs)
}

func RealList(vs []V) []resolve.Version {
	out := make([]resolve.Version, len(vs))
	for i, v := range vs {
		out[i] = v.Real()
	}
	return out
}

// R is the wire-level description of a requirement.
type R struct {
	Sys      resolve.System
	Name     string
	Version  string
	Dev, Opt bool
	HasKnown bool
	KnownAs  string
}

func (r R) Real() resolve.RequirementVersion {
	q := resolve.RequirementVersion{VersionKey: resolve.VersionKey{PackageKey: resolve.PackageKey{System: r.Sys, Name: r.Name}, VersionType: resolve.Requirement, Version: r.Version}}
	if r.Dev {
		q.Type.AddAttr(dep.Dev, "")
	}
	if r.Opt {
		q.Type.AddAttr(dep.Opt, "")
	}
	if r.HasKnown {
		q.Type.AddAttr(dep.KnownAs, r.KnownAs)
	}
	return q
}

func ReqFromReal(q resolve.RequirementVersion) R {
	r := R{Sys: q.System, Name: q.Name, Version: q.Version}
	r.Dev = q.Type.HasAttr(dep.Dev)
	r.Opt = q.Type.HasAttr(dep.Opt)
	r.KnownAs, r.HasKnown = q.Type.GetAttr(dep.KnownAs)
	if q.VersionType != resolve.Requirement {
		panic("requirement with a version type outside the wire format")
	}
	return r
}

func EncR(r R) string {
	fl := ""
	if r.Dev {
		fl += "d"
	}
	if r.Opt {
		fl += "o"
	}
	if r.HasKnown {
		fl += "k"
	}
	if fl == "" {
		fl = "_"
	}
	return SysName(r.Sys) + "." + fw.Hx(r.Name) + "." + fw.Hx(r.Version) + "." + fl + "." + fw.Hx(r.KnownAs)
}

func DecR(s string) R {
	f := strings.Split(s, ".")
	if len(f) != 5 {
		panic("bad requirement " + s)
	}
	sys, ok := SysByName[f[0]]
	if !ok {
		panic("bad requirement " + s)
	}
	r := R{Sys: sys, Name: fw.Unhx(f[1]), Version: fw.Unhx(f[2]), KnownAs: fw.Unhx(f[4])}
	if f[3] != "_" {
		for _, c := range f[3] {
			switch c {
			case 'd':
				r.Dev = true
			case 'o':
				r.Opt = true
			case 'k':
				r.HasKnown = true
			default:
				panic("bad requirement flags " + s)
			}
		}
	}
	if !r.HasKnown && r.KnownAs != "" {
		panic("knownAs without k flag")
	}
	return r
}

func EncReqs(rs []R) string {
	if len(rs) == 0 {
		return "-"
	}
	ss := make([]string, len(rs))
	for i, r := range rs {
		ss[i] = EncR(r)
	}
	return strings.Join(ss, "|")
}

func DecReqs(s string) []R {
	if s == "-" {
		return nil
	}
	var out []R
	for _, x := range strings.Split(s, "|") {
		out = append(out, DecR(x))
	}
	return out
}

const PName = "p"

// ExecC12 runs `matchreq Sys hexreq list` and `sortv Sys list` on the real code.
func ExecC12(f []string) string {
	switch {
	case len(f) == 4 && f[0] == "matchreq":
		sys, ok := SysByName[f[1]]
		if !ok {
			return "bad-op"
		}
		req := resolve.VersionKey{PackageKey: resolve.PackageKey{System: sys, Name: PName}, VersionType: resolve.Requirement, Version: fw.Unhx(f[2])}
		vs := RealList(DecList(sys, PName, f[3]))
		return "ok " + EncRealList(sys, PName, resolve.MatchRequirement(req, vs))
	case len(f) == 3 && f[0] == "sortv":
		sys, ok := SysByName[f[1]]
		if !ok {
			return "bad-op"
		}
		vs := RealList(DecList(sys, PName, f[2]))
		resolve.SortVersions(vs)
		return "ok " + EncRealList(sys, PName, vs)
	case len(f) == 3 && f[0] == "classify":
		// the harness's copy of the decidable hypothesis of the partial theorems
		// (finding classifier); the driver answers with the Lean predicate
		sys, ok := SysByName[f[1]]
		if !ok {
			return "bad-op"
		}
		vs := DecList(sys, PName, f[2])
		b := func(x bool) int {
			if x {
				return 1
			}
			return 0
		}
		return fmt.Sprintf("ok lawful=%d", b(Lawful(Semver(sys), Strings(vs))))
	}
	return "bad-op"
}

// SeqOp is one decoded op of a C14 sequence.
type SeqOp struct {
	Kind string // add ver vers reqs match
	Sys  resolve.System
	Name string
	Type resolve.VersionType
	Ver  string
	V    V   // add
	Reqs []R // add
}

func (o SeqOp) Enc() string {
	head := o.Kind + ":" + SysName(o.Sys) + ":" + fw.Hx(o.Name)
	switch o.Kind {
	case "add":
		return head + ":" + typeName(o.Type) + ":" + fw.Hx(o.Ver) + ":" + EncAttrs(o.V) + ":" + EncReqs(o.Reqs)
	case "ver", "reqs":
		return head + ":" + typeName(o.Type) + ":" + fw.Hx(o.Ver)
	case "vers":
		return head
	case "match":
		return head + ":" + fw.Hx(o.Ver)
	}
	panic("bad op kind")
}

func DecSeqOp(s string) SeqOp {
	f := strings.Split(s, ":")
	bad := func() SeqOp { panic("bad seq op " + s) }
	if len(f) < 3 {
		return bad()
	}
	sys, ok := SysByName[f[1]]
	if !ok {
		return bad()
	}
	o := SeqOp{Kind: f[0], Sys: sys, Name: fw.Unhx(f[2])}
	switch {
	case f[0] == "add" && len(f) == 8:
		ty, ok := typeByName[f[3]]
		if !ok {
			return bad()
		}
		o.Type, o.Ver = ty, fw.Unhx(f[4])
		o.V = V{Sys: sys, Name: o.Name, Type: ty, Version: o.Ver}
		decAttrs(f[5], f[6], &o.V)
		o.Reqs = DecReqs(f[7])
	case (f[0] == "ver" || f[0] == "reqs") && len(f) == 5:
		ty, ok := typeByName[f[3]]
		if !ok {
			return bad()
		}
		o.Type, o.Ver = ty, fw.Unhx(f[4])
	case f[0] == "vers" && len(f) == 3:
	case f[0] == "match" && len(f) == 4:
		o.Type, o.Ver = resolve.Requirement, fw.Unhx(f[3])
	default:
		return bad()
	}
	return o
}

func EncSeq(ops []SeqOp) string {
	ss := make([]string, len(ops))
	for i, o := range ops {
		ss[i] = o.Enc()
	}
	return strings.Join(ss, ";")
}

func DecSeq(s string) []SeqOp {
	var out []SeqOp
	for _, x := range strings.Split(s, ";") {
		out = append(out, DecSeqOp(x))
	}
	return out
}

func (o SeqOp) vk() resolve.VersionKey {
	return resolve.VersionKey{PackageKey: resolve.PackageKey{System: o.Sys, Name: o.Name}, VersionType: o.Type, Version: o.Ver}
}

// stepReal performs one op on the real client and renders the observation at once
// (before any later call can touch the returned slices).
func stepReal(lc *resolve.LocalClient, o SeqOp) (obs string) {
	defer func() {
		if r := recover(); r != nil {
			obs = "!"
		}
	}()
	ctx := context.Background()
	switch o.Kind {
	case "add":
		reqs := make([]resolve.RequirementVersion, len(o.Reqs))
		for i, r := range o.Reqs {
			reqs[i] = r.Real()
		}
		lc.AddVersion(o.V.Real(), reqs)
		return "+"
	case "ver":
		v, err := lc.Version(ctx, o.vk())
		if err != nil {
			return "nf"
		}
		if v.VersionKey != o.vk() {
			return "wrongkey"
		}
		return "a=" + EncAttrs(FromReal(v))
	case "vers":
		vs, err := lc.Versions(ctx, resolve.PackageKey{System: o.Sys, Name: o.Name})
		if err != nil {
			return "nf"
		}
		return "v=" + EncRealList(o.Sys, o.Name, vs)
	case "reqs":
		rs, err := lc.Requirements(ctx, o.vk())
		if err != nil {
			return "nf"
		}
		out := make([]R, len(rs))
		for i, q := range rs {
			out[i] = ReqFromReal(q)
		}
		return "r=" + EncReqs(out)
	case "match":
		vs, err := lc.MatchingVersions(ctx, o.vk())
		if err != nil {
			return "nf"
		}
		return "v=" + EncRealList(o.Sys, o.Name, vs)
	}
	panic("bad op kind")
}

// ExecC14 runs `seq op;op;…` on a fresh LocalClient.
func ExecC14(f []string) string {
	if len(f) != 2 || f[0] != "seq" {
		return "bad-op"
	}
	ops := DecSeq(f[1])
	lc := resolve.NewLocalClient()
	obs := make([]string, len(ops))
	for i, o := range ops {
		obs[i] = stepReal(lc, o)
	}
	return "ok " + strings.Join(obs, ";")
}

var _ = fmt.Sprint
