// Optional spec validator for C03 (Maven): answers "spec<TAB>version" lines with
// VersionRange.createFromVersionSpec(spec).containsVersion(version): 1 / 0 / invalid.
// Never part of a verdict: it validates the harness's reference semantics.
import java.io.*;
import org.apache.maven.artifact.versioning.*;

public class MavenRef {
    public static void main(String[] a) throws Exception {
        BufferedReader in = new BufferedReader(new InputStreamReader(System.in, "UTF-8"));
        PrintWriter out = new PrintWriter(new BufferedWriter(new OutputStreamWriter(System.out, "UTF-8")));
        out.println("maven-artifact");
        out.flush();
        String l;
        while ((l = in.readLine()) != null) {
            int i = l.lastIndexOf('\t');
            String spec = l.substring(0, i), v = l.substring(i + 1);
            String r;
            try {
                VersionRange vr = VersionRange.createFromVersionSpec(spec);
                r = vr.containsVersion(new DefaultArtifactVersion(v)) ? "1" : "0";
            } catch (InvalidVersionSpecificationException e) {
                r = "invalid";
            }
            out.println(r);
        }
        out.flush();
    }
}
