#!/usr/bin/env python3
"""Optional spec validator for C03 (PyPI): answers "specifier<TAB>version" lines with what
packaging's SpecifierSet(spec).contains(version) computes: 1 / 0 / invalid.
First line: "packaging <version>" or "none". Never part of a verdict."""
import sys
try:
    try:
        import packaging
        from packaging.specifiers import SpecifierSet, InvalidSpecifier
        from packaging.version import Version, InvalidVersion
    except ImportError:
        from pip._vendor import packaging
        from pip._vendor.packaging.specifiers import SpecifierSet, InvalidSpecifier
        from pip._vendor.packaging.version import Version, InvalidVersion
except Exception:
    print("none")
    sys.exit(0)
print("packaging " + packaging.__version__)
sys.stdout.flush()
for line in sys.stdin:
    line = line.rstrip("\n")
    spec, _, ver = line.rpartition("\t")
    try:
        r = "1" if SpecifierSet(spec).contains(Version(ver)) else "0"
    except (InvalidSpecifier, InvalidVersion):
        r = "invalid"
    print(r)
