// Optional spec validator for C03 (Cargo): answers "req<TAB>version" lines with
// VersionReq::parse(req).matches(Version::parse(version)): 1 / 0 / invalid.
use std::io::{self, BufRead, Write};
fn main() {
    let stdin = io::stdin();
    let out = io::stdout();
    let mut out = io::BufWriter::new(out.lock());
    writeln!(out, "semver-crate 1.0.28").unwrap();
    for line in stdin.lock().lines() {
        let l = line.unwrap();
        let i = l.rfind('\t').unwrap();
        let (req, ver) = (&l[..i], &l[i + 1..]);
        let r = match (semver::VersionReq::parse(req), semver::Version::parse(ver)) {
            (Ok(r), Ok(v)) => if r.matches(&v) { "1" } else { "0" },
            _ => "invalid",
        };
        writeln!(out, "{}", r).unwrap();
    }
}
