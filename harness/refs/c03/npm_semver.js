// Optional spec validator for C03 (npm): answers "range<TAB>version" lines with what
// node-semver computes: 1 / 0 / invalid (range or version rejected). First line: version.
// Never part of a verdict: it validates the harness's reference semantics.
const path = process.argv[2];
let s;
try { s = require(path); } catch (e) { console.log("none"); process.exit(0); }
let ver = "unknown";
try { ver = require(path + "/package.json").version; } catch (e) {}
console.log("semver " + ver);
const rl = require("readline").createInterface({ input: process.stdin, terminal: false });
const out = [];
rl.on("line", (l) => {
  const i = l.lastIndexOf("\t");
  const range = l.slice(0, i), v = l.slice(i + 1);
  let r;
  if (s.validRange(range) === null || s.valid(v) === null) r = "invalid";
  else r = s.satisfies(v, range) ? "1" : "0";
  out.push(r);
  if (out.length >= 4096) { process.stdout.write(out.join("\n") + "\n"); out.length = 0; }
});
rl.on("close", () => { if (out.length) process.stdout.write(out.join("\n") + "\n"); });
