// usage: node node_semver.js <dir of the semver package>   (stdin: one version per line)
// Output: the comparison matrix of node-semver (strict mode; loose for spellings that only
// loose mode accepts), one row per input line: '<' '=' '>' or 'X' when a side is rejected.
const semver = require(process.argv[2]);
const lines = require('fs').readFileSync(0, 'utf8').split('\n');
if (lines.length && lines[lines.length - 1] === '') lines.pop();
const parsed = lines.map(s => {
  try { return new semver.SemVer(s); } catch (e) {}
  try { return new semver.SemVer(s, { loose: true }); } catch (e) {}
  return null;
});
const out = [];
for (let i = 0; i < lines.length; i++) {
  let row = '';
  for (let j = 0; j < lines.length; j++) {
    if (!parsed[i] || !parsed[j]) { row += 'X'; continue; }
    const c = parsed[i].compare(parsed[j]);
    row += c < 0 ? '<' : c > 0 ? '>' : '=';
  }
  out.push(row);
}
process.stdout.write(out.join('\n') + '\n');
