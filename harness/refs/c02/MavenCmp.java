// usage: java -cp maven-artifact.jar:<classes> MavenCmp   (stdin: one version per line)
// Output: the comparison matrix of org.apache.maven.artifact.versioning.ComparableVersion.
import java.io.*;
import java.util.*;
import org.apache.maven.artifact.versioning.ComparableVersion;

public class MavenCmp {
    public static void main(String[] args) throws Exception {
        BufferedReader in = new BufferedReader(new InputStreamReader(System.in, "UTF-8"));
        List<ComparableVersion> vs = new ArrayList<>();
        String line;
        while ((line = in.readLine()) != null) vs.add(new ComparableVersion(line));
        StringBuilder sb = new StringBuilder();
        for (ComparableVersion a : vs) {
            for (ComparableVersion b : vs) {
                int c = Integer.signum(a.compareTo(b));
                sb.append(c < 0 ? '<' : c > 0 ? '>' : '=');
            }
            sb.append('\n');
        }
        System.out.print(sb);
    }
}
