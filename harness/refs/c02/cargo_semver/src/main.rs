// stdin: one version per line; stdout: the comparison matrix of semver::Version::cmp_precedence.
use std::cmp::Ordering;
use std::io::{self, Read, Write};

fn main() {
    let mut s = String::new();
    io::stdin().read_to_string(&mut s).unwrap();
    let mut lines: Vec<&str> = s.split('\n').collect();
    if lines.last() == Some(&"") {
        lines.pop();
    }
    let vs: Vec<Option<semver::Version>> = lines.iter().map(|l| semver::Version::parse(l).ok()).collect();
    let mut out = String::new();
    for a in &vs {
        for b in &vs {
            out.push(match (a, b) {
                (Some(a), Some(b)) => match a.cmp_precedence(b) {
                    Ordering::Less => '<',
                    Ordering::Equal => '=',
                    Ordering::Greater => '>',
                },
                _ => 'X',
            });
        }
        out.push('\n');
    }
    io::stdout().write_all(out.as_bytes()).unwrap();
}
