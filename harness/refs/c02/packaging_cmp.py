# usage: python3 packaging_cmp.py   (stdin: one version per line)
# Output: the comparison matrix of packaging.version.Version (the stand-alone package, or
# the copy pip vendors), rows of '<' '=' '>' or 'X' when a side is rejected.
import sys
try:
    from packaging.version import Version, InvalidVersion
except ImportError:
    from pip._vendor.packaging.version import Version, InvalidVersion
lines = sys.stdin.read().split("\n")
if lines and lines[-1] == "":
    lines.pop()
vs = []
for s in lines:
    try:
        vs.append(Version(s))
    except InvalidVersion:
        vs.append(None)
out = []
for a in vs:
    row = []
    for b in vs:
        if a is None or b is None:
            row.append("X")
        else:
            row.append("<" if a < b else (">" if a > b else "="))
    out.append("".join(row))
sys.stdout.write("\n".join(out) + "\n")
