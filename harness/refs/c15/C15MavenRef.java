// Optional spec validator for property C15: runs Maven's own DefaultModelBuilder
// (the jars of the Maven installation, offline) on rendered lineages and prints the
// dependencies and managed dependencies of the effective model.
//
//   java -cp <classes>:/usr/share/maven/lib/* C15MavenRef <root> <n> <java.version>
//
// reads <root>/<i>/child.pom and the repository <root>/<i>/repo (maven2 layout),
// writes <root>/mvn.out. Strings are hex encoded exactly as the Go harness does.
import java.io.*;
import java.nio.charset.StandardCharsets;
import java.util.*;
import org.apache.maven.model.*;
import org.apache.maven.model.building.*;
import org.apache.maven.model.resolution.*;
import org.apache.maven.model.Repository;

public class C15MavenRef {
  static class R implements ModelResolver {
    File root; R(File r){root=r;}
    public ModelSource resolveModel(String g, String a, String v) throws UnresolvableModelException {
      File f = new File(root, g.replace('.', '/') + "/" + a + "/" + v + "/" + a + "-" + v + ".pom");
      if (!f.exists()) throw new UnresolvableModelException("missing", g, a, v);
      return new FileModelSource(f);
    }
    public ModelSource resolveModel(Parent p) throws UnresolvableModelException { return resolveModel(p.getGroupId(), p.getArtifactId(), p.getVersion()); }
    public ModelSource resolveModel(Dependency d) throws UnresolvableModelException { return resolveModel(d.getGroupId(), d.getArtifactId(), d.getVersion()); }
    public void addRepository(Repository r) {}
    public void addRepository(Repository r, boolean b) {}
    public ModelResolver newCopy() { return this; }
  }
  static String hx(String x){
    if (x==null || x.isEmpty()) return "-";
    StringBuilder b = new StringBuilder();
    for (byte c : x.getBytes(StandardCharsets.UTF_8)) b.append(String.format("%02x", c & 0xff));
    return b.toString();
  }
  static String fmt(Dependency d) {
    StringBuilder ex = new StringBuilder();
    for (Exclusion e : d.getExclusions()) { if (ex.length()>0) ex.append("+"); ex.append(hx(e.getGroupId())+"/"+hx(e.getArtifactId())); }
    if (ex.length()==0) ex.append("-");
    return hx(d.getGroupId())+":"+hx(d.getArtifactId())+":"+hx(d.getVersion())+":"+hx(d.getType())+":"+hx(d.getClassifier())+":"+hx(d.getScope())+":"+hx(d.getOptional())+":"+ex;
  }
  public static void main(String[] a) throws Exception {
    File root = new File(a[0]); int n = Integer.parseInt(a[1]); String jdk = a[2];
    PrintWriter out = new PrintWriter(new OutputStreamWriter(new FileOutputStream(new File(root, "mvn.out")), StandardCharsets.UTF_8));
    // what the OS activator of this Maven version looks at (the JVM's own properties, lower case)
    out.println("ENV " + hx(org.codehaus.plexus.util.Os.OS_NAME) + " " + hx(org.codehaus.plexus.util.Os.OS_ARCH) + " " + hx(org.codehaus.plexus.util.Os.OS_VERSION));
    ModelBuilder mb = new DefaultModelBuilderFactory().newInstance();
    for (int i=0;i<n;i++) {
      File dir = new File(root, ""+i);
      out.println("CASE "+i);
      try {
        DefaultModelBuildingRequest req = new DefaultModelBuildingRequest();
        req.setPomFile(new File(dir, "child.pom"));
        req.setModelResolver(new R(new File(dir, "repo")));
        req.setProcessPlugins(false);
        req.setTwoPhaseBuilding(false);
        req.setValidationLevel(ModelBuildingRequest.VALIDATION_LEVEL_MINIMAL);
        Properties sys = new Properties();
        sys.setProperty("java.version", jdk);
        req.setSystemProperties(sys);
        Model m;
        try { m = mb.build(req).getEffectiveModel(); }
        catch (ModelBuildingException e) {
          StringBuilder sb = new StringBuilder();
          for (ModelProblem p : e.getProblems()) if (p.getSeverity()!=ModelProblem.Severity.WARNING) sb.append(" | ").append(p.getMessage().replaceAll("\\s+"," "));
          out.println("PROBLEMS" + sb);
          continue;
        }
        StringBuilder d1 = new StringBuilder(), d2 = new StringBuilder();
        for (Dependency d : m.getDependencies()) { if (d1.length()>0) d1.append(","); d1.append(fmt(d)); }
        if (m.getDependencyManagement()!=null) for (Dependency d : m.getDependencyManagement().getDependencies()) { if (d2.length()>0) d2.append(","); d2.append(fmt(d)); }
        out.println("ok deps=[" + d1 + "] mgmt=[" + d2 + "]");
      } catch (Exception e) {
        String msg = e.getMessage(); if (msg==null) msg=e.toString();
        out.println("ERR " + msg.split("\n")[0]);
      }
    }
    out.close();
  }
}
