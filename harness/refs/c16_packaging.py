#!/usr/bin/env python3
"""Optional spec validator for C16: answers JSON lines with what pip's vendored
packaging (21.3 in this image; 20.9 is what pip 21.1.3 vendors) computes.

stdin : one JSON object per line
  {"k":"name","s":str}
  {"k":"req","s":str,"mtext":str|null}
  {"k":"marker","s":str,"extras":[str],"env":{name:value}}
stdout: one JSON object per line, same order. First line: {"packaging": version}.
Never part of a verdict: it validates the harness's reference semantics.
"""
import json, sys

try:
    from pip._vendor import packaging as _p
    from pip._vendor.packaging.requirements import Requirement, InvalidRequirement
    from pip._vendor.packaging.markers import Marker, InvalidMarker
    from pip._vendor.packaging.utils import canonicalize_name
except Exception as e:  # pragma: no cover
    print(json.dumps({"packaging": None, "error": repr(e)}))
    sys.exit(0)

print(json.dumps({"packaging": _p.__version__}))
sys.stdout.flush()


def marker_eval(text, extras, env):
    try:
        m = Marker(text)
    except InvalidMarker:
        return "INVALID"
    try:
        vals = []
        for e in (extras or [""]):
            d = dict(env)
            d["extra"] = e
            vals.append(m.evaluate(d))
        return "T" if any(vals) else "F"
    except Exception as ex:
        return "ERR:" + type(ex).__name__


for line in sys.stdin:
    line = line.strip()
    if not line:
        continue
    q = json.loads(line)
    k = q["k"]
    if k == "name":
        out = {"name": canonicalize_name(q["s"])}
    elif k == "req":
        try:
            r = Requirement(q["s"])
        except InvalidRequirement:
            out = {"ok": False}
        else:
            out = {"ok": True, "url": r.url is not None, "name": canonicalize_name(r.name), "rawname": r.name,
                   "extras": sorted(r.extras), "specs": sorted(str(s) for s in r.specifier),
                   "marker": None if r.marker is None else str(r.marker)}
            mt = q.get("mtext")
            if mt is not None and r.marker is not None:
                try:
                    out["marker_same"] = str(Marker(mt)) == str(r.marker)
                except InvalidMarker:
                    out["marker_same"] = False
    elif k == "marker":
        out = {"v": marker_eval(q["s"], q.get("extras") or [], q["env"])}
    else:
        out = {"error": "unknown kind"}
    print(json.dumps(out))
sys.stdout.flush()
