// C10: a version's canonical string denotes the same version.
package main

import (
	"fmt"
	"strings"

	"deps.dev/util/semver"

	"verifharness/fw"
	"verifharness/semvergen"
	"verifharness/semverops"
)

func exec(f []string) string {
	if r, ok := semverops.Exec(f); ok {
		return r
	}
	return "bad-op"
}

// field extracts key=<hex> from a result line.
func field(res, key string) (string, bool) {
	for _, f := range strings.Fields(res) {
		if strings.HasPrefix(f, key+"=") {
			return fw.Unhx(strings.TrimPrefix(f, key+"=")), true
		}
	}
	return "", false
}

func lineArgs(line string) (semver.System, []string) {
	f := strings.Fields(line)
	var out []string
	for _, h := range f[3:] {
		out = append(out, fw.Unhx(h))
	}
	return semverops.SysNames[f[2]], out
}

func recheck(oracle string, ops, res []string) (bool, string) {
	switch oracle {
	case "roundtrip":
		// ops: parse s ; parse canon ; cmp s canon       (canon = Canon(showBuild) chosen by the generator)
		if !strings.HasPrefix(res[0], "ok") {
			return false, ""
		}
		_, a1 := lineArgs(ops[1])
		canon := a1[0]
		c0, _ := field(res[0], "c")
		s0, _ := field(res[0], "s")
		if canon != c0 && canon != s0 {
			return true, "internal: replayed canonical string is neither Canon(true) nor Canon(false)"
		}
		key := "c"
		if canon != c0 {
			key = "s"
		}
		if !strings.HasPrefix(res[1], "ok") {
			return true, fmt.Sprintf("canonical string %q does not parse", canon)
		}
		if res[2] != "ok 0" {
			return true, fmt.Sprintf("canonical string %q compares %s with the original", canon, res[2])
		}
		again, _ := field(res[1], key)
		if again != canon {
			return true, fmt.Sprintf("canonicalising %q again gives %q", canon, again)
		}
	case "pcanon": // parse s ; pcanon s ; parse canon ; cmp s canon ; pcanon canon
		if !strings.HasPrefix(res[0], "ok") {
			return false, ""
		}
		canon := fw.Unhx(strings.TrimPrefix(res[1], "ok "))
		if !strings.HasPrefix(res[2], "ok") {
			return true, fmt.Sprintf("pypi.CanonVersion result %q does not parse", canon)
		}
		if res[3] != "ok 0" {
			return true, fmt.Sprintf("pypi.CanonVersion result %q compares %s with the original", canon, res[3])
		}
		if res[4] != res[1] {
			return true, fmt.Sprintf("pypi.CanonVersion is not idempotent on %q", canon)
		}
	case "samecanon":
		// ops: parse a ; parse b ; cmp a b — equal canonical strings imply equal versions
		ca, ok1 := field(res[0], "c")
		cb, ok2 := field(res[1], "c")
		if ok1 && ok2 && ca == cb && res[2] != "ok 0" {
			return true, fmt.Sprintf("same canonical string %q but compare gives %s", ca, res[2])
		}
	default:
		return true, "unknown oracle"
	}
	return false, ""
}

func classifyOne(sys semver.System, a string) string {
	v, err := sys.Parse(a)
	if err != nil {
		return ""
	}
	if v.IsWildcard() {
		return "F-C10-wild" // hypothesis ¬isWildcard
	}
	if sys == semver.Maven && len(a) > 0 && (a[0] == '.' || a[0] == '-') {
		return "F-C10-mvn-leadsep" // hypothesis: the Maven string does not begin with a separator
	}
	if sys == semver.PyPI && strings.Contains(v.Canon(true), "∞") {
		return "F-C10-pypi-inf" // hypothesis Props.C10.NoInfinity: PyPI accepts the infinity sign as a release number
	}
	if sys == semver.RubyGems && v.IsPrerelease() {
		return "F-C10-gem" // the property's own exclusion: release-only RubyGems versions
	}
	return ""
}

func classify(oracle string, ops, res []string) string {
	n := 1
	if oracle == "samecanon" {
		n = 2
	}
	if oracle == "pcanon" {
		n = 1
	}
	for i := 0; i < n; i++ {
		sys, a := lineArgs(ops[i])
		if c := classifyOne(sys, a[0]); c != "" {
			return c
		}
	}
	return ""
}

func run(c *fw.Ctx) {
	per := c.N(1500, 60000)
	for _, sys := range semverops.Systems {
		byCanon := map[string][]string{}
		seen := map[string]bool{}
		try := func(s string) {
			if seen[s] || !semverops.InModelDomain(sys, s) {
				return
			}
			seen[s] = true
			i0, r0 := c.Opf("C10 parse %s %s", sys, fw.Hx(s))
			c.Count(sys.String() + ":" + strings.Fields(r0)[0])
			if !strings.HasPrefix(r0, "ok") {
				return
			}
			for _, key := range []string{"c", "s"} {
				canon, _ := field(r0, key)
				i1, _ := c.Opf("C10 parse %s %s", sys, fw.Hx(canon))
				i2, _ := c.Opf("C10 cmp %s %s %s", sys, fw.Hx(s), fw.Hx(canon))
				c.Check("roundtrip", i0, i1, i2)
			}
			if sys == semver.PyPI {
				// the property's other observation point: pypi.CanonVersion
				ip, rp := c.Opf("C10 pcanon %s", fw.Hx(s))
				if pc := strings.TrimPrefix(rp, "ok "); pc != rp {
					i1, _ := c.Opf("C10 parse %s %s", sys, pc)
					i2, _ := c.Opf("C10 cmp %s %s %s", sys, fw.Hx(s), pc)
					i3, _ := c.Opf("C10 pcanon %s", pc)
					c.Check("pcanon", i0, ip, i1, i2, i3)
				}
			}
			cs, _ := field(r0, "c")
			byCanon[cs] = append(byCanon[cs], s)
			c.Nontrivial(sys.String() + "|" + cs)
		}
		ex := semverops.Exhaustive(semverops.SmallAlphabet(sys), c.N(4, 5))
		c.Rng.Shuffle(len(ex), func(i, j int) { ex[i], ex[j] = ex[j], ex[i] })
		for i, s := range ex {
			if i >= per {
				break
			}
			try(s)
		}
		for i := 0; i < per; i++ {
			try(semverops.GenVersion(c.Rng, sys))
		}
		if sys == semver.PyPI {
			for _, s := range []string{"01!∞", "00!∞", "1.∞", "01!∞.1", "2.∞.0"} {
				try(s)
			}
		}
		for i := 0; i < per/10; i++ {
			try(semverops.Mutate(c.Rng, semverops.GenVersion(c.Rng, sys)))
		}
		// families of near-equal spellings (case, leading zeros, separators, neighbouring
		// letters/digits, added/dropped components) of generated versions
		for i := 0; i < per/6; i++ {
			for _, v := range semverops.Variants(c.Rng, semverops.GenVersion(c.Rng, sys), 4) {
				try(v)
			}
		}
		// same canonical string => compare equal
		n := 0
		for _, group := range byCanon {
			for i := 1; i < len(group) && i < 6; i++ {
				ia, _ := c.Opf("C10 parse %s %s", sys, fw.Hx(group[0]))
				ib, _ := c.Opf("C10 parse %s %s", sys, fw.Hx(group[i]))
				ic, _ := c.Opf("C10 cmp %s %s %s", sys, fw.Hx(group[0]), fw.Hx(group[i]))
				c.Check("samecanon", ia, ib, ic)
				n++
			}
		}
		c.Count(fmt.Sprintf("%s:samecanon-pairs", sys))
		if len(byCanon) > 0 {
			for k, g := range byCanon {
				c.Sample(fmt.Sprintf("%s: %q -> %q", sys, g, k))
				break
			}
		}
	}
}

func main() {
	fw.Main(&fw.Prop{
		ID:   "C10",
		Rule: "per system (incl. families of near-equal spellings of generated versions): small-scope exhaustive token strings + AST-generated versions with alternative spellings + mutations; for each accepted version both Canon(true) and Canon(false) are re-parsed, compared with the original and canonicalised again; versions grouped by canonical string must compare equal. Distinct non-trivial = distinct (system, canonical string) of accepted versions.",
		Exec: exec, Run: run, Recheck: recheck, Classify: classify,
		Gens: semvergen.Generators(),
	})
}
