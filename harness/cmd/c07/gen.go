package main

// Generators: random universes per the property's quantifier, a small-scope
// systematic stream, the universes of maven/testdata, and the shrinker.

import (
	"context"
	"fmt"
	"math/rand"
	"os"
	"path/filepath"
	"sort"
	"strings"

	"deps.dev/util/resolve"
	"deps.dev/util/resolve/verifx"
	"deps.dev/util/resolve/version"
	"verifharness/fw"
)

var versionPool = []string{"1.0", "1.1", "2.0-alpha-1", "2.0", "2.1", "3.0"}
var oddVersions = []string{"1.0.0", "2", "1.0-SNAPSHOT", "x", "2.0.0"}
var rangePool = []string{"[1.0,2.0]", "[1.1,)", "(,2.0)", "[2.0]", "[1.0,1.1],[2.0,3.0]", "(1.0,2.0)", "[2.1,3.0]", "[1.0,)", "(,3.0]", "[2.0,3.0]", "[3.0]", "[1.0]"}
var junkReqs = []string{"", "[", "[1.0", "(,)", "[2.0,1.0]", "1.0,2.0", "[9.0,)", "${v}"}

type genOpts struct {
	keys      bool // classifiers / artifact types
	malformed bool // odd names, junk requirements, odd versions, reserved attributes
	ranges    float64
}

func pick(r *rand.Rand, xs ...string) string { return xs[r.Intn(len(xs))] }

func genUniverse(r *rand.Rand, o genOpts) *univ {
	n := 3 + r.Intn(6)
	u := &univ{}
	names := make([]string, n)
	for i := range names {
		g := "g"
		if r.Intn(4) == 0 {
			g = "h"
		}
		names[i] = fmt.Sprintf("%s:p%d", g, i)
		if o.malformed && r.Intn(25) == 0 {
			names[i] = pick(r, fmt.Sprintf("p%d", i), fmt.Sprintf("g:p%d:x", i), fmt.Sprintf(":p%d", i))
		}
	}
	vers := make([][]string, n)
	for i := range names {
		k := 1 + r.Intn(4)
		if r.Intn(15) == 0 {
			k = 0
		}
		perm := r.Perm(len(versionPool))[:k]
		sort.Ints(perm)
		for _, vi := range perm {
			vers[i] = append(vers[i], versionPool[vi])
		}
		if o.malformed && r.Intn(6) == 0 {
			x := pick(r, oddVersions...)
			vers[i] = append(vers[i], x)
		}
	}
	exclPool := []string{"*:*", "g:*", "h:*", "*:p1", "*:p2"}
	genReq := func(q int) string {
		x := r.Float64()
		switch {
		case o.malformed && x < 0.04:
			return pick(r, junkReqs...)
		case x < 0.06 || len(vers[q]) == 0:
			return pick(r, versionPool...) // possibly missing
		case x < 0.06+o.ranges:
			// a range; mostly one that some version of q satisfies
			for try := 0; try < 6; try++ {
				rg := pick(r, rangePool...)
				if _, c := mavenKind(rg); c != nil {
					for _, v := range vers[q] {
						if c.Match(v) {
							return rg
						}
					}
				}
			}
			return pick(r, rangePool...)
		}
		return vers[q][r.Intn(len(vers[q]))]
	}
	genType := func() dtype {
		var t dtype
		for k := 0; k < 2; k++ {
			switch r.Intn(16) {
			case 0:
				t.mask |= mTest
			case 1:
				t.mask |= mOpt
			case 2:
				t = t.with(kScope, "provided")
			case 3:
				t = t.with(kScope, pick(r, "runtime", "system", "import"))
			case 4, 5:
				e := pick(r, append(exclPool, names[r.Intn(n)])...)
				if r.Intn(3) == 0 {
					e += pick(r, "|", ",") + pick(r, append(exclPool, names[r.Intn(n)])...)
				}
				if o.malformed && r.Intn(8) == 0 {
					e = pick(r, ",", "|x", "g:p1,,g:p2|")
				}
				t = t.with(kExclusions, e)
			case 6:
				if o.keys {
					t = t.with(kClassifier, pick(r, "tests", "sources", ""))
				}
			case 7:
				if o.keys {
					t = t.with(kArtType, pick(r, "war", "ear", "rar", "pom", "test-jar", "jar", "jar"))
				}
			case 8:
				if o.malformed {
					switch r.Intn(4) {
					case 0:
						t.mask |= 1
					case 1:
						t.mask |= 8
					case 2:
						t = t.with(kOrigin, pick(r, "import", "parent", ""))
					case 3:
						t = t.with(1+r.Intn(12), pick(r, "", "x", "provided", "war"))
					}
				}
			default:
				k = 2
			}
		}
		return t
	}
	for i, name := range names {
		p := pkg{name: name}
		for _, v := range vers[i] {
			vv := ver{v: v, unlisted: r.Intn(20) == 0}
			nd := r.Intn(4)
			if r.Intn(5) == 0 {
				nd += 2
			}
			for j := 0; j < nd; j++ {
				q := r.Intn(n)
				vv.imps = append(vv.imps, imp{names[q], genReq(q), genType()})
			}
			// dependencyManagement entries
			if r.Intn(3) == 0 {
				for k := 1 + r.Intn(2); k > 0; k-- {
					q := r.Intn(n)
					t := dtype{}.with(kOrigin, "management")
					if o.keys && r.Intn(5) == 0 {
						t = t.with(kClassifier, pick(r, "tests", "sources"))
					}
					d := imp{names[q], genReq(q), t}
					pos := r.Intn(len(vv.imps) + 1)
					vv.imps = append(vv.imps[:pos], append([]imp{d}, vv.imps[pos:]...)...)
				}
			}
			p.vers = append(p.vers, vv)
		}
		u.pkgs = append(u.pkgs, p)
	}
	// a duplicated declaration now and then
	if r.Intn(6) == 0 {
		for i := range u.pkgs {
			for j := range u.pkgs[i].vers {
				v := &u.pkgs[i].vers[j]
				if len(v.imps) > 0 && r.Intn(3) == 0 {
					v.imps = append(v.imps, v.imps[r.Intn(len(v.imps))])
				}
			}
		}
	}
	u.normalise()
	return u
}

// ---- small-scope systematic stream ---------------------------------------------

type menuItem struct {
	name, req string
	t         dtype
}

func smallMenu() []menuItem {
	tests := dtype{}.with(kClassifier, "tests")
	war := dtype{}.with(kArtType, "war")
	exb := dtype{}.with(kExclusions, "g:b")
	exa := dtype{}.with(kExclusions, "*:a")
	return []menuItem{
		{"g:a", "1.0", dtype{}}, {"g:a", "2.0", dtype{}}, {"g:a", "[2.0,3.0]", dtype{}}, {"g:a", "[1.0]", dtype{}},
		{"g:a", "1.0", tests}, {"g:a", "[2.0,3.0]", tests}, {"g:a", "1.0", exb}, {"g:a", "2.0", war},
		{"g:b", "1.0", dtype{}}, {"g:b", "2.0", dtype{}}, {"g:b", "[1.0,2.0)", dtype{}}, {"g:b", "1.0", exa},
		{"g:b", "1.0", dtype{mask: mTest}}, {"g:r", "1.0", dtype{}}, {"g:a", "3.0", dtype{}.with(kOrigin, "management")},
	}
}

// smallUniverse builds r@1.0 {m[i], m[j]}, a@1.0 {m[k]}, a@2.0 {}, a@3.0 {m[l]}, b@1.0 {m[o]}, b@2.0 {}.
// An index equal to len(menu) means "no declaration".
func smallUniverse(menu []menuItem, i, j, k, l, o int) *univ {
	mk := func(ix ...int) []imp {
		var r []imp
		for _, x := range ix {
			if x < len(menu) {
				r = append(r, imp{menu[x].name, menu[x].req, menu[x].t})
			}
		}
		return r
	}
	u := &univ{pkgs: []pkg{
		{"g:r", []ver{{v: "1.0", imps: mk(i, j)}}},
		{"g:a", []ver{{v: "1.0", imps: mk(k)}, {v: "2.0"}, {v: "3.0", imps: mk(l)}}},
		{"g:b", []ver{{v: "1.0", imps: mk(o)}, {v: "2.0"}}},
	}}
	u.normalise()
	return u
}

// ---- maven/testdata ---------------------------------------------------------------

type tdCase struct {
	u        *univ
	name, vr string
	label    string
}

func fromLocalClient(lc *resolve.LocalClient) (*univ, bool) {
	u := &univ{}
	var pks []resolve.PackageKey
	for pk := range lc.PackageVersions {
		pks = append(pks, pk)
	}
	sort.Slice(pks, func(i, j int) bool { return pks[i].Compare(pks[j]) < 0 })
	for _, pk := range pks {
		if pk.System != resolve.Maven {
			return nil, false
		}
		p := pkg{name: pk.Name}
		for _, v := range lc.PackageVersions[pk] {
			// single registry (U5): versions carrying registries are outside the model;
			// Blocked = unlisted, as in maven/resolve_test.go
			unl := v.AttrSet.HasAttr(version.Blocked)
			if _, reg := v.AttrSet.GetAttr(version.Registries); reg {
				return nil, false
			}
			imps, err := lc.Requirements(context.Background(), v.VersionKey)
			if err != nil {
				return nil, false
			}
			vv := ver{v: v.Version, unlisted: unl}
			for _, d := range imps {
				if d.VersionType != resolve.Requirement || d.System != resolve.Maven {
					return nil, false
				}
				vv.imps = append(vv.imps, imp{d.Name, d.Version, fromDepType(d.Type)})
			}
			p.vers = append(p.vers, vv)
		}
		u.pkgs = append(u.pkgs, p)
	}
	u.normalise()
	return u, true
}

func testdataCases(repo string) ([]tdCase, []string) {
	var out []tdCase
	var notes []string
	files, _ := filepath.Glob(filepath.Join(repo, "util", "resolve", "maven", "testdata", "*_test.data"))
	sort.Strings(files)
	for _, f := range files {
		fh, err := os.Open(f)
		if err != nil {
			notes = append(notes, "testdata: "+err.Error())
			continue
		}
		a, err := verifx.ParseTestData(fh, resolve.Maven)
		fh.Close()
		if err != nil {
			notes = append(notes, "testdata: "+filepath.Base(f)+": "+err.Error())
			continue
		}
		done := map[*resolve.LocalClient]*univ{}
		skipped := 0
		for _, t := range a.Test {
			u, seen := done[t.Universe]
			if !seen {
				var ok bool
				u, ok = fromLocalClient(t.Universe)
				if !ok {
					u = nil
				}
				done[t.Universe] = u
			}
			if u == nil {
				skipped++
				continue
			}
			out = append(out, tdCase{u, t.VK.Name, t.VK.Version, filepath.Base(f) + ":" + t.Name})
		}
		if skipped > 0 {
			notes = append(notes, fmt.Sprintf("testdata: %s: %d tests skipped (universes with registry attributes: multi-registry is outside C07)", filepath.Base(f), skipped))
		}
	}
	return out, notes
}

// ---- shrinking ---------------------------------------------------------------------

// shrink deletes packages, versions, declarations and attributes while the same
// oracle keeps failing with the same classification on the real code.
func shrink(u *univ, rn, rv, oracle, class string) *univ {
	fails := func(c *univ) bool {
		c.normalise()
		line := c.line(rn, rv)
		res := safeResolve(c, rn, rv)
		if _, bad := evalOracles(line, res)[oracle]; !bad {
			return false
		}
		return classify(oracle, []string{line}, []string{res}) == class
	}
	cur := u.clone()
	for changed := true; changed; {
		changed = false
		for i := 0; i < len(cur.pkgs); i++ {
			if cur.pkgs[i].name == rn {
				continue
			}
			c := cur.clone()
			c.pkgs = append(c.pkgs[:i], c.pkgs[i+1:]...)
			if fails(c) {
				cur, changed = c, true
				i--
			}
		}
		for i := 0; i < len(cur.pkgs); i++ {
			for j := 0; j < len(cur.pkgs[i].vers); j++ {
				if cur.pkgs[i].name == rn && cur.pkgs[i].vers[j].v == rv {
					continue
				}
				c := cur.clone()
				c.pkgs[i].vers = append(c.pkgs[i].vers[:j], c.pkgs[i].vers[j+1:]...)
				if fails(c) {
					cur, changed = c, true
					j--
				}
			}
		}
		for i := 0; i < len(cur.pkgs); i++ {
			for j := 0; j < len(cur.pkgs[i].vers); j++ {
				for k := 0; k < len(cur.pkgs[i].vers[j].imps); k++ {
					c := cur.clone()
					is := c.pkgs[i].vers[j].imps
					c.pkgs[i].vers[j].imps = append(is[:k], is[k+1:]...)
					if fails(c) {
						cur, changed = c, true
						k--
						continue
					}
					d := cur.pkgs[i].vers[j].imps[k]
					for _, a := range d.t.attrs {
						c := cur.clone()
						c.pkgs[i].vers[j].imps[k].t = d.t.without(a.k)
						if fails(c) {
							cur, changed = c, true
							d = cur.pkgs[i].vers[j].imps[k]
						}
					}
					if d.t.mask != 0 {
						c := cur.clone()
						c.pkgs[i].vers[j].imps[k].t.mask = 0
						if fails(c) {
							cur, changed = c, true
						}
					}
				}
			}
		}
	}
	cur.normalise()
	return cur
}

func safeResolve(u *univ, rn, rv string) (res string) {
	defer func() {
		if recover() != nil {
			res = "panic"
		}
	}()
	return runResolve(u, rn, rv)
}

// text renders a universe in the schema syntax of the repo's testdata (for samples).
func (u *univ) text() string {
	var b strings.Builder
	for _, p := range u.pkgs {
		fmt.Fprintf(&b, "%s\n", p.name)
		for _, v := range p.vers {
			fmt.Fprintf(&b, "\t%s\n", v.v)
			for _, d := range v.imps {
				fmt.Fprintf(&b, "\t\t%s|%s@%s\n", d.t.enc(","), d.name, d.req)
			}
		}
	}
	return b.String()
}

var _ = fw.Hx
