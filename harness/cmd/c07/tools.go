package main

// Human-facing helpers (not used by ./check):
//
//	c07 encode <name> <version> < universe.txt   schema text (the syntax of maven/testdata) → op line
//	c07 decode < ops.txt                         op lines → readable universes, real result, oracle verdicts

import (
	"bufio"
	"fmt"
	"io"
	"os"

	"deps.dev/util/resolve"
	"deps.dev/util/resolve/schema"
)

func tools(args []string) bool {
	if len(args) < 2 {
		return false
	}
	switch args[1] {
	case "encode":
		if len(args) != 4 {
			fmt.Fprintln(os.Stderr, "usage: c07 encode <name> <version> < universe.txt")
			os.Exit(2)
		}
		b, _ := io.ReadAll(os.Stdin)
		sch, err := schema.New(string(b), resolve.Maven)
		if err != nil {
			fmt.Fprintln(os.Stderr, err)
			os.Exit(1)
		}
		u, ok := fromLocalClient(sch.NewClient())
		if !ok {
			fmt.Fprintln(os.Stderr, "universe outside C07 (registries)")
			os.Exit(1)
		}
		fmt.Println(u.line(args[2], args[3]))
		return true
	case "decode":
		sc := bufio.NewScanner(os.Stdin)
		sc.Buffer(make([]byte, 1<<20), 1<<26)
		for sc.Scan() {
			u, rn, rv, ok := decOpLine(sc.Text())
			if !ok {
				fmt.Println("undecodable:", sc.Text())
				continue
			}
			res := safeResolve(u, rn, rv)
			fmt.Printf("root %s@%s\n%s=> %s\n", rn, rv, u.text(), res)
			bad := evalOracles(sc.Text(), res)
			for _, o := range sortedKeys(bad) {
				fmt.Printf("   %s VIOLATED [%s]: %s\n", o, classify(o, []string{sc.Text()}, []string{res}), bad[o])
			}
		}
		return true
	}
	return false
}
