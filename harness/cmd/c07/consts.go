package main

// Translator generator C07Consts (data only): the constants of
// util/resolve/maven/resolve.go and util/resolve/dep/key.go the Lean model of the
// Maven resolver is written against. Every value is read from /repo's working tree;
// Props/C07.lean has a tie theorem for each.
//
// The constants are found by their ROLE in the type-checked package, never by the
// name of an unexported function, variable or constant and never by the position of
// a literal in a function body:
//
//   - the dep.AttrKey values: the exported constants of util/resolve/dep;
//   - the strings an attribute value is compared with: data flow from a call of the
//     exported method dep.Type.GetAttr(dep.<Key>) (through assignments and arguments
//     of package-local functions) into ==, != or switch/case with a constant;
//   - the exclusion wildcards: constant (parts of) keys looked up in a map[string]bool,
//     and the separator of the strings.Split call of the same function;
//   - the exclusion-list separators: the predicate handed to strings.FieldsFunc on the
//     dep.MavenExclusions value;
//   - the retry bound: the constant bounding the for loop of the exported method Resolve.
//
// Constants are evaluated by go/types (TypesInfo.Types[e].Value), so a literal, a named
// constant and a constant expression are the same thing.

import (
	"fmt"
	"go/ast"
	"go/constant"
	"go/token"
	"go/types"
	"path/filepath"
	"sort"
	"strconv"
	"strings"

	"golang.org/x/tools/go/packages"
	"verifharness/fw"
)

const depPkgPath = "deps.dev/util/resolve/dep"

func bytesList(ss []string) string {
	parts := make([]string, len(ss))
	for i, s := range ss {
		parts[i] = fw.LeanBytes(s)
	}
	return "[" + strings.Join(parts, ", ") + "]"
}

// callee returns the object a call expression calls (function, method, or a
// variable holding a function), nil for conversions and the like.
func callee(p *packages.Package, call *ast.CallExpr) types.Object {
	switch f := ast.Unparen(call.Fun).(type) {
	case *ast.Ident:
		return p.TypesInfo.Uses[f]
	case *ast.SelectorExpr:
		return p.TypesInfo.Uses[f.Sel]
	}
	return nil
}

func isFuncOf(o types.Object, pkgPath, name string) bool {
	f, ok := o.(*types.Func)
	return ok && f.Pkg() != nil && f.Pkg().Path() == pkgPath && f.Name() == name
}

func identObj(p *packages.Package, e ast.Expr) types.Object {
	id, ok := ast.Unparen(e).(*ast.Ident)
	if !ok || id.Name == "_" {
		return nil
	}
	if o := p.TypesInfo.Defs[id]; o != nil {
		return o
	}
	return p.TypesInfo.Uses[id]
}

func constStr(p *packages.Package, e ast.Expr) (string, bool) { return fw.EvalStr(p, e) }

func isConst(p *packages.Package, e ast.Expr) bool {
	tv, ok := p.TypesInfo.Types[e]
	return ok && tv.Value != nil
}

// inspectAll walks every file of the package.
func inspectAll(p *packages.Package, fn func(ast.Node) bool) {
	for _, f := range p.Syntax {
		ast.Inspect(f, fn)
	}
}

// A flow is the set of variables holding the value of one GetAttr(dep.<key>) call.
type flow struct {
	pos  token.Pos
	vars map[types.Object]bool
	ok   map[*ast.Ident]bool // occurrences accounted for (definition, comparison, forwarding)
}

type cmpConst struct {
	pos token.Pos
	val string
}

// attrFlows finds every `v, … := x.GetAttr(K)` with K a constant of type dep.AttrKey of
// value key and follows v through plain assignments and arguments of package-local
// functions.
func attrFlows(p *packages.Package, key int64) []*flow {
	var flows []*flow
	seed := func(lhs ast.Expr, rhs ast.Expr) {
		call, ok := ast.Unparen(rhs).(*ast.CallExpr)
		if !ok || len(call.Args) != 1 || !isFuncOf(callee(p, call), depPkgPath, "GetAttr") {
			return
		}
		tv, ok := p.TypesInfo.Types[call.Args[0]]
		if !ok || tv.Value == nil {
			return
		}
		nt, ok := tv.Type.(*types.Named)
		if !ok || nt.Obj().Pkg() == nil || nt.Obj().Pkg().Path() != depPkgPath || nt.Obj().Name() != "AttrKey" {
			return
		}
		if v, ok := constant.Int64Val(constant.ToInt(tv.Value)); !ok || v != key {
			return
		}
		o := identObj(p, lhs)
		if o == nil {
			return
		}
		fl := &flow{pos: rhs.Pos(), vars: map[types.Object]bool{o: true}, ok: map[*ast.Ident]bool{}}
		fl.ok[ast.Unparen(lhs).(*ast.Ident)] = true
		flows = append(flows, fl)
	}
	inspectAll(p, func(n ast.Node) bool {
		switch s := n.(type) {
		case *ast.AssignStmt:
			if len(s.Rhs) == 1 && len(s.Lhs) >= 1 {
				seed(s.Lhs[0], s.Rhs[0])
			}
		case *ast.ValueSpec:
			if len(s.Values) == 1 && len(s.Names) >= 1 {
				seed(s.Names[0], s.Values[0])
			}
		}
		return true
	})
	for _, fl := range flows {
		for changed := true; changed; {
			changed = false
			add := func(o types.Object) {
				if o != nil && !fl.vars[o] {
					fl.vars[o] = true
					changed = true
				}
			}
			inspectAll(p, func(n ast.Node) bool {
				switch s := n.(type) {
				case *ast.AssignStmt:
					if len(s.Lhs) == len(s.Rhs) {
						for i, r := range s.Rhs {
							if o := identObj(p, r); o != nil && fl.vars[o] {
								if l, ok := ast.Unparen(s.Lhs[i]).(*ast.Ident); ok && l.Name != "_" {
									add(identObj(p, l))
									fl.ok[l] = true
									fl.ok[ast.Unparen(r).(*ast.Ident)] = true
								}
							}
						}
					}
				case *ast.CallExpr:
					fn, ok := callee(p, s).(*types.Func)
					if !ok || fn.Pkg() != p.Types {
						return true
					}
					sig := fn.Type().(*types.Signature)
					for i, a := range s.Args {
						if o := identObj(p, a); o != nil && fl.vars[o] && i < sig.Params().Len() && !(sig.Variadic() && i >= sig.Params().Len()-1) {
							add(sig.Params().At(i))
							fl.ok[ast.Unparen(a).(*ast.Ident)] = true
						}
					}
				}
				return true
			})
		}
	}
	return flows
}

// compared lists the constant strings the flow's variables are compared with (==, !=,
// switch/case), in source order, and reports whether a variable is used in any other way
// (stored, returned, passed to foreign code, …).
func (fl *flow) compared(p *packages.Package) (cs []cmpConst, otherUse bool) {
	inVars := func(e ast.Expr) *ast.Ident {
		id, ok := ast.Unparen(e).(*ast.Ident)
		if ok && fl.vars[p.TypesInfo.Uses[id]] {
			return id
		}
		return nil
	}
	inspectAll(p, func(n ast.Node) bool {
		switch s := n.(type) {
		case *ast.BinaryExpr:
			if s.Op != token.EQL && s.Op != token.NEQ {
				return true
			}
			for _, xy := range [2][2]ast.Expr{{s.X, s.Y}, {s.Y, s.X}} {
				if id := inVars(xy[0]); id != nil {
					if v, ok := constStr(p, xy[1]); ok {
						cs = append(cs, cmpConst{xy[1].Pos(), v})
						fl.ok[id] = true
					}
				}
			}
		case *ast.SwitchStmt:
			id := (*ast.Ident)(nil)
			if s.Tag != nil {
				id = inVars(s.Tag)
			}
			if id == nil {
				return true
			}
			fl.ok[id] = true
			for _, c := range s.Body.List {
				for _, e := range c.(*ast.CaseClause).List {
					if v, ok := constStr(p, e); ok {
						cs = append(cs, cmpConst{e.Pos(), v})
					} else {
						otherUse = true
					}
				}
			}
		}
		return true
	})
	inspectAll(p, func(n ast.Node) bool {
		if id, ok := n.(*ast.Ident); ok && fl.vars[p.TypesInfo.Uses[id]] && !fl.ok[id] {
			otherUse = true
		}
		return true
	})
	sort.Slice(cs, func(i, j int) bool { return cs[i].pos < cs[j].pos })
	return cs, otherUse
}

func distinct(cs []cmpConst) []string {
	var out []string
	seen := map[string]bool{}
	for _, c := range cs {
		if !seen[c.val] {
			seen[c.val] = true
			out = append(out, c.val)
		}
	}
	return out
}

// retryBound: the exported method Resolve bounds its retry loop by `<counter> < N`.
func retryBound(p *packages.Package) (int64, error) {
	var bounds []int64
	n := 0
	for _, f := range p.Syntax {
		for _, d := range f.Decls {
			fd, ok := d.(*ast.FuncDecl)
			if !ok || fd.Recv == nil || fd.Name.Name != "Resolve" || fd.Body == nil {
				continue
			}
			n++
			ast.Inspect(fd.Body, func(nd ast.Node) bool {
				fs, ok := nd.(*ast.ForStmt)
				if !ok || fs.Cond == nil {
					return true
				}
				var leaf func(e ast.Expr)
				leaf = func(e ast.Expr) {
					b, ok := ast.Unparen(e).(*ast.BinaryExpr)
					if !ok {
						return
					}
					switch b.Op {
					case token.LAND:
						leaf(b.X)
						leaf(b.Y)
					case token.LSS: // i < N
						if v, ok := fw.EvalInt(p, b.Y); ok && !isConst(p, b.X) {
							bounds = append(bounds, v)
						}
					case token.GTR: // N > i
						if v, ok := fw.EvalInt(p, b.X); ok && !isConst(p, b.Y) {
							bounds = append(bounds, v)
						}
					}
				}
				leaf(fs.Cond)
				return true
			})
		}
	}
	if n != 1 {
		return 0, fmt.Errorf("maven: expected one method Resolve, found %d", n)
	}
	if len(bounds) != 1 || bounds[0] < 0 {
		return 0, fmt.Errorf("maven.Resolve: expected one for loop bounded by `counter < constant`, found bounds %v", bounds)
	}
	return bounds[0], nil
}

type exclConsts struct{ all, sep, groupSuffix, artifactPrefix string }

func isStringBoolMap(t types.Type) bool {
	m, ok := t.Underlying().(*types.Map)
	if !ok {
		return false
	}
	k, ok1 := m.Key().Underlying().(*types.Basic)
	v, ok2 := m.Elem().Underlying().(*types.Basic)
	return ok1 && ok2 && k.Kind() == types.String && v.Kind() == types.Bool
}

// exclusionConsts reads the function that looks wildcards up in a map[string]bool:
// m[<const>] (everything excluded), m[x+<const>] and m[<const>+y] (group / artifact
// wildcard), and the constant separator of the strings.Split call that yields x and y.
func exclusionConsts(p *packages.Package) (exclConsts, error) {
	var out exclConsts
	found := 0
	for _, f := range p.Syntax {
		for _, d := range f.Decls {
			fd, ok := d.(*ast.FuncDecl)
			if !ok || fd.Body == nil {
				continue
			}
			var all, suf, pre, seps []string
			ast.Inspect(fd.Body, func(n ast.Node) bool {
				switch x := n.(type) {
				case *ast.IndexExpr:
					tv, ok := p.TypesInfo.Types[x.X]
					if !ok || !isStringBoolMap(tv.Type) {
						return true
					}
					if s, ok := constStr(p, x.Index); ok {
						all = append(all, s)
						return true
					}
					if b, ok := ast.Unparen(x.Index).(*ast.BinaryExpr); ok && b.Op == token.ADD {
						if s, ok := constStr(p, b.Y); ok && !isConst(p, b.X) {
							suf = append(suf, s)
						} else if s, ok := constStr(p, b.X); ok && !isConst(p, b.Y) {
							pre = append(pre, s)
						}
					}
				case *ast.CallExpr:
					if o := callee(p, x); (isFuncOf(o, "strings", "Split") || isFuncOf(o, "strings", "SplitN")) && len(x.Args) >= 2 {
						if s, ok := constStr(p, x.Args[1]); ok {
							seps = append(seps, s)
						}
					}
				}
				return true
			})
			if len(suf) == 0 && len(pre) == 0 {
				continue
			}
			found++
			if len(all) != 1 || len(suf) != 1 || len(pre) != 1 || len(seps) != 1 {
				return out, fmt.Errorf("maven.%s: expected one constant key, one x+constant key, one constant+y key looked up in a map[string]bool and one strings.Split separator, found %q %q %q %q",
					fd.Name.Name, all, suf, pre, seps)
			}
			out = exclConsts{all[0], seps[0], suf[0], pre[0]}
		}
	}
	if found != 1 {
		return out, fmt.Errorf("maven: expected one function looking wildcard keys up in a map[string]bool, found %d", found)
	}
	return out, nil
}

// funcBody resolves an expression used as a function value to its parameters and body:
// a function literal, a package-level function, or a local variable assigned a literal.
func funcBody(p *packages.Package, e ast.Expr) (*ast.FieldList, *ast.BlockStmt) {
	e = ast.Unparen(e)
	if fl, ok := e.(*ast.FuncLit); ok {
		return fl.Type.Params, fl.Body
	}
	o := identObj(p, e)
	if o == nil {
		return nil, nil
	}
	var params *ast.FieldList
	var body *ast.BlockStmt
	inspectAll(p, func(n ast.Node) bool {
		switch s := n.(type) {
		case *ast.FuncDecl:
			if p.TypesInfo.Defs[s.Name] == o && s.Body != nil {
				params, body = s.Type.Params, s.Body
			}
		case *ast.AssignStmt:
			if len(s.Lhs) == len(s.Rhs) {
				for i, l := range s.Lhs {
					if identObj(p, l) == o {
						if fl, ok := ast.Unparen(s.Rhs[i]).(*ast.FuncLit); ok {
							params, body = fl.Type.Params, fl.Body
						}
					}
				}
			}
		case *ast.ValueSpec:
			for i, l := range s.Names {
				if p.TypesInfo.Defs[l] == o && i < len(s.Values) {
					if fl, ok := ast.Unparen(s.Values[i]).(*ast.FuncLit); ok {
						params, body = fl.Type.Params, fl.Body
					}
				}
			}
		}
		return true
	})
	return params, body
}

// exclusionSeparators: the runes accepted by the predicate given to strings.FieldsFunc
// when it splits the dep.MavenExclusions value (or, failing to follow the value, by the
// only strings.FieldsFunc call of the package).
func exclusionSeparators(p *packages.Package, exclFlows []*flow) ([]int, error) {
	var calls, onFlow []*ast.CallExpr
	inspectAll(p, func(n ast.Node) bool {
		c, ok := n.(*ast.CallExpr)
		if !ok || !isFuncOf(callee(p, c), "strings", "FieldsFunc") || len(c.Args) != 2 {
			return true
		}
		calls = append(calls, c)
		if o := identObj(p, c.Args[0]); o != nil {
			for _, fl := range exclFlows {
				if fl.vars[o] {
					onFlow = append(onFlow, c)
					break
				}
			}
		}
		return true
	})
	if len(onFlow) > 0 {
		calls = onFlow
	}
	if len(calls) != 1 {
		return nil, fmt.Errorf("maven: expected one strings.FieldsFunc call on the MavenExclusions value, found %d", len(calls))
	}
	params, body := funcBody(p, calls[0].Args[1])
	if body == nil || params == nil || len(params.List) != 1 || len(params.List[0].Names) != 1 {
		return nil, fmt.Errorf("maven: the separator predicate of strings.FieldsFunc is not a function with one named parameter whose body is in the package")
	}
	r := p.TypesInfo.Defs[params.List[0].Names[0]]
	var seps []int
	okUse := map[*ast.Ident]bool{}
	isR := func(e ast.Expr) *ast.Ident {
		id, ok := ast.Unparen(e).(*ast.Ident)
		if ok && r != nil && p.TypesInfo.Uses[id] == r {
			return id
		}
		return nil
	}
	addConst := func(e ast.Expr) bool {
		v, ok := fw.EvalInt(p, e)
		if ok {
			seps = append(seps, int(v))
		}
		return ok
	}
	ast.Inspect(body, func(n ast.Node) bool {
		switch s := n.(type) {
		case *ast.BinaryExpr:
			if s.Op != token.EQL {
				return true
			}
			for _, xy := range [2][2]ast.Expr{{s.X, s.Y}, {s.Y, s.X}} {
				if id := isR(xy[0]); id != nil && addConst(xy[1]) {
					okUse[id] = true
				}
			}
		case *ast.SwitchStmt:
			if s.Tag == nil {
				return true
			}
			if id := isR(s.Tag); id != nil {
				all := true
				for _, c := range s.Body.List {
					for _, e := range c.(*ast.CaseClause).List {
						all = addConst(e) && all
					}
				}
				okUse[id] = all
			}
		case *ast.CallExpr: // strings.ContainsRune("|,", r), strings.IndexRune("|,", r)
			if o := callee(p, s); (isFuncOf(o, "strings", "ContainsRune") || isFuncOf(o, "strings", "IndexRune")) && len(s.Args) == 2 {
				if id := isR(s.Args[1]); id != nil {
					if set, ok := constStr(p, s.Args[0]); ok {
						for _, c := range set {
							seps = append(seps, int(c))
						}
						okUse[id] = true
					}
				}
			}
		}
		return true
	})
	bad := false
	ast.Inspect(body, func(n ast.Node) bool {
		if id, ok := n.(*ast.Ident); ok && isR(id) != nil && !okUse[id] {
			bad = true
		}
		return true
	})
	if bad || len(seps) == 0 {
		return nil, fmt.Errorf("maven: the separator predicate of strings.FieldsFunc is not a comparison of its parameter with constants (found %v)", seps)
	}
	var out []int
	seen := map[int]bool{}
	for _, c := range seps {
		if !seen[c] {
			seen[c] = true
			out = append(out, c)
		}
	}
	return out, nil
}

func genC07Consts(repo string) (string, error) {
	mv, err := fw.LoadPkg(filepath.Join(repo, "util", "resolve", "maven"))
	if err != nil {
		return "", err
	}
	dp, err := fw.LoadPkg(filepath.Join(repo, "util", "resolve", "dep"))
	if err != nil {
		return "", err
	}
	var b strings.Builder
	b.WriteString("-- C07Consts: constants of util/resolve/maven/resolve.go and util/resolve/dep/key.go used by the Maven resolver model.\n")
	b.WriteString("namespace DepsDev.Gen.C07Consts\n\n")

	maxRetries, err := retryBound(mv)
	if err != nil {
		return "", err
	}
	fmt.Fprintf(&b, "/-- `const maxRetries` in (*resolver).Resolve -/\ndef maxRetries : Nat := %d\n\n", maxRetries)

	// dep.AttrKey constants (exported API of util/resolve/dep), in a fixed order
	keys := map[string]int64{}
	for _, k := range [][2]string{{"Opt", "keyOpt"}, {"Test", "keyTest"}, {"Scope", "keyScope"}, {"MavenClassifier", "keyClassifier"},
		{"MavenArtifactType", "keyArtifactType"}, {"MavenDependencyOrigin", "keyOrigin"}, {"MavenExclusions", "keyExclusions"}, {"Selector", "keySelector"}} {
		c, ok := dp.Types.Scope().Lookup(k[0]).(*types.Const)
		if !ok {
			return "", fmt.Errorf("dep: no constant %s", k[0])
		}
		if nt, ok := c.Type().(*types.Named); !ok || nt.Obj().Name() != "AttrKey" || nt.Obj().Pkg() != dp.Types {
			return "", fmt.Errorf("dep.%s is not an AttrKey", k[0])
		}
		v, err := fw.ConstInt(dp, k[0])
		if err != nil {
			return "", err
		}
		keys[k[0]] = v
		fmt.Fprintf(&b, "/-- dep.%s -/\ndef %s : Int := %d\n", k[0], k[1], v)
	}
	b.WriteString("\n")

	// strings the attribute values are compared with
	oneValue := func(attr, what string) (string, error) {
		var cs []cmpConst
		for _, fl := range attrFlows(mv, keys[attr]) {
			c, _ := fl.compared(mv)
			cs = append(cs, c...)
		}
		vs := distinct(cs)
		if len(vs) != 1 {
			return "", fmt.Errorf("maven: expected the value of GetAttr(dep.%s) to be compared with one constant string (%s), found %q", attr, what, vs)
		}
		return vs[0], nil
	}
	// dep.MavenArtifactType is read twice: once only to test membership in a set of types
	// (whose artifacts include their dependencies), once to be kept unless it is the default.
	var member []cmpConst
	var deflt []string
	for _, fl := range attrFlows(mv, keys["MavenArtifactType"]) {
		cs, stored := fl.compared(mv)
		if len(cs) == 0 {
			continue
		}
		if stored {
			deflt = append(deflt, distinct(cs)...)
		} else {
			member = append(member, cs...)
		}
	}
	sort.Slice(member, func(i, j int) bool { return member[i].pos < member[j].pos })
	wars := distinct(member)
	if len(wars) == 0 {
		return "", fmt.Errorf("maven: no GetAttr(dep.MavenArtifactType) value that is only compared with constant artifact types")
	}
	if len(deflt) != 1 {
		return "", fmt.Errorf("maven: expected one GetAttr(dep.MavenArtifactType) value kept unless equal to one constant (the default type), found %q", deflt)
	}
	fmt.Fprintf(&b, "/-- `n.includesDependencies = t == … || …` in resolve: the artifact types, in source order -/\ndef includesDependenciesTypes : List (List UInt8) := %s\n", bytesList(wars))
	provided, err := oneValue("Scope", "the provided scope")
	if err != nil {
		return "", err
	}
	fmt.Fprintf(&b, "/-- `scope == …` in imports -/\ndef scopeProvided : List UInt8 := %s\n", fw.LeanBytes(provided))
	mgmt, err := oneValue("MavenDependencyOrigin", "the management origin")
	if err != nil {
		return "", err
	}
	fmt.Fprintf(&b, "/-- `origin != …` in dependencyManagement -/\ndef originManagement : List UInt8 := %s\n", fw.LeanBytes(mgmt))
	fmt.Fprintf(&b, "/-- `typ != …` in packageKeyForDependency -/\ndef defaultArtifactType : List UInt8 := %s\n", fw.LeanBytes(deflt[0]))

	ex, err := exclusionConsts(mv)
	if err != nil {
		return "", err
	}
	fmt.Fprintf(&b, "/-- string literals of isExcluded in source order: all-exclusion, name separator, group wildcard suffix, artifact wildcard prefix -/\n")
	fmt.Fprintf(&b, "def exclAll : List UInt8 := %s\ndef nameSep : List UInt8 := %s\ndef exclGroupSuffix : List UInt8 := %s\ndef exclArtifactPrefix : List UInt8 := %s\n",
		fw.LeanBytes(ex.all), fw.LeanBytes(ex.sep), fw.LeanBytes(ex.groupSuffix), fw.LeanBytes(ex.artifactPrefix))

	cs, err := exclusionSeparators(mv, attrFlows(mv, keys["MavenExclusions"]))
	if err != nil {
		return "", err
	}
	var cparts []string
	for _, c := range cs {
		if c < 0 || c >= 0x80 {
			return "", fmt.Errorf("maven: non-ASCII exclusion separator %d", c)
		}
		cparts = append(cparts, strconv.Itoa(c))
	}
	fmt.Fprintf(&b, "/-- separator runes of parseExclusions -/\ndef exclusionSeparators : List UInt8 := [%s]\n", strings.Join(cparts, ", "))
	b.WriteString("\nend DepsDev.Gen.C07Consts\n")
	return b.String(), nil
}
