package main

// Translator generator C07Consts (data only): the constants of
// util/resolve/maven/resolve.go and util/resolve/dep/key.go the Lean model of the
// Maven resolver is written against. Every value is read from /repo's working tree;
// Props/C07.lean has a tie theorem for each.

import (
	"fmt"
	"go/ast"
	"go/token"
	"path/filepath"
	"strconv"
	"strings"

	"golang.org/x/tools/go/packages"
	"verifharness/fw"
)

func funcDecl(p *packages.Package, name string) *ast.FuncDecl {
	for _, f := range p.Syntax {
		for _, d := range f.Decls {
			if fd, ok := d.(*ast.FuncDecl); ok && fd.Name.Name == name && fd.Body != nil {
				return fd
			}
		}
	}
	return nil
}

// cmpLits lists, in source order, the string literals compared (== or !=) with the
// identifier `id` inside fd.
func cmpLits(p *packages.Package, fd *ast.FuncDecl, id string, op token.Token) []string {
	var out []string
	ast.Inspect(fd.Body, func(n ast.Node) bool {
		b, ok := n.(*ast.BinaryExpr)
		if !ok || b.Op != op {
			return true
		}
		x, okx := b.X.(*ast.Ident)
		if !okx || x.Name != id {
			return true
		}
		if s, ok := fw.EvalStr(p, b.Y); ok {
			out = append(out, s)
		}
		return true
	})
	return out
}

// stringLits lists the string literals of fd in source order, skipping arguments
// of fmt.Errorf (messages).
func stringLits(fd *ast.FuncDecl) []string {
	var out []string
	ast.Inspect(fd.Body, func(n ast.Node) bool {
		if c, ok := n.(*ast.CallExpr); ok {
			if s, ok := c.Fun.(*ast.SelectorExpr); ok {
				if x, ok := s.X.(*ast.Ident); ok && (x.Name == "fmt" || x.Name == "log") {
					return false
				}
			}
		}
		if l, ok := n.(*ast.BasicLit); ok && l.Kind == token.STRING {
			if s, err := strconv.Unquote(l.Value); err == nil {
				out = append(out, s)
			}
		}
		return true
	})
	return out
}

func charLits(fd *ast.FuncDecl) []int {
	var out []int
	ast.Inspect(fd.Body, func(n ast.Node) bool {
		if l, ok := n.(*ast.BasicLit); ok && l.Kind == token.CHAR {
			if r, _, _, err := strconv.UnquoteChar(l.Value[1:len(l.Value)-1], '\''); err == nil {
				out = append(out, int(r))
			}
		}
		return true
	})
	return out
}

func bytesList(ss []string) string {
	parts := make([]string, len(ss))
	for i, s := range ss {
		parts[i] = fw.LeanBytes(s)
	}
	return "[" + strings.Join(parts, ", ") + "]"
}

func genC07Consts(repo string) (string, error) {
	mv, err := fw.LoadPkg(filepath.Join(repo, "util", "resolve", "maven"))
	if err != nil {
		return "", err
	}
	dp, err := fw.LoadPkg(filepath.Join(repo, "util", "resolve", "dep"))
	if err != nil {
		return "", err
	}
	var b strings.Builder
	b.WriteString("-- C07Consts: constants of util/resolve/maven/resolve.go and util/resolve/dep/key.go used by the Maven resolver model.\n")
	b.WriteString("namespace DepsDev.Gen.C07Consts\n\n")

	// maxRetries: a constant local to (*resolver).Resolve
	res := funcDecl(mv, "Resolve")
	if res == nil {
		return "", fmt.Errorf("maven: no func Resolve")
	}
	maxRetries := int64(-1)
	ast.Inspect(res.Body, func(n ast.Node) bool {
		if vs, ok := n.(*ast.ValueSpec); ok {
			for i, nm := range vs.Names {
				if nm.Name == "maxRetries" && i < len(vs.Values) {
					if v, ok := fw.EvalInt(mv, vs.Values[i]); ok {
						maxRetries = v
					}
				}
			}
		}
		return true
	})
	if maxRetries < 0 {
		return "", fmt.Errorf("maven.Resolve: constant maxRetries not found")
	}
	fmt.Fprintf(&b, "/-- `const maxRetries` in (*resolver).Resolve -/\ndef maxRetries : Nat := %d\n\n", maxRetries)

	// dep.AttrKey constants
	names, vals := fw.ConstsOfType(dp, "AttrKey")
	want := map[string]string{"Opt": "keyOpt", "Test": "keyTest", "Scope": "keyScope", "MavenClassifier": "keyClassifier",
		"MavenArtifactType": "keyArtifactType", "MavenDependencyOrigin": "keyOrigin", "MavenExclusions": "keyExclusions", "Selector": "keySelector"}
	found := 0
	for i, n := range names {
		if ln, ok := want[n]; ok {
			fmt.Fprintf(&b, "/-- dep.%s -/\ndef %s : Int := %d\n", n, ln, vals[i])
			found++
		}
	}
	if found != len(want) {
		return "", fmt.Errorf("dep: expected %d AttrKey constants, found %d", len(want), found)
	}
	b.WriteString("\n")

	one := func(fn, id string, op token.Token, lean, doc string) error {
		fd := funcDecl(mv, fn)
		if fd == nil {
			return fmt.Errorf("maven: no func %s", fn)
		}
		ls := cmpLits(mv, fd, id, op)
		if len(ls) != 1 {
			return fmt.Errorf("maven.%s: expected one string compared (%s) with %s, found %q", fn, op, id, ls)
		}
		fmt.Fprintf(&b, "/-- %s -/\ndef %s : List UInt8 := %s\n", doc, lean, fw.LeanBytes(ls[0]))
		return nil
	}
	// types whose artifacts include their dependencies (not traversed)
	rs := funcDecl(mv, "resolve")
	if rs == nil {
		return "", fmt.Errorf("maven: no func resolve")
	}
	wars := cmpLits(mv, rs, "t", token.EQL)
	if len(wars) == 0 {
		return "", fmt.Errorf("maven.resolve: no artifact types compared with t")
	}
	fmt.Fprintf(&b, "/-- `n.includesDependencies = t == … || …` in resolve: the artifact types, in source order -/\ndef includesDependenciesTypes : List (List UInt8) := %s\n", bytesList(wars))
	if err := one("imports", "scope", token.EQL, "scopeProvided", "`scope == …` in imports"); err != nil {
		return "", err
	}
	if err := one("dependencyManagement", "origin", token.NEQ, "originManagement", "`origin != …` in dependencyManagement"); err != nil {
		return "", err
	}
	if err := one("packageKeyForDependency", "typ", token.NEQ, "defaultArtifactType", "`typ != …` in packageKeyForDependency"); err != nil {
		return "", err
	}
	ex := funcDecl(mv, "isExcluded")
	if ex == nil {
		return "", fmt.Errorf("maven: no func isExcluded")
	}
	ls := stringLits(ex)
	if len(ls) != 4 {
		return "", fmt.Errorf("maven.isExcluded: expected 4 string literals (all, separator, group suffix, artifact prefix), found %q", ls)
	}
	fmt.Fprintf(&b, "/-- string literals of isExcluded in source order: all-exclusion, name separator, group wildcard suffix, artifact wildcard prefix -/\n")
	fmt.Fprintf(&b, "def exclAll : List UInt8 := %s\ndef nameSep : List UInt8 := %s\ndef exclGroupSuffix : List UInt8 := %s\ndef exclArtifactPrefix : List UInt8 := %s\n",
		fw.LeanBytes(ls[0]), fw.LeanBytes(ls[1]), fw.LeanBytes(ls[2]), fw.LeanBytes(ls[3]))
	pe := funcDecl(mv, "parseExclusions")
	if pe == nil {
		return "", fmt.Errorf("maven: no func parseExclusions")
	}
	cs := charLits(pe)
	if len(cs) == 0 {
		return "", fmt.Errorf("maven.parseExclusions: no separator characters")
	}
	var cparts []string
	for _, c := range cs {
		if c >= 0x80 {
			return "", fmt.Errorf("maven.parseExclusions: non-ASCII separator %d", c)
		}
		cparts = append(cparts, strconv.Itoa(c))
	}
	fmt.Fprintf(&b, "/-- separator runes of parseExclusions -/\ndef exclusionSeparators : List UInt8 := [%s]\n", strings.Join(cparts, ", "))
	b.WriteString("\nend DepsDev.Gen.C07Consts\n")
	return b.String(), nil
}
