package main

// Direct oracles: Maven's mediation rules M1..M8 evaluated on the graph the REAL
// resolver returned (parsed back from its canonical result line) against the
// universe in the op line. Nothing here uses the Lean model.
//
//	outcome  the result is a graph or one of the three error kinds (no panic, timeout, nil graph)
//	uniq     one node per (name, version); edge endpoints are nodes; every non-root node has exactly
//	         one creating edge (the edge carrying dep.Selector), the root has none
//	reach    every node is reachable from the root
//	M1       all edges with one artifact key (name, classifier, type; "jar" = default) point to one version
//	         (the root counts as an edge to its own default key)
//	M2       single-pass results: an artifact key all of whose declarations met by an independent breadth-first
//	         walk of the returned graph are soft is resolved to the FIRST declaration's version
//	M3       an edge whose requirement is a range (real semver: parses, not IsSimple) points inside the range
//	M4       every declaration of every traversed node that is neither filtered by scope nor excluded is
//	         accounted for by an edge or a node error with its requirement, and there are no other edges/errors
//	M5       edges leaving a non-root node whose key the root manages carry the managed version as requirement
//	M6       no edge leads to a name excluded on the creating path of its source node
//	M7       edges leaving a non-root node are not test / optional / provided
//	M8       a node created through a war/ear/rar dependency has no outgoing edge

import (
	"fmt"
	"sort"
	"strconv"
	"strings"
)

var oracleNames = []string{"outcome", "uniq", "reach", "M1", "M2", "M3", "M4", "M5", "M6", "M7", "M8"}

// attribute keys (dep.AttrKey), read from the dep package in consts.go's init
const (
	kScope      = 3
	kClassifier = 4
	kArtType    = 5
	kOrigin     = 6
	kExclusions = 9
	kSelector   = 11
	mOpt        = 2
	mTest       = 4
)

type rnode struct {
	name, ver string
	errs      [][2]string
}

type redge struct {
	from, to int
	req      string
	t        dtype
}

type rgraph struct {
	passes int
	nodes  []rnode
	edges  []redge
	dup    bool // two nodes with one key
}

func splitKey(s string) (string, string, bool) {
	p := strings.Split(s, "@")
	if len(p) != 2 {
		return "", "", false
	}
	a, ok1 := unhx(p[0])
	b, ok2 := unhx(p[1])
	return a, b, ok1 && ok2
}

func parseResult(res string) (*rgraph, bool) {
	f := strings.Fields(res)
	if len(f) != 4 || f[0] != "ok" || !strings.HasPrefix(f[1], "p=") || !strings.HasPrefix(f[2], "N=") || !strings.HasPrefix(f[3], "E=") {
		return nil, false
	}
	g := &rgraph{}
	var err error
	if g.passes, err = strconv.Atoi(f[1][2:]); err != nil {
		return nil, false
	}
	idx := map[string]int{}
	for _, ns := range strings.Split(f[2][2:], ";") {
		parts := strings.Split(ns, "!")
		n, v, ok := splitKey(parts[0])
		if !ok {
			return nil, false
		}
		nd := rnode{name: n, ver: v}
		for _, e := range parts[1:] {
			a, b, ok := splitKey(e)
			if !ok {
				return nil, false
			}
			nd.errs = append(nd.errs, [2]string{a, b})
		}
		if _, ok := idx[parts[0]]; ok {
			g.dup = true
		} else {
			idx[parts[0]] = len(g.nodes)
		}
		g.nodes = append(g.nodes, nd)
	}
	if f[3] != "E=-" {
		for _, es := range strings.Split(f[3][2:], ";") {
			p := strings.Split(es, ":")
			if len(p) != 3 {
				return nil, false
			}
			ft := strings.Split(p[0], ">")
			if len(ft) != 2 {
				return nil, false
			}
			a, ok1 := idx[ft[0]]
			b, ok2 := idx[ft[1]]
			if !ok1 || !ok2 {
				return nil, false
			}
			req, ok3 := unhx(p[1])
			t, ok4 := decType(strings.Split(p[2], ","))
			if !ok3 || !ok4 {
				return nil, false
			}
			g.edges = append(g.edges, redge{a, b, req, t})
		}
	}
	return g, true
}

type akey struct{ name, classifier, typ string }

func keyOf(name string, t dtype) akey {
	k := akey{name: name}
	if c, ok := t.get(kClassifier); ok {
		k.classifier = c
	}
	if ty, ok := t.get(kArtType); ok && ty != "jar" {
		k.typ = ty
	}
	return k
}

func (k akey) String() string { return fmt.Sprintf("%s|%s|%s", k.name, k.classifier, k.typ) }

func rootOnly(t dtype) bool {
	if t.mask&mTest != 0 || t.mask&mOpt != 0 {
		return true
	}
	s, ok := t.get(kScope)
	return ok && s == "provided"
}

func isWarType(t dtype) bool {
	ty, ok := t.get(kArtType)
	return ok && (ty == "war" || ty == "ear" || ty == "rar")
}

// exclusion patterns as Maven documents them: group:artifact, with * for either side.
type exclSet map[string]bool

func parseExcl(s string) []string {
	return strings.FieldsFunc(s, func(r rune) bool { return r == '|' || r == ',' })
}

func (x exclSet) excludes(name string) bool {
	if x == nil {
		return false
	}
	if x["*:*"] || x[name] {
		return true
	}
	ga := strings.Split(name, ":")
	if len(ga) != 2 {
		return false
	}
	return x[ga[0]+":*"] || x["*:"+ga[1]]
}

// hasSelectorInput: the oracles that identify creating edges by dep.Selector are
// only meaningful when no declaration of the universe carries that attribute.
func (u *univ) hasSelectorInput() bool {
	for _, p := range u.pkgs {
		for _, v := range p.vers {
			for _, d := range v.imps {
				if _, ok := d.t.get(kSelector); ok {
					return true
				}
			}
		}
	}
	return false
}

// nonDefaultKey: the negation of the hypothesis of M1_partial.
func (u *univ) nonDefaultKey() bool {
	for _, p := range u.pkgs {
		for _, v := range p.vers {
			for _, d := range v.imps {
				k := keyOf(d.name, d.t)
				if k.classifier != "" || k.typ != "" {
					return true
				}
			}
		}
	}
	return false
}

func evalOracles(line, res string) map[string]string {
	bad := map[string]string{}
	u, rn, rv, ok := decOpLine(line)
	if !ok {
		bad["outcome"] = "undecodable op line"
		return bad
	}
	switch res {
	case "err incompatible", "err notfound", "err other":
		return bad
	}
	g, ok := parseResult(res)
	if !ok {
		bad["outcome"] = "not a graph and not an error kind: " + res
		return bad
	}
	if g.nodes[0].name != rn || g.nodes[0].ver != rv {
		bad["uniq"] = "node 0 is not the root"
	}
	if g.dup {
		bad["uniq"] = "two nodes with one version key"
		return bad
	}
	selInput := u.hasSelectorInput()

	// creating edges
	creator := make([]int, len(g.nodes))
	for i := range creator {
		creator[i] = -1
	}
	if !selInput {
		for ei, e := range g.edges {
			if _, ok := e.t.get(kSelector); ok {
				if creator[e.to] != -1 {
					bad["uniq"] = "two selector edges into " + g.nodes[e.to].name
				}
				creator[e.to] = ei
			}
		}
		if creator[0] != -1 {
			bad["uniq"] = "selector edge into the root"
		}
		for i := 1; i < len(g.nodes); i++ {
			if creator[i] == -1 {
				bad["uniq"] = "node without creating edge: " + g.nodes[i].name + "@" + g.nodes[i].ver
			}
		}
	}

	// reach
	out := make([][]int, len(g.nodes))
	for ei, e := range g.edges {
		out[e.from] = append(out[e.from], ei)
	}
	seen := make([]bool, len(g.nodes))
	seen[0] = true
	st := []int{0}
	for len(st) > 0 {
		n := st[len(st)-1]
		st = st[:len(st)-1]
		for _, ei := range out[n] {
			if t := g.edges[ei].to; !seen[t] {
				seen[t] = true
				st = append(st, t)
			}
		}
	}
	for i, s := range seen {
		if !s {
			bad["reach"] = "unreachable node " + g.nodes[i].name + "@" + g.nodes[i].ver
		}
	}

	// M1
	kv := map[akey]string{{name: rn}: rv}
	for _, e := range g.edges {
		k := keyOf(g.nodes[e.to].name, e.t)
		if old, ok := kv[k]; ok && old != g.nodes[e.to].ver {
			bad["M1"] = fmt.Sprintf("artifact %s resolved to %s and %s", k, old, g.nodes[e.to].ver)
		} else {
			kv[k] = g.nodes[e.to].ver
		}
	}

	// M3
	for _, e := range g.edges {
		if k, c := mavenKind(e.req); k == 'h' && !matches(e.req, c, g.nodes[e.to].ver) {
			bad["M3"] = fmt.Sprintf("edge %s -%s-> %s@%s outside the range", g.nodes[e.from].name, e.req, g.nodes[e.to].name, g.nodes[e.to].ver)
		}
	}

	// M5, M7
	rootVer := u.find(rn, rv)
	mgt := map[akey]string{}
	if rootVer != nil {
		for _, d := range rootVer.imps {
			if o, ok := d.t.get(kOrigin); ok && o == "management" {
				mgt[keyOf(d.name, d.t)] = d.req
			}
		}
	}
	for _, e := range g.edges {
		if e.from == 0 {
			continue
		}
		if rootOnly(e.t) {
			bad["M7"] = fmt.Sprintf("test/optional/provided edge from non-root %s to %s", g.nodes[e.from].name, g.nodes[e.to].name)
		}
		if mv, ok := mgt[keyOf(g.nodes[e.to].name, e.t)]; ok && mv != e.req {
			bad["M5"] = fmt.Sprintf("managed %s: edge from %s carries %s, management says %s", g.nodes[e.to].name, g.nodes[e.from].name, e.req, mv)
		}
	}
	if selInput || bad["uniq"] != "" {
		return bad
	}

	// M8
	for i := 1; i < len(g.nodes); i++ {
		if isWarType(g.edges[creator[i]].t) && len(out[i]) > 0 {
			bad["M8"] = "traversed war/ear/rar node " + g.nodes[i].name + "@" + g.nodes[i].ver
		}
	}

	// M6: exclusion sets along creating paths
	excl := make([]exclSet, len(g.nodes))
	done := make([]bool, len(g.nodes))
	var exclOf func(i int, depth int) exclSet
	exclOf = func(i, depth int) exclSet {
		if i == 0 || done[i] || depth > len(g.nodes) {
			return excl[i]
		}
		ce := g.edges[creator[i]]
		parent := exclOf(ce.from, depth+1)
		x := parent
		if s, ok := ce.t.get(kExclusions); ok && s != "" {
			x = exclSet{}
			for k := range parent {
				x[k] = true
			}
			for _, f := range parseExcl(s) {
				x[f] = true
			}
		}
		excl[i], done[i] = x, true
		return x
	}
	for i := range g.nodes {
		exclOf(i, 0)
	}
	for _, e := range g.edges {
		if excl[e.from].excludes(g.nodes[e.to].name) {
			bad["M6"] = fmt.Sprintf("%s reached from %s although excluded on its path", g.nodes[e.to].name, g.nodes[e.from].name)
		}
	}

	// independent breadth-first walk: M4 and M2
	decl := map[akey][]string{}
	var keyOrder []akey
	queued := make([]bool, len(g.nodes))
	queued[0] = true
	queue := []int{0}
	type sig struct {
		name, req, t string
	}
	for qi := 0; qi < len(queue); qi++ {
		n := queue[qi]
		first := n == 0
		if !first && isWarType(g.edges[creator[n]].t) {
			if len(g.nodes[n].errs) > 0 {
				bad["M4"] = "error on an untraversed node"
			}
			continue
		}
		v := u.find(g.nodes[n].name, g.nodes[n].ver)
		if v == nil {
			bad["M4"] = "node not in the universe: " + g.nodes[n].name + "@" + g.nodes[n].ver
			continue
		}
		want := map[sig]int{}
		wantNR := map[[2]string]int{}
		var order []sig
		for _, d := range v.imps {
			if _, ok := d.t.get(kOrigin); ok {
				continue
			}
			if !first && rootOnly(d.t) {
				continue
			}
			if excl[n].excludes(d.name) {
				continue
			}
			k := keyOf(d.name, d.t)
			req := d.req
			if mv, ok := mgt[k]; ok && !first {
				req = mv
			}
			if _, ok := decl[k]; !ok {
				keyOrder = append(keyOrder, k)
			}
			decl[k] = append(decl[k], req)
			s := sig{d.name, req, d.t.enc(",")}
			if want[s] == 0 {
				order = append(order, s)
			}
			want[s]++
			wantNR[[2]string{d.name, req}]++
		}
		have := map[sig]int{}
		haveNR := map[[2]string]int{}
		for _, ei := range out[n] {
			e := g.edges[ei]
			s := sig{g.nodes[e.to].name, e.req, e.t.without(kSelector).enc(",")}
			have[s]++
			haveNR[[2]string{s.name, s.req}]++
			if have[s] > want[s] {
				bad["M4"] = fmt.Sprintf("edge %s -%s-> %s has no declaration behind it", g.nodes[n].name, e.req, s.name)
			}
		}
		for _, er := range g.nodes[n].errs {
			haveNR[er]++
		}
		for k, w := range wantNR {
			if haveNR[k] != w {
				bad["M4"] = fmt.Sprintf("declaration %s -> %s@%s: %d declared, %d edges+errors", g.nodes[n].name, k[0], k[1], w, haveNR[k])
			}
		}
		for k := range haveNR {
			if wantNR[k] == 0 {
				bad["M4"] = fmt.Sprintf("edge or error %s -> %s@%s without declaration", g.nodes[n].name, k[0], k[1])
			}
		}
		// enqueue created nodes in declaration order
		for _, s := range order {
			for _, ei := range out[n] {
				e := g.edges[ei]
				if creator[e.to] == ei && !queued[e.to] && g.nodes[e.to].name == s.name && e.req == s.req && e.t.without(kSelector).enc(",") == s.t {
					queued[e.to] = true
					queue = append(queue, e.to)
				}
			}
		}
	}
	for i, q := range queued {
		if !q && bad["M4"] == "" {
			bad["M4"] = "node not met by the breadth-first walk over creating edges: " + g.nodes[i].name
		}
	}
	{
		for _, k := range keyOrder {
			allSoft := true
			for _, r := range decl[k] {
				if kd, _ := mavenKind(r); kd != 's' {
					allSoft = false
				}
			}
			if !allSoft {
				continue
			}
			for _, e := range g.edges {
				if keyOf(g.nodes[e.to].name, e.t) == k && g.nodes[e.to].ver != decl[k][0] {
					bad["M2"] = fmt.Sprintf("artifact %s: nearest declaration wants %s, edge from %s points to %s (passes=%d)", k, decl[k][0], g.nodes[e.from].name, g.nodes[e.to].ver, g.passes)
				}
			}
		}
	}
	return bad
}

func recheck(oracle string, ops, res []string) (bool, string) {
	if len(ops) != 1 {
		return true, "C07 oracles take one op"
	}
	known := false
	for _, n := range oracleNames {
		known = known || n == oracle
	}
	if !known {
		return true, "unknown oracle " + oracle
	}
	d, bad := evalOracles(ops[0], res[0])[oracle]
	return bad, d
}

// classify: the negated hypotheses of the partial theorems.
//
//	F-C07-classifier  M1 fails and some declaration has a non-default classifier or type   (¬ DefaultKeys)
//	F-C07-stale-req   M2 fails and the result needed more than one pass                    (¬ FirstPass)
func classify(oracle string, ops, res []string) string {
	if len(ops) != 1 {
		return ""
	}
	u, _, _, ok := decOpLine(ops[0])
	if !ok {
		return ""
	}
	switch oracle {
	case "M1":
		if u.nonDefaultKey() {
			return "F-C07-classifier"
		}
	case "M2":
		if g, ok := parseResult(res[0]); ok && g.passes > 1 {
			return "F-C07-stale-req"
		}
	}
	return ""
}

func sortedKeys(m map[string]string) []string {
	var ks []string
	for k := range m {
		ks = append(ks, k)
	}
	sort.Strings(ks)
	return ks
}
