// c07 is the correspondence/oracle harness for property C07 (a Maven resolution
// graph obeys Maven's mediation rules). Wire format: codec.go; oracles: oracle.go.
package main

import (
	"fmt"
	"math/rand"
	"os"
	"runtime"
	"strings"
	"sync"

	"verifharness/fw"
)

const rule = "streams: (1) known-finding witnesses and corpus/C07; (2) every test of util/resolve/maven/testdata whose universe is " +
	"single-registry, read at run time through verifx, every version of those universes as a root; (3) small-scope systematic: " +
	"root r@1.0 with two declarations, a@1.0, a@3.0, b@1.0 with one declaration each, all drawn from a 15-entry menu (soft, ranges, " +
	"tests classifier, war type, exclusions, test scope, cycle to the root, root management); quick samples it, thorough enumerates " +
	"all choices for r and a@1.0 with four choices each for a@3.0 and b@1.0 (65 536 universes); " +
	"(4) random universes of 3..8 packages x 0..5 versions (soft versions biased to existing ones, ranges biased to satisfiable ones, " +
	"dependencyManagement entries on every third version, exclusions incl. wildcards and lists, test/optional/provided/runtime scopes, " +
	"duplicated declarations, diamonds and cycles by construction of the small name space); half of them without classifiers/types " +
	"(the domain of M1_partial), one in five with malformed names / requirement strings / odd versions / reserved attributes; up to " +
	"three roots per universe (all roots in thorough). Every eighth random universe also goes through op `defaultkeys` " +
	"(harness classifier of F-C07-classifier = Lean hypothesis DefaultKeys). A case is distinct by its op line; non-trivial = the real resolver returned a " +
	"graph with at least three nodes, counted by distinct result line."

var shrunkInClass = map[string]int{}

// resMemo hands the result just computed for a generated line to Exec, so that the
// real resolver is not run twice on it (entries are consumed on first use).
var resMemo = map[string]string{}

type task struct {
	u              *univ
	rn, rv, stream string
	line, res      string
	bad            map[string]string
}

var pending []*task

// runOne queues one (universe, root); flush executes the queue on all cores
// (the real resolver and the oracles), then records the ops in queue order, so
// that the op stream is a function of the seed alone.
func runOne(c *fw.Ctx, u *univ, rn, rv, stream string) {
	pending = append(pending, &task{u: u, rn: rn, rv: rv, stream: stream})
	if len(pending) >= 4096 {
		flush(c)
	}
}

func flush(c *fw.Ctx) {
	var wg sync.WaitGroup
	ch := make(chan *task)
	for w := 0; w < runtime.NumCPU(); w++ {
		wg.Add(1)
		go func() {
			defer wg.Done()
			for t := range ch {
				t.line = t.u.line(t.rn, t.rv)
				t.res = safeResolve(t.u, t.rn, t.rv)
				t.bad = evalOracles(t.line, t.res)
			}
		}()
	}
	for _, t := range pending {
		ch <- t
	}
	close(ch)
	wg.Wait()
	for _, t := range pending {
		record(c, t)
	}
	pending = pending[:0]
}

func record(c *fw.Ctx, t *task) {
	u, rn, rv, stream, line, res, bad := t.u, t.rn, t.rv, t.stream, t.line, t.res, t.bad
	resMemo[line] = res
	c.Tally(int64(len(oracleNames) - len(bad)))
	idx, res2 := c.Op(line)
	if res2 != res {
		// the real code gave two different answers for one op: C05's business, but never silently
		c.Note("non-deterministic result for one op line: " + line)
		res = res2
		bad = evalOracles(line, res)
	}
	switch {
	case strings.HasPrefix(res, "ok p="):
		c.Count(stream + ".outcome.graph")
		g, _ := parseResult(res)
		if g != nil {
			if g.passes > 1 {
				c.Count(stream + ".graph.retried")
			}
			if len(g.nodes) >= 3 {
				c.Nontrivial(res)
			}
			hasErr := false
			for _, n := range g.nodes {
				hasErr = hasErr || len(n.errs) > 0
			}
			if hasErr {
				c.Count(stream + ".graph.with-node-error")
			}
			switch {
			case len(g.nodes) <= 2:
				c.Count("nodes.1-2")
			case len(g.nodes) <= 5:
				c.Count("nodes.3-5")
			default:
				c.Count("nodes.6+")
			}
		}
	default:
		c.Count(stream + ".outcome." + strings.ReplaceAll(res, " ", "."))
	}
	if u.nonDefaultKey() {
		c.Count("hyp.nondefault-keys")
	} else {
		c.Count("hyp.default-keys")
	}
	for _, o := range sortedKeys(bad) {
		class := classify(o, []string{line}, []string{res})
		c.Count("fail." + o + "." + class)
		// shrink, then record the shrunk case (the original is kept as well: it is what was generated);
		// inside a known class only the first few are shrunk (they are tolerated, not reported)
		shrunkInClass[class]++
		if class != "" && shrunkInClass[class] > 3 {
			c.Check(o, idx)
			continue
		}
		s := shrink(u, rn, rv, o, class)
		sl := s.line(rn, rv)
		if sl != line {
			si, _ := c.Op(sl)
			c.Check(o, si)
			if class != "" {
				c.Sample("shrunk " + class + ": " + sl)
			}
		} else {
			c.Check(o, idx)
		}
	}
}

func run(c *fw.Ctx) {
	r := c.Rng
	// (2) testdata
	repoRoot := os.Getenv("VERIF_REPO") // the tree under test (bin/drill.sh points it at a scratch worktree)
	if repoRoot == "" {
		repoRoot = "/repo"
	}
	cases, notes := testdataCases(repoRoot)
	for _, n := range notes {
		c.Note(n)
	}
	seenU := map[string]bool{}
	for _, t := range cases {
		runOne(c, t.u, t.name, t.vr, "testdata")
		if k := t.u.encU(); !seenU[k] {
			seenU[k] = true
			for _, p := range t.u.pkgs {
				for _, v := range p.vers {
					runOne(c, t.u, p.name, v.v, "testdata-allroots")
				}
			}
		}
	}
	flush(c)
	c.Count(fmt.Sprintf("testdata.tests=%d", len(cases)))

	// (3) small scope
	menu := smallMenu()
	m := len(menu) + 1
	if c.Thor {
		// all (i, j, k); l and o over four entries each (none, a range on a, a soft on b, the cycle to r)
		lo := []int{len(menu), 2, 8, 13}
		for x := 0; x < m*m*m; x++ {
			i, j, k := x%m, x/m%m, x/m/m%m
			for _, l := range lo {
				for _, o := range lo {
					runOne(c, smallUniverse(menu, i, j, k, l, o), "g:r", "1.0", "small")
				}
			}
		}
	} else {
		for n := 0; n < 5000; n++ {
			runOne(c, smallUniverse(menu, r.Intn(m), r.Intn(m), r.Intn(m), r.Intn(m), r.Intn(m)), "g:r", "1.0", "small")
		}
	}

	// (4) random
	nu := c.N(4000, 15000)
	for it := 0; it < nu; it++ {
		o := genOpts{keys: it%2 == 1, malformed: it%5 == 4, ranges: 0.12 + 0.2*r.Float64()}
		u := genUniverse(r, o)
		type root struct{ n, v string }
		var roots []root
		for _, p := range u.pkgs {
			for _, v := range p.vers {
				roots = append(roots, root{p.name, v.v})
			}
		}
		if len(roots) == 0 {
			continue
		}
		if !c.Thor {
			rand.New(rand.NewSource(r.Int63())).Shuffle(len(roots), func(i, j int) { roots[i], roots[j] = roots[j], roots[i] })
			if len(roots) > 3 {
				roots = roots[:3]
			}
		}
		stream := "random"
		if o.malformed {
			stream = "random-malformed"
		}
		for _, rt := range roots {
			runOne(c, u, rt.n, rt.v, stream)
		}
		if it < 3 {
			c.Sample(u.line(roots[0].n, roots[0].v))
		}
		if it%8 == 0 {
			// tie the known-finding classifier to the Lean hypothesis DefaultKeys
			flush(c)
			c.Op("C07 defaultkeys U=" + u.encU())
			c.Count("classifier-tie.defaultkeys")
		}
		// a root that does not exist, now and then
		if it%50 == 0 {
			runOne(c, u, u.pkgs[0].name, "9.9", stream)
		}
	}
	flush(c)
}

func main() {
	if tools(os.Args) {
		return
	}
	fw.Main(&fw.Prop{
		ID:       "C07",
		Rule:     rule,
		Exec:     exec,
		Run:      run,
		Recheck:  recheck,
		Classify: classify,
		Gens:     []fw.Generator{{Name: "C07Consts", Fn: genC07Consts}},
	})
}
