package main

// Running the real Maven resolver on a decoded universe, and the canonical
// rendering of what it returns.

import (
	"context"
	"errors"
	"sort"
	"strconv"
	"strings"
	"time"

	"deps.dev/util/resolve"
	"deps.dev/util/resolve/dep"
	"deps.dev/util/resolve/maven"
	"verifharness/fw"
)

const resolveDeadline = 5 * time.Second

func toDepType(t dtype) dep.Type {
	var r dep.Type
	for b := 1; b <= 16; b <<= 1 {
		if t.mask&b != 0 {
			r.AddAttr(dep.AttrKey(-b), "")
		}
	}
	for _, a := range t.attrs {
		r.AddAttr(dep.AttrKey(a.k), a.v)
	}
	return r
}

func fromDepType(t dep.Type) dtype {
	var r dtype
	for b := 1; b <= 16; b <<= 1 {
		if t.HasAttr(dep.AttrKey(-b)) {
			r.mask |= b
		}
	}
	for k := 1; k < 64; k++ {
		if v, ok := t.GetAttr(dep.AttrKey(k)); ok {
			r.attrs = append(r.attrs, attr{k, v})
		}
	}
	return r
}

func mvk(name, v string, vt resolve.VersionType) resolve.VersionKey {
	return resolve.VersionKey{PackageKey: resolve.PackageKey{System: resolve.Maven, Name: name}, VersionType: vt, Version: v}
}

func (u *univ) client() *resolve.LocalClient {
	lc := resolve.NewLocalClient()
	for _, p := range u.pkgs {
		for _, v := range p.vers {
			var deps []resolve.RequirementVersion
			for _, d := range v.imps {
				deps = append(deps, resolve.RequirementVersion{VersionKey: mvk(d.name, d.req, resolve.Requirement), Type: toDepType(d.t)})
			}
			lc.AddVersion(resolve.Version{VersionKey: mvk(p.name, v.v, resolve.Concrete)}, deps)
		}
		if _, ok := lc.PackageVersions[resolve.PackageKey{System: resolve.Maven, Name: p.name}]; !ok {
			lc.PackageVersions[resolve.PackageKey{System: resolve.Maven, Name: p.name}] = []resolve.Version{}
		}
	}
	return lc
}

// countingClient counts Requirements(root) calls: two per pass of the inner
// resolve (dependencyManagement, imports of the first todo element). It also hides
// unlisted versions from Versions (as the repo's own unlistedVersionsClient does in
// maven/resolve_test.go for versions tagged Blocked).
type countingClient struct {
	resolve.Client
	root     resolve.VersionKey
	n        int
	unlisted map[resolve.VersionKey]bool
}

func (c *countingClient) Versions(ctx context.Context, pk resolve.PackageKey) ([]resolve.Version, error) {
	vs, err := c.Client.Versions(ctx, pk)
	if err != nil || len(c.unlisted) == 0 {
		return vs, err
	}
	out := make([]resolve.Version, 0, len(vs))
	for _, v := range vs {
		if !c.unlisted[v.VersionKey] {
			out = append(out, v)
		}
	}
	return out, nil
}

func (c *countingClient) Requirements(ctx context.Context, vk resolve.VersionKey) ([]resolve.RequirementVersion, error) {
	if vk == c.root {
		c.n++
	}
	return c.Client.Requirements(ctx, vk)
}

func nodeKey(vk resolve.VersionKey) string { return fw.Hx(vk.Name) + "@" + fw.Hx(vk.Version) }

func exec(f []string) string {
	if len(resMemo) > 0 {
		line := "C07 " + strings.Join(f, " ")
		if r, ok := resMemo[line]; ok {
			delete(resMemo, line)
			return r
		}
	}
	if len(f) == 2 && f[0] == "defaultkeys" && strings.HasPrefix(f[1], "U=") {
		// the classifier of F-C07-classifier = negation of the Lean hypothesis DefaultKeys
		u, ok := decU(f[1][2:])
		if !ok {
			return "bad-op"
		}
		if u.nonDefaultKey() {
			return "ok false"
		}
		return "ok true"
	}
	u, rn, rv, ok := decLine(f)
	if !ok {
		return "bad-op"
	}
	return runResolve(u, rn, rv)
}

func runResolve(u *univ, rn, rv string) string {
	root := mvk(rn, rv, resolve.Concrete)
	cc := &countingClient{Client: u.client(), root: root, unlisted: map[resolve.VersionKey]bool{}}
	for _, p := range u.pkgs {
		for _, v := range p.vers {
			if v.unlisted {
				cc.unlisted[mvk(p.name, v.v, resolve.Concrete)] = true
			}
		}
	}
	ctx, cancel := context.WithTimeout(context.Background(), resolveDeadline)
	defer cancel()
	g, err := maven.NewResolver(cc).Resolve(ctx, root)
	if ctx.Err() != nil {
		return "timeout"
	}
	if err != nil {
		switch {
		case errors.Is(err, context.DeadlineExceeded):
			return "timeout"
		case errors.Is(err, resolve.ErrNotFound):
			return "err notfound"
		case err.Error() == "incompatible requirements":
			return "err incompatible"
		}
		return "err other"
	}
	if g == nil || len(g.Nodes) == 0 {
		return "ok nil-graph"
	}
	if g.Error != "" {
		return "ok graph-error"
	}
	nodes := make([]string, len(g.Nodes))
	for i, n := range g.Nodes {
		s := nodeKey(n.Version)
		var es []string
		for _, e := range n.Errors {
			es = append(es, nodeKey(e.Req))
		}
		sort.Strings(es)
		for _, e := range es {
			s += "!" + e
		}
		nodes[i] = s
	}
	sort.Strings(nodes[1:])
	edges := make([]string, len(g.Edges))
	for i, e := range g.Edges {
		edges[i] = nodeKey(g.Nodes[e.From].Version) + ">" + nodeKey(g.Nodes[e.To].Version) + ":" + fw.Hx(e.Requirement) + ":" + fromDepType(e.Type).enc(",")
	}
	sort.Strings(edges)
	es := "-"
	if len(edges) > 0 {
		es = strings.Join(edges, ";")
	}
	passes := cc.n / 2
	return "ok p=" + strconv.Itoa(passes) + " N=" + strings.Join(nodes, ";") + " E=" + es
}
