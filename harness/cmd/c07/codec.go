package main

// Wire format of C07 (ASCII; every byte string hex-encoded with fw.Hx, "-" = empty).
//
//	C07 resolve U=<universe> T=<tables> root=<name>@<version>
//
//	universe := "-" | pkg (";" pkg)*
//	pkg      := name ("|" ver)*                      versions in resolve.SortVersions order
//	ver      := ["^"] version (">" imp)*             imports in client.Requirements order; "^" = unlisted:
//	                                                 Client.Version finds it, Client.Versions does not list it
//	imp      := name "~" requirement "~" mask ("~" key "=" value)*
//	            mask = dep.Type flag mask (Dev 1, Opt 2, Test 4, 8, 16), keys decimal ascending
//	tables   := "-" | req (";" req)*                 THE CLIENT-SIDE ANSWERS ABOUT REQUIREMENT STRINGS
//	req      := requirement "|" kind ("|" string)*   kind: s = soft (Constraint.IsSimple), h = hard (range),
//	                                                 b = semver.Maven.ParseConstraint fails;
//	                                                 for h: the strings (version strings of the universe and soft
//	                                                 requirement strings) that Constraint.Match accepts, sorted
//
//	C07 defaultkeys U=<universe>   → ok true|false: every declaration has the default classifier and type
//	                               (harness: !nonDefaultKey, Lean: DefaultKeys — the hypothesis of m1_partial)
//
// The real resolver is run on the universe alone (Exec ignores T); the Lean model
// never looks inside a requirement or version string: it decides soft/hard and
// "matches" from T. Requirement semantics are C03/C12's business.
//
// Result line:
//
//	ok p=<passes> N=<root node>;<other nodes sorted> E=<edges sorted | ->
//	   node := name "@" version ("!" name "@" requirement)*      errors sorted
//	   edge := node-key ">" node-key ":" requirement ":" type     node-key := name "@" version
//	   type := mask ("," key "=" value)*
//	err incompatible | err notfound | err other | timeout | panic | bad-op
//
// passes = number of calls of the inner resolve (1 + retries), observed on the Go
// side as the number of client.Requirements(root) calls divided by two.

import (
	"fmt"
	"sort"
	"strconv"
	"strings"
	"sync"

	"deps.dev/util/resolve"
	"deps.dev/util/semver"
	"verifharness/fw"
)

type attr struct {
	k int
	v string
}

type dtype struct {
	mask  int
	attrs []attr // ascending keys, distinct
}

type imp struct {
	name, req string
	t         dtype
}

type ver struct {
	v        string
	unlisted bool // Client.Version finds it, Client.Versions does not list it (maven-metadata.xml "blocked")
	imps     []imp
}

type pkg struct {
	name string
	vers []ver
}

type rinfo struct {
	req  string
	kind byte // 's', 'h', 'b'
	sat  []string
}

type univ struct {
	pkgs []pkg
	tab  []rinfo
}

func (t dtype) get(k int) (string, bool) {
	for _, a := range t.attrs {
		if a.k == k {
			return a.v, true
		}
	}
	return "", false
}

func (t dtype) with(k int, v string) dtype {
	n := dtype{mask: t.mask}
	done := false
	for _, a := range t.attrs {
		if a.k == k {
			n.attrs = append(n.attrs, attr{k, v})
			done = true
		} else {
			n.attrs = append(n.attrs, a)
		}
	}
	if !done {
		n.attrs = append(n.attrs, attr{k, v})
		sort.Slice(n.attrs, func(i, j int) bool { return n.attrs[i].k < n.attrs[j].k })
	}
	return n
}

func (t dtype) without(k int) dtype {
	n := dtype{mask: t.mask}
	for _, a := range t.attrs {
		if a.k != k {
			n.attrs = append(n.attrs, a)
		}
	}
	return n
}

func (t dtype) enc(sep string) string {
	var b strings.Builder
	b.WriteString(strconv.Itoa(t.mask))
	for _, a := range t.attrs {
		b.WriteString(sep)
		b.WriteString(strconv.Itoa(a.k))
		b.WriteByte('=')
		b.WriteString(fw.Hx(a.v))
	}
	return b.String()
}

func decType(parts []string) (dtype, bool) {
	var t dtype
	if len(parts) == 0 {
		return t, false
	}
	m, err := strconv.Atoi(parts[0])
	if err != nil || m < 0 || m > 31 || strconv.Itoa(m) != parts[0] {
		return t, false
	}
	t.mask = m
	last := 0
	for _, p := range parts[1:] {
		kv := strings.Split(p, "=")
		if len(kv) != 2 {
			return t, false
		}
		k, err := strconv.Atoi(kv[0])
		if err != nil || k <= last || k >= 64 || strconv.Itoa(k) != kv[0] {
			return t, false
		}
		v, ok := unhx(kv[1])
		if !ok {
			return t, false
		}
		last = k
		t.attrs = append(t.attrs, attr{k, v})
	}
	return t, true
}

func unhx(s string) (r string, ok bool) {
	if s == "-" {
		return "", true
	}
	if s == "" || len(s)%2 != 0 {
		return "", false
	}
	for i := 0; i < len(s); i++ {
		c := s[i]
		if !(c >= '0' && c <= '9' || c >= 'a' && c <= 'f') {
			return "", false
		}
	}
	return fw.Unhx(s), true
}

func (u *univ) encU() string {
	if len(u.pkgs) == 0 {
		return "-"
	}
	ps := make([]string, len(u.pkgs))
	for i, p := range u.pkgs {
		var b strings.Builder
		b.WriteString(fw.Hx(p.name))
		for _, v := range p.vers {
			b.WriteByte('|')
			if v.unlisted {
				b.WriteByte('^')
			}
			b.WriteString(fw.Hx(v.v))
			for _, d := range v.imps {
				b.WriteByte('>')
				b.WriteString(fw.Hx(d.name) + "~" + fw.Hx(d.req) + "~" + d.t.enc("~"))
			}
		}
		ps[i] = b.String()
	}
	return strings.Join(ps, ";")
}

func (u *univ) encT() string {
	if len(u.tab) == 0 {
		return "-"
	}
	rs := make([]string, len(u.tab))
	for i, r := range u.tab {
		s := fw.Hx(r.req) + "|" + string(r.kind)
		for _, x := range r.sat {
			s += "|" + fw.Hx(x)
		}
		rs[i] = s
	}
	return strings.Join(rs, ";")
}

func (u *univ) line(rootName, rootVer string) string {
	return fmt.Sprintf("C07 resolve U=%s T=%s root=%s@%s", u.encU(), u.encT(), fw.Hx(rootName), fw.Hx(rootVer))
}

func decU(s string) (*univ, bool) {
	u := &univ{}
	if s == "-" {
		return u, true
	}
	for _, ps := range strings.Split(s, ";") {
		vs := strings.Split(ps, "|")
		name, ok := unhx(vs[0])
		if !ok {
			return nil, false
		}
		p := pkg{name: name}
		for _, vstr := range vs[1:] {
			is := strings.Split(vstr, ">")
			unl := strings.HasPrefix(is[0], "^")
			vv, ok := unhx(strings.TrimPrefix(is[0], "^"))
			if !ok {
				return nil, false
			}
			v := ver{v: vv, unlisted: unl}
			for _, istr := range is[1:] {
				f := strings.Split(istr, "~")
				if len(f) < 3 {
					return nil, false
				}
				n, ok1 := unhx(f[0])
				r, ok2 := unhx(f[1])
				t, ok3 := decType(f[2:])
				if !ok1 || !ok2 || !ok3 {
					return nil, false
				}
				v.imps = append(v.imps, imp{n, r, t})
			}
			p.vers = append(p.vers, v)
		}
		u.pkgs = append(u.pkgs, p)
	}
	return u, true
}

func decT(s string, u *univ) bool {
	if s == "-" {
		return true
	}
	for _, rs := range strings.Split(s, ";") {
		f := strings.Split(rs, "|")
		if len(f) < 2 || len(f[1]) != 1 || !strings.Contains("shb", f[1]) {
			return false
		}
		r, ok := unhx(f[0])
		if !ok {
			return false
		}
		ri := rinfo{req: r, kind: f[1][0]}
		for _, x := range f[2:] {
			s, ok := unhx(x)
			if !ok {
				return false
			}
			ri.sat = append(ri.sat, s)
		}
		u.tab = append(u.tab, ri)
	}
	return true
}

// wellFormed: U1 (package names distinct, version strings of a package distinct)
// and every requirement string of the universe has exactly one table row.
func (u *univ) wellFormed() bool {
	seen := map[string]bool{}
	for _, p := range u.pkgs {
		if seen[p.name] {
			return false
		}
		seen[p.name] = true
		vs := map[string]bool{}
		for _, v := range p.vers {
			if vs[v.v] {
				return false
			}
			vs[v.v] = true
		}
	}
	rows := map[string]bool{}
	for _, r := range u.tab {
		if rows[r.req] {
			return false
		}
		rows[r.req] = true
	}
	for _, p := range u.pkgs {
		for _, v := range p.vers {
			for _, d := range v.imps {
				if !rows[d.req] {
					return false
				}
			}
		}
	}
	return true
}

// decLine decodes the fields after the property id.
func decLine(f []string) (u *univ, rootName, rootVer string, ok bool) {
	if len(f) != 4 || f[0] != "resolve" || !strings.HasPrefix(f[1], "U=") || !strings.HasPrefix(f[2], "T=") || !strings.HasPrefix(f[3], "root=") {
		return nil, "", "", false
	}
	u, ok = decU(f[1][2:])
	if !ok || !decT(f[2][2:], u) {
		return nil, "", "", false
	}
	rv := strings.Split(f[3][5:], "@")
	if len(rv) != 2 {
		return nil, "", "", false
	}
	rootName, ok1 := unhx(rv[0])
	rootVer, ok2 := unhx(rv[1])
	if !ok1 || !ok2 || !u.wellFormed() {
		return nil, "", "", false
	}
	return u, rootName, rootVer, true
}

func decOpLine(line string) (u *univ, rootName, rootVer string, ok bool) {
	f := strings.Fields(line)
	if len(f) < 2 || f[0] != "C07" {
		return nil, "", "", false
	}
	return decLine(f[1:])
}

// ---- the client's answers about requirement strings (real semver) -------------

type kindEntry struct {
	k byte
	c *semver.Constraint
}

var (
	kindMu    sync.Mutex
	kindCache = map[string]kindEntry{}
	matchMemo = map[[2]string]bool{}
)

func mavenKind(req string) (byte, *semver.Constraint) {
	kindMu.Lock()
	defer kindMu.Unlock()
	if e, ok := kindCache[req]; ok {
		return e.k, e.c
	}
	e := kindEntry{k: 'h'}
	c, err := semver.Maven.ParseConstraint(req)
	switch {
	case err != nil:
		e.k = 'b'
	case c.IsSimple():
		e.k, e.c = 's', c
	default:
		e.c = c
	}
	kindCache[req] = e
	return e.k, e.c
}

// matches is Constraint.Match of the real semver (memoised: the pools are small).
func matches(req string, c *semver.Constraint, s string) bool {
	kindMu.Lock()
	defer kindMu.Unlock()
	k := [2]string{req, s}
	if m, ok := matchMemo[k]; ok {
		return m
	}
	m := c.Match(s)
	matchMemo[k] = m
	return m
}

// normalise puts every package's versions in resolve.SortVersions order (what
// LocalClient.Versions returns) and recomputes the tables with the real semver.
func (u *univ) normalise() {
	for i := range u.pkgs {
		p := &u.pkgs[i]
		vs := make([]resolve.Version, len(p.vers))
		idx := map[string]ver{}
		for j, v := range p.vers {
			vs[j] = resolve.Version{VersionKey: resolve.VersionKey{PackageKey: resolve.PackageKey{System: resolve.Maven, Name: p.name}, VersionType: resolve.Concrete, Version: v.v}}
			idx[v.v] = v
		}
		resolve.SortVersions(vs)
		for j := range vs {
			p.vers[j] = idx[vs[j].Version]
		}
	}
	u.tab = nil
	reqs := map[string]bool{}
	strs := map[string]bool{}
	for _, p := range u.pkgs {
		for _, v := range p.vers {
			strs[v.v] = true
			for _, d := range v.imps {
				reqs[d.req] = true
			}
		}
	}
	var rl []string
	for r := range reqs {
		rl = append(rl, r)
		if k, _ := mavenKind(r); k == 's' {
			strs[r] = true
		}
	}
	sort.Strings(rl)
	var sl []string
	for s := range strs {
		sl = append(sl, s)
	}
	sort.Strings(sl)
	for _, r := range rl {
		k, c := mavenKind(r)
		ri := rinfo{req: r, kind: k}
		if k == 'h' {
			for _, s := range sl {
				if matches(r, c, s) {
					ri.sat = append(ri.sat, s)
				}
			}
		}
		u.tab = append(u.tab, ri)
	}
}

func (u *univ) clone() *univ {
	n := &univ{}
	for _, p := range u.pkgs {
		np := pkg{name: p.name}
		for _, v := range p.vers {
			nv := ver{v: v.v, unlisted: v.unlisted}
			for _, d := range v.imps {
				nd := d
				nd.t.attrs = append([]attr(nil), d.t.attrs...)
				nv.imps = append(nv.imps, nd)
			}
			np.vers = append(np.vers, nv)
		}
		n.pkgs = append(n.pkgs, np)
	}
	return n
}

func (u *univ) find(name, v string) *ver {
	for i := range u.pkgs {
		if u.pkgs[i].name == name {
			for j := range u.pkgs[i].vers {
				if u.pkgs[i].vers[j].v == v {
					return &u.pkgs[i].vers[j]
				}
			}
		}
	}
	return nil
}
