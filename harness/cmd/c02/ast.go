package main

// Syntax trees of the seven ecosystems, their wire encoding (one field, no
// spaces), their normal-form rendering and their alternative spellings.
//
// Numbers are canonical decimal strings (no leading zeros) so that values beyond
// 64 bits can be written. Wire formats:
//
//	npm|cargo|go  M.m.p/IDENTS/BUILD          IDENTS: "-" or "," list of n<dec> | s<hex>; BUILD: "-" or "," list of <hex>
//	nuget         M.m.p.r/IDENTS/META
//	gem           "," list of n<dec> | s<hex>
//	pypi          E/R.R.R/PRE/POST/DEV/LOCAL  PRE: - | a<n> | b<n> | c<n>; POST, DEV: - | <n>; LOCAL: "-" or list of n<dec> | s<hex>
//	maven         N.N.N/QUAL/QNUM/SNAP        QUAL: - | <d|h|t><hex>; QNUM: - | <d|h|t><dec>; SNAP: 0|1   (d "." h "-" t transition)

import (
	"encoding/hex"
	"fmt"
	"math/rand"
	"strings"
)

// ---------- decimal strings ----------

func isDec(s string) bool {
	if s == "" {
		return false
	}
	for i := 0; i < len(s); i++ {
		if s[i] < '0' || s[i] > '9' {
			return false
		}
	}
	return true
}

func canonDec(s string) bool { return isDec(s) && (len(s) == 1 || s[0] != '0') }

// cmpDec compares canonical decimal strings numerically.
func cmpDec(a, b string) int {
	if len(a) != len(b) {
		if len(a) < len(b) {
			return -1
		}
		return 1
	}
	return strings.Compare(a, b)
}

func ltDec(a, bound string) bool { return cmpDec(a, bound) < 0 }

const (
	two31   = "2147483648"
	two53   = "9007199254740992"
	two63   = "9223372036854775808"
	two63m1 = "9223372036854775807" // semver.infinity
	two64   = "18446744073709551616"
)

func hx(s string) string { return hex.EncodeToString([]byte(s)) }
func unhx(s string) (string, bool) {
	b, err := hex.DecodeString(s)
	return string(b), err == nil
}

func splitList(s string) []string {
	if s == "-" {
		return nil
	}
	return strings.Split(s, ",")
}

// ---------- SemVer family and NuGet ----------

type ident struct {
	num bool
	s   string // decimal value or the identifier text
}

type semverAst struct {
	nums  []string // 3 (npm, cargo, go) or 4 (nuget: major, minor, patch, revision)
	pre   []ident
	build []string
}

func encIdents(l []ident) string {
	if len(l) == 0 {
		return "-"
	}
	var p []string
	for _, i := range l {
		if i.num {
			p = append(p, "n"+i.s)
		} else {
			p = append(p, "s"+hx(i.s))
		}
	}
	return strings.Join(p, ",")
}

func decIdents(s string) ([]ident, bool) {
	var out []ident
	for _, f := range splitList(s) {
		if len(f) < 2 {
			return nil, false
		}
		switch f[0] {
		case 'n':
			if !isDec(f[1:]) {
				return nil, false
			}
			out = append(out, ident{true, f[1:]})
		case 's':
			t, ok := unhx(f[1:])
			if !ok {
				return nil, false
			}
			out = append(out, ident{false, t})
		default:
			return nil, false
		}
	}
	return out, true
}

func (a *semverAst) enc() string {
	b := "-"
	if len(a.build) > 0 {
		var p []string
		for _, x := range a.build {
			p = append(p, hx(x))
		}
		b = strings.Join(p, ",")
	}
	return strings.Join(a.nums, ".") + "/" + encIdents(a.pre) + "/" + b
}

func decSemver(s string, n int) (*semverAst, bool) {
	f := strings.Split(s, "/")
	if len(f) != 3 {
		return nil, false
	}
	nums := strings.Split(f[0], ".")
	if len(nums) != n {
		return nil, false
	}
	for _, x := range nums {
		if !isDec(x) {
			return nil, false
		}
	}
	pre, ok := decIdents(f[1])
	if !ok {
		return nil, false
	}
	var build []string
	for _, x := range splitList(f[2]) {
		t, ok := unhx(x)
		if !ok || t == "" {
			return nil, false
		}
		build = append(build, t)
	}
	return &semverAst{nums, pre, build}, true
}

func identTexts(l []ident) []string {
	var p []string
	for _, i := range l {
		p = append(p, i.s)
	}
	return p
}

// render: the normal form. eco "go" gets the leading v; nuget drops a zero revision.
func (a *semverAst) render(eco string) string {
	nums := a.nums
	if eco == "nuget" && nums[3] == "0" {
		nums = nums[:3]
	}
	s := strings.Join(nums, ".")
	if eco == "go" {
		s = "v" + s
	}
	if len(a.pre) > 0 {
		s += "-" + strings.Join(identTexts(a.pre), ".")
	}
	if len(a.build) > 0 {
		s += "+" + strings.Join(a.build, ".")
	}
	return s
}

func isIdentChar(c byte) bool {
	return c >= '0' && c <= '9' || c >= 'a' && c <= 'z' || c >= 'A' && c <= 'Z' || c == '-'
}

func identWord(s string) bool {
	if s == "" {
		return false
	}
	for i := 0; i < len(s); i++ {
		if !isIdentChar(s[i]) {
			return false
		}
	}
	return true
}

func looksNegative(s string) bool { return len(s) >= 2 && s[0] == '-' && isDec(s[1:]) }

// validIdent mirrors Ref.SemVer.Ident.valid (numeric identifiers are canonical by construction).
func validIdent(i ident) bool {
	if i.num {
		return canonDec(i.s)
	}
	return identWord(i.s) && !isDec(i.s)
}

func (a *semverAst) valid(eco string) bool {
	for _, n := range a.nums {
		if !canonDec(n) || (eco == "nuget" && !ltDec(n, two31)) {
			return false
		}
	}
	for _, i := range a.pre {
		if !validIdent(i) {
			return false
		}
		if eco == "nuget" && (i.num && !ltDec(i.s, two31) || !i.num && looksNegative(i.s)) {
			return false
		}
	}
	for _, b := range a.build {
		if !identWord(b) {
			return false
		}
	}
	return true
}

func (a *semverAst) inLib(eco string) bool {
	if eco == "nuget" {
		return true
	}
	for _, n := range a.nums {
		if !ltDec(n, two63m1) {
			return false
		}
	}
	return true
}

func (a *semverAst) classes(eco string) []string {
	if eco == "nuget" {
		return nil
	}
	var c []string
	big, neg := false, false
	for _, i := range a.pre {
		if i.num && !ltDec(i.s, two63) {
			big = true
		}
		if !i.num && looksNegative(i.s) {
			neg = true
		}
	}
	if big {
		c = append(c, "bigpre")
	}
	if neg {
		c = append(c, "negident")
	}
	return c
}

// alt: another spelling both the reference tool and the library accept for the same tree.
func (a *semverAst) alt(r *rand.Rand, eco string) string {
	s := a.render(eco)
	switch eco {
	case "npm":
		if r.Intn(3) == 0 {
			return "v" + s
		}
	case "go":
		// shorthand vM, vM.m (no prerelease or build allowed there)
		if len(a.pre) == 0 && len(a.build) == 0 && a.nums[2] == "0" {
			if a.nums[1] == "0" && r.Intn(2) == 0 {
				return "v" + a.nums[0]
			}
			if r.Intn(2) == 0 {
				return "v" + a.nums[0] + "." + a.nums[1]
			}
		}
	case "nuget":
		if a.nums[3] == "0" && r.Intn(4) == 0 {
			t := strings.Join(a.nums, ".")
			return t + s[len(strings.Join(a.nums[:3], ".")):]
		}
		if a.nums[3] == "0" && a.nums[2] == "0" && r.Intn(4) == 0 {
			return strings.Join(a.nums[:2], ".") + s[len(strings.Join(a.nums[:3], ".")):]
		}
	}
	return s
}

// ---------- RubyGems ----------

type gemAst struct{ segs []ident } // num: integer segment; else: word of letters

func (a *gemAst) enc() string { return encIdents(a.segs) }

func decGem(s string) (*gemAst, bool) {
	l, ok := decIdents(s)
	return &gemAst{l}, ok
}

func (a *gemAst) render() string { return strings.Join(identTexts(a.segs), ".") }

func letters(s string, lowerOnly bool) bool {
	if s == "" {
		return false
	}
	for i := 0; i < len(s); i++ {
		c := s[i]
		if !(c >= 'a' && c <= 'z' || !lowerOnly && c >= 'A' && c <= 'Z') {
			return false
		}
	}
	return true
}

func (a *gemAst) valid() bool {
	if len(a.segs) == 0 || !a.segs[0].num {
		return false
	}
	for _, s := range a.segs {
		if s.num && !canonDec(s.s) || !s.num && !letters(s.s, false) {
			return false
		}
	}
	return true
}

func (a *gemAst) inLib() bool {
	for _, s := range a.segs {
		if s.num && !ltDec(s.s, two63m1) {
			return false
		}
	}
	return true
}

func (a *gemAst) classes() []string {
	for _, s := range a.segs {
		if !s.num && !letters(s.s, true) {
			return []string{"upper"}
		}
	}
	return nil
}

// alt: "-" for ".pre.", dots dropped at digit/letter boundaries, leading zeros.
func (a *gemAst) alt(r *rand.Rand) string {
	dash := -1
	if r.Intn(2) == 0 {
		for i := 1; i+1 < len(a.segs); i++ {
			if !a.segs[i].num && a.segs[i].s == "pre" {
				dash = i
				break
			}
		}
	}
	var b strings.Builder
	for i, s := range a.segs {
		t := s.s
		if s.num && r.Intn(6) == 0 {
			t = "0" + t
		}
		switch {
		case i == dash:
			b.WriteString("-")
		case i == 0 || i-1 == dash:
			b.WriteString(t)
		case i >= 2 && a.segs[i-1].num != s.num && r.Intn(3) == 0:
			b.WriteString(t) // digit/letter transition without a dot
		default:
			b.WriteString("." + t)
		}
	}
	return b.String()
}

// ---------- PyPI ----------

type pepAst struct {
	epoch   string
	release []string
	preKind string // "", "a", "b", "rc"
	preNum  string
	post    string // "" = absent
	dev     string
	local   []ident // num: integer segment; else alphanumeric as spelled
}

func encOpt(s string) string {
	if s == "" {
		return "-"
	}
	return s
}

func (a *pepAst) enc() string {
	pre := "-"
	if a.preKind != "" {
		pre = map[string]string{"a": "a", "b": "b", "rc": "c"}[a.preKind] + a.preNum
	}
	return a.epoch + "/" + strings.Join(a.release, ".") + "/" + pre + "/" + encOpt(a.post) + "/" + encOpt(a.dev) + "/" + encIdents(a.local)
}

func decPep(s string) (*pepAst, bool) {
	f := strings.Split(s, "/")
	if len(f) != 6 || !isDec(f[0]) {
		return nil, false
	}
	a := &pepAst{epoch: f[0], release: strings.Split(f[1], ".")}
	for _, x := range a.release {
		if !isDec(x) {
			return nil, false
		}
	}
	if f[2] != "-" {
		if len(f[2]) < 2 || !isDec(f[2][1:]) {
			return nil, false
		}
		k, ok := map[byte]string{'a': "a", 'b': "b", 'c': "rc"}[f[2][0]]
		if !ok {
			return nil, false
		}
		a.preKind, a.preNum = k, f[2][1:]
	}
	for i, p := range []*string{&a.post, &a.dev} {
		if f[3+i] != "-" {
			if !isDec(f[3+i]) {
				return nil, false
			}
			*p = f[3+i]
		}
	}
	l, ok := decIdents(f[5])
	a.local = l
	return a, ok
}

func (a *pepAst) render() string {
	s := ""
	if a.epoch != "0" {
		s = a.epoch + "!"
	}
	s += strings.Join(a.release, ".")
	if a.preKind != "" {
		s += a.preKind + a.preNum
	}
	if a.post != "" {
		s += ".post" + a.post
	}
	if a.dev != "" {
		s += ".dev" + a.dev
	}
	if len(a.local) > 0 {
		s += "+" + strings.Join(identTexts(a.local), ".")
	}
	return s
}

func alnumWord(s string) (ok, hasLetter, hasUpper bool) {
	if s == "" {
		return false, false, false
	}
	ok = true
	for i := 0; i < len(s); i++ {
		c := s[i]
		switch {
		case c >= '0' && c <= '9':
		case c >= 'a' && c <= 'z':
			hasLetter = true
		case c >= 'A' && c <= 'Z':
			hasLetter, hasUpper = true, true
		default:
			ok = false
		}
	}
	return
}

func (a *pepAst) valid() bool {
	if !canonDec(a.epoch) || len(a.release) == 0 {
		return false
	}
	for _, x := range a.release {
		if !canonDec(x) {
			return false
		}
	}
	for _, x := range []string{a.preNum, a.post, a.dev} {
		if x != "" && !canonDec(x) {
			return false
		}
	}
	for _, l := range a.local {
		if l.num {
			if !canonDec(l.s) {
				return false
			}
		} else if ok, letter, _ := alnumWord(l.s); !ok || !letter {
			return false
		}
	}
	return true
}

func (a *pepAst) inLib() bool {
	if !ltDec(a.epoch, "256") {
		return false
	}
	for _, x := range a.release {
		if !ltDec(x, two63m1) {
			return false
		}
	}
	for _, x := range []string{a.preNum, a.post, a.dev} {
		if x != "" && !ltDec(x, two63) {
			return false
		}
	}
	for _, l := range a.local {
		if l.num && !ltDec(l.s, two64) {
			return false
		}
	}
	return true
}

func (a *pepAst) classes() []string {
	var c []string
	if a.preKind != "" && a.post == "0" {
		c = append(c, "post0")
	}
	if len(a.local) > 0 && a.preKind == "" && (a.post != "" || a.dev != "") {
		c = append(c, "localpostdev")
	}
	if len(a.local) > 0 && a.preKind != "" {
		c = append(c, "localpre")
	}
	for _, l := range a.local {
		if _, _, up := alnumWord(l.s); !l.num && up {
			c = append(c, "localupper")
			break
		}
	}
	return c
}

func pick(r *rand.Rand, xs ...string) string { return xs[r.Intn(len(xs))] }

func randCase(r *rand.Rand, s string) string {
	if r.Intn(3) != 0 {
		return s
	}
	b := []byte(s)
	for i := range b {
		if r.Intn(2) == 0 && b[i] >= 'a' && b[i] <= 'z' {
			b[i] -= 32
		}
	}
	return string(b)
}

func lz(r *rand.Rand, n string) string {
	if r.Intn(8) == 0 {
		return "0" + n
	}
	return n
}

// alt: one of the spellings PEP 440 normalises to the same version.
func (a *pepAst) alt(r *rand.Rand) string {
	s := ""
	if a.epoch != "0" || r.Intn(12) == 0 {
		s = lz(r, a.epoch) + "!"
		if r.Intn(8) == 0 {
			s = pick(r, "v", "V") + s // PEP 440 puts the v before the epoch; the library rejects it (F-C02-pypi-v-epoch)
		}
	} else if r.Intn(6) == 0 {
		// packaging wants the v before the epoch, the library after it: only without an epoch do both accept it
		s = pick(r, "v", "V")
	}
	var rel []string
	for _, x := range a.release {
		rel = append(rel, lz(r, x))
	}
	s += strings.Join(rel, ".")
	if a.preKind != "" {
		name := map[string][]string{"a": {"a", "alpha"}, "b": {"b", "beta"}, "rc": {"rc", "c", "pre", "preview"}}[a.preKind]
		n := lz(r, a.preNum)
		if a.preNum == "0" && r.Intn(3) == 0 {
			n = "" // implicit 0
		}
		sep2 := pick(r, "", "", ".", "-", "_")
		if n == "" {
			sep2 = ""
		}
		s += pick(r, "", "", ".", "-", "_") + randCase(r, name[r.Intn(len(name))]) + sep2 + n
	}
	if a.post != "" {
		preNumOmitted := a.preKind != "" && (len(s) == 0 || s[len(s)-1] < '0' || s[len(s)-1] > '9')
		if r.Intn(5) == 0 && !preNumOmitted {
			s += "-" + lz(r, a.post) // implicit post release
		} else {
			n := lz(r, a.post)
			if a.post == "0" && r.Intn(3) == 0 {
				n = ""
			}
			sep2 := pick(r, "", "", ".", "-", "_")
			if n == "" {
				sep2 = ""
			}
			s += pick(r, ".", ".", "", "-", "_") + randCase(r, pick(r, "post", "post", "rev", "r")) + sep2 + n
		}
	}
	if a.dev != "" {
		n := lz(r, a.dev)
		if a.dev == "0" && r.Intn(3) == 0 {
			n = ""
		}
		sep2 := pick(r, "", "", ".", "-", "_")
		if n == "" {
			sep2 = ""
		}
		s += pick(r, ".", ".", "", "-", "_") + randCase(r, "dev") + sep2 + n
	}
	if len(a.local) > 0 {
		s += "+"
		for i, l := range a.local {
			if i > 0 {
				s += pick(r, ".", ".", "-", "_")
			}
			if l.num {
				s += lz(r, l.s)
			} else {
				s += l.s
			}
		}
	}
	return s
}

// ---------- Maven ----------

type mavenAst struct {
	nums []string
	qsep byte // 0 = no qualifier; 'd', 'h', 't'
	qual string
	nsep byte // 0 = no number
	qnum string
	snap bool
}

func (a *mavenAst) enc() string {
	q, n, s := "-", "-", "0"
	if a.qsep != 0 {
		q = string(a.qsep) + hx(a.qual)
	}
	if a.nsep != 0 {
		n = string(a.nsep) + a.qnum
	}
	if a.snap {
		s = "1"
	}
	return strings.Join(a.nums, ".") + "/" + q + "/" + n + "/" + s
}

func isSep(c byte) bool { return c == 'd' || c == 'h' || c == 't' }

func decMaven(s string) (*mavenAst, bool) {
	f := strings.Split(s, "/")
	if len(f) != 4 {
		return nil, false
	}
	a := &mavenAst{nums: strings.Split(f[0], ".")}
	for _, x := range a.nums {
		if !isDec(x) {
			return nil, false
		}
	}
	if f[1] != "-" {
		if len(f[1]) < 1 || !isSep(f[1][0]) {
			return nil, false
		}
		q, ok := unhx(f[1][1:])
		if !ok {
			return nil, false
		}
		a.qsep, a.qual = f[1][0], q
	}
	if f[2] != "-" {
		if len(f[2]) < 2 || !isSep(f[2][0]) || !isDec(f[2][1:]) {
			return nil, false
		}
		a.nsep, a.qnum = f[2][0], f[2][1:]
	}
	switch f[3] {
	case "0":
	case "1":
		a.snap = true
	default:
		return nil, false
	}
	return a, true
}

func sepStr(c byte) string {
	switch c {
	case 'd':
		return "."
	case 'h':
		return "-"
	}
	return ""
}

func (a *mavenAst) render() string {
	s := strings.Join(a.nums, ".")
	if a.qsep != 0 {
		s += sepStr(a.qsep) + a.qual
		if a.nsep != 0 {
			s += sepStr(a.nsep) + a.qnum
		}
	}
	if a.snap {
		s += "-SNAPSHOT"
	}
	return s
}

func releaseQual(q string) bool { return q == "ga" || q == "final" || q == "release" }

func (a *mavenAst) valid() bool {
	if len(a.nums) == 0 {
		return false
	}
	for _, x := range a.nums {
		if !canonDec(x) {
			return false
		}
	}
	if a.qsep == 0 {
		return a.nsep == 0
	}
	if !letters(a.qual, true) {
		return false
	}
	if a.nsep != 0 && (releaseQual(a.qual) || !canonDec(a.qnum)) {
		return false
	}
	return true
}

func (a *mavenAst) inLib() bool {
	for _, x := range a.nums {
		if !ltDec(x, two63m1) {
			return false
		}
	}
	return a.nsep == 0 || ltDec(a.qnum, two63m1)
}

// knownQual: the qualifier (after the a/b/m shortcut) is one Maven orders below the release.
func (a *mavenAst) knownQual() bool {
	q := a.qual
	if a.nsep == 't' && (q == "a" || q == "b" || q == "m") {
		return true
	}
	switch q {
	case "alpha", "beta", "milestone", "rc", "cr", "snapshot", "ga", "final", "release":
		return true
	}
	return false
}

func (a *mavenAst) classes() []string {
	var c []string
	if a.snap && (a.qsep == 'h' || a.qsep == 't') && releaseQual(a.qual) {
		c = append(c, "finalsnapshot")
	}
	if a.snap && (a.nsep == 'h' || a.nsep == 't') && a.qnum == "0" {
		c = append(c, "zerosnapshot")
	}
	if a.qsep == 'd' && !a.knownQual() {
		c = append(c, "dotunknown")
	}
	if a.qsep == 'd' && len(a.nums) == 1 && a.nums[0] == "0" && !releaseQual(a.qual) {
		c = append(c, "zerodot")
	}
	return c
}

// alt: qualifier case, SNAPSHOT case; with zeros, leading zeros on the numbers (value-preserving
// for ComparableVersion, which strips them; the library keeps "00" distinct from "0": finding
// F-C02-mvn-leading-zero, so such spellings are only produced for the dedicated stream).
func (a *mavenAst) alt(r *rand.Rand) string { return a.altZ(r, false) }

func (a *mavenAst) altZ(r *rand.Rand, zeros bool) string {
	z := func(x string) string {
		if zeros {
			return lz(r, x)
		}
		return x
	}
	var n []string
	for _, x := range a.nums {
		n = append(n, z(x))
	}
	s := strings.Join(n, ".")
	if a.qsep != 0 {
		s += sepStr(a.qsep) + randCase(r, a.qual)
		if a.nsep != 0 {
			s += sepStr(a.nsep) + z(a.qnum)
		}
	}
	if a.snap {
		s += "-" + pick(r, "SNAPSHOT", "SNAPSHOT", "snapshot", "Snapshot")
	}
	return s
}

// ---------- one interface over the ecosystems ----------

type tree interface {
	encode() string
	normal() string
	spell(r *rand.Rand) string
	ok() bool      // Ref.<E>.Ast.valid
	lib() bool     // within the numeric ranges the library reads exactly
	cls() []string // finding classes
}

type svTree struct {
	*semverAst
	eco string
}

func (t svTree) encode() string            { return t.enc() }
func (t svTree) normal() string            { return t.render(t.eco) }
func (t svTree) spell(r *rand.Rand) string { return t.alt(r, t.eco) }
func (t svTree) ok() bool                  { return t.valid(t.eco) }
func (t svTree) lib() bool                 { return t.inLib(t.eco) }
func (t svTree) cls() []string             { return t.classes(t.eco) }

type gemTree struct{ *gemAst }

func (t gemTree) encode() string            { return t.enc() }
func (t gemTree) normal() string            { return t.render() }
func (t gemTree) spell(r *rand.Rand) string { return t.alt(r) }
func (t gemTree) ok() bool                  { return t.valid() }
func (t gemTree) lib() bool                 { return t.inLib() }
func (t gemTree) cls() []string             { return t.classes() }

type pepTree struct{ *pepAst }

func (t pepTree) encode() string            { return t.enc() }
func (t pepTree) normal() string            { return t.render() }
func (t pepTree) spell(r *rand.Rand) string { return t.alt(r) }
func (t pepTree) ok() bool                  { return t.valid() }
func (t pepTree) lib() bool                 { return t.inLib() }
func (t pepTree) cls() []string             { return t.classes() }

type mvnTree struct{ *mavenAst }

func (t mvnTree) encode() string            { return t.enc() }
func (t mvnTree) normal() string            { return t.render() }
func (t mvnTree) spell(r *rand.Rand) string { return t.alt(r) }
func (t mvnTree) ok() bool                  { return t.valid() }
func (t mvnTree) lib() bool                 { return t.inLib() }
func (t mvnTree) cls() []string             { return t.classes() }

var ecos = []string{"npm", "cargo", "go", "nuget", "gem", "pypi", "maven"}

var ecoSys = map[string]string{"npm": "NPM", "cargo": "Cargo", "go": "Go", "nuget": "NuGet", "gem": "RubyGems", "pypi": "PyPI", "maven": "Maven"}

func decode(eco, s string) (tree, bool) {
	switch eco {
	case "npm", "cargo", "go":
		a, ok := decSemver(s, 3)
		return svTree{a, eco}, ok
	case "nuget":
		a, ok := decSemver(s, 4)
		return svTree{a, eco}, ok
	case "gem":
		a, ok := decGem(s)
		return gemTree{a}, ok
	case "pypi":
		a, ok := decPep(s)
		return pepTree{a}, ok
	case "maven":
		a, ok := decMaven(s)
		return mvnTree{a}, ok
	}
	return nil, false
}

func classLine(t tree) string {
	c := "-"
	if l := t.cls(); len(l) > 0 {
		c = strings.Join(l, ",")
	}
	b := func(x bool) int {
		if x {
			return 1
		}
		return 0
	}
	return fmt.Sprintf("ok v=%d lib=%d c=%s", b(t.ok()), b(t.lib()), c)
}
