package main

// Generators of syntax trees: a random stream per ecosystem (rich in values that
// sit on comparator branches: numeric vs alphanumeric identifiers, case, trailing
// zeros, every attachment combination, every qualifier class and separator, range
// edges) and a small-scope exhaustive enumeration over a tiny alphabet.

import (
	"math/rand"
)

func numSmall(r *rand.Rand) string { return pick(r, "0", "1", "2", "3", "10", "9") }

func numAny(r *rand.Rand, edges ...string) string {
	if len(edges) > 0 && r.Intn(7) == 0 {
		return edges[r.Intn(len(edges))]
	}
	return numSmall(r)
}

var semverWords = []string{"a", "A", "b", "alpha", "beta", "rc", "RC", "a-b", "x-1", "1a", "a1", "-", "--", "0a", "x", "X", "pre", "Alpha", "-a", "1-", "00a", "-1", "-0", "-10", "-01", "-9223372036854775808", "-9223372036854775809", "0-0"}
var semverIdentNums = []string{"0", "1", "2", "10", "9", "99", "2147483647", "2147483648", "9007199254740991", "9223372036854775807", "9223372036854775808", "10000000000000000000", "18446744073709551616"}

func genIdent(r *rand.Rand, eco string) ident {
	for {
		var i ident
		if r.Intn(2) == 0 {
			if r.Intn(4) == 0 {
				i = ident{true, semverIdentNums[r.Intn(len(semverIdentNums))]}
			} else {
				i = ident{true, numSmall(r)}
			}
		} else {
			i = ident{false, semverWords[r.Intn(len(semverWords))]}
		}
		if eco == "nuget" && (i.num && !ltDec(i.s, two31) || !i.num && looksNegative(i.s)) {
			continue
		}
		return i
	}
}

func genSemver(r *rand.Rand, eco string) tree {
	a := &semverAst{}
	edge := []string{"2147483647", "9007199254740991", "9223372036854775806"}
	if eco == "nuget" {
		edge = []string{"2147483647", "65535"}
	}
	for i := 0; i < 3; i++ {
		a.nums = append(a.nums, numAny(r, edge...))
	}
	if eco == "nuget" {
		if r.Intn(3) == 0 {
			a.nums = append(a.nums, numAny(r, edge...))
		} else {
			a.nums = append(a.nums, "0")
		}
	}
	if r.Intn(5) < 3 {
		n := 1 + r.Intn(3)
		for i := 0; i < n; i++ {
			a.pre = append(a.pre, genIdent(r, eco))
		}
	}
	if r.Intn(5) == 0 {
		n := 1 + r.Intn(2)
		for i := 0; i < n; i++ {
			a.build = append(a.build, pick(r, "x", "y", "1", "001", "a-b", "B", "-"))
		}
	}
	return svTree{a, eco}
}

func exhSemver(eco string) []tree {
	nums := [][]string{{"1", "0", "0"}, {"1", "0", "1"}, {"1", "1", "0"}, {"2", "0", "0"}, {"1", "0", "10"}}
	ids := []ident{{true, "0"}, {true, "1"}, {true, "10"}, {false, "a"}, {false, "A"}, {false, "b"}, {false, "-"}, {false, "1a"}}
	if eco != "nuget" {
		ids = append(ids, ident{false, "-1"}, ident{true, two63}, ident{true, "10000000000000000000"})
	}
	var pres [][]ident
	pres = append(pres, nil)
	for _, x := range ids {
		pres = append(pres, []ident{x})
		for _, y := range ids {
			pres = append(pres, []ident{x, y})
		}
	}
	var out []tree
	for _, n := range nums {
		for _, p := range pres {
			nn := append([]string{}, n...)
			if eco == "nuget" {
				for _, rev := range []string{"0", "1"} {
					out = append(out, svTree{&semverAst{nums: append(append([]string{}, nn...), rev), pre: p}, eco})
				}
			} else {
				out = append(out, svTree{&semverAst{nums: nn, pre: p}, eco})
			}
		}
	}
	return out
}

var gemWords = []string{"a", "b", "rc", "pre", "alpha", "beta", "x", "z", "A", "RC", "Pre", "c"}

func genGem(r *rand.Rand) tree {
	a := &gemAst{}
	k := 1 + r.Intn(4)
	for i := 0; i < k; i++ {
		a.segs = append(a.segs, ident{true, numAny(r, "9223372036854775806", "2147483648")})
	}
	if r.Intn(2) == 0 {
		n := 1 + r.Intn(4)
		a.segs = append(a.segs, ident{false, gemWords[r.Intn(len(gemWords))]})
		for i := 1; i < n; i++ {
			if r.Intn(2) == 0 {
				a.segs = append(a.segs, ident{true, pick(r, "0", "0", "1", "2", "10")})
			} else {
				a.segs = append(a.segs, ident{false, gemWords[r.Intn(len(gemWords))]})
			}
		}
	}
	return gemTree{a}
}

func exhGem() []tree {
	alpha := []ident{{true, "0"}, {true, "1"}, {false, "a"}, {false, "b"}, {false, "pre"}}
	var out []tree
	var rec func(cur []ident, depth int)
	rec = func(cur []ident, depth int) {
		if len(cur) > 0 {
			out = append(out, gemTree{&gemAst{append([]ident{}, cur...)}})
		}
		if depth == 0 {
			return
		}
		for _, x := range alpha {
			if len(cur) == 0 && !x.num {
				continue
			}
			rec(append(cur, x), depth-1)
		}
	}
	rec(nil, 4)
	return out
}

var pepLocalWords = []string{"a", "b", "ab", "abc", "x1", "1x", "ubuntu", "A", "ABC", "Ab", "z", "3e5f1a2", "1a2b", "0a", "9z", "abc1234", "git", "1A", "00a"}

func genPep(r *rand.Rand) tree {
	a := &pepAst{epoch: "0"}
	if r.Intn(6) == 0 {
		a.epoch = pick(r, "1", "2", "255")
	}
	k := 1 + r.Intn(4)
	for i := 0; i < k; i++ {
		a.release = append(a.release, numAny(r, "9223372036854775806", "2147483648"))
	}
	num := func() string { return numAny(r, "9223372036854775807") }
	if r.Intn(3) == 0 {
		a.preKind, a.preNum = pick(r, "a", "b", "rc"), num()
	}
	if r.Intn(4) == 0 {
		a.post = num()
	}
	if r.Intn(4) == 0 {
		a.dev = num()
	}
	if r.Intn(4) == 0 {
		n := 1 + r.Intn(3)
		for i := 0; i < n; i++ {
			if r.Intn(2) == 0 {
				a.local = append(a.local, ident{true, numAny(r, "18446744073709551615")})
			} else {
				a.local = append(a.local, ident{false, pepLocalWords[r.Intn(len(pepLocalWords))]})
			}
		}
	}
	return pepTree{a}
}

func exhPep() []tree {
	var out []tree
	rels := [][]string{{"1"}, {"1", "0"}, {"1", "1"}}
	pres := [][2]string{{"", ""}, {"a", "0"}, {"a", "1"}, {"b", "0"}, {"rc", "1"}}
	opts := []string{"", "0", "1"}
	locals := [][]ident{nil, {{true, "1"}}, {{false, "a"}}, {{false, "A"}}, {{false, "a"}, {true, "1"}}}
	for _, rel := range rels {
		for _, p := range pres {
			for _, po := range opts {
				for _, d := range opts {
					for _, l := range locals {
						out = append(out, pepTree{&pepAst{epoch: "0", release: rel, preKind: p[0], preNum: p[1], post: po, dev: d, local: l}})
					}
				}
			}
		}
	}
	return out
}

var mavenQuals = []string{"alpha", "a", "beta", "b", "milestone", "m", "rc", "cr", "snapshot", "ga", "final", "release", "sp", "foo", "xyz", "jre", "x", "beta", "alpha"}

func genMaven(r *rand.Rand) tree {
	a := &mavenAst{}
	k := 1 + r.Intn(4)
	for i := 0; i < k; i++ {
		a.nums = append(a.nums, pick(r, "0", "1", "2", "10", "3", "0", "4"))
	}
	if r.Intn(20) == 0 {
		a.nums[len(a.nums)-1] = pick(r, "2147483648", "9223372036854775806", "1000000000", "1000000000000000000")
	}
	if r.Intn(2) == 0 {
		a.qsep = "dht"[r.Intn(3)]
		a.qual = mavenQuals[r.Intn(len(mavenQuals))]
		if r.Intn(2) == 0 && !releaseQual(a.qual) {
			a.nsep = "dht"[r.Intn(3)]
			a.qnum = pick(r, "0", "1", "2", "10")
		}
	}
	a.snap = r.Intn(4) == 0
	return mvnTree{a}
}

func exhMaven() []tree {
	var out []tree
	numss := [][]string{{"1"}, {"1", "0"}, {"1", "1"}, {"1", "0", "0"}, {"1", "0", "1"}, {"2"}, {"0"}, {"0", "0"}, {"0", "1"}}
	quals := []string{"", "alpha", "a", "b", "rc", "snapshot", "ga", "final", "sp", "foo", "x"}
	for _, n := range numss {
		for _, q := range quals {
			seps := []byte{0}
			if q != "" {
				seps = []byte{'d', 'h', 't'}
			}
			for _, qs := range seps {
				nums := []struct {
					sep byte
					n   string
				}{{0, ""}}
				if q != "" && !releaseQual(q) {
					for _, ns := range []byte{'d', 'h', 't'} {
						nums = append(nums, struct {
							sep byte
							n   string
						}{ns, "0"}, struct {
							sep byte
							n   string
						}{ns, "1"})
					}
				}
				for _, qn := range nums {
					for _, sn := range []bool{false, true} {
						out = append(out, mvnTree{&mavenAst{nums: n, qsep: qs, qual: q, nsep: qn.sep, qnum: qn.n, snap: sn}})
					}
				}
			}
		}
	}
	return out
}

func genTree(r *rand.Rand, eco string) tree {
	switch eco {
	case "gem":
		return genGem(r)
	case "pypi":
		return genPep(r)
	case "maven":
		return genMaven(r)
	}
	return genSemver(r, eco)
}

func exhTrees(eco string) []tree {
	switch eco {
	case "gem":
		return exhGem()
	case "pypi":
		return exhPep()
	case "maven":
		return exhMaven()
	}
	return exhSemver(eco)
}

// neighbor returns a tree that differs from t in ONE component (an identifier or segment
// replaced, added or dropped; a number moved by one; a tag switched on or off). Ordering
// defects usually need two versions that agree on everything the comparator looks at first.
func neighbor(r *rand.Rand, t tree, eco string) tree {
	cpI := func(l []ident) []ident { return append([]ident{}, l...) }
	cpS := func(l []string) []string { return append([]string{}, l...) }
	bump := func(s string) string {
		switch s {
		case "0":
			return "1"
		case "1":
			return pick(r, "0", "2")
		case "9":
			return "10"
		case "10":
			return pick(r, "9", "11")
		}
		return pick(r, "0", "1", "2", "10")
	}
	editIdents := func(l []ident, gen func() ident) []ident {
		l = cpI(l)
		switch {
		case len(l) == 0 || r.Intn(5) == 0:
			return append(l, gen())
		case r.Intn(5) == 0:
			return l[:len(l)-1]
		default:
			i := r.Intn(len(l))
			if l[i].num && r.Intn(2) == 0 {
				l[i] = ident{true, bump(l[i].s)}
			} else {
				l[i] = gen()
			}
			return l
		}
	}
	switch x := t.(type) {
	case svTree:
		a := &semverAst{nums: cpS(x.nums), pre: cpI(x.pre), build: cpS(x.build)}
		if r.Intn(4) == 0 {
			i := r.Intn(len(a.nums))
			a.nums[i] = bump(a.nums[i])
		} else {
			a.pre = editIdents(a.pre, func() ident { return genIdent(r, eco) })
		}
		return svTree{a, eco}
	case gemTree:
		a := &gemAst{segs: cpI(x.segs)}
		a.segs = editIdents(a.segs, func() ident {
			if r.Intn(2) == 0 {
				return ident{true, pick(r, "0", "1", "2", "10")}
			}
			return ident{false, gemWords[r.Intn(len(gemWords))]}
		})
		return gemTree{a}
	case pepTree:
		a := &pepAst{epoch: x.epoch, release: cpS(x.release), preKind: x.preKind, preNum: x.preNum, post: x.post, dev: x.dev, local: cpI(x.local)}
		switch r.Intn(8) {
		case 0:
			i := r.Intn(len(a.release))
			a.release[i] = bump(a.release[i])
		case 1:
			if a.preKind == "" {
				a.preKind, a.preNum = pick(r, "a", "b", "rc"), pick(r, "0", "1")
			} else if r.Intn(2) == 0 {
				a.preKind = pick(r, "a", "b", "rc")
			} else {
				a.preNum = bump(a.preNum)
			}
		case 2:
			if a.post == "" {
				a.post = pick(r, "0", "1")
			} else {
				a.post = pick(r, "", bump(a.post))
			}
		case 3:
			if a.dev == "" {
				a.dev = pick(r, "0", "1")
			} else {
				a.dev = pick(r, "", bump(a.dev))
			}
		default:
			a.local = editIdents(a.local, func() ident {
				if r.Intn(3) == 0 {
					return ident{true, pick(r, "0", "1", "2", "10", "01")}
				}
				return ident{false, pepLocalWords[r.Intn(len(pepLocalWords))]}
			})
		}
		return pepTree{a}
	case mvnTree:
		a := &mavenAst{nums: cpS(x.nums), qsep: x.qsep, qual: x.qual, nsep: x.nsep, qnum: x.qnum, snap: x.snap}
		switch r.Intn(5) {
		case 0:
			i := r.Intn(len(a.nums))
			a.nums[i] = bump(a.nums[i])
		case 1:
			a.snap = !a.snap
		case 2:
			if a.qsep == 0 {
				a.qsep, a.qual = "dht"[r.Intn(3)], mavenQuals[r.Intn(len(mavenQuals))]
			} else {
				a.qsep = "dht"[r.Intn(3)]
			}
		case 3:
			if a.qsep != 0 {
				a.qual = mavenQuals[r.Intn(len(mavenQuals))]
				if releaseQual(a.qual) {
					a.nsep, a.qnum = 0, ""
				}
			} else {
				a.nums = append(a.nums, pick(r, "0", "1"))
			}
		default:
			if a.qsep != 0 && !releaseQual(a.qual) {
				if a.nsep == 0 {
					a.nsep, a.qnum = "dht"[r.Intn(3)], pick(r, "0", "1", "2")
				} else if r.Intn(2) == 0 {
					a.qnum = bump(a.qnum)
				} else {
					a.nsep = "dht"[r.Intn(3)]
				}
			} else {
				a.nums = append(a.nums, pick(r, "0", "1"))
			}
		}
		return mvnTree{a}
	}
	return t
}
