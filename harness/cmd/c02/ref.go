package main

// Independent Go transcriptions of the published ordering algorithms, on the
// syntax trees. The Lean specs (lean/DepsDev/Ref/*.lean) answer the same
// `refcmp` op lines; the line-by-line diff of the two ties the transcriptions.

import (
	"strings"
)

func sgn(i int) int {
	if i < 0 {
		return -1
	}
	if i > 0 {
		return 1
	}
	return 0
}

func lower(s string) string { return strings.ToLower(s) }
func upper(s string) string { return strings.ToUpper(s) }

// ---- SemVer 2.0.0 §11 (node-semver, semver crate cmp_precedence, x/mod/semver) ----

func semverIdentCmp(a, b ident) int {
	switch {
	case a.num && b.num:
		return cmpDec(a.s, b.s)
	case a.num:
		return -1
	case b.num:
		return 1
	}
	return strings.Compare(a.s, b.s)
}

func preListCmp(a, b []ident, cmp func(x, y ident) int) int {
	if len(a) == 0 && len(b) == 0 {
		return 0
	}
	if len(a) == 0 {
		return 1
	}
	if len(b) == 0 {
		return -1
	}
	for i := 0; i < len(a) && i < len(b); i++ {
		if c := cmp(a[i], b[i]); c != 0 {
			return c
		}
	}
	return sgn(len(a) - len(b))
}

func refSemver(a, b *semverAst) int {
	for i := 0; i < 3; i++ {
		if c := cmpDec(a.nums[i], b.nums[i]); c != 0 {
			return c
		}
	}
	return preListCmp(a.pre, b.pre, semverIdentCmp)
}

// ---- NuGet VersionComparer (Default mode) ----

func nugetLabelCmp(a, b ident) int {
	switch {
	case a.num && b.num:
		return cmpDec(a.s, b.s)
	case a.num:
		return -1
	case b.num:
		return 1
	}
	return strings.Compare(upper(a.s), upper(b.s)) // OrdinalIgnoreCase
}

func refNuGet(a, b *semverAst) int {
	for i := 0; i < 4; i++ {
		if c := cmpDec(a.nums[i], b.nums[i]); c != 0 {
			return c
		}
	}
	return preListCmp(a.pre, b.pre, nugetLabelCmp)
}

// ---- Gem::Version#<=> ----

func gemCanonical(segs []ident) []ident {
	k := 0
	for k < len(segs) && segs[k].num {
		k++
	}
	trim := func(l []ident) []ident {
		n := len(l)
		for n > 0 && l[n-1].num && l[n-1].s == "0" {
			n--
		}
		return l[:n]
	}
	out := append([]ident{}, trim(segs[:k])...)
	return append(out, trim(segs[k:])...)
}

func refGem(a, b *gemAst) int {
	l, r := gemCanonical(a.segs), gemCanonical(b.segs)
	zero := ident{true, "0"}
	for i := 0; i < len(l) || i < len(r); i++ {
		x, y := zero, zero
		if i < len(l) {
			x = l[i]
		}
		if i < len(r) {
			y = r[i]
		}
		if x == y {
			continue
		}
		switch {
		case !x.num && y.num:
			return -1
		case x.num && !y.num:
			return 1
		case x.num:
			return cmpDec(x.s, y.s)
		}
		return strings.Compare(x.s, y.s)
	}
	return 0
}

// ---- PEP 440 _cmpkey ----

// A key component with the ±infinity sentinels: kind -1 / 0 / +1 and, for kind 0, a comparison function.
type infNum struct {
	kind int
	v    string
}

func infCmp(a, b infNum) int {
	if a.kind != b.kind {
		return sgn(a.kind - b.kind)
	}
	if a.kind != 0 {
		return 0
	}
	return cmpDec(a.v, b.v)
}

func trimZeros(l []string) []string {
	n := len(l)
	for n > 0 && l[n-1] == "0" {
		n--
	}
	return l[:n]
}

func refPep(a, b *pepAst) int {
	if c := cmpDec(a.epoch, b.epoch); c != 0 {
		return c
	}
	ra, rb := trimZeros(a.release), trimZeros(b.release)
	for i := 0; i < len(ra) && i < len(rb); i++ {
		if c := cmpDec(ra[i], rb[i]); c != 0 {
			return c
		}
	}
	if len(ra) != len(rb) {
		return sgn(len(ra) - len(rb))
	}
	// _pre
	preKey := func(v *pepAst) (int, int, string) {
		switch {
		case v.preKind == "" && v.post == "" && v.dev != "":
			return -1, 0, ""
		case v.preKind == "":
			return 1, 0, ""
		}
		return 0, map[string]int{"a": 0, "b": 1, "rc": 2}[v.preKind], v.preNum
	}
	ka, la, na := preKey(a)
	kb, lb, nb := preKey(b)
	if ka != kb {
		return sgn(ka - kb)
	}
	if ka == 0 {
		if la != lb {
			return sgn(la - lb)
		}
		if c := cmpDec(na, nb); c != 0 {
			return c
		}
	}
	// _post: NegativeInfinity when absent
	opt := func(s string, absent int) infNum {
		if s == "" {
			return infNum{absent, ""}
		}
		return infNum{0, s}
	}
	if c := infCmp(opt(a.post, -1), opt(b.post, -1)); c != 0 {
		return c
	}
	// _dev: Infinity when absent
	if c := infCmp(opt(a.dev, 1), opt(b.dev, 1)); c != 0 {
		return c
	}
	// _local
	if len(a.local) == 0 || len(b.local) == 0 {
		return sgn(len(a.local) - len(b.local)) // NegativeInfinity < any tuple
	}
	for i := 0; i < len(a.local) && i < len(b.local); i++ {
		x, y := a.local[i], b.local[i]
		// (i, "") for ints, (NegativeInfinity, s) for strings
		switch {
		case x.num && y.num:
			if c := cmpDec(x.s, y.s); c != 0 {
				return c
			}
		case x.num:
			return 1
		case y.num:
			return -1
		default:
			if c := strings.Compare(lower(x.s), lower(y.s)); c != 0 {
				return c
			}
		}
	}
	return sgn(len(a.local) - len(b.local))
}

// ---- Maven ComparableVersion (3.6.x – 3.8.6) ----

type mItem struct {
	kind int // 0 int, 1 string, 2 list
	n    string
	s    string
	l    []*mItem
}

type mTok struct {
	sep  byte // 0 first, 'd', 'h', 't'
	num  bool
	text string
}

func (a *mavenAst) tokens() []mTok {
	var t []mTok
	for i, n := range a.nums {
		sep := byte('d')
		if i == 0 {
			sep = 0
		}
		t = append(t, mTok{sep, true, n})
	}
	if a.qsep != 0 {
		t = append(t, mTok{a.qsep, false, a.qual})
		if a.nsep != 0 {
			t = append(t, mTok{a.nsep, true, a.qnum})
		}
	}
	if a.snap {
		t = append(t, mTok{'h', false, "snapshot"})
	}
	return t
}

func mStringItem(w string, followedByDigit bool) *mItem {
	if followedByDigit && len(w) == 1 {
		switch w {
		case "a":
			w = "alpha"
		case "b":
			w = "beta"
		case "m":
			w = "milestone"
		}
	}
	switch w {
	case "ga", "final", "release":
		w = ""
	case "cr":
		w = "rc"
	}
	return &mItem{kind: 1, s: w}
}

var mQualifiers = []string{"alpha", "beta", "milestone", "rc", "snapshot", "", "sp"}

func mCQ(q string) string {
	for i, x := range mQualifiers {
		if x == q {
			return string(rune('0' + i))
		}
	}
	return "7-" + q
}

func (it *mItem) isNull() bool {
	switch it.kind {
	case 0:
		return it.n == "0"
	case 1:
		return mCQ(it.s) == "5"
	}
	return len(it.l) == 0
}

func (it *mItem) normalize() {
	if it.kind != 2 {
		return
	}
	for _, x := range it.l {
		x.normalize() // innermost first (the Java code pops the stack of open lists)
	}
	for i := len(it.l) - 1; i >= 0; i-- {
		last := it.l[i]
		if last.isNull() {
			it.l = append(it.l[:i], it.l[i+1:]...)
		} else if last.kind != 2 {
			break
		}
	}
}

func mParse(toks []mTok) *mItem {
	root := &mItem{kind: 2}
	cur := root
	for i, t := range toks {
		var it *mItem
		if t.num {
			it = &mItem{kind: 0, n: t.text}
		} else {
			fd := i+1 < len(toks) && toks[i+1].sep == 't' && toks[i+1].num
			it = mStringItem(t.text, fd)
		}
		cur.l = append(cur.l, it)
		if i+1 < len(toks) && toks[i+1].sep != 'd' {
			nl := &mItem{kind: 2}
			cur.l = append(cur.l, nl)
			cur = nl
		}
	}
	root.normalize()
	return root
}

func mCmpNull(x *mItem) int {
	switch x.kind {
	case 0:
		if x.n == "0" {
			return 0
		}
		return 1
	case 1:
		return sgn(strings.Compare(mCQ(x.s), "5"))
	}
	for _, i := range x.l {
		if c := mCmpNull(i); c != 0 {
			return c
		}
	}
	return 0
}

func mCmp(x, y *mItem) int {
	if y == nil {
		return mCmpNull(x)
	}
	switch x.kind {
	case 0:
		switch y.kind {
		case 0:
			return cmpDec(x.n, y.n)
		}
		return 1
	case 1:
		switch y.kind {
		case 0:
			return -1
		case 1:
			return sgn(strings.Compare(mCQ(x.s), mCQ(y.s)))
		}
		return -1
	}
	switch y.kind {
	case 0:
		return -1
	case 1:
		return 1
	}
	for i := 0; i < len(x.l) || i < len(y.l); i++ {
		var l, r *mItem
		if i < len(x.l) {
			l = x.l[i]
		}
		if i < len(y.l) {
			r = y.l[i]
		}
		var c int
		if l == nil {
			c = -mCmp(r, nil)
		} else {
			c = mCmp(l, r)
		}
		if c != 0 {
			return c
		}
	}
	return 0
}

func refMaven(a, b *mavenAst) int { return mCmp(mParse(a.tokens()), mParse(b.tokens())) }

// refCompare dispatches on the ecosystem.
func refCompare(eco string, a, b tree) int {
	switch eco {
	case "npm", "cargo", "go":
		return refSemver(a.(svTree).semverAst, b.(svTree).semverAst)
	case "nuget":
		return refNuGet(a.(svTree).semverAst, b.(svTree).semverAst)
	case "gem":
		return refGem(a.(gemTree).gemAst, b.(gemTree).gemAst)
	case "pypi":
		return refPep(a.(pepTree).pepAst, b.(pepTree).pepAst)
	case "maven":
		return refMaven(a.(mvnTree).mavenAst, b.(mvnTree).mavenAst)
	}
	panic("eco")
}
