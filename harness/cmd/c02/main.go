// C02: version ordering agrees with each ecosystem's own implementation, and the
// reference's normal form is always accepted.
package main

import (
	"fmt"
	"strings"

	"verifharness/fw"
	"verifharness/semvergen"
	"verifharness/semverops"
)

func execOp(f []string) string {
	switch f[0] {
	case "probe": // probe casefold <Sys> <version>: Go-only (outside the ASCII domain of the Lean model)
		if len(f) != 4 || f[1] != "casefold" {
			return "bad-op"
		}
		sys, ok := semverops.SysNames[f[2]]
		if !ok {
			return "bad-op"
		}
		s := fw.Unhx(f[3])
		v, err := sys.Parse(s)
		if err != nil {
			return "err"
		}
		up, err1 := sys.Parse(strings.ToUpper(s))
		lo, err2 := sys.Parse(strings.ToLower(s))
		if err1 != nil || err2 != nil {
			return "ok rejected"
		}
		return fmt.Sprintf("ok %d %d", v.Compare(up), v.Compare(lo))
	case "refcmp": // refcmp <eco> <astA> <astB>: the published algorithm, transcribed in Go
		if len(f) != 4 {
			return "bad-op"
		}
		a, ok1 := decode(f[1], f[2])
		b, ok2 := decode(f[1], f[3])
		if !ok1 || !ok2 {
			return "bad-op"
		}
		return fmt.Sprintf("ok %d", refCompare(f[1], a, b))
	case "embed": // embed <eco> <ast>: what the real parser makes of the normal form
		if len(f) != 3 {
			return "bad-op"
		}
		a, ok := decode(f[1], f[2])
		if !ok {
			return "bad-op"
		}
		r := a.normal()
		v, err := semverops.SysNames[ecoSys[f[1]]].Parse(r)
		if err != nil {
			return "err r=" + fw.Hx(r)
		}
		d := semverops.DumpVersion(v)
		return fmt.Sprintf("ok r=%s %s | %s eq=1", fw.Hx(r), d, d)
	case "classify":
		if len(f) != 3 {
			return "bad-op"
		}
		b01 := func(x bool) int {
			if x {
				return 1
			}
			return 0
		}
		switch f[1] { // the two classes that live on spellings
		case "maven-spelling":
			return fmt.Sprintf("ok z=%d", b01(zeroRun(fw.Unhx(f[2]))))
		case "pypi-spelling":
			return fmt.Sprintf("ok u=%d ve=%d", b01(upperEarly(fw.Unhx(f[2]))), b01(vEpoch(fw.Unhx(f[2]))))
		}
		a, ok := decode(f[1], f[2])
		if !ok {
			return "bad-op"
		}
		return classLine(a)
	}
	if r, ok := semverops.Exec(f); ok {
		return r
	}
	return "bad-op"
}

// finding id per (ecosystem, class); the class is the negated hypothesis clause of the partial theorem.
var findingOf = map[string]string{
	"npm:bigpre": "F-C02-bigpre", "cargo:bigpre": "F-C02-bigpre", "go:bigpre": "F-C02-bigpre",
	"npm:negident": "F-C02-neg-ident", "cargo:negident": "F-C02-neg-ident", "go:negident": "F-C02-neg-ident",
	"pypi:post0":          "F-C02-pypi-post0",
	"pypi:localpostdev":   "F-C02-pypi-local-postdev",
	"pypi:localpre":       "F-C02-pypi-local-pre",
	"pypi:localupper":     "F-C02-pypi-local-case",
	"maven:finalsnapshot": "F-C02-mvn-final-snapshot",
	"maven:zerosnapshot":  "F-C02-mvn-zero-snapshot",
	"maven:dotunknown":    "F-C02-mvn-dot-unknown",
	"maven:zerodot":       "F-C02-mvn-zero-dot",
	"gem:upper":           "F-C02-gem-case",
}

func okRes(r string) bool { return strings.HasPrefix(r, "ok ") || r == "ok" }

func recheck(oracle string, ops, res []string) (bool, string) {
	switch oracle {
	case "agree": // parse A, parse B, cmp A B, refcmp a b
		if len(ops) != 4 {
			return true, "agree needs 4 ops"
		}
		if !okRes(res[0]) || !okRes(res[1]) {
			return false, "" // not both accepted: outside the property
		}
		if !okRes(res[2]) || !okRes(res[3]) || res[2] != res[3] {
			f := strings.Fields(ops[2])
			return true, fmt.Sprintf("library: compare(%q, %q) = %s; reference: %s", fw.Unhx(f[3]), fw.Unhx(f[4]), res[2], res[3])
		}
	case "maven-casefold": // probe casefold Maven s
		// ComparableVersion lower-cases the whole string (Locale.ENGLISH) before anything else,
		// so a version and its upper-/lower-cased spelling are the same version, for every script
		if res[0] != "err" && res[0] != "ok 0 0" {
			f := strings.Fields(ops[0])
			return true, fmt.Sprintf("Maven: %q against its upper-/lower-cased spelling: %s (must be `ok 0 0`)", fw.Unhx(f[4]), res[0])
		}
	case "accepts-normal-form": // embed a
		if !okRes(res[0]) {
			return true, "the library rejects the reference's normal form: " + res[0]
		}
	case "accepts-spelling": // parse s, for a spelling the reference accepts
		if !okRes(res[0]) {
			f := strings.Fields(ops[0])
			return true, fmt.Sprintf("the library rejects %q, a spelling the reference accepts", fw.Unhx(f[3]))
		}
	default:
		return true, "unknown oracle " + oracle
	}
	return false, ""
}

// upperEarly: an upper-case letter within the first three bytes (after one optional v): the
// window possibleVersionString looks at, where it only knows lower-case letters.
func upperEarly(s string) bool {
	if len(s) > 0 && (s[0] == 'v' || s[0] == 'V') {
		s = s[1:]
	}
	if len(s) > 3 {
		s = s[:3]
	}
	for i := 0; i < len(s); i++ {
		if s[i] >= 'A' && s[i] <= 'Z' {
			return true
		}
	}
	return false
}

// zeroRun: a numeric component that is zero and spelled with more than one digit ("00").
func zeroRun(s string) bool {
	for i := 0; i < len(s); {
		if s[i] < '0' || s[i] > '9' {
			i++
			continue
		}
		j, allZero := i, true
		for j < len(s) && s[j] >= '0' && s[j] <= '9' {
			if s[j] != '0' {
				allZero = false
			}
			j++
		}
		if allZero && j-i >= 2 {
			return true
		}
		i = j
	}
	return false
}

// vEpoch: a leading v followed, somewhere, by the epoch mark.
func vEpoch(s string) bool {
	return len(s) > 0 && (s[0] == 'v' || s[0] == 'V') && strings.Contains(s, "!")
}

func classify(oracle string, ops, res []string) string {
	switch oracle {
	case "agree":
		f := strings.Fields(ops[len(ops)-1])
		if len(f) != 5 || f[1] != "refcmp" {
			return ""
		}
		eco := f[2]
		if g := strings.Fields(ops[len(ops)-2]); eco == "maven" && len(g) == 5 && g[1] == "cmp" &&
			(zeroRun(fw.Unhx(g[3])) || zeroRun(fw.Unhx(g[4]))) {
			return "F-C02-mvn-leading-zero"
		}
		for _, w := range f[3:] {
			t, ok := decode(eco, w)
			if !ok {
				return ""
			}
			for _, c := range t.cls() {
				if id, ok := findingOf[eco+":"+c]; ok {
					return id
				}
			}
		}
	case "accepts-spelling":
		f := strings.Fields(ops[0])
		if len(f) == 4 && f[2] == "PyPI" && vEpoch(fw.Unhx(f[3])) {
			return "F-C02-pypi-v-epoch"
		}
		if len(f) == 4 && f[2] == "PyPI" && upperEarly(fw.Unhx(f[3])) {
			return "F-C02-pypi-upper"
		}
	}
	return ""
}

type entry struct {
	t      tree
	wire   string
	str    string
	normal bool
	pidx   int // index of its parse op
}

func run(c *fw.Ctx) {
	per := c.N(280, 650)
	pools := map[string][]entry{}
	for _, eco := range ecos {
		sys := ecoSys[eco]
		seenTree := map[string]bool{}
		seenStr := map[string]bool{}
		var pool []entry
		addTree := func(t tree) {
			w := t.encode()
			if !t.ok() {
				c.Count(eco + ":gen-invalid")
				return
			}
			first := !seenTree[w]
			seenTree[w] = true
			if first {
				_, cl := c.Opf("C02 classify %s %s", eco, w)
				for _, x := range t.cls() {
					c.Count(eco + ":class:" + x)
				}
				_ = cl
				k, r := c.Opf("C02 embed %s %s", eco, w)
				if t.lib() {
					c.Check("accepts-normal-form", k)
				} else {
					c.Count(eco + ":out-of-library-range:" + strings.Fields(r)[0])
				}
			}
			if !t.lib() {
				return
			}
			add := func(s string, normal bool) {
				if seenStr[s] {
					return
				}
				seenStr[s] = true
				k, r := c.Opf("C02 parse %s %s", sys, fw.Hx(s))
				if eco == "pypi" || eco == "maven" {
					c.Opf("C02 classify %s-spelling %s", eco, fw.Hx(s))
				}
				if !okRes(r) {
					if !normal {
						c.Check("accepts-spelling", k)
						c.Count(eco + ":alt-rejected")
					}
					return
				}
				if !normal {
					c.Count(eco + ":alt-spelling")
				}
				pool = append(pool, entry{t, w, s, normal, k})
			}
			if first {
				add(t.normal(), true)
			}
			if c.Rng.Intn(2) == 0 {
				add(t.spell(c.Rng), false)
			}
		}
		// small-scope exhaustive stream (all of it in the thorough tier up to a cap, a sample otherwise)
		ex := exhTrees(eco)
		c.Rng.Shuffle(len(ex), func(i, j int) { ex[i], ex[j] = ex[j], ex[i] })
		var exIn, exOut []tree // inside / outside the hypotheses of the partial theorem, drawn alternately
		for _, t := range ex {
			if len(t.cls()) == 0 {
				exIn = append(exIn, t)
			} else {
				exOut = append(exOut, t)
			}
		}
		for i := 0; (i < len(exIn) || i < len(exOut)) && len(pool) < per/2; i++ {
			if i < len(exIn) {
				addTree(exIn[i])
			}
			if i < len(exOut) && i%2 == 0 {
				addTree(exOut[i])
			}
		}
		for tries := 0; len(pool) < per && tries < per*30; tries++ {
			t := genTree(c.Rng, eco)
			addTree(t)
			// neighbours: trees differing from t in one component (chains of up to three)
			for k := 0; k < 3 && c.Rng.Intn(2) == 0; k++ {
				t = neighbor(c.Rng, t, eco)
				addTree(t)
			}
		}
		pools[eco] = pool
		n := len(pool)
		c.Count(fmt.Sprintf("%s:pool=%d", eco, n))
		if n > 0 {
			var ss []string
			for _, e := range pool[:min(5, n)] {
				ss = append(ss, e.str)
			}
			c.Sample(fmt.Sprintf("%s e.g. %q", eco, ss))
		}
		// all ordered pairs: library on the spellings, reference on the trees
		inside, total := 0, 0
		for i := 0; i < n; i++ {
			for j := 0; j < n; j++ {
				a, b := pool[i], pool[j]
				ci, cr := c.Opf("C02 cmp %s %s %s", sys, fw.Hx(a.str), fw.Hx(b.str))
				ri, rr := c.Opf("C02 refcmp %s %s %s", eco, a.wire, b.wire)
				total++
				if len(a.t.cls()) == 0 && len(b.t.cls()) == 0 {
					inside++
				}
				if cr != rr || !okRes(cr) {
					c.Check("agree", a.pidx, b.pidx, ci, ri)
				}
				if a.wire != b.wire {
					c.Nontrivial(eco + "|" + a.wire + "|" + b.wire)
				}
			}
		}
		// Maven: spellings with leading zeros on the numbers (same tree for ComparableVersion) against the pool
		if eco == "maven" && n > 0 {
			for t := 0; t < c.N(30, 150); t++ {
				e := pool[c.Rng.Intn(n)]
				s := e.t.(mvnTree).altZ(c.Rng, true)
				if s == e.str {
					continue
				}
				pk, pr := c.Opf("C02 parse %s %s", sys, fw.Hx(s))
				c.Opf("C02 classify maven-spelling %s", fw.Hx(s))
				if !okRes(pr) {
					c.Check("accepts-spelling", pk)
					continue
				}
				c.Count("maven:leading-zero-spelling")
				for u := 0; u < 12; u++ {
					o := pool[c.Rng.Intn(n)]
					if u == 0 {
						o = e // the same tree: the two spellings must compare equal
					}
					ci, cr := c.Opf("C02 cmp %s %s %s", sys, fw.Hx(s), fw.Hx(o.str))
					ri, rr := c.Opf("C02 refcmp %s %s %s", eco, e.wire, o.wire)
					total++
					if cr != rr {
						c.Check("agree", pk, o.pidx, ci, ri)
					}
				}
			}
		}
		c.Tally(int64(total))
		c.Note(fmt.Sprintf("%s: %d ordered pairs of accepted spellings, %d (%.1f%%) inside the hypotheses of the partial theorem", eco, total, inside, 100*float64(inside)/float64(max(1, total))))
	}
	// Maven is case-insensitive in every script (Go-only probe: the Lean model of ToLower is ASCII)
	words := []string{"бета", "Бета", "альфа", "АЛЬФА", "été", "ÉTÉ", "Ünï", "ΑΛΦΑ", "αλφα", "Ωmega", "rc", "RC", "Final", "SNAPSHOT", "jre", "ǅ", "ǆ", "İx", "ſt"}
	for i, n := 0, c.N(400, 6000); i < n; i++ {
		v := pick(c.Rng, "1", "1.0", "2.1.3", "0.9", "10.0.1")
		for k := 0; k <= c.Rng.Intn(3); k++ {
			v += pick(c.Rng, "-", ".", "") + words[c.Rng.Intn(len(words))]
			if c.Rng.Intn(2) == 0 {
				v += pick(c.Rng, "-", ".", "") + pick(c.Rng, "1", "2", "0")
			}
		}
		// only case pairs that map back (ToLower(ToUpper(r)) == ToLower(r)), so that both spellings denote one string for Maven
		if strings.ToLower(strings.ToUpper(v)) != strings.ToLower(v) {
			continue
		}
		k, _ := c.Opf("C02 probe casefold Maven %s", fw.Hx(v))
		c.Check("maven-casefold", k)
	}
	runAdapters(c, pools)
}

func main() {
	fw.Main(&fw.Prop{
		ID:   "C02",
		Rule: "per ecosystem (npm, cargo, go, nuget, gem, pypi, maven): syntax trees from a small-scope exhaustive enumeration plus a random generator sitting on the comparator branches; each tree gives its normal form and (half the time) an alternative spelling; ops: parse of every spelling, embed (parser output on the normal form vs the Lean embed), classify, and for ALL ordered pairs of accepted spellings cmp (library) and refcmp (reference algorithm on the trees; Go transcription vs Lean spec). Oracles: agree, accepts-normal-form, accepts-spelling. Distinct non-trivial = distinct ordered pairs of different trees, both accepted.",
		Exec: execOp, Run: run, Recheck: recheck, Classify: classify,
		Gens: semvergen.Generators(),
	})
}
