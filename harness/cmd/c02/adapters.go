package main

// Optional validation of the reference transcriptions against the real tools, when
// they happen to be installed (never required: absence only removes these lines from
// the evidence). One process per tool per run: the tool gets the pool of accepted
// spellings, one per line, and returns the full comparison matrix (rows of '<', '=',
// '>', or 'X' where it rejects one side); the matrix is compared with the reference
// algorithm's verdicts on the trees. A disagreement means the transcription is wrong.

import (
	"bytes"
	"context"
	"fmt"
	"os"
	"os/exec"
	"path/filepath"
	"sort"
	"strings"
	"time"

	xsemver "golang.org/x/mod/semver"

	"verifharness/fw"
)

func rootDir() string {
	exe, err := os.Executable()
	if err == nil {
		d := filepath.Dir(filepath.Dir(filepath.Dir(exe))) // <root>/harness/bin/c02
		if _, err := os.Stat(filepath.Join(d, "harness", "refs", "c02")); err == nil {
			return d
		}
	}
	wd, _ := os.Getwd()
	return filepath.Dir(wd)
}

func runTool(stdin string, name string, args ...string) ([]string, error) {
	ctx, cancel := context.WithTimeout(context.Background(), 300*time.Second)
	defer cancel()
	cmd := exec.CommandContext(ctx, name, args...)
	cmd.Stdin = strings.NewReader(stdin)
	var out, errb bytes.Buffer
	cmd.Stdout, cmd.Stderr = &out, &errb
	if err := cmd.Run(); err != nil {
		return nil, fmt.Errorf("%v: %s", err, strings.TrimSpace(errb.String()))
	}
	return strings.Split(strings.TrimRight(out.String(), "\n"), "\n"), nil
}

type adapter struct {
	name string
	eco  string
	// skip: entries the tool is known to treat differently for a documented reason
	skip func(e entry) bool
	// matrix: rows for the given strings, or an error when the tool is absent
	matrix func(strs []string) ([]string, error)
}

func lineTool(name string, args ...string) func([]string) ([]string, error) {
	return func(strs []string) ([]string, error) {
		return runTool(strings.Join(strs, "\n")+"\n", name, args...)
	}
}

func newestNodeWithSemver() (node, semverDir string) {
	dirs, _ := filepath.Glob("/root/.nvm/versions/node/*/lib/node_modules/npm/node_modules/semver")
	sort.Strings(dirs)
	for i := len(dirs) - 1; i >= 0; i-- {
		base := strings.TrimSuffix(dirs[i], "/lib/node_modules/npm/node_modules/semver")
		n := filepath.Join(base, "bin", "node")
		if _, err := os.Stat(n); err == nil && strings.Contains(base, "v20.") {
			return n, dirs[i]
		}
	}
	for i := len(dirs) - 1; i >= 0; i-- {
		base := strings.TrimSuffix(dirs[i], "/lib/node_modules/npm/node_modules/semver")
		n := filepath.Join(base, "bin", "node")
		if _, err := os.Stat(n); err == nil {
			return n, dirs[i]
		}
	}
	return "", ""
}

func xmodMatrix(strs []string) ([]string, error) {
	rows := make([]string, len(strs))
	for i, a := range strs {
		var b strings.Builder
		for _, w := range strs {
			if !xsemver.IsValid(a) || !xsemver.IsValid(w) {
				b.WriteByte('X')
				continue
			}
			b.WriteByte("<=>"[xsemver.Compare(a, w)+1])
		}
		rows[i] = b.String()
	}
	return rows, nil
}

func javaMavenMatrix(root string) func([]string) ([]string, error) {
	return func(strs []string) ([]string, error) {
		jars, _ := filepath.Glob("/usr/share/maven/lib/maven-artifact-*.jar")
		javac, e1 := exec.LookPath("javac")
		java, e2 := exec.LookPath("java")
		if len(jars) == 0 || e1 != nil || e2 != nil {
			return nil, fmt.Errorf("maven-artifact jar or JDK not present")
		}
		src := filepath.Join(root, "harness", "refs", "c02", "MavenCmp.java")
		out := filepath.Join(root, "work", "C02", "adapters")
		cls := filepath.Join(out, "MavenCmp.class")
		si, err := os.Stat(src)
		if err != nil {
			return nil, err
		}
		if ci, err := os.Stat(cls); err != nil || ci.ModTime().Before(si.ModTime()) {
			if err := os.MkdirAll(out, 0o755); err != nil {
				return nil, err
			}
			if _, err := runTool("", javac, "-cp", jars[0], "-d", out, src); err != nil {
				return nil, err
			}
		}
		return runTool(strings.Join(strs, "\n")+"\n", java, "-cp", jars[0]+":"+out, "MavenCmp")
	}
}

func hasBigNumericIdent(e entry, bound string) bool {
	t := e.t.(svTree)
	for _, i := range t.pre {
		if i.num && !ltDec(i.s, bound) {
			return true
		}
	}
	for _, n := range t.nums {
		if !ltDec(n, bound) {
			return true
		}
	}
	return false
}

func runAdapters(c *fw.Ctx, pools map[string][]entry) {
	root := rootDir()
	refs := filepath.Join(root, "harness", "refs", "c02")
	var ads []adapter
	if node, dir := newestNodeWithSemver(); node != "" {
		ads = append(ads, adapter{"node-semver", "npm",
			// JavaScript compares numeric identifiers as doubles: exact below 2^53 only
			func(e entry) bool { return hasBigNumericIdent(e, two53) },
			lineTool(node, filepath.Join(refs, "node_semver.js"), dir)})
	}
	for _, py := range []string{"python3-vt", "python3"} {
		if p, err := exec.LookPath(py); err == nil {
			ads = append(ads, adapter{"packaging(" + py + ")", "pypi", nil, lineTool(p, filepath.Join(refs, "packaging_cmp.py"))})
		}
	}
	ads = append(ads, adapter{"maven-artifact ComparableVersion", "maven",
		// the installed 3.8.7 reads ".qualifier" as "-qualifier"; the pinned reference (<= 3.8.6) does not
		func(e entry) bool { return e.t.(mvnTree).qsep == 'd' },
		javaMavenMatrix(root)})
	ads = append(ads, adapter{"golang.org/x/mod/semver", "go", nil, xmodMatrix})
	if cargo, err := exec.LookPath("cargo"); err == nil {
		ads = append(ads, adapter{"semver crate (cmp_precedence)", "cargo", nil, cargoMatrix(root, cargo)})
	}
	for _, ad := range ads {
		pool := pools[ad.eco]
		var es []entry
		for _, e := range pool {
			if ad.skip != nil && ad.skip(e) {
				continue
			}
			es = append(es, e)
		}
		if len(es) == 0 {
			continue
		}
		strs := make([]string, len(es))
		for i, e := range es {
			strs[i] = e.str
		}
		rows, err := ad.matrix(strs)
		if err != nil || len(rows) != len(es) {
			c.Note(fmt.Sprintf("adapter %s: not available (%v, %d rows)", ad.name, err, len(rows)))
			c.Count("adapter:" + ad.name + ":absent")
			continue
		}
		pairs, rejected, bad := 0, 0, 0
		var first []string
		for i := range es {
			if len(rows[i]) != len(es) {
				bad++
				continue
			}
			for j := range es {
				ch := rows[i][j]
				if ch == 'X' {
					rejected++
					continue
				}
				pairs++
				want := "<=>"[refCompare(ad.eco, es[i].t, es[j].t)+1]
				if ch != want {
					bad++
					if len(first) < 8 {
						first = append(first, fmt.Sprintf("%s %c %s (reference transcription: %c)", es[i].str, ch, es[j].str, want))
					}
				}
			}
		}
		c.Note(fmt.Sprintf("adapter %s: %d pairs compared with the reference transcription, %d disagreements, %d pairs with a spelling the tool rejects%s",
			ad.name, pairs, bad, rejected, func() string {
				if len(first) == 0 {
					return ""
				}
				return ": " + strings.Join(first, "; ")
			}()))
		c.Count(fmt.Sprintf("adapter:%s:pairs=%d", ad.name, pairs))
		c.Count(fmt.Sprintf("adapter:%s:disagree=%d", ad.name, bad))
		c.Count(fmt.Sprintf("adapter:%s:tool-rejects=%d", ad.name, rejected))
	}
}

// cargoMatrix builds (offline, under work/) a tiny program around the semver crate and runs it.
func cargoMatrix(root, cargo string) func([]string) ([]string, error) {
	return func(strs []string) ([]string, error) {
		src := filepath.Join(root, "harness", "refs", "c02", "cargo_semver")
		dst := filepath.Join(root, "work", "C02", "adapters", "cargo_semver")
		bin := filepath.Join(dst, "target", "release", "c02_semver_cmp")
		if _, err := os.Stat(bin); err != nil {
			if err := os.MkdirAll(filepath.Join(dst, "src"), 0o755); err != nil {
				return nil, err
			}
			for _, f := range []string{"Cargo.toml", "src/main.rs"} {
				b, err := os.ReadFile(filepath.Join(src, f))
				if err != nil {
					return nil, err
				}
				if err := os.WriteFile(filepath.Join(dst, f), b, 0o644); err != nil {
					return nil, err
				}
			}
			ctx, cancel := context.WithTimeout(context.Background(), 180*time.Second)
			defer cancel()
			cmd := exec.CommandContext(ctx, cargo, "build", "--offline", "--release", "--quiet")
			cmd.Dir = dst
			if out, err := cmd.CombinedOutput(); err != nil {
				return nil, fmt.Errorf("cargo build --offline: %v: %s", err, strings.TrimSpace(string(out)))
			}
		}
		return runTool(strings.Join(strs, "\n")+"\n", bin)
	}
}
