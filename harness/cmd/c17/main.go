// c17: v3alpha is a wire-compatible superset of v3; the Go bindings match the
// .proto; resolve.System identifiers equal the API's System enum numbers.
//
// Translator-based (the quantifier is a finite configuration): `gen` writes the
// fact tables lean/DepsDev/Gen/C17*.lean from /repo's current working tree and
// the theorems of DepsDev.Props.C17 are kernel evaluations over them. `drive`
// is the failing-input search: the same comparisons made in Go, one op line per
// element (group) and, inside a differing element, one per fact.
package main

import (
	"encoding/hex"
	"os"
	"strings"
	"sync"
	"unicode/utf8"

	"verifharness/fw"
)

func hx(s string) string { return fw.Hx(s) }

// unhx decodes an op-line argument; ok=false for anything the Lean driver also
// rejects (odd length, upper-case or non-hex digits, invalid UTF-8).
func unhx(s string) (string, bool) {
	if s == "-" {
		return "", true
	}
	if s != strings.ToLower(s) {
		return "", false
	}
	b, err := hex.DecodeString(s)
	if err != nil || !utf8.Valid(b) {
		return "", false
	}
	return string(b), true
}

func repoDir() string {
	if r := os.Getenv("VERIF_REPO"); r != "" {
		return r
	}
	return "/repo"
}

var (
	checksOnce sync.Once
	all        *All
	checks     map[string]*Check
	checkList  []*Check
)

func load() {
	checksOnce.Do(func() {
		all = extractAll(repoDir())
		checkList = buildChecks(all)
		checks = map[string]*Check{}
		for _, c := range checkList {
			checks[c.Name] = c
		}
	})
}

var sources = []string{"pbgo_v3", "pbgo_v3alpha", "proto_v3", "proto_v3alpha", "go_v3", "go_v3alpha", "systems"}

// extract reports whether a source could be read, and how many facts it gave.
func extract(src string) string {
	n := 0
	var errs string
	countDesc := func(d *Desc) {
		errs = d.Err
		n = 1 + len(d.Msgs) + len(d.Fields) + len(d.Oneofs) + len(d.Enums) + len(d.Values) + len(d.Svcs) + len(d.Methods) + len(d.Https)
	}
	switch {
	case strings.HasPrefix(src, "pbgo_") && all.Pbgo[src[5:]] != nil:
		countDesc(all.Pbgo[src[5:]])
	case strings.HasPrefix(src, "proto_") && all.Text[src[6:]] != nil:
		countDesc(all.Text[src[6:]])
	case strings.HasPrefix(src, "go_") && all.Go[src[3:]] != nil:
		g := all.Go[src[3:]]
		errs = g.Err
		n = len(g.Structs) + len(g.Tags) + len(g.Oneofs) + len(g.Consts) + len(g.GConsts) + len(g.GDescs) + len(g.GIfaces) + len(g.GCalls)
	case src == "systems":
		errs = all.Sys.Err
		n = len(all.Sys.Consts)
	default:
		return "bad-op"
	}
	if errs != "" {
		if os.Getenv("VERIF_DEBUG") != "" {
			os.Stderr.WriteString(src + ": " + errs + "\n")
		}
		return "err"
	}
	return "ok " + itoa(n)
}

func itoa(n int) string {
	if n == 0 {
		return "0"
	}
	neg := n < 0
	if neg {
		n = -n
	}
	var b []byte
	for n > 0 {
		b = append([]byte{byte('0' + n%10)}, b...)
		n /= 10
	}
	if neg {
		return "-" + string(b)
	}
	return string(b)
}

func exec(f []string) string {
	load()
	switch {
	case f[0] == "extract" && len(f) == 2:
		return extract(f[1])
	case f[0] == "count" && len(f) == 2:
		c := checks[f[1]]
		if c == nil {
			return "bad-op"
		}
		return "ok " + itoa(len(c.L)) + " " + itoa(len(c.R))
	case f[0] == "group" && len(f) == 3:
		c := checks[f[1]]
		o, ok := unhx(f[2])
		if c == nil || !ok {
			return "bad-op"
		}
		return c.group(o)
	case f[0] == "fact" && len(f) == 3:
		c := checks[f[1]]
		k, ok := unhx(f[2])
		if c == nil || !ok {
			return "bad-op"
		}
		return c.fact(k)
	}
	return "bad-op"
}

// recheck is the oracle "holds": a function of op lines and results only.
func recheck(oracle string, ops, res []string) (bool, string) {
	if oracle != "holds" {
		return true, "unknown oracle " + oracle
	}
	for i, op := range ops {
		f := strings.Fields(op)
		r := strings.Fields(res[i])
		if len(f) < 3 || len(r) == 0 {
			return true, "malformed op/result: " + op + " => " + res[i]
		}
		what := f[1]
		show := func(h string) string {
			if s, ok := unhx(h); ok {
				return s
			}
			return h
		}
		name := func() string {
			if len(f) >= 4 {
				return f[2] + " " + show(f[3])
			}
			return f[2]
		}
		switch what {
		case "extract":
			if r[0] != "ok" {
				return true, "source " + f[2] + " cannot be extracted (" + res[i] + ")"
			}
		case "count":
			if r[0] != "ok" {
				return true, "check " + f[2] + ": " + res[i]
			}
		case "group", "fact":
			sub := f[2] == "v3sub"
			if len(r) < 2 || r[0] != "ok" {
				return true, name() + ": " + res[i]
			}
			switch r[1] {
			case "identical", "present-identical", "absent":
			case "extra":
				if !sub {
					return true, name() + ": present only on the right-hand side (Go binding / .proto text) of " + f[2]
				}
			case "missing":
				return true, name() + ": missing on the right-hand side of " + f[2]
			case "differs":
				d := name() + ": differs"
				if len(r) == 4 {
					d += ": " + show(r[2]) + "  |  " + show(r[3])
				} else if len(r) == 3 {
					d += " in " + r[2] + " fact(s)"
				}
				return true, d
			default:
				return true, name() + ": " + res[i]
			}
		default:
			return true, "unknown op " + op
		}
	}
	return false, ""
}

func run(c *fw.Ctx) {
	load()
	for _, s := range sources {
		i, r := c.Opf("C17 extract %s", s)
		c.Check("holds", i)
		c.Count("extract")
		if strings.HasPrefix(r, "ok") {
			c.Nontrivial("extract " + s)
		}
	}
	for _, ck := range checkList {
		i, _ := c.Opf("C17 count %s", ck.Name)
		c.Check("holds", i)
		for _, o := range ck.owners() {
			i, r := c.Opf("C17 group %s %s", ck.Name, hx(o))
			ok := c.Check("holds", i)
			c.Count("group " + ck.Name)
			c.Nontrivial(ck.Name + " " + o)
			if len(c.P.Rule) > 0 && i%97 == 0 {
				c.Sample("C17 group " + ck.Name + " " + o + " => " + r)
			}
			if ok && strings.HasPrefix(r, "ok identical") {
				continue
			}
			// narrow down: every fact of the differing element
			for _, k := range ck.keysOf(o) {
				j, _ := c.Opf("C17 fact %s %s", ck.Name, hx(k))
				c.Check("holds", j)
				c.Count("fact " + ck.Name)
			}
		}
	}
}

func main() {
	fw.Main(&fw.Prop{
		ID: "C17",
		Rule: "complete enumeration (finite configuration): one group op per element (message, enum, rpc, file, Go struct, enum type, " +
			"grpc binding set, systems) of each of the checks v3sub, pbgo_<ver>, structs_<ver>, grpc_<ver>, systems_<ver>; " +
			"inside a differing element one fact op per fact; distinct = (check, element); every element is non-trivial",
		Exec:    exec,
		Run:     run,
		Recheck: recheck,
		Gens:    gens(),
	})
}
