package main

// Lean emission: every string is interned into one table shared by all
// generated files (id 0 = "", ids in bytewise string order).

import (
	"fmt"
	"sort"
	"strings"
	"sync"

	"verifharness/fw"
)

// All is everything extracted from one working tree.
type All struct {
	Pbgo, Text map[string]*Desc
	Go         map[string]*GoBind
	Sys        *Systems
	ids        map[string]int
	names      []string
}

var versions = []string{"v3", "v3alpha"}

var vocabWords = []string{"FullMethodName", "Handler", "ServiceDesc", "System"}

var (
	allMu    sync.Mutex
	allCache = map[string]*All{}
)

func extractAll(repo string) *All {
	allMu.Lock()
	defer allMu.Unlock()
	if a, ok := allCache[repo]; ok {
		return a
	}
	a := &All{Pbgo: map[string]*Desc{}, Text: map[string]*Desc{}, Go: map[string]*GoBind{}}
	for _, v := range versions {
		a.Pbgo[v] = descFromPbgo(repo, v)
		a.Text[v] = descFromText(repo, v)
		a.Go[v] = goBindings(repo, v)
	}
	a.Sys = resolveSystems(repo)
	// intern: first pass collects, second pass uses the final ids
	seen := map[string]bool{"": true}
	collect := func(s string) int { seen[s] = true; return 0 }
	a.emitEverything(collect)
	for _, w := range vocabWords {
		seen[w] = true
	}
	for s := range seen {
		a.names = append(a.names, s)
	}
	sort.Strings(a.names)
	a.ids = map[string]int{}
	for i, s := range a.names {
		a.ids[s] = i
	}
	allCache[repo] = a
	return a
}

func (a *All) id(s string) int {
	i, ok := a.ids[s]
	if !ok {
		panic("string not interned: " + s)
	}
	return i
}

func (a *All) emitEverything(id func(string) int) {
	for _, v := range versions {
		emitDesc("x", a.Pbgo[v], id)
		emitDesc("x", a.Text[v], id)
		emitGo("x", a.Go[v], id)
	}
	emitSys(a.Sys, id)
}

type idf = func(string) int

func lnat(id idf, ss []string) string {
	p := make([]string, len(ss))
	for i, s := range ss {
		p[i] = fmt.Sprint(id(s))
	}
	return "[" + strings.Join(p, ", ") + "]"
}

func lint(n int) string {
	if n < 0 {
		return fmt.Sprintf("(%d)", n)
	}
	return fmt.Sprint(n)
}

func comment(s string) string {
	var b strings.Builder
	for _, r := range s {
		if r < 0x20 || r == 0x7f {
			r = '?'
		}
		b.WriteRune(r)
	}
	return b.String()
}

func table[T any](b *strings.Builder, field string, rows []T, row func(T) (string, string)) {
	fmt.Fprintf(b, "  %s := [", field)
	for i, r := range rows {
		lean, cmt := row(r)
		sep := ","
		if i == len(rows)-1 {
			sep = ""
		}
		fmt.Fprintf(b, "\n    %s%s -- %s", lean, sep, comment(cmt))
	}
	if len(rows) > 0 {
		b.WriteString("\n  ")
	}
	b.WriteString("]\n")
}

const genHead = "import DepsDev.Model.Api.Desc\nnamespace DepsDev.Gen.C17\nopen DepsDev.Api\n\n"
const genTail = "\nend DepsDev.Gen.C17\n"

func dot(ss []string) string { return strings.Join(ss, ".") }
func usc(ss []string) string { return strings.Join(ss, "_") }

func emitDesc(name string, d *Desc, id idf) string {
	var b strings.Builder
	b.WriteString(genHead)
	if d.Err != "" {
		fmt.Fprintf(&b, "-- EXTRACTION FAILED: %s\n", comment(d.Err))
	}
	fmt.Fprintf(&b, "def %s : Desc := {\n  ok := %v\n", name, d.Err == "")
	deps := append([]string(nil), d.File.Deps...)
	fmt.Fprintf(&b, "  file := ⟨%d, %d, %s, %s, %s⟩ -- %s syntax=%d package %s go_package %s imports %s\n",
		id(d.File.Name), d.File.Syntax, lnat(id, d.File.Pkg), lnat(id, d.File.GoPkg), lnat(id, deps),
		comment(d.File.Name), d.File.Syntax, comment(dot(d.File.Pkg)), comment(strings.Join(d.File.GoPkg, "/")), comment(strings.Join(deps, " ")))
	table(&b, "msgs", d.Msgs, func(x MsgF) (string, string) {
		return fmt.Sprintf("⟨%s, %v⟩", lnat(id, x.Name), x.MapEntry), dot(x.Name)
	})
	table(&b, "fields", d.Fields, func(x FieldF) (string, string) {
		return fmt.Sprintf("⟨%s, %d, %d, %d, %d, %s, %d, %d, %v, %d, %v⟩", lnat(id, x.Msg), id(x.Name), x.Number, x.Label, x.Type,
			lnat(id, x.TypeName), id(x.Oneof), id(x.JSON), x.P3Opt, x.Packed, x.Deprecated), dot(x.Msg) + "." + x.Name + " = " + fmt.Sprint(x.Number) + " " + dot(x.TypeName)
	})
	table(&b, "oneofs", d.Oneofs, func(x OneofF) (string, string) {
		return fmt.Sprintf("⟨%s, %d, %d⟩", lnat(id, x.Msg), id(x.Name), x.Index), dot(x.Msg) + "." + x.Name
	})
	table(&b, "enums", d.Enums, func(x EnumF) (string, string) {
		return fmt.Sprintf("⟨%s⟩", lnat(id, x.Name)), dot(x.Name)
	})
	table(&b, "values", d.Values, func(x ValueF) (string, string) {
		return fmt.Sprintf("⟨%s, %d, %s⟩", lnat(id, x.Enum), id(x.Name), lint(x.Number)), dot(x.Enum) + "." + x.Name + " = " + fmt.Sprint(x.Number)
	})
	table(&b, "svcs", d.Svcs, func(x SvcF) (string, string) {
		return fmt.Sprintf("⟨%s⟩", lnat(id, x.Name)), dot(x.Name)
	})
	table(&b, "methods", d.Methods, func(x MethodF) (string, string) {
		return fmt.Sprintf("⟨%s, %d, %s, %s, %v, %v⟩", lnat(id, x.Svc), id(x.Name), lnat(id, x.In), lnat(id, x.Out), x.CS, x.SS),
			dot(x.Svc) + "." + x.Name + "(" + dot(x.In) + ") returns (" + dot(x.Out) + ")"
	})
	table(&b, "https", d.Https, func(x HttpF) (string, string) {
		return fmt.Sprintf("⟨%s, %d, %d, %d, %d, %s, %d, %d⟩", lnat(id, x.Svc), id(x.Method), x.Idx, x.Verb, id(x.Custom), lnat(id, x.Path), id(x.Body), id(x.RespBody)),
			dot(x.Svc) + "." + x.Method + " " + fmt.Sprint(x.Verb) + " " + strings.Join(x.Path, "/") + " body=" + x.Body
	})
	b.WriteString("}\n")
	b.WriteString(genTail)
	return b.String()
}

func emitGo(name string, g *GoBind, id idf) string {
	var b strings.Builder
	b.WriteString(genHead)
	if g.Err != "" {
		fmt.Fprintf(&b, "-- EXTRACTION FAILED: %s\n", comment(g.Err))
	}
	fmt.Fprintf(&b, "def %s : GoBind := {\n  ok := %v\n", name, g.Err == "")
	table(&b, "structs", g.Structs, func(x StructF) (string, string) {
		return fmt.Sprintf("⟨%s⟩", lnat(id, x.Ident)), usc(x.Ident)
	})
	table(&b, "tags", g.Tags, func(x TagF) (string, string) {
		return fmt.Sprintf("⟨%s, %d, %d, %d, %d, %d, %v, %s, %v, %v, %v, %v, %d, %v, %s, %v, %v, %d⟩", lnat(id, x.Struct), id(x.Name), x.Wire, x.Number,
				x.Label, id(x.JSON), x.Proto3, lnat(id, x.Enum), x.Oneof, x.Packed, x.Rep, x.Ptr, x.Scalar, x.Qual, lnat(id, x.Ident), x.IsMap, x.Wrapped, id(x.BadExtra)),
			usc(x.Struct) + "." + x.Name + " #" + fmt.Sprint(x.Number)
	})
	table(&b, "oneofs", g.Oneofs, func(x GoOneofF) (string, string) {
		return fmt.Sprintf("⟨%s, %d⟩", lnat(id, x.Struct), id(x.Name)), usc(x.Struct) + "." + x.Name
	})
	table(&b, "consts", g.Consts, func(x ConstF) (string, string) {
		return fmt.Sprintf("⟨%s, %s, %s⟩", lnat(id, x.Type), lnat(id, x.Ident), lint(x.Number)), usc(x.Ident) + " " + usc(x.Type) + " = " + fmt.Sprint(x.Number)
	})
	table(&b, "gconsts", g.GConsts, func(x GConstF) (string, string) {
		return fmt.Sprintf("⟨%s, %s, %d⟩", lnat(id, x.Ident), lnat(id, x.Svc), id(x.Method)), usc(x.Ident) + " = /" + dot(x.Svc) + "/" + x.Method
	})
	table(&b, "gdescs", g.GDescs, func(x GDescF) (string, string) {
		return fmt.Sprintf("⟨%s, %s, %d, %s, %v, %v, %v, %d, %d⟩", lnat(id, x.Var), lnat(id, x.Svc), id(x.Method), lnat(id, x.Handler), x.Stream, x.CS, x.SS, id(x.HType), id(x.Meta)),
			usc(x.Var) + " " + dot(x.Svc) + "." + x.Method + " -> " + usc(x.Handler)
	})
	table(&b, "gifaces", g.GIfaces, func(x GIfaceF) (string, string) {
		return fmt.Sprintf("⟨%d, %d, %d, %s, %s⟩", id(x.Svc), x.Role, id(x.Method), lnat(id, x.In), lnat(id, x.Out)),
			fmt.Sprintf("%s role %d: %s(%s) %s", x.Svc, x.Role, x.Method, usc(x.In), usc(x.Out))
	})
	table(&b, "gcalls", g.GCalls, func(x GCallF) (string, string) {
		return fmt.Sprintf("⟨%d, %s, %s, %d, %s⟩", x.Role, lnat(id, x.Func), lnat(id, x.Const), id(x.Method), lnat(id, x.Req)),
			fmt.Sprintf("role %d: %s uses %s calls %s", x.Role, usc(x.Func), usc(x.Const), x.Method)
	})
	b.WriteString("}\n")
	b.WriteString(genTail)
	return b.String()
}

func emitSys(s *Systems, id idf) string {
	var b strings.Builder
	b.WriteString(genHead)
	if s.Err != "" {
		fmt.Fprintf(&b, "-- EXTRACTION FAILED: %s\n", comment(s.Err))
	}
	fmt.Fprintf(&b, "def resolveSystemsOk : Bool := %v\n\ndef resolveSystems : List SysF := [", s.Err == "")
	for i, c := range s.Consts {
		sep := ","
		if i == len(s.Consts)-1 {
			sep = ""
		}
		fmt.Fprintf(&b, "\n  ⟨%d, %s, %s, %d⟩%s -- resolve.%s = %d from %s.%s", id(c.Name), lint(c.Value), lnat(id, c.Src), id(c.SrcPkg), sep,
			comment(c.Name), c.Value, comment(c.SrcPkg), comment(usc(c.Src)))
	}
	if len(s.Consts) > 0 {
		b.WriteString("\n")
	}
	b.WriteString("]\n")
	b.WriteString(genTail)
	return b.String()
}

func (a *All) emitNames() string {
	var b strings.Builder
	b.WriteString(genHead)
	b.WriteString("/-- The intern table: id ↦ string (id 0 = \"\"; ids follow bytewise string order). -/\ndef names : Array String := #[")
	for i, s := range a.names {
		if i > 0 {
			b.WriteString(",")
		}
		if i%6 == 0 {
			b.WriteString("\n  ")
		} else {
			b.WriteString(" ")
		}
		b.WriteString(fw.LeanStr(s))
	}
	b.WriteString("]\n\n/-- id ↦ ids of its \"_\"-separated parts, for every interned string containing \"_\" whose parts are all interned\n(a string with a part that occurs nowhere else cannot equal any Go identifier of the tables). -/\ndef usplit : List (Nat × List Nat) := [")
	first := true
	for i, s := range a.names {
		if !strings.Contains(s, "_") {
			continue
		}
		parts := splitU(s)
		okAll := true
		for _, p := range parts {
			if _, ok := a.ids[p]; !ok {
				okAll = false
			}
		}
		if !okAll {
			continue // parts that occur nowhere else cannot match anything
		}
		if !first {
			b.WriteString(",")
		}
		first = false
		fmt.Fprintf(&b, "\n  (%d, %s)", i, lnat(a.id, parts))
	}
	b.WriteString("]\n\n")
	fmt.Fprintf(&b, "def vocab : Vocab := ⟨%d, %d, %d, %d⟩ -- FullMethodName Handler ServiceDesc System\n", a.id("FullMethodName"), a.id("Handler"), a.id("ServiceDesc"), a.id("System"))
	b.WriteString(genTail)
	return b.String()
}

func gens() []fw.Generator {
	g := []fw.Generator{
		{Name: "C17Names", Fn: func(repo string) (string, error) { return extractAll(repo).emitNames(), nil }},
		{Name: "C17Systems", Fn: func(repo string) (string, error) { a := extractAll(repo); return emitSys(a.Sys, a.id), nil }},
	}
	for _, v := range versions {
		v := v
		suffix := strings.ToUpper(v[:1]) + v[1:]
		g = append(g,
			fw.Generator{Name: "C17Pbgo" + suffix, Fn: func(repo string) (string, error) {
				a := extractAll(repo)
				return emitDesc("pbgo"+suffix, a.Pbgo[v], a.id), nil
			}},
			fw.Generator{Name: "C17Proto" + suffix, Fn: func(repo string) (string, error) {
				a := extractAll(repo)
				return emitDesc("proto"+suffix, a.Text[v], a.id), nil
			}},
			fw.Generator{Name: "C17Go" + suffix, Fn: func(repo string) (string, error) {
				a := extractAll(repo)
				return emitGo("go"+suffix, a.Go[v], a.id), nil
			}})
	}
	return g
}
