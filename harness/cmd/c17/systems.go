package main

// Source (e): the System constants of util/resolve, evaluated by go/types
// constant folding in util/resolve's own module context (its go.mod decides
// which deps.dev/api/v3 the constants are computed from).

import (
	"go/ast"
	"go/types"
	"path/filepath"

	"verifharness/fw"
)

func resolveSystems(repo string) *Systems {
	p, err := fw.LoadPkg(filepath.Join(repo, "util", "resolve"))
	if err != nil {
		return &Systems{Err: err.Error()}
	}
	names, vals := fw.ConstsOfType(p, "System")
	if len(names) == 0 {
		return &Systems{Err: "util/resolve declares no System constants"}
	}
	s := &Systems{}
	for i, n := range names {
		sf := SysF{Name: n, Value: int(vals[i])}
		// the defining expression: System(<pkg>.<Const>)
		if e := fw.FindVar(p, n); e != nil {
			if call, ok := e.(*ast.CallExpr); ok && len(call.Args) == 1 {
				if sel, ok := call.Args[0].(*ast.SelectorExpr); ok {
					if c, ok := p.TypesInfo.Uses[sel.Sel].(*types.Const); ok && c.Pkg() != nil {
						sf.Src = splitU(sel.Sel.Name)
						sf.SrcPkg = c.Pkg().Path()
					}
				}
			}
		}
		s.Consts = append(s.Consts, sf)
	}
	return s
}
