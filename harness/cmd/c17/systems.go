package main

// Source (e): the System constants of util/resolve, evaluated by go/types
// constant folding in util/resolve's own module context (its go.mod decides
// which deps.dev/api/v3 the constants are computed from).

import (
	"fmt"
	"go/ast"
	"go/types"
	"os"
	"path/filepath"

	"golang.org/x/tools/go/packages"

	"verifharness/fw"
)

func loadTolerant(dir string) (*packages.Package, error) {
	cfg := &packages.Config{
		Mode: packages.NeedName | packages.NeedFiles | packages.NeedSyntax | packages.NeedTypes | packages.NeedTypesInfo | packages.NeedImports | packages.NeedDeps,
		Dir:  dir,
		Env:  append(os.Environ(), "GOFLAGS=-mod=mod", "GOPROXY=off", "GOSUMDB=off", "GOTOOLCHAIN=local"),
	}
	ps, err := packages.Load(cfg, ".")
	if err != nil {
		return nil, err
	}
	if len(ps) != 1 || ps[0].Types == nil || ps[0].TypesInfo == nil || len(ps[0].Syntax) == 0 {
		return nil, fmt.Errorf("%s: cannot load package", dir)
	}
	return ps[0], nil
}

func resolveSystems(repo string) *Systems {
	p, err := fw.LoadPkg(filepath.Join(repo, "util", "resolve"))
	if err != nil {
		// The package may no longer type-check as a whole (stringer's generated
		// `_ = x[NPM-3]` guards reject a changed constant) while the constants
		// themselves still evaluate: load again, tolerating errors.
		p, err = loadTolerant(filepath.Join(repo, "util", "resolve"))
		if err != nil {
			return &Systems{Err: err.Error()}
		}
	}
	names, vals := fw.ConstsOfType(p, "System")
	if len(names) == 0 {
		return &Systems{Err: "util/resolve declares no System constants"}
	}
	s := &Systems{}
	for i, n := range names {
		sf := SysF{Name: n, Value: int(vals[i])}
		// the defining expression: System(<pkg>.<Const>)
		if e := fw.FindVar(p, n); e != nil {
			if call, ok := e.(*ast.CallExpr); ok && len(call.Args) == 1 {
				if sel, ok := call.Args[0].(*ast.SelectorExpr); ok {
					if c, ok := p.TypesInfo.Uses[sel.Sel].(*types.Const); ok && c.Pkg() != nil {
						sf.Src = splitU(sel.Sel.Name)
						sf.SrcPkg = c.Pkg().Path()
					}
				}
			}
		}
		s.Consts = append(s.Consts, sf)
	}
	return s
}
