package main

// Source (e): the System constants of util/resolve, evaluated by go/types
// constant folding in util/resolve's own module context (its go.mod decides
// which deps.dev/api/v3 the constants are computed from).

import (
	"fmt"
	"go/ast"
	"go/types"
	"os"
	"path/filepath"

	"golang.org/x/tools/go/packages"

	"verifharness/fw"
)

func loadTolerant(dir string) (*packages.Package, error) {
	cfg := &packages.Config{
		Mode: packages.NeedName | packages.NeedFiles | packages.NeedSyntax | packages.NeedTypes | packages.NeedTypesInfo | packages.NeedImports | packages.NeedDeps,
		Dir:  dir,
		Env:  append(os.Environ(), "GOFLAGS=-mod=mod", "GOPROXY=off", "GOSUMDB=off", "GOTOOLCHAIN=local"),
	}
	ps, err := packages.Load(cfg, ".")
	if err != nil {
		return nil, err
	}
	if len(ps) != 1 || ps[0].Types == nil || ps[0].TypesInfo == nil || len(ps[0].Syntax) == 0 {
		return nil, fmt.Errorf("%s: cannot load package", dir)
	}
	return ps[0], nil
}

func resolveSystems(repo string) *Systems {
	p, err := fw.LoadPkg(filepath.Join(repo, "util", "resolve"))
	if err != nil {
		// The package may no longer type-check as a whole (stringer's generated
		// `_ = x[NPM-3]` guards reject a changed constant) while the constants
		// themselves still evaluate: load again, tolerating errors.
		p, err = loadTolerant(filepath.Join(repo, "util", "resolve"))
		if err != nil {
			return &Systems{Err: err.Error()}
		}
	}
	names, vals := fw.ConstsOfType(p, "System")
	if len(names) == 0 {
		return &Systems{Err: "util/resolve declares no System constants"}
	}
	s := &Systems{}
	for i, n := range names {
		if n == "_" {
			continue // blank constants of an iota block are not identifiers of anything
		}
		sf := SysF{Name: n, Value: int(vals[i])}
		// the defining expression, if it is (conversions and parentheses around) a
		// constant of another package: System(<pkg>.<Const>), System(byte(<pkg>.<Const>)), ...
		if e := fw.FindVar(p, n); e != nil {
			if c, id := foreignConst(p, e); c != nil {
				sf.Src = splitU(id.Name)
				sf.SrcPkg = c.Pkg().Path()
			}
		}
		s.Consts = append(s.Consts, sf)
	}
	if len(s.Consts) == 0 {
		return &Systems{Err: "util/resolve declares no named System constants"}
	}
	return s
}

// foreignConst strips parentheses and type conversions from e and returns the
// constant of another package that remains (object identity via go/types, so
// the import may be renamed or dot-imported), or nil.
func foreignConst(p *packages.Package, e ast.Expr) (*types.Const, *ast.Ident) {
	for {
		e = ast.Unparen(e)
		call, ok := e.(*ast.CallExpr)
		if !ok || len(call.Args) != 1 {
			break
		}
		if tv, ok := p.TypesInfo.Types[call.Fun]; !ok || !tv.IsType() {
			return nil, nil
		}
		e = call.Args[0]
	}
	var id *ast.Ident
	switch x := e.(type) {
	case *ast.SelectorExpr:
		id = x.Sel
	case *ast.Ident:
		id = x
	default:
		return nil, nil
	}
	c, ok := p.TypesInfo.Uses[id].(*types.Const)
	if !ok || c.Pkg() == nil || c.Pkg() == p.Types {
		return nil, nil
	}
	return c, id
}
