package main

// Fact types shared by every source (descriptor embedded in api.pb.go, the
// api.proto text, the Go bindings). Names are kept as component lists so the
// Lean side can rename the version component; the translator never renames.

import (
	"fmt"
	"sort"
	"strings"
)

// Closed vocabularies are emitted as numeric codes (documented in
// lean/DepsDev/Model/Api/Desc.lean):
//   field type  = descriptor.proto FieldDescriptorProto.Type number (1..18)
//   label       = descriptor.proto Label number (1 optional, 2 required, 3 repeated)
//   http verb   = google.api.HttpRule field number (2 get, 3 put, 4 post, 5 delete, 6 patch, 8 custom)
//   wire (tag)  = 1 varint, 2 fixed32, 3 fixed64, 4 bytes, 5 group, 6 zigzag32, 7 zigzag64
//   go scalar   = 0 named type, 1 string, 2 bool, 3 int32, 4 int64, 5 uint32, 6 uint64, 7 float32, 8 float64, 9 []byte
//   syntax      = 2 proto2, 3 proto3, 0 anything else
//   packed opt  = 0 unset, 1 false, 2 true

type MsgF struct {
	Name     []string
	MapEntry bool
}

type FieldF struct {
	Msg        []string
	Name       string
	Number     int
	Label      int
	Type       int
	TypeName   []string // nil for scalars
	Oneof      string   // "" = not in a oneof (synthetic oneofs of proto3 optional included)
	JSON       string
	P3Opt      bool
	Packed     int
	Deprecated bool
}

type OneofF struct {
	Msg   []string
	Name  string
	Index int
}

type EnumF struct{ Name []string }

type ValueF struct {
	Enum   []string
	Name   string
	Number int
}

type SvcF struct{ Name []string }

type MethodF struct {
	Svc     []string
	Name    string
	In, Out []string
	CS, SS  bool
}

type HttpF struct {
	Svc      []string
	Method   string
	Idx      int // 0 = the rule itself, 1.. = additional_bindings
	Verb     int
	Custom   string // kind of a custom verb
	Path     []string
	Body     string
	RespBody string
}

type FileF struct {
	Name   string // file name as registered (api.proto)
	Syntax int
	Pkg    []string
	GoPkg  []string // go_package split on "/"
	Deps   []string // imports, sorted
}

// Desc is everything one source says about one api.proto.
type Desc struct {
	Err     string // non-empty: extraction failed, all tables empty
	File    FileF
	Msgs    []MsgF
	Fields  []FieldF
	Oneofs  []OneofF
	Enums   []EnumF
	Values  []ValueF
	Svcs    []SvcF
	Methods []MethodF
	Https   []HttpF
}

// TagF is one `protobuf:"..."` struct tag of api.pb.go.
type TagF struct {
	Struct   []string // Go struct identifier split on "_" (oneof wrapper structs are attributed to their parent)
	Name     string
	Wire     int
	Number   int
	Label    int
	JSON     string // "" when the tag has no json=
	Proto3   bool
	Enum     []string
	Oneof    bool
	Packed   bool
	Rep      bool // Go type is a slice (other than []byte itself)
	Ptr      bool
	Scalar   int
	Qual     bool     // Go type is qualified by an imported package
	Ident    []string // named Go type split on "_"
	IsMap    bool
	Wrapped  bool   // field lives in a oneof wrapper struct
	BadExtra string // unrecognised tag words (must be empty)
}

// GoOneofF is a `protobuf_oneof:"name"` interface field.
type GoOneofF struct {
	Struct []string
	Name   string
}

// StructF is a Go struct with at least the three protoimpl bookkeeping fields
// (i.e. a generated message type).
type StructF struct{ Ident []string }

// ConstF is a typed integer constant of api.pb.go (enum value).
type ConstF struct {
	Type   []string // Go type identifier split on "_"
	Ident  []string // constant identifier split on "_"
	Number int
}

type GConstF struct { // X_Y_FullMethodName = "/pkg.Svc/Method"
	Ident  []string
	Svc    []string
	Method string
}

type GDescF struct { // entries of X_ServiceDesc
	Var     []string // identifier of the ServiceDesc var split on "_"
	Svc     []string // ServiceName split on "."
	Method  string
	Handler []string // handler identifier split on "_"
	Stream  bool     // listed under Streams
	CS, SS  bool
	HType   string // HandlerType interface identifier minus its Server suffix
	Meta    string // Metadata
}

type GIfaceF struct { // exported methods of the <Svc>Client / <Svc>Server interfaces
	Svc     string // interface identifier minus the Client/Server suffix
	Role    int    // 1 client, 2 server
	Method  string
	In, Out []string // Go type identifiers split on "_" (nil when the signature is not the unary shape)
}

type GCallF struct { // wiring: which FullMethodName constant a client stub / handler uses, which server method a handler calls
	Role   int // 1 client stub, 2 server handler
	Func   []string
	Const  []string
	Method string // server method called by the handler ("" for client stubs)
	Req    []string
}

// GoBind is everything extracted from api.pb.go and api_grpc.pb.go with go/ast.
type GoBind struct {
	Err     string
	Structs []StructF
	Tags    []TagF
	Oneofs  []GoOneofF
	Consts  []ConstF
	GConsts []GConstF
	GDescs  []GDescF
	GIfaces []GIfaceF
	GCalls  []GCallF
}

type SysF struct {
	Name   string   // resolve constant
	Value  int      // its value (go/types constant folding in util/resolve's own module context)
	Src    []string // identifier of the api constant it is converted from, split on "_" (nil if not of that form)
	SrcPkg string   // import path of that constant's package
}

type Systems struct {
	Err    string
	Consts []SysF
}

func cmpStrs(a, b []string) int {
	for i := 0; i < len(a) && i < len(b); i++ {
		if a[i] != b[i] {
			if a[i] < b[i] {
				return -1
			}
			return 1
		}
	}
	return len(a) - len(b)
}

// lessKey compares mixed keys ([]string, string, int) lexicographically.
func lessKey(a, b []any) bool {
	for i := range a {
		switch x := a[i].(type) {
		case []string:
			if c := cmpStrs(x, b[i].([]string)); c != 0 {
				return c < 0
			}
		case string:
			if y := b[i].(string); x != y {
				return x < y
			}
		case int:
			if y := b[i].(int); x != y {
				return x < y
			}
		case bool:
			if y := b[i].(bool); x != y {
				return !x
			}
		default:
			panic(fmt.Sprintf("lessKey: %T", x))
		}
	}
	return false
}

func sortBy[T any](s []T, key func(T) []any) {
	sort.SliceStable(s, func(i, j int) bool { return lessKey(key(s[i]), key(s[j])) })
}

// sort puts every table in key order: owner name (component by component,
// bytewise, a proper prefix first), then member name, then number. Interned ids
// are assigned in bytewise string order, so the Lean tables are sorted by id the
// same way (Desc.wellFormed checks that they are strictly sorted).
func (d *Desc) sort() {
	sortBy(d.Msgs, func(x MsgF) []any { return []any{x.Name} })
	sortBy(d.Fields, func(x FieldF) []any { return []any{x.Msg, x.Name, x.Number} })
	sortBy(d.Oneofs, func(x OneofF) []any { return []any{x.Msg, x.Name} })
	sortBy(d.Enums, func(x EnumF) []any { return []any{x.Name} })
	sortBy(d.Values, func(x ValueF) []any { return []any{x.Enum, x.Name, x.Number} })
	sortBy(d.Svcs, func(x SvcF) []any { return []any{x.Name} })
	sortBy(d.Methods, func(x MethodF) []any { return []any{x.Svc, x.Name} })
	sortBy(d.Https, func(x HttpF) []any { return []any{x.Svc, x.Method, x.Idx} })
	sort.Strings(d.File.Deps)
}

// normalise maps spellings that protobuf defines to mean the same onto one
// representative, for every source alike: in proto3 a repeated field of a
// packable type is packed unless the option says false, so an explicit
// `[packed = true]` is the same fact as no option at all.
func (d *Desc) normalise() {
	if d.File.Syntax != 3 {
		return
	}
	for i := range d.Fields {
		f := &d.Fields[i]
		packable := !(f.Type == 9 || f.Type == 10 || f.Type == 11 || f.Type == 12)
		if f.Label == 3 && packable && f.Packed == 2 {
			f.Packed = 0
		}
	}
}

func (g *GoBind) sort() {
	sortBy(g.Structs, func(x StructF) []any { return []any{x.Ident} })
	sortBy(g.Tags, func(x TagF) []any { return []any{x.Struct, x.Name, x.Number} })
	sortBy(g.Oneofs, func(x GoOneofF) []any { return []any{x.Struct, x.Name} })
	sortBy(g.Consts, func(x ConstF) []any { return []any{x.Type, x.Ident} })
	sortBy(g.GConsts, func(x GConstF) []any { return []any{x.Svc, x.Method, x.Ident} })
	sortBy(g.GDescs, func(x GDescF) []any { return []any{x.Svc, x.Method} })
	sortBy(g.GIfaces, func(x GIfaceF) []any { return []any{x.Svc, x.Role, x.Method} })
	sortBy(g.GCalls, func(x GCallF) []any { return []any{x.Role, x.Func} })
}

func splitDot(s string) []string {
	s = strings.TrimPrefix(s, ".")
	if s == "" {
		return nil
	}
	return strings.Split(s, ".")
}

func splitU(s string) []string { return strings.Split(s, "_") }
