package main

// Source (a): the raw file descriptor embedded in api/<ver>/api.pb.go. The
// literal is taken from the Go SOURCE (go/parser + go/constant), never from the
// compiled package: api/v3 and api/v3alpha both register "api.proto" and cannot
// be linked into one binary.

import (
	"fmt"
	"go/ast"
	"go/constant"
	"go/parser"
	"go/token"
	"path/filepath"
	"sort"
	"strings"

	"google.golang.org/genproto/googleapis/api/annotations"
	"google.golang.org/protobuf/proto"
	"google.golang.org/protobuf/types/descriptorpb"
)

// evalBytes evaluates a constant expression denoting a byte string:
// []byte{0x0a, 'x', ...}, "..." + "...", []byte("..."), string(...), (...).
func evalBytes(e ast.Expr) ([]byte, error) {
	switch x := e.(type) {
	case *ast.ParenExpr:
		return evalBytes(x.X)
	case *ast.BasicLit:
		v := constant.MakeFromLiteral(x.Value, x.Kind, 0)
		if v.Kind() != constant.String {
			return nil, fmt.Errorf("literal %s is not a string", x.Value)
		}
		return []byte(constant.StringVal(v)), nil
	case *ast.BinaryExpr:
		if x.Op != token.ADD {
			return nil, fmt.Errorf("operator %s", x.Op)
		}
		a, err := evalBytes(x.X)
		if err != nil {
			return nil, err
		}
		b, err := evalBytes(x.Y)
		if err != nil {
			return nil, err
		}
		return append(a, b...), nil
	case *ast.CallExpr:
		if len(x.Args) == 1 {
			return evalBytes(x.Args[0])
		}
	case *ast.CompositeLit:
		at, ok := x.Type.(*ast.ArrayType)
		if !ok || at.Len != nil {
			return nil, fmt.Errorf("composite literal is not a slice")
		}
		if id, ok := at.Elt.(*ast.Ident); !ok || (id.Name != "byte" && id.Name != "uint8") {
			return nil, fmt.Errorf("composite literal is not a []byte")
		}
		out := make([]byte, 0, len(x.Elts))
		for _, el := range x.Elts {
			bl, ok := ast.Unparen(el).(*ast.BasicLit)
			if !ok || (bl.Kind != token.INT && bl.Kind != token.CHAR) {
				return nil, fmt.Errorf("non-literal element in []byte literal")
			}
			v := constant.ToInt(constant.MakeFromLiteral(bl.Value, bl.Kind, 0))
			n, ok := constant.Uint64Val(v)
			if !ok || n > 255 {
				return nil, fmt.Errorf("element %s is not a byte", bl.Value)
			}
			out = append(out, byte(n))
		}
		return out, nil
	}
	return nil, fmt.Errorf("unsupported expression %T", e)
}

// rawDescOf returns the bytes of the raw file descriptor that file registers.
// The variable is found by its role, not its name: it is the package-level
// variable or constant mentioned in the `RawDescriptor:` element of the
// protoimpl.DescBuilder literal (directly, or inside unsafe.Slice(unsafe.StringData(x), len(x))
// as newer protoc-gen-go versions write it). Only if no such element exists is
// the conventional name `file_api_proto_rawDesc` looked up.
func rawDescOf(file string) ([]byte, error) {
	fset := token.NewFileSet()
	f, err := parser.ParseFile(fset, file, nil, parser.SkipObjectResolution)
	if err != nil {
		return nil, err
	}
	decls := map[string]ast.Expr{}
	for _, d := range f.Decls {
		gd, ok := d.(*ast.GenDecl)
		if !ok || (gd.Tok != token.VAR && gd.Tok != token.CONST) {
			continue
		}
		for _, s := range gd.Specs {
			vs := s.(*ast.ValueSpec)
			for i, n := range vs.Names {
				if i < len(vs.Values) {
					decls[n.Name] = vs.Values[i]
				}
			}
		}
	}
	var cands []string
	seen := map[string]bool{}
	ast.Inspect(f, func(n ast.Node) bool {
		kv, ok := n.(*ast.KeyValueExpr)
		if !ok {
			return true
		}
		if k, ok := kv.Key.(*ast.Ident); !ok || k.Name != "RawDescriptor" {
			return true
		}
		ast.Inspect(kv.Value, func(m ast.Node) bool {
			if id, ok := m.(*ast.Ident); ok && decls[id.Name] != nil && !seen[id.Name] {
				seen[id.Name] = true
				cands = append(cands, id.Name)
			}
			return true
		})
		return true
	})
	var firstErr error
	for _, c := range cands {
		b, err := evalBytes(decls[c])
		if err == nil && len(b) > 0 {
			return b, nil
		}
		if firstErr == nil && err != nil {
			firstErr = fmt.Errorf("%s: %s: %v", file, c, err)
		}
	}
	if firstErr != nil {
		return nil, firstErr
	}
	if e := decls["file_api_proto_rawDesc"]; e != nil {
		return evalBytes(e)
	}
	return nil, fmt.Errorf("%s: no RawDescriptor registration and no file_api_proto_rawDesc", file)
}

func descFromPbgo(repo, ver string) *Desc {
	raw, err := rawDescOf(filepath.Join(repo, "api", ver, "api.pb.go"))
	if err != nil {
		return &Desc{Err: err.Error()}
	}
	var fd descriptorpb.FileDescriptorProto
	if err := proto.Unmarshal(raw, &fd); err != nil {
		return &Desc{Err: "unmarshal: " + err.Error()}
	}
	d, err := descFromProto(&fd)
	if err != nil {
		return &Desc{Err: err.Error()}
	}
	return d
}

func syntaxCode(s string) int {
	switch s {
	case "proto3":
		return 3
	case "proto2", "":
		return 2
	}
	return 0
}

// descFromProto flattens a FileDescriptorProto into fact tables. Anything the
// tables cannot express (extensions, groups' extra data, uninterpreted options,
// unknown fields in options other than google.api.http) is an error, so that
// the comparison never silently ignores part of a descriptor.
func descFromProto(fd *descriptorpb.FileDescriptorProto) (*Desc, error) {
	d := &Desc{}
	d.File.Name = fd.GetName()
	d.File.Syntax = syntaxCode(fd.GetSyntax())
	d.File.Pkg = splitDot(fd.GetPackage())
	d.File.GoPkg = strings.Split(fd.GetOptions().GetGoPackage(), "/")
	d.File.Deps = append([]string(nil), fd.Dependency...)
	if len(fd.Extension) > 0 {
		return nil, fmt.Errorf("file-level extensions are not supported")
	}
	if len(fd.PublicDependency)+len(fd.WeakDependency) > 0 {
		return nil, fmt.Errorf("public/weak imports are not supported")
	}
	if o := fd.GetOptions(); o != nil {
		c := proto.Clone(o).(*descriptorpb.FileOptions)
		c.GoPackage = nil
		if !proto.Equal(c, &descriptorpb.FileOptions{}) || len(c.ProtoReflect().GetUnknown()) > 0 {
			return nil, fmt.Errorf("file options other than go_package are not supported: %v", c)
		}
	}
	var err error
	fail := func(f string, a ...any) {
		if err == nil {
			err = fmt.Errorf(f, a...)
		}
	}
	enum := func(scope []string, e *descriptorpb.EnumDescriptorProto) {
		name := append(append([]string(nil), scope...), e.GetName())
		d.Enums = append(d.Enums, EnumF{name})
		if e.Options != nil || len(e.ReservedRange)+len(e.ReservedName) > 0 {
			// reserved ranges/names do not affect the wire format of existing values;
			// options (allow_alias, deprecated) would.
			if e.Options != nil {
				fail("enum %v: options are not supported", name)
			}
		}
		for _, v := range e.Value {
			if v.Options != nil {
				fail("enum value %v.%s: options are not supported", name, v.GetName())
			}
			d.Values = append(d.Values, ValueF{name, v.GetName(), int(v.GetNumber())})
		}
	}
	var msg func(scope []string, m *descriptorpb.DescriptorProto)
	msg = func(scope []string, m *descriptorpb.DescriptorProto) {
		name := append(append([]string(nil), scope...), m.GetName())
		mo := m.GetOptions()
		if mo != nil {
			c := proto.Clone(mo).(*descriptorpb.MessageOptions)
			c.MapEntry = nil
			if !proto.Equal(c, &descriptorpb.MessageOptions{}) || len(c.ProtoReflect().GetUnknown()) > 0 {
				fail("message %v: options other than map_entry are not supported", name)
			}
		}
		if len(m.Extension)+len(m.ExtensionRange) > 0 {
			fail("message %v: extensions are not supported", name)
		}
		d.Msgs = append(d.Msgs, MsgF{name, mo.GetMapEntry()})
		for i, o := range m.OneofDecl {
			if o.Options != nil {
				fail("oneof %v.%s: options are not supported", name, o.GetName())
			}
			d.Oneofs = append(d.Oneofs, OneofF{name, o.GetName(), i})
		}
		for _, f := range m.Field {
			ff := FieldF{Msg: name, Name: f.GetName(), Number: int(f.GetNumber()), Label: int(f.GetLabel()),
				Type: int(f.GetType()), JSON: f.GetJsonName(), P3Opt: f.GetProto3Optional()}
			if ff.Number < 0 {
				fail("field %v.%s: negative field number", name, f.GetName())
			}
			if f.TypeName != nil {
				ff.TypeName = splitDot(f.GetTypeName())
			}
			if f.OneofIndex != nil {
				i := int(f.GetOneofIndex())
				if i < 0 || i >= len(m.OneofDecl) {
					fail("field %v.%s: oneof index out of range", name, f.GetName())
				} else {
					ff.Oneof = m.OneofDecl[i].GetName()
				}
			}
			if f.Extendee != nil || f.DefaultValue != nil {
				fail("field %v.%s: extendee/default are not supported", name, f.GetName())
			}
			if o := f.GetOptions(); o != nil {
				c := proto.Clone(o).(*descriptorpb.FieldOptions)
				if c.Packed != nil {
					ff.Packed = 1
					if c.GetPacked() {
						ff.Packed = 2
					}
				}
				ff.Deprecated = c.GetDeprecated()
				c.Packed, c.Deprecated = nil, nil
				if !proto.Equal(c, &descriptorpb.FieldOptions{}) || len(c.ProtoReflect().GetUnknown()) > 0 {
					fail("field %v.%s: options other than packed/deprecated are not supported", name, f.GetName())
				}
			}
			d.Fields = append(d.Fields, ff)
		}
		for _, e := range m.EnumType {
			enum(name, e)
		}
		for _, n := range m.NestedType {
			msg(name, n)
		}
	}
	for _, m := range fd.MessageType {
		msg(d.File.Pkg, m)
	}
	for _, e := range fd.EnumType {
		enum(d.File.Pkg, e)
	}
	for _, s := range fd.Service {
		name := append(append([]string(nil), d.File.Pkg...), s.GetName())
		if s.Options != nil {
			fail("service %v: options are not supported", name)
		}
		d.Svcs = append(d.Svcs, SvcF{name})
		for _, m := range s.Method {
			d.Methods = append(d.Methods, MethodF{name, m.GetName(), splitDot(m.GetInputType()), splitDot(m.GetOutputType()),
				m.GetClientStreaming(), m.GetServerStreaming()})
			o := m.GetOptions()
			if o == nil {
				continue
			}
			c := proto.Clone(o).(*descriptorpb.MethodOptions)
			var rule *annotations.HttpRule
			if proto.HasExtension(c, annotations.E_Http) {
				rule, _ = proto.GetExtension(c, annotations.E_Http).(*annotations.HttpRule)
				proto.ClearExtension(c, annotations.E_Http)
			}
			if !proto.Equal(c, &descriptorpb.MethodOptions{}) || len(c.ProtoReflect().GetUnknown()) > 0 {
				fail("method %v.%s: options other than google.api.http are not supported", name, m.GetName())
			}
			if rule == nil {
				continue
			}
			rules := append([]*annotations.HttpRule{rule}, rule.AdditionalBindings...)
			for i, r := range rules {
				if i > 0 && len(r.AdditionalBindings) > 0 {
					fail("method %v.%s: nested additional_bindings", name, m.GetName())
				}
				if r.GetSelector() != "" || len(r.ProtoReflect().GetUnknown()) > 0 {
					fail("method %v.%s: http selector/unknown fields are not supported", name, m.GetName())
				}
				h := HttpF{Svc: name, Method: m.GetName(), Idx: i, Body: r.GetBody(), RespBody: r.GetResponseBody()}
				var path string
				switch p := r.Pattern.(type) {
				case *annotations.HttpRule_Get:
					h.Verb, path = 2, p.Get
				case *annotations.HttpRule_Put:
					h.Verb, path = 3, p.Put
				case *annotations.HttpRule_Post:
					h.Verb, path = 4, p.Post
				case *annotations.HttpRule_Delete:
					h.Verb, path = 5, p.Delete
				case *annotations.HttpRule_Patch:
					h.Verb, path = 6, p.Patch
				case *annotations.HttpRule_Custom:
					h.Verb, path, h.Custom = 8, p.Custom.GetPath(), p.Custom.GetKind()
				default:
					fail("method %v.%s: http rule without pattern", name, m.GetName())
				}
				h.Path = strings.Split(path, "/")
				d.Https = append(d.Https, h)
			}
		}
	}
	if err != nil {
		return nil, err
	}
	sort.Strings(d.File.Deps)
	d.normalise()
	d.sort()
	return d, nil
}
