package main

// Source (d): a parser for the proto3 subset used by api/*/api.proto, producing
// the same fact tables as the embedded descriptor. It follows protoc where the
// result is observable in a descriptor: relative type-name resolution
// (innermost scope first, aggregates only for dotted names), json_name
// derivation, synthetic oneofs of proto3 `optional`, map entry messages.
// Anything outside the subset is an error (never silently skipped).

import (
	"fmt"
	"os"
	"path/filepath"
	"strconv"
	"strings"
)

type tok struct {
	kind byte // 'i' identifier (may contain dots), 'n' integer, 's' string, 'p' punctuation, 'f' float, 0 EOF
	s    string
	line int
}

func lexProto(src string) ([]tok, error) {
	var out []tok
	line := 1
	i := 0
	isIdStart := func(c byte) bool { return c == '_' || c >= 'a' && c <= 'z' || c >= 'A' && c <= 'Z' }
	isDigit := func(c byte) bool { return c >= '0' && c <= '9' }
	for i < len(src) {
		c := src[i]
		switch {
		case c == '\n':
			line++
			i++
		case c == ' ' || c == '\t' || c == '\r' || c == '\f' || c == '\v':
			i++
		case c == '/' && i+1 < len(src) && src[i+1] == '/':
			for i < len(src) && src[i] != '\n' {
				i++
			}
		case c == '/' && i+1 < len(src) && src[i+1] == '*':
			j := strings.Index(src[i+2:], "*/")
			if j < 0 {
				return nil, fmt.Errorf("line %d: unterminated comment", line)
			}
			line += strings.Count(src[i:i+2+j+2], "\n")
			i += 2 + j + 2
		case isIdStart(c) || c == '.' && i+1 < len(src) && isIdStart(src[i+1]):
			j := i + 1
			for j < len(src) && (isIdStart(src[j]) || isDigit(src[j]) || src[j] == '.') {
				j++
			}
			out = append(out, tok{'i', src[i:j], line})
			i = j
		case isDigit(c):
			j := i
			for j < len(src) && (isDigit(src[j]) || isIdStart(src[j]) || src[j] == '.') {
				j++
			}
			s := src[i:j]
			if _, err := strconv.ParseInt(s, 0, 64); err == nil {
				out = append(out, tok{'n', s, line})
			} else if _, err := strconv.ParseFloat(s, 64); err == nil {
				out = append(out, tok{'f', s, line})
			} else {
				return nil, fmt.Errorf("line %d: bad number %q", line, s)
			}
			i = j
		case c == '"' || c == '\'':
			j := i + 1
			var b strings.Builder
			for {
				if j >= len(src) || src[j] == '\n' {
					return nil, fmt.Errorf("line %d: unterminated string", line)
				}
				if src[j] == c {
					break
				}
				if src[j] == '\\' {
					j++
					if j >= len(src) {
						return nil, fmt.Errorf("line %d: unterminated string", line)
					}
					switch e := src[j]; e {
					case 'n':
						b.WriteByte('\n')
					case 't':
						b.WriteByte('\t')
					case 'r':
						b.WriteByte('\r')
					case 'a':
						b.WriteByte('\a')
					case 'b':
						b.WriteByte('\b')
					case 'f':
						b.WriteByte('\f')
					case 'v':
						b.WriteByte('\v')
					case '\\', '\'', '"', '?':
						b.WriteByte(e)
					case 'x', 'X':
						k := j + 1
						for k < len(src) && k < j+3 && strings.IndexByte("0123456789abcdefABCDEF", src[k]) >= 0 {
							k++
						}
						v, err := strconv.ParseUint(src[j+1:k], 16, 8)
						if err != nil {
							return nil, fmt.Errorf("line %d: bad \\x escape", line)
						}
						b.WriteByte(byte(v))
						j = k - 1
					case '0', '1', '2', '3', '4', '5', '6', '7':
						k := j
						for k < len(src) && k < j+3 && src[k] >= '0' && src[k] <= '7' {
							k++
						}
						v, err := strconv.ParseUint(src[j:k], 8, 8)
						if err != nil {
							return nil, fmt.Errorf("line %d: bad octal escape", line)
						}
						b.WriteByte(byte(v))
						j = k - 1
					default:
						return nil, fmt.Errorf("line %d: unsupported escape \\%c", line, e)
					}
					j++
					continue
				}
				b.WriteByte(src[j])
				j++
			}
			out = append(out, tok{'s', b.String(), line})
			i = j + 1
		case strings.IndexByte("{}()[]<>=;,:-+", c) >= 0:
			out = append(out, tok{'p', string(c), line})
			i++
		default:
			return nil, fmt.Errorf("line %d: unexpected character %q", line, c)
		}
	}
	out = append(out, tok{0, "", line})
	return out, nil
}

// ---- AST

type pField struct {
	label, typ, name string
	number           int
	oneof            string
	p3opt            bool
	jsonName         string
	packed           int
	deprecated       bool
	mapKey, mapVal   string // for map<K,V>
	line             int
}

type pMsg struct {
	name   string
	fields []*pField
	oneofs []string
	msgs   []*pMsg
	enums  []*pEnum
}

type pEnum struct {
	name   string
	values []ValueF
}

type pRule struct {
	verb                   int
	custom, path, body, rb string
	additional             []*pRule
}

type pMethod struct {
	name, in, out string
	cs, ss        bool
	http          *pRule
}

type pSvc struct {
	name    string
	methods []*pMethod
}

type pFile struct {
	syntax, pkg, goPkg string
	deps               []string
	msgs               []*pMsg
	enums              []*pEnum
	svcs               []*pSvc
}

type pparser struct {
	t []tok
	i int
}

type perr struct{ msg string }

func (p *pparser) fail(f string, a ...any) {
	panic(perr{fmt.Sprintf("line %d: ", p.t[p.i].line) + fmt.Sprintf(f, a...)})
}
func (p *pparser) peek() tok { return p.t[p.i] }
func (p *pparser) next() tok {
	t := p.t[p.i]
	if t.kind != 0 {
		p.i++
	}
	return t
}
func (p *pparser) isP(s string) bool { t := p.peek(); return t.kind == 'p' && t.s == s }
func (p *pparser) isI(s string) bool { t := p.peek(); return t.kind == 'i' && t.s == s }
func (p *pparser) accept(s string) bool {
	if p.isP(s) {
		p.i++
		return true
	}
	return false
}
func (p *pparser) expect(s string) {
	if !p.accept(s) {
		p.fail("expected %q, found %q", s, p.peek().s)
	}
}
func (p *pparser) ident() string {
	t := p.next()
	if t.kind != 'i' {
		p.i--
		p.fail("expected identifier, found %q", t.s)
	}
	return t.s
}
func (p *pparser) simpleIdent() string {
	s := p.ident()
	if strings.Contains(s, ".") {
		p.fail("expected simple identifier, found %q", s)
	}
	return s
}
func (p *pparser) str() string {
	t := p.next()
	if t.kind != 's' {
		p.i--
		p.fail("expected string, found %q", t.s)
	}
	s := t.s
	for p.peek().kind == 's' { // adjacent literals concatenate
		s += p.next().s
	}
	return s
}
func (p *pparser) integer() int {
	neg := false
	if p.accept("-") {
		neg = true
	} else {
		p.accept("+")
	}
	t := p.next()
	if t.kind != 'n' {
		p.i--
		p.fail("expected integer, found %q", t.s)
	}
	v, err := strconv.ParseInt(t.s, 0, 64)
	if err != nil {
		p.fail("bad integer %q", t.s)
	}
	if neg {
		v = -v
	}
	if v < -(1<<31) || v > 1<<31-1 {
		p.fail("integer %d out of int32 range", v)
	}
	return int(v)
}

// optionName parses `name`, `(full.name)`, `(full.name).sub`.
func (p *pparser) optionName() string {
	if p.accept("(") {
		n := p.ident()
		p.expect(")")
		n = "(" + strings.TrimPrefix(n, ".") + ")"
		if t := p.peek(); t.kind == 'i' && strings.HasPrefix(t.s, ".") {
			n += p.next().s
		}
		return n
	}
	return p.ident()
}

func (p *pparser) boolConst(what string) bool {
	switch v := p.ident(); v {
	case "true":
		return true
	case "false":
		return false
	default:
		p.fail("%s: expected true or false, found %q", what, v)
	}
	return false
}

// httpRule parses the text-format message literal of `option (google.api.http)`.
func (p *pparser) httpRule(depth int) *pRule {
	p.expect("{")
	r := &pRule{}
	set := func(verb int, path string) {
		if r.verb != 0 {
			p.fail("http rule with two patterns")
		}
		r.verb, r.path = verb, path
	}
	for !p.accept("}") {
		name := p.simpleIdent()
		switch name {
		case "get", "put", "post", "delete", "patch", "body", "response_body":
			p.expect(":")
			v := p.str()
			switch name {
			case "get":
				set(2, v)
			case "put":
				set(3, v)
			case "post":
				set(4, v)
			case "delete":
				set(5, v)
			case "patch":
				set(6, v)
			case "body":
				r.body = v
			case "response_body":
				r.rb = v
			}
		case "custom":
			p.accept(":")
			p.expect("{")
			var kind, path string
			for !p.accept("}") {
				switch k := p.simpleIdent(); k {
				case "kind":
					p.expect(":")
					kind = p.str()
				case "path":
					p.expect(":")
					path = p.str()
				default:
					p.fail("unknown field %q in custom pattern", k)
				}
				if !p.accept(",") {
					p.accept(";")
				}
			}
			set(8, path)
			r.custom = kind
		case "additional_bindings":
			if depth > 0 {
				p.fail("nested additional_bindings")
			}
			p.accept(":")
			r.additional = append(r.additional, p.httpRule(depth+1))
		default:
			p.fail("unsupported field %q in google.api.http", name)
		}
		if !p.accept(",") {
			p.accept(";")
		}
	}
	if r.verb == 0 {
		p.fail("http rule without pattern")
	}
	return r
}

func (p *pparser) reserved() {
	for !p.accept(";") {
		if p.peek().kind == 0 {
			p.fail("unterminated reserved statement")
		}
		p.next()
	}
}

func (p *pparser) fieldOptions(f *pField) {
	if !p.accept("[") {
		return
	}
	for {
		name := p.optionName()
		p.expect("=")
		switch name {
		case "json_name":
			f.jsonName = p.str()
		case "packed":
			f.packed = 1
			if p.boolConst("packed") {
				f.packed = 2
			}
		case "deprecated":
			f.deprecated = p.boolConst("deprecated")
		default:
			p.fail("unsupported field option %q", name)
		}
		if !p.accept(",") {
			break
		}
	}
	p.expect("]")
}

func (p *pparser) field(oneof string) *pField {
	f := &pField{oneof: oneof, line: p.peek().line}
	if t := p.peek(); oneof == "" && t.kind == 'i' && (t.s == "optional" || t.s == "repeated" || t.s == "required") {
		// a label only if two more identifiers follow (`string optional = 6;` is a field named optional)
		if p.t[p.i+1].kind == 'i' && (p.t[p.i+2].kind == 'i' || p.t[p.i+1].s == "map" && p.t[p.i+2].s == "<") {
			f.label = p.next().s
		}
	}
	if p.isI("map") && p.t[p.i+1].kind == 'p' && p.t[p.i+1].s == "<" {
		if f.label != "" || oneof != "" {
			p.fail("map fields cannot have a label or be in a oneof")
		}
		p.next()
		p.expect("<")
		f.mapKey = p.ident()
		p.expect(",")
		f.mapVal = p.ident()
		p.expect(">")
	} else {
		f.typ = p.ident()
		if f.typ == "group" {
			p.fail("groups are not supported")
		}
	}
	f.name = p.simpleIdent()
	p.expect("=")
	f.number = p.integer()
	p.fieldOptions(f)
	p.expect(";")
	return f
}

func (p *pparser) enum() *pEnum {
	e := &pEnum{name: p.simpleIdent()}
	p.expect("{")
	for !p.accept("}") {
		switch {
		case p.accept(";"):
		case p.isI("option"):
			p.fail("enum options are not supported")
		case p.isI("reserved"):
			p.next()
			p.reserved()
		default:
			name := p.simpleIdent()
			p.expect("=")
			n := p.integer()
			if p.isP("[") {
				p.fail("enum value options are not supported")
			}
			p.expect(";")
			e.values = append(e.values, ValueF{Name: name, Number: n})
		}
	}
	return e
}

func (p *pparser) message() *pMsg {
	m := &pMsg{name: p.simpleIdent()}
	p.expect("{")
	for !p.accept("}") {
		t := p.peek()
		// keywords are only keywords when not used as a type/field name: look one token ahead
		nextIsName := p.t[p.i+1].kind == 'i'
		switch {
		case p.accept(";"):
		case t.kind == 'i' && t.s == "message" && nextIsName && p.t[p.i+2].s == "{":
			p.next()
			m.msgs = append(m.msgs, p.message())
		case t.kind == 'i' && t.s == "enum" && nextIsName && p.t[p.i+2].s == "{":
			p.next()
			m.enums = append(m.enums, p.enum())
		case t.kind == 'i' && t.s == "oneof" && nextIsName && p.t[p.i+2].s == "{":
			p.next()
			name := p.simpleIdent()
			m.oneofs = append(m.oneofs, name)
			p.expect("{")
			for !p.accept("}") {
				if p.accept(";") {
					continue
				}
				if p.isI("option") {
					p.fail("oneof options are not supported")
				}
				m.fields = append(m.fields, p.field(name))
			}
		case t.kind == 'i' && t.s == "option" && (nextIsName || p.t[p.i+1].s == "("):
			p.fail("message options are not supported")
		case t.kind == 'i' && t.s == "reserved" && !nextIsName:
			p.next()
			p.reserved()
		case t.kind == 'i' && (t.s == "extensions" || t.s == "extend") && p.t[p.i+2].s != "=":
			p.fail("extensions are not supported")
		default:
			m.fields = append(m.fields, p.field(""))
		}
	}
	return m
}

func (p *pparser) service() *pSvc {
	s := &pSvc{name: p.simpleIdent()}
	p.expect("{")
	for !p.accept("}") {
		switch {
		case p.accept(";"):
		case p.isI("option"):
			p.fail("service options are not supported")
		case p.isI("rpc"):
			p.next()
			m := &pMethod{name: p.simpleIdent()}
			p.expect("(")
			if p.isI("stream") && p.t[p.i+1].kind == 'i' {
				p.next()
				m.cs = true
			}
			m.in = p.ident()
			p.expect(")")
			if r := p.ident(); r != "returns" {
				p.fail("expected returns, found %q", r)
			}
			p.expect("(")
			if p.isI("stream") && p.t[p.i+1].kind == 'i' {
				p.next()
				m.ss = true
			}
			m.out = p.ident()
			p.expect(")")
			if !p.accept(";") {
				p.expect("{")
				for !p.accept("}") {
					if p.accept(";") {
						continue
					}
					if o := p.ident(); o != "option" {
						p.fail("expected option, found %q", o)
					}
					name := p.optionName()
					p.expect("=")
					if name != "(google.api.http)" {
						p.fail("unsupported method option %q", name)
					}
					if m.http != nil {
						p.fail("duplicate google.api.http option")
					}
					m.http = p.httpRule(0)
					p.expect(";")
				}
			}
			s.methods = append(s.methods, m)
		default:
			p.fail("unexpected %q in service", p.peek().s)
		}
	}
	return s
}

func parseProto(src string) (f *pFile, err error) {
	toks, err := lexProto(src)
	if err != nil {
		return nil, err
	}
	p := &pparser{t: append(toks, tok{}, tok{}, tok{})}
	defer func() {
		if r := recover(); r != nil {
			if pe, ok := r.(perr); ok {
				f, err = nil, fmt.Errorf("%s", pe.msg)
				return
			}
			panic(r)
		}
	}()
	f = &pFile{syntax: "proto2"}
	first := true
	for p.peek().kind != 0 {
		switch {
		case p.accept(";"):
		case p.isI("syntax"):
			if !first {
				p.fail("syntax must come first")
			}
			p.next()
			p.expect("=")
			f.syntax = p.str()
			p.expect(";")
		case p.isI("edition"):
			p.fail("editions are not supported")
		case p.isI("package"):
			p.next()
			if f.pkg != "" {
				p.fail("duplicate package")
			}
			f.pkg = p.ident()
			p.expect(";")
		case p.isI("import"):
			p.next()
			if p.isI("public") || p.isI("weak") {
				p.fail("public/weak imports are not supported")
			}
			f.deps = append(f.deps, p.str())
			p.expect(";")
		case p.isI("option"):
			p.next()
			name := p.optionName()
			p.expect("=")
			if name != "go_package" {
				p.fail("unsupported file option %q", name)
			}
			f.goPkg = p.str()
			p.expect(";")
		case p.isI("message"):
			p.next()
			f.msgs = append(f.msgs, p.message())
		case p.isI("enum"):
			p.next()
			f.enums = append(f.enums, p.enum())
		case p.isI("service"):
			p.next()
			f.svcs = append(f.svcs, p.service())
		default:
			p.fail("unexpected %q at top level", p.peek().s)
		}
		first = false
	}
	return f, nil
}

// ---- from AST to facts

var scalarTypes = map[string]int{
	"double": 1, "float": 2, "int64": 3, "uint64": 4, "int32": 5, "fixed64": 6, "fixed32": 7, "bool": 8,
	"string": 9, "bytes": 12, "uint32": 13, "sfixed32": 15, "sfixed64": 16, "sint32": 17, "sint64": 18,
}

// Types declared by the imports the subset knows ('m' message, 'e' enum).
var importedTypes = map[string]map[string]byte{
	"google/api/annotations.proto":     {},
	"google/protobuf/timestamp.proto":  {"google.protobuf.Timestamp": 'm'},
	"google/protobuf/duration.proto":   {"google.protobuf.Duration": 'm'},
	"google/protobuf/empty.proto":      {"google.protobuf.Empty": 'm'},
	"google/protobuf/any.proto":        {"google.protobuf.Any": 'm'},
	"google/protobuf/field_mask.proto": {"google.protobuf.FieldMask": 'm'},
	"google/protobuf/struct.proto": {"google.protobuf.Struct": 'm', "google.protobuf.Value": 'm',
		"google.protobuf.ListValue": 'm', "google.protobuf.NullValue": 'e'},
	"google/protobuf/wrappers.proto": {"google.protobuf.DoubleValue": 'm', "google.protobuf.FloatValue": 'm',
		"google.protobuf.Int64Value": 'm', "google.protobuf.UInt64Value": 'm', "google.protobuf.Int32Value": 'm',
		"google.protobuf.UInt32Value": 'm', "google.protobuf.BoolValue": 'm', "google.protobuf.StringValue": 'm',
		"google.protobuf.BytesValue": 'm'},
}

var importedPackages = map[string]string{
	"google/api/annotations.proto": "google.api",
}

// jsonName is protoc's ToJsonName: drop underscores, upper-case the letter after one.
func jsonName(s string) string {
	var b strings.Builder
	up := false
	for i := 0; i < len(s); i++ {
		c := s[i]
		if c == '_' {
			up = true
			continue
		}
		if up && c >= 'a' && c <= 'z' {
			c -= 'a' - 'A'
		}
		up = false
		b.WriteByte(c)
	}
	return b.String()
}

// mapEntryName is protoc's ToCamelCase(name) + "Entry".
func mapEntryName(s string) string {
	var b strings.Builder
	up := true
	for i := 0; i < len(s); i++ {
		c := s[i]
		if c == '_' {
			up = true
			continue
		}
		if up && c >= 'a' && c <= 'z' {
			c -= 'a' - 'A'
		}
		up = false
		b.WriteByte(c)
	}
	return b.String() + "Entry"
}

// symbol kinds: 'm' message, 'e' enum, 'p' package, 's' service, 'x' anything else
type symtab map[string]byte

func (st symtab) addPkg(pkg string) {
	c := splitDot(pkg)
	for i := 1; i <= len(c); i++ {
		k := strings.Join(c[:i], ".")
		if _, ok := st[k]; !ok {
			st[k] = 'p'
		}
	}
}

func isAggregate(k byte) bool { return k == 'm' || k == 'e' || k == 'p' || k == 's' }
func isType(k byte) bool      { return k == 'm' || k == 'e' }

// resolve implements protoc's LookupSymbol for type names (LOOKUP_TYPES).
func (st symtab) resolve(scope []string, ref string) (string, byte, error) {
	if strings.HasPrefix(ref, ".") {
		full := ref[1:]
		if k := st[full]; isType(k) {
			return full, k, nil
		}
		return "", 0, fmt.Errorf("%q is not defined", ref)
	}
	parts := strings.Split(ref, ".")
	for i := len(scope); i >= 0; i-- {
		first := strings.Join(append(append([]string(nil), scope[:i]...), parts[0]), ".")
		k, ok := st[first]
		if !ok {
			continue
		}
		if len(parts) > 1 {
			if !isAggregate(k) {
				continue
			}
			full := strings.Join(append(append([]string(nil), scope[:i]...), parts...), ".")
			if k2 := st[full]; isType(k2) {
				return full, k2, nil
			}
			return "", 0, fmt.Errorf("%q is not defined (resolved to %q)", ref, full)
		}
		if !isType(k) {
			continue
		}
		return first, k, nil
	}
	return "", 0, fmt.Errorf("%q is not defined", ref)
}

func descFromText(repo, ver string) *Desc {
	b, err := os.ReadFile(filepath.Join(repo, "api", ver, "api.proto"))
	if err != nil {
		return &Desc{Err: err.Error()}
	}
	d, err := descFromSource(string(b))
	if err != nil {
		return &Desc{Err: err.Error()}
	}
	d.File.Name = "api.proto" // regen.sh: protoc --proto_path=. api.proto
	return d
}

func descFromSource(src string) (*Desc, error) {
	f, err := parseProto(src)
	if err != nil {
		return nil, err
	}
	d := &Desc{}
	d.File.Syntax = syntaxCode(f.syntax)
	if d.File.Syntax != 3 {
		return nil, fmt.Errorf("only proto3 is supported (syntax %q)", f.syntax)
	}
	d.File.Pkg = splitDot(f.pkg)
	d.File.GoPkg = strings.Split(f.goPkg, "/")
	d.File.Deps = append([]string(nil), f.deps...)

	st := symtab{}
	st.addPkg(f.pkg)
	for _, dep := range f.deps {
		types, ok := importedTypes[dep]
		if !ok {
			return nil, fmt.Errorf("import %q is not known to the subset parser", dep)
		}
		if p, ok := importedPackages[dep]; ok {
			st.addPkg(p)
		}
		for n, k := range types {
			c := splitDot(n)
			st.addPkg(strings.Join(c[:len(c)-1], "."))
			st[n] = k
		}
	}
	var firstErr error
	fail := func(format string, a ...any) {
		if firstErr == nil {
			firstErr = fmt.Errorf(format, a...)
		}
	}
	add := func(name string, k byte) {
		if _, dup := st[name]; dup {
			fail("%q is defined twice", name)
		}
		st[name] = k
	}
	join := func(scope []string, n string) string {
		return strings.Join(append(append([]string(nil), scope...), n), ".")
	}
	var declEnum func(scope []string, e *pEnum)
	declEnum = func(scope []string, e *pEnum) {
		add(join(scope, e.name), 'e')
		for _, v := range e.values {
			add(join(scope, v.Name), 'x') // enum values are siblings of their enum
		}
	}
	// map fields become a nested entry message, as protoc does
	var expandMaps func(m *pMsg)
	expandMaps = func(m *pMsg) {
		for _, fl := range m.fields {
			if fl.mapKey == "" {
				continue
			}
			en := mapEntryName(fl.name)
			m.msgs = append(m.msgs, &pMsg{name: en, fields: []*pField{
				{typ: fl.mapKey, name: "key", number: 1, line: fl.line},
				{typ: fl.mapVal, name: "value", number: 2, line: fl.line}}})
			fl.typ, fl.label = en, "repeated"
		}
		for _, n := range m.msgs {
			expandMaps(n)
		}
	}
	var declMsg func(scope []string, m *pMsg)
	declMsg = func(scope []string, m *pMsg) {
		add(join(scope, m.name), 'm')
		in := append(append([]string(nil), scope...), m.name)
		for _, fl := range m.fields {
			add(join(in, fl.name), 'x')
		}
		for _, o := range m.oneofs {
			add(join(in, o), 'x')
		}
		for _, e := range m.enums {
			declEnum(in, e)
		}
		for _, n := range m.msgs {
			declMsg(in, n)
		}
	}
	for _, m := range f.msgs {
		expandMaps(m)
	}
	for _, m := range f.msgs {
		declMsg(d.File.Pkg, m)
	}
	for _, e := range f.enums {
		declEnum(d.File.Pkg, e)
	}
	for _, s := range f.svcs {
		add(join(d.File.Pkg, s.name), 's')
		for _, m := range s.methods {
			add(join(append(append([]string(nil), d.File.Pkg...), s.name), m.name), 'x')
		}
	}

	emitEnum := func(scope []string, e *pEnum) {
		name := append(append([]string(nil), scope...), e.name)
		d.Enums = append(d.Enums, EnumF{name})
		if len(e.values) == 0 {
			fail("enum %v has no values", name)
		} else if e.values[0].Number != 0 {
			fail("enum %v: first value must be zero in proto3", name)
		}
		for _, v := range e.values {
			d.Values = append(d.Values, ValueF{name, v.Name, v.Number})
		}
	}
	var emitMsg func(scope []string, m *pMsg, mapEntry bool)
	emitMsg = func(scope []string, m *pMsg, mapEntry bool) {
		name := append(append([]string(nil), scope...), m.name)
		d.Msgs = append(d.Msgs, MsgF{name, mapEntry})
		oneofs := append([]string(nil), m.oneofs...)
		for _, fl := range m.fields {
			if fl.label == "optional" {
				oneofs = append(oneofs, "_"+fl.name)
			}
		}
		for i, o := range oneofs {
			d.Oneofs = append(d.Oneofs, OneofF{name, o, i})
		}
		entries := map[string]bool{}
		for _, fl := range m.fields {
			if fl.mapKey != "" {
				entries[fl.typ] = true
			}
			ff := FieldF{Msg: name, Name: fl.name, Number: fl.number, Label: 1, Oneof: fl.oneof,
				JSON: jsonName(fl.name), Packed: fl.packed, Deprecated: fl.deprecated}
			if fl.jsonName != "" {
				ff.JSON = fl.jsonName
			}
			switch fl.label {
			case "repeated":
				ff.Label = 3
			case "required":
				fail("%v.%s: required is not allowed in proto3", name, fl.name)
			case "optional":
				ff.P3Opt = true
				ff.Oneof = "_" + fl.name
			}
			if fl.number < 1 || fl.number > 536870911 || fl.number >= 19000 && fl.number <= 19999 {
				fail("%v.%s: field number %d is not valid", name, fl.name, fl.number)
			}
			if t, ok := scalarTypes[fl.typ]; ok {
				ff.Type = t
			} else {
				full, k, err := st.resolve(name, fl.typ)
				if err != nil {
					fail("%v.%s: %v", name, fl.name, err)
				} else {
					ff.TypeName = splitDot(full)
					ff.Type = 11
					if k == 'e' {
						ff.Type = 14
					}
				}
			}
			d.Fields = append(d.Fields, ff)
		}
		for _, e := range m.enums {
			emitEnum(name, e)
		}
		for _, n := range m.msgs {
			emitMsg(name, n, entries[n.name])
		}
	}
	for _, m := range f.msgs {
		emitMsg(d.File.Pkg, m, false)
	}
	for _, e := range f.enums {
		emitEnum(d.File.Pkg, e)
	}
	for _, s := range f.svcs {
		name := append(append([]string(nil), d.File.Pkg...), s.name)
		d.Svcs = append(d.Svcs, SvcF{name})
		for _, m := range s.methods {
			mf := MethodF{Svc: name, Name: m.name, CS: m.cs, SS: m.ss}
			for _, io := range []struct {
				ref string
				dst *[]string
			}{{m.in, &mf.In}, {m.out, &mf.Out}} {
				full, k, err := st.resolve(name, io.ref)
				if err != nil {
					fail("%v.%s: %v", name, m.name, err)
				} else if k != 'm' {
					fail("%v.%s: %q is not a message", name, m.name, io.ref)
				} else {
					*io.dst = splitDot(full)
				}
			}
			d.Methods = append(d.Methods, mf)
			if m.http != nil {
				for i, r := range append([]*pRule{m.http}, m.http.additional...) {
					d.Https = append(d.Https, HttpF{Svc: name, Method: m.name, Idx: i, Verb: r.verb, Custom: r.custom,
						Path: strings.Split(r.path, "/"), Body: r.body, RespBody: r.rb})
				}
			}
		}
	}
	if firstErr != nil {
		return nil, firstErr
	}
	d.normalise()
	d.sort()
	return d, nil
}
