package main

// Sources (b) and (c): the Go bindings, read with go/ast from the source text
// of api.pb.go (message structs and their protobuf tags, enum constants) and
// api_grpc.pb.go (FullMethodName constants, ServiceDesc, client/server
// interfaces, stub and handler wiring).

import (
	"fmt"
	"go/ast"
	"go/constant"
	"go/parser"
	"go/token"
	"go/types"
	"path/filepath"
	"reflect"
	"strconv"
	"strings"
)

var wireCodes = map[string]int{"varint": 1, "fixed32": 2, "fixed64": 3, "bytes": 4, "group": 5, "zigzag32": 6, "zigzag64": 7}
var labelCodes = map[string]int{"opt": 1, "req": 2, "rep": 3}
var goScalars = map[string]int{"string": 1, "bool": 2, "int32": 3, "int64": 4, "uint32": 5, "uint64": 6, "float32": 7, "float64": 8}

func parseTag(t *TagF, s string) error {
	w := strings.Split(s, ",")
	if len(w) < 3 {
		return fmt.Errorf("short protobuf tag %q", s)
	}
	var ok bool
	if t.Wire, ok = wireCodes[w[0]]; !ok {
		return fmt.Errorf("unknown wire type in tag %q", s)
	}
	n, err := strconv.Atoi(w[1])
	if err != nil || n < 0 {
		return fmt.Errorf("bad field number in tag %q", s)
	}
	t.Number = n
	if t.Label, ok = labelCodes[w[2]]; !ok {
		return fmt.Errorf("unknown label in tag %q", s)
	}
	var extra []string
	for _, o := range w[3:] {
		switch {
		case strings.HasPrefix(o, "name="):
			t.Name = o[5:]
		case strings.HasPrefix(o, "json="):
			t.JSON = o[5:]
		case strings.HasPrefix(o, "enum="):
			t.Enum = splitDot(o[5:])
		case o == "proto3":
			t.Proto3 = true
		case o == "oneof":
			t.Oneof = true
		case o == "packed":
			t.Packed = true
		default:
			extra = append(extra, o)
		}
	}
	t.BadExtra = strings.Join(extra, ",")
	return nil
}

func isByteIdent(e ast.Expr) bool {
	id, ok := ast.Unparen(e).(*ast.Ident)
	return ok && (id.Name == "byte" || id.Name == "uint8")
}

// goType records the shape of a field's Go type (parentheses are immaterial).
func goType(t *TagF, e ast.Expr) {
	e = ast.Unparen(e)
	if at, ok := e.(*ast.ArrayType); ok && at.Len == nil {
		if isByteIdent(at.Elt) {
			t.Scalar = 9
			return
		}
		t.Rep = true
		e = ast.Unparen(at.Elt)
		if at2, ok := e.(*ast.ArrayType); ok && at2.Len == nil {
			if isByteIdent(at2.Elt) {
				t.Scalar = 9
				return
			}
		}
	}
	if _, ok := e.(*ast.MapType); ok {
		t.IsMap = true
		return
	}
	if st, ok := e.(*ast.StarExpr); ok {
		t.Ptr = true
		e = ast.Unparen(st.X)
	}
	switch x := e.(type) {
	case *ast.Ident:
		if c, ok := goScalars[x.Name]; ok {
			t.Scalar = c
		} else {
			t.Ident = splitU(x.Name)
		}
	case *ast.SelectorExpr:
		t.Qual = true
		t.Ident = splitU(x.Sel.Name)
	default:
		t.Ident = []string{fmt.Sprintf("?%T", e)}
	}
}

func recvName(fd *ast.FuncDecl) string {
	if fd.Recv == nil || len(fd.Recv.List) != 1 {
		return ""
	}
	e := ast.Unparen(fd.Recv.List[0].Type)
	if st, ok := e.(*ast.StarExpr); ok {
		e = ast.Unparen(st.X)
	}
	if id, ok := e.(*ast.Ident); ok {
		return id.Name
	}
	return ""
}

func typeIdent(e ast.Expr) []string {
	e = ast.Unparen(e)
	if st, ok := e.(*ast.StarExpr); ok {
		e = ast.Unparen(st.X)
	}
	if id, ok := e.(*ast.Ident); ok {
		return splitU(id.Name)
	}
	return nil
}

// stubImporter resolves every import to an empty package: the generated files are
// type-checked only for what they say about themselves (constant values, which
// named type a constant has); everything that needs the protobuf / grpc runtime
// fails to resolve and is ignored.
type stubImporter struct{}

func (stubImporter) Import(path string) (*types.Package, error) {
	name := path
	if i := strings.LastIndex(name, "/"); i >= 0 {
		name = name[i+1:]
	}
	p := types.NewPackage(path, name)
	p.MarkComplete()
	return p, nil
}

// looseCheck runs go/types over the files of one generated package with all
// imports stubbed and all errors tolerated. What survives is exactly what the
// translator wants to read semantically instead of by literal shape: the values
// of the package's own constants (iota, conversions, expressions over other
// constants, any literal spelling) and their types.
func looseCheck(fset *token.FileSet, files []*ast.File) (info *types.Info) {
	info = &types.Info{
		Defs:  map[*ast.Ident]types.Object{},
		Uses:  map[*ast.Ident]types.Object{},
		Types: map[ast.Expr]types.TypeAndValue{},
	}
	defer func() { recover() }() // a checker crash on half-resolvable code leaves what was recorded so far
	conf := types.Config{Importer: stubImporter{}, Error: func(error) {}, DisableUnusedImportCheck: true, FakeImportC: true}
	conf.Check("generated", fset, files, info)
	return info
}

// constOf is the constant value go/types computed for e, if any.
func constOf(info *types.Info, e ast.Expr) constant.Value {
	if info == nil {
		return nil
	}
	if tv, ok := info.Types[e]; ok && tv.Value != nil {
		return tv.Value
	}
	return nil
}

func goBindings(repo, ver string) *GoBind {
	g := &GoBind{}
	fset := token.NewFileSet()
	pb, err := parser.ParseFile(fset, filepath.Join(repo, "api", ver, "api.pb.go"), nil, parser.SkipObjectResolution)
	if err != nil {
		return &GoBind{Err: err.Error()}
	}
	grpc, err := parser.ParseFile(fset, filepath.Join(repo, "api", ver, "api_grpc.pb.go"), nil, parser.SkipObjectResolution)
	if err != nil {
		return &GoBind{Err: err.Error()}
	}
	info := looseCheck(fset, []*ast.File{pb, grpc})
	if err := pbgoFacts(g, pb, info); err != nil {
		return &GoBind{Err: err.Error()}
	}
	if err := grpcFacts(g, grpc, info); err != nil {
		return &GoBind{Err: err.Error()}
	}
	g.sort()
	return g
}

func pbgoFacts(g *GoBind, f *ast.File, info *types.Info) error {
	structs := map[string]*ast.StructType{}
	intTypes := map[string]bool{}
	var order []string
	for _, d := range f.Decls {
		gd, ok := d.(*ast.GenDecl)
		if !ok || gd.Tok != token.TYPE {
			continue
		}
		for _, s := range gd.Specs {
			ts := s.(*ast.TypeSpec)
			switch t := ast.Unparen(ts.Type).(type) {
			case *ast.StructType:
				structs[ts.Name.Name] = t
				order = append(order, ts.Name.Name)
			case *ast.Ident:
				if t.Name == "int32" {
					intTypes[ts.Name.Name] = true
				}
			}
		}
	}
	// oneof wrappers: `func (*W) isParent_Oneof() {}` makes W a member of the
	// interface type isParent_Oneof, which is the type of Parent's protobuf_oneof field.
	ifaceOwner := map[string]string{}
	for _, name := range order {
		for _, fl := range structs[name].Fields.List {
			if fl.Tag == nil {
				continue
			}
			tag, _ := strconv.Unquote(fl.Tag.Value)
			if v, ok := reflect.StructTag(tag).Lookup("protobuf_oneof"); ok {
				g.Oneofs = append(g.Oneofs, GoOneofF{splitU(name), v})
				if id, ok := ast.Unparen(fl.Type).(*ast.Ident); ok {
					ifaceOwner[id.Name] = name
				}
			}
		}
	}
	wrapperOf := map[string]string{}
	for _, d := range f.Decls {
		fd, ok := d.(*ast.FuncDecl)
		if !ok {
			continue
		}
		if r := recvName(fd); r != "" {
			if p, ok := ifaceOwner[fd.Name.Name]; ok {
				wrapperOf[r] = p
			}
		}
	}
	for _, name := range order {
		st := structs[name]
		isMsg := false
		for _, fl := range st.Fields.List {
			for _, n := range fl.Names {
				if n.Name == "state" {
					if se, ok := ast.Unparen(fl.Type).(*ast.SelectorExpr); ok && se.Sel.Name == "MessageState" {
						isMsg = true
					}
				}
			}
		}
		if isMsg {
			g.Structs = append(g.Structs, StructF{splitU(name)})
		}
		owner, wrapped := name, false
		if p, ok := wrapperOf[name]; ok && !isMsg {
			owner, wrapped = p, true
		}
		for _, fl := range st.Fields.List {
			if fl.Tag == nil {
				continue
			}
			tag, err := strconv.Unquote(fl.Tag.Value)
			if err != nil {
				return fmt.Errorf("%s: bad tag literal", name)
			}
			v, ok := reflect.StructTag(tag).Lookup("protobuf")
			if !ok {
				continue
			}
			if !isMsg && !wrapped {
				return fmt.Errorf("struct %s has protobuf tags but is neither a message nor a oneof wrapper", name)
			}
			t := TagF{Struct: splitU(owner), Wrapped: wrapped}
			if err := parseTag(&t, v); err != nil {
				return fmt.Errorf("%s: %v", name, err)
			}
			goType(&t, fl.Type)
			g.Tags = append(g.Tags, t)
		}
	}
	// Enum constants: every package-level constant whose type is one of the
	// package's own int32 types. Type and value are what go/types computed (so
	// `X T = 1`, `X = T(1)`, iota blocks and hex literals are the same fact);
	// the literal reading is the fallback when the checker recorded nothing.
	for _, d := range f.Decls {
		gd, ok := d.(*ast.GenDecl)
		if !ok || gd.Tok != token.CONST {
			continue
		}
		for _, s := range gd.Specs {
			vs := s.(*ast.ValueSpec)
			for i, n := range vs.Names {
				if n.Name == "_" {
					continue
				}
				if c, ok := info.Defs[n].(*types.Const); ok && c.Val() != nil && c.Val().Kind() != constant.Unknown {
					nt, ok := c.Type().(*types.Named)
					if !ok || nt.Obj().Pkg() != c.Pkg() || !intTypes[nt.Obj().Name()] {
						continue
					}
					v, exact := constant.Int64Val(constant.ToInt(c.Val()))
					if !exact {
						return fmt.Errorf("constant %s: not an integer", n.Name)
					}
					g.Consts = append(g.Consts, ConstF{splitU(nt.Obj().Name()), splitU(n.Name), int(v)})
					continue
				}
				id, ok := ast.Unparen(vs.Type).(*ast.Ident)
				if vs.Type == nil || !ok || !intTypes[id.Name] {
					continue
				}
				if i >= len(vs.Values) {
					return fmt.Errorf("constant %s has no value", n.Name)
				}
				v, err := evalInt(vs.Values[i])
				if err != nil {
					return fmt.Errorf("constant %s: %v", n.Name, err)
				}
				g.Consts = append(g.Consts, ConstF{splitU(id.Name), splitU(n.Name), v})
			}
		}
	}
	return nil
}

func evalInt(e ast.Expr) (int, error) {
	switch x := e.(type) {
	case *ast.ParenExpr:
		return evalInt(x.X)
	case *ast.UnaryExpr:
		v, err := evalInt(x.X)
		if err != nil {
			return 0, err
		}
		switch x.Op {
		case token.SUB:
			return -v, nil
		case token.ADD:
			return v, nil
		}
	case *ast.BasicLit:
		if x.Kind == token.INT {
			n, ok := constant.Int64Val(constant.MakeFromLiteral(x.Value, x.Kind, 0))
			if ok {
				return int(n), nil
			}
		}
	}
	return 0, fmt.Errorf("not an integer literal")
}

func strLit(e ast.Expr) (string, bool) {
	bl, ok := e.(*ast.BasicLit)
	if !ok || bl.Kind != token.STRING {
		return "", false
	}
	s, err := strconv.Unquote(bl.Value)
	return s, err == nil
}

func boolLit(e ast.Expr) bool {
	id, ok := e.(*ast.Ident)
	return ok && id.Name == "true"
}

// identsWithSuffix lists the distinct identifiers below n that end in suffix.
func identsWithSuffix(n ast.Node, suffix string) []string {
	var out []string
	seen := map[string]bool{}
	ast.Inspect(n, func(x ast.Node) bool {
		if id, ok := x.(*ast.Ident); ok && strings.HasSuffix(id.Name, suffix) && !seen[id.Name] {
			seen[id.Name] = true
			out = append(out, id.Name)
		}
		return true
	})
	return out
}

func grpcFacts(g *GoBind, f *ast.File, info *types.Info) error {
	str := func(e ast.Expr) (string, bool) {
		if v := constOf(info, e); v != nil && v.Kind() == constant.String {
			return constant.StringVal(v), true
		}
		return strLit(e)
	}
	implOf := map[string]string{} // client stub struct -> service
	for _, d := range f.Decls {
		switch d := d.(type) {
		case *ast.GenDecl:
			for _, s := range d.Specs {
				switch s := s.(type) {
				case *ast.ValueSpec:
					for i, n := range s.Names {
						if i >= len(s.Values) {
							continue
						}
						if d.Tok == token.CONST && strings.HasSuffix(n.Name, "_FullMethodName") {
							v, ok := str(s.Values[i])
							if !ok {
								return fmt.Errorf("%s is not a string constant", n.Name)
							}
							p := strings.Split(v, "/")
							if len(p) != 3 || p[0] != "" {
								return fmt.Errorf("%s = %q is not /service/method", n.Name, v)
							}
							g.GConsts = append(g.GConsts, GConstF{splitU(n.Name), splitDot(p[1]), p[2]})
						}
						if d.Tok == token.VAR && strings.HasSuffix(n.Name, "_ServiceDesc") {
							if err := serviceDesc(g, n.Name, s.Values[i], str); err != nil {
								return err
							}
						}
					}
				case *ast.TypeSpec:
					it, ok := s.Type.(*ast.InterfaceType)
					if !ok {
						continue
					}
					name := s.Name.Name
					role := 0
					switch {
					case strings.HasSuffix(name, "Client"):
						role = 1
					case strings.HasSuffix(name, "Server") && !strings.HasPrefix(name, "Unsafe"):
						role = 2
					}
					if role == 0 {
						continue
					}
					svc := name[:len(name)-6]
					for _, m := range it.Methods.List {
						ft, ok := m.Type.(*ast.FuncType)
						if !ok || len(m.Names) != 1 || !m.Names[0].IsExported() {
							continue
						}
						gi := GIfaceF{Svc: svc, Role: role, Method: m.Names[0].Name}
						// unary shape: (ctx, *In[, opts...]) (*Out, error)
						if ft.Params != nil && len(ft.Params.List) >= 2 && ft.Results != nil && len(ft.Results.List) == 2 {
							if _, isPtr := ft.Params.List[1].Type.(*ast.StarExpr); isPtr {
								if _, isPtr := ft.Results.List[0].Type.(*ast.StarExpr); isPtr {
									gi.In = typeIdent(ft.Params.List[1].Type)
									gi.Out = typeIdent(ft.Results.List[0].Type)
								}
							}
						}
						g.GIfaces = append(g.GIfaces, gi)
					}
				}
			}
		case *ast.FuncDecl:
			// NewXClient(cc) XClient { return &xClient{cc} }
			if d.Recv == nil && strings.HasPrefix(d.Name.Name, "New") && d.Type.Results != nil && len(d.Type.Results.List) == 1 && d.Body != nil {
				if rid, ok := d.Type.Results.List[0].Type.(*ast.Ident); ok && strings.HasSuffix(rid.Name, "Client") {
					ast.Inspect(d.Body, func(n ast.Node) bool {
						if cl, ok := n.(*ast.CompositeLit); ok {
							if id, ok := cl.Type.(*ast.Ident); ok {
								implOf[id.Name] = rid.Name[:len(rid.Name)-6]
							}
						}
						return true
					})
				}
			}
		}
	}
	for _, d := range f.Decls {
		fd, ok := d.(*ast.FuncDecl)
		if !ok || fd.Body == nil {
			continue
		}
		if svc, ok := implOf[recvName(fd)]; ok && fd.Name.IsExported() {
			c := GCallF{Role: 1, Func: []string{svc, fd.Name.Name}}
			for _, id := range identsWithSuffix(fd.Body, "_FullMethodName") {
				c.Const = append(c.Const, splitU(id)...)
			}
			g.GCalls = append(g.GCalls, c)
		}
		if fd.Recv == nil && strings.HasPrefix(fd.Name.Name, "_") && strings.HasSuffix(fd.Name.Name, "_Handler") {
			c := GCallF{Role: 2, Func: splitU(fd.Name.Name)}
			for _, id := range identsWithSuffix(fd.Body, "_FullMethodName") {
				c.Const = append(c.Const, splitU(id)...)
			}
			var methods []string
			seen := map[string]bool{}
			ast.Inspect(fd.Body, func(n ast.Node) bool {
				switch x := n.(type) {
				case *ast.SelectorExpr:
					if _, ok := x.X.(*ast.TypeAssertExpr); ok && !seen[x.Sel.Name] {
						seen[x.Sel.Name] = true
						methods = append(methods, x.Sel.Name)
					}
				case *ast.CallExpr:
					if id, ok := x.Fun.(*ast.Ident); ok && id.Name == "new" && len(x.Args) == 1 && c.Req == nil {
						c.Req = typeIdent(x.Args[0])
					}
				}
				return true
			})
			c.Method = strings.Join(methods, ",")
			g.GCalls = append(g.GCalls, c)
		}
	}
	return nil
}

func serviceDesc(g *GoBind, varName string, e ast.Expr, strLit func(ast.Expr) (string, bool)) error {
	cl, ok := ast.Unparen(e).(*ast.CompositeLit)
	if !ok {
		return fmt.Errorf("%s is not a composite literal", varName)
	}
	var svc []string
	var htype, meta string
	type ent struct {
		name    string
		handler []string
		stream  bool
		cs, ss  bool
	}
	var ents []ent
	for _, el := range cl.Elts {
		kv, ok := el.(*ast.KeyValueExpr)
		if !ok {
			return fmt.Errorf("%s: positional element", varName)
		}
		key := kv.Key.(*ast.Ident).Name
		switch key {
		case "ServiceName":
			s, ok := strLit(kv.Value)
			if !ok {
				return fmt.Errorf("%s: ServiceName is not a literal", varName)
			}
			svc = splitDot(s)
		case "Metadata":
			meta, _ = strLit(kv.Value)
		case "HandlerType":
			ast.Inspect(kv.Value, func(n ast.Node) bool {
				if id, ok := n.(*ast.Ident); ok && id.Name != "nil" && htype == "" {
					htype = id.Name
				}
				return true
			})
		case "Methods", "Streams":
			list, ok := kv.Value.(*ast.CompositeLit)
			if !ok {
				return fmt.Errorf("%s: %s is not a literal", varName, key)
			}
			for _, m := range list.Elts {
				mc, ok := m.(*ast.CompositeLit)
				if !ok {
					return fmt.Errorf("%s: %s element is not a literal", varName, key)
				}
				en := ent{stream: key == "Streams"}
				for _, fe := range mc.Elts {
					fkv, ok := fe.(*ast.KeyValueExpr)
					if !ok {
						return fmt.Errorf("%s: positional method element", varName)
					}
					switch fkv.Key.(*ast.Ident).Name {
					case "MethodName", "StreamName":
						en.name, _ = strLit(fkv.Value)
					case "Handler":
						if id, ok := fkv.Value.(*ast.Ident); ok {
							en.handler = splitU(id.Name)
						}
					case "ClientStreams":
						en.cs = boolLit(fkv.Value)
					case "ServerStreams":
						en.ss = boolLit(fkv.Value)
					}
				}
				ents = append(ents, en)
			}
		}
	}
	// the handler interface is <Svc>Server; the suffix is stripped here because
	// interned names cannot be concatenated on the Lean side
	if strings.HasSuffix(htype, "Server") {
		htype = htype[:len(htype)-6]
	} else {
		htype = "?" + htype
	}
	for _, en := range ents {
		g.GDescs = append(g.GDescs, GDescF{Var: splitU(varName), Svc: svc, Method: en.name, Handler: en.handler,
			Stream: en.stream, CS: en.cs, SS: en.ss, HType: htype, Meta: meta})
	}
	return nil
}
