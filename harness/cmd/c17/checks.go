package main

// The failing-input search: the same comparisons the Lean theorems make, done
// directly in Go on the extracted facts (strings, not interned ids), element by
// element, so that a broken theorem comes with the path of the differing
// element. The expected-binding rules and the v3→v3alpha renaming are
// implemented here a second time, independently of the Lean model; the Lean
// driver answers the same op lines from the generated tables.

import (
	"fmt"
	"sort"
	"strings"
)

type KV struct{ Owner, Key, Val string }

type Check struct {
	Name string
	Sub  bool // true: every L fact must be in R; false: L and R must be equal
	L, R []KV
}

func dash(s string) string {
	if s == "" {
		return "-"
	}
	return s
}
func b01(b bool) string {
	if b {
		return "1"
	}
	return "0"
}

func kvDesc(d *Desc) []KV {
	var out []KV
	add := func(owner, key, val string) { out = append(out, KV{owner, key, val}) }
	if d.Err != "" {
		return nil
	}
	add("file", "file name", dash(d.File.Name))
	add("file", "file syntax", fmt.Sprint(d.File.Syntax))
	add("file", "file package", dash(dot(d.File.Pkg)))
	add("file", "file go_package", dash(strings.Join(d.File.GoPkg, "/")))
	for _, x := range d.File.Deps {
		add("file", "file import "+x, "1")
	}
	for _, x := range d.Msgs {
		add(dot(x.Name), "msg "+dot(x.Name), "mapentry="+b01(x.MapEntry))
	}
	for _, x := range d.Fields {
		add(dot(x.Msg), "field "+dot(x.Msg)+" "+x.Name, fmt.Sprintf("num=%d label=%d type=%d tn=%s oneof=%s json=%s p3opt=%s packed=%d dep=%s",
			x.Number, x.Label, x.Type, dash(dot(x.TypeName)), dash(x.Oneof), dash(x.JSON), b01(x.P3Opt), x.Packed, b01(x.Deprecated)))
	}
	for _, x := range d.Oneofs {
		add(dot(x.Msg), "oneof "+dot(x.Msg)+" "+x.Name, fmt.Sprintf("idx=%d", x.Index))
	}
	for _, x := range d.Enums {
		add(dot(x.Name), "enum "+dot(x.Name), "1")
	}
	for _, x := range d.Values {
		add(dot(x.Enum), "value "+dot(x.Enum)+" "+x.Name, fmt.Sprintf("num=%d", x.Number))
	}
	for _, x := range d.Svcs {
		add(dot(x.Name), "service "+dot(x.Name), "1")
	}
	for _, x := range d.Methods {
		add(dot(x.Svc)+"."+x.Name, "rpc "+dot(x.Svc)+" "+x.Name, fmt.Sprintf("in=%s out=%s cs=%s ss=%s", dash(dot(x.In)), dash(dot(x.Out)), b01(x.CS), b01(x.SS)))
	}
	for _, x := range d.Https {
		add(dot(x.Svc)+"."+x.Method, fmt.Sprintf("http %s %s %d", dot(x.Svc), x.Method, x.Idx),
			fmt.Sprintf("verb=%d custom=%s path=%s body=%s rbody=%s", x.Verb, dash(x.Custom), dash(strings.Join(x.Path, "/")), dash(x.Body), dash(x.RespBody)))
	}
	return out
}

// renameDesc is the Go twin of Lean's Desc.rename (on strings).
func renameDesc(d *Desc, q []string) *Desc {
	p := d.File.Pkg
	last := func(s []string) string {
		if len(s) == 0 {
			return ""
		}
		return s[len(s)-1]
	}
	a, b := last(p), last(q)
	rn := func(n []string) []string {
		if len(n) < len(p) {
			return n
		}
		for i := range p {
			if n[i] != p[i] {
				return n
			}
		}
		return append(append([]string(nil), q...), n[len(p):]...)
	}
	out := *d
	out.File.Pkg = rn(d.File.Pkg)
	out.File.GoPkg = append([]string(nil), d.File.GoPkg...)
	if n := len(out.File.GoPkg); n > 0 && out.File.GoPkg[n-1] == a {
		out.File.GoPkg[n-1] = b
	}
	out.Msgs, out.Fields, out.Oneofs, out.Enums, out.Values, out.Svcs, out.Methods, out.Https = nil, nil, nil, nil, nil, nil, nil, nil
	for _, x := range d.Msgs {
		x.Name = rn(x.Name)
		out.Msgs = append(out.Msgs, x)
	}
	for _, x := range d.Fields {
		x.Msg, x.TypeName = rn(x.Msg), rn(x.TypeName)
		out.Fields = append(out.Fields, x)
	}
	for _, x := range d.Oneofs {
		x.Msg = rn(x.Msg)
		out.Oneofs = append(out.Oneofs, x)
	}
	for _, x := range d.Enums {
		x.Name = rn(x.Name)
		out.Enums = append(out.Enums, x)
	}
	for _, x := range d.Values {
		x.Enum = rn(x.Enum)
		out.Values = append(out.Values, x)
	}
	for _, x := range d.Svcs {
		x.Name = rn(x.Name)
		out.Svcs = append(out.Svcs, x)
	}
	for _, x := range d.Methods {
		x.Svc, x.In, x.Out = rn(x.Svc), rn(x.In), rn(x.Out)
		out.Methods = append(out.Methods, x)
	}
	for _, x := range d.Https {
		x.Svc = rn(x.Svc)
		if len(x.Path) >= 2 && x.Path[0] == "" && x.Path[1] == a {
			x.Path = append([]string{"", b}, x.Path[2:]...)
		}
		out.Https = append(out.Https, x)
	}
	return &out
}

func kvTag(x TagF) KV {
	s := usc(x.Struct)
	return KV{s, "tag " + s + " " + x.Name, fmt.Sprintf("wire=%d num=%d label=%d json=%s proto3=%s enum=%s oneof=%s packed=%s rep=%s ptr=%s scalar=%d qual=%s ident=%s map=%s wrapped=%s extra=%s",
		x.Wire, x.Number, x.Label, dash(x.JSON), b01(x.Proto3), dash(dot(x.Enum)), b01(x.Oneof), b01(x.Packed), b01(x.Rep), b01(x.Ptr), x.Scalar,
		b01(x.Qual), dash(usc(x.Ident)), b01(x.IsMap), b01(x.Wrapped), dash(x.BadExtra))}
}

func kvStructs(g *GoBind) []KV {
	var out []KV
	if g.Err != "" {
		return nil
	}
	for _, x := range g.Structs {
		out = append(out, KV{usc(x.Ident), "struct " + usc(x.Ident), "1"})
	}
	for _, x := range g.Tags {
		out = append(out, kvTag(x))
	}
	for _, x := range g.Oneofs {
		out = append(out, KV{usc(x.Struct), "goneof " + usc(x.Struct) + " " + x.Name, "1"})
	}
	for _, x := range g.Consts {
		out = append(out, KV{usc(x.Type), "const " + usc(x.Type) + " " + usc(x.Ident), fmt.Sprintf("num=%d", x.Number)})
	}
	return out
}

func kvGrpc(g *GoBind) []KV {
	var out []KV
	if g.Err != "" {
		return nil
	}
	for _, x := range g.GConsts {
		out = append(out, KV{"grpc", "fullmethod " + dot(x.Svc) + " " + x.Method, "ident=" + dash(usc(x.Ident))})
	}
	for _, x := range g.GDescs {
		out = append(out, KV{"grpc", "desc " + dot(x.Svc) + " " + x.Method, fmt.Sprintf("var=%s handler=%s stream=%s cs=%s ss=%s htype=%s meta=%s",
			dash(usc(x.Var)), dash(usc(x.Handler)), b01(x.Stream), b01(x.CS), b01(x.SS), dash(x.HType), dash(x.Meta))})
	}
	for _, x := range g.GIfaces {
		out = append(out, KV{"grpc", fmt.Sprintf("iface %s %d %s", x.Svc, x.Role, x.Method), "in=" + dash(usc(x.In)) + " out=" + dash(usc(x.Out))})
	}
	for _, x := range g.GCalls {
		out = append(out, KV{"grpc", fmt.Sprintf("call %d %s", x.Role, dash(usc(x.Func))), "const=" + dash(usc(x.Const)) + " method=" + dash(x.Method) + " req=" + dash(usc(x.Req))})
	}
	return out
}

// ---- expected bindings (Go twin of the Lean functions in Model/Api/Desc.lean)

func flatU(n []string) []string {
	var out []string
	for _, c := range n {
		out = append(out, splitU(c)...)
	}
	return out
}

func hasPrefix(n, p []string) bool {
	if len(n) < len(p) {
		return false
	}
	for i := range p {
		if n[i] != p[i] {
			return false
		}
	}
	return true
}

func (d *Desc) rel(n []string) []string {
	if len(n) < len(d.File.Pkg) {
		return nil
	}
	return n[len(d.File.Pkg):]
}

func (d *Desc) goTypeIdent(n []string) []string {
	if hasPrefix(n, d.File.Pkg) {
		return flatU(d.rel(n))
	}
	if len(n) == 0 {
		return splitU("")
	}
	return splitU(n[len(n)-1])
}

func wireOf(t int) int {
	switch t {
	case 3, 4, 5, 8, 13, 14:
		return 1
	case 2, 7, 15:
		return 2
	case 1, 6, 16:
		return 3
	case 9, 11, 12:
		return 4
	case 10:
		return 5
	case 17:
		return 6
	case 18:
		return 7
	}
	return 0
}

func goScalarOf(t int) int {
	switch t {
	case 9:
		return 1
	case 8:
		return 2
	case 5, 15, 17:
		return 3
	case 3, 16, 18:
		return 4
	case 7, 13:
		return 5
	case 4, 6:
		return 6
	case 2:
		return 7
	case 1:
		return 8
	case 12:
		return 9
	}
	return 0
}

func expectedBindings(d *Desc) *GoBind {
	g := &GoBind{Err: d.Err}
	if d.Err != "" {
		return g
	}
	mapEntry := map[string]bool{}
	for _, m := range d.Msgs {
		if m.MapEntry {
			mapEntry[dot(m.Name)] = true
		} else {
			g.Structs = append(g.Structs, StructF{flatU(d.rel(m.Name))})
		}
	}
	synthetic := map[string]bool{}
	for _, f := range d.Fields {
		if f.P3Opt && f.Oneof != "" {
			synthetic[dot(f.Msg)+" "+f.Oneof] = true
		}
	}
	for _, f := range d.Fields {
		isMap := f.Type == 11 && f.Label == 3 && mapEntry[dot(f.TypeName)]
		named := (f.Type == 11 || f.Type == 14) && !isMap
		t := TagF{Struct: flatU(d.rel(f.Msg)), Name: f.Name, Wire: wireOf(f.Type), Number: f.Number, Label: f.Label,
			Proto3: d.File.Syntax == 3, Oneof: f.Oneof != "", IsMap: isMap, Wrapped: f.Oneof != "" && !f.P3Opt}
		if f.JSON != f.Name {
			t.JSON = f.JSON
		}
		if f.Type == 14 {
			t.Enum = f.TypeName
		}
		t.Packed = f.Label == 3 && !(f.Type == 9 || f.Type == 10 || f.Type == 11 || f.Type == 12) && f.Packed != 1
		t.Rep = f.Label == 3 && !isMap
		t.Ptr = !isMap && (f.Type == 11 || f.P3Opt && f.Type != 12)
		if !isMap {
			t.Scalar = goScalarOf(f.Type)
		}
		if named {
			t.Qual = !hasPrefix(f.TypeName, d.File.Pkg)
			t.Ident = d.goTypeIdent(f.TypeName)
		}
		g.Tags = append(g.Tags, t)
	}
	for _, o := range d.Oneofs {
		if !synthetic[dot(o.Msg)+" "+o.Name] {
			g.Oneofs = append(g.Oneofs, GoOneofF{flatU(d.rel(o.Msg)), o.Name})
		}
	}
	for _, v := range d.Values {
		r := d.rel(v.Enum)
		pre := r
		if len(r) > 1 {
			pre = r[:len(r)-1]
		}
		g.Consts = append(g.Consts, ConstF{flatU(r), append(flatU(pre), splitU(v.Name)...), v.Number})
	}
	for _, m := range d.Methods {
		svc := ""
		if len(m.Svc) > 0 {
			svc = m.Svc[len(m.Svc)-1]
		}
		cid := append(append(splitU(svc), splitU(m.Name)...), "FullMethodName")
		hid := append(append(append([]string{""}, splitU(svc)...), splitU(m.Name)...), "Handler")
		unary := !(m.CS || m.SS)
		g.GConsts = append(g.GConsts, GConstF{cid, m.Svc, m.Name})
		g.GDescs = append(g.GDescs, GDescF{Var: append(splitU(svc), "ServiceDesc"), Svc: m.Svc, Method: m.Name, Handler: hid,
			Stream: !unary, CS: m.CS, SS: m.SS, HType: svc, Meta: d.File.Name})
		var in, out []string
		if unary {
			in, out = d.goTypeIdent(m.In), d.goTypeIdent(m.Out)
		}
		g.GIfaces = append(g.GIfaces, GIfaceF{svc, 1, m.Name, in, out}, GIfaceF{svc, 2, m.Name, in, out})
		g.GCalls = append(g.GCalls, GCallF{Role: 1, Func: []string{svc, m.Name}, Const: cid})
		h := GCallF{Role: 2, Func: hid, Method: m.Name}
		if unary {
			h.Const = cid
		}
		if !m.CS {
			h.Req = d.goTypeIdent(m.In)
		}
		g.GCalls = append(g.GCalls, h)
	}
	return g
}

// ---- systems

var systemTable = map[string]string{"UnknownSystem": "SYSTEM_UNSPECIFIED", "NPM": "NPM", "Maven": "MAVEN", "PyPI": "PYPI"}

func kvSystems(s *Systems) []KV {
	var out []KV
	for _, c := range s.Consts {
		out = append(out, KV{"systems", "system " + c.Name, fmt.Sprintf("num=%d src=%s", c.Value, dash(usc(c.Src)))})
	}
	return out
}

// kvSystemsExpected: what each resolve constant must be according to enum System of d.
func kvSystemsExpected(s *Systems, d *Desc) []KV {
	var out []KV
	if d.Err != "" {
		return nil
	}
	enum := dot(append(append([]string(nil), d.File.Pkg...), "System"))
	num := map[string]int{}
	var order []string
	for _, v := range d.Values {
		if dot(v.Enum) == enum {
			if _, dup := num[v.Name]; !dup {
				num[v.Name] = v.Number
				order = append(order, v.Name)
			}
		}
	}
	for _, c := range s.Consts {
		want, ok := systemTable[c.Name]
		if !ok {
			for _, v := range order {
				if c.Src != nil && usc(c.Src) == "System_"+v {
					want, ok = v, true
					break
				}
			}
		}
		if !ok {
			continue
		}
		n, ok := num[want]
		if !ok {
			continue
		}
		src := "-"
		if c.Src != nil {
			src = "System_" + want
		}
		out = append(out, KV{"systems", "system " + c.Name, fmt.Sprintf("num=%d src=%s", n, src)})
	}
	return out
}

func buildChecks(a *All) []*Check {
	var cs []*Check
	v3, v3a := a.Pbgo["v3"], a.Pbgo["v3alpha"]
	var l []KV
	if v3.Err == "" && v3a.Err == "" {
		l = kvDesc(renameDesc(v3, v3a.File.Pkg))
	}
	cs = append(cs, &Check{Name: "v3sub", Sub: true, L: l, R: kvDesc(v3a)})
	for _, v := range versions {
		cs = append(cs, &Check{Name: "pbgo_" + v, L: kvDesc(a.Pbgo[v]), R: kvDesc(a.Text[v])})
	}
	for _, v := range versions {
		e := expectedBindings(a.Pbgo[v])
		cs = append(cs, &Check{Name: "structs_" + v, L: kvStructs(e), R: kvStructs(a.Go[v])})
		cs = append(cs, &Check{Name: "grpc_" + v, L: kvGrpc(e), R: kvGrpc(a.Go[v])})
	}
	for _, v := range versions {
		cs = append(cs, &Check{Name: "systems_" + v, L: kvSystems(a.Sys), R: kvSystemsExpected(a.Sys, a.Pbgo[v])})
	}
	return cs
}

func findKV(kvs []KV, key string) (KV, bool) {
	for _, kv := range kvs {
		if kv.Key == key {
			return kv, true
		}
	}
	return KV{}, false
}

func (c *Check) fact(key string) string {
	l, okL := findKV(c.L, key)
	r, okR := findKV(c.R, key)
	switch {
	case !okL && !okR:
		return "ok absent"
	case okL && !okR:
		return "ok missing"
	case !okL && okR:
		return "ok extra"
	case l.Val == r.Val:
		return "ok present-identical"
	}
	return "ok differs " + hx(l.Val) + " " + hx(r.Val)
}

func (c *Check) group(owner string) string {
	var ls, rs []KV
	for _, kv := range c.L {
		if kv.Owner == owner {
			ls = append(ls, kv)
		}
	}
	for _, kv := range c.R {
		if kv.Owner == owner {
			rs = append(rs, kv)
		}
	}
	if len(ls) == 0 && len(rs) == 0 {
		return "ok absent"
	}
	nd := 0
	for _, kv := range ls {
		if r, ok := findKV(rs, kv.Key); !ok || r.Val != kv.Val {
			nd++
		}
	}
	if !c.Sub {
		for _, kv := range rs {
			if _, ok := findKV(ls, kv.Key); !ok {
				nd++
			}
		}
	}
	if nd == 0 {
		return fmt.Sprintf("ok identical %d %d", len(ls), len(rs))
	}
	return fmt.Sprintf("ok differs %d", nd)
}

func (c *Check) owners() []string {
	seen := map[string]bool{}
	var out []string
	for _, kvs := range [][]KV{c.L, c.R} {
		for _, kv := range kvs {
			if !seen[kv.Owner] {
				seen[kv.Owner] = true
				out = append(out, kv.Owner)
			}
		}
	}
	sort.Strings(out)
	return out
}

func (c *Check) keysOf(owner string) []string {
	seen := map[string]bool{}
	var out []string
	for _, kvs := range [][]KV{c.L, c.R} {
		for _, kv := range kvs {
			if kv.Owner == owner && !seen[kv.Key] {
				seen[kv.Key] = true
				out = append(out, kv.Key)
			}
		}
	}
	sort.Strings(out)
	return out
}
