package main

import (
	"strings"
	"testing"
)

// The constructs api.proto does not use today (oneof, optional, map, streams,
// additional_bindings, relative names shadowed by nested types).
const sample = `
syntax = "proto3";
package a.b;
import "google/api/annotations.proto";
import "google/protobuf/timestamp.proto";
option go_package = "x/y";
/* block
   comment */
service S {
  rpc Watch(stream Req) returns (stream Resp) {
    option (google.api.http) = {
      post: "/b/watch" body: "*"
      additional_bindings { get: "/b/watch2" }
    };
  }
  rpc Plain(Req) returns (Resp);
}
enum E { E_ZERO = 0; NEG = -1; reserved 5, 7 to 9; }
message Req {
  reserved 4; reserved "old";
  oneof kind { string by_name = 1; Inner inner = 2; }
  optional int32 maybe = 3;
  map<string, Inner> labels = 5;
  repeated sint64 nums = 6 [packed = false, deprecated = true];
  E e = 7 [json_name = "EE"];
  .google.protobuf.Timestamp at = 8;
  string optional = 9;
  message Inner { Req.Inner self = 1; E e = 2; enum E { X = 0; } }
}
message Resp {}
`

func TestSubsetParser(t *testing.T) {
	d, err := descFromSource(sample)
	if err != nil {
		t.Fatal(err)
	}
	got := map[string]string{}
	for _, kv := range kvDesc(d) {
		got[kv.Key] = kv.Val
	}
	want := map[string]string{
		"field a.b.Req by_name":           "num=1 label=1 type=9 tn=- oneof=kind json=byName p3opt=0 packed=0 dep=0",
		"field a.b.Req inner":             "num=2 label=1 type=11 tn=a.b.Req.Inner oneof=kind json=inner p3opt=0 packed=0 dep=0",
		"field a.b.Req maybe":             "num=3 label=1 type=5 tn=- oneof=_maybe json=maybe p3opt=1 packed=0 dep=0",
		"field a.b.Req labels":            "num=5 label=3 type=11 tn=a.b.Req.LabelsEntry oneof=- json=labels p3opt=0 packed=0 dep=0",
		"field a.b.Req.LabelsEntry key":   "num=1 label=1 type=9 tn=- oneof=- json=key p3opt=0 packed=0 dep=0",
		"field a.b.Req.LabelsEntry value": "num=2 label=1 type=11 tn=a.b.Req.Inner oneof=- json=value p3opt=0 packed=0 dep=0",
		"msg a.b.Req.LabelsEntry":         "mapentry=1",
		"field a.b.Req nums":              "num=6 label=3 type=18 tn=- oneof=- json=nums p3opt=0 packed=1 dep=1",
		"field a.b.Req e":                 "num=7 label=1 type=14 tn=a.b.E oneof=- json=EE p3opt=0 packed=0 dep=0",
		"field a.b.Req at":                "num=8 label=1 type=11 tn=google.protobuf.Timestamp oneof=- json=at p3opt=0 packed=0 dep=0",
		"field a.b.Req optional":          "num=9 label=1 type=9 tn=- oneof=- json=optional p3opt=0 packed=0 dep=0",
		"field a.b.Req.Inner self":        "num=1 label=1 type=11 tn=a.b.Req.Inner oneof=- json=self p3opt=0 packed=0 dep=0",
		"field a.b.Req.Inner e":           "num=2 label=1 type=14 tn=a.b.Req.Inner.E oneof=- json=e p3opt=0 packed=0 dep=0",
		"oneof a.b.Req kind":              "idx=0",
		"oneof a.b.Req _maybe":            "idx=1",
		"value a.b.E NEG":                 "num=-1",
		"rpc a.b.S Watch":                 "in=a.b.Req out=a.b.Resp cs=1 ss=1",
		"http a.b.S Watch 0":              "verb=4 custom=- path=/b/watch body=* rbody=-",
		"http a.b.S Watch 1":              "verb=2 custom=- path=/b/watch2 body=- rbody=-",
		"rpc a.b.S Plain":                 "in=a.b.Req out=a.b.Resp cs=0 ss=0",
	}
	for k, v := range want {
		if got[k] != v {
			t.Errorf("%s:\n got %q\nwant %q", k, got[k], v)
		}
	}
	for _, bad := range []string{
		`syntax = "proto2"; message M {}`,
		`syntax = "proto3"; message M { option deprecated = true; }`,
		`syntax = "proto3"; message M { Nope x = 1; }`,
		`syntax = "proto3"; import "other.proto";`,
		`syntax = "proto3"; message M { string a = 1; string a = 2; }`,
		`syntax = "proto3"; message M { string a = 0; }`,
	} {
		if _, err := descFromSource(bad); err == nil {
			t.Errorf("accepted: %s", strings.TrimSpace(bad))
		}
	}
}

// Behaviour-preserving rewrites of a .proto give the same fact tables: reordered
// imports / options / top-level and nested definitions, comments, optional
// trailing semicolons, fully-qualified vs relative names, explicit defaults
// (deprecated = false, packed = true in proto3, json_name spelled out), string
// escapes and split literals.
func TestEquivalentSpellings(t *testing.T) {
	a := `syntax = "proto3";
package a.b;
import "google/api/annotations.proto";
import "google/protobuf/timestamp.proto";
option go_package = "x/y";
service S {
  rpc Get(Req) returns (Resp) { option (google.api.http) = { get: "/b/{name}" }; }
}
enum E { E_ZERO = 0; ONE = 1; }
message Req {
  string name = 1;
  repeated int32 nums = 2;
  E e = 3;
  google.protobuf.Timestamp at = 4;
  message Inner { E e = 1; }
  Inner inner = 5;
}
message Resp { Req.Inner first_inner = 1; }
`
	b := `// reflowed
// comment
syntax = 'proto3';
option go_package = "x" "/y"; /* moved up */
package a.b;;
import 'google/protobuf/timestamp.proto';
import "google/api/annotations.proto";
message Resp { .a.b.Req.Inner first_inner = 1 [json_name = "firstInner"]; };
message Req {
  Inner inner = 5;
  message Inner { .a.b.E e = 0x1 [deprecated = false]; }
  .google.protobuf.Timestamp at = 4;
  b.E e = 3;
  repeated int32 nums = 2 [packed = true];
  string name = 1 [json_name = "n\141me"];
}
enum E { E_ZERO = 0; ONE = 1; }
service S {
  rpc Get(.a.b.Req) returns (a.b.Resp) { option (google.api.http) = { get: "/b/\x7bname}", }; };
}
`
	da, err := descFromSource(a)
	if err != nil {
		t.Fatal(err)
	}
	db, err := descFromSource(b)
	if err != nil {
		t.Fatal(err)
	}
	ka, kb := kvDesc(da), kvDesc(db)
	if len(ka) != len(kb) {
		t.Fatalf("%d facts vs %d", len(ka), len(kb))
	}
	for i := range ka {
		if ka[i] != kb[i] {
			t.Errorf("fact %d: %v vs %v", i, ka[i], kb[i])
		}
	}
	// and a semantic change is a different table
	c := strings.Replace(a, "string name = 1;", "string name = 6;", 1)
	dc, err := descFromSource(c)
	if err != nil {
		t.Fatal(err)
	}
	same := true
	for i, kv := range kvDesc(dc) {
		if kv != ka[i] {
			same = false
		}
	}
	if same {
		t.Error("field number change not visible")
	}
}
