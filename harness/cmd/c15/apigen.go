package main

// Streams and oracles of the API path (api.go, apiprobe.go).

import (
	"fmt"
	"math/rand"
	"strings"

	"verifharness/fw"
)

// ---- oracle api-direct: the API client and the documented pipeline agree

func apiDirectVerdict(ops, res []string) (bool, string) {
	if len(ops) != 2 {
		return false, ""
	}
	a, b := strings.Fields(ops[0]), strings.Fields(ops[1])
	if len(a) < 3 || len(b) < 3 || a[1] != "apireq" || b[1] != "apidirect" || strings.Join(a[2:], " ") != strings.Join(b[2:], " ") {
		return false, ""
	}
	for i, r := range res {
		if r == "panic" || r == "timeout" {
			return true, strings.Fields(ops[i])[1] + " did not return normally (" + r + ")"
		}
	}
	if res[0] != res[1] {
		return true, "APIClient.Requirements gives " + trunc(res[0], 600) + ", the documented pipeline on the same responses " + trunc(res[1], 600)
	}
	return false, ""
}

// ---- oracle deptype-roundtrip: MavenDepType follows the documented attribute rules and
// MavenDepTypeToDependency gives back the dependency, normalised

func normBack(d Dep) Dep {
	n := Dep{Cls: d.Cls}
	if d.Opt == "true" {
		n.Opt = "true"
	}
	switch d.Scope {
	case "", "compile":
	default:
		n.Scope = d.Scope
	}
	if d.Typ != "" && d.Typ != "jar" {
		n.Typ = d.Typ
	}
	for _, e := range d.Excl {
		if strings.Contains(e.G, "|") || strings.Contains(e.A, "|") {
			continue // documented: an exclusion containing a pipe is left out
		}
		g, a, _ := cutName(apiName(e.G, e.A))
		n.Excl = append(n.Excl, Excl{g, a})
	}
	return n
}

func depTypeVerdict(op, res string) (bool, string) {
	f := strings.Fields(op)
	if len(f) < 3 || f[1] != "deptype" {
		return false, ""
	}
	d, origin, ok := decodeDepOrigin(f[2:])
	if !ok {
		return false, ""
	}
	want := "ok T[" + specType(depOf(d), origin).String() + "] D" + fmtAst([]Dep{normBack(d)}) + "/o=" + fw.Hx(origin)
	if res != want {
		return true, "MavenDepType/MavenDepTypeToDependency give " + trunc(res, 400) + ", the documented rules " + trunc(want, 400)
	}
	return false, ""
}

// typeDepSpec: what MavenDepTypeToDependency has to answer on a Maven dep.Type, written from the
// documentation of the attributes: Test and Scope together are invalid; the exclusions attribute
// is a |-separated list of group:artifact, empty items ignored, an item without a colon invalid.
func typeDepSpec(t reqType) string {
	if t.Test && t.Scope != nil {
		return "err"
	}
	str := func(p *string) string {
		if p == nil {
			return ""
		}
		return *p
	}
	d := Dep{Typ: str(t.Typ), Cls: str(t.Cls), Scope: str(t.Scope)}
	if t.Test {
		d.Scope = "test"
	}
	if t.Opt {
		d.Opt = "true"
	}
	if t.Exc != nil {
		for _, seg := range strings.Split(*t.Exc, "|") {
			if seg == "" {
				continue
			}
			g, a, ok := cutName(seg)
			if !ok {
				return "err"
			}
			d.Excl = append(d.Excl, Excl{g, a})
		}
	}
	return "ok D" + fmtAst([]Dep{d}) + "/o=" + fw.Hx(str(t.Origin))
}

func typeDepVerdict(op, res string) (bool, string) {
	f := strings.Fields(op)
	if len(f) != 3 || f[1] != "typedep" {
		return false, ""
	}
	t, ok := parseType(f[2])
	if !ok {
		return false, ""
	}
	if want := typeDepSpec(t); res != want {
		return true, "MavenDepTypeToDependency gives " + trunc(res, 300) + ", the documented attribute format " + trunc(want, 300)
	}
	return false, ""
}

// ---- per lineage

func runAPI(c *fw.Ctx, enc string) {
	i, ra := c.Op("C15 apireq " + enc)
	j, _ := c.Op("C15 apidirect " + enc)
	c.Check("terminates", i, j)
	c.Check("api-direct", i, j)
	switch {
	case ra == "ok R[]":
		c.Count("api:empty")
	case strings.HasPrefix(ra, "ok"):
		c.Count("api:ok")
		c.Nontrivial(ra)
	default:
		c.Count("api:" + ra)
	}
}

// ---- generated dependencies and types

func encodeDepOrigin(d Dep, origin string) string {
	e := &enc{}
	e.deps([]Dep{d})
	e.s(origin)
	return strings.Join(e.t[1:], " ")
}

func genTypeDep(r *rand.Rand) (Dep, string) {
	d := Dep{G: pick(r, "g", "", "a:b"), A: pick(r, "x", ""), V: pick(r, "1", "", "${v}")}
	d.Scope = pick(r, "", "", "compile", "test", "runtime", "provided", "system", "import", "Test", "${s}")
	d.Typ = pick(r, "", "", "jar", "pom", "test-jar", "JAR")
	d.Cls = pick(r, "", "", "tests", "sources")
	d.Opt = pick(r, "", "true", "false", "TRUE", "${o}")
	for i, n := 0, []int{0, 0, 1, 1, 2, 3}[r.Intn(6)]; i < n; i++ {
		d.Excl = append(d.Excl, Excl{pick(r, "g", "g", "*", "h.i", "a|b", "a:b", ""), pick(r, "x", "y", "*", "y|z", "p:q", "")})
	}
	return d, pick(r, "", "", "import", "management", "parent", "x")
}

func optTok(r *rand.Rand, pre string, vals ...string) string {
	v := vals[r.Intn(len(vals))]
	if v == "~" {
		return pre + "~"
	}
	return pre + fw.Hx(v)
}

func genType(r *rand.Rand) string {
	return "m=" + pick(r, "0", "0", "1") + pick(r, "0", "1") + pick(r, "0", "0", "1") +
		"/" + optTok(r, "s=", "~", "~", "runtime", "provided", "", "test", "compile") +
		"/" + optTok(r, "c=", "~", "~", "tests", "") +
		"/" + optTok(r, "t=", "~", "~", "pom", "jar", "") +
		"/" + optTok(r, "o=", "~", "~", "import", "management", "") +
		"/" + optTok(r, "e=", "~", "~", "g:x", "g:x|h:y", "*:*", "", "nocolon", "g:x|", "|", "g:x|nocolon", ":", "a:b:c", "g:x||h:y")
}

func checkDepType(c *fw.Ctx, d Dep, origin string) {
	i, res := c.Op("C15 deptype " + encodeDepOrigin(d, origin))
	c.Check("deptype-roundtrip", i)
	c.Count("deptype")
	c.Nontrivial(res)
}

func runAPIStreams(c *fw.Ctx) {
	// the parent bound: chains around MaxMavenParent, with and without a cycle, as parents and as imports
	lens := []int{0, 1, 2, 3, 7, goMaxParent - 2, goMaxParent - 1, goMaxParent, goMaxParent + 1, goMaxParent + 2, goMaxParent + 50}
	for _, n := range lens {
		for _, imp := range []string{"0", "1"} {
			backs := []string{"x", "0", fmt.Sprint(n)}
			if n >= 2 {
				backs = append(backs, "1", fmt.Sprint(n/2))
			}
			for _, b := range backs {
				runAPI(c, fmt.Sprintf("C %d %s %s", n, b, imp))
				c.Count("api-chain")
			}
		}
	}
	// dependency types: a small-scope family, then random ones
	for _, sc := range []string{"", "compile", "test", "runtime"} {
		for _, ty := range []string{"", "jar", "pom"} {
			for _, op := range []string{"", "true", "false"} {
				for _, ex := range [][]Excl{nil, {{"g", "x"}}, {{"a|b", "x"}}, {{"g", "x"}, {"a|b", "y"}, {"*", "*"}}} {
					for _, o := range []string{"", "import"} {
						checkDepType(c, Dep{G: "g", A: "a", V: "1", Scope: sc, Typ: ty, Opt: op, Cls: pick(c.Rng, "", "tests"), Excl: ex}, o)
					}
				}
			}
		}
	}
	for i, n := 0, c.N(600, 20000); i < n; i++ {
		d, o := genTypeDep(c.Rng)
		checkDepType(c, d, o)
	}
	for i, n := 0, c.N(400, 10000); i < n; i++ {
		j, res := c.Op("C15 typedep " + genType(c.Rng))
		c.Check("api-total", j)
		c.Count("typedep:" + strings.Fields(res)[0])
	}
	// hostile responses (Go side only)
	for _, k := range probeKinds {
		ns := []int{0}
		switch k {
		case "cycle":
			ns = []int{0, 1, 2, 3, 50, goMaxParent - 1, goMaxParent, goMaxParent + 1}
		case "chain":
			ns = []int{0, 1, goMaxParent - 1, goMaxParent, goMaxParent + 1, 2 * goMaxParent}
		case "propcycle", "hugeprops", "dupdeps":
			ns = []int{0, 1, 2, 5, 12}
		case "imports":
			ns = []int{1, 2, 50, 299, 300, 301, 350}
		}
		for _, n := range ns {
			i, res := c.Opf("C15 probe api %s %d", k, n)
			c.Check("api-total", i)
			c.Count("api-probe:" + strings.Fields(res)[0])
		}
	}
}
