package main

// Optional validation of the reference semantics (ref.go, and through the `ref`
// op the Lean spec) against Maven's real model builder. Guarded by the existence
// of javac/java and the Maven jars; never fails the check.

import (
	"bufio"
	"context"
	"fmt"
	"os"
	"os/exec"
	"path/filepath"
	"strings"
	"time"

	"deps.dev/util/maven"
	"verifharness/fw"
)

const mavenLib = "/usr/share/maven/lib"

func plainPath(s string) bool {
	if s == "" || s == "." || s == ".." {
		return false
	}
	for i := 0; i < len(s); i++ {
		c := s[i]
		if !(c >= 'a' && c <= 'z' || c >= 'A' && c <= 'Z' || c >= '0' && c <= '9' || c == '.' || c == '-' || c == '_') {
			return false
		}
	}
	return true
}

// the spellings Maven is shown (the value-preserving ones; booleans stay lower case because Maven's
// model keeps <optional> as the string it read)
var mavenStyles = []int{stEmptySelf, stEmptyBlank | stBlanks, stCDATA | stComment, stCharRef | stBlanks, stUnknown, stDupProp | stEmptySelf,
	stEmptySelf | stBlanks | stCDATA | stCharRef | stComment | stUnknown | stDupProp}

func writeCase(dir string, l *Lineage, st int) bool {
	if err := os.MkdirAll(dir, 0o755); err != nil {
		return false
	}
	if err := os.WriteFile(filepath.Join(dir, "child.pom"), []byte(l.Root.RenderStyle(st)), 0o644); err != nil {
		return false
	}
	seen := map[Key]bool{}
	for i := range l.Repo {
		k := l.Repo[i].storeKey()
		if seen[k] {
			continue
		}
		seen[k] = true
		if !plainPath(k.G) || !plainPath(k.A) || !plainPath(k.V) {
			return false
		}
		p := filepath.Join(dir, "repo", strings.ReplaceAll(k.G, ".", "/"), k.A, k.V)
		if err := os.MkdirAll(p, 0o755); err != nil {
			return false
		}
		if err := os.WriteFile(filepath.Join(p, k.A+"-"+k.V+".pom"), []byte(l.Repo[i].RenderStyle(st)), 0o644); err != nil {
			return false
		}
	}
	return true
}

func mavenValidate(c *fw.Ctx, cases []*Lineage) {
	javac, err1 := exec.LookPath("javac")
	java, err2 := exec.LookPath("java")
	jars, _ := filepath.Glob(filepath.Join(mavenLib, "maven-model-builder*.jar"))
	if err1 != nil || err2 != nil || len(jars) == 0 || len(cases) == 0 {
		c.Note("ref_validation: Maven model builder not available (javac/java/" + mavenLib + "); the reference semantics was not compared with Maven in this run")
		return
	}
	wd, _ := os.Getwd() // /verif/harness
	base := filepath.Join(filepath.Dir(wd), "work", "c15-ref")
	src := filepath.Join(wd, "refs", "c15", "C15MavenRef.java")
	classes := filepath.Join(base, "classes")
	cp := classes + ":" + mavenLib + "/*"
	si, err := os.Stat(src)
	if err != nil {
		c.Note("ref_validation: adapter source missing")
		return
	}
	if ci, err := os.Stat(filepath.Join(classes, "C15MavenRef.class")); err != nil || ci.ModTime().Before(si.ModTime()) {
		os.MkdirAll(classes, 0o755)
		ctx, cancel := context.WithTimeout(context.Background(), 120*time.Second)
		out, err := exec.CommandContext(ctx, javac, "-nowarn", "-cp", mavenLib+"/*", "-d", classes, src).CombinedOutput()
		cancel()
		if err != nil {
			c.Note("ref_validation: the adapter does not compile against this Maven: " + firstLine(string(out)))
			return
		}
	}
	root := filepath.Join(base, fmt.Sprintf("cases-%s-%d", c.Tier, c.Seed))
	os.RemoveAll(root)
	var kept []*Lineage
	styled := 0
	for i, l := range cases {
		st := 0
		if i%2 == 1 { // every second lineage in another spelling
			st = mavenStyles[(i/2)%len(mavenStyles)]
		}
		if writeCase(filepath.Join(root, fmt.Sprint(len(kept))), l, st) {
			kept = append(kept, l)
			if st != 0 {
				styled++
			}
		}
	}
	ctx, cancel := context.WithTimeout(context.Background(), 600*time.Second)
	out, err := exec.CommandContext(ctx, java, "-cp", cp, "C15MavenRef", root, fmt.Sprint(len(kept)), maven.JDKProfileActivation).CombinedOutput()
	cancel()
	if err != nil {
		c.Note("ref_validation: the adapter failed: " + firstLine(string(out)))
		return
	}
	f, err := os.Open(filepath.Join(root, "mvn.out"))
	if err != nil {
		c.Note("ref_validation: no adapter output")
		return
	}
	defer f.Close()
	env := libEnv()
	results := map[int]string{}
	cur := -1
	rd := bufio.NewReaderSize(f, 1<<20)
	for {
		line, err := rd.ReadString('\n')
		line = strings.TrimRight(line, "\n")
		switch {
		case strings.HasPrefix(line, "ENV "):
			p := strings.Fields(line)
			if len(p) == 4 {
				env.OSName, env.OSArch, env.OSVersion = fw.Unhx(p[1]), fw.Unhx(p[2]), fw.Unhx(p[3])
			}
		case strings.HasPrefix(line, "CASE "):
			fmt.Sscan(line[5:], &cur)
		case line != "" && cur >= 0:
			if _, dup := results[cur]; !dup {
				results[cur] = line
			}
		}
		if err != nil {
			break
		}
	}
	agree, bothInvalid, validity, differ := 0, 0, 0, 0
	var examples []string
	for i, l := range kept {
		res, ok := results[i]
		if !ok {
			continue
		}
		rdeps, rmgmt, rvalid := refEffective(l, env)
		mvalid := strings.HasPrefix(res, "ok ")
		switch {
		case !mvalid && !rvalid:
			bothInvalid++
		case mvalid != rvalid:
			validity++
			if len(examples) < 6 {
				examples = append(examples, fmt.Sprintf("validity: reference valid=%v, Maven says %q on C15 ref %s", rvalid, trunc(res, 200), l.Encode()))
			}
		default:
			md, mm, ok := parseResult(res)
			if ok && sameDeps(canon(md, true), canon(rdeps, true)) && sameDeps(canon(mm, false), canon(rmgmt, false)) {
				agree++
			} else {
				differ++
				if len(examples) < 6 {
					examples = append(examples, fmt.Sprintf("differ: Maven deps %s mgmt %s, reference deps %s mgmt %s on C15 ref %s",
						show(canon(md, true)), show(canon(mm, false)), show(canon(rdeps, true)), show(canon(rmgmt, false)), l.Encode()))
				}
			}
		}
	}
	c.Note(fmt.Sprintf("ref_validation: Maven %s model builder present; %d lineages compared, %d of them in a non-canonical XML spelling (empty-element forms, blanks, CDATA, character references, comments, unknown elements/attributes, duplicate properties) (OS seen by Maven: %s/%s): %d agree field for field, %d rejected by both, %d validity mismatches, %d differ",
		filepath.Base(jars[0]), len(kept), styled, env.OSName, env.OSArch, agree, bothInvalid, validity, differ))
	for _, e := range examples {
		c.Note("ref_validation " + e)
	}
	os.RemoveAll(root)
}

func firstLine(s string) string {
	s = strings.TrimSpace(s)
	if i := strings.IndexByte(s, '\n'); i >= 0 {
		s = s[:i]
	}
	return trunc(s, 300)
}

func trunc(s string, n int) string {
	if len(s) > n {
		return s[:n] + "…"
	}
	return s
}
