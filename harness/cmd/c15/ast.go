package main

// The POM subset of property C15 as an abstract syntax tree, its wire encoding
// (a flat token stream, strings hex-encoded) and its rendering to pom.xml text.
// Mirrors lean/DepsDev/Model/Maven/Types.lean.

import (
	"fmt"
	"strconv"
	"strings"

	"verifharness/fw"
)

type Key struct{ G, A, V string }

type Excl struct{ G, A string }

type Dep struct {
	G, A, V, Typ, Cls, Scope, Opt string
	Excl                          []Excl
}

// Jdk: Kind 0 absent, 1 simple (Neg), 2 range.
type Jdk struct {
	Kind           int
	Neg            bool
	V              []int
	LoIncl, HiIncl bool
	Lo, Hi         []int // nil = open end
}

type OS struct{ Name, Family, Arch, Version string }

type Prop struct{ K, V string }

type Profile struct {
	Abd   string
	Jdk   Jdk
	OS    OS
	Props []Prop
	Deps  []Dep
	Mgmt  []Dep
}

type Pom struct {
	G, A, V   string
	Parent    Key
	Packaging string
	Props     []Prop
	Deps      []Dep
	Mgmt      []Dep
	Profiles  []Profile
}

type Lineage struct {
	Root Pom
	Repo []Pom
}

func (p *Pom) storeKey() Key {
	k := Key{p.G, p.A, p.V}
	if k.G == "" {
		k.G = p.Parent.G
	}
	if k.V == "" {
		k.V = p.Parent.V
	}
	return k
}

// ---- encoding

type enc struct{ t []string }

func (e *enc) s(x string) { e.t = append(e.t, fw.Hx(x)) }
func (e *enc) n(x int)    { e.t = append(e.t, strconv.Itoa(x)) }
func (e *enc) w(x string) { e.t = append(e.t, x) }

func numsText(v []int) string {
	p := make([]string, len(v))
	for i, x := range v {
		p[i] = strconv.Itoa(x)
	}
	return strings.Join(p, ".")
}

// Text is the <jdk> element text.
func (j Jdk) Text() string {
	switch j.Kind {
	case 1:
		if j.Neg {
			return "!" + numsText(j.V)
		}
		return numsText(j.V)
	case 2:
		var b strings.Builder
		if j.LoIncl {
			b.WriteByte('[')
		} else {
			b.WriteByte('(')
		}
		if j.Lo != nil {
			b.WriteString(numsText(j.Lo))
		}
		b.WriteByte(',')
		if j.Hi != nil {
			b.WriteString(numsText(j.Hi))
		}
		if j.HiIncl {
			b.WriteByte(']')
		} else {
			b.WriteByte(')')
		}
		return b.String()
	}
	return ""
}

func (j Jdk) token() string {
	switch j.Kind {
	case 1:
		if j.Neg {
			return "n" + numsText(j.V)
		}
		return "s" + numsText(j.V)
	case 2:
		return "r" + j.Text()
	}
	return "-"
}

func (e *enc) props(ps []Prop) {
	e.n(len(ps))
	for _, p := range ps {
		e.s(p.K)
		e.s(p.V)
	}
}

func (e *enc) deps(ds []Dep) {
	e.n(len(ds))
	for _, d := range ds {
		e.w("D")
		for _, x := range []string{d.G, d.A, d.V, d.Typ, d.Cls, d.Scope, d.Opt} {
			e.s(x)
		}
		e.n(len(d.Excl))
		for _, x := range d.Excl {
			e.s(x.G)
			e.s(x.A)
		}
	}
}

func (e *enc) pom(p *Pom) {
	e.w("P")
	for _, x := range []string{p.G, p.A, p.V, p.Parent.G, p.Parent.A, p.Parent.V, p.Packaging} {
		e.s(x)
	}
	e.props(p.Props)
	e.deps(p.Deps)
	e.deps(p.Mgmt)
	e.n(len(p.Profiles))
	for _, f := range p.Profiles {
		e.w("F")
		e.s(f.Abd)
		e.w(f.Jdk.token())
		for _, x := range []string{f.OS.Name, f.OS.Family, f.OS.Arch, f.OS.Version} {
			e.s(x)
		}
		e.props(f.Props)
		e.deps(f.Deps)
		e.deps(f.Mgmt)
	}
}

// Encode renders the lineage as the token stream "L <n> pom…" (root first).
func (l *Lineage) Encode() string {
	e := &enc{}
	e.w("L")
	e.n(1 + len(l.Repo))
	e.pom(&l.Root)
	for i := range l.Repo {
		e.pom(&l.Repo[i])
	}
	return strings.Join(e.t, " ")
}

func encodeTable(ps []Prop) string {
	e := &enc{}
	e.props(ps)
	return strings.Join(e.t, " ")
}

// ---- decoding (strict: anything unexpected is an error)

type dec struct {
	t   []string
	bad bool
}

func (d *dec) next() string {
	if len(d.t) == 0 {
		d.bad = true
		return ""
	}
	x := d.t[0]
	d.t = d.t[1:]
	return x
}

func isHexLower(s string) bool {
	if s == "-" {
		return true
	}
	if len(s) == 0 || len(s)%2 != 0 {
		return false
	}
	for i := 0; i < len(s); i++ {
		c := s[i]
		if !(c >= '0' && c <= '9' || c >= 'a' && c <= 'f') {
			return false
		}
	}
	return true
}

func (d *dec) s() string {
	x := d.next()
	if d.bad || !isHexLower(x) {
		d.bad = true
		return ""
	}
	return fw.Unhx(x)
}

// canonical decimal, at most 4 digits
func parseNat(x string) (int, bool) {
	if len(x) == 0 || len(x) > 4 {
		return 0, false
	}
	if len(x) > 1 && x[0] == '0' {
		return 0, false
	}
	n := 0
	for i := 0; i < len(x); i++ {
		if x[i] < '0' || x[i] > '9' {
			return 0, false
		}
		n = n*10 + int(x[i]-'0')
	}
	return n, true
}

func (d *dec) n() int {
	x := d.next()
	n, ok := parseNat(x)
	if d.bad || !ok {
		d.bad = true
		return 0
	}
	return n
}

func (d *dec) lit(w string) {
	if d.next() != w {
		d.bad = true
	}
}

// 1 to 5 dot separated canonical naturals
func parseNums(x string) ([]int, bool) {
	parts := strings.Split(x, ".")
	if len(parts) < 1 || len(parts) > 5 {
		return nil, false
	}
	v := make([]int, len(parts))
	for i, p := range parts {
		n, ok := parseNat(p)
		if !ok {
			return nil, false
		}
		v[i] = n
	}
	return v, true
}

func parseJdk(x string) (Jdk, bool) {
	if x == "-" {
		return Jdk{}, true
	}
	if len(x) < 2 {
		return Jdk{}, false
	}
	switch x[0] {
	case 's', 'n':
		v, ok := parseNums(x[1:])
		return Jdk{Kind: 1, Neg: x[0] == 'n', V: v}, ok
	case 'r':
		body := x[1:]
		if len(body) < 3 {
			return Jdk{}, false
		}
		j := Jdk{Kind: 2}
		switch body[0] {
		case '[':
			j.LoIncl = true
		case '(':
		default:
			return Jdk{}, false
		}
		switch body[len(body)-1] {
		case ']':
			j.HiIncl = true
		case ')':
		default:
			return Jdk{}, false
		}
		lo, hi, ok := strings.Cut(body[1:len(body)-1], ",")
		if !ok {
			return Jdk{}, false
		}
		if lo != "" {
			v, ok := parseNums(lo)
			if !ok {
				return Jdk{}, false
			}
			j.Lo = v
		}
		if hi != "" {
			v, ok := parseNums(hi)
			if !ok {
				return Jdk{}, false
			}
			j.Hi = v
		}
		return j, true
	}
	return Jdk{}, false
}

const maxList = 64
const maxTable = 512

func (d *dec) count() int {
	n := d.n()
	if n > maxList {
		d.bad = true
		return 0
	}
	return n
}

func (d *dec) props() []Prop {
	n := d.n()
	if n > maxTable {
		d.bad = true
		return nil
	}
	var ps []Prop
	for i := 0; i < n && !d.bad; i++ {
		k := d.s()
		v := d.s()
		ps = append(ps, Prop{k, v})
	}
	return ps
}

func (d *dec) deps() []Dep {
	n := d.count()
	var ds []Dep
	for i := 0; i < n && !d.bad; i++ {
		d.lit("D")
		x := Dep{G: d.s(), A: d.s(), V: d.s(), Typ: d.s(), Cls: d.s(), Scope: d.s(), Opt: d.s()}
		m := d.count()
		for k := 0; k < m && !d.bad; k++ {
			x.Excl = append(x.Excl, Excl{d.s(), d.s()})
		}
		ds = append(ds, x)
	}
	return ds
}

func (d *dec) pom() Pom {
	d.lit("P")
	p := Pom{G: d.s(), A: d.s(), V: d.s()}
	p.Parent = Key{d.s(), d.s(), d.s()}
	p.Packaging = d.s()
	p.Props = d.props()
	p.Deps = d.deps()
	p.Mgmt = d.deps()
	n := d.count()
	for i := 0; i < n && !d.bad; i++ {
		d.lit("F")
		f := Profile{Abd: d.s()}
		j, ok := parseJdk(d.next())
		if !ok {
			d.bad = true
		}
		f.Jdk = j
		f.OS = OS{d.s(), d.s(), d.s(), d.s()}
		f.Props = d.props()
		f.Deps = d.deps()
		f.Mgmt = d.deps()
		p.Profiles = append(p.Profiles, f)
	}
	return p
}

func decodeLineage(tok []string) (*Lineage, bool) {
	d := &dec{t: tok}
	d.lit("L")
	n := d.count()
	if d.bad || n < 1 {
		return nil, false
	}
	l := &Lineage{}
	l.Root = d.pom()
	for i := 1; i < n && !d.bad; i++ {
		l.Repo = append(l.Repo, d.pom())
	}
	if d.bad || len(d.t) != 0 {
		return nil, false
	}
	return l, true
}

// decodeTable reads "n (k v)*" and returns the remaining tokens.
func decodeTable(tok []string) ([]Prop, []string, bool) {
	d := &dec{t: tok}
	ps := d.props()
	return ps, d.t, !d.bad
}

// ---- well-formedness: the strings on which XML decoding is the identity

// text: printable ASCII without space and without the XML specials < > &
func okText(s string) bool {
	for i := 0; i < len(s); i++ {
		c := s[i]
		if c < 0x21 || c > 0x7e || c == '<' || c == '>' || c == '&' {
			return false
		}
	}
	return true
}

// XML element name usable as a property name
func okName(s string) bool {
	if s == "" {
		return false
	}
	for i := 0; i < len(s); i++ {
		c := s[i]
		letter := c >= 'a' && c <= 'z' || c >= 'A' && c <= 'Z' || c == '_'
		if i == 0 && !letter {
			return false
		}
		if !(letter || c >= '0' && c <= '9' || c == '.' || c == '-') {
			return false
		}
	}
	return true
}

// FalsyBool.UnmarshalXML accepts "", "true", "false" (any case: only lower case is
// inside the subset) or a text containing "${" and "}".
func okBool(s string) bool {
	if s == "" || s == "true" || s == "false" {
		return true
	}
	return okText(s) && strings.Contains(s, "${") && strings.Contains(s, "}")
}

func cmpNums(a, b []int) int {
	for i := 0; i < len(a) || i < len(b); i++ {
		x, y := 0, 0
		if i < len(a) {
			x = a[i]
		}
		if i < len(b) {
			y = b[i]
		}
		if x != y {
			if x < y {
				return -1
			}
			return 1
		}
	}
	return 0
}

func okJdk(j Jdk) bool {
	if j.Kind == 2 {
		if j.Lo == nil && j.Hi == nil {
			return false
		}
		if j.Lo != nil && j.Hi != nil && cmpNums(j.Lo, j.Hi) >= 0 {
			return false
		}
	}
	return true
}

func okDeps(ds []Dep) bool {
	for _, d := range ds {
		for _, x := range []string{d.G, d.A, d.V, d.Typ, d.Cls, d.Scope} {
			if !okText(x) {
				return false
			}
		}
		if !okBool(d.Opt) {
			return false
		}
		for _, e := range d.Excl {
			if !okText(e.G) || !okText(e.A) {
				return false
			}
		}
	}
	return true
}

func okProps(ps []Prop) bool {
	for _, p := range ps {
		if !okName(p.K) || !okText(p.V) {
			return false
		}
	}
	return true
}

func (p *Pom) wf() bool {
	for _, x := range []string{p.G, p.A, p.V, p.Parent.G, p.Parent.A, p.Parent.V, p.Packaging} {
		if !okText(x) {
			return false
		}
	}
	if !okProps(p.Props) || !okDeps(p.Deps) || !okDeps(p.Mgmt) {
		return false
	}
	for _, f := range p.Profiles {
		if !okBool(f.Abd) || !okJdk(f.Jdk) || !okProps(f.Props) || !okDeps(f.Deps) || !okDeps(f.Mgmt) {
			return false
		}
		for _, x := range []string{f.OS.Name, f.OS.Family, f.OS.Arch, f.OS.Version} {
			if !okText(x) {
				return false
			}
		}
	}
	return true
}

func (l *Lineage) wf() bool {
	if !l.Root.wf() {
		return false
	}
	for i := range l.Repo {
		if !l.Repo[i].wf() {
			return false
		}
	}
	return true
}

// ---- rendering to pom.xml (inputs are wf, so no escaping is needed)

func el(b *strings.Builder, name, v string) {
	if v != "" {
		fmt.Fprintf(b, "<%s>%s</%s>", name, v, name)
	}
}

func renderProps(b *strings.Builder, ps []Prop) {
	if len(ps) == 0 {
		return
	}
	b.WriteString("<properties>")
	for _, p := range ps {
		fmt.Fprintf(b, "<%s>%s</%s>", p.K, p.V, p.K)
	}
	b.WriteString("</properties>")
}

func renderDepList(b *strings.Builder, ds []Dep) {
	if len(ds) == 0 {
		return
	}
	b.WriteString("<dependencies>")
	for _, d := range ds {
		b.WriteString("<dependency>")
		el(b, "groupId", d.G)
		el(b, "artifactId", d.A)
		el(b, "version", d.V)
		el(b, "type", d.Typ)
		el(b, "classifier", d.Cls)
		el(b, "scope", d.Scope)
		el(b, "optional", d.Opt)
		if len(d.Excl) > 0 {
			b.WriteString("<exclusions>")
			for _, e := range d.Excl {
				b.WriteString("<exclusion>")
				el(b, "groupId", e.G)
				el(b, "artifactId", e.A)
				b.WriteString("</exclusion>")
			}
			b.WriteString("</exclusions>")
		}
		b.WriteString("</dependency>")
	}
	b.WriteString("</dependencies>")
}

func renderBase(b *strings.Builder, ps []Prop, deps, mgmt []Dep) {
	renderProps(b, ps)
	if len(mgmt) > 0 {
		b.WriteString("<dependencyManagement>")
		renderDepList(b, mgmt)
		b.WriteString("</dependencyManagement>")
	}
	renderDepList(b, deps)
}

// Render is the pom.xml text of p.
func (p *Pom) Render() string {
	var b strings.Builder
	b.WriteString("<project><modelVersion>4.0.0</modelVersion>")
	if p.Parent != (Key{}) {
		b.WriteString("<parent>")
		el(&b, "groupId", p.Parent.G)
		el(&b, "artifactId", p.Parent.A)
		el(&b, "version", p.Parent.V)
		b.WriteString("</parent>")
	}
	el(&b, "groupId", p.G)
	el(&b, "artifactId", p.A)
	el(&b, "version", p.V)
	el(&b, "packaging", p.Packaging)
	renderBase(&b, p.Props, p.Deps, p.Mgmt)
	if len(p.Profiles) > 0 {
		b.WriteString("<profiles>")
		for i, f := range p.Profiles {
			fmt.Fprintf(&b, "<profile><id>p%d</id><activation>", i)
			el(&b, "activeByDefault", f.Abd)
			el(&b, "jdk", f.Jdk.Text())
			if f.OS != (OS{}) {
				b.WriteString("<os>")
				el(&b, "name", f.OS.Name)
				el(&b, "family", f.OS.Family)
				el(&b, "arch", f.OS.Arch)
				el(&b, "version", f.OS.Version)
				b.WriteString("</os>")
			}
			b.WriteString("</activation>")
			renderBase(&b, f.Props, f.Deps, f.Mgmt)
			b.WriteString("</profile>")
		}
		b.WriteString("</profiles>")
	}
	b.WriteString("</project>")
	return b.String()
}
