package main

// The SECOND instance of the documented pipeline: (*APIClient).Requirements for
// Maven (util/resolve/maven.go: mavenRequirements, fetchMavenParents,
// mavenRequirementsToProject, MavenDepType, MavenDepTypeToDependency) driven over
// a fake Insights service that serves a lineage as pb.Requirements responses.
//
//	apireq    <lineage>  the real APIClient over the fake                       (Lean: Api.apiRequirements)
//	apidirect <lineage>  the documented pipeline (pipeline.go: XML decoding, the example's mergeParents)
//	                     on the API's view of the same lineage with the API's activation (no JDK, no OS:
//	                     default profiles only), rendered through the dependency-type rules below,
//	                     which are written from the documentation of dep.AttrKey, not by calling
//	                     MavenDepType                                           (Lean: Api.directOnView)
//	deptype   <dep> <origin>   MavenDepType, then MavenDepTypeToDependency on its result
//	typedep   <type>           MavenDepTypeToDependency on an arbitrary Maven dep.Type
//
// <lineage> is the token stream of ast.go or the compact form `C <n> <back|x> <0|1>` (chainLineage).

import (
	"context"
	"errors"
	"fmt"
	"strconv"
	"strings"
	"time"

	pb "deps.dev/api/v3"
	"deps.dev/util/maven"
	"deps.dev/util/resolve"
	"deps.dev/util/resolve/dep"
	"google.golang.org/grpc"
	"google.golang.org/grpc/codes"
	"google.golang.org/grpc/status"

	"verifharness/fw"
)

// ---- names: the API names a Maven package "group:artifact"

func apiName(g, a string) string { return g + ":" + a }

// cutName: what maven.MakeProjectKey does to a name that contains a colon (written here
// independently: the first colon separates group and artifact).
func cutName(name string) (g, a string, ok bool) {
	i := strings.IndexByte(name, ':')
	if i < 0 {
		return "", "", false
	}
	return name[:i], name[i+1:], true
}

func cutKey(k Key) Key {
	g, a, _ := cutName(apiName(k.G, k.A))
	return Key{g, a, k.V}
}

// ---- a lineage as API responses

func pbDepList(ds []Dep) []*pb.Requirements_Maven_Dependency {
	var out []*pb.Requirements_Maven_Dependency
	for _, d := range ds {
		x := &pb.Requirements_Maven_Dependency{
			Name: apiName(d.G, d.A), Version: d.V, Classifier: d.Cls, Type: d.Typ, Scope: d.Scope, Optional: d.Opt,
		}
		for _, e := range d.Excl {
			x.Exclusions = append(x.Exclusions, apiName(e.G, e.A))
		}
		out = append(out, x)
	}
	return out
}

func pbPropList(ps []Prop) []*pb.Requirements_Maven_Property {
	var out []*pb.Requirements_Maven_Property
	for _, p := range ps {
		out = append(out, &pb.Requirements_Maven_Property{Name: p.K, Value: p.V})
	}
	return out
}

// pbMaven: everything of the POM that pb.Requirements_Maven can carry (no own
// coordinates: the service is asked by name and version; no packaging).
func pbMaven(p *Pom) *pb.Requirements_Maven {
	m := &pb.Requirements_Maven{
		Dependencies:         pbDepList(p.Deps),
		DependencyManagement: pbDepList(p.Mgmt),
		Properties:           pbPropList(p.Props),
	}
	if p.Parent != (Key{}) {
		m.Parent = &pb.VersionKey{System: pb.System_MAVEN, Name: apiName(p.Parent.G, p.Parent.A), Version: p.Parent.V}
	}
	for i, f := range p.Profiles {
		act := &pb.Requirements_Maven_Profile_Activation{ActiveByDefault: f.Abd}
		if f.Jdk.Kind != 0 {
			act.Jdk = &pb.Requirements_Maven_Profile_Activation_JDK{Jdk: f.Jdk.Text()}
		}
		if f.OS != (OS{}) {
			act.Os = &pb.Requirements_Maven_Profile_Activation_OS{Name: f.OS.Name, Family: f.OS.Family, Arch: f.OS.Arch, Version: f.OS.Version}
		}
		m.Profiles = append(m.Profiles, &pb.Requirements_Maven_Profile{
			Id: fmt.Sprintf("p%d", i), Activation: act,
			Dependencies: pbDepList(f.Deps), DependencyManagement: pbDepList(f.Mgmt), Properties: pbPropList(f.Props),
		})
	}
	return m
}

type nv struct{ name, version string }

// mvnFake serves GetRequirements for Maven from a table; anything else is NotFound.
type mvnFake struct {
	pb.InsightsClient // every other method: nil-pointer panic (never called)
	resp              map[nv]*pb.Requirements
	fail              map[nv]error // an RPC error other than NotFound
	calls             int
}

func (f *mvnFake) put(name, version string, r *pb.Requirements) {
	k := nv{name, version}
	if _, dup := f.resp[k]; !dup { // first response stored under a name and version wins
		f.resp[k] = r
	}
}

func (f *mvnFake) GetRequirements(ctx context.Context, in *pb.GetRequirementsRequest, _ ...grpc.CallOption) (*pb.Requirements, error) {
	f.calls++
	if err := ctx.Err(); err != nil {
		return nil, err
	}
	k := nv{in.VersionKey.Name, in.VersionKey.Version}
	if err, ok := f.fail[k]; ok {
		return nil, err
	}
	r, ok := f.resp[k]
	if !ok || in.VersionKey.System != pb.System_MAVEN {
		return nil, status.Error(codes.NotFound, "not found")
	}
	return r, nil
}

func newFake() *mvnFake { return &mvnFake{resp: map[nv]*pb.Requirements{}, fail: map[nv]error{}} }

// all POMs of the lineage, the project first (it is served under its own coordinates too)
func (l *Lineage) all() []*Pom {
	out := []*Pom{&l.Root}
	for i := range l.Repo {
		out = append(out, &l.Repo[i])
	}
	return out
}

func fakeOf(l *Lineage) *mvnFake {
	f := newFake()
	for _, p := range l.all() {
		k := p.storeKey()
		f.put(apiName(k.G, k.A), k.V, &pb.Requirements{Maven: pbMaven(p)})
	}
	return f
}

// ---- canonical rendering of a requirement list

func optHx(s string, ok bool) string {
	if !ok {
		return "~"
	}
	return fw.Hx(s)
}

// reqType is the Maven part of a dep.Type: the three flag attributes and the five
// valued ones, in key order (Scope 3, MavenClassifier 4, MavenArtifactType 5,
// MavenDependencyOrigin 6, MavenExclusions 9). A nil pointer = attribute absent.
type reqType struct {
	Dev, Opt, Test               bool
	Scope, Cls, Typ, Origin, Exc *string
}

func sp(s string) *string { return &s }

func optP(p *string) string {
	if p == nil {
		return "~"
	}
	return fw.Hx(*p)
}

func (t reqType) String() string {
	return "m=" + b01(t.Dev) + b01(t.Opt) + b01(t.Test) + "/s=" + optP(t.Scope) + "/c=" + optP(t.Cls) + "/t=" + optP(t.Typ) +
		"/o=" + optP(t.Origin) + "/e=" + optP(t.Exc)
}

func typeOf(t dep.Type) (reqType, bool) {
	var r reqType
	var flags []dep.AttrKey
	for _, k := range []dep.AttrKey{dep.Dev, dep.Opt, dep.Test} {
		if t.HasAttr(k) {
			flags = append(flags, k)
		}
	}
	r.Dev, r.Opt, r.Test = t.HasAttr(dep.Dev), t.HasAttr(dep.Opt), t.HasAttr(dep.Test)
	want := dep.NewType(flags...)
	get := func(k dep.AttrKey) *string {
		if v, ok := t.GetAttr(k); ok {
			want.AddAttr(k, v)
			return &v
		}
		return nil
	}
	r.Scope, r.Cls, r.Typ, r.Origin, r.Exc = get(dep.Scope), get(dep.MavenClassifier), get(dep.MavenArtifactType), get(dep.MavenDependencyOrigin), get(dep.MavenExclusions)
	return r, want.Equal(t) // false: the type carries an attribute outside the Maven set
}

func fmtType(t dep.Type) string {
	r, exact := typeOf(t)
	s := r.String()
	if !exact {
		s += "/x"
	}
	return s
}

func fmtReq(name, version string, typ string) string {
	return fw.Hx(name) + "/" + fw.Hx(version) + "/" + typ
}

func fmtReqs(rs []resolve.RequirementVersion) string {
	out := make([]string, len(rs))
	for i, r := range rs {
		s := fmtReq(r.Name, r.Version, fmtType(r.Type))
		if r.System != resolve.Maven || r.VersionType != resolve.Requirement {
			s += "/k"
		}
		out[i] = s
	}
	return "R[" + strings.Join(out, "+") + "]"
}

// ---- apireq: the real client

const apiDeadline = 5 * time.Second

func callRequirements(f *mvnFake, sys resolve.System, name, version string) (res string) {
	defer func() {
		if r := recover(); r != nil {
			res = "panic"
		}
	}()
	ctx, cancel := context.WithTimeout(context.Background(), apiDeadline)
	defer cancel()
	vk := resolve.VersionKey{PackageKey: resolve.PackageKey{System: sys, Name: name}, VersionType: resolve.Concrete, Version: version}
	rs, err := resolve.NewAPIClient(f).Requirements(ctx, vk)
	if err != nil {
		if errors.Is(err, context.DeadlineExceeded) {
			return "timeout"
		}
		return "err"
	}
	return "ok " + fmtReqs(rs)
}

func runAPIReq(l *Lineage) string {
	k := l.Root.storeKey()
	return callRequirements(fakeOf(l), resolve.Maven, apiName(k.G, k.A), k.V)
}

// ---- apidirect: the documented pipeline on the API's view of the lineage

func viewDeps(ds []Dep) []Dep {
	var out []Dep
	for _, d := range ds {
		v := d
		v.G, v.A, _ = cutName(apiName(d.G, d.A))
		v.Excl = nil
		for _, e := range d.Excl {
			g, a, _ := cutName(apiName(e.G, e.A))
			v.Excl = append(v.Excl, Excl{g, a})
		}
		out = append(out, v)
	}
	return out
}

// viewPom: the POM as a client of the API sees it when it asks for the coordinates k:
// the coordinates are k's (own groupId/version are not transported), names went through
// "group:artifact" strings, packaging is not transported (the example's mergeParents
// insists on "pom" for parents, so that is what the view says).
func viewPom(p *Pom, k Key) Pom {
	v := Pom{G: k.G, A: k.A, V: k.V, Packaging: "pom", Parent: cutKey(p.Parent), Props: p.Props, Deps: viewDeps(p.Deps), Mgmt: viewDeps(p.Mgmt)}
	for _, f := range p.Profiles {
		g := f
		g.Deps, g.Mgmt = viewDeps(f.Deps), viewDeps(f.Mgmt)
		v.Profiles = append(v.Profiles, g)
	}
	return v
}

// the documented dependency-type rules (doc comments of dep.AttrKey in util/resolve/dep/key.go):
// optional=true → Opt; scope test → Test; scopes compile/empty are regular; other scopes → Scope;
// type other than jar/empty → MavenArtifactType; classifier → MavenClassifier; exclusions →
// "g:a|g:a" with exclusions containing a pipe left out; origin only when not direct.
func specType(d maven.Dependency, origin string) reqType {
	var t reqType
	if d.Optional == "true" {
		t.Opt = true
	}
	switch d.Scope {
	case "test":
		t.Test = true
	case "", "compile":
	default:
		t.Scope = sp(string(d.Scope))
	}
	if d.Type != "" && d.Type != "jar" {
		t.Typ = sp(string(d.Type))
	}
	if d.Classifier != "" {
		t.Cls = sp(string(d.Classifier))
	}
	if len(d.Exclusions) > 0 {
		var parts []string
		for _, e := range d.Exclusions {
			if strings.ContainsRune(string(e.GroupID), '|') || strings.ContainsRune(string(e.ArtifactID), '|') {
				continue
			}
			parts = append(parts, string(e.GroupID)+":"+string(e.ArtifactID))
		}
		t.Exc = sp(strings.Join(parts, "|"))
	}
	if origin != "" {
		t.Origin = sp(origin)
	}
	return t
}

func runAPIDirect(l *Lineage) string {
	byName := map[nv]*Pom{}
	for _, p := range l.all() {
		k := p.storeKey()
		key := nv{apiName(k.G, k.A), k.V}
		if _, dup := byName[key]; !dup {
			byName[key] = p
		}
	}
	fetch := func(pk maven.ProjectKey) (maven.Project, error) {
		p, ok := byName[nv{apiName(string(pk.GroupID), string(pk.ArtifactID)), string(pk.Version)}]
		if !ok {
			return maven.Project{}, errors.New("404")
		}
		v := viewPom(p, Key{string(pk.GroupID), string(pk.ArtifactID), string(pk.Version)})
		return fetchProject(repoFiles{pk: v.Render()}, pk)
	}
	rk := cutKey(l.Root.storeKey())
	root := viewPom(&l.Root, rk)
	// no JDK, no OS: only the default profiles; the API walks up to MaxMavenParent parents of the project (start 0)
	project, ok := documentedPipeline(root.Render(), fetch, activation{}, 0)
	if !ok {
		return "err"
	}
	out := make([]string, len(project.Dependencies))
	for i, d := range project.Dependencies {
		out[i] = fmtReq(apiName(string(d.GroupID), string(d.ArtifactID)), string(d.Version), specType(d, "").String())
	}
	return "ok R[" + strings.Join(out, "+") + "]"
}

// ---- chainLineage: g:c0:1 → g:c1:1 → … → g:c<n>:1 (→ g:c<back>:1 when back >= 0).
// imp = false: the chain is the project's parent chain; POM i declares property p<i>=<i> and
// dependency g:d<i>:${p<i>}, and the project also g:top:${p<n>} (resolved iff POM n was merged).
// imp = true: the project has no parent and imports g:c1:1; POM i >= 1 manages g:m<i>:<i>, and the
// project depends on g:m1, g:m<n-1> (n > 1) and g:m<n> without versions (filled iff POM i was merged).
func chainLineage(n, back int, imp bool) *Lineage {
	name := func(pre string, i int) string { return pre + strconv.Itoa(i) }
	pom := func(i int) Pom {
		p := Pom{G: "g", A: name("c", i), V: "1", Packaging: "pom"}
		if i < n {
			p.Parent = Key{"g", name("c", i+1), "1"}
		} else if back >= 0 {
			p.Parent = Key{"g", name("c", back), "1"}
		}
		if imp {
			if i >= 1 {
				p.Mgmt = []Dep{{G: "g", A: name("m", i), V: strconv.Itoa(i)}}
			}
		} else {
			p.Props = []Prop{{name("p", i), strconv.Itoa(i)}}
			p.Deps = []Dep{{G: "g", A: name("d", i), V: "${" + name("p", i) + "}"}}
		}
		return p
	}
	l := &Lineage{Root: pom(0)}
	if imp {
		l.Root.Parent = Key{}
		if n >= 1 {
			l.Root.Mgmt = []Dep{{G: "g", A: "c1", V: "1", Typ: "pom", Scope: "import"}}
			l.Root.Deps = []Dep{{G: "g", A: "m1"}}
			if n > 1 {
				l.Root.Deps = append(l.Root.Deps, Dep{G: "g", A: name("m", n-1)})
			}
			l.Root.Deps = append(l.Root.Deps, Dep{G: "g", A: name("m", n)})
		}
	} else {
		l.Root.Deps = append(l.Root.Deps, Dep{G: "g", A: "top", V: "${" + name("p", n) + "}"})
	}
	for i := 1; i <= n; i++ {
		l.Repo = append(l.Repo, pom(i))
	}
	return l
}

const maxChain = 400

// lineageArg reads `L …` (ast.go) or `C <n> <back|x> <0|1>`.
func lineageArg(tok []string) (*Lineage, bool) {
	if len(tok) == 4 && tok[0] == "C" {
		n, ok := parseNat(tok[1])
		if !ok || n > maxChain {
			return nil, false
		}
		back := -1
		if tok[2] != "x" {
			b, ok := parseNat(tok[2])
			if !ok || b > n {
				return nil, false
			}
			back = b
		}
		if tok[3] != "0" && tok[3] != "1" {
			return nil, false
		}
		return chainLineage(n, back, tok[3] == "1"), true
	}
	l, ok := decodeLineage(tok)
	if !ok || !l.wf() {
		return nil, false
	}
	return l, true
}

// ---- deptype / typedep

func depOf(d Dep) maven.Dependency {
	m := maven.Dependency{GroupID: maven.String(d.G), ArtifactID: maven.String(d.A), Version: maven.String(d.V), Type: maven.String(d.Typ),
		Classifier: maven.String(d.Cls), Scope: maven.String(d.Scope), Optional: maven.FalsyBool(d.Opt)}
	for _, e := range d.Excl {
		m.Exclusions = append(m.Exclusions, maven.Exclusion{GroupID: maven.String(e.G), ArtifactID: maven.String(e.A)})
	}
	return m
}

func backOf(t dep.Type) (res string) {
	defer func() {
		if r := recover(); r != nil {
			res = "panic"
		}
	}()
	d, o, err := resolve.MavenDepTypeToDependency(t)
	if err != nil {
		return "err"
	}
	return "D" + fmtDeps([]maven.Dependency{d}) + "/o=" + fw.Hx(o)
}

// decodeDepOrigin reads `D g a v typ cls scope opt n (eg ea)* origin`.
func decodeDepOrigin(tok []string) (Dep, string, bool) {
	d := &dec{t: append([]string{"1"}, tok...)}
	ds := d.deps()
	o := d.s()
	if d.bad || len(ds) != 1 || len(d.t) != 0 {
		return Dep{}, "", false
	}
	return ds[0], o, true
}

func runDepType(x Dep, origin string) string {
	t := resolve.MavenDepType(depOf(x), origin)
	return "ok T[" + fmtType(t) + "] " + backOf(t)
}

// the type token: m=<dev><opt><test>/s=…/c=…/t=…/o=…/e=… (as printed)
func parseType(s string) (reqType, bool) {
	var t reqType
	f := strings.Split(s, "/")
	if len(f) != 6 || len(f[0]) != 5 || !strings.HasPrefix(f[0], "m=") {
		return t, false
	}
	for i, dst := range []*bool{&t.Dev, &t.Opt, &t.Test} {
		switch f[0][2+i] {
		case '0':
		case '1':
			*dst = true
		default:
			return t, false
		}
	}
	for i, dst := range []**string{&t.Scope, &t.Cls, &t.Typ, &t.Origin, &t.Exc} {
		x := f[1+i]
		if !strings.HasPrefix(x, []string{"s=", "c=", "t=", "o=", "e="}[i]) {
			return t, false
		}
		v := x[2:]
		if v == "~" {
			continue
		}
		if !isHexLower(v) {
			return t, false
		}
		*dst = sp(fw.Unhx(v))
	}
	return t, true
}

func (t reqType) depType() dep.Type {
	var dt dep.Type
	if t.Dev {
		dt.AddAttr(dep.Dev, "")
	}
	if t.Opt {
		dt.AddAttr(dep.Opt, "")
	}
	if t.Test {
		dt.AddAttr(dep.Test, "")
	}
	for _, kv := range []struct {
		k dep.AttrKey
		v *string
	}{{dep.Scope, t.Scope}, {dep.MavenClassifier, t.Cls}, {dep.MavenArtifactType, t.Typ}, {dep.MavenDependencyOrigin, t.Origin}, {dep.MavenExclusions, t.Exc}} {
		if kv.v != nil {
			dt.AddAttr(kv.k, *kv.v)
		}
	}
	return dt
}

// ---- dispatch (runs in the child process)

func execAPI(f []string) string {
	switch f[0] {
	case "apireq", "apidirect":
		l, ok := lineageArg(f[1:])
		if !ok {
			return "bad-op"
		}
		if f[0] == "apireq" {
			return runAPIReq(l)
		}
		return runAPIDirect(l)
	case "deptype":
		d, o, ok := decodeDepOrigin(f[1:])
		if !ok {
			return "bad-op"
		}
		return runDepType(d, o)
	case "typedep":
		if len(f) != 2 {
			return "bad-op"
		}
		t, ok := parseType(f[1])
		if !ok {
			return "bad-op"
		}
		r := backOf(t.depType())
		if r == "err" || r == "panic" {
			return r
		}
		return "ok " + r
	case "probe":
		if len(f) > 1 && f[1] == "xmlpipe" {
			return execXMLPipe(f[2:])
		}
		return runProbe(f[1:])
	}
	return "bad-op"
}

func isAPIOp(op string) bool {
	switch op {
	case "apireq", "apidirect", "deptype", "typedep", "probe":
		return true
	}
	return false
}
