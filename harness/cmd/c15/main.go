// c15: the effective POM computed from a project lineage equals Maven's;
// interpolation terminates for every property table.
package main

import (
	"bufio"
	"fmt"
	"io"
	"math/rand"
	"os"
	"os/exec"
	"runtime/debug"
	"strings"
	"sync"
	"time"

	"deps.dev/util/maven"
	"deps.dev/util/resolve"
	"verifharness/fw"
)

// the library's activation environment as the reference semantics sees it
func libEnv() Env {
	return Env{JDK: goEnvJDK, OSName: goEnvOS.Name, OSArch: goEnvOS.Arch, OSVersion: goEnvOS.Version}
}

func init() {
	// the mirrored constants follow the library (the Lean side gets them through C15Consts)
	if v, ok := parseNums(maven.JDKProfileActivation); ok {
		goEnvJDK = v
	}
	o := maven.OSProfileActivation
	goEnvOS = OS{Name: string(o.Name), Family: string(o.Family), Arch: string(o.Arch), Version: string(o.Version)}
	goMaxParent = resolve.MaxMavenParent
}

// ---- execution of the real code in a child process (an unbounded recursion in
// the library overflows the stack, which Go cannot recover from in-process)

func execDirect(f []string) (res string) {
	defer func() {
		if r := recover(); r != nil {
			res = "panic"
		}
	}()
	if len(f) < 2 {
		return "bad-op"
	}
	if isAPIOp(f[0]) {
		return execAPI(f)
	}
	switch f[0] {
	case "pom":
		l, ok := decodeLineage(f[1:])
		if !ok || !l.wf() {
			return "bad-op"
		}
		return runPom(l)
	case "interp":
		t, rest, ok := decodeTable(f[1:])
		if !ok || len(rest) != 1 || !isHexLower(rest[0]) {
			return "bad-op"
		}
		return runInterp(t, fw.Unhx(rest[0]))
	}
	return "bad-op"
}

func workerMain() {
	debug.SetMaxStack(16 << 20)
	in := bufio.NewReaderSize(os.Stdin, 1<<20)
	out := bufio.NewWriterSize(os.Stdout, 1<<20)
	for {
		line, err := in.ReadString('\n')
		if line != "" {
			fmt.Fprintln(out, execDirect(strings.Fields(line)))
			out.Flush()
		}
		if err != nil {
			return
		}
	}
}

type worker struct {
	cmd *exec.Cmd
	in  io.WriteCloser
	out *bufio.Reader
}

var (
	wmu sync.Mutex
	wk  *worker
)

const opTimeout = 8 * time.Second

func startWorker() *worker {
	cmd := exec.Command(os.Args[0], "c15-worker")
	in, err := cmd.StdinPipe()
	if err != nil {
		panic(err)
	}
	out, err := cmd.StdoutPipe()
	if err != nil {
		panic(err)
	}
	if err := cmd.Start(); err != nil {
		panic(err)
	}
	return &worker{cmd, in, bufio.NewReaderSize(out, 1<<20)}
}

// kill: the child hangs or is broken.
func (w *worker) kill() {
	w.in.Close()
	w.cmd.Process.Kill()
	w.cmd.Wait()
}

// stop: end of input; the child returns from main (which is when a binary built with
// -cover writes its counters), and is killed only if it does not.
func (w *worker) stop() {
	w.in.Close()
	done := make(chan struct{})
	go func() { w.cmd.Wait(); close(done) }()
	select {
	case <-done:
	case <-time.After(5 * time.Second):
		w.cmd.Process.Kill()
		<-done
	}
}

// callWorker runs one op in the child; a child that dies or does not answer in
// time means the library did not return: `timeout`.
func callWorker(f []string) string {
	if os.Getenv("VERIF_C15_INPROC") != "" {
		return execDirect(f)
	}
	wmu.Lock()
	defer wmu.Unlock()
	if wk == nil {
		wk = startWorker()
	}
	w := wk
	if _, err := io.WriteString(w.in, strings.Join(f, " ")+"\n"); err != nil {
		w.kill()
		wk = nil
		return "timeout"
	}
	type ans struct {
		s   string
		err error
	}
	ch := make(chan ans, 1)
	go func() {
		s, err := w.out.ReadString('\n')
		ch <- ans{s, err}
	}()
	select {
	case a := <-ch:
		if a.err != nil {
			w.kill()
			wk = nil
			return "timeout"
		}
		return strings.TrimRight(a.s, "\n")
	case <-time.After(opTimeout):
		w.kill()
		wk = nil
		return "timeout"
	}
}

// ---- ops

func fmtAst(ds []Dep) string {
	parts := make([]string, len(ds))
	for i, d := range ds {
		ex := "-"
		if len(d.Excl) > 0 {
			es := make([]string, len(d.Excl))
			for k, e := range d.Excl {
				es[k] = fw.Hx(e.G) + "/" + fw.Hx(e.A)
			}
			ex = strings.Join(es, "+")
		}
		parts[i] = strings.Join([]string{fw.Hx(d.G), fw.Hx(d.A), fw.Hx(d.V), fw.Hx(d.Typ), fw.Hx(d.Cls), fw.Hx(d.Scope), fw.Hx(d.Opt), ex}, ":")
	}
	return "[" + strings.Join(parts, ",") + "]"
}

func parseDepList(s string) ([]Dep, bool) {
	if len(s) < 2 || s[0] != '[' || s[len(s)-1] != ']' {
		return nil, false
	}
	s = s[1 : len(s)-1]
	if s == "" {
		return nil, true
	}
	var out []Dep
	for _, item := range strings.Split(s, ",") {
		f := strings.Split(item, ":")
		if len(f) != 8 {
			return nil, false
		}
		for _, x := range f[:7] {
			if !isHexLower(x) {
				return nil, false
			}
		}
		d := Dep{G: fw.Unhx(f[0]), A: fw.Unhx(f[1]), V: fw.Unhx(f[2]), Typ: fw.Unhx(f[3]), Cls: fw.Unhx(f[4]), Scope: fw.Unhx(f[5]), Opt: fw.Unhx(f[6])}
		if f[7] != "-" {
			for _, e := range strings.Split(f[7], "+") {
				g, a, ok := strings.Cut(e, "/")
				if !ok || !isHexLower(g) || !isHexLower(a) {
					return nil, false
				}
				d.Excl = append(d.Excl, Excl{fw.Unhx(g), fw.Unhx(a)})
			}
		}
		out = append(out, d)
	}
	return out, true
}

// parseResult reads "ok deps=[…] mgmt=[…]".
func parseResult(res string) (deps, mgmt []Dep, ok bool) {
	f := strings.Fields(res)
	if len(f) != 3 || f[0] != "ok" || !strings.HasPrefix(f[1], "deps=") || !strings.HasPrefix(f[2], "mgmt=") {
		return nil, nil, false
	}
	deps, ok1 := parseDepList(f[1][5:])
	mgmt, ok2 := parseDepList(f[2][5:])
	return deps, mgmt, ok1 && ok2
}

// canon: the representation differences that are not differences of the model
// (Maven injects the default scope into dependencies; a null optional is false).
func canon(ds []Dep, isDep bool) []Dep {
	out := make([]Dep, len(ds))
	for i, d := range ds {
		if d.Typ == "" {
			d.Typ = "jar"
		}
		if isDep && d.Scope == "" {
			d.Scope = "compile"
		}
		if d.Opt == "" {
			d.Opt = "false"
		}
		out[i] = d
	}
	return out
}

func sameDeps(a, b []Dep) bool { return fmtAst(a) == fmtAst(b) }

func exec1(f []string) string {
	if len(f) < 2 {
		return "bad-op"
	}
	switch f[0] {
	case "apireq", "apidirect":
		if _, ok := lineageArg(f[1:]); !ok {
			return "bad-op"
		}
		return callWorker(f)
	case "deptype":
		if _, _, ok := decodeDepOrigin(f[1:]); !ok {
			return "bad-op"
		}
		return callWorker(f)
	case "typedep":
		if len(f) != 2 {
			return "bad-op"
		}
		if _, ok := parseType(f[1]); !ok {
			return "bad-op"
		}
		return callWorker(f)
	case "probe":
		if f[1] == "xmlpipe" {
			if len(f) < 5 {
				return "bad-op"
			}
			if st, ok := parseNat(f[2]); !ok || st >= stMax {
				return "bad-op"
			}
			if l, ok := decodeLineage(f[3:]); !ok || !l.wf() {
				return "bad-op"
			}
			return callWorker(f)
		}
		if len(f) != 4 || f[1] != "api" {
			return "bad-op"
		}
		return callWorker(f)
	case "pom", "interp":
		// validate here too so that garbage never reaches the child
		if f[0] == "pom" {
			if l, ok := decodeLineage(f[1:]); !ok || !l.wf() {
				return "bad-op"
			}
		}
		return callWorker(f)
	case "ref":
		l, ok := decodeLineage(f[1:])
		if !ok || !l.wf() {
			return "bad-op"
		}
		deps, mgmt, valid := refEffective(l, libEnv())
		if !valid {
			return "err"
		}
		return "ok deps=" + fmtAst(deps) + " mgmt=" + fmtAst(mgmt)
	case "classify":
		l, ok := decodeLineage(f[1:])
		if !ok || !l.wf() {
			return "bad-op"
		}
		return "ok " + classify(l, libEnv()).String()
	}
	return "bad-op"
}

func lineageOf(op string) (*Lineage, bool) {
	f := strings.Fields(op)
	if len(f) < 3 || f[0] != "C15" {
		return nil, false
	}
	l, ok := decodeLineage(f[2:])
	if !ok || !l.wf() {
		return nil, false
	}
	return l, true
}

// ---- oracles

func recheck(oracle string, ops, res []string) (bool, string) {
	if len(ops) == 0 {
		return false, ""
	}
	switch oracle {
	case "terminates":
		for i, r := range res {
			if r == "timeout" || r == "panic" {
				return true, "the library did not return normally (" + r + ") on " + strings.Join(strings.Fields(ops[i])[:2], " ")
			}
		}
		return false, ""
	case "api-direct":
		return apiDirectVerdict(ops, res)
	case "xml-route":
		return xmlRouteVerdict(ops, res)
	case "api-total":
		for i := range ops {
			if f := strings.Fields(ops[i]); len(f) > 1 && f[1] == "probe" {
				if bad, detail := probeVerdict(ops[i], res[i]); bad {
					return true, detail
				}
			} else if res[i] == "timeout" || strings.HasPrefix(res[i], "panic") {
				return true, "the library did not return normally (" + res[i] + ") on " + trunc(ops[i], 200)
			} else if bad, detail := typeDepVerdict(ops[i], res[i]); bad {
				return true, detail
			}
		}
		return false, ""
	case "deptype-roundtrip":
		return depTypeVerdict(ops[0], res[0])
	case "pom-ref":
		l, ok := lineageOf(ops[0])
		if !ok {
			return false, ""
		}
		rd, rm, valid := refEffective(l, libEnv())
		if !valid {
			return false, "" // not a valid model for Maven: nothing to compare with
		}
		if res[0] == "err" {
			return true, "the library returns an error on a model Maven accepts"
		}
		gd, gm, ok := parseResult(res[0])
		if !ok {
			return true, "unreadable result " + res[0]
		}
		if !sameDeps(canon(gd, true), canon(rd, true)) {
			return true, "dependencies differ: library " + show(canon(gd, true)) + " reference " + show(canon(rd, true))
		}
		if !sameDeps(canon(gm, false), canon(rm, false)) {
			return true, "managed dependencies differ: library " + show(canon(gm, false)) + " reference " + show(canon(rm, false))
		}
		return false, ""
	case "interp-spec", "interp-identity":
		f := strings.Fields(ops[0])
		if len(f) < 3 || f[1] != "interp" {
			return false, ""
		}
		t, rest, ok := decodeTable(f[2:])
		if !ok || len(rest) != 1 {
			return false, ""
		}
		s := fw.Unhx(rest[0])
		if oracle == "interp-identity" {
			if strings.Contains(s, "${") {
				return false, ""
			}
			if res[0] != "ok "+fw.Hx(s)+" 1" {
				return true, "a string without ${ is changed: " + res[0]
			}
			return false, ""
		}
		dict := map[string]string{}
		for _, p := range t {
			dict[p.K] = p.V
		}
		want, wok := goInterp(s, dict, nil)
		exp := "ok " + fw.Hx(want) + " " + b01(wok)
		if res[0] != exp {
			return true, "interpolation result " + res[0] + ", the loop's definition gives " + exp
		}
		return false, ""
	}
	return false, ""
}

func show(ds []Dep) string {
	parts := make([]string, len(ds))
	for i, d := range ds {
		var ex []string
		for _, e := range d.Excl {
			ex = append(ex, e.G+"/"+e.A)
		}
		parts[i] = strings.Join([]string{d.G, d.A, d.V, d.Typ, d.Cls, d.Scope, d.Opt, strings.Join(ex, "+")}, ":")
	}
	return "[" + strings.Join(parts, " ") + "]"
}

func classifyFailure(oracle string, ops, res []string) string {
	if len(ops) == 0 {
		return ""
	}
	if oracle != "pom-ref" { // the API path has no finding class: every failure of its oracles is a violation
		return ""
	}
	l, ok := lineageOf(ops[0])
	if !ok {
		return ""
	}
	return classify(l, libEnv()).finding()
}

// ---- run

func runLineage(c *fw.Ctx, l *Lineage, tag string) {
	enc := l.Encode()
	i, res := c.Op("C15 pom " + enc)
	c.Op("C15 ref " + enc)
	c.Op("C15 classify " + enc)
	c.Check("terminates", i)
	okRef := c.Check("pom-ref", i)
	c.Count("lineage:" + tag)
	_, _, valid := refEffective(l, libEnv())
	cl := classify(l, libEnv())
	switch {
	case !valid:
		c.Count("ref:invalid-for-maven")
	case cl.finding() == "":
		c.Count("ref:valid,inside-hypotheses")
	default:
		c.Count("ref:valid,outside:" + cl.finding())
	}
	if valid && !okRef {
		c.Count("disagree:" + cl.finding())
	}
	if strings.HasPrefix(res, "ok") {
		if res != "ok deps=[] mgmt=[]" {
			c.Nontrivial(res)
		}
	} else {
		c.Count("go:" + res)
	}
	c.Count(fmt.Sprintf("poms:%d", 1+len(l.Repo)))
	runAPI(c, enc)
	// the XML surface: the same lineage in other spellings (one random style; all single styles for the small families)
	styles := []int{randStyle(c.Rng)}
	if tag == "small-scope" || tag == "witness" {
		styles = append(styles, stEmptySelf, stEmptyBlank, stBlanks|stCDATA, stCharRef|stComment, stUnknown, stBoolCase|stDupProp, stAmp, stMax-1)
	}
	for _, st := range styles {
		j, _ := c.Opf("C15 probe xmlpipe %d %s", st, enc)
		c.Check("xml-route", j, i)
		c.Count("xml-style-ops")
	}
}

func randStyle(r *rand.Rand) int {
	st := 0
	for b := 1; b < stMax; b <<= 1 {
		if r.Intn(3) == 0 {
			st |= b
		}
	}
	if st == 0 {
		st = 1 << r.Intn(10)
	}
	return st
}

func runTable(c *fw.Ctx, t tableCase) {
	i, res := c.Op("C15 interp " + encodeTable(t.table) + " " + fw.Hx(t.s))
	c.Check("terminates", i)
	c.Check("interp-spec", i)
	c.Check("interp-identity", i)
	c.Count("table:" + t.kind)
	if strings.HasSuffix(res, " 0") {
		c.Count("interp:unresolved")
	} else {
		c.Count("interp:resolved")
	}
	c.Nontrivial(res)
}

func run(c *fw.Ctx) {
	for _, t := range smallTables() {
		runTable(c, t)
	}
	for _, l := range smallLineages() {
		runLineage(c, l, "small-scope")
	}
	for i, n := 0, c.N(1500, 40000); i < n; i++ {
		runTable(c, genTable(c.Rng))
	}
	var sample []*Lineage
	for _, l := range witnessLineages() {
		runLineage(c, l, "witness")
		sample = append(sample, l)
	}
	for i, l := range jdkLineages() {
		runLineage(c, l, "jdk-systematic")
		if i%3 == 0 {
			sample = append(sample, l)
		}
	}
	nl := c.N(3000, 100000)
	want := c.N(250, 2000)
	for i := 0; i < nl; i++ {
		m, tag := randMode(c.Rng)
		l := genLineage(c.Rng, m)
		runLineage(c, l, tag)
		if i < 4 {
			c.Sample("C15 pom " + l.Encode())
		}
		if len(sample) < want+80 && !m.Wild {
			sample = append(sample, l)
		}
	}
	runAPIStreams(c)
	mavenValidate(c, sample)
	if wk != nil {
		wk.stop()
	}
}

func main() {
	if len(os.Args) > 1 && os.Args[1] == "c15-worker" {
		workerMain()
		return
	}
	fw.Main(&fw.Prop{
		ID: "C15",
		Rule: "POM lineages generated from an AST (project, up to 4 ancestors, up to 3 BOMs with a shared parent; chained/overriding properties, " +
			"project.* built-ins, import scope, profiles by default/JDK/OS, exclusions, scope, optional, type, classifier), valid for Maven unless one of the " +
			"finding classes is switched on (30% of lineages); a small-scope exhaustive family (where a version/scope/property is declared); a systematic family of " +
			"<jdk> values and ranges around the running JDK (patch/minor/major -1/0/+1, 1-5 components, Maven's prefix forms) beside an activeByDefault sibling; property tables " +
			"(cycles, self references, long chains, doubling, odd syntax, raw bytes). A case is non-trivial when the library's result is distinct and non-empty.",
		Exec:     exec1,
		Run:      run,
		Recheck:  recheck,
		Classify: classifyFailure,
		Gens:     []fw.Generator{{Name: "C15Consts", Fn: genC15Consts}},
	})
}
