package main

// The documented pipeline run on the REAL code: every POM of the lineage is
// rendered to pom.xml text, decoded with encoding/xml into maven.Project, and
// processed as examples/go/maven_parse_resolve/main.go does (mergeParents is a
// copy of the example's function with fetchProject replaced by the in-memory
// repository, and with the library's own bound resolve.MaxMavenParent), preceded
// by MergeProfiles on the root as APIClient.mavenRequirements does.

import (
	"encoding/xml"
	"errors"
	"fmt"
	"strings"

	"deps.dev/util/maven"
	"deps.dev/util/resolve"
	"verifharness/fw"
)

type repoFiles map[maven.ProjectKey]string

func fetchProject(repo repoFiles, pk maven.ProjectKey) (maven.Project, error) {
	text, ok := repo[pk]
	if !ok {
		return maven.Project{}, errors.New("404")
	}
	var proj maven.Project
	if err := xml.NewDecoder(strings.NewReader(text)).Decode(&proj); err != nil {
		return maven.Project{}, err
	}
	return proj, nil
}

// fetchFn is the example's fetchProject bound to a repository; activation is the JDK/OS
// the profiles of fetched parents are activated for.
type fetchFn func(pk maven.ProjectKey) (maven.Project, error)

type activation struct {
	jdk string
	os  maven.ActivationOS
}

func libActivation() activation {
	return activation{maven.JDKProfileActivation, maven.OSProfileActivation}
}

func mergeParents(fetch fetchFn, act activation, current maven.ProjectKey, start int, result *maven.Project) error {
	visited := make(map[maven.ProjectKey]bool, resolve.MaxMavenParent)
	for n := start; n < resolve.MaxMavenParent; n++ {
		if current.GroupID == "" || current.ArtifactID == "" || current.Version == "" {
			break
		}
		if visited[current] {
			return errors.New("cycle of parent projects")
		}
		visited[current] = true

		proj, err := fetch(current)
		if err != nil {
			return err
		}
		if n > 0 && proj.Packaging != "pom" {
			return fmt.Errorf("invalid packaging for parent project %s", proj.Packaging)
		}
		if err := proj.MergeProfiles(act.jdk, act.os); err != nil {
			return err
		}
		result.MergeParent(proj)
		current = proj.Parent.ProjectKey
	}
	return result.Interpolate()
}

func fmtDeps(ds []maven.Dependency) string {
	parts := make([]string, len(ds))
	for i, d := range ds {
		ex := "-"
		if len(d.Exclusions) > 0 {
			es := make([]string, len(d.Exclusions))
			for k, e := range d.Exclusions {
				es[k] = fw.Hx(string(e.GroupID)) + "/" + fw.Hx(string(e.ArtifactID))
			}
			ex = strings.Join(es, "+")
		}
		parts[i] = strings.Join([]string{fw.Hx(string(d.GroupID)), fw.Hx(string(d.ArtifactID)), fw.Hx(string(d.Version)),
			fw.Hx(string(d.Type)), fw.Hx(string(d.Classifier)), fw.Hx(string(d.Scope)), fw.Hx(string(d.Optional)), ex}, ":")
	}
	return "[" + strings.Join(parts, ",") + "]"
}

// runPom is the `pom` op.
func runPom(l *Lineage) string {
	repo := repoFiles{}
	for i := range l.Repo {
		k := l.Repo[i].storeKey()
		pk := maven.ProjectKey{GroupID: maven.String(k.G), ArtifactID: maven.String(k.A), Version: maven.String(k.V)}
		if _, dup := repo[pk]; !dup { // first POM stored under a key wins
			repo[pk] = l.Repo[i].Render()
		}
	}
	fetch := func(pk maven.ProjectKey) (maven.Project, error) { return fetchProject(repo, pk) }
	project, ok := documentedPipeline(l.Root.Render(), fetch, libActivation(), 1)
	if !ok {
		return "err"
	}
	return "ok deps=" + fmtDeps(project.Dependencies) + " mgmt=" + fmtDeps(project.DependencyManagement.Dependencies)
}

// documentedPipeline: decode the root, MergeProfiles, mergeParents(parent, rootStart),
// ProcessDependencies with the example's import callback.
func documentedPipeline(rootText string, fetch fetchFn, act activation, rootStart int) (maven.Project, bool) {
	var project maven.Project
	if err := xml.NewDecoder(strings.NewReader(rootText)).Decode(&project); err != nil {
		return project, false
	}
	return pipelineOn(project, fetch, act, rootStart)
}

// pipelineOn: the pipeline after the root was decoded.
func pipelineOn(project maven.Project, fetch fetchFn, act activation, rootStart int) (maven.Project, bool) {
	if err := project.MergeProfiles(act.jdk, act.os); err != nil {
		return project, false
	}
	if err := mergeParents(fetch, act, project.Parent.ProjectKey, rootStart, &project); err != nil {
		return project, false
	}
	project.ProcessDependencies(func(groupID, artifactID, version maven.String) (maven.DependencyManagement, error) {
		var result maven.Project
		root := maven.ProjectKey{GroupID: groupID, ArtifactID: artifactID, Version: version}
		if err := mergeParents(fetch, act, root, 0, &result); err != nil {
			return maven.DependencyManagement{}, err
		}
		return result.DependencyManagement, nil
	})
	return project, true
}

// runInterp is the `interp` op: `interpolating` is unexported, so the string is put
// where Project.Interpolate keeps the text whatever the outcome (Packaging) and
// where it reports the outcome (a dependency survives iff every field resolved).
func runInterp(table []Prop, s string) string {
	p := maven.Project{Packaging: maven.String(s)}
	for _, kv := range table {
		p.Properties.Properties = append(p.Properties.Properties, maven.Property{Name: kv.K, Value: kv.V})
	}
	p.Dependencies = []maven.Dependency{{GroupID: "g", ArtifactID: "a", Version: maven.String(s)}}
	if err := p.Interpolate(); err != nil {
		return "err"
	}
	ok := 0
	if len(p.Dependencies) == 1 {
		ok = 1
		if p.Dependencies[0].Version != p.Packaging {
			return "ok " + fw.Hx(string(p.Packaging)) + " inconsistent"
		}
	}
	return fmt.Sprintf("ok %s %d", fw.Hx(string(p.Packaging)), ok)
}
