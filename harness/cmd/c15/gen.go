package main

// Generators: POM lineages (valid for Maven by construction unless a finding
// class is switched on) and property tables for the termination clause.

import (
	"fmt"
	"math/rand"
	"strings"
)

func pick(r *rand.Rand, xs ...string) string { return xs[r.Intn(len(xs))] }

// Mode switches the known divergence classes on (each off by default so that
// most lineages lie inside the hypotheses of the partial theorem).
type Mode struct {
	Unresolved bool // (a) a placeholder the library cannot resolve
	Dup        bool // (b) duplicate key within one POM
	InterpKey  bool // (c) coordinates that coincide only after interpolation
	Bang       bool // (d) negated JDK activation
	ParentRef  bool // (f) parent.* built-in inside a BOM with a parent
	OddAct     bool // (g) activation specs on which the rules differ
	Wild       bool // property cycles, missing parents, anything goes
}

type lgen struct {
	r         *rand.Rand
	m         Mode
	hasParent bool
	inBom     bool
	used      map[string]bool
	managed   map[string]bool
}

var propOrder = []string{"a.version", "b.version", "c", "d"}

func (g *lgen) builtin() string {
	r := g.r
	names := []string{"project.version", "project.groupId", "version", "pom.version", "groupId", "pom.groupId"}
	if g.hasParent && (!g.inBom || g.m.ParentRef) {
		names = append(names, "project.parent.version", "parent.version", "project.parent.groupId", "pom.parent.version")
	}
	return "${" + names[r.Intn(len(names))] + "}"
}

// a dependency version
func (g *lgen) val() string {
	r := g.r
	switch r.Intn(7) {
	case 0:
		return "${" + pick(r, propOrder...) + "}"
	case 1:
		return g.builtin()
	case 2:
		if g.m.Unresolved && r.Intn(2) == 0 {
			return pick(r, "${undefined}", "${project.artifactId}", "1.${nope}", "${project.packaging}")
		}
		if r.Intn(3) == 0 {
			return pick(r, "1", "2") + ".${c}"
		}
	case 3:
		// a qualifier that may be defined empty: the placeholder expands to nothing
		return pick(r, "1", "2") + ".0${q}"
	}
	return pick(r, "1.0", "2.0", "3.1", "1.5")
}

// the value of property i: only later properties are referenced (no cycles)
func (g *lgen) pval(i int) string {
	r := g.r
	if g.m.Wild && r.Intn(3) == 0 {
		return "${" + pick(r, propOrder...) + "}"
	}
	if i < 3 && r.Intn(3) == 0 {
		return "${" + propOrder[i+1+r.Intn(3-i)] + "}"
	}
	if r.Intn(6) == 0 {
		return g.builtin()
	}
	return pick(r, "1.0", "2.0", "3.1", "1.5")
}

func (g *lgen) properties(all bool) []Prop {
	r := g.r
	var ps []Prop
	for i, k := range propOrder {
		if all || r.Intn(4) == 0 {
			ps = append(ps, Prop{k, g.pval(i)})
		}
	}
	if all || r.Intn(4) == 0 {
		// an empty property is a definition (it may override a non-empty one of a parent, or be overridden)
		ps = append(ps, Prop{"q", pick(r, "", "", "-SNAPSHOT", ".1", "-${d}")})
	}
	if r.Intn(8) == 0 {
		ps = append(ps, Prop{"version", pick(r, "9.9", "8.8")})
	}
	if r.Intn(12) == 0 && len(ps) > 0 { // a redeclaration inside one <properties> block: the later one wins
		ps = append(ps, Prop{ps[0].K, pick(r, "7.0", "7.1")})
	}
	return ps
}

func (g *lgen) dep(mgmt bool, boms []string) (Dep, bool) {
	r := g.r
	if mgmt && len(boms) > 0 && r.Intn(4) == 0 {
		bom := boms[r.Intn(len(boms))]
		k := "import:" + bom
		if g.used[k] && !g.m.Dup {
			return Dep{}, false
		}
		g.used[k] = true
		return Dep{G: "g", A: bom, V: "1.0", Typ: "pom", Scope: "import"}, true
	}
	gid, aid := pick(r, "g", "g", "h"), pick(r, "x", "y", "z", "w")
	plainG := gid
	if g.m.InterpKey && r.Intn(3) == 0 {
		gid = "${project.groupId}"
		plainG = "g"
	}
	typ, cls := "", ""
	if r.Intn(8) == 0 {
		typ = pick(r, "jar", "test-jar", "pom")
	}
	if r.Intn(8) == 0 {
		cls = pick(r, "tests", "sources")
	}
	if !g.m.Dup {
		t := typ
		if t == "" {
			t = "jar"
		}
		k := fmt.Sprint(mgmt, plainG, aid, t, cls)
		if g.used[k] {
			return Dep{}, false
		}
		g.used[k] = true
	}
	d := Dep{G: gid, A: aid, Typ: typ, Cls: cls}
	plainKey := plainG + ":" + aid
	plain := (typ == "" || typ == "jar") && cls == ""
	if mgmt || !(plain && g.managed[plainKey]) || r.Intn(2) == 0 {
		d.V = g.val()
	}
	if mgmt && plain {
		g.managed[plainKey] = true
	}
	if r.Intn(4) == 0 {
		d.Scope = pick(r, "test", "runtime", "provided", "compile")
	}
	if r.Intn(6) == 0 {
		d.Opt = pick(r, "true", "false")
	}
	if g.m.Unresolved && r.Intn(8) == 0 {
		d.Excl = append(d.Excl, Excl{"g", "${c}"})
	} else if r.Intn(5) == 0 {
		d.Excl = append(d.Excl, Excl{"g", pick(r, "x", "y", "*")})
		if r.Intn(3) == 0 {
			d.Excl = append(d.Excl, Excl{pick(r, "h", "*"), pick(r, "z", "*")})
		}
	}
	return d, true
}

func (g *lgen) depsBlock(boms []string) (deps, mgmt []Dep) {
	r := g.r
	// managed entries that only exist in a profile must not make a version optional:
	// the caller saves/restores g.managed around profile blocks
	for i, n := 0, r.Intn(4); i < n; i++ {
		if d, ok := g.dep(true, boms); ok {
			mgmt = append(mgmt, d)
		}
	}
	for i, n := 0, r.Intn(4); i < n; i++ {
		if d, ok := g.dep(false, nil); ok {
			deps = append(deps, d)
		}
	}
	return
}

// jdkAround: plain <jdk> values drawn systematically around the JDK the pipeline is run with
// (goEnvJDK = M.m.p): same major.minor with patch -1/equal/+1, same major with minor -1/+1,
// major -1/+1, in one-, two- and three-component forms, longer forms, and the forms Maven's
// prefix test treats specially (a digit prefix of the major number, trailing zeros).
func jdkAround() []Jdk {
	M, m, p := numAt(goEnvJDK, 0), numAt(goEnvJDK, 1), numAt(goEnvJDK, 2)
	var vs [][]int
	add := func(v ...int) {
		for _, x := range v {
			if x < 0 || x > 9999 {
				return
			}
		}
		vs = append(vs, v)
	}
	for _, dp := range []int{-1, 0, 1} {
		add(M, m, p+dp)
	}
	for _, dm := range []int{-1, 1} {
		add(M, m+dm, p)
		add(M, m+dm)
		add(M, m+dm, 0)
	}
	for _, dM := range []int{-1, 1} {
		add(M+dM, m, p)
		add(M+dM, m)
		add(M + dM)
	}
	add(M)
	add(M, m)
	add(M, m, 0)
	add(M, m, p, 0)
	add(M, m, p, 1)
	add(M, m, p+1, 0)
	add(M, m, p, 0, 1)
	add(M, 0)
	add(M, 0, 0)
	if M >= 10 {
		add(M / 10) // "1" is a text prefix of "11.0.8"
		add(M/10, m)
	}
	if p >= 10 {
		add(M, m, p/10)
	}
	add(M, m, p*10)
	add(1, 8)
	out := make([]Jdk, len(vs))
	for i, v := range vs {
		out[i] = Jdk{Kind: 1, V: v}
	}
	return out
}

// jdkRangesAround: ranges whose bound is the running JDK's patch -1/equal/+1, open and closed.
func jdkRangesAround() []Jdk {
	M, m, p := numAt(goEnvJDK, 0), numAt(goEnvJDK, 1), numAt(goEnvJDK, 2)
	var out []Jdk
	for _, dp := range []int{-1, 0, 1} {
		if p+dp < 0 {
			continue
		}
		b := []int{M, m, p + dp}
		for _, incl := range []bool{true, false} {
			out = append(out, Jdk{Kind: 2, LoIncl: incl, Lo: b}, Jdk{Kind: 2, Hi: b, HiIncl: incl})
		}
	}
	return out
}

// library rule and Maven's rule agree on this activation
func jdkAgrees(j Jdk) bool {
	f := Profile{Jdk: j}
	a, ok := goActivated(f)
	return ok && a == refActivated(f, libEnv())
}

// jdkLineages: every value of jdkAround/jdkRangesAround in a profile that overrides a property
// and adds a dependency, next to an activeByDefault sibling doing the same, so that the
// activation decision shows in the dependency list and in an interpolated version. The
// profiles sit in the project itself or in its parent.
func jdkLineages() []*Lineage {
	var out []*Lineage
	js := append(jdkAround(), jdkRangesAround()...)
	for _, j := range js {
		for variant := 0; variant < 3; variant++ {
			profs := []Profile{{Jdk: j, Props: []Prop{{"p", "byjdk"}}, Deps: []Dep{{G: "g", A: "y", V: "1"}}}}
			if variant != 1 {
				profs = append(profs, Profile{Abd: "true", Props: []Prop{{"p", "bydefault"}}, Deps: []Dep{{G: "g", A: "z", V: "1"}}})
			}
			x := Dep{G: "g", A: "x", V: "${p}"}
			if variant < 2 {
				out = append(out, &Lineage{Root: Pom{G: "g", A: "child", V: "1.0", Props: []Prop{{"p", "base"}}, Deps: []Dep{x}, Profiles: profs}})
			} else {
				out = append(out, &Lineage{
					Root: Pom{A: "child", Parent: Key{"g", "par", "1.0"}, Deps: []Dep{x}},
					Repo: []Pom{{G: "g", A: "par", V: "1.0", Packaging: "pom", Props: []Prop{{"p", "base"}}, Profiles: profs}}})
			}
		}
	}
	return out
}

func (g *lgen) jdk() Jdk {
	r := g.r
	if r.Intn(3) == 0 { // systematic values around the running JDK
		js := append(jdkAround(), jdkRangesAround()...)
		for tries := 0; tries < 8; tries++ {
			j := js[r.Intn(len(js))]
			if g.m.OddAct || jdkAgrees(j) {
				return j
			}
		}
	}
	if g.m.Bang && r.Intn(2) == 0 {
		return Jdk{Kind: 1, Neg: true, V: [][]int{{1, 8}, {11}, {17}}[r.Intn(3)]}
	}
	if g.m.OddAct && r.Intn(2) == 0 {
		return Jdk{Kind: 1, V: [][]int{{1}, {11, 0, 7}, {11, 0, 0}, {11, 0, 8, 0}}[r.Intn(4)]}
	}
	switch r.Intn(10) {
	case 0:
		return Jdk{Kind: 1, V: []int{11}}
	case 1:
		return Jdk{Kind: 1, V: []int{1, 8}}
	case 2:
		return Jdk{Kind: 1, V: []int{11, 0}}
	case 3:
		return Jdk{Kind: 1, V: []int{17}}
	case 4:
		return Jdk{Kind: 2, LoIncl: true, Lo: []int{1, 8}}
	case 5:
		return Jdk{Kind: 2, LoIncl: true, Lo: []int{1, 8}, Hi: []int{11}}
	case 6:
		return Jdk{Kind: 2, Hi: []int{1, 8}, HiIncl: true}
	case 7:
		return Jdk{Kind: 2, LoIncl: true, Lo: []int{11}, Hi: []int{12}}
	case 8:
		return Jdk{Kind: 2, LoIncl: r.Intn(2) == 0, Lo: []int{11, 0, 8}, Hi: []int{11, 0, 9}, HiIncl: r.Intn(2) == 0}
	}
	return Jdk{Kind: 2, Lo: []int{9}, Hi: []int{11, 0, 8}, HiIncl: r.Intn(2) == 0}
}

func (g *lgen) profiles(boms []string) []Profile {
	r := g.r
	n := r.Intn(3)
	var out []Profile
	for i := 0; i < n; i++ {
		var f Profile
		switch r.Intn(6) {
		case 0:
			f.Abd = "true"
		case 1:
			f.Jdk = g.jdk()
		case 2:
			f.OS.Family = pick(r, "unix", "windows", "!windows", "Unix", "mac")
			if g.m.OddAct && r.Intn(2) == 0 {
				f.OS.Family = pick(r, "linux", "!linux")
			}
		case 3:
			f.OS.Name = pick(r, "linux", "Linux", "freebsd", "!linux")
			f.OS.Arch = pick(r, "amd64", "x86", "!x86")
		case 4:
			f.Abd = "false"
		case 5:
			f.Jdk = g.jdk()
			f.OS.Family = pick(r, "unix", "windows")
			if r.Intn(2) == 0 {
				f.Abd = "true"
			}
		}
		f.Props = g.properties(false)
		saved := g.managed
		g.managed = map[string]bool{}
		for k, v := range saved {
			g.managed[k] = v
		}
		f.Deps, f.Mgmt = g.depsBlock(boms)
		g.managed = saved
		out = append(out, f)
	}
	return out
}

func (g *lgen) pom(a, v, parent, packaging string, boms []string) Pom {
	g.hasParent = parent != ""
	g.used = map[string]bool{}
	p := Pom{A: a, Packaging: packaging}
	if parent != "" {
		p.Parent = Key{"g", parent, "1.0"}
		if g.r.Intn(2) == 0 {
			p.G = "g"
		}
	} else {
		p.G = "g"
	}
	if parent == "" || g.r.Intn(2) == 0 {
		p.V = v
	}
	p.Props = g.properties(parent == "")
	p.Deps, p.Mgmt = g.depsBlock(boms)
	p.Profiles = g.profiles(boms)
	return p
}

func randMode(r *rand.Rand) (Mode, string) {
	switch r.Intn(20) {
	case 0:
		return Mode{Unresolved: true}, "unresolved"
	case 1:
		return Mode{Dup: true}, "dup"
	case 2:
		return Mode{InterpKey: true}, "interpkey"
	case 3:
		return Mode{Bang: true}, "bang"
	case 4:
		return Mode{ParentRef: true}, "parentref"
	case 5:
		return Mode{OddAct: true}, "oddact"
	case 6:
		return Mode{Wild: true, Unresolved: true, Dup: true, InterpKey: true}, "wild"
	}
	return Mode{}, "clean"
}

// genLineage: the project, up to 4 ancestors, up to 3 BOMs (each possibly with the
// shared parent "bomparent").
func genLineage(r *rand.Rand, m Mode) *Lineage {
	g := &lgen{r: r, m: m, managed: map[string]bool{}}
	l := &Lineage{}
	nb := r.Intn(4)
	var boms []string
	needBomParent := false
	for b := 0; b < nb; b++ {
		name := fmt.Sprintf("bom%d", b)
		par := ""
		if r.Intn(3) == 0 {
			par = "bomparent"
			needBomParent = true
		}
		g.managed = map[string]bool{}
		g.inBom = true
		p := g.pom(name, "1.0", par, "pom", boms)
		if p.V == "" && m.Wild && r.Intn(2) == 0 {
			p.V = "1.0"
		}
		l.Repo = append(l.Repo, p)
		boms = append(boms, name)
	}
	if needBomParent || r.Intn(4) == 0 {
		g.managed = map[string]bool{}
		g.inBom = true
		l.Repo = append(l.Repo, g.pom("bomparent", "1.0", "", "pom", nil))
	}
	g.inBom = false
	g.managed = map[string]bool{}
	depth := r.Intn(5)
	parent := ""
	for d := depth; d >= 1; d-- { // root ancestor first
		name := fmt.Sprintf("anc%d", d)
		pk := "pom"
		if m.Wild && r.Intn(6) == 0 {
			pk = "jar"
		}
		l.Repo = append(l.Repo, g.pom(name, "1.0", parent, pk, boms))
		parent = name
	}
	if m.Wild && parent != "" && r.Intn(4) == 0 {
		parent = "missing"
	}
	l.Root = g.pom("child", "1.0", parent, pick(r, "", "", "jar", "pom"), boms)
	return l
}

// ---- small-scope family: one key, every combination of where a version / scope is declared

func smallLineages() []*Lineage {
	var out []*Lineage
	// 0 absent, 1 version only, 2 version+scope, 3 scope only (dependency lists: needs management)
	mk := func(kind int, v string) (Dep, bool) {
		d := Dep{G: "g", A: "x"}
		switch kind {
		case 0:
			return d, false
		case 1:
			d.V = v
		case 2:
			d.V, d.Scope = v, "test"
		case 3:
			d.Scope = "runtime"
		}
		return d, true
	}
	for cd := 0; cd < 4; cd++ {
		for cm := 0; cm < 3; cm++ {
			for pd := 0; pd < 3; pd++ {
				for pm := 0; pm < 3; pm++ {
					child := Pom{A: "child", Parent: Key{"g", "par", "1.0"}}
					par := Pom{G: "g", A: "par", V: "1.0", Packaging: "pom"}
					if d, ok := mk(cd, "1"); ok {
						child.Deps = append(child.Deps, d)
					}
					if d, ok := mk(cm, "2"); ok {
						child.Mgmt = append(child.Mgmt, d)
					}
					if d, ok := mk(pd, "3"); ok {
						par.Deps = append(par.Deps, d)
					}
					if d, ok := mk(pm, "4"); ok {
						par.Mgmt = append(par.Mgmt, d)
					}
					out = append(out, &Lineage{Root: child, Repo: []Pom{par}})
				}
			}
		}
	}
	// an empty property: absent / empty / non-empty in the child, its parent and a default profile of the child
	qv := func(k int) []Prop {
		switch k {
		case 1:
			return []Prop{{"q", ""}}
		case 2:
			return []Prop{{"q", "-S"}}
		}
		return nil
	}
	for c := 0; c < 3; c++ {
		for p := 0; p < 3; p++ {
			for f := 0; f < 3; f++ {
				child := Pom{A: "child", Parent: Key{"g", "par", "1.0"}, Props: qv(c), Deps: []Dep{{G: "g", A: "x", V: "1${q}"}},
					Mgmt: []Dep{{G: "g", A: "y", V: "2${q}"}}}
				child.Deps = append(child.Deps, Dep{G: "g", A: "y"})
				if f > 0 {
					child.Profiles = []Profile{{Abd: "true", Props: qv(f)}}
				}
				out = append(out, &Lineage{Root: child, Repo: []Pom{{G: "g", A: "par", V: "1.0", Packaging: "pom", Props: qv(p)}}})
			}
		}
	}
	// property precedence: child / parent / profile / built-in, bare and prefixed names
	for _, name := range []string{"p", "version", "project.version", "groupId", "parent.version"} {
		for mask := 0; mask < 8; mask++ {
			child := Pom{A: "child", Parent: Key{"g", "par", "2.0"}, Deps: []Dep{{G: "g", A: "x", V: "${" + name + "}"}}}
			par := Pom{G: "g", A: "par", V: "2.0", Packaging: "pom"}
			if mask&1 != 0 {
				child.Props = []Prop{{name, "c"}}
			}
			if mask&2 != 0 {
				par.Props = []Prop{{name, "p"}}
			}
			if mask&4 != 0 {
				child.Profiles = []Profile{{Abd: "true", Props: []Prop{{name, "f"}}}}
			}
			out = append(out, &Lineage{Root: child, Repo: []Pom{par}})
		}
	}
	return out
}

// ---- the witnesses of the known findings and variants (also in corpus/C15), as ASTs so that
// the optional Maven run validates the reference semantics on exactly these

func witnessLineages() []*Lineage {
	single := func(deps, mgmt []Dep, profiles []Profile, props []Prop) *Lineage {
		return &Lineage{Root: Pom{G: "g", A: "c", V: "1", Deps: deps, Mgmt: mgmt, Profiles: profiles, Props: props}}
	}
	x := func(v string) Dep { return Dep{G: "g", A: "x", V: v} }
	return []*Lineage{
		single([]Dep{x("${u}")}, nil, nil, nil),                                                               // a
		single([]Dep{x("1"), x("2")}, nil, nil, nil),                                                          // b
		single([]Dep{{G: "${project.groupId}", A: "x", V: "1"}, x("2")}, nil, nil, nil),                       // c
		single(nil, nil, []Profile{{Jdk: Jdk{Kind: 1, Neg: true, V: []int{1, 8}}, Deps: []Dep{x("1")}}}, nil), // d
		{Root: Pom{G: "g", A: "c", V: "1", Mgmt: []Dep{{G: "g", A: "b", V: "1", Typ: "pom", Scope: "import"}}}, // f
			Repo: []Pom{{A: "b", Parent: Key{"g", "q", "1"}, Packaging: "pom", Mgmt: []Dep{x("${project.parent.version}")}},
				{G: "g", A: "q", V: "1", Packaging: "pom"}}},
		single(nil, nil, []Profile{{Jdk: Jdk{Kind: 1, V: []int{11, 0, 7}}, Deps: []Dep{x("1")}}}, nil), // g
		single([]Dep{x("${project.artifactId}")}, nil, nil, nil),
		single([]Dep{{G: "g", A: "x", V: "1", Excl: []Excl{{"g", "${e}"}}}}, nil, nil, []Prop{{"e", "y"}}),
		single([]Dep{x("1")}, nil, []Profile{{Abd: "true", Deps: []Dep{x("2")}}}, nil),
		single(nil, nil, []Profile{{Jdk: Jdk{Kind: 1, V: []int{1}}, Deps: []Dep{x("1")}}}, nil),
		single(nil, nil, []Profile{{OS: OS{Family: "linux"}, Deps: []Dep{x("1")}}}, nil),
		single([]Dep{x("${version}")}, nil, nil, []Prop{{"version", "${project.version}"}}), // prefix-aware recursion: a cycle for Maven
		// an empty property is a definition: the child's empty suffix overrides the parent's, <qualifier/> expands to nothing
		{Root: Pom{A: "c", V: "1", Parent: Key{"g", "q", "1"}, Props: []Prop{{"suffix", ""}, {"qualifier", ""}},
			Deps: []Dep{x("2.5${suffix}"), {G: "g", A: "y", V: "1.0${qualifier}"}}},
			Repo: []Pom{{G: "g", A: "q", V: "1", Packaging: "pom", Props: []Prop{{"suffix", "-SNAPSHOT"}}}}},
	}
}

// ---- property tables for the termination clause

type tableCase struct {
	table []Prop
	s     string
	kind  string
}

func genTable(r *rand.Rand) tableCase {
	key := func(i int) string { return fmt.Sprintf("k%d", i) }
	switch r.Intn(9) {
	case 0: // random small graph: cycles, self references, undefined keys
		n := 1 + r.Intn(6)
		var t []Prop
		for i := 0; i < n; i++ {
			var b strings.Builder
			for k, m := 0, r.Intn(4); k < m; k++ {
				switch r.Intn(4) {
				case 0:
					b.WriteString(pick(r, "x", "1.", "-", "}", "$", "{", "${"))
				default:
					b.WriteString("${" + key(r.Intn(n+1)) + "}")
				}
			}
			t = append(t, Prop{key(i), b.String()})
		}
		return tableCase{t, "a${" + key(r.Intn(n+1)) + "}b${" + key(r.Intn(n+1)) + "}", "graph"}
	case 1: // a cycle of length n
		n := 1 + r.Intn(6)
		var t []Prop
		for i := 0; i < n; i++ {
			t = append(t, Prop{key(i), pick(r, "", "p") + "${" + key((i+1)%n) + "}" + pick(r, "", "s")})
		}
		return tableCase{t, "${" + key(r.Intn(n)) + "}", "cycle"}
	case 2: // a long chain
		n := 20 + r.Intn(180)
		var t []Prop
		for i := 0; i < n; i++ {
			v := "end"
			if i+1 < n {
				v = "${" + key(i+1) + "}" + pick(r, "", ".")
			}
			t = append(t, Prop{key(i), v})
		}
		r.Shuffle(len(t), func(i, j int) { t[i], t[j] = t[j], t[i] })
		return tableCase{t, "${k0}", "chain"}
	case 3: // duplicated references: output doubles per level (bounded)
		n := 2 + r.Intn(11)
		var t []Prop
		for i := 0; i < n; i++ {
			v := "ab"
			if i+1 < n {
				v = "${" + key(i+1) + "}${" + key(i+1) + "}"
			}
			t = append(t, Prop{key(i), v})
		}
		return tableCase{t, "${k0}", "doubling"}
	case 4: // doubling with a cycle at the bottom
		n := 2 + r.Intn(9)
		var t []Prop
		for i := 0; i < n; i++ {
			t = append(t, Prop{key(i), "${" + key((i+1)%n) + "}${" + key((i+1)%n) + "}"})
		}
		return tableCase{t, "${k0}", "doubling-cycle"}
	case 5: // odd syntax: unclosed, nested, empty key, stray braces
		t := []Prop{{"a", pick(r, "1", "${b}", "${", "}")}, {"b", pick(r, "2", "${a}", "x}y")}, {"", "empty"}, {"a${b", "nested"}}
		s := pick(r, "${", "${a", "$a}", "${}", "${a${b}}", "}${a}{", "$${a}", "${a}${", "${b}}", "{${a}}", "${ a }", "$", "")
		return tableCase{t, s, "syntax"}
	case 6: // arbitrary bytes in keys and values (no XML involved in this op)
		rb := func(n int) string {
			b := make([]byte, n)
			for i := range b {
				b[i] = byte(r.Intn(256))
				if r.Intn(4) == 0 {
					b[i] = "${}"[r.Intn(3)]
				}
			}
			return string(b)
		}
		var t []Prop
		for i, n := 0, r.Intn(4); i < n; i++ {
			t = append(t, Prop{rb(r.Intn(3)), rb(r.Intn(8))})
		}
		return tableCase{t, rb(r.Intn(16)), "bytes"}
	case 7: // redeclared keys: the later value replaces the earlier
		t := []Prop{{"a", "old"}, {"b", "${a}"}, {"a", pick(r, "new", "${b}", "${a}")}}
		return tableCase{t, pick(r, "${a}", "${b}", "${a}-${b}"), "redeclared"}
	}
	// no placeholder at all
	return tableCase{[]Prop{{"a", "1"}}, pick(r, "plain", "", "1.0-SNAPSHOT", "$ {a}", "{a}"), "plain"}
}

func smallTables() []tableCase {
	vals := []string{"", "x", "${a}", "${b}", "${a}${b}", "${c}", "y${b}"}
	strs := []string{"${a}", "${b}", "${a}${b}", "-${a}-", "${c}", "${a}${a}", "z"}
	var out []tableCase
	for _, va := range vals {
		for _, vb := range vals {
			for _, s := range strs {
				out = append(out, tableCase{[]Prop{{"a", va}, {"b", vb}}, s, "small"})
			}
		}
	}
	return out
}
