package main

// Totality probes of the API path (Go side only: `C15 probe api <kind> <n>`): malformed
// and hostile responses that no lineage can express. The call must return (a value or an
// error) within the deadline, never panic; every dep.Type it hands out must be accepted or
// rejected by MavenDepTypeToDependency without a panic; the number of GetRequirements
// calls is bounded by the parent and import bounds.
//
// Result: `ok R[…] calls=<n> back=<ok>/<err>/<panic>` | `err calls=<n>` | `panic calls=<n>` | `timeout`.

import (
	"context"
	"fmt"
	"strconv"
	"strings"

	pb "deps.dev/api/v3"
	"deps.dev/util/maven"
	"deps.dev/util/resolve"
	"google.golang.org/grpc/codes"
	"google.golang.org/grpc/status"
)

var probeKinds = []string{"nilmaven", "parentnil", "emptyname", "colononly", "depnocolon", "exclnocolon", "cycle", "chain",
	"propcycle", "nilactivation", "nilactprop", "actall", "notfound", "parentmissing", "rpcerr", "parentrpcerr", "bundle",
	"imports", "importcycle", "selfimport", "pipeexcl", "repos", "deadline", "emptyparent", "dupdeps", "hugeprops"}

func mvn(m *pb.Requirements_Maven) *pb.Requirements { return &pb.Requirements{Maven: m} }

func vkey(name, version string) *pb.VersionKey {
	return &pb.VersionKey{System: pb.System_MAVEN, Name: name, Version: version}
}

func pdep(name, version string) *pb.Requirements_Maven_Dependency {
	return &pb.Requirements_Maven_Dependency{Name: name, Version: version}
}

// buildProbe returns the service, and the name and version to ask for.
func buildProbe(kind string, n int) (f *mvnFake, name, version string, ok bool) {
	f = newFake()
	name, version = "g:r", "1"
	c := func(i int) string { return "g:c" + strconv.Itoa(i) }
	switch kind {
	case "nilmaven":
		f.put(name, version, &pb.Requirements{})
	case "parentnil":
		f.put(name, version, mvn(&pb.Requirements_Maven{Parent: vkey("g:p", "1"), Dependencies: []*pb.Requirements_Maven_Dependency{pdep("g:x", "${v}")}}))
		f.put("g:p", "1", &pb.Requirements{})
	case "emptyname":
		name = ""
		f.put(name, version, mvn(&pb.Requirements_Maven{Dependencies: []*pb.Requirements_Maven_Dependency{pdep("g:x", "1")}}))
	case "colononly":
		name, version = ":", ""
		f.put(name, version, mvn(&pb.Requirements_Maven{Parent: vkey(":", ""), Dependencies: []*pb.Requirements_Maven_Dependency{pdep(":", "")}}))
	case "depnocolon":
		f.put(name, version, mvn(&pb.Requirements_Maven{
			Dependencies:         []*pb.Requirements_Maven_Dependency{pdep("nocolon", "1"), pdep("", "1"), pdep(":", "1"), pdep("a:b:c", "1"), pdep("g:x", "1")},
			DependencyManagement: []*pb.Requirements_Maven_Dependency{pdep("nocolon", "1"), pdep("g:x", "2")},
			Parent:               vkey("nocolon", "1"),
		}))
	case "exclnocolon":
		d := pdep("g:x", "1")
		d.Exclusions = []string{"x", "", ":", "a:b:c", "a|b:c", "g:y"}
		f.put(name, version, mvn(&pb.Requirements_Maven{Dependencies: []*pb.Requirements_Maven_Dependency{d}}))
	case "cycle":
		// n = 0: the project is its own parent; n >= 1: r → c1 → … → cn → c1
		if n == 0 {
			f.put(name, version, mvn(&pb.Requirements_Maven{Parent: vkey(name, version)}))
			break
		}
		f.put(name, version, mvn(&pb.Requirements_Maven{Parent: vkey(c(1), "1")}))
		for i := 1; i <= n; i++ {
			f.put(c(i), "1", mvn(&pb.Requirements_Maven{Parent: vkey(c(i%n+1), "1")}))
		}
	case "chain":
		root := &pb.Requirements_Maven{Dependencies: []*pb.Requirements_Maven_Dependency{pdep("g:x", "${p"+strconv.Itoa(n)+"}")}}
		if n >= 1 {
			root.Parent = vkey(c(1), "1")
		} else {
			root.Properties = []*pb.Requirements_Maven_Property{{Name: "p0", Value: "1"}}
		}
		f.put(name, version, mvn(root))
		for i := 1; i <= n; i++ {
			m := &pb.Requirements_Maven{Properties: []*pb.Requirements_Maven_Property{{Name: "p" + strconv.Itoa(i), Value: "1"}}}
			if i < n {
				m.Parent = vkey(c(i+1), "1")
			}
			f.put(c(i), "1", mvn(m))
		}
	case "propcycle":
		// every level doubles: the (unresolved) output has 2^n copies, so n is capped
		if n > 12 {
			n = 12
		}
		m := &pb.Requirements_Maven{Dependencies: []*pb.Requirements_Maven_Dependency{pdep("g:x", "${k0}"), pdep("g:y", "1"), pdep("${k0}:z", "${${k0}}")}}
		for i := 0; i <= n; i++ {
			m.Properties = append(m.Properties, &pb.Requirements_Maven_Property{Name: "k" + strconv.Itoa(i), Value: "a${k" + strconv.Itoa((i+1)%(n+1)) + "}${k" + strconv.Itoa((i+1)%(n+1)) + "}"})
		}
		f.put(name, version, mvn(m))
	case "nilactivation":
		// a profile without <activation> (the submessage is absent: F-C15-h, fixed) is not active by default
		f.put(name, version, mvn(&pb.Requirements_Maven{Dependencies: []*pb.Requirements_Maven_Dependency{pdep("g:y", "1")},
			Profiles: []*pb.Requirements_Maven_Profile{{Id: "p", Dependencies: []*pb.Requirements_Maven_Dependency{pdep("g:x", "1")}}}}))
	case "nilactprop":
		f.put(name, version, mvn(&pb.Requirements_Maven{Dependencies: []*pb.Requirements_Maven_Dependency{pdep("g:y", "1")},
			Profiles: []*pb.Requirements_Maven_Profile{{Id: "p",
				Activation:   &pb.Requirements_Maven_Profile_Activation{ActiveByDefault: "true", Property: &pb.Requirements_Maven_Profile_Activation_Property{}},
				Dependencies: []*pb.Requirements_Maven_Dependency{pdep("g:x", "1")}}}}))
	case "actall":
		f.put(name, version, mvn(&pb.Requirements_Maven{Profiles: []*pb.Requirements_Maven_Profile{{Id: "p",
			Activation: &pb.Requirements_Maven_Profile_Activation{
				ActiveByDefault: "true",
				Jdk:             &pb.Requirements_Maven_Profile_Activation_JDK{Jdk: "!1.8"},
				Os:              &pb.Requirements_Maven_Profile_Activation_OS{Name: "n", Family: "f", Arch: "a", Version: "v"},
				Property:        &pb.Requirements_Maven_Profile_Activation_Property{Property: &pb.Requirements_Maven_Property{Name: "k", Value: "v"}},
				File:            &pb.Requirements_Maven_Profile_Activation_File{Exists: "e", Missing: "m"},
			},
			Dependencies:         []*pb.Requirements_Maven_Dependency{pdep("g:x", "1")},
			DependencyManagement: []*pb.Requirements_Maven_Dependency{pdep("g:y", "1")},
			Properties:           []*pb.Requirements_Maven_Property{{Name: "k", Value: "v"}},
			Repositories:         []*pb.Requirements_Maven_Repository{{Id: "i", Url: "u", Layout: "l", ReleasesEnabled: "true", SnapshotsEnabled: "x"}},
		}}}))
	case "notfound":
	case "parentmissing":
		f.put(name, version, mvn(&pb.Requirements_Maven{Parent: vkey("g:p", "1")}))
	case "rpcerr":
		f.fail[nv{name, version}] = status.Error(codes.Unavailable, "unavailable")
	case "parentrpcerr":
		f.put(name, version, mvn(&pb.Requirements_Maven{Parent: vkey("g:p", "1")}))
		f.fail[nv{"g:p", "1"}] = status.Error(codes.Internal, "internal")
	case "bundle":
		name = "g>1>r"
		f.put(name, version, mvn(&pb.Requirements_Maven{}))
	case "imports":
		// r imports b1, b<i> imports b<i+1> …, every BOM manages one artifact
		imp := func(i int) *pb.Requirements_Maven_Dependency {
			return &pb.Requirements_Maven_Dependency{Name: "g:b" + strconv.Itoa(i), Version: "1", Type: "pom", Scope: "import"}
		}
		f.put(name, version, mvn(&pb.Requirements_Maven{DependencyManagement: []*pb.Requirements_Maven_Dependency{imp(1)},
			Dependencies: []*pb.Requirements_Maven_Dependency{pdep("g:m1", ""), pdep("g:m"+strconv.Itoa(n), "")}}))
		for i := 1; i <= n; i++ {
			m := &pb.Requirements_Maven{DependencyManagement: []*pb.Requirements_Maven_Dependency{pdep("g:m"+strconv.Itoa(i), strconv.Itoa(i))}}
			if i < n {
				m.DependencyManagement = append(m.DependencyManagement, imp(i+1))
			}
			f.put("g:b"+strconv.Itoa(i), "1", mvn(m))
		}
	case "importcycle":
		imp := func(a string) *pb.Requirements_Maven_Dependency {
			return &pb.Requirements_Maven_Dependency{Name: a, Version: "1", Type: "pom", Scope: "import"}
		}
		f.put(name, version, mvn(&pb.Requirements_Maven{DependencyManagement: []*pb.Requirements_Maven_Dependency{imp("g:b1")}}))
		f.put("g:b1", "1", mvn(&pb.Requirements_Maven{DependencyManagement: []*pb.Requirements_Maven_Dependency{imp("g:b2"), pdep("g:x", "1")}}))
		f.put("g:b2", "1", mvn(&pb.Requirements_Maven{DependencyManagement: []*pb.Requirements_Maven_Dependency{imp("g:b1"), pdep("g:y", "1")}}))
	case "selfimport":
		f.put(name, version, mvn(&pb.Requirements_Maven{DependencyManagement: []*pb.Requirements_Maven_Dependency{
			{Name: name, Version: version, Type: "pom", Scope: "import"}, pdep("g:x", "1")}, Dependencies: []*pb.Requirements_Maven_Dependency{pdep("g:x", "")}}))
	case "pipeexcl":
		d := pdep("g:x", "1")
		d.Exclusions = []string{"a|b:c"}
		f.put(name, version, mvn(&pb.Requirements_Maven{Dependencies: []*pb.Requirements_Maven_Dependency{d}}))
	case "repos":
		f.put(name, version, mvn(&pb.Requirements_Maven{Repositories: []*pb.Requirements_Maven_Repository{{Id: "i", Url: "${u}", Layout: "l", ReleasesEnabled: "", SnapshotsEnabled: "false"}},
			Dependencies: []*pb.Requirements_Maven_Dependency{pdep("g:x", "1")}}))
	case "deadline":
		f.put(name, version, mvn(&pb.Requirements_Maven{}))
	case "emptyparent":
		f.put(name, version, mvn(&pb.Requirements_Maven{Parent: &pb.VersionKey{}, Dependencies: []*pb.Requirements_Maven_Dependency{pdep("g:x", "${project.parent.version}")}}))
	case "dupdeps":
		m := &pb.Requirements_Maven{}
		for i := 0; i <= n; i++ {
			m.Dependencies = append(m.Dependencies, pdep("g:x", strconv.Itoa(i)))
			m.DependencyManagement = append(m.DependencyManagement, pdep("g:x", strconv.Itoa(i)))
		}
		f.put(name, version, mvn(m))
	case "hugeprops":
		// a chain of n properties, each doubling: the output has 2^min(n,12) copies
		k := n
		if k > 12 {
			k = 12
		}
		m := &pb.Requirements_Maven{Dependencies: []*pb.Requirements_Maven_Dependency{pdep("g:x", "${k0}")}}
		for i := 0; i < k; i++ {
			m.Properties = append(m.Properties, &pb.Requirements_Maven_Property{Name: "k" + strconv.Itoa(i), Value: "${k" + strconv.Itoa(i+1) + "}${k" + strconv.Itoa(i+1) + "}"})
		}
		m.Properties = append(m.Properties, &pb.Requirements_Maven_Property{Name: "k" + strconv.Itoa(k), Value: "ab"})
		f.put(name, version, mvn(m))
	default:
		return nil, "", "", false
	}
	return f, name, version, true
}

func runProbe(tok []string) string {
	if len(tok) != 3 || tok[0] != "api" {
		return "bad-op"
	}
	n, ok := parseNat(tok[2])
	if !ok || n > maxChain {
		return "bad-op"
	}
	f, name, version, ok := buildProbe(tok[1], n)
	if !ok {
		return "bad-op"
	}
	return probeCall(f, name, version, tok[1] == "deadline")
}

func probeCall(f *mvnFake, name, version string, expired bool) (res string) {
	defer func() {
		if r := recover(); r != nil {
			res = fmt.Sprintf("panic calls=%d", f.calls)
		}
	}()
	ctx, cancel := context.WithTimeout(context.Background(), apiDeadline)
	if expired {
		cancel()
	}
	defer cancel()
	vk := resolve.VersionKey{PackageKey: resolve.PackageKey{System: resolve.Maven, Name: name}, VersionType: resolve.Concrete, Version: version}
	rs, err := resolve.NewAPIClient(f).Requirements(ctx, vk)
	if err != nil {
		return fmt.Sprintf("err calls=%d", f.calls)
	}
	nok, nerr, npanic := 0, 0, 0
	for _, r := range rs {
		switch b := backOf(r.Type); {
		case b == "panic":
			npanic++
		case b == "err":
			nerr++
		default:
			nok++
		}
	}
	return fmt.Sprintf("ok %s calls=%d back=%d/%d/%d", fmtReqs(rs), f.calls, nok, nerr, npanic)
}

// probeVerdict is the oracle api-total on one probe op line and its result.
func probeVerdict(op, res string) (bool, string) {
	f := strings.Fields(op)
	if len(f) != 5 || f[1] != "probe" || f[2] != "api" {
		return false, ""
	}
	n, _ := parseNat(f[4])
	if res == "timeout" || strings.HasPrefix(res, "panic") {
		return true, "Requirements did not return normally (" + res + ") on the " + f[3] + " response"
	}
	calls := -1
	back := ""
	for _, x := range strings.Fields(res) {
		if strings.HasPrefix(x, "calls=") {
			calls, _ = strconv.Atoi(x[6:])
		}
		if strings.HasPrefix(x, "back=") {
			back = x[5:]
		}
	}
	if back != "" && !strings.HasSuffix(back, "/0") {
		return true, "MavenDepTypeToDependency panics on a dep.Type that Requirements returned (" + back + " ok/err/panic)"
	}
	bound := 1 + goMaxParent*(1+maven.MaxImports)
	if calls < 0 || calls > bound {
		return true, fmt.Sprintf("%d GetRequirements calls, the parent and import bounds allow %d", calls, bound)
	}
	okRes := strings.HasPrefix(res, "ok ")
	want := func(cond bool, what string) (bool, string) {
		if !cond {
			return true, f[3] + ": " + what + "; got " + trunc(res, 200)
		}
		return false, ""
	}
	switch f[3] {
	case "chain":
		exp := 1 + n
		if n > goMaxParent {
			exp = 1 + goMaxParent
		}
		return want(okRes && calls == exp, fmt.Sprintf("a chain of %d parents must succeed with %d calls", n, exp))
	case "cycle":
		// r → c1 → … → cn → c1: the walk meets c1 again at its (n+1)-th step if the bound lets it get there
		if n >= goMaxParent {
			return want(okRes && calls == 1+goMaxParent, fmt.Sprintf("a cycle longer than the bound is cut off by the bound after %d calls", 1+goMaxParent))
		}
		return want(!okRes && calls == 1+max(n, 1), "a cycle of parents is an error after exactly one round")
	case "notfound", "parentmissing", "rpcerr", "parentrpcerr", "bundle", "deadline", "emptyname":
		return want(!okRes, "must be an error")
	case "nilactivation":
		return want(okRes && strings.Contains(res, "R[673a79/31/") && !strings.Contains(res, "673a78/"), "a profile without activation is not active by default: only g:y")
	case "nilactprop":
		return want(okRes && strings.Contains(res, "673a79/31/") && strings.Contains(res, "673a78/31/"), "the default profile with an empty activation property is merged: g:y and g:x")
	case "pipeexcl":
		return want(okRes && strings.Contains(res, "/e=-]") && strings.HasSuffix(res, "back=1/0/0"), "the exclusion with a pipe is left out and the type converts back")
	case "nilmaven", "parentnil", "depnocolon", "exclnocolon", "propcycle", "actall", "imports", "importcycle", "selfimport", "repos", "emptyparent", "dupdeps", "hugeprops", "colononly":
		return want(okRes, "must succeed")
	}
	return false, ""
}

