package main

// An independent implementation of the reference semantics (Maven's model
// building algorithm for the POM subset) on the AST. It mirrors
// lean/DepsDev/Ref/MavenModel.lean line by line (the two are compared by the
// `ref` op) and is validated against Maven's real DefaultModelBuilder when the
// jars are present (maven.go). It does not share code with the library.

import "strings"

// Env: the JDK and OS the profiles are activated for.
type Env struct {
	JDK                       []int  // java.version as numbers
	OSName, OSArch, OSVersion string // lower case, as plexus Os reports them
}

type rkey struct{ g, a, typ, cls string }

// Dependency.getManagementKey: groupId:artifactId:type[:classifier]
func mkey(d Dep) rkey {
	t := d.Typ
	if t == "" {
		t = "jar"
	}
	return rkey{d.G, d.A, t, d.Cls}
}

// ModelMerger.merge(tgt, src, sourceDominant, key): LinkedHashMap semantics. The
// target is loaded first (a later duplicate replaces the value at the first
// position), then the source: replaces when dominant, else only adds new keys.
func mergeKeyed(tgt, src []Dep, srcDominant bool) []Dep {
	if len(src) == 0 {
		return tgt
	}
	var out []Dep
	put := func(d Dep, replace bool) {
		k := mkey(d)
		for i := range out {
			if mkey(out[i]) == k {
				if replace {
					out[i] = d
				}
				return
			}
		}
		out = append(out, d)
	}
	for _, d := range tgt {
		put(d, true)
	}
	for _, d := range src {
		put(d, srcDominant)
	}
	return out
}

// DefaultModelNormalizer.mergeDuplicates (dependencies only)
func mergeDuplicates(ds []Dep) []Dep {
	var out []Dep
	for _, d := range ds {
		k := mkey(d)
		found := false
		for i := range out {
			if mkey(out[i]) == k {
				out[i] = d
				found = true
				break
			}
		}
		if !found {
			out = append(out, d)
		}
	}
	return out
}

// Properties.putAll
func putProps(base, over []Prop) []Prop {
	out := append([]Prop(nil), base...)
	for _, p := range over {
		found := false
		for i := range out {
			if out[i].K == p.K {
				out[i].V = p.V
				found = true
				break
			}
		}
		if !found {
			out = append(out, p)
		}
	}
	return out
}

// ---- profile activation (JdkVersionProfileActivator, OperatingSystemProfileActivator, 3.8.x)

func numAt(v []int, i int) int {
	if i < len(v) {
		return v[i]
	}
	return 0
}

// getRelationOrder restricted to the first three numbers
func cmp3(a, b []int) int {
	for i := 0; i < 3; i++ {
		x, y := numAt(a, i), numAt(b, i)
		if x < y {
			return -1
		}
		if x > y {
			return 1
		}
	}
	return 0
}

func refJdkActive(j Jdk, env Env) bool {
	switch j.Kind {
	case 1:
		pre := strings.HasPrefix(numsText(env.JDK), numsText(j.V)) // version.startsWith(jdk)
		if j.Neg {
			return !pre
		}
		return pre
	case 2:
		left := 1
		if j.Lo != nil {
			left = cmp3(env.JDK, j.Lo)
			if left == 0 && !j.LoIncl {
				left = -1
			}
		}
		if left == 0 {
			return true
		}
		if left < 0 {
			return false
		}
		right := -1
		if j.Hi != nil {
			right = cmp3(env.JDK, j.Hi)
			if right == 0 && !j.HiIncl {
				right = 1
			}
		}
		return right <= 0
	}
	return false
}

func lowerASCII(s string) string {
	b := []byte(s)
	for i, c := range b {
		if c >= 'A' && c <= 'Z' {
			b[i] = c + 32
		}
	}
	return string(b)
}

// plexus Os.isFamily on the families that matter for a given os.name
func refFamily(fam, osName string) bool {
	f := lowerASCII(fam)
	mac := strings.Contains(osName, "mac") || strings.Contains(osName, "darwin")
	switch f {
	case "windows":
		return strings.Contains(osName, "windows")
	case "mac":
		return mac
	case "unix":
		return !strings.Contains(osName, "openvms") && (!mac || strings.HasSuffix(osName, "x"))
	}
	return strings.Contains(osName, f)
}

func negated(spec string, test func(string) bool) bool {
	if strings.HasPrefix(spec, "!") {
		return !test(spec[1:])
	}
	return test(spec)
}

func refOSActive(o OS, env Env) bool {
	ok := true
	if o.Family != "" {
		ok = ok && negated(o.Family, func(t string) bool { return refFamily(t, env.OSName) })
	}
	if o.Name != "" {
		ok = ok && negated(o.Name, func(t string) bool { return lowerASCII(t) == env.OSName })
	}
	if o.Arch != "" {
		ok = ok && negated(o.Arch, func(t string) bool { return lowerASCII(t) == env.OSArch })
	}
	if o.Version != "" {
		ok = ok && negated(o.Version, func(t string) bool { return lowerASCII(t) == env.OSVersion })
	}
	return ok
}

// DefaultProfileSelector.isActive: every activator present in the profile must agree.
func refActivated(f Profile, env Env) bool {
	present, active := false, true
	if f.Jdk.Kind != 0 {
		present = true
		active = active && refJdkActive(f.Jdk, env)
	}
	if f.OS != (OS{}) {
		present = true
		active = active && refOSActive(f.OS, env)
	}
	return present && active
}

// DefaultProfileSelector.getActiveProfiles for the POM's own profiles
func refActiveProfiles(p *Pom, env Env) []Profile {
	var active, byDefault []Profile
	for _, f := range p.Profiles {
		if refActivated(f, env) {
			active = append(active, f)
		} else if f.Abd == "true" {
			byDefault = append(byDefault, f)
		}
	}
	if len(active) == 0 {
		return byDefault
	}
	return active
}

// ---- the model under construction

type rmodel struct {
	G, A, V   string
	Parent    Key
	Packaging string
	Props     []Prop
	Deps      []Dep
	Mgmt      []Dep
}

// step 1 for one raw model: normalisation, then profile injection (profile wins)
func refInjectProfiles(p *Pom, env Env) rmodel {
	m := rmodel{p.G, p.A, p.V, p.Parent, p.Packaging, putProps(nil, p.Props), mergeDuplicates(p.Deps), p.Mgmt}
	for _, f := range refActiveProfiles(p, env) {
		m.Props = putProps(m.Props, f.Props)
		m.Deps = mergeKeyed(m.Deps, f.Deps, true)
		m.Mgmt = mergeKeyed(m.Mgmt, f.Mgmt, true)
	}
	return m
}

// step 2: inheritance assembly (child wins)
func refInherit(child, parent rmodel) rmodel {
	m := child
	if m.G == "" {
		m.G = parent.G
	}
	if m.V == "" {
		m.V = parent.V
	}
	m.Props = putProps(parent.Props, child.Props)
	m.Deps = mergeKeyed(child.Deps, parent.Deps, false)
	m.Mgmt = mergeKeyed(child.Mgmt, parent.Mgmt, false)
	return m
}

// ---- step 3: interpolation

func trimPrefix(e string) string {
	if strings.HasPrefix(e, "pom.") {
		return e[4:]
	}
	if strings.HasPrefix(e, "project.") {
		return e[8:]
	}
	return e
}

// the model object as a value source
func (m *rmodel) objPath(p string) (string, bool) {
	v := ""
	switch p {
	case "groupId":
		v = m.G
	case "artifactId":
		v = m.A
	case "version":
		v = m.V
	case "packaging":
		v = m.Packaging
		if v == "" {
			v = "jar"
		}
	case "parent.groupId":
		v = m.Parent.G
	case "parent.artifactId":
		v = m.Parent.A
	case "parent.version":
		v = m.Parent.V
	}
	return v, v != ""
}

// value sources in Maven's order: project.* / pom.* object, properties, bare object
func (m *rmodel) lookup(e string) (string, bool) {
	if t := trimPrefix(e); t != e {
		if v, ok := m.objPath(t); ok {
			return v, true
		}
	}
	for _, p := range m.Props {
		if p.K == e {
			return p.V, true
		}
	}
	return m.objPath(e)
}

// StringSearchInterpolator with its recursion interceptor. ok = false: cycle (an error in Maven).
// (Maven interpolates the property values themselves first, in place, so that the prefix
// awareness of its interceptor never turns ${version} -> ${project.version} into a cycle;
// the stack of raw expressions gives the same outcome.)
func (m *rmodel) interp(s string, stack []string, fuel int) (string, bool) {
	if fuel == 0 {
		return s, false
	}
	var out strings.Builder
	for {
		i := strings.Index(s, "${")
		if i < 0 {
			break
		}
		j := strings.Index(s[i+2:], "}")
		if j < 0 {
			break
		}
		out.WriteString(s[:i])
		e := s[i+2 : i+2+j]
		whole := s[i : i+2+j+1]
		s = s[i+2+j+1:]
		for _, x := range stack {
			if x == e {
				return "", false
			}
		}
		if v, ok := m.lookup(e); ok {
			r, ok := m.interp(v, append(append([]string(nil), stack...), e), fuel-1)
			if !ok {
				return "", false
			}
			out.WriteString(r)
		} else {
			out.WriteString(whole)
		}
	}
	out.WriteString(s)
	return out.String(), true
}

func (m *rmodel) interpDeps(ds []Dep, fuel int) ([]Dep, bool) {
	out := make([]Dep, len(ds))
	for i, d := range ds {
		ok := true
		f := func(s string) string {
			r, k := m.interp(s, nil, fuel)
			ok = ok && k
			return r
		}
		n := Dep{G: f(d.G), A: f(d.A), V: f(d.V), Typ: f(d.Typ), Cls: f(d.Cls), Scope: f(d.Scope), Opt: f(d.Opt)}
		for _, e := range d.Excl {
			n.Excl = append(n.Excl, Excl{f(e.G), f(e.A)})
		}
		if !ok {
			return nil, false
		}
		out[i] = n
	}
	return out, true
}

func validID(s string) bool {
	if s == "" {
		return false
	}
	for i := 0; i < len(s); i++ {
		c := s[i]
		if !(c >= 'a' && c <= 'z' || c >= 'A' && c <= 'Z' || c >= '0' && c <= '9' || c == '_' || c == '.' || c == '-') {
			return false
		}
	}
	return true
}

// ---- the whole algorithm

type refCtx struct {
	l   *Lineage
	env Env
}

func (c *refCtx) fetch(k Key) *Pom {
	for i := range c.l.Repo {
		if c.l.Repo[i].storeKey() == k {
			return &c.l.Repo[i]
		}
	}
	return nil
}

// the POM and its ancestors, child first; false = Maven reports an error
func (c *refCtx) chain(p *Pom) ([]*Pom, bool) {
	out := []*Pom{p}
	var seen []Key
	cur := p
	for n := 0; cur.Parent != (Key{}); n++ {
		k := cur.Parent
		if k.G == "" || k.A == "" || k.V == "" || n > len(c.l.Repo) {
			return nil, false
		}
		for _, s := range seen {
			if s == k {
				return nil, false
			}
		}
		seen = append(seen, k)
		par := c.fetch(k)
		if par == nil || par.Packaging != "pom" {
			return nil, false
		}
		out = append(out, par)
		cur = par
	}
	return out, true
}

// effective model of p; importing = coordinates of the models being imported from (cycle check)
func (c *refCtx) effective(p *Pom, importing []Key, fuel int) (*rmodel, bool) {
	if fuel == 0 {
		return nil, false
	}
	ch, ok := c.chain(p)
	if !ok {
		return nil, false
	}
	// profile injection per model, inheritance assembly from the root ancestor down
	m := refInjectProfiles(ch[len(ch)-1], c.env)
	for i := len(ch) - 2; i >= 0; i-- {
		m = refInherit(refInjectProfiles(ch[i], c.env), m)
	}
	// interpolation
	ifuel := len(m.Props) + 24
	deps, ok1 := m.interpDeps(m.Deps, ifuel)
	mgmt, ok2 := m.interpDeps(m.Mgmt, ifuel)
	g, ok3 := m.interp(m.G, nil, ifuel)
	v, ok4 := m.interp(m.V, nil, ifuel)
	if !(ok1 && ok2 && ok3 && ok4) {
		return nil, false
	}
	m.Deps, m.Mgmt, m.G, m.V = deps, mgmt, g, v
	// dependency management import: own entries first, then each import in order, first wins
	self := Key{m.G, m.A, m.V}
	var own []Dep
	var imported [][]Dep
	for _, d := range m.Mgmt {
		if !(d.Typ == "pom" && d.Scope == "import") {
			own = append(own, d)
			continue
		}
		k := Key{d.G, d.A, d.V}
		if k.G == "" || k.A == "" || k.V == "" || k == self {
			return nil, false
		}
		for _, x := range importing {
			if x == k {
				return nil, false
			}
		}
		bom := c.fetch(k)
		if bom == nil {
			return nil, false
		}
		bm, ok := c.effective(bom, append(append([]Key(nil), importing...), self), fuel-1)
		if !ok {
			return nil, false
		}
		imported = append(imported, bm.Mgmt)
	}
	// (the importer only runs when something was imported; otherwise the own entries stay as they are)
	m.Mgmt = own
	if len(imported) > 0 {
		m.Mgmt = mergeDuplicates(own)
		for _, im := range imported {
			m.Mgmt = mergeKeyed(m.Mgmt, im, false)
		}
	}
	// management injection: version, scope, exclusions when absent
	for _, md := range m.Mgmt {
		k := mkey(md)
		for i := len(m.Deps) - 1; i >= 0; i-- {
			if mkey(m.Deps[i]) == k {
				d := &m.Deps[i]
				if d.V == "" {
					d.V = md.V
				}
				if d.Scope == "" {
					d.Scope = md.Scope
				}
				if len(d.Excl) == 0 {
					d.Excl = md.Excl
				}
				break
			}
		}
	}
	// effective model validation (minimal level)
	if !validID(m.G) || !validID(m.A) || m.V == "" {
		return nil, false
	}
	for _, d := range m.Deps {
		if !validID(d.G) || !validID(d.A) || d.V == "" {
			return nil, false
		}
	}
	for _, d := range m.Mgmt {
		if !validID(d.G) || !validID(d.A) {
			return nil, false
		}
	}
	return &m, true
}

// refEffective: dependencies and managed dependencies of the root's effective model.
func refEffective(l *Lineage, env Env) (deps, mgmt []Dep, ok bool) {
	c := &refCtx{l, env}
	m, ok := c.effective(&l.Root, nil, len(l.Repo)+2)
	if !ok {
		return nil, nil, false
	}
	return m.Deps, m.Mgmt, true
}
