package main

// Translator generator C15Consts: constants of util/maven and util/resolve that
// the Lean model of C15 uses (data only).
//
// What is exported API of /repo (MaxImports, MaxMavenParent, JDKProfileActivation,
// OSProfileActivation) is read as the VALUE the linked code holds (the harness binary is
// rebuilt from the tree under test on every check), so it does not matter whether it is a
// constant, a variable, a literal or something built by a helper; where the type checker
// knows the exported name as a constant, the two must agree (a stale binary is refused).
//
// The built-in property names of Project.propertyMap are found by role in the
// type-checked package, not by the names `propertyMap` / `addProjectProperty` / `p`:
// the one function that stores under <constant prefix>+<its string parameter> in a
// map[string]string is the adder; its call sites with a constant name and a field of the
// Project are the built-ins.

import (
	"bytes"
	"fmt"
	"go/ast"
	"go/constant"
	"go/token"
	"go/types"
	"path/filepath"
	"sort"
	"strings"

	"deps.dev/util/maven"
	"deps.dev/util/resolve"
	"golang.org/x/tools/go/packages"
	"verifharness/fw"
)

func leanNums(v []int) string {
	parts := make([]string, len(v))
	for i, x := range v {
		parts[i] = fmt.Sprint(x)
	}
	return "[" + strings.Join(parts, ", ") + "]"
}

// agree refuses a binary whose linked value differs from the constant of that name in the
// tree it is asked to translate (no constant of that name: nothing to compare).
func agree(p *packages.Package, name string, linked constant.Value) error {
	c, ok := p.Types.Scope().Lookup(name).(*types.Const)
	if !ok {
		return nil
	}
	if !constant.Compare(c.Val(), token.EQL, linked) {
		return fmt.Errorf("%s.%s is %s in the source tree but %s in the linked code (harness binary not built from this tree)", p.PkgPath, name, c.Val(), linked)
	}
	return nil
}

var fieldIndex = map[string]int{"GroupID": 0, "ArtifactID": 1, "Version": 2, "Parent.GroupID": 3, "Parent.ArtifactID": 4, "Parent.Version": 5}

// projectField renders x.Parent.GroupID as "Parent.GroupID" when x is a (pointer to a)
// maven.Project.
func projectField(p *packages.Package, e ast.Expr) (string, bool) {
	var names []string
	for {
		e = ast.Unparen(e)
		se, ok := e.(*ast.SelectorExpr)
		if !ok {
			break
		}
		names = append([]string{se.Sel.Name}, names...)
		e = se.X
	}
	tv, ok := p.TypesInfo.Types[e]
	if !ok || len(names) == 0 {
		return "", false
	}
	t := tv.Type
	if pt, ok := t.Underlying().(*types.Pointer); ok {
		t = pt.Elem()
	}
	nt, ok := t.(*types.Named)
	if !ok || nt.Obj().Pkg() != p.Types || nt.Obj().Name() != "Project" {
		return "", false
	}
	return strings.Join(names, "."), true
}

type builtin struct {
	key   string
	field int
}

// an adder is a function (declared or literal) with a string parameter k that assigns
// m[<constant>+k] for a map[string]string m.
type adder struct {
	node     ast.Node
	keyIdx   int
	prefixes []string
}

func paramObjs(p *packages.Package, ft *ast.FuncType) []types.Object {
	var out []types.Object
	if ft.Params == nil {
		return nil
	}
	for _, f := range ft.Params.List {
		if len(f.Names) == 0 {
			out = append(out, nil)
		}
		for _, n := range f.Names {
			out = append(out, p.TypesInfo.Defs[n])
		}
	}
	return out
}

func isStringStringMap(t types.Type) bool {
	m, ok := t.Underlying().(*types.Map)
	if !ok {
		return false
	}
	k, ok1 := m.Key().Underlying().(*types.Basic)
	v, ok2 := m.Elem().Underlying().(*types.Basic)
	return ok1 && ok2 && k.Kind() == types.String && v.Kind() == types.String
}

func findAdders(p *packages.Package) []adder {
	var out []adder
	for _, f := range p.Syntax {
		ast.Inspect(f, func(n ast.Node) bool {
			var ft *ast.FuncType
			var body *ast.BlockStmt
			switch x := n.(type) {
			case *ast.FuncDecl:
				ft, body = x.Type, x.Body
			case *ast.FuncLit:
				ft, body = x.Type, x.Body
			}
			if body == nil {
				return true
			}
			params := paramObjs(p, ft)
			ad := adder{node: n, keyIdx: -1}
			ast.Inspect(body, func(m ast.Node) bool {
				if _, nested := m.(*ast.FuncLit); nested {
					return false // its assignments belong to the nested function
				}
				as, ok := m.(*ast.AssignStmt)
				if !ok {
					return true
				}
				for _, l := range as.Lhs {
					ix, ok := ast.Unparen(l).(*ast.IndexExpr)
					if !ok {
						continue
					}
					if tv, ok := p.TypesInfo.Types[ix.X]; !ok || !isStringStringMap(tv.Type) {
						continue
					}
					be, ok := ast.Unparen(ix.Index).(*ast.BinaryExpr)
					if !ok || be.Op != token.ADD {
						continue
					}
					pre, ok := fw.EvalStr(p, be.X)
					id, ok2 := ast.Unparen(be.Y).(*ast.Ident)
					if !ok || !ok2 {
						continue
					}
					for i, po := range params {
						if po != nil && p.TypesInfo.Uses[id] == po {
							if ad.keyIdx == -1 || ad.keyIdx == i {
								ad.keyIdx = i
								ad.prefixes = append(ad.prefixes, pre)
							}
						}
					}
				}
				return true
			})
			if ad.keyIdx >= 0 {
				out = append(out, ad)
			}
			return true
		})
	}
	return out
}

// adderObj is the object through which the adder is called: the declared function, or the
// variable a function literal is assigned to.
func adderObj(p *packages.Package, ad adder) types.Object {
	if fd, ok := ad.node.(*ast.FuncDecl); ok {
		return p.TypesInfo.Defs[fd.Name]
	}
	var obj types.Object
	for _, f := range p.Syntax {
		ast.Inspect(f, func(n ast.Node) bool {
			switch s := n.(type) {
			case *ast.AssignStmt:
				if len(s.Lhs) == len(s.Rhs) {
					for i, r := range s.Rhs {
						if ast.Unparen(r) == ad.node {
							if id, ok := s.Lhs[i].(*ast.Ident); ok {
								if obj = p.TypesInfo.Defs[id]; obj == nil {
									obj = p.TypesInfo.Uses[id]
								}
							}
						}
					}
				}
			case *ast.ValueSpec:
				for i, r := range s.Values {
					if ast.Unparen(r) == ad.node && i < len(s.Names) {
						obj = p.TypesInfo.Defs[s.Names[i]]
					}
				}
			}
			return true
		})
	}
	return obj
}

func projectBuiltins(mv *packages.Package) ([]builtin, []string, error) {
	ads := findAdders(mv)
	if len(ads) != 1 {
		return nil, nil, fmt.Errorf("maven: expected one function storing under <constant prefix>+<string parameter> in a map[string]string, found %d", len(ads))
	}
	ad := ads[0]
	obj := adderObj(mv, ad)
	if obj == nil {
		return nil, nil, fmt.Errorf("maven: the function adding project properties is not bound to a name")
	}
	var builtins []builtin
	var bad error
	for _, f := range mv.Syntax {
		ast.Inspect(f, func(n ast.Node) bool {
			call, ok := n.(*ast.CallExpr)
			if !ok || bad != nil {
				return true
			}
			var o types.Object
			switch fn := ast.Unparen(call.Fun).(type) {
			case *ast.Ident:
				o = mv.TypesInfo.Uses[fn]
			case *ast.SelectorExpr:
				o = mv.TypesInfo.Uses[fn.Sel]
			}
			if o != obj {
				return true
			}
			if ad.keyIdx >= len(call.Args) {
				bad = fmt.Errorf("maven: the function adding project properties is called without a name (%s)", mv.Fset.Position(call.Pos()))
				return true
			}
			k, ok := fw.EvalStr(mv, call.Args[ad.keyIdx])
			// the value: the one other argument that is a field of the Project
			var paths []string
			for i, a := range call.Args {
				if path, isField := projectField(mv, a); isField && i != ad.keyIdx {
					paths = append(paths, path)
				}
			}
			ok2 := len(paths) == 1
			idx, ok3 := 0, false
			if ok2 {
				idx, ok3 = fieldIndex[paths[0]]
			}
			if !ok || !ok2 || !ok3 {
				bad = fmt.Errorf("maven: a project property is added with a non-constant name or a value that is not one of the Project's coordinates (%s)", mv.Fset.Position(call.Pos()))
				return true
			}
			builtins = append(builtins, builtin{k, idx})
			return true
		})
	}
	if bad != nil {
		return nil, nil, bad
	}
	if len(builtins) == 0 {
		return nil, nil, fmt.Errorf("maven: no built-in project property")
	}
	// The calls write disjoint keys exactly when the names are distinct (and the prefixes are);
	// then their order is immaterial and the tables are emitted in a canonical order
	// (built-ins by field number, prefixes by bytes).
	seen := map[string]bool{}
	for _, x := range builtins {
		if seen[x.key] {
			return nil, nil, fmt.Errorf("maven: built-in project property %q is added twice (order-dependent)", x.key)
		}
		seen[x.key] = true
	}
	prefixes := append([]string(nil), ad.prefixes...)
	for i, x := range prefixes {
		for _, y := range prefixes[:i] {
			if x == y {
				return nil, nil, fmt.Errorf("maven: prefix %q is written twice", x)
			}
		}
	}
	written := map[string]bool{}
	for _, x := range builtins {
		for _, w := range append([]string{""}, prefixes...) {
			if written[w+x.key] {
				return nil, nil, fmt.Errorf("maven: project property key %q is written by two built-ins (order-dependent)", w+x.key)
			}
			written[w+x.key] = true
		}
	}
	sort.SliceStable(builtins, func(i, j int) bool {
		if builtins[i].field != builtins[j].field {
			return builtins[i].field < builtins[j].field
		}
		return builtins[i].key < builtins[j].key
	})
	sort.Slice(prefixes, func(i, j int) bool { return bytes.Compare([]byte(prefixes[i]), []byte(prefixes[j])) < 0 })
	return builtins, prefixes, nil
}

func genC15Consts(repo string) (string, error) {
	mv, err := fw.LoadPkg(filepath.Join(repo, "util", "maven"))
	if err != nil {
		return "", err
	}
	rs, err := fw.LoadPkg(filepath.Join(repo, "util", "resolve"))
	if err != nil {
		return "", err
	}
	// values of the exported API, as the linked code holds them
	maxImports := int64(maven.MaxImports)
	maxParent := int64(resolve.MaxMavenParent)
	jdk := string(maven.JDKProfileActivation)
	linkedOS := maven.OSProfileActivation
	osv := map[string]string{"Name": string(linkedOS.Name), "Family": string(linkedOS.Family), "Arch": string(linkedOS.Arch), "Version": string(linkedOS.Version)}
	if err := agree(mv, "MaxImports", constant.MakeInt64(maxImports)); err != nil {
		return "", err
	}
	if err := agree(rs, "MaxMavenParent", constant.MakeInt64(maxParent)); err != nil {
		return "", err
	}
	if err := agree(mv, "JDKProfileActivation", constant.MakeString(jdk)); err != nil {
		return "", err
	}
	if maxImports < 0 || maxParent < 0 {
		return "", fmt.Errorf("negative bound: MaxImports %d, MaxMavenParent %d", maxImports, maxParent)
	}
	jdkNums, ok := parseNums(jdk)
	if !ok {
		return "", fmt.Errorf("JDKProfileActivation %q is not a dotted decimal version", jdk)
	}
	builtins, prefixes, err := projectBuiltins(mv)
	if err != nil {
		return "", err
	}
	var b strings.Builder
	b.WriteString("-- C15Consts: constants of util/maven and util/resolve that the C15 model uses.\n")
	b.WriteString("namespace DepsDev.Gen.C15Consts\n\n")
	fmt.Fprintf(&b, "/-- maven.MaxImports (util/maven/dependency.go) -/\ndef maxImports : Nat := %d\n", maxImports)
	fmt.Fprintf(&b, "/-- resolve.MaxMavenParent (util/resolve/maven.go) -/\ndef maxMavenParent : Nat := %d\n", maxParent)
	fmt.Fprintf(&b, "/-- maven.JDKProfileActivation = %s as its dot separated numbers -/\ndef jdkProfileActivation : List Nat := %s\n", fw.LeanStr(jdk), leanNums(jdkNums))
	b.WriteString("/-- maven.OSProfileActivation fields (bytes) -/\n")
	for _, f := range []string{"Name", "Family", "Arch", "Version"} {
		fmt.Fprintf(&b, "def os%s : List UInt8 := %s\n", f, fw.LeanBytes(osv[f]))
	}
	b.WriteString("/-- Project.propertyMap: the addProjectProperty calls in order, as (key bytes, field), field: 0 = GroupID, 1 = ArtifactID, 2 = Version, 3 = Parent.GroupID, 4 = Parent.ArtifactID, 5 = Parent.Version -/\n")
	b.WriteString("def builtins : List (List UInt8 × Nat) := [\n")
	for i, x := range builtins {
		sep := ","
		if i == len(builtins)-1 {
			sep = "]"
		}
		fmt.Fprintf(&b, "  (%s, %d)%s\n", fw.LeanBytes(x.key), x.field, sep)
	}
	b.WriteString("/-- the prefixes under which addProjectProperty always (over)writes, in assignment order -/\n")
	b.WriteString("def builtinPrefixes : List (List UInt8) := [\n")
	for i, x := range prefixes {
		sep := ","
		if i == len(prefixes)-1 {
			sep = "]"
		}
		fmt.Fprintf(&b, "  %s%s\n", fw.LeanBytes(x), sep)
	}
	if len(prefixes) == 0 {
		b.WriteString("  ]\n")
	}
	b.WriteString("\nend DepsDev.Gen.C15Consts\n")
	return b.String(), nil
}
