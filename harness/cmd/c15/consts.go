package main

// Translator generator C15Consts: constants of util/maven and util/resolve that
// the Lean model of C15 uses (data only).

import (
	"fmt"
	"go/ast"
	"go/constant"
	"go/token"
	"go/types"
	"path/filepath"
	"strings"

	"golang.org/x/tools/go/packages"
	"verifharness/fw"
)

func constString(p *packages.Package, name string) (string, error) {
	c, ok := p.Types.Scope().Lookup(name).(*types.Const)
	if !ok || c.Val().Kind() != constant.String {
		return "", fmt.Errorf("%s: no string constant %s", p.PkgPath, name)
	}
	return constant.StringVal(c.Val()), nil
}

func leanNums(v []int) string {
	parts := make([]string, len(v))
	for i, x := range v {
		parts[i] = fmt.Sprint(x)
	}
	return "[" + strings.Join(parts, ", ") + "]"
}

// selector path of an expression like p.Parent.GroupID → "Parent.GroupID"
func selPath(e ast.Expr) string {
	switch x := e.(type) {
	case *ast.SelectorExpr:
		if id, ok := x.X.(*ast.Ident); ok && id.Name == "p" {
			return x.Sel.Name
		}
		return selPath(x.X) + "." + x.Sel.Name
	}
	return "?"
}

var fieldIndex = map[string]int{"GroupID": 0, "ArtifactID": 1, "Version": 2, "Parent.GroupID": 3, "Parent.ArtifactID": 4, "Parent.Version": 5}

func genC15Consts(repo string) (string, error) {
	mv, err := fw.LoadPkg(filepath.Join(repo, "util", "maven"))
	if err != nil {
		return "", err
	}
	rs, err := fw.LoadPkg(filepath.Join(repo, "util", "resolve"))
	if err != nil {
		return "", err
	}
	maxImports, err := fw.ConstInt(mv, "MaxImports")
	if err != nil {
		return "", err
	}
	maxParent, err := fw.ConstInt(rs, "MaxMavenParent")
	if err != nil {
		return "", err
	}
	jdk, err := constString(mv, "JDKProfileActivation")
	if err != nil {
		return "", err
	}
	jdkNums, ok := parseNums(jdk)
	if !ok {
		return "", fmt.Errorf("JDKProfileActivation %q is not a dotted decimal version", jdk)
	}
	// OSProfileActivation = ActivationOS{Name: …, Family: …, Arch: …, Version: …}
	osv := map[string]string{}
	lit, ok := fw.FindVar(mv, "OSProfileActivation").(*ast.CompositeLit)
	if !ok {
		return "", fmt.Errorf("OSProfileActivation: not a composite literal")
	}
	for _, e := range lit.Elts {
		kv, ok := e.(*ast.KeyValueExpr)
		if !ok {
			return "", fmt.Errorf("OSProfileActivation: unkeyed field")
		}
		s, ok := fw.EvalStr(mv, kv.Value)
		if !ok {
			return "", fmt.Errorf("OSProfileActivation: non-constant field")
		}
		osv[kv.Key.(*ast.Ident).Name] = s
	}
	// propertyMap: addProjectProperty("k", p.Field) calls, and the prefixes its body assigns under
	type builtin struct {
		key   string
		field int
	}
	var builtins []builtin
	var prefixes []string
	found := false
	for _, f := range mv.Syntax {
		for _, d := range f.Decls {
			fd, ok := d.(*ast.FuncDecl)
			if !ok || fd.Name.Name != "propertyMap" || fd.Body == nil {
				continue
			}
			found = true
			var bad error
			ast.Inspect(fd.Body, func(n ast.Node) bool {
				switch x := n.(type) {
				case *ast.CallExpr:
					if id, ok := x.Fun.(*ast.Ident); ok && id.Name == "addProjectProperty" && len(x.Args) == 2 {
						k, ok := fw.EvalStr(mv, x.Args[0])
						idx, ok2 := fieldIndex[selPath(x.Args[1])]
						if !ok || !ok2 {
							bad = fmt.Errorf("propertyMap: unrecognised addProjectProperty call")
							return false
						}
						builtins = append(builtins, builtin{k, idx})
					}
				case *ast.AssignStmt:
					if len(x.Lhs) == 1 {
						if ix, ok := x.Lhs[0].(*ast.IndexExpr); ok {
							if be, ok := ix.Index.(*ast.BinaryExpr); ok && be.Op == token.ADD {
								if s, ok := fw.EvalStr(mv, be.X); ok {
									prefixes = append(prefixes, s)
								}
							}
						}
					}
				}
				return true
			})
			if bad != nil {
				return "", bad
			}
		}
	}
	if !found || len(builtins) == 0 {
		return "", fmt.Errorf("propertyMap: not found or no built-ins")
	}
	var b strings.Builder
	b.WriteString("-- C15Consts: constants of util/maven and util/resolve that the C15 model uses.\n")
	b.WriteString("namespace DepsDev.Gen.C15Consts\n\n")
	fmt.Fprintf(&b, "/-- maven.MaxImports (util/maven/dependency.go) -/\ndef maxImports : Nat := %d\n", maxImports)
	fmt.Fprintf(&b, "/-- resolve.MaxMavenParent (util/resolve/maven.go) -/\ndef maxMavenParent : Nat := %d\n", maxParent)
	fmt.Fprintf(&b, "/-- maven.JDKProfileActivation = %s as its dot separated numbers -/\ndef jdkProfileActivation : List Nat := %s\n", fw.LeanStr(jdk), leanNums(jdkNums))
	b.WriteString("/-- maven.OSProfileActivation fields (bytes) -/\n")
	for _, f := range []string{"Name", "Family", "Arch", "Version"} {
		fmt.Fprintf(&b, "def os%s : List UInt8 := %s\n", f, fw.LeanBytes(osv[f]))
	}
	b.WriteString("/-- Project.propertyMap: the addProjectProperty calls in order, as (key bytes, field), field: 0 = GroupID, 1 = ArtifactID, 2 = Version, 3 = Parent.GroupID, 4 = Parent.ArtifactID, 5 = Parent.Version -/\n")
	b.WriteString("def builtins : List (List UInt8 × Nat) := [\n")
	for i, x := range builtins {
		sep := ","
		if i == len(builtins)-1 {
			sep = "]"
		}
		fmt.Fprintf(&b, "  (%s, %d)%s\n", fw.LeanBytes(x.key), x.field, sep)
	}
	b.WriteString("/-- the prefixes under which addProjectProperty always (over)writes, in assignment order -/\n")
	b.WriteString("def builtinPrefixes : List (List UInt8) := [\n")
	for i, x := range prefixes {
		sep := ","
		if i == len(prefixes)-1 {
			sep = "]"
		}
		fmt.Fprintf(&b, "  %s%s\n", fw.LeanBytes(x), sep)
	}
	if len(prefixes) == 0 {
		b.WriteString("  ]\n")
	}
	b.WriteString("\nend DepsDev.Gen.C15Consts\n")
	return b.String(), nil
}
