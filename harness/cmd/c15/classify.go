package main

// The hypothesis clauses of the partial equality theorem as decidable predicates
// on the lineage AST (mirror of lean/DepsDev/Model/Maven/Clauses.lean; the two
// are compared by the `classify` op). They are phrased with the library's own
// merge order and interpolation table, re-implemented here on the AST (this
// file never calls the library).

import (
	"strings"
)

// library constants as the generated Lean file has them (checked against the
// real constants at start-up, see main.go)
var goEnvJDK = []int{11, 0, 8}
var goEnvOS = OS{Name: "linux", Family: "unix", Arch: "amd64", Version: "5.10.0-26-cloud-amd64"}

var goMaxParent = 100

// ---- the library's profile activation on the Jdk grammar

func goJdkCheck(j Jdk, jdk []int) (active, ok bool) {
	switch j.Kind {
	case 1:
		if j.Neg {
			return false, false
		}
		c := cmpNums(j.V, jdk)
		if c > 0 {
			return false, true
		}
		if c < 0 {
			return numAt(j.V, 0) == numAt(jdk, 0) && numAt(j.V, 1) == numAt(jdk, 1), true
		}
		return true, true
	case 2:
		okLo, okHi := true, true
		if j.Lo != nil {
			c := cmpNums(j.Lo, jdk)
			okLo = c < 0 || c == 0 && j.LoIncl
		}
		if j.Hi != nil {
			c := cmpNums(jdk, j.Hi)
			okHi = c < 0 || c == 0 && j.HiIncl
		}
		return okLo && okHi, true
	}
	return true, true
}

func goIsAllowed(value, expected string) bool {
	if value == "" {
		return true
	}
	if strings.HasPrefix(value, "!") {
		return lowerASCII(value[1:]) != expected
	}
	return lowerASCII(value) == expected
}

// Profile.activated: (active, no error)
func goActivated(f Profile) (bool, bool) {
	if f.Jdk.Kind != 0 {
		a, ok := goJdkCheck(f.Jdk, goEnvJDK)
		if !ok {
			return false, false
		}
		if !a {
			return false, true
		}
	}
	res := f.Jdk.Kind != 0
	if f.OS != (OS{}) {
		if !goIsAllowed(f.OS.Family, goEnvOS.Family) || !goIsAllowed(f.OS.Name, goEnvOS.Name) ||
			!goIsAllowed(f.OS.Version, goEnvOS.Version) || !goIsAllowed(f.OS.Arch, goEnvOS.Arch) {
			return false, true
		}
		res = true
	}
	return res, true
}

// the project as the library sees it during merging
type gproj struct {
	G, A, V string
	Parent  Key
	Props   []Prop
	Deps    []Dep
	Mgmt    []Dep
}

// Project.MergeProfiles
func goMergeProfiles(p *Pom) (gproj, bool) {
	g := gproj{p.G, p.A, p.V, p.Parent, append([]Prop(nil), p.Props...), append([]Dep(nil), p.Deps...), append([]Dep(nil), p.Mgmt...)}
	var active, byDefault []Profile
	for _, f := range p.Profiles {
		a, ok := goActivated(f)
		if !ok {
			return g, false
		}
		if a {
			active = append(active, f)
		}
		if f.Abd == "true" {
			byDefault = append(byDefault, f)
		}
	}
	if len(active) == 0 {
		active = byDefault
	}
	for _, f := range active {
		g.Props = append(g.Props, f.Props...)
		g.Mgmt = append(g.Mgmt, f.Mgmt...)
		g.Deps = append(g.Deps, f.Deps...)
	}
	return g, true
}

// Project.MergeParent
func (g *gproj) mergeParent(par gproj) {
	if g.G == "" {
		g.G = par.G
	}
	if g.V == "" {
		g.V = par.V
	}
	g.Props = append(append([]Prop(nil), par.Props...), g.Props...)
	g.Mgmt = append(g.Mgmt, par.Mgmt...)
	g.Deps = append(g.Deps, par.Deps...)
}

func fetchPom(l *Lineage, k Key) *Pom {
	for i := range l.Repo {
		if l.Repo[i].storeKey() == k {
			return &l.Repo[i]
		}
	}
	return nil
}

// the loop of mergeParents (without the final Interpolate)
func goMergeLoop(l *Lineage, cur Key, start int, result gproj) (gproj, bool) {
	var visited []Key
	for n := start; n < goMaxParent; n++ {
		if cur.G == "" || cur.A == "" || cur.V == "" {
			break
		}
		for _, v := range visited {
			if v == cur {
				return result, false
			}
		}
		visited = append(visited, cur)
		p := fetchPom(l, cur)
		if p == nil {
			return result, false
		}
		if n > 0 && p.Packaging != "pom" {
			return result, false
		}
		gp, ok := goMergeProfiles(p)
		if !ok {
			return result, false
		}
		result.mergeParent(gp)
		cur = gp.Parent
	}
	return result, true
}

// the merged, not yet interpolated projects of the lineage: the root's, and one per
// repository POM that an import-scoped entry may refer to, as the import callback would build it
func goUnits(l *Lineage) (root *gproj, boms []*gproj) {
	if g, ok := goMergeProfiles(&l.Root); ok {
		if u, ok := goMergeLoop(l, g.Parent, 1, g); ok {
			root = &u
		}
	}
	for i := range l.Repo {
		k := l.Repo[i].storeKey()
		if !importTarget(l, k) {
			boms = append(boms, nil)
			continue
		}
		if u, ok := goMergeLoop(l, k, 0, gproj{}); ok {
			boms = append(boms, &u)
		} else {
			boms = append(boms, nil)
		}
	}
	return
}

// Project.propertyMap
func (g *gproj) propertyMap() map[string]string {
	m := map[string]string{}
	for _, p := range g.Props {
		m[p.K] = p.V
	}
	add := func(k, v string) {
		if v == "" {
			return
		}
		if _, ok := m[k]; !ok {
			m[k] = v
		}
		m["pom."+k] = v
		m["project."+k] = v
	}
	add("groupId", g.G)
	add("version", g.V)
	add("parent.groupId", g.Parent.G)
	add("parent.version", g.Parent.V)
	return m
}

// interpolating
func goInterp(s string, dict map[string]string, resolving []string) (string, bool) {
	i := strings.Index(s, "${")
	if i < 0 {
		return s, true
	}
	j := strings.Index(s[i+2:], "}")
	if j < 0 {
		return s, true
	}
	key := s[i+2 : i+2+j]
	rest := s[i+2+j+1:]
	for _, r := range resolving {
		if r == key {
			return s, false
		}
	}
	if v, ok := dict[key]; ok {
		r1, ok1 := goInterp(v, dict, append(append([]string(nil), resolving...), key))
		r2, ok2 := goInterp(rest, dict, resolving)
		return s[:i] + r1 + r2, ok1 && ok2
	}
	r2, _ := goInterp(rest, dict, resolving)
	return s[:i] + "${" + key + "}" + r2, false
}

func goInterpDep(d Dep, dict map[string]string) (Dep, bool) {
	ok := true
	f := func(s string) string {
		r, k := goInterp(s, dict, nil)
		ok = ok && k
		return r
	}
	n := d
	n.G, n.A, n.V, n.Scope, n.Typ, n.Cls, n.Opt = f(d.G), f(d.A), f(d.V), f(d.Scope), f(d.Typ), f(d.Cls), f(d.Opt)
	return n, ok
}

// ---- the clauses (true = the hypothesis holds)

// (a) every placeholder of every dependency resolves in the library's table, and
// exclusions (which the library does not interpolate) contain no placeholder
func clauseResolvable(u *gproj) bool {
	dict := u.propertyMap()
	for _, ds := range [][]Dep{u.Deps, u.Mgmt} {
		for _, d := range ds {
			if d.G == "" || d.A == "" {
				continue
			}
			if _, ok := goInterpDep(d, dict); !ok {
				return false
			}
			for _, e := range d.Excl {
				if strings.Contains(e.G, "${") || strings.Contains(e.A, "${") {
					return false
				}
			}
		}
	}
	return true
}

func distinctKeys(ds []Dep) bool {
	for i := range ds {
		for j := i + 1; j < len(ds); j++ {
			if mkey(ds[i]) == mkey(ds[j]) {
				return false
			}
		}
	}
	return true
}

// (b) no duplicate key within one POM (its own lists plus its active profiles')
func clauseNoDup(p *Pom) bool {
	g, ok := goMergeProfiles(p)
	if !ok {
		return true
	}
	return distinctKeys(g.Deps) && distinctKeys(g.Mgmt)
}

// (c) two entries have the same key before interpolation iff they have the same key after
func clauseStable(u *gproj) bool {
	dict := u.propertyMap()
	for _, ds := range [][]Dep{u.Deps, u.Mgmt} {
		var raw, after []rkey
		for _, d := range ds {
			if d.G == "" || d.A == "" {
				continue
			}
			n, _ := goInterpDep(d, dict)
			raw = append(raw, mkey(d))
			after = append(after, mkey(n))
		}
		for i := range raw {
			for j := i + 1; j < len(raw); j++ {
				if (raw[i] == raw[j]) != (after[i] == after[j]) {
					return false
				}
			}
		}
	}
	return true
}

// (d) no negated JDK activation
func clauseNoBang(p *Pom) bool {
	for _, f := range p.Profiles {
		if f.Jdk.Kind == 1 && f.Jdk.Neg {
			return false
		}
	}
	return true
}

// (g) the library's activation rule and Maven's give the same answer
func clauseActAgree(p *Pom, env Env) bool {
	for _, f := range p.Profiles {
		a, ok := goActivated(f)
		if ok && a != refActivated(f, env) {
			return false
		}
	}
	return true
}

func hasPlaceholder(s string) bool { return strings.Contains(s, "${") }

// is X possibly the target of an import-scoped entry of the lineage?
func importTarget(l *Lineage, k Key) bool {
	hit := func(ds []Dep) bool {
		for _, d := range ds {
			if d.Scope != "import" && !hasPlaceholder(d.Scope) {
				continue
			}
			if (Key{d.G, d.A, d.V}) == k || hasPlaceholder(d.G) || hasPlaceholder(d.A) || hasPlaceholder(d.V) {
				return true
			}
		}
		return false
	}
	scan := func(p *Pom) bool {
		if hit(p.Mgmt) {
			return true
		}
		for _, f := range p.Profiles {
			if hit(f.Mgmt) {
				return true
			}
		}
		return false
	}
	if scan(&l.Root) {
		return true
	}
	for i := range l.Repo {
		if scan(&l.Repo[i]) {
			return true
		}
	}
	return false
}

// (f) no parent.* built-in inside an importable BOM that has a parent
func clauseNoParentRef(u *gproj) bool {
	has := func(s string) bool { return strings.Contains(s, "parent.") }
	for _, p := range u.Props {
		if has(p.V) {
			return false
		}
	}
	for _, ds := range [][]Dep{u.Deps, u.Mgmt} {
		for _, d := range ds {
			if has(d.G) || has(d.A) || has(d.V) || has(d.Typ) || has(d.Cls) || has(d.Scope) || has(d.Opt) {
				return false
			}
		}
	}
	return true
}

// Clauses evaluates the hypothesis clauses; a true entry means VIOLATED.
type Clauses struct{ A, B, C, D, F, G bool }

func classify(l *Lineage, env Env) Clauses {
	var c Clauses
	root, boms := goUnits(l)
	units := []*gproj{root}
	units = append(units, boms...)
	for _, u := range units {
		if u == nil {
			continue
		}
		if !clauseResolvable(u) {
			c.A = true
		}
		if !clauseStable(u) {
			c.C = true
		}
	}
	all := []*Pom{&l.Root}
	for i := range l.Repo {
		all = append(all, &l.Repo[i])
	}
	for _, p := range all {
		if !clauseNoDup(p) {
			c.B = true
		}
		if !clauseNoBang(p) {
			c.D = true
		}
		if !clauseActAgree(p, env) {
			c.G = true
		}
	}
	for i := range l.Repo {
		x := &l.Repo[i]
		if x.Parent != (Key{}) && boms[i] != nil && !clauseNoParentRef(boms[i]) {
			c.F = true
		}
	}
	return c
}

func b01(b bool) string {
	if b {
		return "1"
	}
	return "0"
}

func (c Clauses) String() string {
	return "a=" + b01(c.A) + " b=" + b01(c.B) + " c=" + b01(c.C) + " d=" + b01(c.D) + " f=" + b01(c.F) + " g=" + b01(c.G)
}

// finding id of the first violated clause ("" = inside the hypotheses)
func (c Clauses) finding() string {
	switch {
	case c.D:
		return "F-C15-d"
	case c.G:
		return "F-C15-g"
	case c.B:
		return "F-C15-b"
	case c.C:
		return "F-C15-c"
	case c.F:
		return "F-C15-f"
	case c.A:
		return "F-C15-a"
	}
	return ""
}
