package main

// The XML surface of the documented pipeline (Go side only: `C15 probe xmlpipe <style> <lineage>`).
//
// The `pom` op already starts from pom.xml TEXT (Render + encoding/xml + the custom decoders of
// util/maven), but in one canonical spelling. This op renders the same lineage in other
// spellings that Maven reads as the same model and runs the pipeline twice:
//
//	X  from the text, through xml.Decoder and Properties/String/TruthyBool/FalsyBool.UnmarshalXML
//	S  from maven.Project values built field by field from the AST (no XML at all), after the
//	   decoding conventions written down here independently: values are trimmed, an empty
//	   property is a definition, booleans are case-insensitive, blank = absent
//
// Result `X{…} S{…}`. Oracle xml-route: X = S, and, when the style does not change any value
// (all bits but the ampersand one), X = the `pom` result of the lineage (which is tied to the
// Lean model and, through pom-ref, to the reference semantics).
//
// Style bits:
//	1   an empty property is written <p/> (otherwise <p></p>)
//	2   an empty property is written with blanks inside (<p> </p>); an absent boolean as a blank element
//	4   every value is surrounded by blanks and newlines
//	8   every second value is a CDATA section
//	16  the first character of the other values is a numeric character reference
//	32  a comment in front of / in the middle of every value
//	64  unknown elements (project, dependency, exclusion, profile) and unknown attributes everywhere
//	128 booleans in other spellings (TRUE, True, FALSE)
//	256 every property is preceded by an earlier declaration of the same name with another value
//	512 (changes values) every property value gets the suffix &< (written &amp;&lt;): outside the
//	    alphabet of the lineage encoding, so only X = S is checked

import (
	"fmt"
	"strings"

	"deps.dev/util/maven"
)

const (
	stEmptySelf = 1 << iota
	stEmptyBlank
	stBlanks
	stCDATA
	stCharRef
	stComment
	stUnknown
	stBoolCase
	stDupProp
	stAmp
	stMax
)

type xr struct {
	b  strings.Builder
	st int
	n  int // running counter: which variant the next value gets
}

func xmlEscape(s string) string {
	s = strings.ReplaceAll(s, "&", "&amp;")
	s = strings.ReplaceAll(s, "<", "&lt;")
	return strings.ReplaceAll(s, ">", "&gt;")
}

// text is the character data of a non-empty value.
func (x *xr) text(v string) string {
	x.n++
	var out string
	switch {
	case x.st&stCDATA != 0 && x.n%2 == 0 && !strings.Contains(v, "]]>"):
		if x.st&stComment != 0 && len(v) > 1 {
			out = "<![CDATA[" + v[:1] + "]]><!-- c -->" + "<![CDATA[" + v[1:] + "]]>"
		} else {
			out = "<![CDATA[" + v + "]]>"
		}
	case x.st&stCharRef != 0:
		out = fmt.Sprintf("&#%d;", v[0])
		if x.n%4 == 1 {
			out = fmt.Sprintf("&#x%x;", v[0])
		}
		if x.st&stComment != 0 {
			out += "<!--c-->"
		}
		out += xmlEscape(v[1:])
	default:
		out = xmlEscape(v)
		if x.st&stComment != 0 {
			out = "<!-- " + "c" + " -->" + out
		}
	}
	if x.st&stBlanks != 0 {
		out = []string{"\n    ", " ", "\t", "\r\n  "}[x.n%4] + out + []string{"\n  ", "  ", "\n", " "}[x.n%4]
	}
	return out
}

func (x *xr) attrs() string {
	if x.st&stUnknown != 0 {
		x.n++
		if x.n%2 == 0 {
			return ` combine.self="override" xml:space="preserve"`
		}
	}
	return ""
}

func (x *xr) el(name, v string) {
	if v != "" {
		fmt.Fprintf(&x.b, "<%s%s>%s</%s>", name, x.attrs(), x.text(v), name)
	}
}

func (x *xr) boolEl(name, v string) {
	switch {
	case v == "" && x.st&stEmptyBlank != 0:
		fmt.Fprintf(&x.b, "<%s> </%s>", name, name)
	case v == "":
	case x.st&stBoolCase != 0 && (v == "true" || v == "false"):
		x.n++
		x.el(name, map[string][]string{"true": {"TRUE", "True", "tRuE"}, "false": {"FALSE", "False", "fALSE"}}[v][x.n%3])
	default:
		x.el(name, v)
	}
}

func (x *xr) junk(where string) {
	if x.st&stUnknown == 0 {
		return
	}
	switch where {
	case "project":
		x.b.WriteString(`<name>n ${undefined}</name><unknownThing a="b"><deep><version>9</version></deep></unknownThing><?pi x?>`)
	case "dependency":
		x.b.WriteString(`<bogus>1</bogus>`)
	case "exclusion":
		x.b.WriteString(`<version>1</version>`)
	case "profile":
		x.b.WriteString(`<build><plugins/></build>`)
	}
}

func (x *xr) props(ps []Prop) {
	if len(ps) == 0 {
		return
	}
	x.b.WriteString("<properties>")
	for _, p := range ps {
		if x.st&stDupProp != 0 {
			fmt.Fprintf(&x.b, "<%s>earlier-%s</%s>", p.K, xmlEscape(p.V), p.K)
		}
		switch {
		case p.V != "":
			fmt.Fprintf(&x.b, "<%s%s>%s</%s>", p.K, x.attrs(), x.text(p.V), p.K)
		case x.st&stEmptyBlank != 0:
			fmt.Fprintf(&x.b, "<%s> \n </%s>", p.K, p.K)
		case x.st&stEmptySelf != 0:
			fmt.Fprintf(&x.b, "<%s/>", p.K)
		default:
			fmt.Fprintf(&x.b, "<%s></%s>", p.K, p.K)
		}
	}
	if x.st&stUnknown != 0 {
		x.b.WriteString("<zz.never.referenced>1</zz.never.referenced>")
	}
	x.b.WriteString("</properties>")
}

func (x *xr) depList(ds []Dep) {
	if len(ds) == 0 {
		return
	}
	x.b.WriteString("<dependencies>")
	for _, d := range ds {
		x.b.WriteString("<dependency>")
		x.junk("dependency")
		x.el("groupId", d.G)
		x.el("artifactId", d.A)
		x.el("version", d.V)
		x.el("type", d.Typ)
		x.el("classifier", d.Cls)
		x.el("scope", d.Scope)
		x.boolEl("optional", d.Opt)
		if len(d.Excl) > 0 {
			x.b.WriteString("<exclusions>")
			for _, e := range d.Excl {
				x.b.WriteString("<exclusion>")
				x.el("groupId", e.G)
				x.junk("exclusion")
				x.el("artifactId", e.A)
				x.b.WriteString("</exclusion>")
			}
			x.b.WriteString("</exclusions>")
		}
		x.b.WriteString("</dependency>")
	}
	x.b.WriteString("</dependencies>")
}

func (x *xr) base(ps []Prop, deps, mgmt []Dep) {
	x.props(ps)
	if len(mgmt) > 0 {
		x.b.WriteString("<dependencyManagement>")
		x.depList(mgmt)
		x.b.WriteString("</dependencyManagement>")
	}
	x.depList(deps)
}

// RenderStyle is the pom.xml text of p in the spelling st (RenderStyle(0) = Render()).
func (p *Pom) RenderStyle(st int) string {
	x := &xr{st: st}
	if st&stUnknown != 0 {
		x.b.WriteString(`<?xml version="1.0" encoding="UTF-8"?><!-- header --><project xmlns="http://maven.apache.org/POM/4.0.0" child.project.url.inherit.append.path="false">`)
	} else {
		x.b.WriteString("<project>")
	}
	x.b.WriteString("<modelVersion>4.0.0</modelVersion>")
	x.junk("project")
	if p.Parent != (Key{}) {
		x.b.WriteString("<parent>")
		x.el("groupId", p.Parent.G)
		x.el("artifactId", p.Parent.A)
		x.el("version", p.Parent.V)
		x.b.WriteString("</parent>")
	}
	x.el("groupId", p.G)
	x.el("artifactId", p.A)
	x.el("version", p.V)
	x.el("packaging", p.Packaging)
	x.base(p.Props, p.Deps, p.Mgmt)
	if len(p.Profiles) > 0 {
		x.b.WriteString("<profiles>")
		for i, f := range p.Profiles {
			fmt.Fprintf(&x.b, "<profile><id>p%d</id>", i)
			x.junk("profile")
			x.b.WriteString("<activation>")
			x.boolEl("activeByDefault", f.Abd)
			x.el("jdk", f.Jdk.Text())
			if f.OS != (OS{}) {
				x.b.WriteString("<os>")
				x.el("name", f.OS.Name)
				x.el("family", f.OS.Family)
				x.el("arch", f.OS.Arch)
				x.el("version", f.OS.Version)
				x.b.WriteString("</os>")
			}
			x.b.WriteString("</activation>")
			x.base(f.Props, f.Deps, f.Mgmt)
			x.b.WriteString("</profile>")
		}
		x.b.WriteString("</profiles>")
	}
	x.b.WriteString("</project>")
	return x.b.String()
}

// ---- the value-changing part of a style, applied to the AST before both routes

func ampProps(ps []Prop) []Prop {
	out := make([]Prop, len(ps))
	for i, p := range ps {
		out[i] = Prop{p.K, p.V + "&<"}
	}
	return out
}

func (l *Lineage) styled(st int) *Lineage {
	if st&stAmp == 0 {
		return l
	}
	n := &Lineage{Root: l.Root, Repo: append([]Pom(nil), l.Repo...)}
	for _, p := range n.all() {
		p.Props = ampProps(p.Props)
		fs := append([]Profile(nil), p.Profiles...)
		for i := range fs {
			fs[i].Props = ampProps(fs[i].Props)
		}
		p.Profiles = fs
	}
	return n
}

// ---- the struct route: maven.Project from the AST, field by field

// the decoding conventions (documented behaviour of Maven's reader): text is trimmed
func convText(s string) maven.String { return maven.String(strings.TrimSpace(s)) }

// booleans: "", true, false in any case; anything else must be a placeholder
func convBool(s string) (maven.FalsyBool, bool) {
	s = strings.TrimSpace(s)
	if strings.Contains(s, "${") && strings.Contains(s, "}") {
		return maven.FalsyBool(s), true
	}
	switch l := strings.ToLower(s); l {
	case "", "true", "false":
		return maven.FalsyBool(l), true
	}
	return "", false
}

func structDeps(ds []Dep) ([]maven.Dependency, bool) {
	var out []maven.Dependency
	for _, d := range ds {
		o, ok := convBool(d.Opt)
		if !ok {
			return nil, false
		}
		m := maven.Dependency{GroupID: convText(d.G), ArtifactID: convText(d.A), Version: convText(d.V), Type: convText(d.Typ),
			Classifier: convText(d.Cls), Scope: convText(d.Scope), Optional: o}
		for _, e := range d.Excl {
			m.Exclusions = append(m.Exclusions, maven.Exclusion{GroupID: convText(e.G), ArtifactID: convText(e.A)})
		}
		out = append(out, m)
	}
	return out, true
}

// an empty property is a definition
func structProps(ps []Prop) maven.Properties {
	var out maven.Properties
	for _, p := range ps {
		out.Properties = append(out.Properties, maven.Property{Name: p.K, Value: strings.TrimSpace(p.V)})
	}
	return out
}

func structProject(p *Pom) (maven.Project, bool) {
	var ok1, ok2 bool
	m := maven.Project{
		ProjectKey: maven.ProjectKey{GroupID: convText(p.G), ArtifactID: convText(p.A), Version: convText(p.V)},
		Packaging:  convText(p.Packaging),
		Properties: structProps(p.Props),
	}
	m.Parent.ProjectKey = maven.ProjectKey{GroupID: convText(p.Parent.G), ArtifactID: convText(p.Parent.A), Version: convText(p.Parent.V)}
	if m.Dependencies, ok1 = structDeps(p.Deps); !ok1 {
		return m, false
	}
	if m.DependencyManagement.Dependencies, ok2 = structDeps(p.Mgmt); !ok2 {
		return m, false
	}
	for i, f := range p.Profiles {
		abd, ok := convBool(f.Abd)
		if !ok {
			return m, false
		}
		pr := maven.Profile{ID: maven.String(fmt.Sprintf("p%d", i)), Properties: structProps(f.Props)}
		pr.Activation.ActiveByDefault = abd
		pr.Activation.JDK = convText(f.Jdk.Text())
		pr.Activation.OS = maven.ActivationOS{Name: convText(f.OS.Name), Family: convText(f.OS.Family), Arch: convText(f.OS.Arch), Version: convText(f.OS.Version)}
		var oka, okb bool
		if pr.Dependencies, oka = structDeps(f.Deps); !oka {
			return m, false
		}
		if pr.DependencyManagement.Dependencies, okb = structDeps(f.Mgmt); !okb {
			return m, false
		}
		m.Profiles = append(m.Profiles, pr)
	}
	return m, true
}

// ---- the op

type pomSource func(p *Pom) (maven.Project, error)

func pipelineFrom(l *Lineage, src pomSource) string {
	byKey := map[maven.ProjectKey]*Pom{}
	for i := range l.Repo {
		k := l.Repo[i].storeKey()
		pk := maven.ProjectKey{GroupID: maven.String(k.G), ArtifactID: maven.String(k.A), Version: maven.String(k.V)}
		if _, dup := byKey[pk]; !dup {
			byKey[pk] = &l.Repo[i]
		}
	}
	fetch := func(pk maven.ProjectKey) (maven.Project, error) {
		p, ok := byKey[pk]
		if !ok {
			return maven.Project{}, fmt.Errorf("404")
		}
		return src(p)
	}
	root, err := src(&l.Root)
	if err != nil {
		return "err"
	}
	project, ok := pipelineOn(root, fetch, libActivation(), 1)
	if !ok {
		return "err"
	}
	return "ok deps=" + fmtDeps(project.Dependencies) + " mgmt=" + fmtDeps(project.DependencyManagement.Dependencies)
}

func runXMLPipe(st int, l0 *Lineage) string {
	l := l0.styled(st)
	x := pipelineFrom(l, func(p *Pom) (maven.Project, error) {
		return fetchProject(repoFiles{maven.ProjectKey{}: p.RenderStyle(st)}, maven.ProjectKey{})
	})
	s := pipelineFrom(l, func(p *Pom) (maven.Project, error) {
		m, ok := structProject(p)
		if !ok {
			return m, fmt.Errorf("unrecognized boolean")
		}
		return m, nil
	})
	return "X{" + x + "} S{" + s + "}"
}

func execXMLPipe(tok []string) string {
	if len(tok) < 3 {
		return "bad-op"
	}
	st, ok := parseNat(tok[0])
	if !ok || st >= stMax {
		return "bad-op"
	}
	l, ok := decodeLineage(tok[1:])
	if !ok || !l.wf() {
		return "bad-op"
	}
	return runXMLPipe(st, l)
}

// xmlRouteVerdict: ops[0] = probe xmlpipe <style> <lineage>, ops[1] (optional) = pom <lineage>.
func xmlRouteVerdict(ops, res []string) (bool, string) {
	f := strings.Fields(ops[0])
	if len(f) < 5 || f[1] != "probe" || f[2] != "xmlpipe" {
		return false, ""
	}
	st, _ := parseNat(f[3])
	r := res[0]
	if r == "panic" || r == "timeout" {
		return true, "the pipeline did not return normally (" + r + ")"
	}
	i := strings.Index(r, "} S{")
	if !strings.HasPrefix(r, "X{") || i < 0 || !strings.HasSuffix(r, "}") {
		return true, "unreadable result " + trunc(r, 200)
	}
	x, s := r[2:i], r[i+4:len(r)-1]
	if x != s {
		return true, fmt.Sprintf("style %d: from the POM text the pipeline gives %s, from the same values without XML %s", st, trunc(x, 500), trunc(s, 500))
	}
	if len(ops) > 1 && st&stAmp == 0 {
		g := strings.Fields(ops[1])
		if len(g) > 2 && g[1] == "pom" && strings.Join(g[2:], " ") == strings.Join(f[4:], " ") && res[1] != x {
			return true, fmt.Sprintf("style %d changes the result: %s, canonical spelling %s", st, trunc(x, 500), trunc(res[1], 500))
		}
	}
	return false, ""
}
