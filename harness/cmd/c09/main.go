// C09: set union and intersection mean union and intersection of the versions matched.
package main

import (
	"fmt"
	"math"
	"regexp"
	"sort"
	"strings"

	"deps.dev/util/semver"

	"verifharness/fw"
	"verifharness/semvergen"
	"verifharness/semverops"
)

var systems = []semver.System{semver.DefaultSystem, semver.NPM, semver.Cargo, semver.Go}

func exec(f []string) string {
	if r, ok := semverops.Exec(f); ok {
		return r
	}
	return "bad-op"
}

var boundRE = regexp.MustCompile(`[\[\(,{]([^:,\[\]\(\){}]+)`)
var bound2RE = regexp.MustCompile(`:([^:,\[\]\(\){}]+)[\]\)]`)

// bounds extracts the version texts appearing in a Set.String().
func bounds(set string) []string {
	var out []string
	for _, m := range boundRE.FindAllStringSubmatch(set, -1) {
		out = append(out, m[1])
	}
	for _, m := range bound2RE.FindAllStringSubmatch(set, -1) {
		out = append(out, m[1])
	}
	return out
}

func probesFor(c *fw.Ctx, sys semver.System, a, b *semver.Constraint, pool []string) []string {
	seen := map[string]bool{}
	var out []string
	add := func(s string) {
		if s == "" || seen[s] || strings.Contains(s, "∞") || strings.Contains(s, "<empty>") {
			return
		}
		if _, err := sys.Parse(s); err != nil {
			return
		}
		seen[s] = true
		out = append(out, s)
	}
	for _, set := range []string{a.Set().String(), b.Set().String()} {
		for _, x := range bounds(set) {
			add(x)
			if !strings.Contains(x, "-") {
				add(x + "-a")
				add(x + "-0")
			} else {
				add(x[:strings.Index(x, "-")])
				add(x + ".1")
				add(x + "a")
			}
			// neighbours: bump / lower the last number
			if v, err := sys.Parse(x); err == nil && !v.IsPrerelease() {
				parts := strings.Split(strings.TrimPrefix(v.Canon(false), "v"), ".")
				if len(parts) == 3 {
					head := ""
					if sys == semver.Go {
						head = "v"
					}
					var n int
					fmt.Sscan(parts[2], &n)
					add(fmt.Sprintf("%s%s.%s.%d", head, parts[0], parts[1], n+1))
					add(fmt.Sprintf("%s%s.%s.%d-a", head, parts[0], parts[1], n+1))
					if n > 0 {
						add(fmt.Sprintf("%s%s.%s.%d", head, parts[0], parts[1], n-1))
					}
				}
			}
		}
	}
	for i := 0; i < 16; i++ {
		add(pool[c.Rng.Intn(len(pool))])
	}
	if len(out) > 48 {
		out = out[:48]
	}
	return out
}

func opLine(op string, sys semver.System, a, b string, probes []string) string {
	var sb strings.Builder
	fmt.Fprintf(&sb, "C09 setop %s %s %s %s", op, sys, fw.Hx(a), fw.Hx(b))
	for _, p := range probes {
		sb.WriteString(" " + fw.Hx(p))
	}
	return sb.String()
}

type cells struct {
	r      string
	empty  bool
	vers   []string
	cell   []string
	sys    semver.System
	op     string
	a, b   string
	ok     bool
	bafter string
}

func parseOp(line, res string) cells {
	f := strings.Fields(line)
	c := cells{op: f[2], sys: semverops.SysNames[f[3]], a: fw.Unhx(f[4]), b: fw.Unhx(f[5])}
	for _, h := range f[6:] {
		c.vers = append(c.vers, fw.Unhx(h))
	}
	rf := strings.Fields(res)
	if len(rf) < 4 || rf[0] != "ok" {
		return c
	}
	c.ok = true
	c.r = fw.Unhx(strings.TrimPrefix(rf[1], "r="))
	c.empty = rf[2] == "e=1"
	c.bafter = fw.Unhx(strings.TrimPrefix(rf[3], "bafter="))
	rest := rf[4:]
	if len(rest) > 0 && strings.HasPrefix(rest[0], "reparse=") {
		rest = rest[1:]
	}
	c.cell = rest
	return c
}

func recheck(oracle string, ops, res []string) (bool, string) {
	switch oracle {
	case "law":
		c := parseOp(ops[0], res[0])
		if res[0] == "err" {
			return false, "" // an operand does not parse: not in the quantifier
		}
		if !c.ok {
			return true, "operation failed: " + res[0]
		}
		if strings.Contains(res[0], "reparse=err") {
			return true, "result set does not parse back: " + c.r
		}
		if len(c.cell) != len(c.vers) {
			return true, "malformed result"
		}
		for i, v := range c.vers {
			x := c.cell[i]
			if x == "x" {
				continue
			}
			a1, b1, r1, a2, b2, r2 := x[0] == '1', x[1] == '1', x[2] == '1', x[3] == '1', x[4] == '1', x[5] == '1'
			pv, _ := c.sys.Parse(v)
			if c.empty && (r1 || r2) {
				return true, fmt.Sprintf("set reported empty matches %s", v)
			}
			if c.op == "union" {
				if r1 != (a1 || b1) {
					return true, fmt.Sprintf("union: v=%s in A=%v in B=%v in A∪B=%v (result %s)", v, a1, b1, r1, c.r)
				}
				if r2 != (a2 || b2) {
					return true, fmt.Sprintf("union (prerelease-inclusive): v=%s in A=%v in B=%v in A∪B=%v (result %s)", v, a2, b2, r2, c.r)
				}
			} else {
				if !pv.IsPrerelease() && r1 != (a1 && b1) {
					return true, fmt.Sprintf("intersection: release v=%s in A=%v in B=%v in A∩B=%v (result %s)", v, a1, b1, r1, c.r)
				}
				if r2 != (a2 && b2) {
					return true, fmt.Sprintf("intersection (prerelease-inclusive): v=%s in A=%v in B=%v in A∩B=%v (result %s)", v, a2, b2, r2, c.r)
				}
			}
		}
	case "comm", "perm": // two op lines whose result sets must match the same versions and print alike
		c1, c2 := parseOp(ops[0], res[0]), parseOp(ops[1], res[1])
		if c1.ok != c2.ok {
			return true, fmt.Sprintf("one ordering fails: %q vs %q", res[0], res[1])
		}
		if c1.ok && c1.r != c2.r {
			return true, fmt.Sprintf("result depends on operand/span order: %s vs %s", c1.r, c2.r)
		}
	case "bafter": // the argument set must not be changed by the operation
		c := parseOp(ops[0], res[0])
		_, r := ops[1], res[1] // cparse of B
		if c.ok && strings.HasPrefix(r, "ok set=") {
			want := fw.Unhx(strings.TrimPrefix(strings.Fields(r)[1], "set="))
			if want != c.bafter {
				return true, fmt.Sprintf("argument set changed from %s to %s", want, c.bafter)
			}
		}
	default:
		return true, "unknown oracle"
	}
	return false, ""
}

func hasPreBoundUnused(set string) bool {
	for _, x := range bounds(set) {
		if strings.Contains(strings.TrimPrefix(x, "v"), "-") {
			return true
		}
	}
	return false
}

func nspans(set string) int { return strings.Count(set, ",") + 1 }

// succOf is inc(fill(a,0)) of interval.go for a release bound a (up to three numbers, "∞"
// allowed): the first ∞ component carries into the one before it; "" if a has a prerelease.
func succOf(v string) string {
	head := ""
	if strings.HasPrefix(v, "v") {
		head, v = "v", v[1:]
	}
	if strings.ContainsAny(v, "-+") {
		return ""
	}
	p := strings.Split(v, ".")
	if len(p) > 3 {
		return ""
	}
	for len(p) < 3 {
		p = append(p, "0")
	}
	w := -1
	for i, x := range p {
		if x == "∞" {
			w = i
			break
		}
	}
	bump := func(x string) (string, bool) {
		var n int
		if _, err := fmt.Sscan(x, &n); err != nil {
			return "", false
		}
		return fmt.Sprint(n + 1), true
	}
	switch w {
	case -1:
		x, ok := bump(p[2])
		if !ok {
			return ""
		}
		p[2] = x
	case 0:
		return ""
	default:
		x, ok := bump(p[w-1])
		if !ok {
			return ""
		}
		p[w-1] = x
		for i := w; i < 3; i++ {
			p[i] = "0"
		}
	}
	return head + strings.Join(p, ".")
}

// inSeam is the negation of the hypothesis NoSeam of the partial theorems
// (Props.C09.union_law_partial / intersect_law_partial): v lies strictly between two release
// bounds a < b of the operands with b <= succ(a).
func inSeam(sys semver.System, v string, sets ...string) bool {
	var bs []string
	for _, s := range sets {
		bs = append(bs, bounds(s)...)
	}
	for _, a := range bs {
		sa := succOf(a)
		if sa == "" {
			continue
		}
		for _, b := range bs {
			if strings.ContainsAny(strings.TrimPrefix(b, "v"), "-∞") {
				continue
			}
			// a < b <= succ(a) and a < v < b; a may contain ∞ components, so compare b and v with succ(a):
			// a < x holds for every x >= succ(a) and for prereleases of succ(a) when a's ∞ tail is below them.
			if sys.Compare(b, sa) == 0 && sys.Compare(v, b) < 0 && strings.HasPrefix(strings.TrimPrefix(v, "v"), strings.TrimPrefix(b, "v")+"-") {
				return true
			}
		}
	}
	return false
}

var lawV = regexp.MustCompile(`v=(\S+) in A=`)

// classify mirrors the hypotheses of the partial theorems (Props/C09.lean):
//   F-C09-succ:      prerelease-inclusive mode, the candidate lies in a successor seam (¬NoSeam);
//   F-C09-pre-merge: release mode, union, the candidate is a prerelease and the hypotheses NoPreMerge /
//                    FlagsOK of Props.C09b.union_law_pre_partial fail (preMergeClass): merging two
//                    tagged spans forgets the inner prerelease bound that admits the candidate, or
//                    keeps an outer one that admits candidates neither operand admits.
func classify(oracle string, ops, res []string) string {
	if oracle != "law" {
		return ""
	}
	c := parseOp(ops[0], res[0])
	pc := func(t string) (*semver.Constraint, error) {
		if strings.HasPrefix(t, "{") {
			return c.sys.ParseSetConstraint(t)
		}
		return c.sys.ParseConstraint(t)
	}
	ca, e1 := pc(c.a)
	cb, e2 := pc(c.b)
	if e1 != nil || e2 != nil {
		return ""
	}
	_, detail := recheck(oracle, ops, res)
	m := lawV.FindStringSubmatch(detail)
	if m == nil {
		return ""
	}
	v := m[1]
	pv, err := c.sys.Parse(v)
	if err != nil {
		return ""
	}
	if strings.HasPrefix(detail, "intersection (prerelease-inclusive)") || strings.HasPrefix(detail, "union (prerelease-inclusive)") {
		if inSeam(c.sys, v, ca.Set().String(), cb.Set().String()) {
			return "F-C09-succ"
		}
		return ""
	}
	if pv.IsPrerelease() && strings.HasPrefix(detail, "union:") {
		if preMergeClass(c.sys, v, ca.Set().String(), cb.Set().String()) {
			return "F-C09-pre-merge"
		}
	}
	return ""
}

// --- the hypotheses of Props.C09b.union_law_pre_partial, on the printed sets ---

type pbound struct {
	nums [3]int64
	tag  string
}

type pspan struct{ lo, hi pbound }

func parseBound(s string) pbound {
	s = strings.TrimPrefix(s, "v")
	var b pbound
	if i := strings.Index(s, "-"); i >= 0 {
		b.tag = s[i+1:]
		s = s[:i]
	}
	for i, p := range strings.Split(s, ".") {
		if i > 2 {
			break
		}
		if p == "∞" {
			b.nums[i] = math.MaxInt64
		} else {
			fmt.Sscan(p, &b.nums[i])
		}
	}
	return b
}

func spansOf(set string) []pspan {
	set = strings.TrimSuffix(strings.TrimPrefix(set, "{"), "}")
	var out []pspan
	for _, t := range strings.Split(set, ",") {
		if t == "" || t == "<empty>" {
			continue
		}
		if t[0] == '[' || t[0] == '(' {
			ps := strings.SplitN(t[1:len(t)-1], ":", 2)
			if len(ps) == 2 {
				out = append(out, pspan{parseBound(ps[0]), parseBound(ps[1])})
			}
		} else {
			b := parseBound(t)
			out = append(out, pspan{b, b})
		}
	}
	return out
}

func cmpBound(sys semver.System, a, b pbound) int {
	for i := 0; i < 3; i++ {
		if a.nums[i] != b.nums[i] {
			if a.nums[i] < b.nums[i] {
				return -1
			}
			return 1
		}
	}
	switch {
	case a.tag == "" && b.tag == "":
		return 0
	case a.tag == "":
		return 1
	case b.tag == "":
		return -1
	}
	h := ""
	if sys == semver.Go {
		h = "v"
	}
	return sys.Compare(h+"0.0.0-"+a.tag, h+"0.0.0-"+b.tag)
}

// preMergeClass is the negation of the hypotheses of Props.C09b.union_law_pre_partial as far as
// the printed sets show them:
//   ¬NoPreMerge: two spans of A.span++B.span (different positions) carry a prerelease tag on all
//     four bounds, overlap or touch, and one of their bounds touches v (tagged with v's numbers, or
//     equal to v in the order);
//   ¬FlagsOK: an untagged bound has v's numbers (clearPre drops the tag of a wildcard-with-prerelease
//     operand such as `<1.*.2-a` and keeps its prerelease flag, which the printed set does not show).
func preMergeClass(sys semver.System, v string, setA, setB string) bool {
	pv := parseBound(v)
	all := append(spansOf(setA), spansOf(setB)...)
	for _, s := range all {
		for _, b := range []pbound{s.lo, s.hi} {
			if b.tag == "" && b.nums == pv.nums {
				return true
			}
		}
	}
	touches := func(x pbound) bool { return (x.tag != "" && x.nums == pv.nums) || cmpBound(sys, pv, x) == 0 }
	for i := range all {
		for j := i + 1; j < len(all); j++ {
			x, y := all[i], all[j]
			if x.lo.tag == "" || x.hi.tag == "" || y.lo.tag == "" || y.hi.tag == "" {
				continue
			}
			if cmpBound(sys, x.hi, y.lo) < 0 || cmpBound(sys, y.hi, x.lo) < 0 {
				continue
			}
			if touches(x.lo) || touches(x.hi) || touches(y.lo) || touches(y.hi) {
				return true
			}
		}
	}
	return false
}

func permuteAlternatives(c *fw.Ctx, s string) string {
	parts := strings.Split(s, "||")
	if len(parts) < 2 {
		return s
	}
	c.Rng.Shuffle(len(parts), func(i, j int) { parts[i], parts[j] = parts[j], parts[i] })
	return strings.Join(parts, "||")
}

// intervalFamily: small-scope exhaustive stream. For a triple x < y < z every interval with
// end points among them and every open/closed flag combination (written with the operators
// the grammar has), all ordered pairs, both operations: nested, abutting, overlapping and
// shared-end-point spans with every flag combination.
func intervalFamily(c *fw.Ctx, sys semver.System, xs []string) {
	if sys == semver.Go {
		return // Go constraints are single versions
	}
	var ivs []string
	sep := " "
	if sys == semver.Cargo {
		sep = ","
	}
	for i := 0; i < len(xs); i++ {
		ivs = append(ivs, "="+xs[i])
		for j := i + 1; j < len(xs); j++ {
			for _, lo := range []string{">=", ">"} {
				for _, hi := range []string{"<=", "<"} {
					ivs = append(ivs, lo+xs[i]+sep+hi+xs[j])
				}
			}
		}
	}
	// the same intervals in set notation (open lower bounds on release versions are only
	// expressible this way in the SemVer systems)
	for i := 0; i < len(xs); i++ {
		for j := i + 1; j < len(xs); j++ {
			for _, lo := range []string{"[", "("} {
				for _, hi := range []string{"]", ")"} {
					ivs = append(ivs, "{"+lo+xs[i]+":"+xs[j]+hi+"}")
				}
			}
		}
	}
	probes := append([]string(nil), xs...)
	for _, x := range xs {
		if !strings.Contains(x, "-") {
			probes = append(probes, x+"-a")
		} else {
			probes = append(probes, x[:strings.Index(x, "-")], x+".1")
		}
	}
	for _, a := range ivs {
		for _, b := range ivs {
			for _, op := range []string{"union", "inter"} {
				i1, _ := c.Op(opLine(op, sys, a, b, probes))
				c.Check("law", i1)
				c.Count(sys.String() + ":family:" + op)
			}
		}
	}
}

func run(c *fw.Ctx) {
	n := c.N(1200, 40000)
	for _, sys := range systems {
		pool := semverops.ProbeVersions(sys)
		triples := [][]string{{"1.0.0", "1.5.0", "2.0.0"}, {"1.0.0-a", "1.5.0-a", "2.0.0-a"}, {"1.0.0", "1.0.1", "1.0.2"}, {"0.0.0", "0.0.1", "0.1.0"}}
		if c.Thor {
			triples = append(triples, []string{"1.0.0-a", "1.0.0", "1.0.1-a"}, []string{"1.2.3-a", "1.2.3-b", "1.2.3"}, []string{"0.9.9", "1.0.0-0", "1.0.0"}, []string{"1.0.0", "2.0.0", "3.0.0"})
		}
		for _, t := range triples {
			intervalFamily(c, sys, t)
		}
		for it := 0; it < n; it++ {
			A := semverops.GenConstraint(c.Rng, sys)
			if it%2 == 1 {
				// related pair: B reuses A's operand versions (shared end points, nesting, abutment)
				semverops.OperandPool = semverops.Operands(A)
			}
			B := semverops.GenConstraint(c.Rng, sys)
			semverops.OperandPool = nil
			ca, e1 := sys.ParseConstraint(A)
			cb, e2 := sys.ParseConstraint(B)
			ia, ra := c.Opf("C09 cparse %s %s", sys, fw.Hx(A))
			ib, rb := c.Opf("C09 cparse %s %s", sys, fw.Hx(B))
			_ = ia
			c.Count(sys.String() + ":cparse:" + strings.Fields(ra)[0])
			c.Count(sys.String() + ":cparse:" + strings.Fields(rb)[0])
			if e1 != nil || e2 != nil {
				continue
			}
			if nspans(ca.Set().String())+nspans(cb.Set().String()) > 12 {
				continue // sort.Slice is only known to be stable up to 12 elements (model domain)
			}
			probes := probesFor(c, sys, ca, cb, pool)
			for _, op := range []string{"union", "inter"} {
				i1, r1 := c.Op(opLine(op, sys, A, B, probes))
				c.Check("law", i1)
				c.Check("bafter", i1, ib)
				c.Count(sys.String() + ":" + op + ":" + strings.Fields(r1)[0])
				c.Nontrivial(sys.String() + op + ca.Set().String() + "|" + cb.Set().String())
				i2, _ := c.Op(opLine(op, sys, B, A, probes))
				c.Check("law", i2)
				c.Check("comm", i1, i2)
				if strings.Contains(A, "||") {
					i3, _ := c.Op(opLine(op, sys, permuteAlternatives(c, A), B, probes))
					c.Check("perm", i1, i3)
				}
			}
			if it < 3 {
				c.Sample(fmt.Sprintf("%s: A=%q %s  B=%q %s probes=%d", sys, A, ca.Set(), B, cb.Set(), len(probes)))
			}
		}
	}
	_ = sort.Strings
}

func main() {
	fw.Main(&fw.Prop{
		ID:   "C09",
		Rule: "per system (Default, NPM, Cargo, Go): random pairs of constraints from the grammar (all operators, partial versions, wildcards, prerelease bounds, hyphen ranges, ||), union and intersection in both operand orders and with || alternatives permuted; probes = every span bound, its prerelease/successor neighbours and random pool versions; oracles: membership laws per probe in both matching modes, Empty, commutativity, permutation invariance, argument unchanged. Distinct non-trivial = distinct (system, op, set A, set B).",
		Exec: exec, Run: run, Recheck: recheck, Classify: classify,
		Gens: semvergen.Generators(),
	})
}
