// C09: set union and intersection mean union and intersection of the versions matched.
package main

import (
	"fmt"
	"regexp"
	"sort"
	"strings"

	"deps.dev/util/semver"

	"verifharness/fw"
	"verifharness/semvergen"
	"verifharness/semverops"
)

var systems = []semver.System{semver.DefaultSystem, semver.NPM, semver.Cargo, semver.Go}

func exec(f []string) string {
	if r, ok := semverops.Exec(f); ok {
		return r
	}
	return "bad-op"
}

var boundRE = regexp.MustCompile(`[\[\(,{]([^:,\[\]\(\){}]+)`)
var bound2RE = regexp.MustCompile(`:([^:,\[\]\(\){}]+)[\]\)]`)

// bounds extracts the version texts appearing in a Set.String().
func bounds(set string) []string {
	var out []string
	for _, m := range boundRE.FindAllStringSubmatch(set, -1) {
		out = append(out, m[1])
	}
	for _, m := range bound2RE.FindAllStringSubmatch(set, -1) {
		out = append(out, m[1])
	}
	return out
}

func probesFor(c *fw.Ctx, sys semver.System, a, b *semver.Constraint, pool []string) []string {
	seen := map[string]bool{}
	var out []string
	add := func(s string) {
		if s == "" || seen[s] || strings.Contains(s, "∞") || strings.Contains(s, "<empty>") {
			return
		}
		if _, err := sys.Parse(s); err != nil {
			return
		}
		seen[s] = true
		out = append(out, s)
	}
	for _, set := range []string{a.Set().String(), b.Set().String()} {
		for _, x := range bounds(set) {
			add(x)
			if !strings.Contains(x, "-") {
				add(x + "-a")
				add(x + "-0")
			} else {
				add(x[:strings.Index(x, "-")])
				add(x + ".1")
				add(x + "a")
			}
			// neighbours: bump / lower the last number
			if v, err := sys.Parse(x); err == nil && !v.IsPrerelease() {
				parts := strings.Split(strings.TrimPrefix(v.Canon(false), "v"), ".")
				if len(parts) == 3 {
					head := ""
					if sys == semver.Go {
						head = "v"
					}
					var n int
					fmt.Sscan(parts[2], &n)
					add(fmt.Sprintf("%s%s.%s.%d", head, parts[0], parts[1], n+1))
					add(fmt.Sprintf("%s%s.%s.%d-a", head, parts[0], parts[1], n+1))
					if n > 0 {
						add(fmt.Sprintf("%s%s.%s.%d", head, parts[0], parts[1], n-1))
					}
				}
			}
		}
	}
	for i := 0; i < 16; i++ {
		add(pool[c.Rng.Intn(len(pool))])
	}
	if len(out) > 48 {
		out = out[:48]
	}
	return out
}

func opLine(op string, sys semver.System, a, b string, probes []string) string {
	var sb strings.Builder
	fmt.Fprintf(&sb, "C09 setop %s %s %s %s", op, sys, fw.Hx(a), fw.Hx(b))
	for _, p := range probes {
		sb.WriteString(" " + fw.Hx(p))
	}
	return sb.String()
}

type cells struct {
	r      string
	empty  bool
	vers   []string
	cell   []string
	sys    semver.System
	op     string
	a, b   string
	ok     bool
	bafter string
}

func parseOp(line, res string) cells {
	f := strings.Fields(line)
	c := cells{op: f[2], sys: semverops.SysNames[f[3]], a: fw.Unhx(f[4]), b: fw.Unhx(f[5])}
	for _, h := range f[6:] {
		c.vers = append(c.vers, fw.Unhx(h))
	}
	rf := strings.Fields(res)
	if len(rf) < 4 || rf[0] != "ok" {
		return c
	}
	c.ok = true
	c.r = fw.Unhx(strings.TrimPrefix(rf[1], "r="))
	c.empty = rf[2] == "e=1"
	c.bafter = fw.Unhx(strings.TrimPrefix(rf[3], "bafter="))
	rest := rf[4:]
	if len(rest) > 0 && strings.HasPrefix(rest[0], "reparse=") {
		rest = rest[1:]
	}
	c.cell = rest
	return c
}

func recheck(oracle string, ops, res []string) (bool, string) {
	switch oracle {
	case "law":
		c := parseOp(ops[0], res[0])
		if res[0] == "err" {
			return false, "" // an operand does not parse: not in the quantifier
		}
		if !c.ok {
			return true, "operation failed: " + res[0]
		}
		if strings.Contains(res[0], "reparse=err") {
			return true, "result set does not parse back: " + c.r
		}
		if len(c.cell) != len(c.vers) {
			return true, "malformed result"
		}
		for i, v := range c.vers {
			x := c.cell[i]
			if x == "x" {
				continue
			}
			a1, b1, r1, a2, b2, r2 := x[0] == '1', x[1] == '1', x[2] == '1', x[3] == '1', x[4] == '1', x[5] == '1'
			pv, _ := c.sys.Parse(v)
			if c.empty && (r1 || r2) {
				return true, fmt.Sprintf("set reported empty matches %s", v)
			}
			if c.op == "union" {
				if r1 != (a1 || b1) {
					return true, fmt.Sprintf("union: v=%s in A=%v in B=%v in A∪B=%v (result %s)", v, a1, b1, r1, c.r)
				}
			} else {
				if !pv.IsPrerelease() && r1 != (a1 && b1) {
					return true, fmt.Sprintf("intersection: release v=%s in A=%v in B=%v in A∩B=%v (result %s)", v, a1, b1, r1, c.r)
				}
				if r2 != (a2 && b2) {
					return true, fmt.Sprintf("intersection (prerelease-inclusive): v=%s in A=%v in B=%v in A∩B=%v (result %s)", v, a2, b2, r2, c.r)
				}
			}
		}
	case "comm", "perm": // two op lines whose result sets must match the same versions and print alike
		c1, c2 := parseOp(ops[0], res[0]), parseOp(ops[1], res[1])
		if c1.ok != c2.ok {
			return true, fmt.Sprintf("one ordering fails: %q vs %q", res[0], res[1])
		}
		if c1.ok && c1.r != c2.r {
			return true, fmt.Sprintf("result depends on operand/span order: %s vs %s", c1.r, c2.r)
		}
	case "bafter": // the argument set must not be changed by the operation
		c := parseOp(ops[0], res[0])
		_, r := ops[1], res[1] // cparse of B
		if c.ok && strings.HasPrefix(r, "ok set=") {
			want := fw.Unhx(strings.TrimPrefix(strings.Fields(r)[1], "set="))
			if want != c.bafter {
				return true, fmt.Sprintf("argument set changed from %s to %s", want, c.bafter)
			}
		}
	default:
		return true, "unknown oracle"
	}
	return false, ""
}

func hasPreBound(set string) bool {
	for _, x := range bounds(set) {
		if strings.Contains(strings.TrimPrefix(x, "v"), "-") {
			return true
		}
	}
	return false
}

func nspans(set string) int { return strings.Count(set, ",") + 1 }

// classify mirrors the hypotheses of the partial theorems (DESIGN C09):
//   F-C09-skip: some operand has a span with a prerelease bound and more than one span is involved;
//   F-C09-succ: prerelease-inclusive intersection, v is a prerelease at a successor-merge seam.
func classify(oracle string, ops, res []string) string {
	c := parseOp(ops[0], res[0])
	ca, e1 := c.sys.ParseConstraint(c.a)
	cb, e2 := c.sys.ParseConstraint(c.b)
	if e1 != nil || e2 != nil {
		return ""
	}
	sa, sb := ca.Set().String(), cb.Set().String()
	_, detail := recheck(oracle, ops, res)
	if oracle == "law" && strings.HasPrefix(detail, "intersection (prerelease-inclusive)") {
		return "F-C09-succ"
	}
	if (hasPreBound(sa) || hasPreBound(sb)) && (nspans(sa) > 1 || nspans(sb) > 1 || oracle != "law" || c.op == "union") {
		return "F-C09-skip"
	}
	return ""
}

func permuteAlternatives(c *fw.Ctx, s string) string {
	parts := strings.Split(s, "||")
	if len(parts) < 2 {
		return s
	}
	c.Rng.Shuffle(len(parts), func(i, j int) { parts[i], parts[j] = parts[j], parts[i] })
	return strings.Join(parts, "||")
}

func run(c *fw.Ctx) {
	n := c.N(1200, 40000)
	for _, sys := range systems {
		pool := semverops.ProbeVersions(sys)
		for it := 0; it < n; it++ {
			A, B := semverops.GenConstraint(c.Rng, sys), semverops.GenConstraint(c.Rng, sys)
			ca, e1 := sys.ParseConstraint(A)
			cb, e2 := sys.ParseConstraint(B)
			ia, ra := c.Opf("C09 cparse %s %s", sys, fw.Hx(A))
			ib, rb := c.Opf("C09 cparse %s %s", sys, fw.Hx(B))
			_ = ia
			c.Count(sys.String() + ":cparse:" + strings.Fields(ra)[0])
			c.Count(sys.String() + ":cparse:" + strings.Fields(rb)[0])
			if e1 != nil || e2 != nil {
				continue
			}
			if nspans(ca.Set().String())+nspans(cb.Set().String()) > 12 {
				continue // sort.Slice is only known to be stable up to 12 elements (model domain)
			}
			probes := probesFor(c, sys, ca, cb, pool)
			for _, op := range []string{"union", "inter"} {
				i1, r1 := c.Op(opLine(op, sys, A, B, probes))
				c.Check("law", i1)
				c.Check("bafter", i1, ib)
				c.Count(sys.String() + ":" + op + ":" + strings.Fields(r1)[0])
				c.Nontrivial(sys.String() + op + ca.Set().String() + "|" + cb.Set().String())
				i2, _ := c.Op(opLine(op, sys, B, A, probes))
				c.Check("law", i2)
				c.Check("comm", i1, i2)
				if strings.Contains(A, "||") {
					i3, _ := c.Op(opLine(op, sys, permuteAlternatives(c, A), B, probes))
					c.Check("perm", i1, i3)
				}
			}
			if it < 3 {
				c.Sample(fmt.Sprintf("%s: A=%q %s  B=%q %s probes=%d", sys, A, ca.Set(), B, cb.Set(), len(probes)))
			}
		}
	}
	_ = sort.Strings
}

func main() {
	fw.Main(&fw.Prop{
		ID:   "C09",
		Rule: "per system (Default, NPM, Cargo, Go): random pairs of constraints from the grammar (all operators, partial versions, wildcards, prerelease bounds, hyphen ranges, ||), union and intersection in both operand orders and with || alternatives permuted; probes = every span bound, its prerelease/successor neighbours and random pool versions; oracles: membership laws per probe in both matching modes, Empty, commutativity, permutation invariance, argument unchanged. Distinct non-trivial = distinct (system, op, set A, set B).",
		Exec: exec, Run: run, Recheck: recheck, Classify: classify,
		Gens: semvergen.Generators(),
	})
}
