package main

// B5 at the level of single calls: the call sequence of a `resolve` op
// (Requirements(bundler), then the four calls on every bundle it lists: a
// well-asked sequence in the sense of b5_partial) is run on a LocalClient
// loaded with the same data, and every answer is compared with the API
// client's recorded one:
//
//	Version            by key
//	Versions, Matching the dumps are identical
//	Requirements       the declared requirements are the same list IN THE SAME ORDER (the
//	                   resolver works through them in order); the requirements on bundled
//	                   packages (mangled names) are the same multiset (APIClient appends them,
//	                   AddVersion sorts them in: the resolver skips them); with more than 12
//	                   requirements in all, the declared ones are compared as a multiset too
//
// and the classifier of the finding class F-C18-bundle-version-range.

import (
	"fmt"
	"sort"
	"strings"
)

func isIn(xs []string, x string) bool {
	for _, y := range xs {
		if x == y {
			return true
		}
	}
	return false
}

// rangeSyntax: the string is empty or written with npm range syntax - a
// comparison operator, caret, tilde, a blank (leading, trailing or between
// comparators), "||", or a wildcard component. A decidable predicate on the
// served data only; mirrors DepsDev.Model.Resolve.ApiClient.rangeSyntax (op
// `classifyv`). Such a string parses as a range that does not contain itself,
// so MatchRequirement does not select a version spelled that way by a
// requirement spelled the same way, while APIClient compares the two strings.
func rangeSyntax(v string) bool {
	if v == "" || strings.ContainsAny(v, " \t=^~<>|*") {
		return true
	}
	for _, c := range strings.Split(v, ".") {
		if c == "x" || c == "X" {
			return true
		}
	}
	return false
}

// universeRangeVersion: some bundled package reports a version written with
// range syntax - the negation of the self-matching clause of AskedOK
// (.matching on a bundle) that b5_partial assumes.
func universeRangeVersion(u universe) bool {
	for _, p := range u {
		for _, v := range p.Vers {
			for _, b := range v.Bundled {
				if rangeSyntax(b.Version) {
					return true
				}
			}
		}
	}
	return false
}

func itemName(item string) string {
	n, _, _ := strings.Cut(item, "/")
	s, _ := unhx(n)
	return s
}

func splitReqs(r string) (declared, bundled []string, ok bool) {
	items, ok := listItems(r, "R")
	if !ok {
		return nil, nil, false
	}
	for _, it := range items {
		if strings.Contains(itemName(it), ">") {
			bundled = append(bundled, it)
		} else {
			declared = append(declared, it)
		}
	}
	sort.Strings(bundled)
	return declared, bundled, true
}

// compareCalls is oracle b5calls.
func compareCalls(u universe, cs []call, api []string) (applicable, same bool, detail string) {
	lc, ok := loadLocal(u)
	if !ok {
		return false, true, ""
	}
	if len(api) != len(cs) {
		return true, false, "result has a different number of calls"
	}
	for i, c := range cs {
		a, l := api[i], doCall(lc, c)
		bad := false
		switch c.Kind {
		case 'v':
			ka, _, _ := strings.Cut(a, "/t=")
			kl, _, _ := strings.Cut(l, "/t=")
			bad = ka != kl
		case 'r':
			da, ba, oka := splitReqs(a)
			dl, bl, okl := splitReqs(l)
			if !oka || !okl {
				bad = a != l
			} else {
				if len(dl)+len(bl) > 12 {
					// AddVersion sorts declared and bundle requirements together with sort.Slice:
					// beyond 12 elements that is pdqsort, which orders requirements of one name
					// (the same package in two sections) in an implementation-defined way
					da, dl = append([]string(nil), da...), append([]string(nil), dl...)
					sort.Strings(da)
					sort.Strings(dl)
				}
				bad = strings.Join(da, "+") != strings.Join(dl, "+") || strings.Join(ba, "+") != strings.Join(bl, "+")
			}
		default:
			bad = a != l
		}
		if bad {
			return true, false, fmt.Sprintf("call %d %s: api %s || local %s", i, c.enc(), a, l)
		}
	}
	return true, true, ""
}
