// c18 is the correspondence/oracle harness for property C18 (the API-backed
// client maps bundles and aliases consistently, race-free).
//
// Ops (universe.go has the wire format):
//
//	apiclient <U> <calls>                  run the calls on one fresh APIClient over a fake
//	                                       Insights service serving U; result: every call's
//	                                       canonical result
//	resolve   <U> <calls> <name> <version> same result as apiclient; names the root on which
//	                                       oracle b5 runs the real npm resolver over both clients
//	conc      <U> <segs>                   16 goroutines on one client vs solo runs (child process)
//	racedet   <U> <segs>                   the same under the race detector (thorough tier)
//	classify  <target>                     the finding classifier (hasRange) — tie with Lean
//	probe stable <U> / probe raceresolve <U>   Go-only (stable.go): the client's answers before and
//	                                       after resolving through it, read attribute by attribute;
//	                                       concurrent resolutions through one client under -race
package main

import (
	"fmt"
	"os"
	"strings"

	"deps.dev/util/resolve"

	"verifharness/fw"
)

const rule = "streams: (1) known-finding witnesses and corpus; (2) small-scope exhaustive alias/requirement strings over the alphabet " +
	"{a,@,/,npm:,s,^1} through flattenNPMDeps in every section; (3) random npm universes (3-6 packages with plain and scoped names " +
	"containing @ and /, 1-3 versions each, dependencies in all four sections plus bundleDependencies, aliases with and without " +
	"ranges and with scoped targets, nested bundle trees up to depth 3 listed in shuffled order) probed by Requirements(bundler) " +
	"followed by all four calls on every bundle (right and wrong versions) and on plain names; (4) malformed responses " +
	"(duplicate bundle paths, missing bundle parents, names and versions containing '>', unreadable paths, Npm=nil, duplicate " +
	"packages/versions, lookups before the bundler's Requirements); (5) B5: real npm resolver over APIClient vs LocalClient on every " +
	"root of closed universes; (6) B6: 16 goroutines on one client vs solo runs (and the same under -race in the thorough tier); " +
	"(7) directed universes in which bundled packages (also nested ones) have dependencies of their own that must be installed fresh " +
	"below the bundle, through aliases (KnownAs), bundleDependencies (Scope), optional and peer sections, run through all of the above; " +
	"(8) probe stable on every universe of (3) and (7): the four calls on every plain and bundled version are dumped attribute by " +
	"attribute (every AttrKey through GetAttr/HasAttr, IsRegular/Empty, String, Clone) before and after the real npm resolver has " +
	"resolved every root through that same client (bundled keys re-read by lookups after each resolution), values handed out earlier " +
	"are read again, and a second fresh client is compared; probe raceresolve: 8 goroutines resolving every root through one client " +
	"in a -race child process (3 directed universes in the quick tier, more in the thorough tier); " +
	"(9) version strings that are no npm versions (1.2.3.4, 1.0.0rc1, 0.1.2b, v1, 1.0, 1.0.0_1, next, latest, 1.0.0-) on bundled and ordinary packages, " +
	"spelled exactly by requirements and by MatchingVersions probes; bundled versions that are empty or written with range syntax (=1.0.0, blanks: class " +
	"F-C18-bundle-version-range); oracle b5calls compares every call of a resolve op between APIClient and a LocalClient holding the same data. " +
	"A case is distinct by its op line; non-trivial = the call sequence reached at least one bundled version through a successful " +
	"Requirements(bundler), or flattened at least one alias."

func execOp(f []string) string {
	switch f[0] {
	case "apiclient", "resolve":
		if (f[0] == "apiclient" && len(f) != 3) || (f[0] == "resolve" && len(f) != 5) {
			return "bad-op"
		}
		u, ok1 := decUniverse(f[1])
		cs, ok2 := decCalls(f[2])
		if !ok1 || !ok2 {
			return "bad-op"
		}
		if f[0] == "resolve" {
			if _, ok := unhx(f[3]); !ok {
				return "bad-op"
			}
			if _, ok := unhx(f[4]); !ok {
				return "bad-op"
			}
		}
		return "ok " + runCalls(resolve.NewAPIClient(&fake{u: u}), cs)
	case "conc", "racedet":
		if len(f) != 3 {
			return "bad-op"
		}
		u, ok1 := decUniverse(f[1])
		segs, ok2 := decSegs(f[2])
		if !ok1 || !ok2 {
			return "bad-op"
		}
		if f[0] == "conc" {
			solo := runCalls(resolve.NewAPIClient(&fake{u: u}), rotate(segs, 0))
			verdict, code := runWorker(os.Args[0], f[1], f[2], 16, 12)
			switch {
			case code != 0:
				return "ok " + solo + " CRASHED"
			case verdict != "same":
				return "ok " + solo + " " + verdict
			}
			return "ok " + solo
		}
		bin, berr := buildRaceBinary()
		if bin == "" {
			fmt.Fprintln(os.Stderr, berr)
			return "ok nobuild"
		}
		verdict, code := runWorker(bin, f[1], f[2], 16, 6)
		switch {
		case code == raceExit:
			return "ok races=1"
		case code != 0:
			return "ok crashed"
		case verdict != "same":
			return "ok diverged"
		}
		return "ok races=0"
	case "probe":
		if len(f) != 3 {
			return "bad-op"
		}
		u, ok := decUniverse(f[2])
		if !ok {
			return "bad-op"
		}
		switch f[1] {
		case "stable":
			return probeStable(u)
		case "raceresolve":
			return probeRaceResolve(f[2])
		}
		return "bad-op"
	case "classifyv":
		if len(f) != 2 {
			return "bad-op"
		}
		v, ok := unhx(f[1])
		if !ok {
			return "bad-op"
		}
		return "ok " + b01(rangeSyntax(v))
	case "classify":
		if len(f) != 2 {
			return "bad-op"
		}
		t, ok := unhx(f[1])
		if !ok {
			return "bad-op"
		}
		return "ok " + b01(hasRange(t))
	}
	return "bad-op"
}

// splitRes splits "ok r1,r2,..." into per-call results.
func splitRes(res string) ([]string, bool) {
	if !strings.HasPrefix(res, "ok ") {
		return nil, false
	}
	body := strings.TrimPrefix(res, "ok ")
	if i := strings.IndexByte(body, ' '); i >= 0 {
		body = body[:i]
	}
	return strings.Split(body, ","), true
}

func listItems(s, open string) ([]string, bool) {
	if !strings.HasPrefix(s, open+"[") || !strings.HasSuffix(s, "]") {
		return nil, false
	}
	in := s[len(open)+1 : len(s)-1]
	if in == "" {
		return nil, true
	}
	return strings.Split(in, "+"), true
}

func count(xs []string, x string) int {
	n := 0
	for _, y := range xs {
		if y == x {
			n++
		}
	}
	return n
}

// source of a key the call sequence may address.
type source struct {
	d        *deps
	children []*specBundle
	sb       *specBundle // nil for a plain version
	root     string      // the bundler "name@version" whose Requirements produced it
}

// walk evaluates the bundle/flatten oracles over one apiclient/resolve op.
// which: "bundles" (B1-B3), "flatten" (B4 and the plain entries).
func walk(which string, u universe, cs []call, rs []string) (bool, string) {
	if len(cs) != len(rs) {
		return true, "result has a different number of calls"
	}
	known := map[string]*source{}   // bundle key → source, once its bundler's Requirements succeeded
	tainted := map[string]bool{}    // bundle-key prefixes "name>version>" of responses outside the domain
	ambiguous := map[string]bool{}  // keys produced by two different bundlers
	for i, c := range cs {
		r := rs[i]
		if !strings.Contains(c.Name, ">") {
			if c.Kind != 'r' {
				continue
			}
			v := u.ver(c.Name, c.Version)
			if v == nil {
				if r != "err" {
					return true, fmt.Sprintf("call %d: Requirements of an unknown version is %s", i, r)
				}
				continue
			}
			if v.NoNpm {
				continue
			}
			all, top, ok := specBundles(c.Name, v)
			if !ok {
				tainted[c.Name+">"+c.Version+">"] = true
				continue
			}
			items, ok := listItems(r, "R")
			if !ok {
				return true, fmt.Sprintf("call %d: Requirements of a served version is %s", i, r)
			}
			if bad, d := checkReqs(which, i, items, &source{d: &v.D, children: top}); bad {
				return true, d
			}
			for _, sb := range all {
				rootID := c.Name + "@" + c.Version
				if old, dup := known[sb.Key]; dup && old.root != rootID {
					ambiguous[sb.Key] = true
				}
				known[sb.Key] = &source{d: &sb.B.D, children: sb.Children, sb: sb, root: rootID}
			}
			continue
		}
		// a bundle key
		skip := ambiguous[c.Name]
		for p := range tainted {
			if strings.HasPrefix(c.Name, p) {
				skip = true
			}
		}
		if skip {
			continue
		}
		src := known[c.Name]
		if src == nil {
			if which == "bundles" && r != "err" {
				return true, fmt.Sprintf("call %d: %s on a bundle no Requirements call has produced is %s", i, string(c.Kind), r)
			}
			continue
		}
		want := bundleVersionDump(src.sb)
		switch c.Kind {
		case 'v':
			if which == "bundles" && r != "V"+want {
				return true, fmt.Sprintf("call %d: B1/B3 Version is %s, want V%s", i, r, want)
			}
		case 's':
			if which == "bundles" && r != "L["+want+"]" {
				return true, fmt.Sprintf("call %d: B1/B3 Versions is %s, want exactly [%s]", i, r, want)
			}
		case 'm':
			exp := "L[]"
			if c.Version == src.sb.B.Version {
				exp = "L[" + want + "]"
			}
			if which == "bundles" && r != exp {
				return true, fmt.Sprintf("call %d: B2/B3 MatchingVersions is %s, want %s", i, r, exp)
			}
		case 'r':
			items, ok := listItems(r, "R")
			if !ok {
				return true, fmt.Sprintf("call %d: B3 Requirements of a bundle is %s", i, r)
			}
			if bad, d := checkReqs(which, i, items, src); bad {
				return true, d
			}
		}
	}
	return false, ""
}

func checkReqs(which string, i int, items []string, src *source) (bool, string) {
	flat, _ := specFlatten(*src.d)
	if which == "bundles" {
		// B2: the bundling parent requires each directly bundled package by its
		// mangled name with exactly the bundled version; nothing else is added.
		for _, ch := range src.children {
			if n := count(items, bundleReqDump(ch)); n != 1 {
				return true, fmt.Sprintf("call %d: B2 parent requirement %s occurs %d times in %v", i, bundleReqDump(ch), n, items)
			}
		}
		if len(items) != len(flat)+len(src.children) {
			return true, fmt.Sprintf("call %d: %d requirements, want %d declared + %d bundled", i, len(items), len(flat), len(src.children))
		}
		return false, ""
	}
	// flatten: every declared entry denotes its requirement (B4 for aliases).
	for _, e := range flat {
		if count(items, e) < count(flat, e) {
			return true, fmt.Sprintf("call %d: B4/flatten requirement %s missing from %v", i, e, items)
		}
	}
	return false, ""
}

func parseOp(line string) (op string, u universe, cs []call, rest []string, ok bool) {
	f := strings.Fields(line)
	if len(f) < 4 || f[0] != "C18" {
		return "", nil, nil, nil, false
	}
	u, ok1 := decUniverse(f[2])
	if !ok1 {
		return "", nil, nil, nil, false
	}
	if f[1] == "conc" || f[1] == "racedet" {
		segs, ok2 := decSegs(f[3])
		if !ok2 {
			return "", nil, nil, nil, false
		}
		return f[1], u, rotate(segs, 0), f[4:], true
	}
	cs, ok2 := decCalls(f[3])
	return f[1], u, cs, f[4:], ok2
}

func recheck(oracle string, ops, res []string) (bool, string) {
	if len(ops) != len(res) || len(ops) == 0 {
		return true, "oracle needs ops"
	}
	if len(ops) > 1 { // several witnesses: violated if any is
		for i := range ops {
			if bad, d := recheck(oracle, ops[i:i+1], res[i:i+1]); bad {
				return true, d
			}
		}
		return false, ""
	}
	if oracle == "race" {
		if res[0] != "ok races=0" {
			return true, "race-detector run: " + res[0]
		}
		return false, ""
	}
	if oracle == "stable" {
		if f := strings.Fields(ops[0]); len(f) != 4 || f[1] != "probe" || f[2] != "stable" {
			return true, "stable needs a probe stable op"
		}
		return recheckStable(res[0])
	}
	op, u, cs, rest, ok := parseOp(ops[0])
	if !ok {
		return true, "unparsable op"
	}
	switch oracle {
	case "bundles", "flatten":
		rs, ok := splitRes(res[0])
		if !ok {
			return true, "result is " + res[0]
		}
		return walk(oracle, u, cs, rs)
	case "b6":
		if op != "conc" {
			return true, "b6 needs a conc op"
		}
		if !strings.HasPrefix(res[0], "ok ") || strings.Count(res[0], " ") != 1 {
			return true, "concurrent run: " + res[0][strings.LastIndex(res[0], " ")+1:]
		}
		return false, ""
	case "b5":
		if op != "resolve" || len(rest) != 2 {
			return true, "b5 needs a resolve op"
		}
		name, _ := unhx(rest[0])
		ver, _ := unhx(rest[1])
		applicable, same, a, l := compareResolutions(u, name, ver)
		if !applicable || same {
			return false, ""
		}
		return true, "api: " + a + " || local: " + l
	case "b5calls":
		if op != "resolve" {
			return true, "b5calls needs a resolve op"
		}
		rs, ok := splitRes(res[0])
		if !ok {
			return true, "result is " + res[0]
		}
		applicable, same, d := compareCalls(u, cs, rs)
		if !applicable || same {
			return false, ""
		}
		return true, d
	}
	return true, "unknown oracle " + oracle
}

// universeNoRange: some alias target anywhere in the universe has no range —
// the negation of hypothesis AliasesRanged of the partial theorems.
func universeNoRange(u universe) bool {
	chk := func(d deps) bool {
		_, nr := specFlatten(d)
		return nr
	}
	for _, p := range u {
		for _, v := range p.Vers {
			if chk(v.D) {
				return true
			}
			for _, b := range v.Bundled {
				if chk(b.D) {
					return true
				}
			}
		}
	}
	return false
}

// universeOpen: some requirement names a package the service does not serve —
// the negation of hypothesis Closed of b5_partial.
func universeOpen(u universe) bool {
	chk := func(d deps) bool {
		flat := localReqs(d)
		for _, r := range flat {
			if u.pkg(r.Name) == nil {
				return true
			}
		}
		return false
	}
	for _, p := range u {
		for _, v := range p.Vers {
			if chk(v.D) {
				return true
			}
			for _, b := range v.Bundled {
				if chk(b.D) {
					return true
				}
			}
		}
	}
	return false
}

func classify(oracle string, ops, res []string) string {
	if len(ops) != 1 {
		return ""
	}
	_, u, _, _, ok := parseOp(ops[0])
	if !ok {
		return ""
	}
	switch oracle {
	case "flatten":
		if universeNoRange(u) {
			return "F-C18-alias-norange"
		}
	case "b5", "b5calls":
		if universeNoRange(u) {
			return "F-C18-alias-norange"
		}
		if universeOpen(u) {
			return "F-C18-unknown-package"
		}
		if universeRangeVersion(u) {
			return "F-C18-bundle-version-range"
		}
	}
	return ""
}

func main() {
	if len(os.Args) >= 2 && os.Args[1] == "concworker" {
		concWorker(os.Args[2:])
		return
	}
	if len(os.Args) >= 2 && os.Args[1] == "resolveworker" {
		resolveWorker(os.Args[2:])
		return
	}
	if len(os.Args) >= 2 && os.Args[1] == "drive" {
		// Build the -race variant before any op runs: a cold build (~30 s) inside an op
		// would trip the framework's 20 s per-op watchdog.
		buildRaceBinary()
	}
	fw.Main(&fw.Prop{
		ID:       "C18",
		Rule:     rule,
		Exec:     execOp,
		Run:      run,
		Recheck:  recheck,
		Classify: classify,
	})
	if raceTemp != "" {
		os.Remove(raceTemp)
	}
}
