package main

import (
	"fmt"
	"math/rand"
	"strings"
	"sync"

	"verifharness/fw"
)

var (
	pkgNames   = []string{"a", "b", "@s/c", "d", "@s/e.f", "@t/a", "B"}
	verPool    = []string{"1.0.0", "1.1.0", "2.0.0", "2.0.0-beta.1", "0.1.0"}
	reqPool    = []string{"^1.0.0", "*", ">=1.0.0 <2.0.0", "2.x", "latest", "^2.0.0-beta.0", "^0.1.0", "^9.0.0", "1.0.0", ""}
	aliasNames = []string{"alias1", "x", "@s/al", "a", "Alias1"}
	bverPool   = []string{"1.0.0", "2.0.0", "1.5.0", "1.1.0"}
	// version strings as found in tarballs and reported by the service that are NOT well-formed
	// npm versions: four numbers, PEP-440-like suffixes, a leading v, two numbers, an underscore,
	// dist-tag-like words, the word that is another version's tag. None of them is written with
	// range syntax: a requirement spelling one of them exactly selects that version by string
	// equality (when it does not parse as a range) or by matching itself.
	oddVers = []string{"1.2.3.4", "1.0.0rc1", "0.1.2b", "v1", "1.0", "1.0.0_1", "next", "latest", "1.0.0-"}
	// version strings written with range syntax (operator, surrounding blank) or empty:
	// class F-C18-bundle-version-range (rangeSyntax, classifier)
	rangeVers = []string{"=1.0.0", " 1.0.0", "1.0.0 ", "", "=2.0.0", "^1.0.0", ">=1.0.0"}
)

// bundleVer picks the version a bundled package reports.
func bundleVer(r *rand.Rand) string {
	switch x := r.Intn(30); {
	case x < 5:
		return pick(r, oddVers)
	case x < 6:
		return pick(r, rangeVers)
	}
	return pick(r, bverPool)
}

func pick(r *rand.Rand, xs []string) string { return xs[r.Intn(len(xs))] }

type genOpts struct {
	names    []string // packages served
	depNames []string // names requirements may mention
	aliases  bool
	noRange  bool // aliases without a range allowed
	bundles  bool
	maxDeps  int
}

func genDeps(r *rand.Rand, o genOpts, bundleNames []string) deps {
	var d deps
	for k := r.Intn(o.maxDeps + 1); k > 0; k-- {
		q := pick(r, o.depNames)
		req := pick(r, reqPool)
		if r.Intn(8) == 0 {
			req = pick(r, oddVers) // an exact spelling of a version that is no npm version
		}
		name := q
		if o.aliases && r.Intn(5) == 0 {
			name = pick(r, aliasNames)
			if o.noRange && r.Intn(6) == 0 {
				req = "npm:" + q
			} else {
				req = "npm:" + q + "@" + req
			}
		}
		x := pdep{name, req}
		// a package.json section is a JSON object: its keys are distinct
		add := func(sec *[]pdep) {
			for _, y := range *sec {
				if y.Name == x.Name {
					return
				}
			}
			*sec = append(*sec, x)
		}
		switch r.Intn(8) {
		case 0:
			add(&d.Dev)
		case 1:
			add(&d.Opt)
		case 2:
			add(&d.Peer)
		default:
			add(&d.Reg)
		}
	}
	for _, n := range bundleNames {
		if r.Intn(2) == 0 {
			d.Bundle = append(d.Bundle, n)
		}
	}
	if r.Intn(12) == 0 {
		d.Bundle = append(d.Bundle, pick(r, o.depNames))
	}
	return d
}

// genBundles makes a bundle tree (depth ≤ 3) and lists it in shuffled order.
func genBundles(r *rand.Rand, o genOpts) (out []bundle, topNames []string) {
	if !o.bundles || r.Intn(3) == 0 {
		return nil, nil
	}
	type node struct {
		path  string
		depth int
	}
	var nodes []node
	paths := map[string]bool{}
	for k := 1 + r.Intn(4); k > 0; k-- {
		name := pick(r, o.depNames)
		dir := name
		if o.aliases && r.Intn(8) == 0 {
			dir = pick(r, aliasNames) // installed under an alias
		}
		parent := node{"", 0}
		if len(nodes) > 0 && r.Intn(2) == 0 {
			parent = nodes[r.Intn(len(nodes))]
		}
		if parent.depth >= 3 {
			continue
		}
		path := "node_modules/" + dir
		if parent.path != "" {
			path = parent.path + "/node_modules/" + dir
		}
		if paths[path] {
			continue
		}
		paths[path] = true
		nodes = append(nodes, node{path, parent.depth + 1})
		out = append(out, bundle{Path: path, Name: name, Version: bundleVer(r), D: genDeps(r, genOpts{depNames: o.depNames, aliases: o.aliases, noRange: o.noRange, maxDeps: 2}, nil)})
		if parent.path == "" {
			topNames = append(topNames, dir)
		}
	}
	r.Shuffle(len(out), func(i, j int) { out[i], out[j] = out[j], out[i] })
	return out, topNames
}

func genUniverse(r *rand.Rand, o genOpts) universe {
	var u universe
	for _, n := range o.names {
		p := pkg{Name: n}
		k := 1 + r.Intn(3)
		perm := r.Perm(len(verPool))[:k]
		latest := perm[r.Intn(k)]
		if r.Intn(6) == 0 {
			latest = -1
		}
		odd := map[string]bool{}
		for _, vi := range perm {
			v := ver{V: verPool[vi], Default: vi == latest}
			if o := pick(r, oddVers); r.Intn(7) == 0 && !odd[o] {
				odd[o] = true
				v.V = o
			}
			if r.Intn(10) == 0 {
				v.Regs = []string{"https://registry.npmjs.org/"}
				if r.Intn(2) == 0 {
					v.Regs = append(v.Regs, "r2")
				}
			}
			var top []string
			v.Bundled, top = genBundles(r, o)
			v.D = genDeps(r, o, top)
			p.Vers = append(p.Vers, v)
		}
		u = append(u, p)
	}
	return u
}

func subset(r *rand.Rand, xs []string, n int) []string {
	p := r.Perm(len(xs))
	out := make([]string, 0, n)
	for _, i := range p[:n] {
		out = append(out, xs[i])
	}
	return out
}

// probes: Requirements(bundler) then every call on every bundle it lists.
func probes(r *rand.Rand, name string, v *ver, extra bool) []call {
	cs := []call{{Kind: 'r', Name: name, Version: v.V}}
	all, _, ok := specBundles(name, v)
	if ok {
		for _, sb := range all {
			cs = append(cs,
				call{Kind: 'm', Name: sb.Key, Req: true, Version: sb.B.Version},
				call{Kind: 's', Name: sb.Key},
				call{Kind: 'v', Name: sb.Key, Version: sb.B.Version},
				call{Kind: 'r', Name: sb.Key, Version: sb.B.Version})
			if extra {
				cs = append(cs,
					call{Kind: 'm', Name: sb.Key, Req: true, Version: "^" + sb.B.Version},
					call{Kind: 'v', Name: sb.Key, Req: true, Version: "9.9.9"},
					call{Kind: 'r', Name: sb.Key, Version: "9.9.9"})
			}
		}
	} else {
		// outside the independent reading: probe by the library's own naming
		for _, b := range v.Bundled {
			key := name + ">" + v.V + ">" + strings.ReplaceAll(strings.TrimPrefix(b.Path, "node_modules/"), "/node_modules/", ">")
			cs = append(cs,
				call{Kind: 'm', Name: key, Req: true, Version: b.Version},
				call{Kind: 's', Name: key},
				call{Kind: 'v', Name: key, Version: b.Version},
				call{Kind: 'r', Name: key, Version: b.Version})
		}
	}
	if extra {
		cs = append(cs,
			call{Kind: 'v', Name: name, Version: v.V},
			call{Kind: 's', Name: name},
			call{Kind: 'm', Name: name, Req: true, Version: pick(r, reqPool)},
			call{Kind: 'm', Name: name, Req: true, Version: v.V},
			call{Kind: 'm', Name: name, Req: true, Version: pick(r, oddVers)},
			call{Kind: 'v', Name: name, Version: "7.7.7"},
			call{Kind: 'm', Name: "nosuch", Req: true, Version: "*"},
			call{Kind: 's', Name: "nosuch>1.0.0>x"})
	}
	return cs
}

func hasBundles(u universe) bool {
	for _, p := range u {
		for _, v := range p.Vers {
			if len(v.Bundled) > 0 {
				return true
			}
		}
	}
	return false
}

func hasAlias(u universe) bool {
	chk := func(d deps) bool {
		for _, sec := range [][]pdep{d.Reg, d.Dev, d.Opt, d.Peer} {
			for _, x := range sec {
				if strings.HasPrefix(x.Req, "npm:") {
					return true
				}
			}
		}
		return false
	}
	for _, p := range u {
		for _, v := range p.Vers {
			if chk(v.D) {
				return true
			}
			for _, b := range v.Bundled {
				if chk(b.D) {
					return true
				}
			}
		}
	}
	return false
}

// malform pushes a universe out of the well-formed domain.
func malform(r *rand.Rand, u universe) string {
	p := &u[r.Intn(len(u))]
	v := &p.Vers[r.Intn(len(p.Vers))]
	switch k := r.Intn(10); k {
	case 0: // two entries at one path
		if len(v.Bundled) > 0 {
			b := v.Bundled[r.Intn(len(v.Bundled))]
			b.Version = "3.0.0"
			b.Name = "dup"
			v.Bundled = append(v.Bundled, b)
			return "dup-path"
		}
	case 1: // parent not listed
		v.Bundled = append(v.Bundled, bundle{Path: "node_modules/zz/node_modules/a", Name: "a", Version: "1.0.0"})
		return "missing-parent"
	case 2: // '>' in a bundled directory name: collides with a nested path
		v.Bundled = append(v.Bundled, bundle{Path: "node_modules/a>b", Name: "a>b", Version: "1.0.0"},
			bundle{Path: "node_modules/a", Name: "a", Version: "1.0.0"},
			bundle{Path: "node_modules/a/node_modules/b", Name: "b", Version: "2.0.0"})
		return "gt-in-name"
	case 3: // unreadable paths
		v.Bundled = append(v.Bundled, bundle{Path: pick(r, []string{"a", "", "node_modules/", "node_modules/a/node_modules/", "/node_modules/a", "node_modules/node_modules/a", "x/node_modules/y"}), Name: "a", Version: "1.0.0"})
		return "odd-path"
	case 4:
		v.NoNpm = true
		return "npm-nil"
	case 5: // duplicate version / package
		p.Vers = append(p.Vers, ver{V: v.V, Default: !v.Default})
		return "dup-version"
	case 6:
		u[len(u)-1].Name = u[0].Name
		return "dup-package"
	case 7: // version containing '>' : mangled keys of two bundlers may coincide
		v.V = "1>x"
		return "gt-in-version"
	case 8: // many equal-length paths. Not more than 12 entries in all: Go's sort.Slice is an
		// insertion sort (stable) up to 12 elements and the model sorts stably; beyond that
		// pdqsort permutes entries of equal path length in an implementation-defined way.
		for i := 0; len(v.Bundled) < 12; i++ {
			v.Bundled = append(v.Bundled, bundle{Path: "node_modules/" + string(rune('m'+i%7)) + string(rune('a'+i)), Name: "n", Version: "1.0.0"})
		}
		return "many-bundles"
	case 9: // non-ASCII free weird names
		v.D.Reg = append(v.D.Reg, pdep{"", ""}, pdep{"npm:", "npm:"}, pdep{"Z", "npm:@"}, pdep{"z", "npm:a@b@c"}, pdep{"@", "npm:@@"})
		return "odd-deps"
	}
	return "none"
}

func allRoots(u universe) (out [][2]int) {
	for i, p := range u {
		for j := range p.Vers {
			out = append(out, [2]int{i, j})
		}
	}
	return out
}

func run(c *fw.Ctx) {
	r := c.Rng

	// (2) small-scope exhaustive requirement strings through every section
	alpha := []string{"a", "@", "/", "npm:", "s", "^1"}
	var strs []string
	var rec func(prefix string, k int)
	rec = func(prefix string, k int) {
		strs = append(strs, prefix)
		if k == 0 {
			return
		}
		for _, a := range alpha {
			rec(prefix+a, k-1)
		}
	}
	rec("", c.N(4, 5))
	seen := map[string]bool{}
	for i, s := range strs {
		if seen[s] {
			continue
		}
		seen[s] = true
		var d deps
		x := pdep{"x", s}
		switch i % 4 {
		case 0:
			d.Reg = []pdep{x}
		case 1:
			d.Dev = []pdep{x}
		case 2:
			d.Opt = []pdep{x}
		case 3:
			d.Peer = []pdep{x}
		}
		u := universe{{Name: "r", Vers: []ver{{V: "1.0.0", D: d}}}}
		idx, _ := c.Opf("C18 apiclient %s %s", u.enc(), encCalls([]call{{Kind: 'r', Name: "r", Version: "1.0.0"}}))
		c.Check("flatten", idx)
		c.Count("exh.req")
		if t, ok := aliasTarget(s); ok {
			c.Opf("C18 classify %s", fw.Hx(t))
			if hasRange(t) {
				c.Count("exh.alias.ranged")
			} else {
				c.Count("exh.alias.norange")
			}
			c.Nontrivial("exh:" + s)
		}
	}

	// (3) random universes, probed
	type b5case struct{ idx int }
	var b5 []b5case
	nConc := 0
	nRaceResolve := 0
	nRandom, nDirected := c.N(1000, 10000), c.N(250, 2500)
	for it := 0; it < nRandom+nDirected; it++ {
		var u universe
		mal := "none"
		directed := it >= nRandom
		if directed {
			// (7) fresh installs below a bundle
			u = genBelowBundle(r)
			c.Count("universe.directed")
		} else {
			n := 3 + r.Intn(4)
			names := subset(r, pkgNames, n)
			o := genOpts{names: names, depNames: names, aliases: r.Intn(4) != 0, noRange: r.Intn(3) == 0, bundles: r.Intn(4) != 0, maxDeps: 4}
			if r.Intn(12) == 0 {
				o.depNames = append(append([]string(nil), names...), "ghost") // a package the service does not serve
			}
			u = genUniverse(r, o)
			if r.Intn(7) == 0 {
				mal = malform(r, u)
			}
		}
		c.Count("universe.malformed=" + mal)
		ue := u.enc()
		// one long sequence over all roots (lookups of later bundlers' bundles come first)
		var cs []call
		roots := allRoots(u)
		if len(roots) > 0 && r.Intn(3) == 0 {
			// lookups before the bundler's Requirements
			rt := roots[r.Intn(len(roots))]
			pre := probes(r, u[rt[0]].Name, &u[rt[0]].Vers[rt[1]], false)
			if len(pre) > 1 {
				cs = append(cs, pre[1:]...)
			}
		}
		for _, rt := range roots {
			cs = append(cs, probes(r, u[rt[0]].Name, &u[rt[0]].Vers[rt[1]], r.Intn(3) == 0)...)
		}
		if r.Intn(4) == 0 && len(roots) > 0 {
			// a second Requirements of a bundler, then its bundles again
			rt := roots[r.Intn(len(roots))]
			cs = append(cs, probes(r, u[rt[0]].Name, &u[rt[0]].Vers[rt[1]], false)...)
		}
		idx, res := c.Opf("C18 apiclient %s %s", ue, encCalls(cs))
		c.Check("bundles", idx)
		c.Check("flatten", idx)
		if hasBundles(u) && strings.Contains(res, "/d=") && !strings.Contains(res, "/d=~") || strings.Contains(res, "/k=") {
			c.Nontrivial(ue)
		}
		if hasBundles(u) {
			c.Count("universe.bundles")
		}
		if hasAlias(u) {
			c.Count("universe.aliases")
		}
		if universeNoRange(u) {
			c.Count("universe.alias-norange")
		}
		if universeOpen(u) {
			c.Count("universe.open")
		}
		if universeRangeVersion(u) {
			c.Count("universe.bundle-version-range")
		}
		for _, p := range u {
			for _, v := range p.Vers {
				if isIn(oddVers, v.V) {
					c.Count("odd-version.plain")
				}
				for _, b := range v.Bundled {
					if isIn(oddVers, b.Version) {
						c.Count("odd-version.bundled")
					}
					if rangeSyntax(b.Version) || isIn(oddVers, b.Version) {
						c.Opf("C18 classifyv %s", fw.Hx(b.Version))
					}
				}
			}
		}
		if it < 3 {
			c.Sample("C18 apiclient " + ue + " " + encCalls(cs))
		}
		// (5) B5 on every root
		if mal == "none" || mal == "many-bundles" || mal == "odd-deps" {
			for _, rt := range roots {
				p, v := u[rt[0]], &u[rt[0]].Vers[rt[1]]
				i5, _ := c.Opf("C18 resolve %s %s %s %s", ue, encCalls(probes(r, p.Name, v, false)), fw.Hx(p.Name), fw.Hx(v.V))
				b5 = append(b5, b5case{i5})
				c.Check("b5calls", i5)
				c.Count("b5.roots")
			}
		}
		// (8) the client's answers do not change by resolving through it
		if mal != "npm-nil" {
			i8, res8 := c.Opf("C18 probe stable %s", ue)
			c.Check("stable", i8)
			if res8 == "ok ambiguous" {
				c.Count("stable.ambiguous")
			} else {
				c.Count("stable")
			}
			if directed && ((!c.Thor && nRaceResolve < 3) || (c.Thor && it%25 == 0)) {
				nRaceResolve++
				i9, _ := c.Opf("C18 probe raceresolve %s", ue)
				c.Check("race", i9)
				c.Count("raceresolve")
			}
		}
		// (6) B6
		if it%c.N(12, 40) == 0 && len(roots) > 0 && mal != "npm-nil" && mal != "gt-in-version" && mal != "dup-package" && mal != "dup-version" {
			var segs [][]call
			for _, rt := range roots {
				seg := probes(r, u[rt[0]].Name, &u[rt[0]].Vers[rt[1]], false)
				seg = append(seg, call{Kind: 's', Name: u[rt[0]].Name}, call{Kind: 'm', Name: u[rt[0]].Name, Req: true, Version: "*"})
				segs = append(segs, seg)
			}
			i6, _ := c.Opf("C18 conc %s %s", ue, encSegs(segs))
			c.Check("b6", i6)
			c.Count("conc")
			nConc++
			if (c.Thor && it%200 == 0) || (!c.Thor && nConc <= 3) {
				i7, _ := c.Opf("C18 racedet %s %s", ue, encSegs(segs))
				c.Check("race", i7)
				c.Count("racedet")
			}
		}
	}
	// B5 checks run the real resolvers (deadline-bound): in parallel
	var wg sync.WaitGroup
	sem := make(chan struct{}, 12)
	for _, x := range b5 {
		wg.Add(1)
		sem <- struct{}{}
		go func(i int) {
			defer wg.Done()
			defer func() { <-sem }()
			c.Check("b5", i)
		}(x.idx)
	}
	wg.Wait()
	c.Note(fmt.Sprintf("b5 resolutions (incl. witnesses): same graph %d, both err %d, both timeout %d, differ %d, outside the independent reading %d",
		b5Same.Load(), b5BothErr.Load(), b5BothTimeout.Load(), b5Differ.Load(), b5Skipped.Load()))
	c.Note(fmt.Sprintf("probe stable: %d runs (%d outside Unambiguous S), %d bundled keys read, %d resolutions through the probed clients (%d hit their deadline), %d fresh installs below a bundled node",
		probeRuns.Load(), probeAmbiguous.Load(), probeBundledKeys.Load(), probeResolves.Load(), probeTimeouts.Load(), probeFreshBelowBundle.Load()))
	if n := leaked.Load(); n > 0 {
		c.Note(fmt.Sprintf("resolver goroutines abandoned after ignoring their context deadline: %d", n))
	}
}
