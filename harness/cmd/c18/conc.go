package main

// B6: several goroutines hammer ONE APIClient. Every goroutine runs the call
// segments in its own rotation (a segment = Requirements of a bundler followed
// by lookups of its bundles, so every thread asks a bundle only after its own
// Requirements(bundler)); by the interleaving theorem every observation must
// equal the one a solo run of the same sequence makes.
//
// The run happens in a child process ("<bin> concworker ..."), because the Go
// runtime answers an unsynchronised concurrent map write with a fatal error
// that cannot be recovered: the parent turns a dead child into a result line.
// The same worker built with -race (thorough tier) additionally reports data
// races (exit code 66).

import (
	"bytes"
	"crypto/sha1"
	"fmt"
	"os"
	"os/exec"
	"path/filepath"
	"runtime"
	"strings"
	"sync"
	"time"

	"deps.dev/util/resolve"
)

const raceExit = 66

func rotate(segs [][]call, k int) []call {
	var out []call
	n := len(segs)
	for i := 0; i < n; i++ {
		out = append(out, segs[(i+k)%n]...)
	}
	return out
}

// concWorker is the child's main: prints "same" or "DIVERGED ..." on stdout.
func concWorker(args []string) {
	if len(args) != 4 {
		fmt.Println("bad-args")
		os.Exit(2)
	}
	u, ok1 := decUniverse(args[0])
	segs, ok2 := decSegs(args[1])
	var threads, iters int
	fmt.Sscan(args[2], &threads)
	fmt.Sscan(args[3], &iters)
	if !ok1 || !ok2 || threads < 1 || iters < 1 {
		fmt.Println("bad-args")
		os.Exit(2)
	}
	// solo observations per rotation
	solo := make([]string, len(segs))
	for k := range segs {
		solo[k] = runCalls(resolve.NewAPIClient(&fake{u: u}), rotate(segs, k))
	}
	var mu sync.Mutex
	var diverged []string
	for it := 0; it < iters; it++ {
		cl := resolve.NewAPIClient(&fake{u: u})
		var wg sync.WaitGroup
		start := make(chan struct{})
		for g := 0; g < threads; g++ {
			wg.Add(1)
			go func(g int) {
				defer wg.Done()
				k := g % len(segs)
				cs := rotate(segs, k)
				<-start
				out := make([]string, len(cs))
				for i, c := range cs {
					out[i] = doCall(cl, c)
					if (i+g+it)%3 == 0 {
						runtime.Gosched()
					}
				}
				if got := strings.Join(out, ","); got != solo[k] {
					mu.Lock()
					if len(diverged) < 3 {
						diverged = append(diverged, fmt.Sprintf("g=%d/rot=%d", g, k))
					}
					mu.Unlock()
				}
			}(g)
		}
		close(start)
		wg.Wait()
	}
	if len(diverged) > 0 {
		fmt.Println("DIVERGED " + strings.Join(diverged, " "))
		return
	}
	fmt.Println("same")
}

func harnessDir() string {
	exe, err := os.Executable()
	if err != nil {
		return "."
	}
	return filepath.Dir(filepath.Dir(exe)) // <harness>/bin/c18 → <harness>
}

// runWorker runs the worker in a child process and returns (stdout verdict, exit code).
func runWorker(bin, u, segs string, threads, iters int) (string, int) {
	return runChild(bin, []string{"concworker", u, segs, fmt.Sprint(threads), fmt.Sprint(iters)})
}

func runChild(bin string, args []string) (string, int) {
	cmd := exec.Command(bin, args...)
	var so, se bytes.Buffer
	cmd.Stdout, cmd.Stderr = &so, &se
	cmd.Env = append(os.Environ(), fmt.Sprintf("GORACE=halt_on_error=0 exitcode=%d", raceExit))
	done := make(chan error, 1)
	if err := cmd.Start(); err != nil {
		return "nostart", -1
	}
	go func() { done <- cmd.Wait() }()
	select {
	case err := <-done:
		code := 0
		if err != nil {
			code = -1
			if ee, ok := err.(*exec.ExitError); ok {
				code = ee.ExitCode()
			}
		}
		return strings.TrimSpace(so.String()), code
	case <-time.After(60 * time.Second):
		cmd.Process.Kill()
		return "hung", -2
	}
}

var (
	raceOnce sync.Once
	raceBin  string
	raceErr  string
	raceTemp string // race binary of another tree than /repo: removed when the run ends
)

// buildRaceBinary builds this harness with the race detector (needs cgo; works
// offline in this sandbox). Rebuilt on every run from the current tree under
// test: $VERIF_REPO (default /repo) - for another tree the module replacements
// of go.mod are pointed at it through a scratch -modfile, as ./check does.
func buildRaceBinary() (string, string) {
	raceOnce.Do(func() {
		dir := harnessDir()
		out := filepath.Join(dir, "bin", "c18race")
		args := []string{"build", "-race", "-tags", "verif"}
		if repo := strings.TrimRight(os.Getenv("VERIF_REPO"), "/"); repo != "" && repo != "/repo" {
			tag := fmt.Sprintf("%x", sha1.Sum([]byte(repo)))[:8]
			alt := filepath.Join(os.TempDir(), "c18race-"+tag)
			mod, err1 := os.ReadFile(filepath.Join(dir, "go.mod"))
			sum, err2 := os.ReadFile(filepath.Join(dir, "go.sum"))
			if err1 != nil || err2 != nil || os.MkdirAll(alt, 0o755) != nil {
				raceErr = "cannot prepare the -modfile for " + repo
				return
			}
			os.WriteFile(filepath.Join(alt, "go.mod"), []byte(strings.ReplaceAll(string(mod), "/repo/", repo+"/")), 0o644)
			os.WriteFile(filepath.Join(alt, "go.sum"), sum, 0o644)
			args = append(args, "-modfile", filepath.Join(alt, "go.mod"))
			out = filepath.Join(os.TempDir(), "c18race-"+tag+".bin")
			raceTemp = out
			defer os.RemoveAll(alt)
		}
		os.Remove(out)
		cmd := exec.Command("go", append(args, "-o", out, "./cmd/c18")...)
		cmd.Dir = dir
		cmd.Env = append(os.Environ(), "GOFLAGS=-mod=mod", "GOPROXY=off", "GOSUMDB=off", "GOTOOLCHAIN=local", "CGO_ENABLED=1")
		b, err := cmd.CombinedOutput()
		if err != nil {
			raceErr = "go build -race failed: " + string(b)
			return
		}
		raceBin = out
	})
	return raceBin, raceErr
}
