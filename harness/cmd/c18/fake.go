package main

// In-process fake of the deps.dev Insights service: a Go struct implementing
// the three pb.InsightsClient methods the APIClient uses. Every response is
// built afresh on every call (npmRequirements sorts resp.Npm.Bundled in place,
// so a shared response object would itself be a data race between callers).

import (
	"context"
	"fmt"
	"strings"

	pb "deps.dev/api/v3"
	"deps.dev/util/resolve"
	"deps.dev/util/resolve/dep"
	"deps.dev/util/resolve/version"
	"google.golang.org/grpc"
	"google.golang.org/grpc/codes"
	"google.golang.org/grpc/status"

	"verifharness/fw"
)

type fake struct {
	pb.InsightsClient // every other method: nil-pointer panic (never called)
	u                 universe
}

func (f *fake) GetPackage(ctx context.Context, in *pb.GetPackageRequest, _ ...grpc.CallOption) (*pb.Package, error) {
	p := f.u.pkg(in.PackageKey.Name)
	if p == nil || in.PackageKey.System != pb.System_NPM {
		return nil, status.Error(codes.NotFound, "not found")
	}
	out := &pb.Package{PackageKey: &pb.PackageKey{System: pb.System_NPM, Name: p.Name}}
	for _, v := range p.Vers {
		out.Versions = append(out.Versions, &pb.Package_Version{
			VersionKey: &pb.VersionKey{System: pb.System_NPM, Name: p.Name, Version: v.V},
			IsDefault:  v.Default,
		})
	}
	return out, nil
}

func (f *fake) GetVersion(ctx context.Context, in *pb.GetVersionRequest, _ ...grpc.CallOption) (*pb.Version, error) {
	v := f.u.ver(in.VersionKey.Name, in.VersionKey.Version)
	if v == nil || in.VersionKey.System != pb.System_NPM {
		return nil, status.Error(codes.NotFound, "not found")
	}
	return &pb.Version{
		VersionKey: &pb.VersionKey{System: pb.System_NPM, Name: in.VersionKey.Name, Version: v.V},
		IsDefault:  v.Default,
		Registries: append([]string(nil), v.Regs...),
	}, nil
}

func pbDeps(d deps) *pb.Requirements_NPM_Dependencies {
	if len(d.Reg)+len(d.Dev)+len(d.Opt)+len(d.Peer)+len(d.Bundle) == 0 {
		return nil // exercises the nil-safe getters
	}
	mk := func(ds []pdep) []*pb.Requirements_NPM_Dependencies_Dependency {
		var out []*pb.Requirements_NPM_Dependencies_Dependency
		for _, x := range ds {
			out = append(out, &pb.Requirements_NPM_Dependencies_Dependency{Name: x.Name, Requirement: x.Req})
		}
		return out
	}
	return &pb.Requirements_NPM_Dependencies{
		Dependencies:         mk(d.Reg),
		DevDependencies:      mk(d.Dev),
		OptionalDependencies: mk(d.Opt),
		PeerDependencies:     mk(d.Peer),
		BundleDependencies:   append([]string(nil), d.Bundle...),
	}
}

func (f *fake) GetRequirements(ctx context.Context, in *pb.GetRequirementsRequest, _ ...grpc.CallOption) (*pb.Requirements, error) {
	v := f.u.ver(in.VersionKey.Name, in.VersionKey.Version)
	if v == nil || in.VersionKey.System != pb.System_NPM {
		return nil, status.Error(codes.NotFound, "not found")
	}
	out := &pb.Requirements{}
	if v.NoNpm {
		return out, nil
	}
	out.Npm = &pb.Requirements_NPM{Dependencies: pbDeps(v.D)}
	for _, b := range v.Bundled {
		out.Npm.Bundled = append(out.Npm.Bundled, &pb.Requirements_NPM_Bundle{
			Path: b.Path, Name: b.Name, Version: b.Version, Dependencies: pbDeps(b.D),
		})
	}
	return out, nil
}

// ---- canonical dumps of client results

func optHx(s string, ok bool) string {
	if !ok {
		return "~"
	}
	return fw.Hx(s)
}

func vtype(t resolve.VersionType) string {
	switch t {
	case resolve.Concrete:
		return "c"
	case resolve.Requirement:
		return "r"
	}
	return "?"
}

func dumpVK(vk resolve.VersionKey) string {
	s := fw.Hx(vk.Name) + "/" + vtype(vk.VersionType) + "/" + fw.Hx(vk.Version)
	if vk.System != resolve.NPM {
		s += "/sys"
	}
	return s
}

func dumpVersion(v resolve.Version) string {
	t, tok := v.GetAttr(version.Tags)
	g, gok := v.GetAttr(version.Registries)
	d, dok := v.GetAttr(version.DerivedFrom)
	s := dumpVK(v.VersionKey) + "/t=" + optHx(t, tok) + "/g=" + optHx(g, gok) + "/d=" + optHx(d, dok)
	// anything else in the attribute set
	var want version.AttrSet
	if tok {
		want.SetAttr(version.Tags, t)
	}
	if gok {
		want.SetAttr(version.Registries, g)
	}
	if dok {
		want.SetAttr(version.DerivedFrom, d)
	}
	if !want.Equal(v.AttrSet) {
		s += "/x"
	}
	return s
}

func b01(b bool) string {
	if b {
		return "1"
	}
	return "0"
}

func dumpReq(r resolve.RequirementVersion) string {
	sc, sok := r.Type.GetAttr(dep.Scope)
	ka, kok := r.Type.GetAttr(dep.KnownAs)
	s := dumpVK(r.VersionKey) + "/m=" + b01(r.Type.HasAttr(dep.Dev)) + b01(r.Type.HasAttr(dep.Opt)) +
		"/s=" + optHx(sc, sok) + "/k=" + optHx(ka, kok)
	var keys []dep.AttrKey
	if r.Type.HasAttr(dep.Dev) {
		keys = append(keys, dep.Dev)
	}
	if r.Type.HasAttr(dep.Opt) {
		keys = append(keys, dep.Opt)
	}
	want := dep.NewType(keys...)
	if sok {
		want.AddAttr(dep.Scope, sc)
	}
	if kok {
		want.AddAttr(dep.KnownAs, ka)
	}
	if !want.Equal(r.Type) {
		s += "/x"
	}
	return s
}

func dumpVersions(vs []resolve.Version) string {
	out := make([]string, len(vs))
	for i, v := range vs {
		out[i] = dumpVersion(v)
	}
	return "L[" + strings.Join(out, "+") + "]"
}

func dumpReqs(rs []resolve.RequirementVersion) string {
	out := make([]string, len(rs))
	for i, r := range rs {
		out[i] = dumpReq(r)
	}
	return "R[" + strings.Join(out, "+") + "]"
}

func (c call) vk() resolve.VersionKey {
	t := resolve.Concrete
	if c.Req {
		t = resolve.Requirement
	}
	return resolve.VersionKey{PackageKey: resolve.PackageKey{System: resolve.NPM, Name: c.Name}, VersionType: t, Version: c.Version}
}

// doCall performs one call on the client and returns its canonical result.
func doCall(cl resolve.Client, c call) (res string) {
	defer func() {
		if r := recover(); r != nil {
			res = "panic"
		}
	}()
	ctx := context.Background()
	switch c.Kind {
	case 'v':
		v, err := cl.Version(ctx, c.vk())
		if err != nil {
			return "err"
		}
		return "V" + dumpVersion(v)
	case 's':
		vs, err := cl.Versions(ctx, c.vk().PackageKey)
		if err != nil {
			return "err"
		}
		return dumpVersions(vs)
	case 'r':
		rs, err := cl.Requirements(ctx, c.vk())
		if err != nil {
			return "err"
		}
		return dumpReqs(rs)
	case 'm':
		vs, err := cl.MatchingVersions(ctx, c.vk())
		if err != nil {
			return "err"
		}
		return dumpVersions(vs)
	}
	return fmt.Sprintf("bad-call-%c", c.Kind)
}

func runCalls(cl resolve.Client, cs []call) string {
	out := make([]string, len(cs))
	for i, c := range cs {
		out[i] = doCall(cl, c)
	}
	return strings.Join(out, ",")
}
