package main

// Go-only probes (op lines "C18 probe ..."; the runner does not diff them
// against the Lean driver: the model has no notion of a Go map shared between
// two values).
//
//	probe stable <U>       the client interface is a function of the served data and
//	                       nothing else: what Version/Versions/Requirements/MatchingVersions
//	                       report for every version of the universe (plain and bundled) is
//	                       dumped DEEPLY (every attribute key of every dep.Type and
//	                       version.AttrSet is read through GetAttr/HasAttr: the key bitmask of
//	                       an attribute set is copied by value, the value map is shared, so
//	                       String/Compare/Equal do not show a write through a copy) before
//	                       and after the real npm resolver has resolved every root through
//	                       that same client, and on a second, fresh client.
//	probe raceresolve <U>  8 goroutines resolve every root through ONE client, in a child
//	                       process built with -race; graphs compared with a solo run.

import (
	"context"
	"crypto/sha256"
	"encoding/hex"
	"errors"
	"fmt"
	"math/rand"
	"os"
	"sort"
	"strings"
	"sync"
	"sync/atomic"
	"time"

	"deps.dev/util/resolve"
	"deps.dev/util/resolve/dep"
	"deps.dev/util/resolve/npm"
	"deps.dev/util/resolve/version"

	"verifharness/fw"
)

var flagKeys = []int{-1, -2, -4, -8, -16, -32, -64, -128}

// deepType reads everything a dep.Type lets a caller see.
func deepType(t dep.Type) string {
	var b strings.Builder
	b.WriteString("T(" + fw.Hx(t.String()) + "/reg=" + b01(t.IsRegular()) + "/f=")
	for _, k := range flagKeys {
		b.WriteString(b01(t.HasAttr(dep.AttrKey(k))))
	}
	b.WriteString("/m=")
	for k := 0; k < 64; k++ {
		v, ok := t.GetAttr(dep.AttrKey(k))
		if ok != t.HasAttr(dep.AttrKey(k)) {
			b.WriteString("!")
		}
		if ok {
			fmt.Fprintf(&b, "%d=%s;", k, fw.Hx(v))
		}
	}
	c := t.Clone()
	b.WriteString("/c=" + b01(c.Equal(t)) + b01(c.IsRegular()) + ")")
	return b.String()
}

// deepAttrs reads everything a version.AttrSet lets a caller see.
func deepAttrs(s version.AttrSet) string {
	var b strings.Builder
	b.WriteString("A(" + fw.Hx(s.String()) + "/empty=" + b01(s.Empty()) + "/f=")
	for _, k := range flagKeys {
		b.WriteString(b01(s.HasAttr(version.AttrKey(k))))
	}
	b.WriteString("/m=")
	for k := 0; k < 64; k++ {
		v, ok := s.GetAttr(version.AttrKey(k))
		if ok {
			fmt.Fprintf(&b, "%d=%s;", k, fw.Hx(v))
		}
	}
	b.WriteString("/e=")
	s.ForEachAttr(func(k version.AttrKey, v string) { fmt.Fprintf(&b, "%d=%s;", int(k), fw.Hx(v)) })
	c := s.Clone()
	b.WriteString("/c=" + b01(c.Equal(s)) + b01(c.Empty()) + ")")
	return b.String()
}

func deepVersion(v resolve.Version) string { return dumpVK(v.VersionKey) + deepAttrs(v.AttrSet) }

func deepVersions(vs []resolve.Version, err error) string {
	if err != nil {
		return "err"
	}
	out := make([]string, len(vs))
	for i, v := range vs {
		out[i] = deepVersion(v)
	}
	return "[" + strings.Join(out, "+") + "]"
}

func deepReqs(rs []resolve.RequirementVersion, err error) string {
	if err != nil {
		return "err"
	}
	out := make([]string, len(rs))
	for i, r := range rs {
		out[i] = dumpVK(r.VersionKey) + deepType(r.Type)
	}
	return "[" + strings.Join(out, "+") + "]"
}

// entry is one observation of the client interface.
type entry struct{ what, dump string }

type snapKey struct{ name, version string }

// heldReqs is a Requirements result a caller keeps.
type heldReqs struct {
	rs  []resolve.RequirementVersion
	err error
}

func npmVK(name, ver string, t resolve.VersionType) resolve.VersionKey {
	return resolve.VersionKey{PackageKey: resolve.PackageKey{System: resolve.NPM, Name: name}, VersionType: t, Version: ver}
}

// readKey performs the four calls on one (name, version).
func readKey(cl resolve.Client, k snapKey, withReqs bool) (out []entry, reqs heldReqs) {
	ctx := context.Background()
	id := fw.Hx(k.name) + "@" + fw.Hx(k.version)
	if v, err := cl.Version(ctx, npmVK(k.name, k.version, resolve.Concrete)); err != nil {
		out = append(out, entry{"Version " + id, "err"})
	} else {
		out = append(out, entry{"Version " + id, deepVersion(v)})
	}
	vs, err := cl.Versions(ctx, resolve.PackageKey{System: resolve.NPM, Name: k.name})
	out = append(out, entry{"Versions " + id, deepVersions(vs, err)})
	for _, rq := range []string{k.version, "*", "^" + k.version} {
		vs, err := cl.MatchingVersions(ctx, npmVK(k.name, rq, resolve.Requirement))
		out = append(out, entry{"MatchingVersions " + id + " " + fw.Hx(rq), deepVersions(vs, err)})
	}
	if withReqs {
		rs, err := cl.Requirements(ctx, npmVK(k.name, k.version, resolve.Concrete))
		reqs = heldReqs{rs, err}
		out = append(out, entry{"Requirements " + id, deepReqs(rs, err)})
	}
	return out, reqs
}

// prime calls Requirements on every served version (that is what makes the
// client learn the bundles) and discovers, by the client's own naming, every
// bundled key: a requirement whose name contains '>' followed transitively.
// ambiguous: two different bundlers produced one key (outside Unambiguous S:
// the store then depends on the order of calls, by design).
func prime(cl resolve.Client, u universe) (plain, bundled []snapKey, ambiguous bool) {
	ctx := context.Background()
	owner := map[snapKey]int{}
	seenPlain := map[snapKey]bool{}
	for pi, p := range u {
		for vi, v := range p.Vers {
			k := snapKey{p.Name, v.V}
			if seenPlain[k] || strings.Contains(p.Name, ">") {
				continue
			}
			seenPlain[k] = true
			plain = append(plain, k)
			me := pi*1000 + vi
			reqs, err := cl.Requirements(ctx, npmVK(p.Name, v.V, resolve.Concrete))
			if err != nil {
				continue
			}
			queue := reqs
			for steps := 0; len(queue) > 0 && steps < 400; steps++ {
				r := queue[0]
				queue = queue[1:]
				if !strings.Contains(r.Name, ">") {
					continue
				}
				bk := snapKey{r.Name, r.Version}
				if o, ok := owner[bk]; ok {
					if o != me {
						ambiguous = true
					}
					continue
				}
				owner[bk] = me
				bundled = append(bundled, bk)
				if more, err := cl.Requirements(ctx, npmVK(r.Name, r.Version, resolve.Concrete)); err == nil {
					queue = append(queue, more...)
				}
			}
			// a key is also ambiguous when only its name coincides (one stored version per name)
		}
	}
	names := map[string]int{}
	for k, o := range owner {
		if p, ok := names[k.name]; ok && p != o {
			ambiguous = true
		}
		names[k.name] = o
	}
	return plain, bundled, ambiguous
}

// snapshot reads the bundled keys FIRST and only through lookups (nothing that
// makes the client rebuild its stored bundles), then the plain keys (whose
// Requirements call rebuilds them).
func snapshot(cl resolve.Client, plain, bundled []snapKey) (out []entry, held []heldReqs) {
	for _, k := range bundled {
		es, rs := readKey(cl, k, true)
		out = append(out, es...)
		held = append(held, rs)
	}
	for _, k := range plain {
		es, rs := readKey(cl, k, true)
		out = append(out, es...)
		held = append(held, rs)
	}
	return out, held
}

func digest(es []entry) string {
	h := sha256.New()
	for _, e := range es {
		h.Write([]byte(e.what + "\x00" + e.dump + "\n"))
	}
	return hex.EncodeToString(h.Sum(nil))[:16]
}

func firstDiff(label string, a, b []entry) string {
	if len(a) != len(b) {
		return fmt.Sprintf("%s:%d-entries-vs-%d", label, len(a), len(b))
	}
	for i := range a {
		if a[i] != b[i] {
			return fmt.Sprintf("%s:%s:was:%s:now:%s", label, strings.ReplaceAll(a[i].what, " ", "_"), a[i].dump, b[i].dump)
		}
	}
	return ""
}

// probe statistics (evidence notes only)
var (
	probeRuns, probeAmbiguous, probeResolves, probeTimeouts atomic.Int64
	probeFreshBelowBundle, probeBundledKeys                  atomic.Int64
)

// resolveBounded runs the real resolver through cl; done=false if the
// goroutine had to be abandoned.
func resolveBounded(cl resolve.Client, root resolve.VersionKey, d time.Duration) (g *resolve.Graph, done bool) {
	ch := make(chan *resolve.Graph, 1)
	ctx, cancel := context.WithTimeout(context.Background(), d)
	defer cancel()
	go func() {
		defer func() {
			if r := recover(); r != nil {
				ch <- nil
			}
		}()
		g, err := npm.NewResolver(cl).Resolve(ctx, root)
		if err != nil || ctx.Err() != nil {
			if errors.Is(err, context.DeadlineExceeded) || ctx.Err() != nil {
				probeTimeouts.Add(1)
			}
			ch <- nil
			return
		}
		ch <- g
	}()
	select {
	case g := <-ch:
		return g, true
	case <-time.After(d + 2*time.Second):
		leaked.Add(1)
		return nil, false
	}
}

// freshBelowBundle counts graph edges that install a fresh node (Selector)
// as a dependency of a bundled node.
func freshBelowBundle(g *resolve.Graph) int {
	n := 0
	for _, e := range g.Edges {
		if int(e.From) < len(g.Nodes) && strings.Contains(g.Nodes[e.From].Version.Name, ">") && e.Type.HasAttr(dep.Selector) {
			n++
		}
	}
	return n
}

func probeStable(u universe) string {
	probeRuns.Add(1)
	cl := resolve.NewAPIClient(&fake{u: u})
	plain, bundled, amb := prime(cl, u)
	if amb {
		probeAmbiguous.Add(1)
		return "ok ambiguous"
	}
	probeBundledKeys.Add(int64(len(bundled)))
	pre, held := snapshot(cl, plain, bundled)
	// the plain Requirements calls of that snapshot have rebuilt the stored bundles: read
	// them again, so that heldB are the very values the client keeps now.
	preB, heldB := snapshot(cl, nil, bundled)
	diff := firstDiff("rebuilt", pre[:len(preB)], preB)

	// the real resolver, every root, through this client; the bundled keys are read again
	// (lookups only) after every resolution
	start := time.Now()
	for _, k := range plain {
		if time.Since(start) > 1500*time.Millisecond {
			break
		}
		g, done := resolveBounded(cl, npmVK(k.name, k.version, resolve.Concrete), 250*time.Millisecond)
		probeResolves.Add(1)
		if g != nil {
			probeFreshBelowBundle.Add(int64(freshBelowBundle(g)))
		}
		if diff == "" {
			nowB, _ := snapshot(cl, nil, bundled)
			diff = firstDiff("after-Resolve("+fw.Hx(k.name)+"@"+fw.Hx(k.version)+")", preB, nowB)
		}
		if !done {
			break
		}
	}

	// (a) values handed out before the resolutions, read again
	reqEntries := func(es []entry) (out []entry) {
		for _, e := range es {
			if strings.HasPrefix(e.what, "Requirements ") {
				out = append(out, e)
			}
		}
		return out
	}
	reread := func(keys []snapKey, hs []heldReqs) (out []entry) {
		for i, rs := range hs {
			out = append(out, entry{"Requirements " + fw.Hx(keys[i].name) + "@" + fw.Hx(keys[i].version), deepReqs(rs.rs, rs.err)})
		}
		return out
	}
	if diff == "" {
		diff = firstDiff("held", reqEntries(pre), reread(append(append([]snapKey(nil), bundled...), plain...), held))
	}
	if diff == "" {
		diff = firstDiff("held", reqEntries(preB), reread(bundled, heldB))
	}
	// (b) the same client asked again
	post, _ := snapshot(cl, plain, bundled)
	if diff == "" {
		diff = firstDiff("after-all", pre, post)
	}
	// (c) a second client over the same service that never resolved anything
	cl2 := resolve.NewAPIClient(&fake{u: u})
	plain2, bundled2, _ := prime(cl2, u)
	fresh, _ := snapshot(cl2, plain2, bundled2)
	if diff == "" {
		diff = firstDiff("fresh-client", fresh, post)
	}
	if diff == "" {
		diff = "-"
	}
	return fmt.Sprintf("ok pre=%s post=%s fresh=%s n=%d diff=%s", digest(pre), digest(post), digest(fresh), len(pre), diff)
}

// recheckStable: oracle `stable` on a `probe stable` op.
func recheckStable(res string) (bool, string) {
	if res == "ok ambiguous" {
		return false, ""
	}
	f := strings.Fields(res)
	if len(f) != 6 || f[0] != "ok" {
		return true, "probe stable: " + res
	}
	get := func(s, p string) string { return strings.TrimPrefix(s, p) }
	pre, post, fresh, diff := get(f[1], "pre="), get(f[2], "post="), get(f[3], "fresh="), get(f[5], "diff=")
	if pre != post || pre != fresh || diff != "-" {
		return true, "what the client reports changed by resolving through it (B5/B6: the client's answers are a function of the served data): " + diff
	}
	return false, ""
}

// ---- concurrent resolutions through one client (child process, -race build)

func resolveWorker(args []string) {
	if len(args) != 3 {
		fmt.Println("bad-args")
		os.Exit(2)
	}
	u, ok := decUniverse(args[0])
	var threads, iters int
	fmt.Sscan(args[1], &threads)
	fmt.Sscan(args[2], &iters)
	if !ok || threads < 1 || iters < 1 {
		fmt.Println("bad-args")
		os.Exit(2)
	}
	var roots []resolve.VersionKey
	seen := map[snapKey]bool{}
	for _, p := range u {
		for _, v := range p.Vers {
			if k := (snapKey{p.Name, v.V}); !seen[k] && !strings.Contains(p.Name, ">") {
				seen[k] = true
				roots = append(roots, npmVK(p.Name, v.V, resolve.Concrete))
			}
		}
	}
	const dl = 1500 * time.Millisecond
	one := func(cl resolve.Client, root resolve.VersionKey) string {
		ctx, cancel := context.WithTimeout(context.Background(), dl)
		defer cancel()
		g, err := npm.NewResolver(cl).Resolve(ctx, root)
		switch {
		case ctx.Err() != nil:
			return "timeout"
		case err != nil:
			return "err"
		}
		return canonGraph(g)
	}
	solo := make([]string, len(roots))
	for i, r := range roots {
		solo[i] = one(resolve.NewAPIClient(&fake{u: u}), r)
	}
	var mu sync.Mutex
	var diverged []string
	for it := 0; it < iters; it++ {
		cl := resolve.NewAPIClient(&fake{u: u})
		if it%2 == 0 {
			prime(cl, u) // every goroutine finds the bundles stored
		}
		var wg sync.WaitGroup
		start := make(chan struct{})
		for g := 0; g < threads; g++ {
			wg.Add(1)
			go func(g int) {
				defer wg.Done()
				<-start
				for j := range roots {
					i := (j + g) % len(roots)
					if g%2 == 1 {
						i = j
					}
					if solo[i] == "timeout" {
						continue
					}
					if got := one(cl, roots[i]); got != solo[i] && got != "timeout" {
						mu.Lock()
						if len(diverged) < 3 {
							diverged = append(diverged, fmt.Sprintf("g=%d/root=%d", g, i))
						}
						mu.Unlock()
					}
				}
			}(g)
		}
		close(start)
		wg.Wait()
	}
	if len(diverged) > 0 {
		fmt.Println("DIVERGED " + strings.Join(diverged, " "))
		return
	}
	fmt.Println("same")
}

func probeRaceResolve(uenc string) string {
	bin, berr := buildRaceBinary()
	if bin == "" {
		fmt.Fprintln(os.Stderr, berr)
		return "ok nobuild"
	}
	verdict, code := runChild(bin, []string{"resolveworker", uenc, "8", "6"})
	switch {
	case code == raceExit:
		return "ok races=1"
	case code != 0:
		return "ok crashed"
	case verdict != "same":
		return "ok diverged"
	}
	return "ok races=0"
}

// ---- directed universes: fresh installs below a bundle

// genBelowBundle builds a closed, well-formed universe in which bundled
// packages have dependencies of their own that the resolver must install fresh
// (nothing up the tree satisfies them), with valued attributes on the
// requirement types: aliases (KnownAs), bundleDependencies entries (Scope),
// optional ones (flag only: an empty but allocated map).
func genBelowBundle(r *rand.Rand) universe {
	names := subset(r, pkgNames, len(pkgNames))
	nLeaf := 2 + r.Intn(2)
	leaves := names[:nLeaf]
	nB := 1 + r.Intn(3)
	bnames := names[nLeaf : nLeaf+nB]
	rootName := names[nLeaf+nB]
	var u universe
	leafVers := map[string][]string{}
	for _, n := range leaves {
		k := 1 + r.Intn(2)
		p := pkg{Name: n}
		perm := r.Perm(3)[:k] // among 1.0.0 1.1.0 2.0.0
		latest := perm[r.Intn(k)]
		for _, vi := range perm {
			v := ver{V: verPool[vi], Default: vi == latest}
			// a leaf may depend on another leaf (installed fresh below the bundle's dependency)
			if r.Intn(3) == 0 {
				o := pick(r, leaves)
				if o != n {
					v.D.Reg = append(v.D.Reg, pdep{o, "*"})
				}
			}
			p.Vers = append(p.Vers, v)
			leafVers[n] = append(leafVers[n], v.V)
		}
		u = append(u, p)
	}
	matching := func(n string) string {
		v := pick(r, leafVers[n])
		return pick(r, []string{"*", "^" + v, v, ">=" + v, "latest"})
	}
	bundleDeps := func() deps {
		var d deps
		used := map[string]bool{}
		for k := 1 + r.Intn(3); k > 0; k-- {
			q := pick(r, leaves)
			x := pdep{q, matching(q)}
			switch r.Intn(6) {
			case 0, 1: // alias
				x = pdep{pick(r, aliasNames), "npm:" + q + "@" + matching(q)}
			}
			if used[x.Name] {
				continue
			}
			used[x.Name] = true
			switch r.Intn(6) {
			case 0:
				d.Opt = append(d.Opt, x)
			case 1:
				d.Peer = append(d.Peer, x)
			default:
				d.Reg = append(d.Reg, x)
			}
		}
		if r.Intn(3) == 0 {
			if q := pick(r, leaves); !used[q] { // Scope=bundle, resolved as a regular dependency
				d.Bundle = append(d.Bundle, q)
			}
		}
		return d
	}
	rv := ver{V: pick(r, verPool[:3]), Default: true}
	for _, bn := range bnames {
		bv := bundleVer(r)
		b := bundle{Path: "node_modules/" + bn, Name: bn, Version: bv, D: bundleDeps()}
		rv.Bundled = append(rv.Bundled, b)
		wants := []string{"*", "^" + bv, bv}
		if !isIn(bverPool, bv) {
			wants = []string{"*", "*", bv} // no caret in front of something that is no version
		}
		rv.D.Reg = append(rv.D.Reg, pdep{bn, pick(r, wants)})
		rv.D.Bundle = append(rv.D.Bundle, bn)
		if r.Intn(3) == 0 { // a nested bundle, required by its parent, with dependencies of its own
			nn := pick(r, leaves)
			nv := bundleVer(r)
			rv.Bundled = append(rv.Bundled, bundle{Path: b.Path + "/node_modules/" + nn, Name: nn, Version: nv, D: bundleDeps()})
			pb := &rv.Bundled[len(rv.Bundled)-2]
			has := false
			for _, x := range pb.D.Reg {
				has = has || x.Name == nn
			}
			if !has {
				w := "*"
				if isIn(bverPool, nv) && r.Intn(2) == 0 {
					w = "^" + nv
				}
				pb.D.Reg = append(pb.D.Reg, pdep{nn, w})
			}
		}
		// the bundled package is also served on its own (or not: exists only in the bundle)
		if r.Intn(2) == 0 {
			u = append(u, pkg{Name: bn, Vers: []ver{{V: bv, Default: true, D: deps{Reg: []pdep{{pick(r, leaves), "*"}}}}}})
		}
	}
	r.Shuffle(len(rv.Bundled), func(i, j int) { rv.Bundled[i], rv.Bundled[j] = rv.Bundled[j], rv.Bundled[i] })
	if r.Intn(2) == 0 {
		q := pick(r, leaves)
		rv.D.Reg = append(rv.D.Reg, pdep{q, matching(q)})
	}
	sort.SliceStable(rv.D.Reg, func(i, j int) bool { return rv.D.Reg[i].Name < rv.D.Reg[j].Name })
	root := pkg{Name: rootName, Vers: []ver{rv}}
	if r.Intn(3) == 0 { // a second root version without bundles requiring the same leaves
		root.Vers = append(root.Vers, ver{V: "0.1.0", D: deps{Reg: []pdep{{pick(r, leaves), "*"}}}})
	}
	u = append(u, root)
	r.Shuffle(len(u), func(i, j int) { u[i], u[j] = u[j], u[i] })
	return u
}
