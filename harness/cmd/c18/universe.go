package main

// Universe: the data an in-process fake Insights service serves, and its wire
// codec. The op-line encoding is a comma-separated token list in prefix
// notation with explicit counts (strings hex encoded with fw.Hx, "-" = empty),
// so that the Go harness and the Lean driver parse it the same way:
//
//	U      := npkg , Pkg*
//	Pkg    := name , nver , Ver*
//	Ver    := version , default(0|1) , nonpm(0|1) , nregs , reg* , Deps , nbundled , Bundle*
//	Deps   := n , (name , req)*   (dependencies)
//	          n , (name , req)*   (devDependencies)
//	          n , (name , req)*   (optionalDependencies)
//	          n , (name , req)*   (peerDependencies)
//	          n , name*           (bundleDependencies)
//	Bundle := path , name , version , Deps
//
// "nonpm" makes GetRequirements return a response whose Npm field is nil.
// Lookups take the FIRST package with a name and the FIRST version with a
// version string (duplicates are legal on the wire and shadowed).

import (
	"strconv"
	"strings"

	"verifharness/fw"
)

type pdep struct{ Name, Req string }

type deps struct {
	Reg, Dev, Opt, Peer []pdep
	Bundle              []string
}

type bundle struct {
	Path, Name, Version string
	D                   deps
}

type ver struct {
	V       string
	Default bool
	NoNpm   bool
	Regs    []string
	D       deps
	Bundled []bundle
}

type pkg struct {
	Name string
	Vers []ver
}

type universe []pkg

func (u universe) pkg(name string) *pkg {
	for i := range u {
		if u[i].Name == name {
			return &u[i]
		}
	}
	return nil
}

func (u universe) ver(name, version string) *ver {
	p := u.pkg(name)
	if p == nil {
		return nil
	}
	for i := range p.Vers {
		if p.Vers[i].V == version {
			return &p.Vers[i]
		}
	}
	return nil
}

type enc struct{ t []string }

func (e *enc) s(x string) { e.t = append(e.t, fw.Hx(x)) }
func (e *enc) n(x int)    { e.t = append(e.t, strconv.Itoa(x)) }
func (e *enc) b(x bool) {
	if x {
		e.n(1)
	} else {
		e.n(0)
	}
}

func (e *enc) deps(d deps) {
	for _, sec := range [][]pdep{d.Reg, d.Dev, d.Opt, d.Peer} {
		e.n(len(sec))
		for _, x := range sec {
			e.s(x.Name)
			e.s(x.Req)
		}
	}
	e.n(len(d.Bundle))
	for _, x := range d.Bundle {
		e.s(x)
	}
}

func (u universe) enc() string {
	e := &enc{}
	e.n(len(u))
	for _, p := range u {
		e.s(p.Name)
		e.n(len(p.Vers))
		for _, v := range p.Vers {
			e.s(v.V)
			e.b(v.Default)
			e.b(v.NoNpm)
			e.n(len(v.Regs))
			for _, r := range v.Regs {
				e.s(r)
			}
			e.deps(v.D)
			e.n(len(v.Bundled))
			for _, b := range v.Bundled {
				e.s(b.Path)
				e.s(b.Name)
				e.s(b.Version)
				e.deps(b.D)
			}
		}
	}
	return strings.Join(e.t, ",")
}

type dec struct {
	t  []string
	ok bool
}

func (d *dec) tok() string {
	if len(d.t) == 0 {
		d.ok = false
		return ""
	}
	x := d.t[0]
	d.t = d.t[1:]
	return x
}

func unhx(s string) (string, bool) {
	if s == "-" {
		return "", true
	}
	if s == "" || len(s)%2 != 0 {
		return "", false
	}
	out := make([]byte, len(s)/2)
	for i := 0; i < len(s); i += 2 {
		h, ok1 := hexv(s[i])
		l, ok2 := hexv(s[i+1])
		if !ok1 || !ok2 {
			return "", false
		}
		out[i/2] = h<<4 | l
	}
	return string(out), true
}

func hexv(c byte) (byte, bool) {
	switch {
	case '0' <= c && c <= '9':
		return c - '0', true
	case 'a' <= c && c <= 'f':
		return c - 'a' + 10, true
	}
	return 0, false
}

func (d *dec) s() string {
	x, ok := unhx(d.tok())
	if !ok {
		d.ok = false
	}
	return x
}

// n reads a canonical decimal count (no sign, no leading zeros, at most 4 digits).
func (d *dec) n() int {
	x := d.tok()
	if len(x) == 0 || len(x) > 4 || (len(x) > 1 && x[0] == '0') {
		d.ok = false
		return 0
	}
	v := 0
	for i := 0; i < len(x); i++ {
		if x[i] < '0' || x[i] > '9' {
			d.ok = false
			return 0
		}
		v = v*10 + int(x[i]-'0')
	}
	return v
}

func (d *dec) b() bool {
	switch d.tok() {
	case "0":
		return false
	case "1":
		return true
	}
	d.ok = false
	return false
}

func (d *dec) deps() deps {
	var out deps
	for _, sec := range []*[]pdep{&out.Reg, &out.Dev, &out.Opt, &out.Peer} {
		for k := d.n(); k > 0 && d.ok; k-- {
			n := d.s()
			r := d.s()
			*sec = append(*sec, pdep{n, r})
		}
	}
	for k := d.n(); k > 0 && d.ok; k-- {
		out.Bundle = append(out.Bundle, d.s())
	}
	return out
}

func decUniverse(s string) (universe, bool) {
	d := &dec{t: strings.Split(s, ","), ok: true}
	var u universe
	for k := d.n(); k > 0 && d.ok; k-- {
		p := pkg{Name: d.s()}
		for j := d.n(); j > 0 && d.ok; j-- {
			v := ver{V: d.s()}
			v.Default = d.b()
			v.NoNpm = d.b()
			for r := d.n(); r > 0 && d.ok; r-- {
				v.Regs = append(v.Regs, d.s())
			}
			v.D = d.deps()
			for b := d.n(); b > 0 && d.ok; b-- {
				x := bundle{Path: d.s()}
				x.Name = d.s()
				x.Version = d.s()
				x.D = d.deps()
				v.Bundled = append(v.Bundled, x)
			}
			p.Vers = append(p.Vers, v)
		}
		u = append(u, p)
	}
	if !d.ok || len(d.t) != 0 {
		return nil, false
	}
	return u, true
}

// call is one client call: kind v (Version), s (Versions), r (Requirements),
// m (MatchingVersions); wire form "v:<name>:<c|r>:<version>" / "s:<name>".
type call struct {
	Kind    byte
	Name    string
	Req     bool // VersionType Requirement (else Concrete)
	Version string
}

func (c call) enc() string {
	if c.Kind == 's' {
		return "s:" + fw.Hx(c.Name)
	}
	t := "c"
	if c.Req {
		t = "r"
	}
	return string(c.Kind) + ":" + fw.Hx(c.Name) + ":" + t + ":" + fw.Hx(c.Version)
}

func encCalls(cs []call) string {
	out := make([]string, len(cs))
	for i, c := range cs {
		out[i] = c.enc()
	}
	return strings.Join(out, ",")
}

func decCall(s string) (call, bool) {
	f := strings.Split(s, ":")
	if len(f) == 2 && f[0] == "s" {
		n, ok := unhx(f[1])
		return call{Kind: 's', Name: n}, ok
	}
	if len(f) != 4 || len(f[0]) != 1 || !strings.Contains("vrm", f[0]) || (f[2] != "c" && f[2] != "r") {
		return call{}, false
	}
	n, ok1 := unhx(f[1])
	v, ok2 := unhx(f[3])
	return call{Kind: f[0][0], Name: n, Req: f[2] == "r", Version: v}, ok1 && ok2
}

func decCalls(s string) ([]call, bool) {
	var out []call
	for _, x := range strings.Split(s, ",") {
		c, ok := decCall(x)
		if !ok {
			return nil, false
		}
		out = append(out, c)
	}
	return out, len(out) > 0
}

// decSegs decodes ';'-separated call segments (conc / racedet ops).
func decSegs(s string) ([][]call, bool) {
	var out [][]call
	for _, x := range strings.Split(s, ";") {
		cs, ok := decCalls(x)
		if !ok {
			return nil, false
		}
		out = append(out, cs)
	}
	return out, len(out) > 0
}

func encSegs(segs [][]call) string {
	out := make([]string, len(segs))
	for i, s := range segs {
		out[i] = encCalls(s)
	}
	return strings.Join(out, ";")
}
