package main

// Independent reading of the served data (written from the npm conventions,
// not from api.go): what requirement a package.json entry denotes, which
// packages a bundle path names, which in-memory client content the same data
// amounts to. Used by the direct oracles and by B5's LocalClient side.

import (
	"context"
	"errors"
	"fmt"
	"sort"
	"strings"
	"sync/atomic"
	"time"

	"deps.dev/util/resolve"
	"deps.dev/util/resolve/dep"
	"deps.dev/util/resolve/npm"
	"deps.dev/util/resolve/version"

	"verifharness/fw"
)

// aliasTarget: "npm:<target>" → (target, true).
func aliasTarget(req string) (string, bool) {
	if len(req) >= 4 && req[:4] == "npm:" {
		return req[4:], true
	}
	return "", false
}

// hasRange mirrors DepsDev.Model.Resolve.ApiClient.hasRange: the alias target
// carries a range, i.e. it has an '@' that is not its first byte (a leading
// '@' is the scope marker of "@scope/name").
func hasRange(target string) bool {
	return len(target) > 0 && strings.Contains(target[1:], "@")
}

// readAlias is npm's reading of an alias target: name[@range]; without a range
// the range is "*".
func readAlias(target string) (name, rng string) {
	if hasRange(target) {
		i := strings.LastIndexByte(target, '@')
		return target[:i], target[i+1:]
	}
	return target, "*"
}

// expReq is an expected requirement in the dump syntax of dumpReq.
func expReq(name, ver string, dev, opt bool, scope, knownAs string, hasScope, hasKnownAs bool) string {
	return fw.Hx(name) + "/r/" + fw.Hx(ver) + "/m=" + b01(dev) + b01(opt) + "/s=" + optHx(scope, hasScope) + "/k=" + optHx(knownAs, hasKnownAs)
}

// specFlatten lists the requirements the dependency sections denote (dump
// syntax, unordered). norange reports an alias target without a range.
func specFlatten(d deps) (out []string, norange bool) {
	add := func(sec []pdep, dev, opt bool, scope string) {
		for _, x := range sec {
			if t, ok := aliasTarget(x.Req); ok {
				if !hasRange(t) {
					norange = true
				}
				n, r := readAlias(t)
				out = append(out, expReq(n, r, dev, opt, scope, x.Name, scope != "", true))
				continue
			}
			out = append(out, expReq(x.Name, x.Req, dev, opt, scope, "", scope != "", false))
		}
	}
	add(d.Reg, false, false, "")
	add(d.Dev, true, false, "")
	add(d.Opt, false, true, "")
	add(d.Peer, false, false, "peer")
	for _, n := range d.Bundle {
		out = append(out, expReq(n, "*", false, false, "bundle", "", true, false))
	}
	return out, norange
}

// pathPkgs reads an installation path "node_modules/a/node_modules/@s/c" as the
// package names on it; ok=false for a path that is not of that form.
func pathPkgs(path string) (names []string, ok bool) {
	seg := strings.Split(path, "/")
	for i := 0; i < len(seg); {
		if seg[i] != "node_modules" || i+1 >= len(seg) {
			return nil, false
		}
		i++
		n := seg[i]
		i++
		if strings.HasPrefix(n, "@") {
			if i >= len(seg) {
				return nil, false
			}
			n += "/" + seg[i]
			i++
		}
		if n == "" || n == "node_modules" || strings.Contains(n, ">") {
			return nil, false
		}
		names = append(names, n)
	}
	return names, len(names) > 0
}

// specBundle is what a bundle entry of a response amounts to.
type specBundle struct {
	Key       string // the name under which the clients know it
	ParentKey string // "" = the bundling version itself
	B         *bundle
	Children  []*specBundle
}

// specBundles reads the bundle tree of one version; ok=false when the response
// is outside the well-formed domain (unreadable path, two entries at one path,
// an entry whose parent directory is not listed, '>' in the root key).
func specBundles(root string, v *ver) (all []*specBundle, top []*specBundle, ok bool) {
	if strings.Contains(root, ">") || strings.Contains(v.V, ">") {
		return nil, nil, false
	}
	byKey := map[string]*specBundle{}
	for i := range v.Bundled {
		b := &v.Bundled[i]
		names, ok := pathPkgs(b.Path)
		if !ok {
			return nil, nil, false
		}
		key := root + ">" + v.V + ">" + strings.Join(names, ">")
		if byKey[key] != nil {
			return nil, nil, false
		}
		sb := &specBundle{Key: key, B: b}
		if len(names) > 1 {
			sb.ParentKey = root + ">" + v.V + ">" + strings.Join(names[:len(names)-1], ">")
		}
		byKey[key] = sb
		all = append(all, sb)
	}
	for _, sb := range all {
		if sb.ParentKey == "" {
			top = append(top, sb)
			continue
		}
		p := byKey[sb.ParentKey]
		if p == nil {
			return nil, nil, false
		}
		p.Children = append(p.Children, sb)
	}
	return all, top, true
}

func bundleReqDump(sb *specBundle) string {
	return expReq(sb.Key, sb.B.Version, false, false, "", "", false, false)
}

func bundleVersionDump(sb *specBundle) string {
	return fw.Hx(sb.Key) + "/c/" + fw.Hx(sb.B.Version) + "/t=~/g=~/d=" + fw.Hx(sb.B.Name)
}

// ---- LocalClient holding the same data (B5)

func toType(dev, opt bool, scope, knownAs string, hasKnownAs bool) dep.Type {
	var ks []dep.AttrKey
	if dev {
		ks = append(ks, dep.Dev)
	}
	if opt {
		ks = append(ks, dep.Opt)
	}
	t := dep.NewType(ks...)
	if scope != "" {
		t.AddAttr(dep.Scope, scope)
	}
	if hasKnownAs {
		t.AddAttr(dep.KnownAs, knownAs)
	}
	return t
}

func reqVK(name, ver string) resolve.VersionKey {
	return resolve.VersionKey{PackageKey: resolve.PackageKey{System: resolve.NPM, Name: name}, VersionType: resolve.Requirement, Version: ver}
}

func localReqs(d deps) []resolve.RequirementVersion {
	var out []resolve.RequirementVersion
	add := func(sec []pdep, dev, opt bool, scope string) {
		for _, x := range sec {
			if t, ok := aliasTarget(x.Req); ok {
				n, r := readAlias(t)
				out = append(out, resolve.RequirementVersion{VersionKey: reqVK(n, r), Type: toType(dev, opt, scope, x.Name, true)})
				continue
			}
			out = append(out, resolve.RequirementVersion{VersionKey: reqVK(x.Name, x.Req), Type: toType(dev, opt, scope, "", false)})
		}
	}
	add(d.Reg, false, false, "")
	add(d.Dev, true, false, "")
	add(d.Opt, false, true, "")
	add(d.Peer, false, false, "peer")
	for _, n := range d.Bundle {
		out = append(out, resolve.RequirementVersion{VersionKey: reqVK(n, "*"), Type: toType(false, false, "bundle", "", false)})
	}
	return out
}

// loadLocal fills a LocalClient with the universe; ok=false when some response
// is outside the well-formed domain.
func loadLocal(u universe) (*resolve.LocalClient, bool) {
	lc := resolve.NewLocalClient()
	seen := map[string]bool{}
	for pi := range u {
		p := &u[pi]
		if seen[p.Name] {
			return nil, false
		}
		seen[p.Name] = true
		seenV := map[string]bool{}
		for vi := range p.Vers {
			v := &p.Vers[vi]
			if seenV[v.V] || v.NoNpm {
				return nil, false
			}
			seenV[v.V] = true
			all, top, ok := specBundles(p.Name, v)
			if !ok {
				return nil, false
			}
			rv := resolve.Version{VersionKey: resolve.VersionKey{PackageKey: resolve.PackageKey{System: resolve.NPM, Name: p.Name}, VersionType: resolve.Concrete, Version: v.V}}
			if v.Default {
				rv.SetAttr(version.Tags, "latest")
			}
			reqs := localReqs(v.D)
			for _, sb := range top {
				reqs = append(reqs, resolve.RequirementVersion{VersionKey: reqVK(sb.Key, sb.B.Version), Type: dep.NewType()})
			}
			lc.AddVersion(rv, reqs)
			for _, sb := range all {
				bv := resolve.Version{VersionKey: resolve.VersionKey{PackageKey: resolve.PackageKey{System: resolve.NPM, Name: sb.Key}, VersionType: resolve.Concrete, Version: sb.B.Version}}
				bv.SetAttr(version.DerivedFrom, sb.B.Name)
				br := localReqs(sb.B.D)
				for _, c := range sb.Children {
					br = append(br, resolve.RequirementVersion{VersionKey: reqVK(c.Key, c.B.Version), Type: dep.NewType()})
				}
				lc.AddVersion(bv, br)
			}
		}
	}
	return lc, true
}

// ---- resolution and canonical graphs

func canonGraph(g *resolve.Graph) string {
	g.Duration = 0
	c := "C"
	if err := g.Canon(); err != nil {
		c = "U" // not canonicalisable: numbering as produced
	}
	var b strings.Builder
	fmt.Fprintf(&b, "%s E=%s N=", c, fw.Hx(g.Error))
	for i, n := range g.Nodes {
		var es []string
		for _, e := range n.Errors {
			es = append(es, dumpVK(e.Req)+"!"+fw.Hx(e.Error))
		}
		sort.Strings(es)
		fmt.Fprintf(&b, "%d:%s[%s];", i, dumpVK(n.Version), strings.Join(es, "+"))
	}
	var ed []string
	for _, e := range g.Edges {
		ed = append(ed, fmt.Sprintf("%d>%d:%s:%s", e.From, e.To, fw.Hx(e.Requirement), fw.Hx(e.Type.String())))
	}
	sort.Strings(ed)
	b.WriteString(" D=" + strings.Join(ed, ";"))
	return b.String()
}

var leaked atomic.Int32

// outcome tallies of B5 comparisons (evidence notes only)
var b5Same, b5BothTimeout, b5BothErr, b5Differ, b5Skipped atomic.Int64

// resolveWith runs the real npm resolver under a deadline.
func resolveWith(cl resolve.Client, root resolve.VersionKey, d time.Duration) string {
	type out struct{ s string }
	ch := make(chan out, 1)
	ctx, cancel := context.WithTimeout(context.Background(), d)
	defer cancel()
	go func() {
		defer func() {
			if r := recover(); r != nil {
				ch <- out{"panic"}
			}
		}()
		g, err := npm.NewResolver(cl).Resolve(ctx, root)
		switch {
		case ctx.Err() != nil || errors.Is(err, context.DeadlineExceeded) || errors.Is(err, context.Canceled):
			ch <- out{"timeout"}
		case err != nil:
			ch <- out{"err"}
		default:
			ch <- out{"ok " + canonGraph(g)}
		}
	}()
	select {
	case o := <-ch:
		return o.s
	case <-time.After(d + 8*time.Second):
		leaked.Add(1) // the resolver ignored its context; the goroutine is abandoned
		return "timeout"
	}
}

// compareResolutions is B5's oracle: the real resolver over a fresh APIClient
// and over a LocalClient holding the same data. applicable=false when the
// universe is outside the domain of the independent reading.
func compareResolutions(u universe, rootName, rootVer string) (applicable, same bool, api, local string) {
	lc, ok := loadLocal(u)
	if !ok {
		b5Skipped.Add(1)
		return false, true, "", ""
	}
	root := resolve.VersionKey{PackageKey: resolve.PackageKey{System: resolve.NPM, Name: rootName}, VersionType: resolve.Concrete, Version: rootVer}
	run := func(d time.Duration) (string, string) {
		a := resolveWith(resolve.NewAPIClient(&fake{u: u}), root, d)
		l := resolveWith(lc, root, d)
		return a, l
	}
	api, local = run(1500 * time.Millisecond)
	if (api == "timeout") != (local == "timeout") {
		// one side hit the deadline: machine load or a genuine one-sided hang; retry longer.
		lc, _ = loadLocal(u)
		api, local = run(6 * time.Second)
	}
	switch {
	case api != local:
		b5Differ.Add(1)
	case api == "timeout":
		b5BothTimeout.Add(1)
	case api == "err":
		b5BothErr.Add(1)
	default:
		b5Same.Add(1)
	}
	return true, api == local, api, local
}
