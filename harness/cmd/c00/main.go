// c00 is a self-test of the framework (echo op), not a property.
package main

import "verifharness/fw"

func main() {
	fw.Main(&fw.Prop{
		ID:   "C00",
		Rule: "echo self-test",
		Exec: func(f []string) string { return "ok " + fw.Hx(fw.Unhx(f[1])) },
		Run: func(c *fw.Ctx) {
			for i := 0; i < 10; i++ {
				c.Opf("C00 echo %s", fw.Hx(string(rune('a'+i))))
			}
		},
		Recheck: func(o string, ops, res []string) (bool, string) { return false, "" },
	})
}
