package main

import (
	"fmt"
	"math/rand"
	"sort"
	"strings"
	"sync"

	"verifharness/fw"
)

func hx(s string) string { return fw.Hx(s) }

var versionPool = []string{"0.9", "1.0", "1.0.0", "1.1", "1.5.post1", "2.0a1", "2.0rc1", "2.0", "2.1.dev1", "2.1", "3.0b2", "3.0", "1!0.1", "2.0.0", "bogus"}
var versionWeights = []int{3, 6, 1, 5, 1, 2, 3, 6, 2, 4, 2, 5, 1, 1, 1}
var boundPool = []string{"0.9", "1.0", "1.1", "2.0a1", "2.0rc1", "2.0", "2.1.dev1", "2.1", "3.0b2", "3.0", "1.5.post1"}
var namePool = []string{"a", "b", "c", "d", "e", "f", "g", "h", "i", "k", "setuptools", "Setuptools", "z"}
var extraPool = []string{"x", "y", "X"}

func wpick(r *rand.Rand, w []int) int {
	t := 0
	for _, x := range w {
		t += x
	}
	k := r.Intn(t)
	for i, x := range w {
		if k < x {
			return i
		}
		k -= x
	}
	return 0
}

func pick(r *rand.Rand, xs ...string) string { return xs[r.Intn(len(xs))] }

// friendlySpec is satisfiable by most of the target's versions.
func friendlySpec(r *rand.Rand, target []ver) string {
	if len(target) == 0 {
		return ""
	}
	v := target[r.Intn(len(target))].V
	lo, hi := target[0].V, target[len(target)-1].V
	switch r.Intn(10) {
	case 0, 1, 2:
		return ""
	case 3, 4:
		return ">=" + lo
	case 5:
		return "<=" + hi
	case 6:
		return "!=" + v
	case 7:
		return ">=" + v
	case 8:
		return "<=" + v
	default:
		return ">=" + lo + ",<=" + hi
	}
}

func genSpec(r *rand.Rand, target []ver) string {
	one := func() string {
		b := boundPool[r.Intn(len(boundPool))]
		if len(target) > 0 && r.Intn(5) != 0 {
			b = target[r.Intn(len(target))].V
		}
		switch r.Intn(12) {
		case 0, 1:
			return ">=" + b
		case 2, 5:
			return "<=" + b
		case 3:
			return "<" + b
		case 4:
			return ">" + b
		case 6:
			return "==" + b
		case 7:
			return "!=" + b
		case 8:
			return "~=" + b
		case 9:
			return "===" + b
		case 10:
			return pick(r, "==1.*", "==2.*", "!=2.*", "==2.0.*")
		default:
			return pick(r, ">= "+b, "== "+b, "<"+b+" ")
		}
	}
	switch k := r.Intn(24); {
	case k < 8:
		return ""
	case k < 18:
		return one()
	case k < 22:
		return one() + "," + one()
	case k < 23:
		return pick(r, ">=1.0,<3.0,!=2.0", ">=2.0.dev0", ">=2.0rc1", "<2.0rc1", "<=2.0a1", ">=1.0,<2.0")
	default:
		return pick(r, "bogus", "=>1.0", ">=", "1.0", "^1.0")
	}
}

func genMarker(r *rand.Rand, depth int) string {
	atom := func() string {
		switch r.Intn(12) {
		case 0:
			return `python_version >= "3.6"`
		case 1:
			return `python_version < "3"`
		case 2:
			return `sys_platform == "linux"`
		case 3:
			return `sys_platform == "win32"`
		case 4:
			return `os_name == "posix"`
		case 5:
			return `os_name != "nt"`
		case 6, 7, 8:
			return `extra == "` + extraPool[r.Intn(len(extraPool))] + `"`
		case 9:
			return `"` + extraPool[r.Intn(2)] + `" == extra`
		case 10:
			return `python_version ` + pick(r, "<=", ">", "==", "!=", "~=") + ` "` + pick(r, "3.9", "3.10", "2.7") + `"`
		default:
			return `os_name ` + pick(r, "in", "not in") + ` "posix nt"`
		}
	}
	if depth >= 2 || r.Intn(3) != 0 {
		return atom()
	}
	l, rr := genMarker(r, depth+1), genMarker(r, depth+1)
	s := l + " " + pick(r, "and", "or") + " " + rr
	if r.Intn(2) == 0 {
		s = "(" + s + ")"
	}
	return s
}

type genOpts struct {
	friendly               bool
	route, late            bool
	leak, holes            bool
	nPkg, maxVers, maxReqs int
	markers, extras        int // percent of requirements
	gadget                 bool
	malformed              bool
}

func genUniverse(r *rand.Rand, o genOpts) *uni {
	u := &uni{}
	perm := r.Perm(len(namePool))
	// keep setuptools rarer
	var names []string
	for _, i := range perm {
		n := namePool[i]
		if strings.EqualFold(n, "setuptools") && r.Intn(3) != 0 {
			continue
		}
		names = append(names, n)
		if len(names) == o.nPkg {
			break
		}
	}
	for _, n := range names {
		p := pkg{Name: n}
		k := 1 + r.Intn(o.maxVers)
		used := map[string]bool{}
		for len(p.Vers) < k {
			v := versionPool[wpick(r, versionWeights)]
			if (v == "bogus" || v == "1!0.1") && !o.malformed {
				continue
			}
			if used[v] {
				continue
			}
			used[v] = true
			p.Vers = append(p.Vers, ver{V: v})
		}
		u.Pkgs = append(u.Pkgs, p)
	}
	// a package that is required but has no versions at all, sometimes
	if r.Intn(12) == 0 {
		names = append(names, "ghost")
	}
	// per package: does the package use extras-dependent requirements?
	for i := range u.Pkgs {
		p := &u.Pkgs[i]
		for j := range p.Vers {
			v := &p.Vers[j]
			nr := 1 + r.Intn(o.maxReqs)
			if r.Intn(4) == 0 {
				nr = 0
			}
			used := map[string]bool{}
			for k := 0; k < nr; k++ {
				q := names[r.Intn(len(names))]
				if used[q] {
					continue
				}
				used[q] = true
				var target []ver
				if tp := u.find(q); tp != nil {
					target = tp.Vers
				}
				d := req{Pkg: q, Spec: genSpec(r, target)}
				if o.friendly && r.Intn(6) != 0 {
					d.Spec = friendlySpec(r, target)
				}
				if !o.malformed {
					for strings.Contains("bogus =>1.0 >= 1.0 ^1.0", d.Spec) && d.Spec != "" {
						d.Spec = genSpec(r, target)
					}
				}
				if r.Intn(100) < o.markers {
					d.HasEnv = true
					d.Env = genMarker(r, 0)
					if o.malformed && r.Intn(25) == 0 {
						d.Env = pick(r, `python_version >`, `extra = "x"`, `os_name ~= "posix"`, ``, `os_name == "posix" or os_name ~= "a"`)
					}
				}
				if r.Intn(100) < o.extras {
					d.HasEx = true
					d.Ex = pick(r, "x", "y", "x,y", "X", "x")
				}
				v.Reqs = append(v.Reqs, d)
			}
		}
	}
	if o.gadget && len(u.Pkgs) >= 3 {
		// conflict gadget: the newest versions of two packages pin a third one to
		// incompatible versions, older versions are compatible
		i, j, k := r.Intn(len(u.Pkgs)), r.Intn(len(u.Pkgs)), r.Intn(len(u.Pkgs))
		if i != j && j != k && i != k && len(u.Pkgs[k].Vers) >= 2 {
			c := u.Pkgs[k]
			set := func(p *pkg, vi int, spec string) {
				v := &p.Vers[vi]
				for x := range v.Reqs {
					if v.Reqs[x].Pkg == c.Name {
						v.Reqs[x].Spec = spec
						return
					}
				}
				v.Reqs = append(v.Reqs, req{Pkg: c.Name, Spec: spec})
			}
			for vi := range u.Pkgs[i].Vers {
				set(&u.Pkgs[i], vi, "=="+c.Vers[r.Intn(len(c.Vers))].V)
			}
			for vi := range u.Pkgs[j].Vers {
				set(&u.Pkgs[j], vi, pick(r, "==", ">=", "<", "!=")+c.Vers[r.Intn(len(c.Vers))].V)
			}
		}
	}
	// anchor for the gadgets: some version of a random package
	anchor := func() *ver {
		p := &u.Pkgs[r.Intn(len(u.Pkgs))]
		return &p.Vers[r.Intn(len(p.Vers))]
	}
	if o.route {
		// F-C08-route shape: rb@2 -> rx, rx -> ry, ry -> rx and ry -> rb<2, rb@1 -> rx
		a := anchor()
		a.Reqs = append(a.Reqs, req{Pkg: "rb"})
		u.Pkgs = append(u.Pkgs,
			pkg{Name: "rb", Vers: []ver{{V: "1.0", Reqs: []req{{Pkg: "rx"}}}, {V: "2.0", Reqs: []req{{Pkg: "rx"}}}}},
			pkg{Name: "rx", Vers: []ver{{V: "1.0", Reqs: []req{{Pkg: "ry"}}}}},
			pkg{Name: "ry", Vers: []ver{{V: "1.0", Reqs: []req{{Pkg: "rx"}, {Pkg: "rb", Spec: pick(r, "<2.0", "==1.0", "!=2.0")}}}}})
	}
	if o.leak {
		addLeakGadget(r, u)
	}
	if o.holes {
		addHolesGadget(r, u)
	}
	if o.late {
		// F-C08-extras shape: la is pinned without extras, then lb asks for la[x]
		a := anchor()
		a.Reqs = append(a.Reqs, req{Pkg: "la"}, req{Pkg: "lb"})
		u.Pkgs = append(u.Pkgs,
			pkg{Name: "la", Vers: []ver{{V: "1.0", Reqs: []req{{Pkg: "lc", HasEnv: true, Env: `extra == "x"`}}}}},
			pkg{Name: "lb", Vers: []ver{{V: "1.0", Reqs: []req{{Pkg: "la", HasEx: true, Ex: "x"}}}}},
			pkg{Name: "lc", Vers: []ver{{V: "1.0"}}})
	}
	u.normalise()
	return u
}

// addLeakGadget grafts the "extras of a rejected candidate" shape: the root qroot asks
// for qa and for qx[e1]; newer versions of qa ask for qx[e2] (which merges fine) and
// are then rejected -- while being tried (a later requirement has no candidate or
// conflicts with a pin) or one/two pins later (backtracking discards the states) --
// so that an older qa is selected. qx guards qz by extra == e2 and qw by extra == e1:
// nothing selected requests qx[e2], so qz must not appear. Only snapshots that are
// really immutable keep e2 out of qx's live criterion.
func addLeakGadget(r *rand.Rand, u *uni) {
	exs := [][2]string{{"bar", "foo"}, {"x", "y"}, {"y", "X"}, {"foo", "x"}}[r.Intn(4)]
	e1, e2 := exs[0], exs[1]
	marker := func(e string) string {
		return pick(r, `extra == "`+e+`"`, `"`+e+`" == extra`, `extra == "`+e+`" and os_name == "posix"`, `extra == '`+e+`'`)
	}
	nA := 2 + r.Intn(3) // versions of qa; the newest nBad are rejected
	nBad := 1 + r.Intn(nA-1)
	mode := r.Intn(4)                          // 0 missing version, 1 conflicting pin, 2 one level of backtracking, 3 two levels
	xSpec := pick(r, "", "", ">=1.0", "==1.0") // changes whether qx is pinned before qa
	rootReqs := []req{{Pkg: "qa"}, {Pkg: "qx", Spec: xSpec, HasEx: true, Ex: e1}}
	if mode == 1 {
		rootReqs = append(rootReqs, req{Pkg: "qy", Spec: "==1.0"})
	}
	if r.Intn(2) == 0 {
		rootReqs[0], rootReqs[1] = rootReqs[1], rootReqs[0]
	}
	if len(u.Pkgs) > 0 && r.Intn(2) == 0 {
		p := u.Pkgs[r.Intn(len(u.Pkgs))]
		rootReqs = append(rootReqs, req{Pkg: p.Name})
	}
	qa := pkg{Name: "qa"}
	for i := 0; i < nA; i++ {
		v := ver{V: fmt.Sprintf("%d.0", i+1)}
		if i >= nA-nBad {
			leak := req{Pkg: "qx", HasEx: true, Ex: pick(r, e2, e2, e2+","+e1)}
			var bad req
			switch mode {
			case 0:
				bad = req{Pkg: "qy", Spec: "==9.0"}
			case 1:
				bad = req{Pkg: "qy", Spec: pick(r, "==2.0", ">1.0")}
			default:
				bad = req{Pkg: "qb"}
			}
			v.Reqs = []req{leak, bad}
			if r.Intn(3) == 0 {
				v.Reqs = []req{leak, {Pkg: "qw"}, bad}
			}
		} else if r.Intn(3) == 0 {
			v.Reqs = []req{{Pkg: "qw"}}
		}
		qa.Vers = append(qa.Vers, v)
	}
	qx := pkg{Name: "qx", Vers: []ver{{V: "1.0", Reqs: []req{
		{Pkg: "qz", HasEnv: true, Env: marker(e2)},
		{Pkg: "qw", HasEnv: true, Env: marker(e1)},
	}}}}
	if r.Intn(3) == 0 {
		qx.Vers = append(qx.Vers, ver{V: "0.5", Reqs: []req{{Pkg: "qz", HasEnv: true, Env: marker(e2)}}})
	}
	u.Pkgs = append(u.Pkgs,
		pkg{Name: "qroot", Vers: []ver{{V: "1.0", Reqs: rootReqs}}}, qa, qx,
		pkg{Name: "qy", Vers: []ver{{V: "1.0"}, {V: "2.0"}}},
		pkg{Name: "qz", Vers: []ver{{V: "1.0"}}},
		pkg{Name: "qw", Vers: []ver{{V: "1.0"}}})
	switch mode {
	case 2:
		// qb is pinned after the bad qa and has no workable version
		u.Pkgs = append(u.Pkgs, pkg{Name: "qb", Vers: []ver{{V: "1.0", Reqs: []req{{Pkg: "qy", Spec: "==9.0"}}}}})
	case 3:
		// qb pins fine, its dependency qc cannot: two states are discarded
		u.Pkgs = append(u.Pkgs,
			pkg{Name: "qb", Vers: []ver{{V: "1.0", Reqs: []req{{Pkg: "qc"}}}}},
			pkg{Name: "qc", Vers: []ver{{V: "1.0", Reqs: []req{{Pkg: "qy", Spec: "==9.0"}}}, {V: "2.0", Reqs: []req{{Pkg: "qa", Spec: "<1.0"}}}}})
	}
}

// holeSpec draws a specifier on hp whose match set has interior gaps: an optional
// range (>=lo / <=hi / <next / >prev) combined with one or two `!=v` / `!=k.*` holes.
func holeSpec(r *rand.Rand, vs []string, a, b int) string {
	var parts []string
	switch r.Intn(4) {
	case 0:
		parts = append(parts, ">="+vs[a])
	case 1:
		if a > 0 {
			parts = append(parts, ">"+vs[a-1])
		}
	}
	switch r.Intn(4) {
	case 0:
		parts = append(parts, "<="+vs[b])
	case 1:
		if b+1 < len(vs) {
			parts = append(parts, "<"+vs[b+1])
		}
	}
	for k := 1 + r.Intn(2); k > 0; k-- {
		h := vs[a+1+r.Intn(b-a-1)]
		if r.Intn(4) == 0 {
			parts = append(parts, "!="+h[:strings.Index(h, ".")]+".*")
		} else {
			parts = append(parts, "!="+h)
		}
	}
	r.Shuffle(len(parts), func(i, j int) { parts[i], parts[j] = parts[j], parts[i] })
	return strings.Join(parts, ",")
}

// addHolesGadget grafts the "equal ends, different interiors" shape: one package hp
// with 3-7 versions, two or three dependents hd1..hd3 whose specifiers on hp match
// lists of EQUAL LENGTH with EQUAL FIRST AND LAST element but different interiors
// (found by rejection sampling against the real Client.MatchingVersions), and the
// newest one or two commonly matched versions of hp made uninstallable (missing
// version of hq, or a pin of hq conflicting with the root's), so that the resolver
// walks down through the holes. Only a real intersection keeps a version excluded
// by the second or third requirement out of the candidates.
func addHolesGadget(r *rand.Rand, u *uni) {
	pool := []string{"1.0", "1.5", "2.0", "2.1", "3.0", "3.0rc1", "4.0", "4.1", "5.0", "6.0"}
	n := 4 + r.Intn(4)
	idx := r.Perm(len(pool))[:n]
	hp := pkg{Name: "hp"}
	for _, i := range idx {
		hp.Vers = append(hp.Vers, ver{V: pool[i]})
	}
	tmp := &uni{Pkgs: []pkg{hp}}
	tmp.normalise()
	hp = tmp.Pkgs[0]
	var vs []string
	for _, v := range hp.Vers {
		vs = append(vs, v.V)
	}
	nDep := 2 + r.Intn(2)
	lc := tmp.client()
	var specs []string
	var lists [][]string
	found := false
	for try := 0; try < 200 && !found; try++ {
		a := r.Intn(len(vs) - 3)
		b := a + 3 + r.Intn(len(vs)-a-3)
		specs, lists = nil, nil
		for d := 0; d < nDep; d++ {
			sp := holeSpec(r, vs, a, b)
			specs = append(specs, sp)
			lists = append(lists, matchRow(lc, "hp", sp).N)
		}
		found = true
		for d := 1; d < nDep; d++ {
			x, y := lists[0], lists[d]
			if len(x) < 3 || len(x) != len(y) || x[0] != y[0] || x[len(x)-1] != y[len(y)-1] || strings.Join(x, ",") == strings.Join(y, ",") {
				found = false
			}
		}
	}
	if !found {
		return
	}
	// the newest one or two versions matched by the first dependent cannot be installed
	top := lists[0]
	mode := r.Intn(2) // 0 missing version of hq, 1 conflicting pin
	nBad := 1 + r.Intn(2)
	for k := 0; k < nBad && k < len(top)-1; k++ {
		v := hp.find(top[len(top)-1-k])
		if mode == 0 {
			v.Reqs = append(v.Reqs, req{Pkg: "hq", Spec: "==9.0"})
		} else {
			v.Reqs = append(v.Reqs, req{Pkg: "hq", Spec: pick(r, "==2.0", ">1.0")})
		}
	}
	var rootReqs []req
	var deps []pkg
	for d := 0; d < nDep; d++ {
		name := fmt.Sprintf("hd%d", d+1)
		if d == 0 && r.Intn(3) == 0 {
			// the root itself is the first dependent
			rootReqs = append(rootReqs, req{Pkg: "hp", Spec: specs[d]})
			continue
		}
		rootReqs = append(rootReqs, req{Pkg: name, Spec: pick(r, "", "", ">=1.0")})
		deps = append(deps, pkg{Name: name, Vers: []ver{{V: "1.0", Reqs: []req{{Pkg: "hp", Spec: specs[d]}}}}})
	}
	if mode == 1 {
		rootReqs = append(rootReqs, req{Pkg: "hq", Spec: "==1.0"})
	}
	r.Shuffle(len(rootReqs), func(i, j int) { rootReqs[i], rootReqs[j] = rootReqs[j], rootReqs[i] })
	if len(u.Pkgs) > 0 && r.Intn(2) == 0 {
		// reachable from another root as well
		p := &u.Pkgs[r.Intn(len(u.Pkgs))]
		v := &p.Vers[r.Intn(len(p.Vers))]
		v.Reqs = append(v.Reqs, req{Pkg: "hroot"})
	}
	u.Pkgs = append(u.Pkgs, pkg{Name: "hroot", Vers: []ver{{V: "1.0", Reqs: rootReqs}}}, hp,
		pkg{Name: "hq", Vers: []ver{{V: "1.0"}, {V: "2.0"}}})
	u.Pkgs = append(u.Pkgs, deps...)
}

// tiny small-scope universes: every assignment over a tiny alphabet, enumerated by index.
func smallUniverse(idx int) *uni {
	specs := []string{"", "==1.0", ">=2.0rc1", "<2.0", "!=2.0"}
	vers := [][]string{{"1.0"}, {"1.0", "2.0"}, {"1.0", "2.0rc1"}}
	take := func(n int) int { k := idx % n; idx /= n; return k }
	u := &uni{}
	names := []string{"a", "b", "c"}
	for _, n := range names {
		p := pkg{Name: n}
		for _, v := range vers[take(len(vers))] {
			p.Vers = append(p.Vers, ver{V: v})
		}
		u.Pkgs = append(u.Pkgs, p)
	}
	// each version of a requires b (spec), each version of b requires c (spec), newest c requires a
	for i := range u.Pkgs[0].Vers {
		u.Pkgs[0].Vers[i].Reqs = append(u.Pkgs[0].Vers[i].Reqs, req{Pkg: "b", Spec: specs[take(len(specs))]}, req{Pkg: "c", Spec: specs[take(len(specs))]})
	}
	for i := range u.Pkgs[1].Vers {
		u.Pkgs[1].Vers[i].Reqs = append(u.Pkgs[1].Vers[i].Reqs, req{Pkg: "c", Spec: specs[take(len(specs))]})
	}
	last := len(u.Pkgs[2].Vers) - 1
	u.Pkgs[2].Vers[last].Reqs = append(u.Pkgs[2].Vers[last].Reqs, req{Pkg: "a", Spec: specs[take(len(specs))]})
	u.normalise()
	return u
}

const modelRoundCap = 3000

type job struct {
	u     *uni
	roots [][2]string
	tag   string
}

// emit resolves one (universe, root): ops whose real resolution hits the deadline are
// not emitted (the model has no clock); they are counted.
func emit(c *fw.Ctx, u *uni, rn, rv, tag string) {
	if u.tooWide() {
		c.Count("skipped.too-many-extras")
		return
	}
	// The model has no clock. Universes on which the MODEL needs many rounds are not
	// emitted (the real code may legitimately hit the deadline there); everything
	// else is, so a real-code hang on a universe the model finishes quickly shows
	// up as `timeout` vs the model's result.
	so := runSimCapped(u, rn, rv, modelRoundCap)
	if so.rounds >= modelRoundCap {
		c.Count("skipped.model-needs-many-rounds")
		return
	}
	line := u.line("resolve", rn, rv)
	i, res := c.Op(line)
	c.Count("stream." + tag)
	switch {
	case res == "err" || res == "timeout" || res == "panic" || res == "bad-op":
		c.Count("result." + res)
	case res == "ok gerr=1":
		c.Count("result.graph-error")
	default:
		c.Count("result.graph")
	}
	if res == "timeout" {
		c.Check("T", i)
	} else {
		c.Tally(1)
	}
	cd, ok := loadCase(line, res)
	if !ok {
		c.Check("P1", i) // records "undecodable op line"
		return
	}
	// the classifier's correspondence op (model logs the same flags)
	_, cres := c.Op(u.line("classify", rn, rv))
	if strings.Contains(cres, "late=1") {
		c.Count("hyp.late-extras")
	}
	if strings.Contains(cres, "route=1") {
		c.Count("hyp.route-not-closed")
	}
	if so.result != res {
		c.Count("sim.disagrees-with-go")
		c.Note("Go port of the model disagrees with the real code on: " + line)
	}
	if cd.g == nil {
		return
	}
	if !cd.u.u4() {
		c.Count("universe.not-U4")
	}
	if len(cd.g.nodes) >= 3 {
		c.Nontrivial(res)
	}
	c.Count(fmt.Sprintf("nodes.%02d", min(len(cd.g.nodes), 12)))
	if so.backtracks == 0 {
		c.Count("run.no-backtrack")
	} else {
		c.Count("run.backtracked")
	}
	if strings.Contains(cres, "stale=1") {
		c.Count("hyp.stale-information")
	}
	if so.late || so.route || so.stale {
		c.Count("run.outside-partial-hypotheses")
	} else {
		c.Count("run.inside-partial-hypotheses")
	}
	for _, o := range oracles {
		if cd.verdict(o) != "" {
			if classify(o, []string{line}, []string{res}) == "" {
				// an unexplained failure: report the shrunk universe first
				su := shrinkUniverse(u, rn, rv, o)
				if k, _ := c.Op(su.line("resolve", rn, rv)); k != i {
					c.Op(su.line("classify", rn, rv))
					c.Check(o, k)
					c.Count("shrunk-failures")
				}
			}
			c.Check(o, i)
		} else {
			c.Tally(1)
		}
	}
}

func classify(oracle string, ops, res []string) string {
	if oracle == "ALL" && len(ops) == 1 {
		if c, ok := loadCase(ops[0], res[0]); ok {
			for _, o := range oracles {
				if c.verdict(o) != "" {
					oracle = o
					break
				}
			}
		}
	}
	if (oracle != "P2" && oracle != "P3" && oracle != "ES") || len(ops) != 1 {
		return ""
	}
	f := strings.Fields(ops[0])
	if len(f) < 3 {
		return ""
	}
	u, rn, rv, ok := decode(f[2:])
	if !ok {
		return ""
	}
	cl := classifyLine(u, rn, rv)
	if oracle == "P2" && strings.Contains(cl, "late=1") {
		return "F-C08-extras"
	}
	if oracle == "P2" && strings.Contains(cl, "route=1") {
		return "F-C08-route"
	}
	if strings.Contains(cl, "stale=1") {
		return "F-C08-stale"
	}
	return ""
}

func run(c *fw.Ctx) {
	// small-scope stream
	nSmall := c.N(400, 10000)
	total := 3 * 3 * 3 * 5 * 5 * 5 * 5 * 5 * 5 * 5 // upper bound of the index space
	stride := total/nSmall + 1
	var jobs []job
	for idx := c.Rng.Intn(stride); idx < total; idx += stride {
		u := smallUniverse(idx)
		var roots [][2]string
		for _, p := range u.Pkgs {
			for _, v := range p.Vers {
				roots = append(roots, [2]string{p.Name, v.V})
			}
		}
		jobs = append(jobs, job{u, roots, "small"})
	}
	// random stream
	nRand := c.N(1300, 75000)
	for k := 0; k < nRand; k++ {
		r := c.Rng
		o := genOpts{nPkg: 3 + r.Intn(6), maxVers: 1 + r.Intn(6), maxReqs: 2 + r.Intn(3)}
		switch r.Intn(10) {
		case 0, 1, 2:
			// plain
		case 3, 4, 5:
			o.markers, o.extras = 30, 0
		case 6, 7, 8:
			o.markers, o.extras = 40, 30
		default:
			o.markers, o.extras, o.malformed = 30, 20, true
		}
		o.gadget = r.Intn(3) == 0
		o.friendly = r.Intn(5) < 3
		if r.Intn(4) == 0 {
			// larger, mostly satisfiable universes: deeper graphs
			o.nPkg, o.maxVers, o.maxReqs, o.friendly, o.gadget = 6+r.Intn(5), 1+r.Intn(4), 3+r.Intn(2), true, r.Intn(4) == 0
		}
		o.route = r.Intn(25) == 0
		o.late = r.Intn(25) == 0
		o.leak = r.Intn(12) == 0
		o.holes = !o.leak && r.Intn(10) == 0
		u := genUniverse(r, o)
		var all [][2]string
		for _, p := range u.Pkgs {
			for _, v := range p.Vers {
				all = append(all, [2]string{p.Name, v.V})
			}
		}
		r.Shuffle(len(all), func(i, j int) { all[i], all[j] = all[j], all[i] })
		sort.SliceStable(all, func(i, j int) bool {
			return len(u.find(all[i][0]).find(all[i][1]).Reqs) > len(u.find(all[j][0]).find(all[j][1]).Reqs)
		})
		if len(all) > 3 {
			all = all[:3]
		}
		if o.leak {
			all = append([][2]string{{"qroot", "1.0"}}, all...)
			if len(all) > 3 {
				all = all[:3]
			}
		}
		if o.holes {
			all = append([][2]string{{"hroot", "1.0"}}, all...)
			if len(all) > 3 {
				all = all[:3]
			}
		}
		tag := "random"
		if o.leak {
			tag = "random-leak-gadget"
		}
		if o.holes {
			tag = "random-holes-gadget"
		}
		if o.malformed {
			tag = "random-malformed"
		}
		jobs = append(jobs, job{u, all, tag})
	}
	// run jobs on a few workers; op order in the files does not matter (ops are
	// independent), the set of ops is determined by the seed
	var wg sync.WaitGroup
	ch := make(chan job)
	for w := 0; w < 8; w++ {
		wg.Add(1)
		go func() {
			defer wg.Done()
			for j := range ch {
				for _, rt := range j.roots {
					emit(c, j.u, rt[0], rt[1], j.tag)
				}
			}
		}()
	}
	for _, j := range jobs {
		ch <- j
	}
	close(ch)
	wg.Wait()
}
