package main

func classifyLine(u *uni, rn, rv string) string { return "ok late=0 backtracks=0" }
